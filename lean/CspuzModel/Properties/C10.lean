/-
  C10 — crossable loop/path constraint admits exactly single self-crossing trails.
-/
import CspuzModel.Proofs.C10
import CspuzModel.Proofs.C10Gen
namespace Cspuz.C10
open Cspuz Cspuz.Spec

/-- FULL statement: for every frame size, both modes and both routes (auxiliary / native connectivity),
with the frame's own (fresh) edge variables: the emitted constraints are satisfiable for a given set
of active segments iff the degree rules hold and all active segments belong to one strand, and then
the two returned arrays are true exactly at the visited points and at the 4-way points. -/
def statement (prim : Bool) : Prop :=
  ∀ (H W base : Nat) (singleCycle : Bool) (p : Prog) (ps cr : List Expr) (σ : Asg),
    base = Frame.numVars H W →
    connectedCrossable (Frame.fresh 0 H W) singleCycle prim base = .ok (p, ps, cr) →
    let act := segActive (Frame.fresh 0 H W) σ
    (Realizable base p σ ↔ CrossableOK H W act singleCycle) ∧
    (∀ σ', AgreeBelow base σ σ' → SatFrag base p σ' →
      ∀ y x, y ≤ H → x ≤ W →
        σ'.b (base + y * (W + 1) + x) = decide (0 < pointDegree H W act y x) ∧
        σ'.b (base + (H + 1) * (W + 1) + y * (W + 1) + x) = decide (pointDegree H W act y x = 4)) ∧
    ps = (List.range ((H + 1) * (W + 1))).map (fun i => Expr.bvar (base + i)) ∧
    cr = (List.range ((H + 1) * (W + 1))).map (fun i => Expr.bvar (base + (H + 1) * (W + 1) + i))

theorem C10_exact_aux : statement false := Cspuz.Proofs.C10.exact_aux
theorem C10_exact_prim : statement true := Cspuz.Proofs.C10.exact_prim

/-- The statements above are not vacuous for any size: the generator succeeds on every fresh frame
(heights and widths 0 included), in both modes and on both routes. -/
def statement_total : Prop :=
  ∀ (H W : Nat) (singleCycle prim : Bool),
    ∃ r, connectedCrossable (Frame.fresh 0 H W) singleCycle prim (Frame.numVars H W) = .ok r

theorem C10_total : statement_total := Cspuz.Proofs.C10.total

/-! ### Non-vacuity: the 1 × 1 frame (segments h(0,0)=0, h(1,0)=1, v(0,0)=2, v(0,1)=3; `base = 4`) -/

/-- The generator succeeds on the 1 × 1 frame, on both routes and in both modes. -/
example : (∃ r, connectedCrossable (Frame.fresh 0 1 1) true false 4 = .ok r) ∧
    (∃ r, connectedCrossable (Frame.fresh 0 1 1) true true 4 = .ok r) ∧
    (∃ r, connectedCrossable (Frame.fresh 0 1 1) false false 4 = .ok r) ∧
    (∃ r, connectedCrossable (Frame.fresh 0 1 1) false true 4 = .ok r) :=
  ⟨⟨_, rfl⟩, ⟨_, rfl⟩, ⟨_, rfl⟩, ⟨_, rfl⟩⟩

/-- The unit square with all four segments active is a single closed strand. -/
theorem unitSquare_ok (act : LSeg → Bool) (hact : ∀ s : LSeg, s.valid 1 1 → act s = true) :
    CrossableOK 1 1 act true := Cspuz.Proofs.C10.unitSquare_ok act hact

/-- Hence (by `C10_exact_aux` / `C10_exact_prim`) the emitted constraints are satisfiable when all four
segment variables of the 1 × 1 frame are true, on both routes. -/
example : ∀ prim : Bool, ∃ p ps cr, connectedCrossable (Frame.fresh 0 1 1) true prim 4 = .ok (p, ps, cr) ∧
    Realizable 4 p { b := fun _ => true, i := fun _ => 0 } := by
  intro prim
  have hex : ∃ r, connectedCrossable (Frame.fresh 0 1 1) true prim 4 = .ok r := by
    cases prim <;> exact ⟨_, rfl⟩
  obtain ⟨⟨p, ps, cr⟩, hr⟩ := hex
  refine ⟨p, ps, cr, hr, ?_⟩
  have hst : statement prim := by
    cases prim
    · exact C10_exact_aux
    · exact C10_exact_prim
  refine ((hst 1 1 4 true p ps cr _ rfl hr).1).2 (unitSquare_ok _ ?_)
  intro s hs
  cases s with
  | h y x =>
    obtain ⟨h1, h2⟩ := hs
    have hx : x = 0 := by omega
    have hy : y = 0 ∨ y = 1 := by omega
    subst hx
    rcases hy with rfl | rfl <;> simp [segActive, truthAt, Frame.fresh, bvars, Cspuz.Proofs.eval_bvar]
  | v y x =>
    obtain ⟨h1, h2⟩ := hs
    have hy : y = 0 := by omega
    have hx : x = 0 ∨ x = 1 := by omega
    subst hy
    rcases hx with rfl | rfl <;> simp [segActive, truthAt, Frame.fresh, bvars, Cspuz.Proofs.eval_bvar]

/-! ## The general statement: any well-formed frame of Boolean expressions, any `base`

In real use a `BoolGridFrame` is rarely the solver's first allocation: other variables come before it
(offset `b0 > 0`) and after it, the frame may be `inner.dual()` (the same variables, arrays swapped) or
hold arbitrary Boolean expressions (e.g. negated variables).  The statements below quantify over
EVERY frame `f` whose two arrays have the shapes of a `BoolGridFrame` (`FrameWF f`) and whose entries
are well-typed Boolean expressions over the caller's variables `0 … base-1` (`BoolArgs base …`, as in
C04/C06); the generator's auxiliary variables are `base, base+1, …`. -/

/-- GENERAL statement (both modes; `prim`: native / auxiliary connectivity route). -/
def statement_general (prim : Bool) : Prop :=
  ∀ (f : Frame) (base : Nat) (singleCycle : Bool) (p : Prog) (ps cr : List Expr) (σ : Asg),
    FrameWF f →
    BoolArgs base (f.horizontal.data ++ f.vertical.data) →
    connectedCrossable f singleCycle prim base = .ok (p, ps, cr) →
    let H := f.height
    let W := f.width
    let act := segActive f σ
    (Realizable base p σ ↔ CrossableOK H W act singleCycle) ∧
    (∀ σ', AgreeBelow base σ σ' → SatFrag base p σ' →
      ∀ y x, y ≤ H → x ≤ W →
        σ'.b (base + y * (W + 1) + x) = decide (0 < pointDegree H W act y x) ∧
        σ'.b (base + (H + 1) * (W + 1) + y * (W + 1) + x) = decide (pointDegree H W act y x = 4)) ∧
    ps = (List.range ((H + 1) * (W + 1))).map (fun i => Expr.bvar (base + i)) ∧
    cr = (List.range ((H + 1) * (W + 1))).map (fun i => Expr.bvar (base + (H + 1) * (W + 1) + i))

theorem C10_general_aux : statement_general false := Cspuz.Proofs.C10Gen.exact_gen false
theorem C10_general_prim : statement_general true := Cspuz.Proofs.C10Gen.exact_gen true

/-- The general statements are not vacuous: the generator succeeds on every well-formed frame of
Boolean expressions over the caller's variables (all sizes, every `base`, both modes, both routes). -/
def statement_general_total : Prop :=
  ∀ (f : Frame) (base : Nat) (singleCycle prim : Bool),
    FrameWF f → BoolArgs base (f.horizontal.data ++ f.vertical.data) →
    ∃ r, connectedCrossable f singleCycle prim base = .ok r

theorem C10_general_total : statement_general_total := Cspuz.Proofs.C10Gen.total

/-- The hypotheses hold for `BoolGridFrame(solver, H, W)` allocated after `b0` other variables, with
the auxiliary variables allocated at any later `base` (more caller variables may lie in between). -/
def statement_fresh_ok : Prop :=
  ∀ (b0 H W base : Nat), b0 + Frame.numVars H W ≤ base →
    FrameWF (Frame.fresh b0 H W) ∧
    BoolArgs base ((Frame.fresh b0 H W).horizontal.data ++ (Frame.fresh b0 H W).vertical.data)

theorem C10_fresh_ok : statement_fresh_ok :=
  fun b0 H W base h => ⟨Cspuz.Proofs.C10Gen.fresh_wf b0 H W, Cspuz.Proofs.C10Gen.fresh_boolArgs b0 H W base h⟩

/-- The general statement contains the one for the solver's first allocation. -/
theorem C10_general_implies_exact (prim : Bool) : statement_general prim → statement prim := by
  intro h H W base sc p ps cr σ hb hp
  exact h (Frame.fresh 0 H W) base sc p ps cr σ (C10_fresh_ok 0 H W base (by omega)).1
    (C10_fresh_ok 0 H W base (by omega)).2 hp

/-! ### Non-vacuity of the general statement -/

/-- A frame allocated at offset 3 (segments h(0,0)=3, h(1,0)=4, v(0,0)=5, v(0,1)=6), two more caller
variables 7, 8 after it, auxiliary variables from `base = 9`: the hypotheses hold and the generator
succeeds on both routes and in both modes. -/
example : FrameWF (Frame.fresh 3 1 1) ∧
    BoolArgs (3 + 4 + 2) ((Frame.fresh 3 1 1).horizontal.data ++ (Frame.fresh 3 1 1).vertical.data) ∧
    (∃ r, connectedCrossable (Frame.fresh 3 1 1) true false (3 + 4 + 2) = .ok r) ∧
    (∃ r, connectedCrossable (Frame.fresh 3 1 1) true true (3 + 4 + 2) = .ok r) ∧
    (∃ r, connectedCrossable (Frame.fresh 3 1 1) false false (3 + 4 + 2) = .ok r) ∧
    (∃ r, connectedCrossable (Frame.fresh 3 1 1) false true (3 + 4 + 2) = .ok r) :=
  ⟨(C10_fresh_ok 3 1 1 9 (by decide)).1, (C10_fresh_ok 3 1 1 9 (by decide)).2,
    ⟨_, rfl⟩, ⟨_, rfl⟩, ⟨_, rfl⟩, ⟨_, rfl⟩⟩

/-- A 1 × 1 frame whose entries are NEGATED variables (`~b3, ~b4` horizontal, `~b5, ~b6` vertical). -/
def negFrame11 : Frame :=
  { height := 1, width := 1,
    horizontal := ⟨2, 1, [.node .not [.bvar 3], .node .not [.bvar 4]]⟩,
    vertical := ⟨1, 2, [.node .not [.bvar 5], .node .not [.bvar 6]]⟩ }

theorem negFrame11_ok : FrameWF negFrame11 ∧
    BoolArgs 9 (negFrame11.horizontal.data ++ negFrame11.vertical.data) := by
  refine ⟨⟨rfl, rfl, rfl, rfl, rfl, rfl⟩, ?_⟩
  intro e he
  simp only [negFrame11, List.cons_append, List.nil_append, List.mem_cons, List.not_mem_nil, or_false] at he
  rcases he with rfl | rfl | rfl | rfl <;> exact ⟨rfl, rfl⟩

example : (∃ r, connectedCrossable negFrame11 true false 9 = .ok r) ∧
    (∃ r, connectedCrossable negFrame11 true true 9 = .ok r) ∧
    (∃ r, connectedCrossable negFrame11 false false 9 = .ok r) ∧
    (∃ r, connectedCrossable negFrame11 false true 9 = .ok r) :=
  ⟨⟨_, rfl⟩, ⟨_, rfl⟩, ⟨_, rfl⟩, ⟨_, rfl⟩⟩

/-- `inner.dual()` for the inner frame of a 2 × 2 board allocated at offset 3: the same variables with
the two arrays swapped (horizontal = `[b5, b6]`, vertical = `[b3, b4]`) — also covered. -/
example : FrameWF (InnerFrame.fresh 3 2 2).dual ∧
    BoolArgs 9 ((InnerFrame.fresh 3 2 2).dual.horizontal.data ++ (InnerFrame.fresh 3 2 2).dual.vertical.data) ∧
    (∃ r, connectedCrossable (InnerFrame.fresh 3 2 2).dual false false 9 = .ok r) := by
  refine ⟨⟨rfl, rfl, rfl, rfl, rfl, rfl⟩, ?_, ⟨_, rfl⟩⟩
  intro e he
  change e ∈ [Expr.bvar 5, .bvar 6, .bvar 3, .bvar 4] at he
  simp only [List.mem_cons, List.not_mem_nil, or_false] at he
  rcases he with rfl | rfl | rfl | rfl <;> exact ⟨rfl, rfl⟩

/-- Hence (by `C10_general_aux` / `C10_general_prim`): with ALL variables false the four negated
entries are all active, the unit square is one closed strand, and the emitted constraints are
satisfiable — on both routes. -/
example : ∀ prim : Bool, ∃ p ps cr, connectedCrossable negFrame11 true prim 9 = .ok (p, ps, cr) ∧
    Realizable 9 p { b := fun _ => false, i := fun _ => 0 } := by
  intro prim
  have hex : ∃ r, connectedCrossable negFrame11 true prim 9 = .ok r := by
    cases prim <;> exact ⟨_, rfl⟩
  obtain ⟨⟨p, ps, cr⟩, hr⟩ := hex
  refine ⟨p, ps, cr, hr, ?_⟩
  have hst : statement_general prim := by
    cases prim
    · exact C10_general_aux
    · exact C10_general_prim
  refine ((hst negFrame11 9 true p ps cr _ negFrame11_ok.1 negFrame11_ok.2 hr).1).2 (unitSquare_ok _ ?_)
  intro s hs
  cases s with
  | h y x =>
    obtain ⟨h1, h2⟩ := hs
    have hx : x = 0 := by omega
    have hy : y = 0 ∨ y = 1 := by omega
    subst hx
    rcases hy with rfl | rfl <;> rfl
  | v y x =>
    obtain ⟨h1, h2⟩ := hs
    have hy : y = 0 := by omega
    have hx : x = 0 ∨ x = 1 := by omega
    subst hy
    rcases hx with rfl | rfl <;> rfl

/-- The same for the frame allocated at offset 3 (`base = 9`) with all variables true. -/
example : ∀ prim : Bool, ∃ p ps cr, connectedCrossable (Frame.fresh 3 1 1) true prim 9 = .ok (p, ps, cr) ∧
    Realizable 9 p { b := fun _ => true, i := fun _ => 0 } := by
  intro prim
  have hex : ∃ r, connectedCrossable (Frame.fresh 3 1 1) true prim 9 = .ok r := by
    cases prim <;> exact ⟨_, rfl⟩
  obtain ⟨⟨p, ps, cr⟩, hr⟩ := hex
  refine ⟨p, ps, cr, hr, ?_⟩
  have hst : statement_general prim := by
    cases prim
    · exact C10_general_aux
    · exact C10_general_prim
  refine ((hst (Frame.fresh 3 1 1) 9 true p ps cr _ (C10_fresh_ok 3 1 1 9 (by decide)).1
    (C10_fresh_ok 3 1 1 9 (by decide)).2 hr).1).2 (unitSquare_ok _ ?_)
  intro s hs
  cases s with
  | h y x =>
    obtain ⟨h1, h2⟩ := hs
    have hx : x = 0 := by omega
    have hy : y = 0 ∨ y = 1 := by omega
    subst hx
    rcases hy with rfl | rfl <;> rfl
  | v y x =>
    obtain ⟨h1, h2⟩ := hs
    have hy : y = 0 := by omega
    have hx : x = 0 ∨ x = 1 := by omega
    subst hy
    rcases hx with rfl | rfl <;> rfl

end Cspuz.C10
