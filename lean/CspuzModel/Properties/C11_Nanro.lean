/-
  C11 / Nanro — the program posted by `solve_nanro` encodes the published rules of Nanro
  (Spec/PuzzleRules/Nanro.lean), for every board shape, every partition of the board into regions (connected or
  not) and every table of givens.  Together with `Cspuz.C11.C11_compose` this yields the property for
  `solve_nanro`.
-/
import CspuzModel.Proofs.C11Nanro
namespace Cspuz.C11.Nanro
open Cspuz Cspuz.Spec Cspuz.Puzzles.Nanro Cspuz.Spec.Nanro

/-- For every well-formed instance (any height, width ≥ 1, regions that partition the board, a `height × width`
table of givens), whenever the model of `solve_nanro` returns the posted program `P`: an answer grid (one integer
per cell, `0` = no number) extends to a model of `P` — hidden variables included: `has_num`, the rank / root
variables of the connectivity encoding and the per-region counters `nonempty` — iff it obeys the rules of Nanro;
the answer keys are distinct declared variables; every posted constraint is a well-typed Boolean tree. -/
def statement : Prop :=
  ∀ pb : Problem, WellFormed pb → ∀ P : PuzzleProg, program pb = .ok P →
    EncodesRules P (Rules pb) ∧ P.KeysOk ∧ (∀ c ∈ P.cs, wtB c = true)

theorem program_iff_rules : statement := Cspuz.Proofs.C11Nanro.main

/-- `solve_nanro` does not raise on a well-formed instance. -/
theorem total : ∀ pb : Problem, WellFormed pb → ∃ P, program pb = .ok P := Cspuz.Proofs.C11Nanro.total

/-! ### non-vacuity -/

/-- A 2 × 3 board (height < width): an L-shaped region of three cells, a domino and a single cell; the given 2
sits in a corner.
```
 A A B        2 . .
 A C B        . . .
``` -/
def exPb : Problem :=
  { height := 2, width := 3,
    blocks := [[(0, 0), (0, 1), (1, 0)], [(0, 2), (1, 2)], [(1, 1)]],
    num := [[2, 0, 0], [0, 0, 0]] }

theorem exPb_wf : WellFormed exPb := by
  refine ⟨by decide, by decide, by decide, by decide, by decide, by decide, by decide⟩

/-- 6 `has_num` definitions + 7 connectivity constraints + (1 + 3) + (1 + 2) + (1 + 1) region constraints +
1 given + 2 squares + 1 vertical and 3 horizontal region borders; the keys are the six cell variables, allocated
after the six `has_num` Booleans. -/
example : WellFormed exPb ∧ ∃ P, program exPb = .ok P ∧ P.cs.length = 6 + 7 + 9 + (1 + 2 + 1 + 3) ∧
    P.keys = [6, 7, 8, 9, 10, 11] ∧ P.decls.length = 6 + 6 + 12 + 3 :=
  ⟨exPb_wf, _, rfl, by decide, by decide, by decide⟩

/-- A 3 × 1 board (height > width) with one region per cell is well-formed (and unsolvable: the three 1s would
touch across region borders). -/
def exPb2 : Problem :=
  { height := 3, width := 1, blocks := [[(0, 0)], [(1, 0)], [(2, 0)]], num := [[0], [0], [0]] }

example : WellFormed exPb2 ∧ ∃ P, program exPb2 = .ok P ∧ P.keys = [3, 4, 5] :=
  ⟨by refine ⟨by decide, by decide, by decide, by decide, by decide, by decide, by decide⟩, _, rfl, by decide⟩

end Cspuz.C11.Nanro
