/-
  C11 for `solve_slitherlink` - the posted program encodes the published rules of Slitherlink
  (Spec/PuzzleRules/Slitherlink.lean) for every board size (1 × N and N × 1 included) and every clue layout.
  Together with `Cspuz.C11.C11_compose` this yields the property for this puzzle.
-/
import CspuzModel.Proofs.C11Slitherlink
import CspuzModel.Proofs.C11LoopEx
namespace Cspuz.C11.Slitherlink
open Cspuz Cspuz.Spec Cspuz.Puzzles.Slitherlink Cspuz.Spec.Slitherlink

/-- For every well-formed problem instance, the program `solve_slitherlink` posts (model: `program`, auxiliary-variable
route of the cycle constraint, which is what the z3 backend configuration selects) encodes the rules: an answer list
extends to a model of the whole program (hidden rank / root / is_passed variables included) iff it is the list of
a set of border segments forming one loop (or nothing) that gives every numbered cell its number of drawn sides;
the answer keys are distinct declared variables; every constraint is a well-typed Boolean tree. -/
def statement : Prop :=
  ∀ pb : Problem, WellFormed pb → ∀ P, program pb = .ok P →
    EncodesRules P (Rules pb) ∧ P.KeysOk ∧ (∀ c ∈ P.cs, wtB c = true)

theorem program_iff_rules : statement := Cspuz.Proofs.C11Slitherlink.main

/-- `solve_slitherlink` raises nothing on a well-formed instance. -/
theorem total : ∀ pb : Problem, WellFormed pb → ∃ P, program pb = .ok P := Cspuz.Proofs.C11Slitherlink.total

/-! ### non-vacuity: a 1 × 2 board with clues 3 and "none" -/

def exPb : Problem := { height := 1, width := 2, problem := [[3, -1]] }

example : WellFormed exPb := by
  refine ⟨rfl, ?_⟩
  intro row hr
  simp only [exPb, List.mem_singleton] at hr
  subst hr; rfl

example : ∃ P, program exPb = .ok P ∧ P.keys = List.range 7 ∧ P.decls.length = 25 := by
  refine ⟨_, Cspuz.Proofs.C11Slitherlink.program_eq (pb := exPb) ⟨rfl, ?_⟩, rfl, ?_⟩
  · intro row hr
    simp only [exPb, List.mem_singleton] at hr
    subst hr; rfl
  · simp [Cspuz.Proofs.C11Loop.cyc_decls_length, Frame.numVars, exPb]

/-! ### non-vacuity of the rules: the 1 × 1 board with clue 4 is solved by the loop around the cell, and hence (by the
theorem) the posted program has a model with all four segment variables true -/

def exPb4 : Problem := { height := 1, width := 1, problem := [[4]] }

theorem exPb4_wf : WellFormed exPb4 := by
  refine ⟨rfl, ?_⟩
  intro row hr
  simp only [exPb4, List.mem_singleton] at hr
  subst hr; rfl

open Cspuz.Spec.Loop in
theorem exPb4_rules : Rules exPb4 (segAnswer 1 1 fun _ => true) := by
  refine ⟨fun _ => true, rfl, Cspuz.Proofs.C11LoopEx.unitLoop, ?_⟩
  intro y hy x hx _
  have hy0 : y = 0 := by simp only [exPb4] at hy; omega
  have hx0 : x = 0 := by simp only [exPb4] at hx; omega
  subst hy0 hx0
  decide

open Cspuz.Spec.Loop in
example : ∃ P σ, program exPb4 = .ok P ∧ Sat P.decls P.cs σ ∧
    P.keyVals σ = (segAnswer 1 1 fun _ => true).map some := by
  obtain ⟨P, hP⟩ := total exPb4 exPb4_wf
  obtain ⟨σ, hσ, hk⟩ := ((program_iff_rules exPb4 exPb4_wf P hP).1 _).mpr exPb4_rules
  exact ⟨P, σ, hP, hσ, hk⟩

end Cspuz.C11.Slitherlink
