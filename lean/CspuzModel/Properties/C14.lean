/-
  C14 — BoolGridFrame accessors are consistent with the lattice geometry.
  Property theorems only; lemmas live in Proofs/C14.lean; the geometry is Spec/FrameGeom.lean.

  Everything is quantified over ALL heights and widths (0 and 1 included), all variable offsets `base`
  (the number of Boolean variables the solver had before the frame was created) and ALL integer coordinates.
-/
import CspuzModel.Proofs.C14
namespace Cspuz.C14
open Cspuz Cspuz.Spec.FrameGeom
open Cspuz.Proofs.C14 (border)

/-- `frame[Y, X]` (doubled coordinates) is decided exactly by the geometry.
Explicit form: inside `0 ≤ Y ≤ 2H`, `0 ≤ X ≤ 2W`, (even, odd) is the horizontal segment `h(Y/2, X/2)`, (odd, even)
the vertical segment `v(Y/2, X/2)`; equal parities (a lattice point or a cell centre) or any coordinate outside the
range - negative ones included - raise `IndexError`.  The three cases are exhaustive.
Geometric form: if a segment of the frame has its midpoint at `(Y, X)` the result is the variable of that
segment; if no segment does, `IndexError`; equivalently the result is what searching the segment set gives. -/
def statement_getitem : Prop :=
  ∀ (base H W : Nat) (Y X : Int),
    ((0 ≤ Y ∧ Y ≤ 2 * (H : Int) ∧ 0 ≤ X ∧ X ≤ 2 * (W : Int)) → Y % 2 = 0 → X % 2 = 1 →
        (Frame.fresh base H W).getitem Y X = .ok (.bvar (geomH base H W (Y / 2).toNat (X / 2).toNat))) ∧
    ((0 ≤ Y ∧ Y ≤ 2 * (H : Int) ∧ 0 ≤ X ∧ X ≤ 2 * (W : Int)) → Y % 2 = 1 → X % 2 = 0 →
        (Frame.fresh base H W).getitem Y X = .ok (.bvar (geomV base H W (Y / 2).toNat (X / 2).toNat))) ∧
    ((¬ (0 ≤ Y ∧ Y ≤ 2 * (H : Int) ∧ 0 ≤ X ∧ X ≤ 2 * (W : Int)) ∨ Y % 2 = X % 2) →
        (Frame.fresh base H W).getitem Y X = .error .indexError) ∧
    (∀ s : Seg, s.Valid H W → s.mid = (Y, X) →
        (Frame.fresh base H W).getitem Y X = .ok (.bvar (s.var base H W))) ∧
    ((∀ s : Seg, s.Valid H W → s.mid ≠ (Y, X)) → (Frame.fresh base H W).getitem Y X = .error .indexError) ∧
    (Frame.fresh base H W).getitem Y X =
      (match segAt H W Y X with
       | some s => .ok (.bvar (s.var base H W))
       | none => .error .indexError)

theorem C14_getitem : statement_getitem := Cspuz.Proofs.C14.getitem_statement

/-- `cell_neighbors(y, x)`: for a cell of the board the result is `[h(y,x), h(y+1,x), v(y,x), v(y,x+1)]`
(upper, lower, left, right side); these four are pairwise different and are exactly the segments of the frame that
have the cell on one of their two sides (= what filtering the segment set by `Bounds` gives).
For every other integer pair: `IndexError`. -/
def statement_cell : Prop :=
  ∀ (base H W : Nat) (y x : Int),
    (CellValid H W (y, x) →
      (Frame.fresh base H W).cellNeighbors y x =
        .ok [.bvar (geomH base H W y.toNat x.toNat), .bvar (geomH base H W (y.toNat + 1) x.toNat),
             .bvar (geomV base H W y.toNat x.toNat), .bvar (geomV base H W y.toNat (x.toNat + 1))] ∧
      (∀ s : Seg, s ∈ cellSegs y.toNat x.toNat ↔ (s.Valid H W ∧ s.Bounds (y, x))) ∧
      (cellSegs y.toNat x.toNat).Nodup ∧
      (segsOfCell H W (y, x)).Perm (cellSegs y.toNat x.toNat)) ∧
    (¬ CellValid H W (y, x) → (Frame.fresh base H W).cellNeighbors y x = .error .indexError)

theorem C14_cell : statement_cell := Cspuz.Proofs.C14.cell_statement

/-- `vertex_neighbors(y, x)`: for a lattice point the result lists, in the order up `v(y-1,x)` (if `y > 0`),
down `v(y,x)` (if `y < H`), left `h(y,x-1)` (if `x > 0`), right `h(y,x)` (if `x < W`) - `pointSegs` - the variables
of exactly the segments of the frame that end in the point, each once.  Every other integer pair: `IndexError`. -/
def statement_vertex : Prop :=
  ∀ (base H W : Nat) (y x : Int),
    ((0 ≤ y ∧ y ≤ (H : Int) ∧ 0 ≤ x ∧ x ≤ (W : Int)) →
      (Frame.fresh base H W).vertexNeighbors y x =
        .ok ((pointSegs H W y.toNat x.toNat).map fun s => .bvar (s.var base H W)) ∧
      (∀ s : Seg, s ∈ pointSegs H W y.toNat x.toNat ↔ (s.Valid H W ∧ s.Touches (y.toNat, x.toNat))) ∧
      (pointSegs H W y.toNat x.toNat).Nodup ∧
      (segsOfPoint H W (y.toNat, x.toNat)).Perm (pointSegs H W y.toNat x.toNat)) ∧
    (¬ (0 ≤ y ∧ y ≤ (H : Int) ∧ 0 ≤ x ∧ x ≤ (W : Int)) →
      (Frame.fresh base H W).vertexNeighbors y x = .error .indexError)

theorem C14_vertex : statement_vertex := Cspuz.Proofs.C14.vertex_statement

/-- `_from_grid_frame(frame)` never raises; it returns as many edge expressions as graph edges, the graph has
`(H+1)(W+1)` vertices, and position by position the expression is the variable of a segment of the frame and the
graph edge is the pair of numbers (`(y, x) ↦ y(W+1)+x`) of the two lattice points that segment joins. -/
def statement_graph : Prop :=
  ∀ (base H W : Nat), ∃ (edges : List Expr) (g : Graph),
    fromGridFrame (Frame.fresh base H W) = .ok (edges, g) ∧
    edges.length = g.edges.length ∧ g.n = (H + 1) * (W + 1) ∧
    (∀ i, i < edges.length → ∃ s : Seg, s.Valid H W ∧
        edges[i]? = some (.bvar (s.var base H W)) ∧
        g.edges[i]? = some (ptIndex W s.ends.1, ptIndex W s.ends.2))

theorem C14_graph : statement_graph := Cspuz.Proofs.C14.graph_statement

/-- The names used above are faithful: the numbering of lattice points is injective and below the vertex count, a
segment joins two different points of the frame, different segments carry different variables (all inside the block
`base … base + numVars - 1` the frame allocated), a position in doubled coordinates determines the segment, and that
position is at the same time the midpoint of the centres of the two cells the segment separates - "each edge
variable joins the two lattice points, and separates the two cells, that its position says it does". -/
def statement_names : Prop :=
  ∀ (H W : Nat),
    (∀ p q : Pt, PtValid H W p → PtValid H W q → ptIndex W p = ptIndex W q → p = q) ∧
    (∀ p : Pt, PtValid H W p → ptIndex W p < (H + 1) * (W + 1)) ∧
    (∀ s : Seg, s.Valid H W → PtValid H W s.ends.1 ∧ PtValid H W s.ends.2 ∧ s.ends.1 ≠ s.ends.2) ∧
    (∀ (base : Nat) (s t : Seg), s.Valid H W → t.Valid H W → s.var base H W = t.var base H W → s = t) ∧
    (∀ (base : Nat) (s : Seg), s.Valid H W → base ≤ s.var base H W ∧ s.var base H W < base + Frame.numVars H W) ∧
    (∀ s t : Seg, s.mid = t.mid → s = t) ∧
    (∀ s : Seg, 2 * s.mid.1 = (2 * s.sides.1.1 + 1) + (2 * s.sides.2.1 + 1) ∧
                2 * s.mid.2 = (2 * s.sides.1.2 + 1) + (2 * s.sides.2.2 + 1))

theorem C14_names : statement_names := Cspuz.Proofs.C14.points_statement

/-- `all_edges()` / `__iter__` is the horizontal array followed by the vertical array; the horizontal array is the
`(H+1) × W` array of the variables of `h(y, x)` in row-major order and `horizontal[y, x]` is the variable of `h(y, x)`,
likewise vertical `H × (W+1)`; the enumeration contains every segment of the frame exactly once, so `all_edges()` has
no repetition, and it is a permutation of the edge list `_from_grid_frame` hands to the loop constraints. -/
def statement_iter : Prop :=
  ∀ (base H W : Nat),
    (Frame.fresh base H W).allEdges = (Frame.fresh base H W).horizontal.data ++ (Frame.fresh base H W).vertical.data ∧
    (Frame.fresh base H W).horizontal = ⟨H + 1, W, (hSegs H W).map fun s => .bvar (s.var base H W)⟩ ∧
    (Frame.fresh base H W).vertical = ⟨H, W + 1, (vSegs H W).map fun s => .bvar (s.var base H W)⟩ ∧
    (∀ y x : Nat, y ≤ H → x < W →
      (Frame.fresh base H W).horizontal.get (y : Int) (x : Int) = .ok (.bvar (geomH base H W y x))) ∧
    (∀ y x : Nat, y < H → x ≤ W →
      (Frame.fresh base H W).vertical.get (y : Int) (x : Int) = .ok (.bvar (geomV base H W y x))) ∧
    (∀ s : Seg, s ∈ allSegs H W ↔ s.Valid H W) ∧ (allSegs H W).Nodup ∧
    (Frame.fresh base H W).allEdges.Nodup ∧
    (∀ edges g, fromGridFrame (Frame.fresh base H W) = .ok (edges, g) → (Frame.fresh base H W).allEdges.Perm edges)

theorem C14_iter : statement_iter := Cspuz.Proofs.C14.iter_statement

/-- `dual()` swaps the two arrays and adds (`BoolGridFrame.dual`) / removes (`BoolInnerGridFrame.dual`) one row and
column; `dual(dual(f)) = f` for EVERY frame and for every inner frame of height, width ≥ 1; iterating the dual yields
the sequence of `all_edges()`.
Geometry: the lattice points of a `H × W` frame are the cells of the `(H+1) × (W+1)` board; `Seg.dual` sends the
segment joining two points to the border separating the same two cells and is a bijection between the segments of
the frame and the inner borders of the board (`Border.dual` is its inverse).  The variable stays on its segment:
reading border `s.dual` of `frame.dual()` gives the variable of `s`; and for a fresh inner frame, addressing its
`dual()` at the position of the segment joining two points gives the variable of the border between the two cells. -/
def statement_dual : Prop :=
  (∀ f : Frame, f.dual.height = f.height + 1 ∧ f.dual.width = f.width + 1 ∧
      f.dual.horizontal = f.vertical ∧ f.dual.vertical = f.horizontal) ∧
  (∀ g : InnerFrame, g.dual.height = g.height - 1 ∧ g.dual.width = g.width - 1 ∧
      g.dual.horizontal = g.vertical ∧ g.dual.vertical = g.horizontal) ∧
  (∀ f : Frame, f.dual.dual = f) ∧
  (∀ g : InnerFrame, 1 ≤ g.height → 1 ≤ g.width → g.dual.dual = g) ∧
  (∀ f : Frame, f.dual.iter = f.allEdges) ∧
  (∀ (H W : Nat) (s : Seg),
      (s.Valid H W ↔ s.dual.Valid (H + 1) (W + 1)) ∧ s.dual.sides = s.ends ∧ s.dual.dual = s) ∧
  (∀ (H W : Nat) (b : Border),
      (b.Valid (H + 1) (W + 1) ↔ b.dual.Valid H W) ∧ b.dual.ends = b.sides ∧ b.dual.dual = b) ∧
  (∀ (base H W : Nat) (s : Seg), s.Valid H W →
      border (Frame.fresh base H W).dual s.dual = .ok (.bvar (s.var base H W))) ∧
  (∀ (base H W : Nat) (b : Border), b.Valid (H + 1) (W + 1) →
      border (InnerFrame.fresh base (H + 1) (W + 1)) b = .ok (.bvar (b.var base (H + 1) (W + 1))) ∧
      (InnerFrame.fresh base (H + 1) (W + 1)).dual.getitem b.dual.mid.1 b.dual.mid.2
        = .ok (.bvar (b.var base (H + 1) (W + 1))))

theorem C14_dual : statement_dual := Cspuz.Proofs.C14.dual_statement

/-! ### Non-vacuity: a 2 × 3 frame created after 5 other variables (17 segment variables 5 … 21) -/

example : (Frame.fresh 5 2 3).getitem 2 3 = .ok (.bvar 9) := by rfl          -- h(1,1) = 5 + 1·3 + 1
example : (Frame.fresh 5 2 3).getitem 3 6 = .ok (.bvar 21) := by rfl         -- v(1,3) = 5 + 9 + 1·4 + 3
example : (Frame.fresh 5 2 3).getitem 2 2 = .error .indexError := by rfl     -- a lattice point
example : (Frame.fresh 5 2 3).getitem (-1) 2 = .error .indexError := by rfl  -- negative: no wrap-around
example : (Frame.fresh 5 2 3).getitem 5 2 = .error .indexError := by rfl
example : segAt 2 3 3 6 = some (Seg.v 1 3) := by decide
example : (Frame.fresh 5 2 3).cellNeighbors 1 2 = .ok [.bvar 10, .bvar 13, .bvar 20, .bvar 21] := by rfl
example : (Frame.fresh 5 2 3).cellNeighbors (-1) 0 = .error .indexError := by rfl
example : (Frame.fresh 5 2 3).vertexNeighbors 0 3 = .ok [.bvar 17, .bvar 7] := by rfl
example : (Frame.fresh 5 2 3).vertexNeighbors 1 1 = .ok [.bvar 15, .bvar 19, .bvar 8, .bvar 9] := by rfl
example : (Frame.fresh 0 0 0).vertexNeighbors 0 0 = .ok [] := by rfl
example : (fromGridFrame (Frame.fresh 0 1 1)).map (fun r => (r.1, r.2.n, r.2.edges)) =
    .ok ([.bvar 2, .bvar 0, .bvar 3, .bvar 1], 4, [(0, 2), (0, 1), (1, 3), (2, 3)]) := by rfl
example : border (Frame.fresh 5 2 3).dual (Seg.h 1 1).dual = .ok (.bvar 9) := by rfl

end Cspuz.C14
