/-
  C06 — active_edges_single_cycle / single_path admit exactly one simple cycle / path.
-/
import CspuzModel.Proofs.C06
namespace Cspuz.C06
open Cspuz Cspuz.Spec

/-- FULL statement for the cycle (auxiliary-variable route): for every loop-free multigraph, every
list of well-typed Boolean edge flags and every assignment of the caller's variables, the emitted
constraints are satisfiable iff the active edges are empty or form exactly one simple cycle (as a
cyclic sequence of distinct vertices and distinct edges), and in every satisfying assignment the
returned `is_passed` variables (ids `base … base+n-1`) are true exactly at the visited vertices. -/
def statement_cycle (prim : Bool) : Prop :=
  ∀ (g : Graph) (ie : List Expr) (base : Nat) (p : Prog) (ids : List Expr) (σ : Asg),
    g.wf = true → LoopFree g → ie.length = g.edges.length → BoolArgs base ie →
    singleCycle g ie prim base = .ok (p, ids) →
    ids = bvars base g.n ∧
    (Realizable base p σ ↔ SingleCycle g (truthAt σ ie)) ∧
    (∀ σ', AgreeBelow base σ σ' → SatFrag base p σ' →
      ∀ i, i < g.n → σ'.b (base + i) = visited g (truthAt σ ie) i)

/-- The same with the degree form of the specification ("every vertex meets 0 or 2 active edge ends
and the active edges are connected, or there is none"). `C06_regular_is_cycle` below connects the two
forms. -/
def statement_cycle_regular (prim : Bool) : Prop :=
  ∀ (g : Graph) (ie : List Expr) (base : Nat) (p : Prog) (ids : List Expr) (σ : Asg),
    g.wf = true → LoopFree g → ie.length = g.edges.length → BoolArgs base ie →
    singleCycle g ie prim base = .ok (p, ids) →
    ids = bvars base g.n ∧
    (Realizable base p σ ↔ RegularConnected g (truthAt σ ie)) ∧
    (∀ σ', AgreeBelow base σ σ' → SatFrag base p σ' →
      ∀ i, i < g.n → σ'.b (base + i) = visited g (truthAt σ ie) i)

theorem C06_cycle_regular_aux : statement_cycle_regular false := Cspuz.Proofs.C06.cycle_regular_aux
theorem C06_cycle_regular_prim : statement_cycle_regular true := Cspuz.Proofs.C06.cycle_regular_prim

/-- Pure graph theory: in a loop-free multigraph the degree form and the cyclic-sequence form agree. -/
def statement_regular_is_cycle : Prop :=
  ∀ (g : Graph) (act : Nat → Bool), g.wf = true → LoopFree g →
    (RegularConnected g act ↔ SingleCycle g act)

theorem C06_regular_is_cycle : statement_regular_is_cycle := Cspuz.Proofs.C06.regular_is_cycle

theorem C06_cycle_aux : statement_cycle false := Cspuz.Proofs.C06.cycle_aux
theorem C06_cycle_prim : statement_cycle true := Cspuz.Proofs.C06.cycle_prim

/-- `active_edges_single_path` (only the native-primitive route exists; the other raises
`RuntimeError`): satisfiable iff the active edges are empty or form one simple path of at least one
edge, and `is_passed` is exact. Degree form first, then the sequence form. -/
def statement_path_regular : Prop :=
  ∀ (g : Graph) (ie : List Expr) (base : Nat) (p : Prog) (ids : List Expr) (σ : Asg),
    g.wf = true → LoopFree g → ie.length = g.edges.length → BoolArgs base ie →
    singlePath g ie true base = .ok (p, ids) →
    ids = bvars base g.n ∧
    (Realizable base p σ ↔ PathRegular g (truthAt σ ie)) ∧
    (∀ σ', AgreeBelow base σ σ' → SatFrag base p σ' →
      ∀ i, i < g.n → σ'.b (base + i) = visited g (truthAt σ ie) i)

theorem C06_path_regular : statement_path_regular := Cspuz.Proofs.C06.path_regular

def statement_regular_is_path : Prop :=
  ∀ (g : Graph) (act : Nat → Bool), g.wf = true → LoopFree g →
    (PathRegular g act ↔ SinglePath g act)

theorem C06_regular_is_path : statement_regular_is_path := Cspuz.Proofs.C06.regular_is_path

def statement_path : Prop :=
  ∀ (g : Graph) (ie : List Expr) (base : Nat) (p : Prog) (ids : List Expr) (σ : Asg),
    g.wf = true → LoopFree g → ie.length = g.edges.length → BoolArgs base ie →
    singlePath g ie true base = .ok (p, ids) →
    ids = bvars base g.n ∧
    (Realizable base p σ ↔ SinglePath g (truthAt σ ie)) ∧
    (∀ σ', AgreeBelow base σ σ' → SatFrag base p σ' →
      ∀ i, i < g.n → σ'.b (base + i) = visited g (truthAt σ ie) i)

theorem C06_path : statement_path := Cspuz.Proofs.C06.path_exact

/-- Without the primitive the path constraint is not implemented. -/
theorem C06_path_aux_unimplemented (g : Graph) (ie : List Expr) (base : Nat) :
    singlePath g ie false base = .error .runtimeError := Cspuz.Proofs.C06.path_aux_unimplemented g ie base

/-- Non-vacuity: for the triangle with all three edge flags true, every hypothesis of `statement_cycle`
holds, the generator succeeds, the specification's right-hand side holds, and hence (by the theorem)
the emitted constraints are realizable. -/
example : ∃ (g : Graph) (ie : List Expr) (base : Nat) (p : Prog) (ids : List Expr) (σ : Asg),
    g.wf = true ∧ LoopFree g ∧ ie.length = g.edges.length ∧ BoolArgs base ie ∧
    singleCycle g ie false base = .ok (p, ids) ∧ SingleCycle g (truthAt σ ie) ∧
    Realizable base p σ := by
  let g : Graph := { n := 3, edges := [(0, 1), (1, 2), (2, 0)] }
  let ie : List Expr := [.bvar 0, .bvar 1, .bvar 2]
  let σ : Asg := ⟨fun _ => true, fun _ => 0⟩
  have hwf : g.wf = true := by decide
  have hlf : LoopFree g := by
    intro e he
    simp only [g, List.mem_cons, List.not_mem_nil, or_false] at he
    rcases he with rfl | rfl | rfl <;> decide
  have hlen : ie.length = g.edges.length := rfl
  have hie : BoolArgs 3 ie := by
    intro e he
    simp only [ie, List.mem_cons, List.not_mem_nil, or_false] at he
    rcases he with rfl | rfl | rfl <;> simp [wtB, Expr.varsBelow]
  have hok := Cspuz.Proofs.C06L1.cyc_eq_prog (g := g) (ie := ie) (base := 3) (by decide) hwf hlen hie
  have hsc : SingleCycle g (truthAt σ ie) := by
    right
    refine ⟨[0, 1, 2], [0, 1, 2], by decide, by decide, rfl, by decide, ?_, ?_⟩
    · intro k hk
      have : k = 0 ∨ k = 1 ∨ k = 2 := by simp at hk; omega
      rcases this with rfl | rfl | rfl
      · exact ⟨0, 0, 1, rfl, rfl, rfl, Or.inl rfl⟩
      · exact ⟨1, 1, 2, rfl, rfl, rfl, Or.inl rfl⟩
      · exact ⟨2, 2, 0, rfl, rfl, rfl, Or.inl rfl⟩
    · intro e he
      have : e = 0 ∨ e = 1 ∨ e = 2 := by simp [g] at he; omega
      rcases this with rfl | rfl | rfl <;> simp [truthAt, ie, σ, Cspuz.Proofs.eval_bvar]
  exact ⟨g, ie, 3, _, _, σ, hwf, hlf, hlen, hie, hok, hsc,
    ((C06_cycle_aux g ie 3 _ _ σ hwf hlf hlen hie hok).2.1).2 hsc⟩

end Cspuz.C06
