/-
  C11 / akari — the program posted by `solve_akari` encodes the published rules of Akari (Light Up).
  Model: Model/Puzzles/Akari.lean; rules: Spec/PuzzleRules/Akari.lean; proofs: Proofs/C11Akari*.lean.
-/
import CspuzModel.Proofs.C11Akari
namespace Cspuz.C11.Akari
open Cspuz Cspuz.Spec Cspuz.Puzzles.Akari Cspuz.Spec.Akari

/-- On every well-formed Akari problem, whenever `solve_akari` gets as far as `solver.solve()`, the posted
program encodes the rules (an answer grid extends to a model of the posted constraints iff: lights stand on
white cells only, every white cell is illuminated, no two lights see each other, and every numbered black
cell has that many lights next to it), its answer keys are distinct declared variables, and every posted
constraint is a well-typed Boolean tree. -/
def statement : Prop :=
  ∀ pb : Problem, WellFormed pb → ∀ P, program pb = .ok P →
    EncodesRules P (Rules pb) ∧ P.KeysOk ∧ (∀ c ∈ P.cs, wtB c = true)

theorem program_iff_rules : statement :=
  fun pb h P hP => Cspuz.Proofs.C11Akari.program_iff_rules pb h P hP

/-- `solve_akari` raises no exception before `solver.solve()` on a well-formed problem. -/
theorem total : ∀ pb, WellFormed pb → ∃ P, program pb = .ok P :=
  fun pb h => Cspuz.Proofs.C11Akari.total pb h

/-! ### non-vacuity -/

/-- A 2 × 3 board with white cells, a black cell without a number and a black cell carrying `1` is
well-formed, and `solve_akari` posts a program on it. -/
example :
    let pb : Problem := { height := 2, width := 3, problem := [[-2, -1, -2], [1, -2, -2]] }
    WellFormed pb ∧ ∃ P, program pb = .ok P := by
  intro pb
  have hwf : WellFormed pb := by
    refine ⟨rfl, ?_⟩
    intro row hrow
    simp only [pb, List.mem_cons, List.not_mem_nil, or_false] at hrow
    rcases hrow with rfl | rfl
    · exact ⟨rfl, by decide⟩
    · exact ⟨rfl, by decide⟩
  exact ⟨hwf, total pb hwf⟩

end Cspuz.C11.Akari
