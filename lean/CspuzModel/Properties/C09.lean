/-
  C09 — active_edges_acyclic admits exactly the forests.
-/
import CspuzModel.Proofs.C09
namespace Cspuz.C09
open Cspuz Cspuz.Spec

/-- For every loop-free multigraph, every list of well-typed Boolean edge flags over the caller's
variables and every assignment of those, the emitted constraints are satisfiable (by a choice of the
hidden ranks) iff the active edges contain no cycle, two active parallel edges counting as a cycle. -/
def statement : Prop :=
  ∀ (g : Graph) (ie : List Expr) (base : Nat) (p : Prog) (σ : Asg),
    g.wf = true → LoopFree g → ie.length = g.edges.length → BoolArgs base ie →
    activeEdgesAcyclic g ie base = .ok p →
    (Realizable base p σ ↔ EdgesForest g (truthAt σ ie))

theorem C09_exact : statement := Cspuz.Proofs.C09.exact

/-- The generator succeeds on every well-formed call with at least one vertex. -/
def statement_total : Prop :=
  ∀ (g : Graph) (ie : List Expr) (base : Nat),
    0 < g.n → g.wf = true → ie.length = g.edges.length → BoolArgs base ie →
    ∃ p, activeEdgesAcyclic g ie base = .ok p

theorem C09_total : statement_total := Cspuz.Proofs.C09L1.total

end Cspuz.C09
