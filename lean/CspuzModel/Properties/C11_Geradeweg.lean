/-
  C11 for `solve_geradeweg` - the posted program encodes the published rules of Geradeweg
  (Spec/PuzzleRules/Geradeweg.lean) for every board size (1 × N and N × 1 included) and every layout of numbers
  (numbers in the first / last row and column included).
  Together with `Cspuz.C11.C11_compose` this yields the property for this puzzle.
-/
import CspuzModel.Proofs.C11Geradeweg
import CspuzModel.Proofs.C11LoopEx
namespace Cspuz.C11.Geradeweg
open Cspuz Cspuz.Spec Cspuz.Puzzles.Geradeweg Cspuz.Spec.Geradeweg

/-- For every well-formed problem instance, the program `solve_geradeweg` posts (model: `program`,
auxiliary-variable route of the cycle constraint) encodes the rules: an answer list extends to a model of the whole
program iff it is the list of a set of cell-to-cell steps forming one loop (or nothing) that passes through every
numbered cell and whose straight segments through a numbered cell have the length the number says; the answer
keys are distinct declared variables; every constraint is a well-typed Boolean tree. -/
def statement : Prop :=
  ∀ pb : Problem, WellFormed pb → ∀ P, program pb = .ok P →
    EncodesRules P (Rules pb) ∧ P.KeysOk ∧ (∀ c ∈ P.cs, wtB c = true)

theorem program_iff_rules : statement := Cspuz.Proofs.C11Geradeweg.main

/-- `solve_geradeweg` raises nothing on a well-formed instance. -/
theorem total : ∀ pb : Problem, WellFormed pb → ∃ P, program pb = .ok P := Cspuz.Proofs.C11Geradeweg.total

/-! ### non-vacuity: a 3 × 4 board with a number in a corner and one on the edge; and a 1 × 3 board -/

def exPb : Problem := { height := 3, width := 4, problem := [[3, 0, 0, 0], [0, 0, 0, 2], [0, 0, 0, 0]] }

theorem exPb_wf : WellFormed exPb := by
  refine ⟨by decide, by decide, rfl, ?_⟩
  intro row hr
  simp only [exPb, List.mem_cons, List.not_mem_nil, or_false] at hr
  rcases hr with rfl | rfl | rfl <;> rfl

example : ∃ P, program exPb = .ok P ∧ P.keys = List.range 17 := ⟨_, Cspuz.Proofs.C11Geradeweg.program_eq exPb exPb_wf, rfl⟩

def exPb1 : Problem := { height := 1, width := 3, problem := [[0, 1, 0]] }

example : WellFormed exPb1 := by
  refine ⟨by decide, by decide, rfl, ?_⟩
  intro row hr
  simp only [exPb1, List.mem_cons, List.not_mem_nil, or_false] at hr
  subst hr; rfl

/-! ### non-vacuity of the rules: the 2 × 2 board with a 1 in a corner is solved by the tour of its four cells (the
loop turns in the numbered cell, both segments have length 1), and hence the posted program has a model -/

def exPb2 : Problem := { height := 2, width := 2, problem := [[1, 0], [0, 0]] }

theorem exPb2_wf : WellFormed exPb2 := by
  refine ⟨by decide, by decide, rfl, ?_⟩
  intro row hr
  simp only [exPb2, List.mem_cons, List.not_mem_nil, or_false] at hr
  rcases hr with rfl | rfl <;> rfl

open Cspuz.Spec.Loop in
theorem exPb2_rules : Rules exPb2 (segAnswer 1 1 fun _ => true) := by
  refine ⟨fun _ => true, rfl, Cspuz.Proofs.C11LoopEx.unitLoop, ?_⟩
  intro y hy x hx hv
  have hy' : y = 0 ∨ y = 1 := by simp only [exPb2] at hy; omega
  have hx' : x = 0 ∨ x = 1 := by simp only [exPb2] at hx; omega
  rcases hy' with rfl | rfl <;> rcases hx' with rfl | rfl
  · refine ⟨by decide, fun _ => by decide, fun _ => by decide⟩
  · exact absurd hv (by decide)
  · exact absurd hv (by decide)
  · exact absurd hv (by decide)

open Cspuz.Spec.Loop in
example : ∃ P σ, program exPb2 = .ok P ∧ Sat P.decls P.cs σ ∧
    P.keyVals σ = (segAnswer 1 1 fun _ => true).map some := by
  obtain ⟨P, hP⟩ := total exPb2 exPb2_wf
  obtain ⟨σ, hσ, hk⟩ := ((program_iff_rules exPb2 exPb2_wf P hP).1 _).mpr exPb2_rules
  exact ⟨P, σ, hP, hσ, hk⟩

end Cspuz.C11.Geradeweg
