/-
  C11 / sudoku — `solve_sudoku` agrees with the published rules of Sudoku.
  Property theorems only; lemmas live in Proofs/C11Sudoku.lean (shared: Proofs/C11CL.lean, Proofs/C11Grid.lean).
-/
import CspuzModel.Proofs.C11Sudoku
namespace Cspuz.C11.Sudoku
open Cspuz Cspuz.Spec Cspuz.Puzzles.Sudoku

/-- For every well-formed instance (`n ≥ 1`, an `n² × n²` table of givens), the program `solve_sudoku` posts
(model `Puzzles.Sudoku.program`, tied to the code by the program correspondence of `./check C11`) encodes
exactly the rules of Sudoku (`Rules`, Spec/PuzzleRules/Sudoku.lean): an answer list extends to a model of
the program iff it is the row-major listing of a grid with a digit `1 … n²` in every cell in which every
row, column and `n × n` box contains every digit exactly once and the givens are kept.  Moreover the answer
keys are distinct declared variables and every constraint is well typed — the hypotheses of
`Cspuz.C11.C11_compose`, which turns this into the statement about what `solve_sudoku` reports. -/
def statement : Prop :=
  ∀ pb : Problem, WellFormed pb → ∀ P, program pb = .ok P →
    EncodesRules P (Rules pb) ∧ P.KeysOk ∧ (∀ c ∈ P.cs, wtB c = true)

theorem program_iff_rules : statement := Cspuz.Proofs.C11Sudoku.main

/-- `solve_sudoku` posts a program (raises no exception) on every well-formed instance. -/
theorem total : ∀ pb : Problem, WellFormed pb → ∃ P, program pb = .ok P := Cspuz.Proofs.C11Sudoku.total

/-- Non-vacuity: a concrete 4 × 4 instance (n = 2) with givens on the edge is well formed and the model
posts a program for it. -/
example : WellFormed { n := 2, cells := [[1, 0, 0, 0], [0, 0, 3, 0], [0, 4, 0, 0], [0, 0, 0, 2]] } := by
  refine ⟨by decide, by decide, ?_⟩
  intro row hrow
  simp only [List.mem_cons, List.mem_nil_iff, or_false] at hrow
  rcases hrow with rfl | rfl | rfl | rfl <;> rfl

example : (program { n := 2, cells := [[1, 0, 0, 0], [0, 0, 3, 0], [0, 4, 0, 0], [0, 0, 0, 2]] }).toOption.isSome
    = true := by decide +kernel

end Cspuz.C11.Sudoku
