/-
  C11 / Compass — the program posted by `solve_compass` encodes the published rules of Compass
  (Spec/PuzzleRules/Compass.lean), for every board shape, every number of compasses and every clue layout.
  Together with `Cspuz.C11.C11_compose` this yields the property for `solve_compass`.
-/
import CspuzModel.Proofs.C11Compass
namespace Cspuz.C11.Compass
open Cspuz Cspuz.Spec Cspuz.Puzzles.Compass Cspuz.Spec.Compass

/-- For every well-formed instance (any height and width, at least one compass, every compass on the board,
arbitrary sector numbers — negative = none), whenever the model of `solve_compass` returns the posted program
`P`: an answer grid (one integer per cell) extends to a model of `P` (hidden rank / is_root / spanning_forest
variables of the `division_connected` encoding included) iff it obeys the rules of Compass — every cell carries
the index of exactly one compass, the cells carrying index `i` form an orthogonally connected region containing
the cell of compass `i`, and every number of compass `i` equals the number of cells of region `i` in the
corresponding half-board; the answer keys are distinct declared variables; every posted constraint is a
well-typed Boolean tree. -/
def statement : Prop :=
  ∀ pb : Problem, WellFormed pb → ∀ P : PuzzleProg, program pb = .ok P →
    EncodesRules P (Rules pb) ∧ P.KeysOk ∧ (∀ c ∈ P.cs, wtB c = true)

theorem program_iff_rules : statement := Cspuz.Proofs.C11Compass.main

/-- `solve_compass` does not raise on a well-formed instance. -/
theorem total : ∀ pb : Problem, WellFormed pb → ∃ P, program pb = .ok P := Cspuz.Proofs.C11Compass.total

/-! ### non-vacuity -/

/-- A 1×3 board with compasses in both corners: the left one has one cell of its region to its right, the
right one none to its left (so the division is `0 0 1`). -/
def exPb : Problem :=
  { height := 1, width := 3,
    problem := [{ y := 0, x := 0, up := -1, lf := -1, dw := -1, rg := 1 },
                { y := 0, x := 2, up := -1, lf := 0, dw := -1, rg := -1 }] }

theorem exPb_wf : WellFormed exPb := by
  refine ⟨by decide, ?_⟩
  intro c hc
  simp only [exPb, List.mem_cons, List.not_mem_nil, or_false] at hc
  rcases hc with rfl | rfl <;> decide

example : WellFormed exPb ∧ ∃ P, program exPb = .ok P ∧ P.keys = [0, 1, 2] ∧ P.decls.length = 3 + (3 + 3 + 2) ∧
    P.cs.length = (2 + 3) + 2 + (2 + 2) + (2 + 2) :=
  ⟨exPb_wf, _, rfl, by decide, by decide, by decide⟩

end Cspuz.C11.Compass
