/-
  C11 for `solve_castle_wall` - the posted program encodes the published rules of Castle Wall
  (Spec/PuzzleRules/CastleWall.lean) for every board size (boards with one row or one column included: no loop fits,
  every clue cell is outside) and every layout of clues (clues on the edge and in the corners included).
  Together with `Cspuz.C11.C11_compose` this yields the property for this puzzle.

  The rules-level notion "the clue cell lies INSIDE the loop" is the even-odd rule for a horizontal ray (going left from
  the cell centre, counting the vertical steps it crosses); the solver propagates the parity of the HORIZONTAL steps
  above each face of the lattice of cell centres, column by column from the top edge.  That the two agree is a discrete
  Jordan-curve fact (`Cspuz.Proofs.C11CastleWallPar.rect`, `faceUp_eq_inside`); `inside_ray_invariance` below records
  that the specification's notion does not depend on the ray chosen.
-/
import CspuzModel.Proofs.C11CastleWallSem
import CspuzModel.Proofs.C11LoopEx
namespace Cspuz.C11.CastleWall
open Cspuz Cspuz.Spec Cspuz.Puzzles.CastleWall Cspuz.Spec.CastleWall

/-- For every well-formed problem instance, the program `solve_castle_wall` posts (model: `program`, auxiliary-variable
route of the cycle constraint, line-board repair included) encodes the rules: an answer list extends to a model of
the whole program - the hidden crossing-parity variables `is_inside` included - iff it is the list of a set of
cell-to-cell steps forming one loop (or nothing) that avoids the clue cells, has every white clue cell inside and every
black clue cell outside (even-odd rule), and shows every arrow clue the stated number of steps; the answer keys
are distinct declared variables; every constraint is a well-typed Boolean tree. -/
def statement : Prop :=
  ∀ pb : Problem, WellFormed pb → ∀ P, program pb = .ok P →
    EncodesRules P (Rules pb) ∧ P.KeysOk ∧ (∀ c ∈ P.cs, wtB c = true)

theorem program_iff_rules : statement := Cspuz.Proofs.C11CastleWallSem.main

/-- `solve_castle_wall` raises nothing on a well-formed instance. -/
theorem total : ∀ pb : Problem, WellFormed pb → ∃ P, program pb = .ok P := Cspuz.Proofs.C11CastleWall.total

open Cspuz.Spec.FrameGeom Cspuz.Spec.Loop Cspuz.Proofs.C11CastleWallPar in
/-- The even-odd rule of the specification does not depend on the ray: for a loop and a lattice point `(y, x)` that is
not on it, the following rays all cross the loop with the same parity (`xf f n = f 0 xor … xor f (n-1)`):
the ray to the LEFT just above the row (the definition of `inside`: up-arms at `(y, c)`, `c < x`), the ray to the left
just below the row (down-arms), the ray to the RIGHT just above the row (up-arms at `(y, c)`, `x < c ≤ W`), and - for
`x ≥ 1` - the rays going UP and DOWN just left of the column (horizontal steps `(r, x-1) - (r, x)` with `r < y`,
resp. `y < r ≤ H`). -/
def statement_ray_invariance : Prop :=
  ∀ (H W : Nat) (on : Seg → Bool), IsLoop H W on → ∀ y x, y ≤ H → x ≤ W → onLoop H W on (y, x) = false →
    inside H W on (y, x) = xf (fun c => arm H W on (y, c) .down) x ∧
    inside H W on (y, x) = xf (fun j => arm H W on (y, x + (1 + j)) .up) (W - x) ∧
    (1 ≤ x → inside H W on (y, x) = xf (fun r => on (Seg.h r (x - 1))) y ∧
      inside H W on (y, x) = xf (fun j => on (Seg.h (y + (1 + j)) (x - 1))) (H - y))

theorem inside_ray_invariance : statement_ray_invariance := Cspuz.Proofs.C11CastleWallPar.ray_invariance

/-! ### non-vacuity: a 3 × 4 board with an arrow clue in a corner, a white clue cell and a black one -/

def exPb : Problem :=
  { height := 3, width := 4,
    arrow := [[.dir .right (some 2), .none, .none, .none], [.none, .other, .none, .none], [.none, .none, .none, .dir .up (some 0)]],
    inside := [[some false, none, none, none], [none, some true, none, none], [none, none, none, none]] }

theorem exPb_wf : WellFormed exPb := by
  refine ⟨by decide, by decide, rfl, ?_, rfl, ?_, ?_, ?_⟩
  · intro row hr
    simp only [exPb, List.mem_cons, List.not_mem_nil, or_false] at hr
    rcases hr with rfl | rfl | rfl <;> rfl
  · intro row hr
    simp only [exPb, List.mem_cons, List.not_mem_nil, or_false] at hr
    rcases hr with rfl | rfl | rfl <;> rfl
  · intro y x d
    match y, x with
    | 0, 0 | 0, 1 | 0, 2 | 0, 3 | 1, 0 | 1, 1 | 1, 2 | 1, 3 | 2, 0 | 2, 1 | 2, 2 | 2, 3 => simp [arrowAt, exPb]
    | 0, _ + 4 | 1, _ + 4 | 2, _ + 4 | _ + 3, _ => simp [arrowAt, exPb]
  · intro y x
    match y, x with
    | 0, 0 | 0, 1 | 0, 2 | 0, 3 | 1, 0 | 1, 1 | 1, 2 | 1, 3 | 2, 0 | 2, 1 | 2, 2 | 2, 3 => simp [arrowAt, markAt, exPb]
    | 0, _ + 4 | 1, _ + 4 | 2, _ + 4 | _ + 3, _ => simp [arrowAt, markAt, exPb]

example : ∃ P, program exPb = .ok P ∧ P.keys = List.range 17 :=
  ⟨_, Cspuz.Proofs.C11CastleWall.program_eq exPb exPb_wf, rfl⟩

/-! ### non-vacuity of the rules: on a 2 × 2 board without clues the tour of the four cells is a solution (and the
program has a model with exactly these key values) -/

def exPb2 : Problem :=
  { height := 2, width := 2, arrow := [[.none, .none], [.none, .none]], inside := [[none, none], [none, none]] }

theorem exPb2_wf : WellFormed exPb2 := by
  refine ⟨by decide, by decide, rfl, ?_, rfl, ?_, ?_, ?_⟩
  · intro row hr
    simp only [exPb2, List.mem_cons, List.not_mem_nil, or_false] at hr
    rcases hr with rfl | rfl <;> rfl
  · intro row hr
    simp only [exPb2, List.mem_cons, List.not_mem_nil, or_false] at hr
    rcases hr with rfl | rfl <;> rfl
  · intro y x d
    match y, x with
    | 0, 0 | 0, 1 | 1, 0 | 1, 1 => simp [arrowAt, exPb2]
    | 0, _ + 2 | 1, _ + 2 | _ + 2, _ => simp [arrowAt, exPb2]
  · intro y x
    match y, x with
    | 0, 0 | 0, 1 | 1, 0 | 1, 1 => simp [arrowAt, markAt, exPb2]
    | 0, _ + 2 | 1, _ + 2 | _ + 2, _ => simp [arrowAt, markAt, exPb2]

open Cspuz.Spec.Loop in
theorem exPb2_rules : Rules exPb2 (segAnswer 1 1 fun _ => true) := by
  refine ⟨fun _ => true, rfl, Cspuz.Proofs.C11LoopEx.unitLoop, ?_⟩
  intro y hy x hx
  have hy' : y = 0 ∨ y = 1 := by simp only [exPb2] at hy; omega
  have hx' : x = 0 ∨ x = 1 := by simp only [exPb2] at hx; omega
  rcases hy' with rfl | rfl <;> rcases hx' with rfl | rfl <;>
    exact ⟨trivial, fun b hb => absurd hb (by simp [markAt, exPb2])⟩

open Cspuz.Spec.Loop in
example : ∃ P σ, program exPb2 = .ok P ∧ Sat P.decls P.cs σ ∧
    P.keyVals σ = (segAnswer 1 1 fun _ => true).map some := by
  obtain ⟨P, hP⟩ := total exPb2 exPb2_wf
  obtain ⟨σ, hσ, hk⟩ := ((program_iff_rules exPb2 exPb2_wf P hP).1 _).mpr exPb2_rules
  exact ⟨P, σ, hP, hσ, hk⟩

/-- The inside / outside notion is not vacuous: on the lattice with 3 × 3 points and the loop around its border, the
centre point is inside and, without a loop, outside. -/
example : inside 2 2 (fun s => s ≠ .h 1 0 ∧ s ≠ .h 1 1 ∧ s ≠ .v 0 1 ∧ s ≠ .v 1 1) (1, 1) = true := by decide
example : inside 2 2 (fun _ => false) (1, 1) = false := by decide

end Cspuz.C11.CastleWall
