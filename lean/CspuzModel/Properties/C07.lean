/-
  C07 — Variable-group division (with/without borders) admits exactly valid partitions.
-/
import CspuzModel.Proofs.C07
namespace Cspuz.C07
open Cspuz Cspuz.Spec

/-- `division_connected_variable_groups`: for every multigraph, every shape of `group_size` (absent, a
constant or integer expression, a per-vertex list with `None` holes) and every assignment of the
caller's variables, a partition `P` of the vertices can be realised by the returned group ids — equal
ids exactly within a block, for SOME completion of the hidden variables — iff every block induces a
connected subgraph and every vertex with a specified group size lies in a block of exactly that size.
The returned ids are the variables `base … base+n-1`. -/
def statement_groups : Prop :=
  ∀ (g : Graph) (gs : GroupSize) (base : Nat) (p : Prog) (ids : List Expr) (σ : Asg) (P : VPartition g.n),
    g.wf = true → SizeArgs base g.n gs →
    variableGroups g gs base = .ok (p, ids) →
    ids = ivars base g.n ∧
    ((∃ σ', AgreeBelow base σ σ' ∧ SatFrag base p σ' ∧ Realises g.n P (fun v => σ'.i (base + v))) ↔
      PartitionOK g P (sizeSpec σ gs))

theorem C07_groups_exact : statement_groups := Cspuz.Proofs.C07.groups_exact

/-- The size-free core (`group_size = None`), kept separately because it does not depend on the
subtree-size accounting: realisable iff every block is connected. -/
def statement_groups_nosize : Prop :=
  ∀ (g : Graph) (base : Nat) (p : Prog) (ids : List Expr) (σ : Asg) (P : VPartition g.n),
    g.wf = true → variableGroups g .none base = .ok (p, ids) →
    ((∃ σ', AgreeBelow base σ σ' ∧ SatFrag base p σ' ∧ Realises g.n P (fun v => σ'.i (base + v))) ↔
      ∀ v, v < g.n → ((toSimple g).induce (blockOf g P v)).Preconnected)

theorem C07_groups_nosize : statement_groups_nosize := Cspuz.Proofs.C07.groups_nosize

/-- `…_with_borders`, both routes (auxiliary encoding / native `graph-division` operator): satisfiable
for a given border pattern iff every border edge joins two different blocks of the partition obtained
by cutting the border edges, and those blocks meet the size condition. -/
def statement_borders (prim : Bool) : Prop :=
  ∀ (g : Graph) (gs : List (Option Expr)) (border : List Expr) (base : Nat) (p : Prog) (σ : Asg),
    g.wf = true → SizeArgs base g.n (.perVertex gs) → BoolArgs base border →
    variableGroupsWithBorders g gs border prim base = .ok p →
    (Realizable base p σ ↔ BordersOK g (truthAt σ border) (sizeSpec σ (.perVertex gs)))

theorem C07_borders_aux : statement_borders false := Cspuz.Proofs.C07.borders_aux
theorem C07_borders_prim : statement_borders true := Cspuz.Proofs.C07.borders_prim

end Cspuz.C07
