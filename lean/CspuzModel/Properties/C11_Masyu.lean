/-
  C11 for `solve_masyu` - the posted program encodes the published rules of Masyu
  (Spec/PuzzleRules/Masyu.lean) for every board size (1 × N and N × 1 included) and every layout of circles
  (circles in the first / last row and column included).
  Together with `Cspuz.C11.C11_compose` this yields the property for this puzzle.
-/
import CspuzModel.Proofs.C11Masyu
import CspuzModel.Proofs.C11LoopEx
namespace Cspuz.C11.Masyu
open Cspuz Cspuz.Spec Cspuz.Puzzles.Masyu Cspuz.Spec.Masyu

/-- For every well-formed problem instance, the program `solve_masyu` posts (model: `program`, auxiliary-variable
route of the cycle constraint) encodes the rules: an answer list extends to a model of the whole program iff it is
the list of a set of cell-to-cell steps forming one loop (or nothing) that goes straight through every white circle
and turns next to it, and turns in every black circle and goes straight through both cells next to it; the
answer keys are distinct declared variables; every constraint is a well-typed Boolean tree. -/
def statement : Prop :=
  ∀ pb : Problem, WellFormed pb → ∀ P, program pb = .ok P →
    EncodesRules P (Rules pb) ∧ P.KeysOk ∧ (∀ c ∈ P.cs, wtB c = true)

theorem program_iff_rules : statement := Cspuz.Proofs.C11Masyu.main

/-- `solve_masyu` raises nothing on a well-formed instance. -/
theorem total : ∀ pb : Problem, WellFormed pb → ∃ P, program pb = .ok P := Cspuz.Proofs.C11Masyu.total

/-! ### non-vacuity: a 3 × 4 board with a black circle in a corner and a white circle on the edge -/

def exPb : Problem := { height := 3, width := 4, problem := [[2, 0, 0, 0], [0, 0, 0, 1], [0, 0, 0, 0]] }

theorem exPb_wf : WellFormed exPb := by
  refine ⟨by decide, by decide, rfl, ?_⟩
  intro row hr
  simp only [exPb, List.mem_cons, List.not_mem_nil, or_false] at hr
  rcases hr with rfl | rfl | rfl <;> rfl

example : ∃ P, program exPb = .ok P ∧ P.keys = List.range 17 := ⟨_, Cspuz.Proofs.C11Masyu.program_eq exPb exPb_wf, rfl⟩

/-! ### non-vacuity of the rules: a 2 × 2 board without circles is solved by the tour of its four cells; with a black
circle it has no solution (the two cells next to a corner turn as well) -/

def exPb2 : Problem := { height := 2, width := 2, problem := [[0, 0], [0, 0]] }

theorem exPb2_wf : WellFormed exPb2 := by
  refine ⟨by decide, by decide, rfl, ?_⟩
  intro row hr
  simp only [exPb2, List.mem_cons, List.not_mem_nil, or_false] at hr
  rcases hr with rfl | rfl <;> rfl

open Cspuz.Spec.Loop in
theorem exPb2_rules : Rules exPb2 (segAnswer 1 1 fun _ => true) := by
  refine ⟨fun _ => true, rfl, Cspuz.Proofs.C11LoopEx.unitLoop, ?_⟩
  intro y hy x hx
  have hy' : y = 0 ∨ y = 1 := by simp only [exPb2] at hy; omega
  have hx' : x = 0 ∨ x = 1 := by simp only [exPb2] at hx; omega
  rcases hy' with rfl | rfl <;> rcases hx' with rfl | rfl <;>
    exact ⟨fun h => absurd h (by decide), fun h => absurd h (by decide)⟩

open Cspuz.Spec.Loop in
example : ∃ P σ, program exPb2 = .ok P ∧ Sat P.decls P.cs σ ∧
    P.keyVals σ = (segAnswer 1 1 fun _ => true).map some := by
  obtain ⟨P, hP⟩ := total exPb2 exPb2_wf
  obtain ⟨σ, hσ, hk⟩ := ((program_iff_rules exPb2 exPb2_wf P hP).1 _).mpr exPb2_rules
  exact ⟨P, σ, hP, hσ, hk⟩

/-- The black-circle rule is not vacuous either: on the tour of the 2 × 2 board the cell `(0, 0)` turns but its
neighbours do not go straight. -/
example : ¬ Black 1 1 (fun _ => true) (0, 0) := by
  rintro ⟨_, h⟩
  have := h .right (by decide)
  revert this; decide

end Cspuz.C11.Masyu
