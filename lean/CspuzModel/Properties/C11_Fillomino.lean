/-
  C11 / Fillomino — the program posted by `solve_fillomino` (plain and `checkered=True`) encodes the
  published rules of Fillomino (Spec/PuzzleRules/Fillomino.lean), for every board shape and every table
  of givens.  Together with `Cspuz.C11.C11_compose` this yields the property for `solve_fillomino`.
-/
import CspuzModel.Proofs.C11Fillomino
namespace Cspuz.C11.Fillomino
open Cspuz Cspuz.Spec Cspuz.Puzzles.Fillomino Cspuz.Spec.Fillomino

/-- For every well-formed instance (any height, width ≥ 1, any `height × width` table of integers, with or
without the checkered variant), whenever the model of `solve_fillomino` returns the posted program `P`:
a grid of numbers extends to a model of `P` (hidden border variables, the group-id / rank / root /
spanning-edge / subtree-size variables of the division encoding and the colour variables included) iff it
obeys the rules of Fillomino — the board can be divided into orthogonally connected blocks such that every
cell holds the number of cells of its block, every given equals the size of its block, blocks of the same
size never share an edge, and (checkered) the blocks can be 2-coloured so that blocks sharing an edge get
different colours; the answer keys are distinct declared variables; every posted constraint is a well-typed
Boolean tree. -/
def statement : Prop :=
  ∀ pb : Problem, WellFormed pb → ∀ P : PuzzleProg, program pb = .ok P →
    EncodesRules P (Rules pb) ∧ P.KeysOk ∧ (∀ c ∈ P.cs, wtB c = true)

theorem program_iff_rules : statement := Cspuz.Proofs.C11Fillomino.main

/-- `solve_fillomino` does not raise on a well-formed instance. -/
theorem total : ∀ pb : Problem, WellFormed pb → ∃ P, program pb = .ok P := Cspuz.Proofs.C11Fillomino.total

/-! ### non-vacuity -/

/-- A 2×3 board (height < width) with a `3` in a corner and a `1` on the bottom edge, checkered. -/
def exPb : Problem :=
  { height := 2, width := 3, problem := [[3, 0, 0], [0, 1, -1]], checkered := true }

theorem exPb_wf : WellFormed exPb := by
  refine ⟨by decide, by decide, rfl, ?_⟩
  intro row hrow
  simp only [exPb, List.mem_cons, List.not_mem_nil, or_false] at hrow
  rcases hrow with rfl | rfl <;> rfl

/-- 6 size variables (the keys), 7 border variables, 5·6+7 hidden variables of the division encoding,
6 colour variables; 70 + 7 constraints of the division encoding, 7 border definitions, 2 givens, 7 colour
definitions. -/
example : WellFormed exPb ∧ ∃ P, program exPb = .ok P ∧ P.decls.length = 6 + 7 + 37 + 6 ∧
    P.cs.length = 77 + 7 + 2 + 7 ∧ P.keys = [0, 1, 2, 3, 4, 5] :=
  ⟨exPb_wf, _, rfl, by decide, by decide, by decide⟩

/-- The plain variant on a 3×1 board (height > width). -/
example : ∃ P, program { height := 3, width := 1, problem := [[0], [2], [0]] } = .ok P ∧ P.keys = [0, 1, 2] :=
  ⟨_, rfl, by decide⟩

end Cspuz.C11.Fillomino
