/-
  C04 — active_vertices_connected holds exactly for connected (or tree) active sets.
  Property theorems only; lemmas live in Proofs/.
-/
import CspuzModel.Proofs.C04
namespace Cspuz.C04
open Cspuz Cspuz.Spec

/-- Auxiliary-variable (rank/root) encoding, full strength: for every finite multigraph `g` (any number
of vertices, isolated vertices, parallel edges; loop-free when `acyclic`), every list `ia` of well-typed
Boolean expressions over the caller's variables (variables, negations, compound expressions, Python
constants), and every assignment `σ` of the caller's variables, the constraints the generator emits
can be completed by values of the hidden auxiliary variables — without constraining the caller's
variables in any other way — iff the active vertices induce a connected subgraph (resp. a tree or
nothing, when `acyclic`). -/
def statement_aux : Prop :=
  ∀ (g : Graph) (ia : List Expr) (base : Nat) (acyclic : Bool) (p : Prog) (σ : Asg),
    g.wf = true → (acyclic = true → LoopFree g) → ia.length = g.n → BoolArgs base ia →
    activeVerticesConnected g ia base acyclic false = .ok p →
    (Realizable base p σ ↔
      if acyclic then ActiveTreeOrEmpty g (truthAt σ ia) else ActiveConnected g (truthAt σ ia))

theorem C04_aux_exact : statement_aux := Cspuz.Proofs.C04.aux_exact

/-- Native-primitive encoding: a single `graph-active-vertices-connected` constraint whose meaning
(`evalAVC`, the documented semantics of the csugar / cspuz_core operator) is connectivity of the
active set. -/
def statement_prim : Prop :=
  ∀ (g : Graph) (ia : List Expr) (base : Nat) (p : Prog) (σ : Asg),
    g.wf = true → ia.length = g.n → BoolArgs base ia →
    activeVerticesConnected g ia base false true = .ok p →
    (Realizable base p σ ↔ ActiveConnected g (truthAt σ ia))

theorem C04_prim_exact : statement_prim := Cspuz.Proofs.C04Prim.prim_exact

/-- The native operator is never used for acyclic connectivity, and the generator succeeds on every
well-formed call with at least one vertex. -/
def statement_dispatch : Prop :=
  (∀ g ia base, activeVerticesConnected g ia base true true = activeVerticesConnected g ia base true false) ∧
  (∀ (g : Graph) (ia : List Expr) (base : Nat) (acyclic prim : Bool),
    0 < g.n → g.wf = true → ia.length = g.n → BoolArgs base ia →
    ∃ p, activeVerticesConnected g ia base acyclic prim = .ok p)

theorem C04_dispatch : statement_dispatch := Cspuz.Proofs.C04.dispatch

/-- The graph inferred for a 2-D array is the 4-neighbour grid: cells `(y,x)`, `(y',x')` are adjacent
iff they differ by one step in exactly one coordinate. -/
def statement_grid : Prop :=
  ∀ (h w : Nat) (u v : Fin (Graph.grid h w).n),
    (toSimple (Graph.grid h w)).Adj u v ↔
      ((u.1 / w = v.1 / w ∧ (u.1 % w + 1 = v.1 % w ∨ v.1 % w + 1 = u.1 % w)) ∨
       (u.1 % w = v.1 % w ∧ (u.1 / w + 1 = v.1 / w ∨ v.1 / w + 1 = u.1 / w)))

theorem C04_grid : statement_grid := Cspuz.Proofs.C04Prim.grid_adj

end Cspuz.C04
