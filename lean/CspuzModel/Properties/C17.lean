/-
  C17 — Decoding arbitrary text never crashes and only yields re-encodable problems.
  Property theorems only; lemmas live in Proofs/C17*.lean.  Statements are about the `Outcome`-valued model
  (Model/Serializer.lean: a returned value, `None`, a raised exception with its Python class, or non-termination),
  which follows the code with the patches listed in harness/sercommon.py::PATCH_NOTES; "text" is ANY list of code
  points (arbitrary Unicode incl. lone surrogates and Unicode digits).
-/
import CspuzModel.Proofs.C17
import CspuzModel.Proofs.C15Puzzles
import CspuzModel.Proofs.C17Reenc
namespace Cspuz.C17
open Cspuz Cspuz.Ser

/-- **Totality of every combinator's `deserialize`.**  For every term over the library combinators and
`YajilinClue` whose `Seq`/`Grid`/`ValuedRooms` bases are productive (`terminating`; otherwise the Python itself loops
forever) and whose `Dict` tables have equal lengths (the constructor enforces it), every board size, every text
and every start index inside it: the result is `None`, `ValueError`, or a tuple that consumed only characters of the
text — never `IndexError`, `KeyError`, `AssertionError`, `TypeError`, `RecursionError`, never non-termination. -/
def statement_total : Prop :=
  ∀ (c : Comb) (env : Env), terminating c = true → tablesOk c = true → SafeDe (de c env)

theorem C17_total : statement_total := de_safe

/-- **`deserialize_problem`** on every problem-level term (`single`: decodes to exactly one item): `None`,
`ValueError` or a value; and a decoded `Grid` problem has exactly the declared dimensions. -/
def statement_total_problem : Prop :=
  (∀ (c : Comb), terminating c = true → tablesOk c = true → single c = true →
      ∀ (s : Str) (h w : Nat), SafeVal (deProblem c s h w)) ∧
  (∀ (b : Comb) (dims : Option (Nat × Nat)) (s : Str) (h w : Nat) (p : PyVal),
      deProblem (.grid b dims) s h w = .ok p →
      ∃ rows, p = .list rows ∧ GridShape (gridDims ⟨h, w⟩ dims).1 (gridDims ⟨h, w⟩ dims).2 rows)

theorem C17_total_problem : statement_total_problem := ⟨deProblem_safe, grid_dims⟩

/-- **URL layer**: `deserialize_problem_as_url` with any `allowed_puzzles` / `allow_failure` / `return_size`, on ANY
string, returns `None`, raises `ValueError` or returns a value; `get_puzzle_info_from_url` likewise. -/
def statement_total_url : Prop :=
  (∀ (c : Comb), terminating c = true → tablesOk c = true → single c = true →
      ∀ (url : Str) (allowed : Option (List Str)) (allowFailure returnSize : Bool),
        SafeVal (deProblemAsUrl c url allowed allowFailure returnSize)) ∧
  (∀ url : Str, getPuzzleInfo url = .none ∨ getPuzzleInfo url = .raised .valueError ∨ ∃ r, getPuzzleInfo url = .ok r)

theorem C17_total_url : statement_total_url := ⟨deProblemAsUrl_safe, getPuzzleInfo_safe⟩

/-- **Every puzzle codec** (the REGENERATED table of the live `*_COMBINATOR` objects and of the keyword arguments each
`deserialize_<puzzle>` passes): on any string, `None`, `ValueError` or a value. -/
def statement_total_puzzles : Prop :=
  ∀ pc ∈ Gen.puzzleCodecs, ∀ url : Str,
    SafeVal (deProblemAsUrl pc.comb url pc.allowed pc.allowFailure pc.returnSize)

theorem C17_total_puzzles : statement_total_puzzles := puzzleCodecs_safe

/-- **Re-encodability** (full strength; statement only — proved below for Grid/Seq over flat bases and for the six
grid puzzle codecs; NOT proved for arbitrary nested terms, nor for the three `Rooms`-based codecs, where it would need
"every decoded partition is a valid partition in canonical form", see the report): whatever a decoder returns can be
serialized, and the canonical text decodes to the same problem. -/
def statement_reencodable : Prop :=
  ∀ (c : Comb), wf c = true → single c = true →
    ∀ (s : Str) (h w : Nat) (p : PyVal), deProblem c s h w = .ok p →
      ∃ s', serProblem c p h w = .ok s' ∧ deProblem c s' h w = .ok p

/-- **Re-encodability, proved part**: for every well-formed `Grid(b)` / `Seq(b, n)` whose base `b` is flat (a `MultiDigit`,
or a `Dict`/`Spaces`/`HexInt`/`IntSpaces`/`YajilinClue` leaf, or a `OneOf` of such leaves) and closed (`closedBase`: the
padding value of an `IntSpaces` alternative is accepted by some alternative; no embedded value looks like a
non-canonical yajilin clue), every board size and EVERY text: a returned problem lies in `Dom`, so serializing it
succeeds and decoding the canonical text returns the same problem. -/
def statement_reencodable_partial : Prop :=
  (∀ (b : Comb) (dims : Option (Nat × Nat)), wf (.grid b dims) = true → FlatBase b → closedBase b = true →
    ∀ (s : Str) (h w : Nat) (p : PyVal), deProblem (.grid b dims) s h w = .ok p →
      Dom (.grid b dims) h w p ∧ ∃ s', serProblem (.grid b dims) p h w = .ok s' ∧ deProblem (.grid b dims) s' h w = .ok p) ∧
  (∀ (b : Comb) (n : Nat), wf (.seq b n) = true → FlatBase b → closedBase b = true →
    ∀ (s : Str) (h w : Nat) (p : PyVal), deProblem (.seq b n) s h w = .ok p →
      ∃ s', serProblem (.seq b n) p h w = .ok s' ∧ deProblem (.seq b n) s' h w = .ok p)

theorem C17_reencodable_partial : statement_reencodable_partial :=
  ⟨fun b dims hw hf hc s h w p hde =>
      ⟨grid_reencodable b dims hw hf hc s h w p hde, grid_reencodable' b dims hw hf hc s h w p hde⟩,
   fun b n hw hf hc s h w p hde => seq_reencodable' b n hw hf hc s h w p hde⟩

/-- **Re-encodability of the six grid puzzle codecs** (regenerated terms), also through `deserialize_<puzzle>`'s call of
`deserialize_problem_as_url`: the decoded problem belongs to the board size written in the URL, serializes, and
its canonical body decodes to the same problem. -/
def statement_reencodable_puzzles : Prop :=
  (∀ pc ∈ [Gen.nurikabeCodec, Gen.masyuCodec, Gen.slitherlinkCodec, Gen.sudokuCodec, Gen.nurimisakiCodec, Gen.yajilinCodec],
    ∀ s h w p, deProblem pc.comb s h w = .ok p →
      ∃ s', serProblem pc.comb p h w = .ok s' ∧ deProblem pc.comb s' h w = .ok p) ∧
  (∀ pc ∈ [Gen.nurikabeCodec, Gen.masyuCodec, Gen.slitherlinkCodec, Gen.sudokuCodec, Gen.nurimisakiCodec, Gen.yajilinCodec],
    ∀ url p, deProblemAsUrl pc.comb url pc.allowed pc.allowFailure pc.returnSize = .ok p →
      ∃ name wd hd body hh ww, matchUrl url = some (name, wd, hd, body) ∧ pyInt hd = .ok hh ∧ pyInt wd = .ok ww ∧
        ∃ s', serProblem pc.comb p hh ww = .ok s' ∧ deProblem pc.comb s' hh ww = .ok p)

theorem C17_reencodable_puzzles : statement_reencodable_puzzles := ⟨puzzles_reencodable, puzzles_reencodable_url⟩

/-! ### non-vacuity: the model reproduces the concrete behaviours the property is about -/

/-- `HexInt` on `"--1"` (patch D11): `None`, not `-1` -/
example : de .hexInt ⟨1, 1⟩ [45, 45, 49] 0 = .none := by rfl
/-- text ending inside a `HexInt` group -/
example : de .hexInt ⟨1, 1⟩ [43, 49, 102] 0 = .none := by rfl
/-- `DecInt` on the superscript two: `str.isdigit` accepts it, `int()` raises `ValueError` -/
example : de .decInt ⟨1, 1⟩ [178] 0 = .raised .valueError := by rfl
/-- Arabic-Indic three followed by ASCII one: 31 -/
example : de .decInt ⟨1, 1⟩ [0x663, 49] 0 = .ok (2, [.int 31]) := by rfl
/-- a non-matching URL: `ValueError`, or `None` with `allow_failure` (patch D10) -/
example : deProblemAsUrl Gen.litsCombinator [103, 97, 114, 98, 97, 103, 101] none false true = .raised .valueError := by rfl
example : deProblemAsUrl Gen.heyawakeCombinator [103, 97, 114, 98, 97, 103, 101] none true true = .none := by rfl
/-- redundant border: `ValueError`, `None` under `skip_on_error` -/
example : de (.rooms false false) ⟨4, 3⟩ [100, 107, 112, 103] 0 = .raised .valueError := by rfl
example : de (.rooms true false) ⟨4, 3⟩ [100, 107, 112, 103] 0 = .none := by rfl
/-- a board without cells (zero-size guard): `ValueError` -/
example : deProblem (.rooms false false) [120] 5 0 = .raised .valueError := by rfl

end Cspuz.C17
