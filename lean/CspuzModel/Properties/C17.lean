/-
  C17 — Decoding arbitrary text never crashes and only yields re-encodable problems.
  Property theorems only; lemmas live in Proofs/C17*.lean.  Statements are about the `Outcome`-valued model
  (Model/Serializer.lean: a returned value, `None`, a raised exception with its Python class, or non-termination),
  which follows the code with the patches listed in harness/sercommon.py::PATCH_NOTES; "text" is ANY list of code
  points (arbitrary Unicode incl. lone surrogates and Unicode digits).
-/
import CspuzModel.Proofs.C17
import CspuzModel.Proofs.C15Puzzles
import CspuzModel.Proofs.C17Reenc
import CspuzModel.Proofs.C17Nested
import CspuzModel.Proofs.C17TuplLoss
import CspuzModel.Proofs.C17RoomsRe
namespace Cspuz.C17
open Cspuz Cspuz.Ser

/-- **Totality of every combinator's `deserialize`.**  For every term over the library combinators and
`YajilinClue` whose `Seq`/`Grid`/`ValuedRooms` bases are productive (`terminating`; otherwise the Python itself loops
forever) and whose `Dict` tables have equal lengths (the constructor enforces it), every board size, every text
and every start index inside it: the result is `None`, `ValueError`, or a tuple that consumed only characters of the
text — never `IndexError`, `KeyError`, `AssertionError`, `TypeError`, `RecursionError`, never non-termination. -/
def statement_total : Prop :=
  ∀ (c : Comb) (env : Env), terminating c = true → tablesOk c = true → SafeDe (de c env)

theorem C17_total : statement_total := de_safe

/-- **`deserialize_problem`** on every problem-level term (`single`: decodes to exactly one item): `None`,
`ValueError` or a value; and a decoded `Grid` problem has exactly the declared dimensions. -/
def statement_total_problem : Prop :=
  (∀ (c : Comb), terminating c = true → tablesOk c = true → single c = true →
      ∀ (s : Str) (h w : Nat), SafeVal (deProblem c s h w)) ∧
  (∀ (b : Comb) (dims : Option (Nat × Nat)) (s : Str) (h w : Nat) (p : PyVal),
      deProblem (.grid b dims) s h w = .ok p →
      ∃ rows, p = .list rows ∧ GridShape (gridDims ⟨h, w⟩ dims).1 (gridDims ⟨h, w⟩ dims).2 rows)

theorem C17_total_problem : statement_total_problem := ⟨deProblem_safe, grid_dims⟩

/-- **URL layer**: `deserialize_problem_as_url` with any `allowed_puzzles` / `allow_failure` / `return_size`, on ANY
string, returns `None`, raises `ValueError` or returns a value; `get_puzzle_info_from_url` likewise. -/
def statement_total_url : Prop :=
  (∀ (c : Comb), terminating c = true → tablesOk c = true → single c = true →
      ∀ (url : Str) (allowed : Option (List Str)) (allowFailure returnSize : Bool),
        SafeVal (deProblemAsUrl c url allowed allowFailure returnSize)) ∧
  (∀ url : Str, getPuzzleInfo url = .none ∨ getPuzzleInfo url = .raised .valueError ∨ ∃ r, getPuzzleInfo url = .ok r)

theorem C17_total_url : statement_total_url := ⟨deProblemAsUrl_safe, getPuzzleInfo_safe⟩

/-- **Every puzzle codec** (the REGENERATED table of the live `*_COMBINATOR` objects and of the keyword arguments each
`deserialize_<puzzle>` passes): on any string, `None`, `ValueError` or a value. -/
def statement_total_puzzles : Prop :=
  ∀ pc ∈ Gen.puzzleCodecs, ∀ url : Str,
    SafeVal (deProblemAsUrl pc.comb url pc.allowed pc.allowFailure pc.returnSize)

theorem C17_total_puzzles : statement_total_puzzles := puzzleCodecs_safe

/-- **Re-encodability** (full strength): whatever a decoder returns can be serialized, and the canonical text decodes to
the same problem.  This statement is FALSE on the current code (`C17_reencodable_fails` below: a `Tupl` whose element
decodes several items that its serializer does not take in one call).  Proved parts: nested `Seq`/`Grid` terms over
closed flat bases (`C17_reencodable_nested`), the six grid puzzle codecs (`C17_reencodable_puzzles`), `Rooms` and
`ValuedRooms` over such value terms (`C17_reencodable_rooms`, `C17_reencodable_valued_rooms`, from "every decoded
partition is a valid partition in canonical form": `C17_rooms_decoded_canonical`) and the three `Rooms`-based puzzle
codecs (`C17_reencodable_rooms_puzzles`); NOT proved for other terms with `Tupl`/`OneOf` above a `Seq`/`Grid`/`Rooms`. -/
def statement_reencodable : Prop :=
  ∀ (c : Comb), wf c = true → single c = true →
    ∀ (s : Str) (h w : Nat) (p : PyVal), deProblem c s h w = .ok p →
      ∃ s', serProblem c p h w = .ok s' ∧ deProblem c s' h w = .ok p

/-- **The full statement fails** — the known finding `tupl:element-serializer-leaves-decoded-items` of
/verif/known_findings.json.  `Tupl.serialize` hands each component to its element ONCE (at index 0) and ignores how
many items that call consumed, while `Tupl.deserialize` keeps every item the element decoded.  Witness: the
well-formed, problem-level term `Tupl(OneOf(Dict([0], ['.']), Spaces(0, 'j'), HexInt()))` on a 3 × 3 board and the
text `"r"`: `deserialize_problem` returns `([0, 0, 0, 0, 0, 0, 0, 0, 0],)` (`Spaces` reads `r` as a run of nine zeros);
`serialize_problem` of it returns `"."` (the earlier alternative `Dict` accepts the leading `0`, the other eight
items are dropped silently), and `"."` decodes to `([0],)`. -/
theorem C17_reencodable_fails : ¬ statement_reencodable := Cspuz.Ser.TuplLoss.full_statement_fails

/-- **Re-encodability, proved part**: for every well-formed `Grid(b)` / `Seq(b, n)` whose base `b` is flat (a `MultiDigit`,
or a `Dict`/`Spaces`/`HexInt`/`IntSpaces`/`YajilinClue` leaf, or a `OneOf` of such leaves) and closed (`closedBase`: the
padding value of an `IntSpaces` alternative is accepted by some alternative; no embedded value looks like a
non-canonical yajilin clue), every board size and EVERY text: a returned problem lies in `Dom`, so serializing it
succeeds and decoding the canonical text returns the same problem. -/
def statement_reencodable_partial : Prop :=
  (∀ (b : Comb) (dims : Option (Nat × Nat)), wf (.grid b dims) = true → FlatBase b → closedBase b = true →
    ∀ (s : Str) (h w : Nat) (p : PyVal), deProblem (.grid b dims) s h w = .ok p →
      Dom (.grid b dims) h w p ∧ ∃ s', serProblem (.grid b dims) p h w = .ok s' ∧ deProblem (.grid b dims) s' h w = .ok p) ∧
  (∀ (b : Comb) (n : Nat), wf (.seq b n) = true → FlatBase b → closedBase b = true →
    ∀ (s : Str) (h w : Nat) (p : PyVal), deProblem (.seq b n) s h w = .ok p →
      ∃ s', serProblem (.seq b n) p h w = .ok s' ∧ deProblem (.seq b n) s' h w = .ok p)

theorem C17_reencodable_partial : statement_reencodable_partial :=
  ⟨fun b dims hw hf hc s h w p hde =>
      ⟨grid_reencodable b dims hw hf hc s h w p hde, grid_reencodable' b dims hw hf hc s h w p hde⟩,
   fun b n hw hf hc s h w p hde => seq_reencodable' b n hw hf hc s h w p hde⟩

/-- **Re-encodability of nested `Seq` / `Grid` terms**: for every well-formed term built from `Seq(·, n)` and
`Grid(·[, h, w])` in any nesting (`SeqGridTerm`, Spec/SerializerReenc.lean) over a closed flat base, every board size
and EVERY text: a returned problem lies in `Dom` (accepted by the serializer, without surplus), so serializing it
succeeds and decoding the canonical text returns the same problem.  (Holds since `Grid.serialize` asks its inner `Seq`
for item 0: a `Grid` now serializes at every position of an enclosing `Seq`/`Grid`.)  Generalises
`statement_reencodable_partial`, which is the nesting depth 1. -/
def statement_reencodable_nested : Prop :=
  ∀ (c : Comb), SeqGridTerm c → wf c = true →
    ∀ (s : Str) (h w : Nat) (p : PyVal), deProblem c s h w = .ok p →
      Dom c h w p ∧ ∃ s', serProblem c p h w = .ok s' ∧ deProblem c s' h w = .ok p

theorem C17_reencodable_nested : statement_reencodable_nested :=
  fun c hc hw s h w p hde =>
    ⟨Cspuz.Ser.Nested.nested_dom c hc hw s h w p hde, Cspuz.Ser.Nested.nested_reencodable c hc hw s h w p hde⟩

/-- **Re-encodability of the six grid puzzle codecs** (regenerated terms), also through `deserialize_<puzzle>`'s call of
`deserialize_problem_as_url`: the decoded problem belongs to the board size written in the URL, serializes, and
its canonical body decodes to the same problem. -/
def statement_reencodable_puzzles : Prop :=
  (∀ pc ∈ [Gen.nurikabeCodec, Gen.masyuCodec, Gen.slitherlinkCodec, Gen.sudokuCodec, Gen.nurimisakiCodec, Gen.yajilinCodec],
    ∀ s h w p, deProblem pc.comb s h w = .ok p →
      ∃ s', serProblem pc.comb p h w = .ok s' ∧ deProblem pc.comb s' h w = .ok p) ∧
  (∀ pc ∈ [Gen.nurikabeCodec, Gen.masyuCodec, Gen.slitherlinkCodec, Gen.sudokuCodec, Gen.nurimisakiCodec, Gen.yajilinCodec],
    ∀ url p, deProblemAsUrl pc.comb url pc.allowed pc.allowFailure pc.returnSize = .ok p →
      ∃ name wd hd body hh ww, matchUrl url = some (name, wd, hd, body) ∧ pyInt hd = .ok hh ∧ pyInt wd = .ok ww ∧
        ∃ s', serProblem pc.comb p hh ww = .ok s' ∧ deProblem pc.comb s' hh ww = .ok p)

theorem C17_reencodable_puzzles : statement_reencodable_puzzles := ⟨puzzles_reencodable, puzzles_reencodable_url⟩

/-- **What `Rooms.deserialize` returns is always a valid partition in canonical form.**  For ANY text, any start index,
any board size and both flags (`skip_on_error`, `allow_redundant_border`): whenever a value is returned, the board has
cells, and the value is a list of rooms that is a partition of the `h × w` board into non-empty orthogonally
connected rooms (`ValidPartition`, Spec/Rooms.lean), ordered canonically (rooms by least cell row-major, cells
row-major: `canonRooms h w rooms = rooms`).  With `allow_redundant_border` a border between two cells of one room is
accepted; the decoded rooms are the connected components of "no border in between" all the same. -/
def statement_rooms_decoded_canonical : Prop :=
  ∀ (skip allow : Bool) (h w : Nat) (s : Str) (i k : Nat) (items : List PyVal),
    de (.rooms skip allow) ⟨h, w⟩ s i = .ok (k, items) →
      1 ≤ h ∧ 1 ≤ w ∧ ∃ rooms, items = [roomsVal rooms] ∧ ValidPartition h w rooms ∧ canonRooms h w rooms = rooms

theorem C17_rooms_decoded_canonical : statement_rooms_decoded_canonical := Cspuz.Ser.RoomsRe.rooms_decoded_canonical

/-- **Re-encodability of `Rooms`** (both flags, every board size — a board without cells is refused by the decoder —
and EVERY text): a returned room list serializes, and its canonical text decodes to the same room list.  (With
`allow_redundant_border` the canonical text may differ from the input text.) -/
def statement_reencodable_rooms : Prop :=
  ∀ (skip allow : Bool) (h w : Nat) (s : Str) (p : PyVal), deProblem (.rooms skip allow) s h w = .ok p →
    ∃ s', serProblem (.rooms skip allow) p h w = .ok s' ∧ deProblem (.rooms skip allow) s' h w = .ok p

theorem C17_reencodable_rooms : statement_reencodable_rooms := Cspuz.Ser.RoomsRe.rooms_reencodable

/-- **Re-encodability of `ValuedRooms(value, …)`** for every well-formed term whose value term is a closed flat base
(as in `statement_reencodable_partial`) or a nested `Seq`/`Grid` term over one (`SeqGridTerm`), both flags, every board
size and EVERY text: the returned `(rooms, values)` serializes and its canonical text decodes to the same pair. -/
def statement_reencodable_valued_rooms : Prop :=
  ∀ (v : Comb) (skip allow : Bool), wf (.valuedRooms v skip allow) = true →
    ((FlatBase v ∧ closedBase v = true) ∨ SeqGridTerm v) →
    ∀ (s : Str) (h w : Nat) (p : PyVal), deProblem (.valuedRooms v skip allow) s h w = .ok p →
      ∃ s', serProblem (.valuedRooms v skip allow) p h w = .ok s' ∧ deProblem (.valuedRooms v skip allow) s' h w = .ok p

theorem C17_reencodable_valued_rooms : statement_reencodable_valued_rooms :=
  Cspuz.Ser.RoomsRe.valuedRooms_reencodable

/-- **Re-encodability of the three room puzzle codecs** (lits, norinori: `Rooms()`; heyawake:
`ValuedRooms(OneOf(HexInt(), Spaces(-1, 'g')), skip_on_error=True)`; regenerated terms), also through
`deserialize_<puzzle>`'s call of `deserialize_problem_as_url(..., return_size=True)`: the returned value is
`(height, width, problem)` with the height and width written in the URL, and `problem` serializes on that board to a
canonical body that decodes to the same problem. -/
def statement_reencodable_rooms_puzzles : Prop :=
  (∀ pc ∈ [Gen.litsCodec, Gen.norinoriCodec, Gen.heyawakeCodec],
    ∀ s h w p, deProblem pc.comb s h w = .ok p →
      ∃ s', serProblem pc.comb p h w = .ok s' ∧ deProblem pc.comb s' h w = .ok p) ∧
  (∀ pc ∈ [Gen.litsCodec, Gen.norinoriCodec, Gen.heyawakeCodec],
    ∀ url r, deProblemAsUrl pc.comb url pc.allowed pc.allowFailure pc.returnSize = .ok r →
      ∃ name wd hd body hh ww p, matchUrl url = some (name, wd, hd, body) ∧ pyInt hd = .ok hh ∧ pyInt wd = .ok ww ∧
        r = .tuple [.int hh, .int ww, p] ∧
        ∃ s', serProblem pc.comb p hh ww = .ok s' ∧ deProblem pc.comb s' hh ww = .ok p)

theorem C17_reencodable_rooms_puzzles : statement_reencodable_rooms_puzzles :=
  ⟨Cspuz.Ser.RoomsRe.rooms_puzzles_reencodable, Cspuz.Ser.RoomsRe.rooms_puzzles_reencodable_url⟩

/-! ### non-vacuity: the model reproduces the concrete behaviours the property is about -/

/-- `HexInt` on `"--1"` (patch D11): `None`, not `-1` -/
example : de .hexInt ⟨1, 1⟩ [45, 45, 49] 0 = .none := by rfl
/-- text ending inside a `HexInt` group -/
example : de .hexInt ⟨1, 1⟩ [43, 49, 102] 0 = .none := by rfl
/-- `DecInt` on the superscript two: `str.isdigit` accepts it, `int()` raises `ValueError` -/
example : de .decInt ⟨1, 1⟩ [178] 0 = .raised .valueError := by rfl
/-- Arabic-Indic three followed by ASCII one: 31 -/
example : de .decInt ⟨1, 1⟩ [0x663, 49] 0 = .ok (2, [.int 31]) := by rfl
/-- a non-matching URL: `ValueError`, or `None` with `allow_failure` (patch D10) -/
example : deProblemAsUrl Gen.litsCombinator [103, 97, 114, 98, 97, 103, 101] none false true = .raised .valueError := by rfl
example : deProblemAsUrl Gen.heyawakeCombinator [103, 97, 114, 98, 97, 103, 101] none true true = .none := by rfl
/-- redundant border: `ValueError`, `None` under `skip_on_error` -/
example : de (.rooms false false) ⟨4, 3⟩ [100, 107, 112, 103] 0 = .raised .valueError := by rfl
example : de (.rooms true false) ⟨4, 3⟩ [100, 107, 112, 103] 0 = .none := by rfl
/-- a board without cells (zero-size guard): `ValueError` -/
example : deProblem (.rooms false false) [120] 5 0 = .raised .valueError := by rfl

/-- nested terms (the fix 30e14c3 of `Grid.serialize`): `Seq(Grid(HexInt(), 1, 1), 2)` is a well-formed `SeqGridTerm`;
`"12"` decodes to `[[[1]], [[2]]]`, which serializes to `"12"` again (before the fix: `AssertionError`) -/
example : SeqGridTerm (.seq (.grid .hexInt (some (1, 1))) 2) ∧ wf (.seq (.grid .hexInt (some (1, 1))) 2) = true :=
  ⟨.seqNest _ _ (.gridFlat _ _ rfl (by decide)), by decide⟩
example : deProblem (.seq (.grid .hexInt (some (1, 1))) 2) [49, 50] 3 3
    = .ok (.list [.list [.list [.int 1]], .list [.list [.int 2]]]) := by rfl
example : serProblem (.seq (.grid .hexInt (some (1, 1))) 2) (.list [.list [.list [.int 1]], .list [.list [.int 2]]]) 3 3
    = .ok [49, 50] := by rfl
/-- a `Grid` at position 1 of the enclosing list serializes like one at position 0 -/
example : ser (.grid .hexInt (some (1, 1))) ⟨3, 3⟩ [.list [.list [.int 1]], .list [.list [.int 2]]] 1 = .ok (1, [50]) := by rfl
/-- `Grid(Grid(HexInt(), 1, 2), 2, 1)` on `"1234"`: `[[[[1, 2]]], [[[3, 4]]]]`, and back -/
example : SeqGridTerm (.grid (.grid .hexInt (some (1, 2))) (some (2, 1))) :=
  .gridNest _ _ (.gridFlat _ _ rfl (by decide))
example : deProblem (.grid (.grid .hexInt (some (1, 2))) (some (2, 1))) [49, 50, 51, 52] 3 3
    = .ok (.list [.list [.list [.list [.int 1, .int 2]]], .list [.list [.list [.int 3, .int 4]]]]) := by rfl
example : serProblem (.grid (.grid .hexInt (some (1, 2))) (some (2, 1)))
    (.list [.list [.list [.list [.int 1, .int 2]]], .list [.list [.list [.int 3, .int 4]]]]) 3 3 = .ok [49, 50, 51, 52] := by rfl
/-- three levels, the innermost `Grid` taking the board size: `Seq(Seq(Grid(OneOf(Spaces(-1,'g'), HexInt())), 1), 2)` on a
1 × 2 board, text `"h3"` (a run of two `-1`, then `3` and text exhausted → `None`) and `"h3g"` -/
example : SeqGridTerm (.seq (.seq (.grid (.oneOf [.spaces (.int (-1)) 15, .hexInt]) none) 1) 2) ∧
    wf (.seq (.seq (.grid (.oneOf [.spaces (.int (-1)) 15, .hexInt]) none) 1) 2) = true :=
  ⟨.seqNest _ _ (.seqNest _ _ (.gridFlat _ _ rfl (by decide))), by decide⟩
example : deProblem (.seq (.seq (.grid (.oneOf [.spaces (.int (-1)) 15, .hexInt]) none) 1) 2) [104, 51] 1 2 = .none := by rfl
example : deProblem (.seq (.seq (.grid (.oneOf [.spaces (.int (-1)) 15, .hexInt]) none) 1) 2) [104, 51, 103] 1 2
    = .ok (.list [.list [.list [.list [.int (-1), .int (-1)]]], .list [.list [.list [.int 3, .int (-1)]]]]) := by rfl
example : serProblem (.seq (.seq (.grid (.oneOf [.spaces (.int (-1)) 15, .hexInt]) none) 1) 2)
    (.list [.list [.list [.list [.int (-1), .int (-1)]]], .list [.list [.list [.int 3, .int (-1)]]]]) 1 2
    = .ok [104, 51, 103] := by rfl
/-- the witness of `C17_reencodable_fails`, step by step -/
example : wf Cspuz.Ser.TuplLoss.term = true ∧ single Cspuz.Ser.TuplLoss.term = true := ⟨by decide, by decide⟩
example : deProblem Cspuz.Ser.TuplLoss.term [114] 3 3 = .ok (.tuple [.list (List.replicate 9 (.int 0))]) := by rfl
example : serProblem Cspuz.Ser.TuplLoss.term (.tuple [.list (List.replicate 9 (.int 0))]) 3 3 = .ok [46] := by rfl
example : deProblem Cspuz.Ser.TuplLoss.term [46] 3 3 = .ok (.tuple [.list [.int 0]]) := by rfl

/-- `Rooms` on a 2 × 3 board: `"kc"` decodes to three rooms, which serialize to `"kc"` again -/
example : deProblem (.rooms false false) [107, 99] 2 3
    = .ok (roomsVal [[(0, 0), (1, 0)], [(0, 1), (0, 2)], [(1, 1), (1, 2)]]) := by rfl
example : serProblem (.rooms false false) (roomsVal [[(0, 0), (1, 0)], [(0, 1), (0, 2)], [(1, 1), (1, 2)]]) 2 3
    = .ok [107, 99] := by rfl
/-- a redundant border (`"s0"`: the border between `(0,1)` and `(0,2)` separates two cells of one room): `ValueError`,
`None` under `skip_on_error`; accepted with `allow_redundant_border`, and then the decoded two rooms serialize to the
canonical text `"k0"` ≠ `"s0"`, which decodes to the same two rooms -/
example : deProblem (.rooms false false) [115, 48] 2 3 = .raised .valueError := by rfl
example : deProblem (.rooms true false) [115, 48] 2 3 = .none := by rfl
example : deProblem (.rooms false true) [115, 48] 2 3
    = .ok (roomsVal [[(0, 0), (1, 0)], [(0, 1), (0, 2), (1, 1), (1, 2)]]) := by rfl
example : serProblem (.rooms false true) (roomsVal [[(0, 0), (1, 0)], [(0, 1), (0, 2), (1, 1), (1, 2)]]) 2 3
    = .ok [107, 48] := by rfl
example : deProblem (.rooms false true) [107, 48] 2 3
    = .ok (roomsVal [[(0, 0), (1, 0)], [(0, 1), (0, 2), (1, 1), (1, 2)]]) := by rfl
example : canonRooms 2 3 [[(0, 0), (1, 0)], [(0, 1), (0, 2), (1, 1), (1, 2)]]
    = [[(0, 0), (1, 0)], [(0, 1), (0, 2), (1, 1), (1, 2)]] := by decide
/-- heyawake through the URL layer: `https://puzz.link/p?heyawake/3/2/kc2g1` is `(2, 3, (three rooms, [2, -1, 1]))`, and the
problem serializes to the body `"kc2g1"` again; its value term satisfies the hypotheses of `C17_reencodable_valued_rooms` -/
example : deProblemAsUrl Gen.heyawakeCombinator
      [104, 116, 116, 112, 115, 58, 47, 47, 112, 117, 122, 122, 46, 108, 105, 110, 107, 47, 112, 63,
        104, 101, 121, 97, 119, 97, 107, 101, 47, 51, 47, 50, 47, 107, 99, 50, 103, 49]
      Gen.heyawakeCodec.allowed Gen.heyawakeCodec.allowFailure Gen.heyawakeCodec.returnSize
    = .ok (.tuple [.int 2, .int 3, .tuple [roomsVal [[(0, 0), (1, 0)], [(0, 1), (0, 2)], [(1, 1), (1, 2)]],
        .list [.int 2, .int (-1), .int 1]]]) := by rfl
example : serProblem Gen.heyawakeCombinator (.tuple [roomsVal [[(0, 0), (1, 0)], [(0, 1), (0, 2)], [(1, 1), (1, 2)]],
    .list [.int 2, .int (-1), .int 1]]) 2 3 = .ok [107, 99, 50, 103, 49] := by rfl
example : wf Gen.heyawakeCombinator = true ∧ flatBase (.oneOf [.hexInt, .spaces (.int (-1)) 15]) = true ∧
    closedBase (.oneOf [.hexInt, .spaces (.int (-1)) 15]) = true := ⟨by decide, by decide, by decide⟩

end Cspuz.C17
