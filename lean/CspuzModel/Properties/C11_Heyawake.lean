/-
  C11 / Heyawake — the program posted by `solve_heyawake` encodes the published rules of Heyawake
  (Spec/PuzzleRules/Heyawake.lean), for every board shape, every partition of the board into rooms
  (rectangular or not) and every clue layout.  Together with `Cspuz.C11.C11_compose` this yields the
  property for `solve_heyawake`.
-/
import CspuzModel.Proofs.C11Heyawake
namespace Cspuz.C11.Heyawake
open Cspuz Cspuz.Spec Cspuz.Puzzles.Heyawake Cspuz.Spec.Heyawake

/-- For every well-formed instance (any height, width ≥ 1, rooms that partition the board, any clues),
whenever the model of `solve_heyawake` returns the posted program `P`: an answer grid extends to a model of
`P` (hidden rank/root variables of the connectivity encoding included) iff it obeys the rules of Heyawake;
the answer keys are distinct declared variables; every posted constraint is a well-typed Boolean tree. -/
def statement : Prop :=
  ∀ pb : Problem, WellFormed pb → ∀ P : PuzzleProg, program pb = .ok P →
    EncodesRules P (Rules pb) ∧ P.KeysOk ∧ (∀ c ∈ P.cs, wtB c = true)

theorem program_iff_rules : statement := Cspuz.Proofs.C11Heyawake.main

/-- `solve_heyawake` does not raise on a well-formed instance. -/
theorem total : ∀ pb : Problem, WellFormed pb → ∃ P, program pb = .ok P := Cspuz.Proofs.C11Heyawake.total

/-- The rectangle input format `solve_heyawake(height, width, rectangles)` posts the program of the converted
instance, so `program_iff_rules` and `total` cover it whenever the converted instance is `WellFormed`. -/
theorem programRect_eq (height width : Nat) (rs : List Rect) :
    programRect height width rs =
      program ⟨height, width, (convertFromRectangularRepr rs).1, (convertFromRectangularRepr rs).2⟩ := rfl

/-! ### non-vacuity -/

/-- A 2×3 board (height < width) divided into three vertical dominoes, the middle one with the number 1 — the
rectangles `(0,0,2,1,-1)`, `(0,1,2,2,1)`, `(0,2,2,3,-1)`.  Each row crosses two room borders, so rule 4 posts
`is_black[y,0] | is_black[y,1] | is_black[y,2]` for both rows. -/
def exPb : Problem :=
  { height := 2, width := 3,
    rooms := [[(0, 0), (1, 0)], [(0, 1), (1, 1)], [(0, 2), (1, 2)]],
    clues := [-1, 1, -1] }

theorem exPb_wf : WellFormed exPb := by
  refine ⟨by decide, by decide, by decide, by decide, by decide, by decide⟩

/-- 7 adjacency + 7 connectivity + 1 room-count + 2 line constraints. -/
example : WellFormed exPb ∧ ∃ P, program exPb = .ok P ∧ P.cs.length = 7 + 7 + 1 + 2 ∧ P.keys = [0, 1, 2, 3, 4, 5] :=
  ⟨exPb_wf, _, rfl, by decide, by decide⟩

/-- The same instance in the rectangle format. -/
example : programRect 2 3 [⟨0, 0, 2, 1, -1⟩, ⟨0, 1, 2, 2, 1⟩, ⟨0, 2, 2, 3, -1⟩] = program exPb := by
  rw [programRect_eq]; rfl

end Cspuz.C11.Heyawake
