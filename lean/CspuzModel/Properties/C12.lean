/-
  C12 — Array operators and aggregate helpers have pointwise / mathematical meaning.
  Property theorems only; lemmas live in Proofs/C12*.lean.  The model (Model/ArrayOps.lean) describes
  the code with the repairs D4 / D5 demanded by the property (see the header of that file).
-/
import CspuzModel.Proofs.C12Table
import CspuzModel.Proofs.C12Then
import CspuzModel.Proofs.C12Agg
import CspuzModel.Proofs.C12Conv
import CspuzModel.Proofs.C12Scalar
namespace Cspuz.C12
open Cspuz Cspuz.Spec

/-- Tie to the code: every row recorded from the LIVE classes (8 receiver classes × every dunder incl.
reflected ones, unary forms, `then`, `cond`, the infix forms, `constraints.then` / `constraints.cond`
× 15 operand kinds: result class, shape, operator and operand order of every element, or the
exception) is exactly what the model computes.  Regenerated on every run of `./check C12`. -/
def statement_table : Prop :=
  ∀ c ∈ Gen.DunderTable.chunks, ∀ r ∈ c, r.form.run = r.expected

theorem C12_dunder_table : statement_table := Cspuz.Proofs.C12Table.dunder_table_agrees

/-- Pointwise meaning, for ALL shapes (1-D, 2-D, empty, 1×N), all operand contents and all assignments.
Operands `a`, `b` are arrays or scalars (expression objects or Python literals — a literal evaluates to
itself under `eval`), at least one is an array, all arrays have the shape `sh`, and both have the
kind `k` the operator accepts.  Then
* `a o b` (through Python's full dispatch: left method / reflected method of the right operand) is an
  array of shape `sh` whose element `i` evaluates to `binSem o k (value of a[i]) (value of b[i])` —
  operand order preserved also when the reflected method (`1 - A`, `x < A`, `True | A`) did the work;
* `~a`, `-a`;  `then(x, y)` and `x.then(y)`;  `cond(c, t, f)` and `c.cond(t, f)` likewise. -/
def statement_pointwise : Prop :=
  (∀ (o : BinOp) (k : Bool) (a b : PyV) (sh : Shape),
    accepts o k = true → hasKind k a = true → hasKind k b = true → SameShape sh [a, b] →
    ∃ r, binop o a b = .ok r ∧ IsArr r (resultKind o) sh ∧
      ∀ i, i < sh.size → ∃ ai bi ri, elem? a i = some ai ∧ elem? b i = some bi ∧ elem? r i = some ri ∧
        ∀ σ va vb, eval σ ai = some va → eval σ bi = some vb → eval σ ri = binSem o k va vb) ∧
  (∀ (o : UnOp) (a : PyV) (sh : Shape),
    a.arrKind? = some (unKind o) → a.shape? = some sh → a.wf = true →
    ∃ r, unop o a = .ok r ∧ IsArr r (unKind o) sh ∧
      ∀ i, i < sh.size → ∃ ai ri, elem? a i = some ai ∧ elem? r i = some ri ∧
        ∀ σ va, eval σ ai = some va → eval σ ri = unSem o va) ∧
  (∀ (x y : PyV) (sh : Shape),
    hasKind true x = true → hasKind true y = true → SameShape sh [x, y] →
    ∃ r, thenF x y = .ok r ∧ (x.cls.defines .then_ = true → callMethod .then_ x [y] = .ok (some r)) ∧
      IsArr r true sh ∧
      ∀ i, i < sh.size → ∃ xi yi ri, elem? x i = some xi ∧ elem? y i = some yi ∧ elem? r i = some ri ∧
        ∀ σ vx vy, eval σ xi = some vx → eval σ yi = some vy → eval σ ri = impSem vx vy) ∧
  (∀ (c t f : PyV) (sh : Shape),
    hasKind true c = true → hasKind false t = true → hasKind false f = true → SameShape sh [c, t, f] →
    ∃ r, condF c t f = .ok r ∧ (c.cls.defines .cond = true → callMethod .cond c [t, f] = .ok (some r)) ∧
      IsArr r false sh ∧
      ∀ i, i < sh.size → ∃ ci ti fi ri, elem? c i = some ci ∧ elem? t i = some ti ∧ elem? f i = some fi ∧
        elem? r i = some ri ∧
        ∀ σ vc vt vf, eval σ ci = some vc → eval σ ti = some vt → eval σ fi = some vf →
          eval σ ri = iteSem vc vt vf)

theorem C12_pointwise : statement_pointwise := Cspuz.Proofs.C12Then.pointwise_all

/-- Rejection, universally over shapes and operand contents (case analysis on kinds, not the table):
* an arithmetic / ordering / logical infix form (everything but `==`, `!=`) with an array operand whose
  operands do not both have a kind the operator accepts raises `TypeError` (a Python `bool` where an
  integer is required included, and `None` / foreign objects);
* operands of the right kind but two arrays of different shapes (also 1-D against 2-D, also for
  `==` / `!=`) raise `ValueError`;
* `~` on an integer array, `-` on a Boolean array raise `TypeError`;
* `then` / `cond` (function and method forms) with an operand of the wrong kind raise `TypeError`
  — for ANY operands, scalar-only calls included —, with mismatching shapes `ValueError`. -/
def statement_rejects : Prop :=
  (∀ (o : BinOp) (a b : PyV), (a.isArr = true ∨ b.isArr = true) → (o ≠ .eq ∧ o ≠ .ne) →
    (∀ k, accepts o k = true → ¬ (hasKind k a = true ∧ hasKind k b = true)) →
    binop o a b = .error .typeError) ∧
  (∀ (o : BinOp) (k : Bool) (a b : PyV) (sa sb : Shape), accepts o k = true →
    hasKind k a = true → hasKind k b = true → a.shape? = some sa → b.shape? = some sb → sa ≠ sb →
    binop o a b = .error .valueError) ∧
  (∀ (o : UnOp) (a : PyV), a.arrKind? = some (!unKind o) → unop o a = .error .typeError) ∧
  (∀ (x y : PyV), ¬ (x.isBoolLike = true ∧ y.isBoolLike = true) →
    thenF x y = .error .typeError ∧
    ((x.isArr = true ∨ y.isArr = true) → x.cls.defines .then_ = true →
      callMethod .then_ x [y] = .error .typeError)) ∧
  (∀ (x y : PyV) (sx sy : Shape), x.isBoolLike = true → y.isBoolLike = true →
    x.shape? = some sx → y.shape? = some sy → sx ≠ sy →
    thenF x y = .error .valueError ∧
    (x.cls.defines .then_ = true → callMethod .then_ x [y] = .error .valueError)) ∧
  (∀ (c t f : PyV), ¬ (c.isBoolLike = true ∧ t.isIntLike = true ∧ f.isIntLike = true) →
    condF c t f = .error .typeError ∧
    ((c.isArr = true ∨ t.isArr = true ∨ f.isArr = true) → c.cls.defines .cond = true →
      callMethod .cond c [t, f] = .error .typeError)) ∧
  (∀ (c t f : PyV), c.isBoolLike = true → t.isIntLike = true → f.isIntLike = true →
    ShapeMismatch [c, t, f] →
    condF c t f = .error .valueError ∧
    (c.cls.defines .cond = true → callMethod .cond c [t, f] = .error .valueError))

theorem C12_rejects : statement_rejects := Cspuz.Proofs.C12Then.rejects_all

/-- `count_true(*args)` over any nesting of iterables, arrays (iterated element-wise, row-major) and
literals: when every leaf is Boolean-like it returns an expression whose value is the number of true
leaves (constant folding of the literals included, `0` for no leaves); otherwise `TypeError`.  The
array method `A.count_true()` is `count_true(A.data)`. -/
def statement_count_true : Prop :=
  (∀ args : List ANest, (∀ x ∈ ANest.flattenList args, x.isBoolLike = true) →
    ∃ e, countTrueA args = .ok e ∧ ∀ σ bs, Cspuz.Proofs.C12Agg.EvalB σ (ANest.flattenList args) bs →
      eval σ e = some (.i (countTrueSem bs))) ∧
  (∀ args : List ANest, (∃ x ∈ ANest.flattenList args, x.isBoolLike = false) →
    countTrueA args = .error .typeError) ∧
  (∀ (a : PyV) (d : List Expr), a.data? = some d → a.arrKind? = some true →
    callMethod .countTrue a [] = (countTrueA [.leaf a]).map fun e => some (.scalar e))

theorem C12_count_true : statement_count_true := Cspuz.Proofs.C12Agg.count_true_all

/-- `fold_or`: the disjunction of the leaves (`False` for none; a literal `True` short-cuts to the constant
`True`); the array method builds `OR data` (value `False` on an empty array). -/
def statement_fold_or : Prop :=
  (∀ args : List ANest, (∀ x ∈ ANest.flattenList args, x.isBoolLike = true) →
    ∃ e, foldOrA args = .ok e ∧ ∀ σ bs, Cspuz.Proofs.C12Agg.EvalB σ (ANest.flattenList args) bs →
      eval σ e = some (.b (bs.any id))) ∧
  (foldOrA [] = .ok (.node .boolConst [.litB false])) ∧
  (∀ (a : PyV) (d : List Expr), a.data? = some d → a.arrKind? = some true →
    callMethod .foldOr a [] = .ok (some (.scalar (.node .or d))) ∧
    ∀ σ bs, Cspuz.Proofs.C12Agg.EvalB σ d bs → eval σ (.node .or d) = some (.b (bs.any id)))

theorem C12_fold_or : statement_fold_or := Cspuz.Proofs.C12Agg.fold_or_all

/-- `fold_and`: the conjunction (`True` for none; a literal `False` short-cuts). -/
def statement_fold_and : Prop :=
  (∀ args : List ANest, (∀ x ∈ ANest.flattenList args, x.isBoolLike = true) →
    ∃ e, foldAndA args = .ok e ∧ ∀ σ bs, Cspuz.Proofs.C12Agg.EvalB σ (ANest.flattenList args) bs →
      eval σ e = some (.b (bs.all id))) ∧
  (foldAndA [] = .ok (.node .boolConst [.litB true])) ∧
  (∀ (a : PyV) (d : List Expr), a.data? = some d → a.arrKind? = some true →
    callMethod .foldAnd a [] = .ok (some (.scalar (.node .and d))) ∧
    ∀ σ bs, Cspuz.Proofs.C12Agg.EvalB σ d bs → eval σ (.node .and d) = some (.b (bs.all id)))

theorem C12_fold_and : statement_fold_and := Cspuz.Proofs.C12Agg.fold_and_all

/-- `alldifferent`: on integer-like leaves the value is pairwise distinctness (`List.Nodup`) of the
values; a leaf that is neither integer-like nor a Python bool raises `TypeError`.  (A Python `bool`
literal is admitted by `isinstance(x, int)`; the property does not list `alldifferent` among the
forms that must reject it — recorded as an observation.) -/
def statement_alldifferent : Prop :=
  (∀ l : List Int, allDistinct l = true ↔ l.Nodup) ∧
  (∀ args : List ANest, (∀ x ∈ ANest.flattenList args, x.isIntLike = true) →
    ∃ e, alldifferentA args = .ok e ∧ ∀ σ ns, Cspuz.Proofs.C12Agg.EvalI σ (ANest.flattenList args) ns →
      eval σ e = some (.b (decide ns.Nodup))) ∧
  (∀ args : List ANest, (∃ x ∈ ANest.flattenList args, x.isIntLike = false ∧ ∀ b, x ≠ .litB b) →
    alldifferentA args = .error .typeError) ∧
  (∀ (a : PyV) (d : List Expr), a.data? = some d → a.arrKind? = some false →
    callMethod .alldifferent a [] = .ok (some (.scalar (.node .alldiff d))) ∧
    ∀ σ ns, Cspuz.Proofs.C12Agg.EvalI σ d ns → eval σ (.node .alldiff d) = some (.b (decide ns.Nodup)))

theorem C12_alldifferent : statement_alldifferent := Cspuz.Proofs.C12Agg.alldifferent_all

/-- `A.conv2d(h, w, "and" | "or")` on an `H × W` Boolean array, any window size `h, w ≥ 0`: the result
has shape `(max 0 (H − h + 1), max 0 (W − w + 1))` (natural-number subtraction), and entry `(y, x)` is the
`AND` / `OR` node over exactly the cells `(y + dy, x + dx)`, `dy < h`, `dx < w`, row-major — so its value
is the conjunction / disjunction of the window.  Any other `op` raises `ValueError`; no other class has
the method. -/
def statement_conv2d : Prop :=
  (∀ (data : List Expr) (H W h w : Nat) (cop : ConvOp) (op : Op), cop.op? = some op →
    data.length = H * W →
    ∃ cells, conv2d (.arr2 true H W data) (h : Int) (w : Int) cop
        = .ok (.arr2 true (H + 1 - h) (W + 1 - w) cells) ∧
      cells.length = (H + 1 - h) * (W + 1 - w) ∧
      ∀ y x, y < H + 1 - h → x < W + 1 - w →
        ∃ l, cells[y * (W + 1 - w) + x]? = some (.node op l) ∧
          l.map some = (windowCells h w y x).map (cellAt data W) ∧
          ∀ σ (v : Nat × Nat → Bool),
            (∀ p ∈ windowCells h w y x, ∀ e, cellAt data W p = some e → eval σ e = some (.b (v p))) →
            eval σ (.node op l) = some (.b (windowSem cop (windowCells h w y x) v))) ∧
  (∀ (v : PyV) (h w : Int) (cop : ConvOp),
    (∀ H W data, v = .arr2 true H W data → cop = .bad → conv2d v h w cop = .error .valueError) ∧
    ((∀ H W data, v ≠ .arr2 true H W data) → conv2d v h w cop = .error .attributeError))

theorem C12_conv2d : statement_conv2d :=
  ⟨Cspuz.Proofs.C12Conv.conv2d_spec, Cspuz.Proofs.C12Conv.conv2d_bad⟩

/-- `A.four_neighbors(y, x)` / `A.four_neighbors((y, x))` for a cell of an `H × W` array: a 1-D array of
the receiver's kind holding exactly the in-bounds orthogonal neighbours in the order up, down, left,
right; `four_neighbor_indices` returns exactly their coordinates (so the two agree); the call forms with a
single integer or a tuple plus an integer raise `TypeError`. -/
def statement_four_neighbors : Prop :=
  (∀ (k : Bool) (data : List Expr) (H W y x : Nat), data.length = H * W → y < H → x < W →
    ∀ a : NbArgs, (a = .two y x ∨ a = .tuple y x) →
    fourNeighborIndices H W a = .ok (neighbours H W y x) ∧
    ∃ l, fourNeighbors (.arr2 k H W data) a = .ok (.arr1 k l) ∧
      l.map some = (neighbours H W y x).map fun p => cellAt data W (p.1.toNat, p.2.toNat)) ∧
  (∀ (v : PyV) (H W : Nat) (a : NbArgs),
    ((∃ y, a = .oneInt y) ∨ ∃ y x x', a = .tupleAndInt y x x') → (∃ k h w d, v = .arr2 k h w d) →
    fourNeighborIndices H W a = .error .typeError ∧ fourNeighbors v a = .error .typeError)

theorem C12_four_neighbors : statement_four_neighbors :=
  ⟨fun k data H W y x hl hy hx a ha => Cspuz.Proofs.C12Conv.four_neighbors_spec k data H W y x hl hy hx a ha,
   Cspuz.Proofs.C12Conv.four_neighbors_bad_call⟩

/-- Consistency of the models: on scalar integer operands the general dispatch (`binop`, with the subclass
priority rule of rich comparisons) coincides with `cmpPy` of Model/Graph.lean, the special case the graph
generators of C04–C09 are modelled with (`IntExpr < IntVar` gives `GT [var, expr]`, …). -/
def statement_scalar_dispatch : Prop :=
  ∀ (o : BinOp) (op : Op), Cspuz.Proofs.C12Scalar.cmpOf o = some op → ∀ a b : Expr,
    a.isIntLike = true → b.isIntLike = true →
    binop o (.scalar a) (.scalar b) = (cmpPy op a b).map PyV.scalar

theorem C12_scalar_dispatch : statement_scalar_dispatch := Cspuz.Proofs.C12Scalar.binop_cmp_scalar

/-! ### Non-vacuity (results compared with the structural equality `Outcome.beq`, sound by
`Proofs.C12Table.outcome_beq_sound`) -/

/-- `1 - A` on a 1×2 integer array: reflected method, operand order preserved. -/
example : (Outcome.ofPy (binop .sub (.scalar (.litI 1)) (.arr2 false 1 2 [.ivar 0, .ivar 1]))).beq
    (.val (.arr2 false 1 2 [.node .sub [.litI 1, .ivar 0], .node .sub [.litI 1, .ivar 1]])) = true := by
  decide +kernel

/-- `x < A` with `x` an `IntVar`: the array's `__gt__` runs; the meaning is still `x < A[0]` (2 < 5). -/
example : (binop .lt (.scalar (.ivar 9)) (.arr1 false [.ivar 0])).toOption.map
    (fun r => (elem? r 0).map (eval ⟨fun _ => false, fun i => if i = 9 then 2 else 5⟩))
    = some (some (some (.b true))) := by decide +kernel

/-- D4: `IntArray + True` is rejected. -/
example : (Outcome.ofPy (binop .add (.arr1 false [.ivar 0]) (.scalar (.litB true)))).beq
    (.err .typeError) = true := by decide +kernel

/-- D5: `bv.then(int_array)` and `cond(bv, bool_array, 2)` are rejected. -/
example : (Outcome.ofRes (callMethod .then_ (.scalar (.bvar 0)) [.arr1 false [.ivar 1]])).beq
    (.err .typeError) = true := by decide +kernel
example : (Outcome.ofPy (condF (.scalar (.bvar 0)) (.arr1 true [.bvar 1]) (.scalar (.litI 2)))).beq
    (.err .typeError) = true := by decide +kernel

/-- empty arrays -/
example : (Outcome.ofPy (binop .and_ (.arr1 true []) (.scalar (.litB true)))).beq (.val (.arr1 true []))
    = true := by decide +kernel

/-- a 2×2 `or` window on a 2×3 array -/
example : (Outcome.ofPy (conv2d (.arr2 true 2 3 [.bvar 0, .bvar 1, .bvar 2, .bvar 3, .bvar 4, .bvar 5]) 2 2
      .or_)).beq
    (.val (.arr2 true 1 2 [.node .or [.bvar 0, .bvar 1, .bvar 3, .bvar 4],
                           .node .or [.bvar 1, .bvar 2, .bvar 4, .bvar 5]])) = true := by decide +kernel

example : (Outcome.ofPy (fourNeighbors (.arr2 true 2 3 [.bvar 0, .bvar 1, .bvar 2, .bvar 3, .bvar 4, .bvar 5])
      (.two 1 1))).beq (.val (.arr1 true [.bvar 1, .bvar 3, .bvar 5])) = true := by decide +kernel

end Cspuz.C12
