/-
  C11 — Bundled puzzle solvers agree with the puzzles' published rules.
  This file holds the generic composition theorem; each puzzle's own theorems live in
  Properties/C11_<Puzzle>.lean (imported by the generated file Properties/C11All.lean).
-/
import CspuzModel.Proofs.C11Compose
namespace Cspuz.C11
open Cspuz Cspuz.Spec

/-- If the program posted by a puzzle solver encodes the rules `R`, then for every correct backend
`solve()` — hence `solve_<puzzle>` — reports a solution exactly when a rule-obeying grid exists, and
the cells it reports as decided are exactly those on which all rule-obeying grids agree, with the
agreed value; undecided cells are exactly those on which two rule-obeying grids differ. -/
def statement_compose : Prop :=
  ∀ (P : PuzzleProg) (R : List Val → Prop) (B : Backend),
    EncodesRules P R → P.KeysOk → (∀ c ∈ P.cs, wtB c = true) → B.Correct →
    ((solveRefine B P.state).2 = .verdict true ∨ (solveRefine B P.state).2 = .verdict false) ∧
    ((solveRefine B P.state).2 = .verdict true ↔ ∃ a, R a) ∧
    ((solveRefine B P.state).2 = .verdict true →
      ∀ j (hj : j < P.keys.length),
        (∀ v, (solveRefine B P.state).1.sol.getD (P.keys[j]) none = some v ↔ ∀ a, R a → a[j]? = some v) ∧
        ((solveRefine B P.state).1.sol.getD (P.keys[j]) none = none ↔
          ∃ a a', R a ∧ R a' ∧ a[j]? ≠ a'[j]?))

theorem C11_compose : statement_compose := Cspuz.Proofs.C11Compose.compose

/-! ### non-vacuity -/

/-- `b0 = BoolVar(); b1 = BoolVar(); ensure(b0 | b1); add_answer_key(b0, b1)`. -/
def exProg : PuzzleProg :=
  { decls := [.bool, .bool], cs := [.node .or [.bvar 0, .bvar 1]], keys := [0, 1] }

/-- "At least one of the two cells is black." -/
def exRules (a : List Val) : Prop :=
  a = [.b true, .b true] ∨ a = [.b true, .b false] ∨ a = [.b false, .b true]

theorem exProg_sat_iff (σ : Asg) : Sat exProg.decls exProg.cs σ ↔ (σ.b 0 || σ.b 1) = true := by
  constructor
  · rintro ⟨_, hc⟩
    have := hc _ (List.mem_singleton.2 rfl)
    simpa [Cspuz.Proofs.eval_node, evalOp, allBools] using this
  · intro h
    refine ⟨?_, ?_⟩
    · intro id lo hi hd
      match id, hd with
      | 0, hd => simp [exProg] at hd
      | 1, hd => simp [exProg] at hd
      | n + 2, hd => simp [exProg] at hd
    · intro c hc
      simp only [exProg, List.mem_cons, List.not_mem_nil, or_false] at hc
      subst hc
      simpa [Cspuz.Proofs.eval_node, evalOp, allBools] using h

theorem exProg_keyVals (σ : Asg) :
    exProg.keyVals σ = [Val.b (σ.b 0), Val.b (σ.b 1)].map some := by
  simp [PuzzleProg.keyVals, exProg, valOf]

theorem exProg_encodes : EncodesRules exProg exRules := by
  intro a
  constructor
  · rintro ⟨σ, hσ, hkv⟩
    rw [exProg_keyVals] at hkv
    have ha : a = [Val.b (σ.b 0), Val.b (σ.b 1)] :=
      ((List.map_inj_right (fun _ _ h => Option.some.inj h)).1 hkv).symm
    have hs := (exProg_sat_iff σ).1 hσ
    subst ha
    unfold exRules
    cases h0 : σ.b 0 <;> cases h1 : σ.b 1 <;> simp [h0, h1] at hs ⊢
  · intro hR
    rcases hR with rfl | rfl | rfl
    · exact ⟨⟨fun _ => true, fun _ => 0⟩, (exProg_sat_iff _).2 rfl, exProg_keyVals _⟩
    · exact ⟨⟨fun i => i == 0, fun _ => 0⟩, (exProg_sat_iff _).2 rfl, exProg_keyVals _⟩
    · exact ⟨⟨fun i => i == 1, fun _ => 0⟩, (exProg_sat_iff _).2 rfl, exProg_keyVals _⟩

theorem exProg_keysOk : exProg.KeysOk := by
  refine ⟨by decide, ?_⟩
  intro k hk
  simp only [exProg, List.mem_cons, List.not_mem_nil, or_false] at hk
  rcases hk with rfl | rfl <;> decide

theorem exProg_wt : ∀ c ∈ exProg.cs, wtB c = true := by
  intro c hc
  simp only [exProg, List.mem_cons, List.not_mem_nil, or_false] at hc
  subst hc; decide

/-- Hence, for every correct backend, `solve()` returns True on this program and leaves both cells
undecided (two rule-obeying grids differ on each). -/
example (B : Backend) (hB : B.Correct) :
    (solveRefine B exProg.state).2 = .verdict true ∧
    (solveRefine B exProg.state).1.sol.getD 0 none = none ∧
    (solveRefine B exProg.state).1.sol.getD 1 none = none := by
  obtain ⟨_, h2, h3⟩ := C11_compose exProg exRules B exProg_encodes exProg_keysOk exProg_wt hB
  have hv : (solveRefine B exProg.state).2 = .verdict true := h2.2 ⟨_, Or.inl rfl⟩
  refine ⟨hv, (h3 hv 0 (by decide)).2.2 ?_, (h3 hv 1 (by decide)).2.2 ?_⟩
  · exact ⟨_, _, Or.inr (Or.inl rfl), Or.inr (Or.inr rfl), by decide⟩
  · exact ⟨_, _, Or.inr (Or.inl rfl), Or.inr (Or.inr rfl), by decide⟩

end Cspuz.C11
