/-
  C11 — Bundled puzzle solvers agree with the puzzles' published rules.
  This file holds the generic composition theorem; each puzzle's own theorems live in
  Properties/C11_<Puzzle>.lean (imported by the generated file Properties/C11All.lean).
-/
import CspuzModel.Proofs.C11Compose
namespace Cspuz.C11
open Cspuz Cspuz.Spec

/-- If the program posted by a puzzle solver encodes the rules `R`, then for every correct backend
`solve()` — hence `solve_<puzzle>` — reports a solution exactly when a rule-obeying grid exists, and
the cells it reports as decided are exactly those on which all rule-obeying grids agree, with the
agreed value; undecided cells are exactly those on which two rule-obeying grids differ. -/
def statement_compose : Prop :=
  ∀ (P : PuzzleProg) (R : List Val → Prop) (B : Backend),
    EncodesRules P R → P.KeysOk → (∀ c ∈ P.cs, wtB c = true) → B.Correct →
    ((solveRefine B P.state).2 = .verdict true ∨ (solveRefine B P.state).2 = .verdict false) ∧
    ((solveRefine B P.state).2 = .verdict true ↔ ∃ a, R a) ∧
    ((solveRefine B P.state).2 = .verdict true →
      ∀ j (hj : j < P.keys.length),
        (∀ v, (solveRefine B P.state).1.sol.getD (P.keys[j]) none = some v ↔ ∀ a, R a → a[j]? = some v) ∧
        ((solveRefine B P.state).1.sol.getD (P.keys[j]) none = none ↔
          ∃ a a', R a ∧ R a' ∧ a[j]? ≠ a'[j]?))

theorem C11_compose : statement_compose := Cspuz.Proofs.C11Compose.compose

end Cspuz.C11
