/-
  C03 — Sugar-family backends: emitted CSP text and parsed replies are faithful.
-/
import CspuzModel.Proofs.C03
namespace Cspuz.C03
open Cspuz Cspuz.Spec Cspuz.Sugar Cspuz.SugarSyntax
open Cspuz.Proofs.C03Text Cspuz.Proofs.C03Reply Cspuz.Proofs.C03Backend Cspuz.Proofs.C03WT
open Cspuz.Proofs.C03Plain Cspuz.Proofs.C03Java

/-- The text handed to the external solver — `cspDescription` is the model of `_convert_variable`,
`_convert_expr`, `"\n".join(...)` and of the `#` line of `solve_irrefutably` — read back by `parseCSP`, the
independent reading of Sugar's input syntax (Spec/SugarSyntax.lean), gives back
* exactly the variables handed to the backend, in order, with their identifiers and domains (ANY list of
  `BoolVar`/`IntVar` objects: permuted, sparse or repeated identifiers, negative bounds),
* exactly the posted constraints, in order, up to the identification the printer makes (`norm`: a
  `BOOL_CONSTANT`/`INT_CONSTANT` node reads back as the literal it wraps) — which does not change the meaning
  under any assignment —,
* in deduction mode exactly the names of the variables whose `is_answer_key` flag is set, in variable order
  (and no key list in answer-finder mode).
The printer never raises on such programs.  `printable` excludes only what `_convert_expr` cannot print or
prints ambiguously: `VAR`-operator nodes that are not variable objects, malformed constant nodes, and `-`
nodes of the wrong arity (`NEG` with ≠ 1 operand; `SUB` with exactly one operand, which Sugar reads as a
negation) — see `C03_wt_printable`. -/
def statement_text : Prop :=
  ∀ (vars : List SVar) (cs : List Expr) (keys : Option (List Bool)),
    (∀ c ∈ cs, printable c = true) → (∀ ks, keys = some ks → vars.length ≤ ks.length) →
    ∃ text, cspDescription vars cs keys = .ok text ∧
      parseCSP text = some (vars, cs.map norm, keys.map (keyNamesOf vars)) ∧
      (∀ (σ : Asg) (c : Expr), eval σ (norm c) = eval σ c) ∧
      text.toList.all (fun ch => ch.toNat < 128) = true

theorem C03_text_roundtrip : statement_text := Cspuz.Proofs.C03.text_roundtrip

/-- Every tree of C01's class (`wtB`: everything the DSL builds, any arity, literals mixed in, constant
forms) without a one-operand `SUB`, and each of the two native graph constraints over such operands (`None`
sizes included), is printable; different variables have different names. -/
def statement_wt : Prop :=
  (∀ c : Expr, sugarWT c = true → printable c = true) ∧
  (∀ v w : SVar, v.name = w.name → v.id = w.id ∧ v.isInt = w.isInt)

theorem C03_wt_printable : statement_wt := ⟨fun _ h => printable_of_sugarWT h, fun _ _ h => name_inj h⟩

/-- Answer-finder replies.  For every variable list in which no identifier is used both by an integer and a
Boolean variable (the parser keeps only the number of a name) and EVERY assignment `σ` (any integers, negative
ones included), the reply the Java wrapper prints for `σ` — `s SATISFIABLE`, `a <name>\t<value>` for the int
variables then the bool variables, `a` — is parsed to `True` with `sol = σ(v)` for every variable, as a Python
`int` for `IntVar`s and a Python `bool` for `BoolVar`s (`valV`).  `s UNSATISFIABLE` is parsed to `False` with
every `sol` set to `None`. -/
def statement_reply_sat : Prop :=
  (∀ (vars : List SVar), KindOK vars → ∀ σ : Asg,
    parseSat vars (formatSatS vars σ) = .ok (true, vars.map fun v => some (valV σ v))) ∧
  (∀ vars : List SVar, parseSat vars formatUnsatS = .ok (false, vars.map fun _ => none))

theorem C03_reply_sat : statement_reply_sat := Cspuz.Proofs.C03.reply_sat_S

/-- Deduction replies.  For every variable list with pairwise distinct identifiers, every set of key names and
every table `F` of decided facts, the reply `sat` + `<name> <value>` for the decided int keys then the decided
bool keys is parsed to `True` with, for every variable: `sol = F v` when `v` is a named key and `F v` is a value
of `v`'s type, `sol = None` when `v` is undecided or not a key.  `unsat` is parsed to `False`, all `sol` `None`. -/
def statement_reply_facts : Prop :=
  (∀ (vars : List SVar), (vars.map SVar.id).Nodup → ∀ (keys : List Str) (F : SVar → Option Val),
    parseFacts vars (formatFactsS vars keys F) = .ok (true, vars.map (factOf keys F)) ∧
    (∀ v σ, F v = some (valV σ v) → keys.contains v.name = true → factOf keys F v = F v) ∧
    (∀ v, F v = none → factOf keys F v = none) ∧
    (∀ v, keys.contains v.name = false → factOf keys F v = none)) ∧
  (∀ vars : List SVar, parseFacts vars formatUnsatFactsS = .ok (false, vars.map fun _ => none))

theorem C03_reply_facts : statement_reply_facts := Cspuz.Proofs.C03.reply_facts_S

/-- The five backend names (regenerated table `Gen/SugarOpNames.lean`): each maps to a subclass of
`SugarLikeBackend` that inherits `__init__`, `add_constraint` and `solve` (shared printer, shared
answer-finder parser); exactly `sugar` overrides `solve_irrefutably` with `raise NotImplementedError` (so
`Solver.solve` falls back to cspuz's own refinement loop), the other four inherit the shared deduction mode;
`sugar`/`sugar_extended` hand the description to `run_subprocess([path, "/dev/stdin"], desc)` (encoded as
ASCII, reply decoded as UTF-8), the other three to `<module>.solver(desc)`; description and reply are passed
through unchanged. -/
def statement_five_backends : Prop :=
  Gen.Sugar.backendTable.map (·.name) = Kind.all.map Kind.backendName ∧
  (∀ k ∈ Kind.all, ∃ r, k.row = some r ∧ r.sharedCore = true ∧ (r.nativeDeduction = (k != .sugar))) ∧
  (∀ r ∈ Gen.Sugar.backendTable,
    r.entry = (if r.name = "sugar" ∨ r.name = "sugar_extended" then "subprocess:/dev/stdin"
               else "module:" ++ (if r.name = "csugar" then "pycsugar" else r.name) ++ ".solver")) ∧
  Gen.Sugar.subprocCodecs = ("ascii", "utf-8")

theorem C03_five_backends : statement_five_backends := by unfold statement_five_backends; decide

/-- C01 through these backends.  If the external solver honours the protocol (`SolverCorrect`: on every
description of the fragment it prints a model of the denoted program in the `s SATISFIABLE` format or
`s UNSATISFIABLE` when there is none; in deduction mode `unsat` or `sat` + exactly the exact facts of the
named keys), then for every session state with printable constraints `find_answer` never raises, returns True
exactly when the program is satisfiable, then leaves in the `sol` fields a genuine model (`publish` = the
typed value of every variable), and on False all `sol` fields are `None`; and the backend seen through the
abstract `Backend` interface of Model/Solver.lean (which `Solver.solve`'s refinement loop uses for plain
`sugar`) satisfies the `Backend.Correct` contract on every printable program whose constraints only mention
declared variables at their declared type (`inScope`). -/
def statement_backend_correct : Prop :=
  ∀ (S : Call), SolverCorrect S →
    (∀ (st : SolverState), (∀ c ∈ st.cs, printable c = true) →
      ((sugarFindAnswer S st).2 = .verdict true ∨ (sugarFindAnswer S st).2 = .verdict false) ∧
      ((sugarFindAnswer S st).2 = .verdict true ↔ Satisfiable st.decls st.cs) ∧
      ((sugarFindAnswer S st).2 = .verdict true →
        ∃ σ, Sat st.decls st.cs σ ∧ (sugarFindAnswer S st).1.sol = publish st.decls σ) ∧
      ((sugarFindAnswer S st).2 = .verdict false → (sugarFindAnswer S st).1.sol = st.decls.map fun _ => none)) ∧
    (∀ (decls : List VarDecl) (cs : List Expr), (∀ c ∈ cs, printable c = true ∧ inScope decls c = true) →
      ∃ r, sugarBackend S decls cs = .ok r ∧ (∀ σ, r = some σ → Sat decls cs σ) ∧
        (r = none → ¬ Satisfiable decls cs))

theorem C03_backend_correct : statement_backend_correct :=
  fun _ hS => ⟨fun st hp => find_answer_exact hS st hp, fun _ _ hg => backend_correct hS hg⟩

/-- C02 through the four backends with native deduction (`sugar_extended`, `csugar`, `enigma_csp`,
`cspuz_core`): `Solver.solve` never raises, returns True exactly when the program is satisfiable, and then the
`sol` of every answer key is `v` iff the variable takes `v` in every model and `None` iff two models disagree
(`CommonValue` / `Undetermined` of Spec/Session.lean, the vocabulary of C02), every non-key `sol` is `None`;
on False every `sol` is `None`. -/
def statement_native_deduction : Prop :=
  ∀ (S : Call), SolverCorrect S → ∀ (k : Kind), k ≠ .sugar →
    ∀ (st : SolverState), (∀ c ∈ st.cs, printable c = true) → st.isKey.length = st.decls.length →
      ((sugarSolve k S st).2 = .verdict true ∨ (sugarSolve k S st).2 = .verdict false) ∧
      ((sugarSolve k S st).2 = .verdict true ↔ Satisfiable st.decls st.cs) ∧
      ((sugarSolve k S st).2 = .verdict false → (sugarSolve k S st).1.sol = st.decls.map fun _ => none) ∧
      ((sugarSolve k S st).2 = .verdict true → ∀ i, i < st.decls.length →
        (st.isKey.getD i false = false → (sugarSolve k S st).1.sol.getD i none = none) ∧
        (st.isKey.getD i false = true →
          (∀ v, (sugarSolve k S st).1.sol.getD i none = some v ↔ CommonValue st.decls st.cs i v) ∧
          ((sugarSolve k S st).1.sol.getD i none = none ↔ Undetermined st.decls st.cs i)))

theorem C03_native_deduction : statement_native_deduction := Cspuz.Proofs.C03.native_deduction

/-- C02 through plain `sugar` (the only class without native deduction): `Solver.solve("sugar")` IS cspuz's own
refute-and-re-solve loop run over `SugarLikeBackend.solve` (`solveRefine` of Model/Solver.lean, the loop C02 is
about), and for a correct external solver it never raises, returns True exactly when the program is satisfiable
and then every answer key's `sol` is `v` iff all models give `v`, `None` iff two models disagree.  `goodC` = C01's
well-typed trees without one-operand `SUB`, mentioning only declared variables at their declared type (the loop
only ever submits such programs: its refuting clauses are `xor`/`!=` of a declared variable and a literal).
Uses `Cspuz.C02.C02_exact`. -/
def statement_plain_sugar : Prop :=
  ∀ (S : Call), SolverCorrect S → ∀ (st : SolverState),
    (∀ c ∈ st.cs, goodC st.decls c = true) → st.isKey.length = st.decls.length →
    sugarSolve .sugar S st = solveRefine (sugarBackend S) st ∧
    ((sugarSolve .sugar S st).2 = .verdict true ∨ (sugarSolve .sugar S st).2 = .verdict false) ∧
    ((sugarSolve .sugar S st).2 = .verdict true ↔ Satisfiable st.decls st.cs) ∧
    ((sugarSolve .sugar S st).2 = .verdict true →
      ∀ i, i < st.decls.length → st.isKey.getD i false = true →
        (∀ v, (sugarSolve .sugar S st).1.sol.getD i none = some v ↔ CommonValue st.decls st.cs i v) ∧
        ((sugarSolve .sugar S st).1.sol.getD i none = none ↔ Undetermined st.decls st.cs i))

theorem C03_plain_sugar : statement_plain_sugar := fun _ hS st h1 h2 => plain_sugar hS st h1 h2

/-- The reference wrapper itself.  `CspuzSugarInterface.run()` (Model/SugarJava.lean: `loadProblem`, both modes, the
deduction loop `problem.add(OR(refuting)); if (!solveCSP()) break; …` with ints before bools) run on ANY correct
`solveCSP` oracle honours the protocol on every description of the fragment: in particular in deduction mode it
stops by itself and prints `sat` followed by exactly the exact facts of the named keys (undecided keys omitted),
or `unsat`. -/
def statement_java_loop : Prop :=
  ∀ (O : SugarJava.Oracle), OracleCorrect O → SolverCorrect (SugarJava.run O)

theorem C03_java_loop : statement_java_loop := fun _ hO => run_correct hO

/-- The hypothesis `SolverCorrect` is satisfiable (an ideal solver exists), so the theorems above are not vacuous. -/
def statement_solver_exists : Prop := ∃ S : Call, SolverCorrect S

theorem C03_solver_exists : statement_solver_exists := Cspuz.Proofs.C03Exists.solver_exists

/-! ### Non-vacuity: concrete instances -/

/-- a sparse, permuted variable list; all operator families; a native graph constraint with `*`. -/
def exVars : List SVar := [⟨7, .bool⟩, ⟨2, .int (-3) 5⟩, ⟨0, .bool⟩]
def exCs : List Expr :=
  [.node .or [], .node .eq [.node .sub [.ivar 2, .litI (-2)], .node .neg [.litI 3]], .litB true,
   .node .boolConst [.litB false], .node .le [.node .ite [.bvar 7, .node .intConst [.litI 4], .litI 0], .litI 9],
   .node .graphDiv [.litI 2, .litI 1, .litNone, .litI 2, .litI 0, .litI 1, .bvar 0]]

set_option maxRecDepth 100000 in
example : cspDescription exVars exCs (some [true, false, true])
    = .ok "(bool b7)\n(int i2 -3 5)\n(bool b0)\n(|| )\n(= (- i2 -2) (- 3))\ntrue\nfalse\n(<= (if b7 4 0) 9)\n(graph-division 2 1 * 2 0 1 b0)\n#b7 b0" := by
  decide

/-- the hypotheses of `C03_text_roundtrip` hold on it: the text above reads back as the program. -/
example : ∃ text, cspDescription exVars exCs (some [true, false, true]) = .ok text ∧
    parseCSP text = some (exVars, exCs.map norm, some [['b', '7'], ['b', '0']]) := by
  obtain ⟨text, h1, h2, _⟩ := C03_text_roundtrip exVars exCs (some [true, false, true]) (by decide)
    (by intro ks h; cases h; decide)
  exact ⟨text, h1, h2⟩

example : sugarWT (.node .and [.bvar 0, .node .eq [.node .add [.ivar 1], .litI 2]]) = true := by decide
example : sugarWT (.node .graphAVC [.litI 2, .litI 1, .bvar 0, .litB true, .litI 0, .litI 1]) = true := by decide
/-- the one-operand SUB is excluded (and is exactly what `printable` rejects in a well-typed tree). -/
example : wtI (.node .sub [.ivar 0]) = true ∧ printable (.node .sub [.ivar 0]) = false := by decide

/-- C02's example program is in the class of the plain-`sugar` theorem. -/
example : goodC [.bool, .int 0 1] (.node .or [.bvar 0, .node .gt [.ivar 1, .litI 5]]) = true := by decide

example : parseSat [⟨7, .bool⟩, ⟨2, .int (-30) 5⟩] "s SATISFIABLE\na i2\t-17\na b7\tfalse\na\n"
    = .ok (true, [some (.b false), some (.i (-17))]) := by decide

example : parseFacts [⟨1, .bool⟩, ⟨2, .int 0 5⟩, ⟨3, .bool⟩] "sat\ni2 4\nb3 true\n"
    = .ok (true, [none, some (.i 4), some (.b true)]) := by decide

end Cspuz.C03
