/-
  C11 / putteria — `solve_putteria` agrees with the published rules of Putteria.
  Property theorems only; lemmas live in Proofs/C11PutteriaTable.lean (the `block_size` table),
  Proofs/C11Putteria.lean (closed form of the posted program) and Proofs/C11PutteriaSem.lean (meaning of the
  constraints); shared: Proofs/C11CL.lean, Proofs/C11Grid.lean.
-/
import CspuzModel.Proofs.C11PutteriaSem
namespace Cspuz.C11.Putteria
open Cspuz Cspuz.Spec Cspuz.Puzzles.Putteria

/-- For every well-formed instance (the rooms partition the `height × width` board: every listed cell is on
the board, no cell is listed twice, every cell of the board is listed), the program `solve_putteria` posts
(model `Puzzles.Putteria.program`, tied to the code by the program correspondence of `./check C11`) encodes
exactly the rules of Putteria (`Rules`, Spec/PuzzleRules/Putteria.lean): an answer list extends to a model of
the program iff it is the row-major listing of a Boolean grid "cell holds a number" in which every room has
exactly one numbered cell, two different numbered cells of one row or one column lie in rooms of different
sizes (the number written is the size of the room, so: equal numbers do not repeat in a row or column), and
numbered cells are not orthogonally adjacent.  Moreover the answer keys are distinct declared variables and
every constraint is well typed — the hypotheses of `Cspuz.C11.C11_compose`, which turns this into the
statement about what `solve_putteria` reports. -/
def statement : Prop :=
  ∀ pb : Problem, WellFormed pb → ∀ P, program pb = .ok P →
    EncodesRules P (Rules pb) ∧ P.KeysOk ∧ (∀ c ∈ P.cs, wtB c = true)

theorem program_iff_rules : statement := Cspuz.Proofs.C11PutteriaSem.main

/-- `solve_putteria` posts a program (raises no exception) on every well-formed instance. -/
theorem total : ∀ pb : Problem, WellFormed pb → ∃ P, program pb = .ok P := Cspuz.Proofs.C11PutteriaSem.total

/-- Non-vacuity: a concrete 2 × 2 instance with two rooms (an L-shaped room of three cells, listed out of
order, and a single cell) is well formed and the model posts a program for it. -/
example : WellFormed { height := 2, width := 2, blocks := [[(1, 0), (0, 0), (0, 1)], [(1, 1)]] } := by
  refine ⟨by decide, by decide, ?_⟩
  intro y x hy hx
  have hy' : y = 0 ∨ y = 1 := by simp only at hy; omega
  have hx' : x = 0 ∨ x = 1 := by simp only at hx; omega
  rcases hy' with rfl | rfl <;> rcases hx' with rfl | rfl <;> decide

example : (program { height := 2, width := 2, blocks := [[(1, 0), (0, 0), (0, 1)], [(1, 1)]] }).toOption.isSome
    = true := by decide +kernel

/-- Non-vacuity of the rules: on that instance the grid with numbers at `(0, 0)` and `(1, 1)` obeys them (the
rooms have sizes 3 and 1), the grid with numbers at `(0, 1)` and `(1, 1)` does not (adjacent). -/
example : GridRules { height := 2, width := 2, blocks := [[(1, 0), (0, 0), (0, 1)], [(1, 1)]] }
    (fun y x => decide (y = x)) := by
  refine ⟨by decide, ?_, ?_, ?_⟩
  · intro b₁ h₁ b₂ h₂ p hp q hq hne hnp hnq _
    simp only [List.mem_cons, List.mem_nil_iff, or_false] at h₁ h₂
    rcases h₁ with rfl | rfl <;> rcases h₂ with rfl | rfl
    · simp only [List.mem_cons, List.mem_nil_iff, or_false] at hp hq
      rcases hp with rfl | rfl | rfl <;> rcases hq with rfl | rfl | rfl <;>
        first | exact absurd rfl hne | exact absurd hnp (by decide) | exact absurd hnq (by decide)
    · decide
    · decide
    · simp only [List.mem_cons, List.mem_nil_iff, or_false] at hp hq
      subst hp; subst hq
      exact absurd rfl hne
  · intro y x hy hx
    have hy' : y = 0 ∨ y = 1 := by simp only at hy; omega
    have hx' : x = 0 := by simp only at hx; omega
    subst hx'
    rcases hy' with rfl | rfl <;> decide
  · intro y x hy hx
    have hy' : y = 0 := by simp only at hy; omega
    have hx' : x = 0 ∨ x = 1 := by simp only at hx; omega
    subst hy'
    rcases hx' with rfl | rfl <;> decide

example : ¬ GridRules { height := 2, width := 2, blocks := [[(1, 0), (0, 0), (0, 1)], [(1, 1)]] }
    (fun _ x => decide (x = 1)) := by
  rintro ⟨_, _, _, hV⟩
  exact hV 0 1 (by decide) (by decide) (by decide)

end Cspuz.C11.Putteria
