/-
  C18 — Segmentation builder only ever produces valid room partitions.
  Property theorems only; lemmas live in Proofs/C18*.lean.  Model: Model/Segmentation.lean; meaning of
  "partition into orthogonally connected blocks within the bounds": Spec/Partition.lean (`Part`, `Bounds`, `Inv`).

  Every random choice of the Python code is a universally quantified parameter (the stream of
  `random.randint` pairs consumed by `split_block`, the index returned by `random.choice` in `initial`).
-/
import CspuzModel.Proofs.C18
namespace Cspuz.C18
open Cspuz Cspuz.Seg Cspuz.Seg.Spec Cspuz.Seg.Proofs

/-- One step, full strength: for every configuration (all board sizes, all bounds incl. the `or`-defaulted
`None`/`0` and negative ones, any recursion budget), every value `bs` satisfying the invariant, every stream of seed
draws, every update `u` that `candidates` proposes for `bs`: `copy_with_update(bs, u)` again is a partition of the
board into non-empty orthogonally connected blocks with block count and all block sizes inside the bounds. -/
def statement_step : Prop :=
  ∀ (cfg : Cfg) (bs : Blocks) (draws : List (Nat × Nat)) (us : List Update) (u : Update),
    Inv cfg bs → candidates cfg bs draws = .ok us → u ∈ us → Inv cfg (copyWithUpdate bs u)

theorem C18_step : statement_step := fun _ _ _ _ _ => inv_step

/-- The partition/connectivity half of the invariant is preserved by every proposed update whether or not the
bounds hold (this is what `initial` relies on while it is still looking for a value that meets the bounds, and what
holds after `allow_unmet_constraints_first=True`). -/
def statement_part_step : Prop :=
  ∀ (cfg : Cfg) (bs : Blocks) (draws : List (Nat × Nat)) (us : List Update) (u : Update),
    Part cfg.height cfg.width bs → candidates cfg bs draws = .ok us → u ∈ us →
      Part cfg.height cfg.width (copyWithUpdate bs u)

theorem C18_part_step : statement_part_step := fun _ _ _ _ _ => part_step

/-- `initial()`: whenever it returns (for any number of rounds, any choices and seed draws), the value is a
partition into non-empty connected blocks, and it meets the bounds unless `allow_unmet_constraints_first` was set.
`InitOk cfg`: the board has at least one cell (otherwise the single block built by `initial` is empty), resp. a
user-supplied `initial_blocks` is itself a partition into non-empty connected blocks. -/
def statement_initial : Prop :=
  ∀ (cfg : Cfg) (rounds : List Round) (bs : Blocks), InitOk cfg → initial cfg rounds = .done bs →
    Part cfg.height cfg.width bs ∧ (cfg.allowUnmet = false → Bounds cfg bs)

theorem C18_initial : statement_initial := fun _ _ _ => initial_done

/-- Every value reachable from `initial()` by any finite sequence of proposed updates (`Steps`) is a partition into
non-empty connected blocks, and satisfies the whole invariant when `allow_unmet_constraints_first` is off; moreover
from ANY value satisfying the invariant, every finite sequence of proposed updates stays inside the invariant. -/
def statement_reachable : Prop :=
  (∀ (cfg : Cfg) (rounds : List Round) (bs0 bs : Blocks), InitOk cfg → initial cfg rounds = .done bs0 →
      Steps cfg bs0 bs → Part cfg.height cfg.width bs ∧ (cfg.allowUnmet = false → Inv cfg bs)) ∧
  (∀ (cfg : Cfg) (a b : Blocks), Inv cfg a → Steps cfg a b → Inv cfg b)

theorem C18_reachable : statement_reachable :=
  ⟨fun _ _ _ _ hok hi hs =>
      ⟨steps_part hs (initial_done hok hi).1,
       fun hf => steps_inv hs ⟨(initial_done hok hi).1, (initial_done hok hi).2 hf⟩⟩,
   fun _ _ _ ha hs => steps_inv hs ha⟩

/-- `copy_with_update(previous, (exclude, append))` is the list of the blocks of `previous` whose index is not in
`exclude`, in order, followed by `append` — a function of its two arguments only.  (Whether the Python objects are
shared is an aliasing question outside a value model; it is decided by the harness: see `aliasing` in
evidence/C18.json.) -/
def statement_pure : Prop :=
  ∀ (bs : Blocks) (u : Update),
    copyWithUpdate bs u =
      ((bs.zipIdx 0).filter (fun p => decide ((p.2 : Int) ∉ u.1))).map (fun p => p.1) ++ u.2

theorem C18_pure : statement_pure := fun bs u => by
  unfold copyWithUpdate
  rw [keepFrom_eq_filter]

/-- `_is_connected(block, excluded)` (blocks without duplicate cells): if it returns `True`, `block` minus the
excluded cell is orthogonally connected; and for blocks of at least two cells it returns `True` whenever that set is
connected (a one-cell block with an excluded cell is answered `False` by the code). -/
def statement_isConnected : Prop :=
  ∀ (depth : Nat) (blk : Block) (excl : Option Cell), blk.Nodup →
    (isConnected depth blk excl = .ok true → ConnectedOn (fun p => p ∈ blk ∧ some p ≠ excl)) ∧
    (∀ r, 2 ≤ blk.length → isConnected depth blk excl = .ok r →
        ConnectedOn (fun p => p ∈ blk ∧ some p ≠ excl) → r = true)

theorem C18_isConnected : statement_isConnected := fun _ _ _ hnd =>
  ⟨isConnected_sound hnd, fun _ hl h hc => isConnected_complete hnd hl h hc⟩

/-- The two-seed BFS Voronoi split of a duplicate-free block with two different seed indices: the halves together
contain exactly the cells of the block, both are non-empty and both are orthogonally connected. -/
def statement_split : Prop :=
  ∀ (blk A B : Block) (a b : Nat), splitWith blk a b = .ok (A, B) → blk.Nodup → a ≠ b →
    (A ++ B).Perm blk ∧ A ≠ [] ∧ B ≠ [] ∧ OrthConnected A ∧ OrthConnected B

theorem C18_split_halves : statement_split := fun _ _ _ _ _ => splitWith_spec

/-- The model's `bfs` always terminates within its fuel `len(block) + 1` and never takes the `KeyError` branch. -/
def statement_bfs_total : Prop := ∀ (blk : Block) (seed : Cell), ∃ ans, bfs blk seed = .ok ans

theorem C18_bfs_total : statement_bfs_total := bfs_ok

/-! ### Non-vacuity -/

/-- The hypotheses of `C18_step` are satisfiable: the value returned by `initial()` on a 2×2 board satisfies `Inv`,
and `candidates` proposes six splits for it (the last two draws `(2,2)`, `(1,1)` exercise the rejection loop). -/
example : Inv (mkCfg 2 2 none none none none false none 100) [allCells 2 2] :=
  ⟨part_allCells (by decide) (by decide), (isMet_iff _ _).1 (by decide)⟩

example :
    candidates (mkCfg 2 2 none none none none false none 100) [allCells 2 2]
        [(0, 3), (1, 1), (1, 2), (3, 0), (2, 1), (0, 1), (2, 3)] =
      .ok [([0], [[(0, 0), (0, 1), (1, 0)], [(1, 1)]]), ([0], [[(0, 0), (0, 1), (1, 1)], [(1, 0)]]),
           ([0], [[(0, 1), (1, 0), (1, 1)], [(0, 0)]]), ([0], [[(0, 0), (1, 0), (1, 1)], [(0, 1)]]),
           ([0], [[(0, 0), (1, 0)], [(0, 1), (1, 1)]]), ([0], [[(0, 0), (1, 0)], [(0, 1), (1, 1)]])] := by
  decide

/-- A state with two blocks: one merge, four splits and four moves are proposed. -/
example :
    candidates (mkCfg 2 2 none none none none false none 100) [[(0, 0), (1, 0)], [(0, 1), (1, 1)]]
        [(0, 1), (1, 0), (0, 1), (1, 0)] =
      .ok [([0, 1], [[(0, 0), (1, 0), (0, 1), (1, 1)]]),
           ([0], [[(0, 0)], [(1, 0)]]), ([0], [[(1, 0)], [(0, 0)]]),
           ([1], [[(0, 1)], [(1, 1)]]), ([1], [[(1, 1)], [(0, 1)]]),
           ([0, 1], [[(1, 0)], [(0, 1), (1, 1), (0, 0)]]), ([0, 1], [[(1, 1)], [(0, 0), (1, 0), (0, 1)]]),
           ([0, 1], [[(0, 0)], [(0, 1), (1, 1), (1, 0)]]), ([0, 1], [[(0, 1)], [(0, 0), (1, 0), (1, 1)]])] := by
  decide

example : copyWithUpdate [[(0, 0), (1, 0)], [(0, 1), (1, 1)]] ([0, 1], [[(1, 0)], [(0, 1), (1, 1), (0, 0)]]) =
    [[(1, 0)], [(0, 1), (1, 1), (0, 0)]] := by decide

/-- Removing the articulation cell `(0,1)` of an L-shaped block is refused, removing the end `(0,0)` is accepted. -/
example : isConnected 100 [(0, 0), (0, 1), (0, 2), (1, 2)] (some (0, 1)) = .ok false := by decide
example : isConnected 100 [(0, 0), (0, 1), (0, 2), (1, 2)] (some (0, 0)) = .ok true := by decide
/-- Too small a recursion budget is a `RecursionError`. -/
example : isConnected 3 [(0, 0), (0, 1), (0, 2), (1, 2)] none = .error .recursionError := by decide

/-- A T-shaped block split from the two ends of its bar: the whole stem (all ties) goes to the first seed. -/
example : splitWith [(0, 0), (0, 1), (0, 2), (1, 1), (2, 1)] 0 2 =
    .ok ([(0, 0), (0, 1), (1, 1), (2, 1)], [(0, 2)]) := by decide

/-- `initial()` with `min_num_blocks=2` on a 1×3 board needs one round. -/
example : initial (mkCfg 1 3 (some 2) none none none false none 100)
    [{ choice := 0, draws := [(0, 2), (2, 0), (0, 1), (1, 2)] }] = .done [[(0, 0), (0, 1)], [(0, 2)]] := by decide

/-- `initial()` raises `IndexError` (from `random.choice([])`) on a 1×1 board with `min_num_blocks=2`. -/
example : initial (mkCfg 1 1 (some 2) none none none false none 100) [{ choice := 0, draws := [] }] =
    .raised .indexError := by decide

end Cspuz.C18
