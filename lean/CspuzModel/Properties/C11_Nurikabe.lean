/-
  C11 for `solve_nurikabe` - the posted program encodes the published rules of Nurikabe
  (Spec/PuzzleRules/Nurikabe.lean) for every board size (1 × N and N × 1 included), every clue layout ("?" clues and
  the option `unknown_low` included).  Together with `Cspuz.C11.C11_compose` this yields the property for this puzzle.
  READING adopted (see the spec): the sea must have at least one cell.
-/
import CspuzModel.Proofs.C11Nurikabe
import CspuzModel.Proofs.C11NurikabeEx
namespace Cspuz.C11.Nurikabe
open Cspuz Cspuz.Spec Cspuz.Puzzles.Nurikabe Cspuz.Spec.Nurikabe

/-- For every well-formed problem instance, the program `solve_nurikabe` posts (model: `program`, auxiliary-variable
route of `division_connected`, which is what the z3 backend configuration selects) encodes the rules: an answer list
extends to a model of the whole program (the hidden region numbers `division` and the rank / is_root /
spanning_forest variables included) iff it is the row-major list of a shading in which numbered cells are white,
every island holds exactly one number which is its size, the sea is connected and non-empty and contains no 2 × 2
block; the answer keys are distinct declared variables; every constraint is a well-typed Boolean tree. -/
def statement : Prop :=
  ∀ pb : Problem, WellFormed pb → ∀ P, program pb = .ok P →
    EncodesRules P (Rules pb) ∧ P.KeysOk ∧ (∀ c ∈ P.cs, wtB c = true)

theorem program_iff_rules : statement := Cspuz.Proofs.C11Nurikabe.main

/-- `solve_nurikabe` raises nothing on a well-formed instance. -/
theorem total : ∀ pb : Problem, WellFormed pb → ∃ P, program pb = .ok P := Cspuz.Proofs.C11Nurikabe.total

/-- The combinatorial core, usable on its own: a shading obeys the rules iff the cells can be numbered by regions
(0 = sea, `j + 1` = island of clue number `j`) in the way `division_connected` and the local constraints demand. -/
theorem labels_iff_rules (pb : Problem) (white : Nat → Nat → Bool) :
    (∃ L, Cspuz.Proofs.C11NurikabeC.DivSem pb L ∧ Cspuz.Proofs.C11NurikabeB.LocSem pb L white) ↔ RulesOn pb white :=
  Cspuz.Proofs.C11NurikabeC.labels_iff_rules

/-! ### non-vacuity: a 1 × 3 board with the clue 1 in the corner, and a "?" clue -/

abbrev exPb : Problem := Cspuz.Proofs.C11NurikabeEx.exPb     -- { height := 1, width := 3, problem := [[1, 0, 0]] }

theorem exPb_wf : WellFormed exPb := by
  refine ⟨by decide, by decide, rfl, ?_⟩
  intro row hr
  simp only [exPb, Cspuz.Proofs.C11NurikabeEx.exPb, List.mem_singleton] at hr
  subst hr; rfl

example : ∃ P, program exPb = .ok P ∧ P.keys = [11, 12, 13] ∧ P.decls.length = 14 :=
  ⟨_, Cspuz.Proofs.C11NurikabeA.program_eq exPb_wf, by decide, by decide⟩

/-- The rule specification is not vacuous: white, black, black obeys the rules of `exPb` - and therefore the posted
program has a model with these key values. -/
example : Rules exPb [.b true, .b false, .b false] := Cspuz.Proofs.C11NurikabeEx.rules_ex

example : ∃ P σ, program exPb = .ok P ∧ Sat P.decls P.cs σ ∧
    P.keyVals σ = [some (.b true), some (.b false), some (.b false)] := by
  obtain ⟨P, hP⟩ := total exPb exPb_wf
  obtain ⟨σ, hσ, hk⟩ := ((program_iff_rules exPb exPb_wf P hP).1 _).2 Cspuz.Proofs.C11NurikabeEx.rules_ex
  exact ⟨P, σ, hP, hσ, hk⟩

def exPb2 : Problem := { height := 2, width := 2, problem := [[-1, 0], [0, 0]], unknownLow := some 2 }

example : WellFormed exPb2 := by
  refine ⟨by decide, by decide, rfl, ?_⟩
  intro row hr
  simp only [exPb2, List.mem_cons, List.not_mem_nil, or_false] at hr
  rcases hr with rfl | rfl <;> rfl

end Cspuz.C11.Nurikabe
