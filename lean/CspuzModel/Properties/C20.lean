/-
  C20 — The backend and encoding actually used are the ones configured.
  Property theorems only; lemmas live in Proofs/C20.lean (configuration, dispatch) and Proofs/C20Prim.lean
  (graph encodings).  The generated tables of Gen/C20Tables.lean tie the model to the live code.
-/
import CspuzModel.Proofs.C20
import CspuzModel.Proofs.C20Prim
import CspuzModel.Gen.C20Tables
namespace Cspuz.C20
open Cspuz Cspuz.Spec

/-- **Backend selection.**  For every `backend=` argument (absent, a name, a class object) and every
configuration: the class that `_get_backend` returns is the caller's class object if one was passed, else
the class the documented table assigns to the argument's name if a name was passed, else the class the
table assigns to `config.default_backend` — read at call time; a name outside the table (from either
source) is rejected with `ValueError` and nothing else is; a class object is never rejected. -/
def statement_backend : Prop :=
  ∀ (arg : BackendArg) (cfg : Config),
    (∀ cls, getBackend arg cfg = .ok cls ↔
      match arg with
      | .cls c => cls = c
      | .name s => classOfName s = some cls
      | .none => classOfName cfg.default_backend = some cls) ∧
    (∀ e, getBackend arg cfg = .error e ↔
      e = .valueError ∧
      match arg with
      | .cls _ => False
      | .name s => classOfName s = none
      | .none => classOfName cfg.default_backend = none)

theorem C20_backend : statement_backend := Cspuz.Proofs.C20.backend_spec

/-- **Default backend.**  For every environment and every combination of importable modules, whenever
`Config()` (environment consulted) can be constructed, its `default_backend` is the value of
CSPUZ_DEFAULT_BACKEND if that is set and is not `"auto"` (taken verbatim, known name or not), and
otherwise the first importable of cspuz_core, enigma_csp, csugar (module `pycsugar`), z3, else `"sugar"`. -/
def statement_default : Prop :=
  ∀ (env : Env) (avail : Avail) (cfg : Config), Config.init true env avail = .ok cfg →
    cfg.default_backend =
      match env "CSPUZ_DEFAULT_BACKEND" with
      | some x => if x = "auto" then firstAvailable avail else x
      | none => firstAvailable avail

theorem C20_default : statement_default := Cspuz.Proofs.C20.default_spec

/-- **Flags and construction.**  For every `infer_from_env`, environment and availability, `Config(...)`
is exactly the specified configuration (`Spec.expectedConfig`): `use_graph_primitive` is the strictly
parsed value of CSPUZ_USE_GRAPH_PRIMITIVE if set, else true exactly for default backends csugar,
enigma_csp, cspuz_core; `use_graph_division_primitive` likewise from CSPUZ_USE_GRAPH_DIVISION_PRIMITIVE,
else true exactly for enigma_csp, cspuz_core; `backend_path` is CSPUZ_BACKEND_PATH; a set flag variable
that is not a case variant of `true`/`false` nor `1`/`0` makes construction fail with `ValueError`, and
nothing else does; with `infer_from_env=False` the environment is not looked at. -/
def statement_flags : Prop :=
  (∀ (infer : Bool) (env : Env) (avail : Avail),
    Config.init infer env avail =
      match expectedConfig infer env avail with
      | some c => .ok c
      | none => .error .valueError) ∧
  (∀ (env env' : Env) (avail : Avail), Config.init false env avail = Config.init false env' avail) ∧
  (∀ (env : Env) (avail : Avail), Config.init false env avail =
      .ok { default_backend := firstAvailable avail, backend_path := none,
            use_graph_primitive := supportsGraphPrimitive (firstAvailable avail),
            use_graph_division_primitive := supportsDivisionPrimitive (firstAvailable avail) })

theorem C20_flags : statement_flags :=
  ⟨Cspuz.Proofs.C20.init_eq, Cspuz.Proofs.C20.init_false_indep, Cspuz.Proofs.C20.init_false_eq⟩

/-- **Strict parsing.**  `_strtobool` accepts exactly the 16 case variants of `true` and the word `1`
(true), the 32 case variants of `false` and the word `0` (false); every other string — including the
empty string, surrounding blanks, `yes`, full-width digits — is a `ValueError`. -/
def statement_strtobool : Prop :=
  ∀ s : String, strtobool s = match parseBool s with
    | some b => .ok b
    | none => .error .valueError

theorem C20_strtobool : statement_strtobool := Cspuz.Proofs.C20.strtobool_eq

/-- **Encoding.**  For every configuration, every per-call argument (`None`, `True`, `False`), every graph
and all caller-supplied expressions that are themselves free of native operators: whenever a graph
generator succeeds, the program it emits contains a native graph operator node
(`graph_active_vertices_connected` / `graph_division`) iff the explicit argument, or else the
configuration flag that the function consults (`use_graph_division_primitive` for
`division_connected_variable_groups_with_borders`, `use_graph_primitive` for the others), is true — and,
for `active_vertices_connected`, `acyclic` is false: never for acyclic connectivity.
(`division_connected` emits one operator per region, hence none when `num_regions = 0`;
`active_edges_single_path` has only the native route and raises `RuntimeError` otherwise.) -/
def statement_primitive : Prop :=
  ∀ (cfg : Config) (arg : Option Bool) (g : Graph) (base : Nat),
    (∀ (ia : List Expr) (acyclic : Bool) (p : Prog), NativeFree ia →
      activeVerticesConnected g ia base acyclic
          (resolveFlag arg (GraphFn.activeVerticesConnected.cfgFlag cfg)) = .ok p →
      progHasNative p = usePrimitive arg cfg.use_graph_primitive acyclic) ∧
    (∀ (dv : List Expr) (k : Nat) (roots : Option (List (Option Nat))) (allowEmpty : Bool) (p : Prog),
      NativeFree dv →
      divisionConnected g dv k roots allowEmpty (resolveFlag arg (GraphFn.divisionConnected.cfgFlag cfg)) base
        = .ok p →
      progHasNative p = (resolveFlag arg cfg.use_graph_primitive && decide (0 < k))) ∧
    (∀ (ie : List Expr) (r : Prog × List Expr), NativeFree ie →
      singleCycle g ie (resolveFlag arg (GraphFn.singleCycle.cfgFlag cfg)) base = .ok r →
      progHasNative r.1 = resolveFlag arg cfg.use_graph_primitive) ∧
    (∀ (ie : List Expr) (r : Prog × List Expr), NativeFree ie →
      singlePath g ie (resolveFlag arg (GraphFn.singlePath.cfgFlag cfg)) base = .ok r →
      progHasNative r.1 = resolveFlag arg cfg.use_graph_primitive) ∧
    (∀ (gs : List (Option Expr)) (border : List Expr) (p : Prog),
      (∀ e, some e ∈ gs → hasNative e = false) → NativeFree border →
      variableGroupsWithBorders g gs border
          (resolveFlag arg (GraphFn.variableGroupsWithBorders.cfgFlag cfg)) base = .ok p →
      progHasNative p = resolveFlag arg cfg.use_graph_division_primitive)

theorem C20_primitive : statement_primitive := fun _ _ _ _ =>
  ⟨fun _ _ _ hia h => Cspuz.Proofs.C20.avc_native hia h,
   fun _ _ _ _ _ hdv h => Cspuz.Proofs.C20.divconn_native hdv h,
   fun _ _ hie h => Cspuz.Proofs.C20.cycle_native hie h,
   fun _ _ _ h => Cspuz.Proofs.C20.path_native h,
   fun _ _ _ hgs hb h => Cspuz.Proofs.C20.vgborders_native hgs hb h⟩

/-- **Tie to the code.**  Every row recorded from the live `_get_backend_by_name`, `_strtobool`,
`_detect_backend` and `Config()` (Gen/C20Tables.lean, regenerated on every run) is reproduced by the
model. -/
def statement_tables : Prop :=
  (∀ row ∈ Gen.C20.dispatchTable, tbl ((getBackendByName row.1).map BackendClass.pyName) = row.2) ∧
  (∀ row ∈ Gen.C20.strtoboolTable, tbl (strtobool row.1) = row.2) ∧
  (∀ row ∈ Gen.C20.detectTable, detectBackend row.1 = row.2) ∧
  (∀ t ∈ Gen.C20.configTables, ∀ row ∈ t, tbl (Config.init row.infer row.env row.avail) = row.out)

theorem tables_agree : statement_tables := by
  refine ⟨by decide, by decide, by decide, ?_⟩
  have h : Gen.C20.configTables.all (fun t => t.all ConfigRow.agrees) = true := by decide +kernel
  intro t ht row hrow
  have := List.all_eq_true.1 (List.all_eq_true.1 h t ht) row hrow
  simpa [ConfigRow.agrees] using this

/-! ### Non-vacuity -/

/-- a per-call name overrides the configured default; the default is used when no argument is given -/
example : getBackend (.name "sugar_extended") ⟨"z3", none, false, false⟩ = .ok .sugarExtended := by decide
example : getBackend .none ⟨"enigma_csp", none, true, true⟩ = .ok .enigmaCsp := by decide
example : getBackend .none ⟨"junk", none, false, false⟩ = .error .valueError := by decide
example : getBackend (.cls (.custom 7)) ⟨"junk", none, false, false⟩ = .ok (.custom 7) := by decide

/-- auto-detection with only pycsugar and z3 importable picks csugar and switches the vertex primitive
on but not the division primitive; an environment override of the flag wins -/
example : Config.init true (fun _ => none) ⟨false, false, true, true⟩ = .ok ⟨"csugar", none, true, false⟩ := by
  decide
example : Config.init true (fun k => if k = "CSPUZ_USE_GRAPH_PRIMITIVE" then some "FALSE" else none)
    ⟨false, false, true, true⟩ = .ok ⟨"csugar", none, false, false⟩ := by decide
example : Config.init true (fun k => if k = "CSPUZ_USE_GRAPH_PRIMITIVE" then some "yes" else none)
    ⟨false, false, true, true⟩ = .error .valueError := by decide
example : Config.init false (fun _ => some "yes") ⟨false, false, false, true⟩ = .ok ⟨"z3", none, false, false⟩ := by
  decide

/-- the triangle with all three vertices as variables: native node with the flag on, none when acyclic -/
example : (activeVerticesConnected ⟨3, [(0, 1), (1, 2), (2, 0)]⟩ [.bvar 0, .bvar 1, .bvar 2] 3 false true).map
    progHasNative = .ok true := by decide
example : (activeVerticesConnected ⟨3, [(0, 1), (1, 2), (2, 0)]⟩ [.bvar 0, .bvar 1, .bvar 2] 3 true true).map
    progHasNative = .ok false := by decide

end Cspuz.C20
