/-
  C11 / aquarium — the program posted by `solve_aquarium` encodes the published rules (reading (b) of
  Spec/PuzzleRules/Aquarium.lean).  The theorem is about the REPAIRED program (`block_id` table of `height`
  rows, DESIGN §6 D17); the source as it is (`programAsIs`, `width` rows) raises `IndexError` on boards with
  `height > width` (second example below).  Property theorems only; lemmas live in Proofs/C11Aquarium.lean.
-/
import CspuzModel.Proofs.C11Aquarium
namespace Cspuz.C11.Aquarium
open Cspuz Cspuz.Spec Cspuz.Puzzles.Aquarium Cspuz.Spec.Aquarium

/-- For every well-formed instance (any board shape, non-square included; any partition into tanks; any
clue layout) the posted program has exactly the rule-obeying water grids as its models (there are no
auxiliary variables), its answer keys are the cell variables, and every constraint is a well-typed Boolean
tree. -/
def statement : Prop :=
  ∀ pb : Problem, WellFormed pb → ∀ P, program pb = .ok P →
    EncodesRules P (Rules pb) ∧ P.KeysOk ∧ (∀ c ∈ P.cs, wtB c = true)

theorem program_iff_rules : statement :=
  fun pb h P hP => Cspuz.Proofs.C11Aquarium.program_iff_rules pb h P hP

/-- `solve_aquarium` (repaired) raises nothing on a well-formed instance. -/
theorem total : ∀ pb : Problem, WellFormed pb → ∃ P, program pb = .ok P :=
  Cspuz.Proofs.C11Aquarium.total

/-- A 2×3 board with a U-shaped tank and a one-cell tank, one row clue and one zero column clue. -/
def sample : Problem :=
  { height := 2, width := 3,
    blocks := [[(0, 0), (1, 0), (1, 1), (1, 2), (0, 2)], [(0, 1)]],
    clueRow := [1, -1], clueCol := [-1, 0, -1] }

/-- Non-vacuity: the sample is accepted by the model and the program it posts has 6 variables. -/
example : (program sample).toOption.map (fun P => (P.decls.length, P.keys.length, P.cs.length)) = some (6, 6, 6) := by
  decide

theorem sample_wf : WellFormed sample := by
  simp only [WellFormed, InTank, sample]
  refine ⟨rfl, rfl, by decide, ?_⟩
  intro y hy x hx
  have hy' : y = 0 ∨ y = 1 := by omega
  have hx' : x = 0 ∨ x = 1 ∨ x = 2 := by omega
  rcases hy' with rfl | rfl <;> rcases hx' with rfl | rfl | rfl
  · exact ⟨0, by decide, by decide, by decide⟩
  · exact ⟨1, by decide, by decide, by decide⟩
  · exact ⟨0, by decide, by decide, by decide⟩
  · exact ⟨0, by decide, by decide, by decide⟩
  · exact ⟨0, by decide, by decide, by decide⟩
  · exact ⟨0, by decide, by decide, by decide⟩

example : ∃ P, program sample = .ok P := total sample sample_wf

/-- The defect D17 on the smallest instance: a 2×1 board makes the unrepaired program raise `IndexError`,
the repaired one posts a program. -/
example :
    (programAsIs { height := 2, width := 1, blocks := [[(0, 0)], [(1, 0)]], clueRow := [-1, 0], clueCol := [0] }).toOption.isNone
      = true ∧
    (program { height := 2, width := 1, blocks := [[(0, 0)], [(1, 0)]], clueRow := [-1, 0], clueCol := [0] }).toOption.isSome
      = true := by
  decide

end Cspuz.C11.Aquarium
