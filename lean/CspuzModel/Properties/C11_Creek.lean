/-
  C11 / Creek — the program posted by `solve_creek` encodes the published rules of Creek
  (Spec/PuzzleRules/Creek.lean), for every board shape and clue layout.  Together with
  `Cspuz.C11.C11_compose` this yields the property for `solve_creek`.
-/
import CspuzModel.Proofs.C11Creek
namespace Cspuz.C11.Creek
open Cspuz Cspuz.Spec Cspuz.Puzzles.Creek Cspuz.Spec.Creek

/-- For every well-formed instance (any height, width ≥ 1, any clue table on the lattice points), whenever
the model of `solve_creek` returns the posted program `P`: an answer grid extends to a model of `P`
(hidden rank/root variables of the connectivity encoding included) iff it obeys the rules of Creek; the
answer keys are distinct declared variables; every posted constraint is a well-typed Boolean tree. -/
def statement : Prop :=
  ∀ pb : Problem, WellFormed pb → ∀ P : PuzzleProg, program pb = .ok P →
    EncodesRules P (Rules pb) ∧ P.KeysOk ∧ (∀ c ∈ P.cs, wtB c = true)

theorem program_iff_rules : statement := Cspuz.Proofs.C11Creek.main

/-- `solve_creek` does not raise on a well-formed instance. -/
theorem total : ∀ pb : Problem, WellFormed pb → ∃ P, program pb = .ok P := Cspuz.Proofs.C11Creek.total

/-! ### non-vacuity -/

/-- A 2×3 board (height < width) with a `0` in a corner, a `2` on the top edge and a `1` inside. -/
def exPb : Problem :=
  { height := 2, width := 3, problem := [[0, -1, 2, -1], [-1, 1, -1, -1], [-1, -1, -1, -1]] }

theorem exPb_wf : WellFormed exPb := by
  refine ⟨by decide, by decide, rfl, ?_⟩
  intro row hrow
  simp only [exPb, List.mem_cons, List.not_mem_nil, or_false] at hrow
  rcases hrow with rfl | rfl | rfl <;> rfl

example : WellFormed exPb ∧ ∃ P, program exPb = .ok P ∧ P.cs.length = 6 + 1 + 3 ∧ P.keys = [0, 1, 2, 3, 4, 5] :=
  ⟨exPb_wf, _, rfl, by decide, by decide⟩

end Cspuz.C11.Creek
