/-
  C11 / Nurimisaki — the program posted by `solve_nurimisaki` encodes the published rules of Nurimisaki
  (Spec/PuzzleRules/Nurimisaki.lean), for every board shape and clue layout.  Together with
  `Cspuz.C11.C11_compose` this yields the property for `solve_nurimisaki`.
-/
import CspuzModel.Proofs.C11Nurimisaki
namespace Cspuz.C11.Nurimisaki
open Cspuz Cspuz.Spec Cspuz.Puzzles.Nurimisaki Cspuz.Spec.Nurimisaki

/-- For every well-formed instance (any height, width ≥ 1, any table of entries -1 / 0 / n ≥ 2), whenever the
model of `solve_nurimisaki` returns the posted program `P`: an answer grid extends to a model of `P` (hidden
rank/root variables of the connectivity encoding included) iff it obeys the rules of Nurimisaki; the answer
keys are distinct declared variables; every posted constraint is a well-typed Boolean tree. -/
def statement : Prop :=
  ∀ pb : Problem, WellFormed pb → ∀ P : PuzzleProg, program pb = .ok P →
    EncodesRules P (Rules pb) ∧ P.KeysOk ∧ (∀ c ∈ P.cs, wtB c = true)

theorem program_iff_rules : statement := Cspuz.Proofs.C11Nurimisaki.main

/-- `solve_nurimisaki` does not raise on a well-formed instance. -/
theorem total : ∀ pb : Problem, WellFormed pb → ∃ P, program pb = .ok P := Cspuz.Proofs.C11Nurimisaki.total

/-! ### non-vacuity -/

/-- A 2×3 board (height < width): a circle with the number 3 in the top-left corner, a circle without number
in the bottom-right corner (solution: `. . . / # # .`). -/
def exPb : Problem :=
  { height := 2, width := 3, problem := [[3, -1, -1], [-1, -1, 0]] }

theorem exPb_wf : WellFormed exPb := by
  refine ⟨by decide, by decide, rfl, ?_⟩
  intro row hrow
  simp only [exPb, List.mem_cons, List.not_mem_nil, or_false] at hrow
  rcases hrow with rfl | rfl <;> exact ⟨rfl, by decide⟩

example : WellFormed exPb ∧ ∃ P, program exPb = .ok P ∧ P.keys = [0, 1, 2, 3, 4, 5] ∧
    P.cs.length = (exPb.height * exPb.width + 1) + 2 * 2 + (3 + 1 + 1 + 1 + 1 + 2) :=
  ⟨exPb_wf, _, rfl, by decide, by decide⟩

end Cspuz.C11.Nurimisaki
