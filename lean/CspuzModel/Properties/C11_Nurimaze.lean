/-
  C11 / Nurimaze — the program posted by `solve_nurimaze` encodes the published rules of Nurimaze
  (Spec/PuzzleRules/Nurimaze.lean), for every board shape, room structure, mark layout and position of S and G.
  Together with `Cspuz.C11.C11_compose` this yields the property for `solve_nurimaze`.
-/
import CspuzModel.Proofs.C11Nurimaze
namespace Cspuz.C11.Nurimaze
open Cspuz Cspuz.Spec Cspuz.Puzzles.Nurimaze Cspuz.Spec.Nurimaze

/-- For every well-formed instance (any height, width ≥ 1, wall and mark tables of the right shapes, S ≠ G on the
board), whenever the model of `solve_nurimaze` returns the posted program `P`: an answer grid extends to a model of
`P` (hidden rank/root variables of the acyclic connectivity encoding and the hidden `path` array included) iff it
obeys the rules of Nurimaze (rooms uniformly shaded; the unshaded cells form a tree; no 2 × 2 shaded block; S, G and
marked cells unshaded; the way from S to G through unshaded cells visits every circle and no triangle); the answer
keys are distinct declared variables; every posted constraint is a well-typed Boolean tree. -/
def statement : Prop :=
  ∀ pb : Problem, WellFormed pb → ∀ P : PuzzleProg, program pb = .ok P →
    EncodesRules P (Rules pb) ∧ P.KeysOk ∧ (∀ c ∈ P.cs, wtB c = true)

theorem program_iff_rules : statement := Cspuz.Proofs.C11Nurimaze.main

/-- `solve_nurimaze` does not raise on a well-formed instance. -/
theorem total : ∀ pb : Problem, WellFormed pb → ∃ P, program pb = .ok P := Cspuz.Proofs.C11Nurimaze.total

/-! ### non-vacuity -/

/-- A 2×3 board (height < width): the left column is one room (no wall between `(0,0)` and `(1,0)`), S in the
top-left corner, G in the bottom-right corner, a circle at `(0,1)`, a triangle at `(1,0)`
(the example is about well-formedness and the shape of the posted program). -/
def exPb : Problem :=
  { height := 2, width := 3,
    wallVertical := [[1, 1], [1, 0]], wallHorizontal := [[0, 1, 1]],
    mark := [[0, 1, 0], [2, 0, 0]], start := (0, 0), goal := (1, 2) }

theorem exPb_wf : WellFormed exPb := by
  refine ⟨by decide, by decide, ⟨rfl, ?_⟩, ⟨rfl, ?_⟩, ⟨rfl, ?_⟩, by decide, by decide, by decide⟩
  · intro row hrow
    simp only [exPb, List.mem_cons, List.not_mem_nil, or_false] at hrow
    rcases hrow with rfl | rfl <;> rfl
  · intro row hrow
    simp only [exPb, List.mem_cons, List.not_mem_nil, or_false] at hrow
    subst hrow; rfl
  · intro row hrow
    simp only [exPb, List.mem_cons, List.not_mem_nil, or_false] at hrow
    rcases hrow with rfl | rfl <;> rfl

/-- 6 cell variables (the keys), 6 ranks + 6 roots of the tree encoding, 6 hidden `path` variables; constraints:
tree encoding (7 rank inequalities, 6 vertex constraints, 1 root count), 2 + 2 block constraints, 6 `path → white`,
2 room equalities, 2 + 2 end constraints, 4 inner-cell constraints, 2 + 2 mark constraints. -/
example : WellFormed exPb ∧ ∃ P, program exPb = .ok P ∧ P.keys = [0, 1, 2, 3, 4, 5] ∧ P.decls.length = 24 ∧
    P.cs.length = (7 + 6 + 1) + 4 + 6 + 2 + (2 + 2 + 4) + (2 + 2) :=
  ⟨exPb_wf, _, rfl, by decide, by decide, by decide⟩

end Cspuz.C11.Nurimaze
