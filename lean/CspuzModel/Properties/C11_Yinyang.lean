/-
  C11 / Yin-Yang — the program posted by `solve_yinyang` encodes the published rules of Yin-Yang
  (Spec/PuzzleRules/Yinyang.lean), for every board shape and every layout of given stones.  Together with
  `Cspuz.C11.C11_compose` this yields the property for `solve_yinyang`.

  The solver posts three families of "auxiliary" constraints that are not rules (no checkered 2 × 2 block in
  either orientation; at most two colour changes round the outer ring).  They do not cut away any solution:
  `Cspuz.Proofs.C11YinyangPlanar.aux_of_connected` proves them from "black connected ∧ white connected" by a
  discrete Jordan-curve argument (Proofs/C11YinyangCyc.lean), including the degenerate rings of boards with
  one row or one column.
-/
import CspuzModel.Proofs.C11Yinyang
namespace Cspuz.C11.Yinyang
open Cspuz Cspuz.Spec Cspuz.Puzzles.Yinyang Cspuz.Spec.Yinyang

/-- For every well-formed instance (any height, width ≥ 1, any table of entries 0 / 1 / 2), whenever the model
of `solve_yinyang` returns the posted program `P`: an answer grid extends to a model of `P` (hidden rank/root
variables of the two connectivity encodings included) iff it obeys the rules of Yin-Yang; the answer keys are
distinct declared variables; every posted constraint is a well-typed Boolean tree. -/
def statement : Prop :=
  ∀ pb : Problem, WellFormed pb → ∀ P : PuzzleProg, program pb = .ok P →
    EncodesRules P (Rules pb) ∧ P.KeysOk ∧ (∀ c ∈ P.cs, wtB c = true)

theorem program_iff_rules : statement := Cspuz.Proofs.C11Yinyang.main

/-- `solve_yinyang` does not raise on a well-formed instance. -/
theorem total : ∀ pb : Problem, WellFormed pb → ∃ P, program pb = .ok P := Cspuz.Proofs.C11Yinyang.total

/-- The planar fact behind the auxiliary constraints, for reference: on any board, if the black cells are
connected and the white cells are connected, then no 2 × 2 block is checkered and the colour changes at most
twice round the outer ring. -/
theorem auxiliary_constraints_implied (h w : Nat) (hh : 1 ≤ h) (hw : 1 ≤ w) (g : Nat → Nat → Bool)
    (hB : CellsConnected h w (fun y x => g y x = true)) (hW : CellsConnected h w (fun y x => g y x = false)) :
    Cspuz.Proofs.C11YinyangDefs.NoChecker h w g ∧ Cspuz.Proofs.C11YinyangDefs.RingOk h w g :=
  Cspuz.Proofs.C11YinyangPlanar.aux_of_connected h w hh hw g hB hW

/-! ### non-vacuity -/

/-- A 2×3 board (height < width) with a black stone in the top-left corner and a white stone in the
bottom-right corner (one solution: `# # o / # o o`). -/
def exPb : Problem :=
  { height := 2, width := 3, problem := [[2, 0, 0], [0, 0, 1]] }

theorem exPb_wf : WellFormed exPb := by
  refine ⟨by decide, by decide, rfl, ?_⟩
  intro row hrow
  simp only [exPb, List.mem_cons, List.not_mem_nil, or_false] at hrow
  rcases hrow with rfl | rfl <;> exact ⟨rfl, by decide⟩

example : WellFormed exPb ∧ ∃ P, program exPb = .ok P ∧ P.keys = [0, 1, 2, 3, 4, 5] ∧
    P.cs.length = 2 * (exPb.height * exPb.width + 1) + 4 * 2 + 1 + 2 :=
  ⟨exPb_wf, _, rfl, by decide, by decide⟩

end Cspuz.C11.Yinyang
