/-
  C11 / FiveCells — the program posted by `solve_fivecells` encodes the published rules of FiveCells
  (Spec/PuzzleRules/Fivecells.lean), for every board shape, every pattern of blocked-out cells and every clue
  layout; and the `is_invalid` shortcut of the module (return `False` without calling the solver) is taken
  only when no division obeys the rules.  Together with `Cspuz.C11.C11_compose` this yields the property for
  `solve_fivecells`.
-/
import CspuzModel.Proofs.C11Fivecells
import CspuzModel.Proofs.C11FivecellsEx
namespace Cspuz.C11.Fivecells
open Cspuz Cspuz.Spec Cspuz.Puzzles.Fivecells Cspuz.Spec.Fivecells

/-- For every well-formed instance (a `height × width` table of integers with at least one board cell),
whenever the model of `solve_fivecells` returns the posted program `P`: an answer (one Boolean per pair of
edge-adjacent board cells) extends to a model of `P` (hidden group-id / rank / root / active-edge / size
variables of `division_connected_variable_groups` included) iff it is the border pattern of a division of
the board into orthogonally connected regions of exactly five cells in which every number equals the number
of border sides of its cell; the answer keys are distinct declared variables; every posted constraint is a
well-typed Boolean tree. -/
def statement : Prop :=
  ∀ pb : Problem, WellFormed pb → ∀ P : PuzzleProg, program pb = .ok P →
    EncodesRules P (Rules pb) ∧ P.KeysOk ∧ (∀ c ∈ P.cs, wtB c = true)

theorem program_iff_rules : statement := Cspuz.Proofs.C11Fivecells.main

/-- `solve_fivecells` does not raise on a well-formed instance. -/
theorem total : ∀ pb : Problem, WellFormed pb → ∃ P, program pb = .ok P := Cspuz.Proofs.C11Fivecells.total

/-- The `is_invalid` shortcut is sound: when the module sets `is_invalid` (and returns `False` without
calling the solver), no answer obeys the rules. -/
def statement_invalid : Prop :=
  ∀ pb : Problem, WellFormed pb → ∀ r : Result, run pb = .ok r → r.isInvalid = true → ¬ ∃ a, Rules pb a

theorem invalid_sound : statement_invalid := Cspuz.Proofs.C11Fivecells.invalid_sound

/-- The program of `run` is the program of `program` (the flag is computed on the side). -/
theorem run_prog (pb : Problem) (r : Result) (h : run pb = .ok r) : program pb = .ok r.prog := by
  unfold program; rw [h]; rfl

/-! ### non-vacuity -/

/-- A full 1×5 strip (height < width) with a clue `2` on the
second cell (its top and bottom sides are the outer boundary, so the strip as one region satisfies it). -/
def exPb : Problem := { height := 1, width := 5, problem := [[-1, 2, -1, -1, -1]] }

theorem exPb_wf : WellFormed exPb := by
  refine ⟨rfl, ?_, ⟨(0, 0), by decide⟩⟩
  intro row hrow
  simp only [exPb, List.mem_cons, List.not_mem_nil, or_false] at hrow
  subst hrow
  rfl

example : WellFormed exPb ∧ ∃ P, program exPb = .ok P ∧ P.keys = [29, 30, 31, 32] ∧ P.decls.length = 33 :=
  ⟨exPb_wf, _, rfl, by decide, by decide⟩

/-- The rule specification is not vacuous: on `exPb` the whole strip as one region obeys the rules (no side
between two cells is a border) — and therefore the posted program has a model with these key values. -/
example : Rules exPb [.b false, .b false, .b false, .b false] := Cspuz.Proofs.C11FivecellsEx.strip_rules

example : ∃ P σ, program exPb = .ok P ∧ Sat P.decls P.cs σ ∧
    P.keyVals σ = [some (.b false), some (.b false), some (.b false), some (.b false)] := by
  obtain ⟨P, hP⟩ := total exPb exPb_wf
  obtain ⟨σ, hσ, hk⟩ := ((program_iff_rules exPb exPb_wf P hP).1 _).2 Cspuz.Proofs.C11FivecellsEx.strip_rules
  exact ⟨P, σ, hP, hσ, hk⟩

/-- A 3×2 board (height > width) with a blocked-out corner: five board cells, a clue `3` in a corner. -/
def exPb2 : Problem := { height := 3, width := 2, problem := [[3, -1], [-1, -1], [-1, -2]] }

theorem exPb2_wf : WellFormed exPb2 := by
  refine ⟨rfl, ?_, ⟨(0, 0), by decide⟩⟩
  intro row hrow
  simp only [exPb2, List.mem_cons, List.not_mem_nil, or_false] at hrow
  rcases hrow with rfl | rfl | rfl <;> rfl

example : WellFormed exPb2 ∧ ∃ P, program exPb2 = .ok P ∧ P.keys.length = 5 := ⟨exPb2_wf, _, rfl, by decide⟩

/-- The shortcut fires on a clue `1` in a corner of a strip (three sides are always borders). -/
example : ∃ r, run { height := 1, width := 5, problem := [[1, -1, -1, -1, -1]] } = .ok r ∧ r.isInvalid = true :=
  ⟨_, rfl, by decide⟩

end Cspuz.C11.Fivecells
