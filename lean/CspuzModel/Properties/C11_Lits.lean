/-
  C11 / LITS — the program posted by `solve_lits` encodes the published rules of LITS
  (Spec/PuzzleRules/Lits.lean), for every board shape and every partition into regions.  Together with
  `Cspuz.C11.C11_compose` this yields the property for `solve_lits`.

  Rule 4 ("tetrominoes of the same shape must not share an edge") is stated GEOMETRICALLY in `Rules`
  (congruence under the eight lattice symmetries and translations); the solver encodes shapes by the code
  (number of straight middles, existence of a cell with three neighbours).  The bridge is the classification
  of the tetrominoes, `Cspuz.Proofs.C11LitsShape.sameShape_iff_sameCode`.  `program_iff_rules_code` is the
  same theorem for the code reading `RulesCode` of rule 4 (it does not depend on the classification).
-/
import CspuzModel.Proofs.C11Lits
namespace Cspuz.C11.Lits
open Cspuz Cspuz.Spec Cspuz.Puzzles.Lits Cspuz.Spec.Lits

/-- For every well-formed instance (any height, width ≥ 1, any partition of the board into regions — the
regions need not be connected), whenever the model of `solve_lits` returns the posted program `P`: an answer
grid extends to a model of `P` (hidden rank/root variables of the connectivity encoding and the auxiliary
arrays `num_straight`, `has_t` included) iff it obeys the rules of LITS; the answer keys are distinct declared
variables; every posted constraint is a well-typed Boolean tree. -/
def statement : Prop :=
  ∀ pb : Problem, WellFormed pb → ∀ P : PuzzleProg, program pb = .ok P →
    EncodesRules P (Rules pb) ∧ P.KeysOk ∧ (∀ c ∈ P.cs, wtB c = true)

/-- The same statement for the code reading of rule 4 (`RulesCode`: "the codes of the two tetrominoes
differ" instead of "the two tetrominoes are not congruent"). -/
def statement_code : Prop :=
  ∀ pb : Problem, WellFormed pb → ∀ P : PuzzleProg, program pb = .ok P →
    EncodesRules P (RulesCode pb) ∧ P.KeysOk ∧ (∀ c ∈ P.cs, wtB c = true)

theorem program_iff_rules : statement := Cspuz.Proofs.C11Lits.main

theorem program_iff_rules_code : statement_code := Cspuz.Proofs.C11Lits.main_code

/-- `solve_lits` does not raise on a well-formed instance. -/
theorem total : ∀ pb : Problem, WellFormed pb → ∃ P, program pb = .ok P := Cspuz.Proofs.C11Lits.total

/-! ### non-vacuity -/

/-- A 2×4 board (height < width) with two regions of four cells (an L and its complement). -/
def exPb : Problem :=
  { height := 2, width := 4,
    blocks := [[(0, 0), (0, 1), (0, 2), (1, 0)], [(0, 3), (1, 1), (1, 2), (1, 3)]] }

theorem exPb_wf : WellFormed exPb := by
  refine ⟨by decide, by decide, by decide, by decide, ?_⟩
  intro y x hy hx
  have hy' : y < 2 := hy
  have hx' : x < 4 := hx
  interval_cases y <;> interval_cases x <;> decide

example : WellFormed exPb ∧ ∃ P, program exPb = .ok P ∧ P.keys = [0, 1, 2, 3, 4, 5, 6, 7] ∧
    P.decls.length = 8 + 16 + 2 + 2 :=
  ⟨exPb_wf, _, rfl, by decide, by decide⟩

end Cspuz.C11.Lits
