/-
  C11 / gokigen — `solve_gokigen` agrees with the published rules of Gokigen Naname (Slant).
  Property theorems only; lemmas live in Proofs/C11Gokigen*.lean (shared: Proofs/C11Frag.lean, Proofs/C11CL.lean,
  Proofs/C11Grid.lean, and the graph theorem `Cspuz.C09.C09_exact`).
-/
import CspuzModel.Proofs.C11Gokigen
namespace Cspuz.C11.Gokigen
open Cspuz Cspuz.Spec Cspuz.Puzzles.Gokigen Cspuz.Spec.Gokigen

/-- For every well-formed instance (a `(height+1) × (width+1)` table of lattice-point clues, negative = no number;
any board size, degenerate ones included), the program `solve_gokigen` posts (model `Puzzles.Gokigen.program`, tied
to the code by the program correspondence of `./check C11`) encodes exactly the rules of Gokigen Naname (`Rules`,
Spec/PuzzleRules/Gokigen.lean): an answer list extends to a model of the program (hidden rank variables of
`active_edges_acyclic` included) iff it is the row-major listing of a grid of diagonals (`true` = `\`) in which
every numbered lattice point is touched by exactly that many diagonals and the diagonals, as a graph on the
lattice points, contain no closed loop.  Moreover the answer keys are distinct declared variables and every
constraint is well typed — the hypotheses of `Cspuz.C11.C11_compose`, which turns this into the statement about
what `solve_gokigen` reports. -/
def statement : Prop :=
  ∀ pb : Problem, WellFormed pb → ∀ P, program pb = .ok P →
    EncodesRules P (Rules pb) ∧ P.KeysOk ∧ (∀ c ∈ P.cs, wtB c = true)

theorem program_iff_rules : statement := Cspuz.Proofs.C11Gokigen.program_iff_rules

/-- `solve_gokigen` posts a program (raises no exception) on every well-formed instance. -/
theorem total : ∀ pb : Problem, WellFormed pb → ∃ P, program pb = .ok P := Cspuz.Proofs.C11GokigenA.total

/-- Non-vacuity: a concrete 2 × 2 instance with a corner clue, an edge clue and the centre clue is well formed
and the model posts a program for it. -/
example : WellFormed { height := 2, width := 2, problem := [[1, -1, -1], [-1, 2, -1], [-1, 0, -1]] } := by
  refine ⟨by decide, ?_⟩
  intro row hrow
  simp only [List.mem_cons, List.mem_nil_iff, or_false] at hrow
  rcases hrow with rfl | rfl | rfl <;> rfl

example : (program { height := 2, width := 2, problem := [[1, -1, -1], [-1, 2, -1], [-1, 0, -1]] }).toOption.isSome
    = true := by decide +kernel

end Cspuz.C11.Gokigen
