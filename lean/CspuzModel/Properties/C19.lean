/-
  C19 — Problem generation is sound and reproducible under the deterministic PRNG.
  Property theorems only; lemmas live in Proofs/C19*.lean.  Model: Model/Generator.lean; vocabulary:
  Spec/Generator.lean.

  Reproducibility ("the same seed yields the same run whatever `random`'s global state or the backend")
  and purity ("previously produced problems are never mutated") are statements about what the CODE
  consults / writes; in the model they hold by construction (the model is a function of the XorShift
  state and of immutable values).  They are decided by the correspondence run of harness/c19.py.
-/
import CspuzModel.Proofs.C19Gen
import CspuzModel.Proofs.C19Pattern
import CspuzModel.Proofs.C19Shuffle
import CspuzModel.Proofs.C19
namespace Cspuz.C19
open Cspuz Cspuz.Gen

/-- Every output of `XorShift.next()` is a 32-bit value, from any seed (any Python int) and after any
number of steps, although the update of `_w` is not masked: all four state words stay below 2³². -/
def statement_xorshift_range : Prop :=
  (∀ seed : Int, WF (XS.init seed)) ∧
  (∀ s : XS, WF s → WF s.next.1 ∧ s.next.2 < 2 ^ 32) ∧
  (∀ (seed : Int) (n : Nat), XS.output n (XS.init seed) < 2 ^ 32)

theorem C19_xorshift_range : statement_xorshift_range :=
  ⟨init_wf, fun s h => by have := next_wf s h; rwa [D32_eq] at this, xorshift_range⟩

/-- `randint(a, b)`: `ValueError` iff `a > b` or the width exceeds 2³²; every returned value lies in
`[a, b]`; the value is `a + x mod w` for the first output `x` below `limit = 2³² - 2³² mod w` (so the call
terminates as soon as such an output occurs; more than half of all outputs qualify). -/
def statement_randint_range : Prop :=
  ∀ (fuel : Nat) (a b : Int) (s : XS),
    (a > b → randint fuel a b s = .err .valueError) ∧
    (b - a + 1 > 4294967296 → randint fuel a b s = .err .valueError) ∧
    (∀ r s', randint fuel a b s = .ok r s' → a ≤ r ∧ r ≤ b) ∧
    (a ≤ b → b - a + 1 ≤ 4294967296 →
      let w := (b - a + 1).toNat
      let limit := D32 - D32 % w
      D32 < 2 * limit ∧
      ∀ k, k < fuel → (∀ i, i < k → ¬ XS.output i s < limit) → XS.output k s < limit →
        randint fuel a b s = .ok (a + ((XS.output k s % w : Nat) : Int)) (XS.iter (k + 1) s))

theorem C19_randint_range : statement_randint_range := randint_full

/-- Uniformity as a counting statement: for every width `w ≤ 2³²` and every residue `r < w`, exactly
`limit / w` (> 0) of the accepted 32-bit outputs `x < limit` are mapped to `a + r`. -/
def statement_randint_uniform : Prop :=
  ∀ w : Nat, 0 < w → w ≤ 2 ^ 32 → ∀ r, r < w →
    hits (2 ^ 32 - 2 ^ 32 % w) w r = (2 ^ 32 - 2 ^ 32 % w) / w ∧ 0 < (2 ^ 32 - 2 ^ 32 % w) / w

theorem C19_randint_uniform : statement_randint_uniform := by
  intro w h0 hw r hr
  rw [← D32_eq] at *
  exact ⟨hits_uniform w h0 r hr, limit_pos_div w h0 hw⟩

/-- `choice(cand)`: `ValueError` on an empty sequence; otherwise the element at the index drawn by
`randint(0, len - 1)` (hence uniform over the positions by `C19_randint_uniform`), never `IndexError`. -/
def statement_choice : Prop :=
  ∀ (α : Type) (fuel : Nat) (cand : List α) (s : XS),
    (cand = [] → choice fuel cand s = .err .valueError) ∧
    ∀ v s', choice fuel cand s = .ok v s' →
      ∃ idx : Nat, randint fuel 0 ((cand.length : Int) - 1) s = .ok (idx : Int) s' ∧ idx < cand.length ∧
        cand[idx]? = some v

theorem C19_choice : statement_choice := fun _ fuel cand s =>
  ⟨fun h => h ▸ choice_empty fuel s, fun v s' h => choice_spec fuel cand s s' v h⟩

/-- `shuffle(seq)` returns a permutation of its input, namely the one obtained by the swaps
`(i, jᵢ)`, `i = 1 … len-1`, of some admissible draw sequence (`jᵢ ≤ i`). -/
def statement_shuffle_perm : Prop :=
  ∀ (α : Type) (fuel : Nat) (seq : List α) (s s' : XS) (l' : List α), shuffle fuel seq s = .ok l' s' →
    l'.Perm seq ∧ ∃ js, Admissible js seq.length ∧ l' = shuffleWith js 1 seq

theorem C19_shuffle_perm : statement_shuffle_perm := fun _ fuel seq s s' l' h =>
  ⟨shuffle_perm fuel seq s l' s' h, shuffle_spec fuel seq s l' s' h⟩

/-- The map from admissible draw sequences to arrangements of a duplicate-free list is a bijection onto
its permutations: every permutation is produced by exactly one draw sequence.  (Together with the
uniformity of each `randint(0, i)` this is the uniformity of `shuffle`; independence of successive PRNG
outputs is not a theorem.) -/
def statement_shuffle_bijective : Prop :=
  ∀ (α : Type) (l : List α), l.Nodup → ∀ l' : List α, l'.Perm l →
    ∃! js, Admissible js l.length ∧ shuffleWith js 1 l = l'

theorem C19_shuffle_bijective : statement_shuffle_bijective := fun _ l => shuffle_bij l

/-- `random()` = `n / 2³²` with `n < 2³²` in every reachable (indeed every well-formed) state, so the value
lies in `[0, 1)` (over ℚ; that CPython's float division of an integer below 2³² by 2³² is exact is in the
trusted base and is checked for every `random()` call of the correspondence run). -/
def statement_random_range : Prop :=
  (∀ (s s' : XS) (n : Nat), WF s → randomNum s = .ok n s' →
    n < 2 ^ 32 ∧ WF s' ∧ (0 : ℚ) ≤ (n : ℚ) / 2 ^ 32 ∧ (n : ℚ) / 2 ^ 32 < 1) ∧
  (∀ (seed : Int) (k : Nat) (n : Nat) (s' : XS), randomNum (XS.iter k (XS.init seed)) = .ok n s' →
    n < 2 ^ 32 ∧ (0 : ℚ) ≤ (n : ℚ) / 2 ^ 32 ∧ (n : ℚ) / 2 ^ 32 < 1)

theorem C19_random_range : statement_random_range :=
  ⟨fun s s' n hs h => ⟨(random_range s s' n hs h).1, (random_range s s' n hs h).2,
      ratio_range n (random_range s s' n hs h).1⟩,
   fun seed k n s' h =>
     have hn := (random_range _ s' n (iter_wf k _ (init_wf seed)) h).1
     ⟨hn, ratio_range n hn⟩⟩

/-- Soundness of `generate_problem`, for all callbacks (the solver may depend on the number of earlier
solver calls), all neighbour generators, all options, all PRNG states and every acceptance function: a
returned problem `p` is the last problem that was handed to the solver, the solver reported it
satisfiable, the uniqueness test accepted the answer returned for it, and the pretest (if given) accepted
`p`. -/
def statement_sound : Prop :=
  ∀ (P N A : Type) (cfg : GenCfg P N A) (initial : P) (s s' : XS) (p : P) (trace : List P),
    generate cfg initial s = .ok (some p, trace) s' → Accepted cfg trace p ∧ trace.getLast? = some p

theorem C19_sound : statement_sound := fun _ _ _ cfg initial s p' p trace h =>
  generate_sound cfg initial s (some p, trace) p' h p rfl

/-- Neighbours of `build_neighbor_generator(pattern)`: the initial problem has the shape of the pattern;
for a problem of that shape every neighbour `(pos, u)` belongs to ONE variable `(pos, b)` of the pattern,
`u` is an admissible update of builder `b` for the sub-problem at `pos` (`BuilderUpdOk`: a value of the
choice set other than the current one for `Choice`; an `UpdateOk` cell update for `ArrayBuilder2D`), and
the yielded problem differs from the current one only inside the subtree at `pos`, where it holds
`b.copy_with_update(sub, u)`; it again has the shape of the pattern. -/
def statement_neighbours : Prop :=
  ∀ (V : Type) [DecidableEq V] (fuel : Nat) (pat : Pat V),
    Conforms pat (enumVars pat []).1 ∧
    ∀ (prob : Prob V) (s s' : XS) (cands : List (List Nat × Upd V)), Conforms pat prob →
      neighbours fuel pat (enumVars pat []).2 prob s = .ok cands s' →
      ∀ n ∈ cands, ∃ b sub, (n.1, b) ∈ (enumVars pat []).2 ∧ getPat pat n.1 = .ok (.builder b) ∧
        getProb prob n.1 = .ok sub ∧ BuilderUpdOk b sub n.2 ∧
        ∀ prob', realise pat prob n = .ok prob' → ∃ sub', b.copyWithUpdate sub n.2 = .ok sub' ∧
          getProb prob' n.1 = .ok sub' ∧ DiffersOnlyAt prob prob' n.1 ∧ Conforms pat prob'

theorem C19_neighbours : statement_neighbours := fun _ _ fuel pat =>
  ⟨(enumVars_top pat).1, fun prob s s' cands hconf h => neighbours_full fuel pat prob hconf s cands s' h⟩

/-- `ArrayBuilder2D.candidates` on a grid of the declared shape, for all four option combinations: the
result is the move updates (none unless `use_move`) followed by the value-setting updates; every update is
`UpdateOk` (names only board cells; writes only values from the choice set, the default, or — moves —
values already on the board; `copy_with_update` succeeds and changes exactly named cells to listed values;
validity and, with `symmetry`, point symmetry of default-ness are preserved); and every VALUE-SETTING
update preserves the adjacency rule when the offset set is closed under negation without `(0,0)` (and,
with `symmetry`, the grid is symmetric). -/
def statement_array : Prop :=
  ∀ (V : Type) [DecidableEq V] (fuel : Nat) (c : ArrayCfg V) (g : Grid V) (s s' : XS) (us : List (CellUpd V)),
    Shaped c.height c.width g → arrayCandidates fuel c g s = .ok us s' →
    ∃ mv vs, us = mv ++ vs ∧ (c.useMove = false → mv = []) ∧
      (∀ u ∈ us, UpdateOk c g u) ∧
      ∀ u ∈ vs, ClosedNeg c.disallow → (c.symmetry = true → Sym c g) → NoAdj c g →
        ∀ g', applyCells g u = .ok g' → NoAdj c g'

theorem C19_array : statement_array := fun _ _ fuel c g s s' us hsh h => array_full fuel c g s s' us hsh h

/-- The grid `ArrayBuilder2D.initial()` builds when no initial problem is given has the declared shape,
holds only defaults, and therefore satisfies all the invariants above. -/
def statement_array_initial : Prop :=
  ∀ (V : Type) [DecidableEq V] (c : ArrayCfg V), c.initial = none →
    Shaped c.height c.width c.initialGrid ∧ GridValid c c.initialGrid ∧ Sym c c.initialGrid ∧
      NoAdj c c.initialGrid

theorem C19_array_initial : statement_array_initial := fun _ _ c h => initialGrid_spec c h

/-! ## Non-vacuity: the model computes the values observed on the real code -/

/-- `XorShift(0)`: the first three outputs of the real generator. -/
example : XS.output 0 (XS.init 0) = 3701687786 ∧ XS.output 1 (XS.init 0) = 458299110 ∧
    XS.output 2 (XS.init 0) = 2500872618 := by decide

/-- A negative seed is masked like Python's `seed & 0xFFFFFFFF`. -/
example : (XS.init (-1)).w = 88675123 ^^^ 4294967295 := by decide

/-- `seed(5); randint(5, 7)` is `6` in the model (the unchanged tree returns `1`: defect D14). -/
example : ∃ s', randint 200 5 7 (XS.init 5) = .ok 6 s' := ⟨_, rfl⟩

/-- `hits` on a small instance: of the 9 accepted values below `limit = 9` for `w = 3`, three hit each residue. -/
example : hits 9 3 0 = 3 ∧ hits 9 3 1 = 3 ∧ hits 9 3 2 = 3 := by decide

/-- A draw sequence and the permutation it produces; a non-admissible one is excluded. -/
example : shuffleWith [0, 2, 1] 1 [10, 11, 12, 13] = [11, 13, 12, 10] ∧ Admissible [0, 2, 1] 4 := by
  refine ⟨by decide, by decide, ?_⟩
  intro k hk
  have : k = 0 ∨ k = 1 ∨ k = 2 := by simp at hk; omega
  rcases this with rfl | rfl | rfl <;> simp

/-- `ArrayBuilder2D(1, 2, [0, 1], 0, symmetry=True).candidates([[0, 1]])` under seed 3. -/
example : ∃ s', arrayCandidates 200
    ({ height := 1, width := 2, choice := [0, 1], default := 0, disallow := [], symmetry := true,
       initial := none, useMove := false } : ArrayCfg Int) [[0, 1]] (XS.init 3)
    = .ok [[(0, 0, 1), (0, 1, 1)], [(0, 1, 0), (0, 0, 0)]] s' := ⟨_, rfl⟩

/-- A run of `generate` that returns a problem: neighbours `p + 1`, every problem satisfiable, unique from 2 on. -/
example : ∃ s', generate
    ({ solver := fun _ p => (true, p), uniqueness := fun a => decide (2 ≤ a), score := fun _ => 0,
       cluePenalty := none, pretest := none, nbrs := fun p => Rand.pure [p + 1], apply := fun _ n => .ok n,
       accept := fun _ _ _ => false, maxSteps := none, solveInitial := false } : GenCfg Nat Nat Nat) 0 (XS.init 0)
    = .ok (some 2, [1, 2]) s' := ⟨_, rfl⟩

end Cspuz.C19
