/-
  C11 / doppelblock — `solve_doppelblock` agrees with the published rules of Doppelblock.
  Property theorems only; lemmas live in Proofs/C11Doppelblock.lean (closed form of the posted program:
  Proofs/C11DoppelblockA.lean; list facts about the sum between the black cells: Proofs/C11DoppelblockL.lean;
  shared: Proofs/C11CL.lean, Proofs/C11Grid.lean).
-/
import CspuzModel.Proofs.C11Doppelblock
namespace Cspuz.C11.Doppelblock
open Cspuz Cspuz.Spec Cspuz.Puzzles.Doppelblock Cspuz.Spec.Doppelblock

/-- For every well-formed instance (`n ≥ 2`, one clue slot per row and per column, a negative entry meaning
"no clue"), the program `solve_doppelblock` posts (model `Puzzles.Doppelblock.program`, tied to the code by the
program correspondence of `./check C11`) encodes exactly the rules of Doppelblock (`Rules`,
Spec/PuzzleRules/Doppelblock.lean): an answer list extends to a model of the program iff it is the row-major
listing of an `n × n` grid with a value `0 … n-2` in every cell (0 = black) in which every row and every column
holds exactly two black cells and each number `1 … n-2` exactly once, and in which the numbers strictly between
the two black cells of every clued row / column sum to its clue.  Moreover the answer keys are distinct declared
variables and every constraint is well typed — the hypotheses of `Cspuz.C11.C11_compose`, which turns this into
the statement about what `solve_doppelblock` reports. -/
def statement : Prop :=
  ∀ pb : Problem, WellFormed pb → ∀ P, program pb = .ok P →
    EncodesRules P (Rules pb) ∧ P.KeysOk ∧ (∀ c ∈ P.cs, wtB c = true)

theorem program_iff_rules : statement :=
  fun pb h P hP => Cspuz.Proofs.C11Doppelblock.program_iff_rules pb h P hP

/-- `solve_doppelblock` posts a program (raises no exception) on every well-formed instance. -/
theorem total : ∀ pb : Problem, WellFormed pb → ∃ P, program pb = .ok P :=
  fun pb h => Cspuz.Proofs.C11Doppelblock.total pb h

/-- Non-vacuity: a concrete 4 × 4 instance with one row clue 3, one row clue 0 and one column clue 2 is well
formed, and the model posts a program for it. -/
example : WellFormed { n := 4, clueRow := [3, -1, 0, -1], clueCol := [-1, 2, -1, -1] } := by
  refine ⟨by decide, by decide, by decide⟩

example : ∃ P, program { n := 4, clueRow := [3, -1, 0, -1], clueCol := [-1, 2, -1, -1] } = .ok P :=
  total _ ⟨by decide, by decide, by decide⟩

/-- … and by direct computation of the model. -/
example : (program { n := 4, clueRow := [3, -1, 0, -1], clueCol := [-1, 2, -1, -1] }).toOption.isSome = true := by
  decide +kernel

end Cspuz.C11.Doppelblock
