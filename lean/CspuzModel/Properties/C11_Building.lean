/-
  C11 / building (Skyscrapers) — the program posted by `solve_building` encodes the published rules.
-/
import CspuzModel.Proofs.C11Building
namespace Cspuz.C11.Building
open Cspuz Cspuz.Spec Cspuz.Puzzles.Building Cspuz.Spec.Building

/-- For every well-formed Building instance (board size `n ≥ 1`, `n` clue slots on each side), the
program posted by `solve_building` (model: `program`) encodes the rules of the puzzle: an answer list
extends to a model of the posted program iff it is the row-major listing of a grid of heights `1..n`
with no height twice in a row or column and every clue `≥ 1` equal to the number of buildings visible
from its side.  Moreover the answer keys are distinct declared variables and every posted constraint
is a well-typed Boolean tree. -/
def statement : Prop :=
  ∀ pb : Problem, WellFormed pb → ∀ P, program pb = .ok P →
    EncodesRules P (Rules pb) ∧ P.KeysOk ∧ (∀ c ∈ P.cs, wtB c = true)

theorem program_iff_rules : statement :=
  fun pb h P hP => Cspuz.Proofs.C11Building.program_iff_rules pb h P hP

/-- `solve_building` raises no exception while posting its program on a well-formed instance. -/
theorem total : ∀ pb, WellFormed pb → ∃ P, program pb = .ok P :=
  fun pb h => Cspuz.Proofs.C11Building.total pb h

/-! ### non-vacuity -/

/-- A 3 × 3 instance with clues on all four sides is well-formed, and `program` succeeds on it. -/
example :
    WellFormed ⟨3, [0, 2, 0], [3, 0, 0], [0, 0, 1], [2, 0, 0]⟩ ∧
      ∃ P, program ⟨3, [0, 2, 0], [3, 0, 0], [0, 0, 1], [2, 0, 0]⟩ = .ok P :=
  have h : WellFormed ⟨3, [0, 2, 0], [3, 0, 0], [0, 0, 1], [2, 0, 0]⟩ := by
    unfold WellFormed; decide
  ⟨h, total _ h⟩

end Cspuz.C11.Building
