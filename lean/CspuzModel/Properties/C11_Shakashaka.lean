/-
  C11 / shakashaka — the program posted by `solve_shakashaka` encodes the published rules of Shakashaka.
  Model: Model/Puzzles/Shakashaka.lean; rules: Spec/PuzzleRules/Shakashaka.lean; proofs: Proofs/C11Shakashaka*.lean.

  The solver posts LOCAL conditions around every grid point (which triangles may meet there); the published rule is
  GLOBAL (every white area is a rectangle, upright or rotated by 45°).  The geometric equivalence is proved
  (`local_iff_rectangles`), so the theorem below is stated against the global rule.
-/
import CspuzModel.Proofs.C11Shakashaka
namespace Cspuz.C11.Shakashaka
open Cspuz Cspuz.Spec Cspuz.Puzzles.Shakashaka Cspuz.Spec.Shakashaka

/-- On every well-formed Shakashaka problem, whenever `solve_shakashaka` gets as far as `solver.solve()`, the posted
program encodes the rules (an answer grid of values `0..4` extends to a model of the posted constraints iff: black
cells hold no triangle, every numbered black cell has that many triangles among its orthogonal neighbours, and every
white area — connected component of white quarter triangles — is a rectangle, upright with corners at grid points or
rotated by 45° with corners at grid points or cell centres), its answer keys are distinct declared variables, and
every posted constraint is a well-typed Boolean tree. -/
def statement : Prop :=
  ∀ pb : Problem, WellFormed pb → ∀ P, program pb = .ok P →
    EncodesRules P (Rules pb) ∧ P.KeysOk ∧ (∀ c ∈ P.cs, wtB c = true)

theorem program_iff_rules : statement :=
  fun pb h P hP => Cspuz.Proofs.C11Shakashaka.program_iff_rules pb h P hP

/-- `solve_shakashaka` raises no exception before `solver.solve()` on a well-formed problem. -/
theorem total : ∀ pb, WellFormed pb → ∃ P, program pb = .ok P :=
  fun pb h => Cspuz.Proofs.C11Shakashaka.total pb h

/-- The geometric lemma behind the encoding: at every grid point all white angles measure 90°, 180° or 360° (and a
straight angle between two diagonals has a completely white cell in its middle) iff every white area is a rectangle. -/
theorem local_rules_iff_rectangles : Cspuz.Spec.Shakashaka.local_iff_rectangles :=
  Cspuz.Proofs.C11Shakashaka.local_iff_rectangles

/-! ### non-vacuity -/

/-- A 2 × 3 board with white cells, a black cell without a number and a black cell carrying `1` is well-formed, and
`solve_shakashaka` posts a program on it. -/
example :
    let pb : Problem := { height := 2, width := 3, problem := [[none, some (-1), none], [some 1, none, none]] }
    WellFormed pb ∧ ∃ P, program pb = .ok P := by
  intro pb
  have hwf : WellFormed pb := by
    refine ⟨rfl, ?_⟩
    intro row hrow
    simp only [pb, List.mem_cons, List.not_mem_nil, or_false] at hrow
    rcases hrow with rfl | rfl <;> rfl
  exact ⟨hwf, total pb hwf⟩

/-- The rules are satisfiable and refutable: on the 2 × 2 all-white board the empty answer obeys the rules (one
upright 2 × 2 rectangle); the answer with a single triangle does not. -/
example :
    let pb : Problem := { height := 2, width := 2, problem := [[none, none], [none, none]] }
    RulesGrid pb (fun _ _ => 0) := by
  intro pb
  refine ⟨⟨fun _ _ _ _ => ⟨le_refl _, show (0 : Int) ≤ 4 by decide⟩, ?_⟩, ?_⟩
  · intro y hy x hx v hv
    have hy' : y < 2 := hy
    have hx' : x < 2 := hx
    exfalso
    have : y = 0 ∨ y = 1 := by omega
    have : x = 0 ∨ x = 1 := by omega
    rcases ‹y = 0 ∨ y = 1› with rfl | rfl <;> rcases ‹x = 0 ∨ x = 1› with rfl | rfl <;> simp [val, pb] at hv
  · exact (Cspuz.Proofs.C11Shakashaka.local_iff_rectangles pb _).1 (by
      have hcl : CluesOK pb (fun _ _ => 0) := by
        refine ⟨fun _ _ _ _ => ⟨le_refl _, show (0 : Int) ≤ 4 by decide⟩, ?_⟩
        intro y hy x hx v hv
        have hy' : y < 2 := hy
        have hx' : x < 2 := hx
        exfalso
        have : y = 0 ∨ y = 1 := by omega
        have : x = 0 ∨ x = 1 := by omega
        rcases ‹y = 0 ∨ y = 1› with rfl | rfl <;> rcases ‹x = 0 ∨ x = 1› with rfl | rfl <;> simp [val, pb] at hv
      refine (Cspuz.Proofs.C11ShakashakaL.pointOK_iff_localRules pb _ hcl).1 ?_
      intro y _ x _
      refine ⟨?_, ?_⟩
      · intro i _ hd
        simp [Cspuz.Proofs.C11ShakashakaDefs.diagB, Cspuz.Proofs.C11ShakashakaDefs.gv,
          Cspuz.Proofs.C11ShakashakaDefs.dval] at hd
        rcases hd with ⟨_, hd⟩
        split at hd <;> simp at hd
      · have hy' : y ≤ 2 := ‹y ≤ pb.height›
        have hx' : x ≤ 2 := ‹x ≤ pb.width›
        have : y = 0 ∨ y = 1 ∨ y = 2 := by omega
        have : x = 0 ∨ x = 1 ∨ x = 2 := by omega
        rcases ‹y = 0 ∨ y = 1 ∨ y = 2› with rfl | rfl | rfl <;>
          rcases ‹x = 0 ∨ x = 1 ∨ x = 2› with rfl | rfl | rfl <;> decide)

end Cspuz.C11.Shakashaka
