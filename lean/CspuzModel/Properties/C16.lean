/-
  C16 — Puzzle URL codecs round-trip and agree with the puzz.link / pzv format.
  Property theorems only; lemmas live in Proofs/C16*.lean.

  Objects.  The serializer model (Model/Serializer.lean, as for C15/C17: the code with patches D6–D12), the REGENERATED
  table of the live `*_COMBINATOR` objects and URL names (Gen/PuzzleCombinators.lean), the model of the per-puzzle
  wrappers, of the legacy helper encoders and of the hand-written compass / star battle / aquarium codecs
  (Model/PuzzleCodecs.lean, with patches D13, D14 for `compass.parse_puzz_link_url`), the problem formats
  (Spec/C16Formats.lean) and the INDEPENDENT pzpr decoders (Spec/Pzpr.lean – the trusted description of the format).
  Text is a list of code points.  `DecimalOk n` = the decimal numeral of `n` has at most 4300 digits (CPython's limit,
  enforced by `int()` in the URL decoder).
-/
import CspuzModel.Proofs.C16Grid
import CspuzModel.Proofs.C16Rooms
import CspuzModel.Proofs.C16OneWay
import CspuzModel.Proofs.C16PzprCells
import CspuzModel.Proofs.C16Compass
import CspuzModel.Proofs.C16RoomsFull
namespace Cspuz.C16
open Cspuz Cspuz.Ser Cspuz.C16F Cspuz.Codecs
open Cspuz.Proofs.C16Url (NameOk)

/-- **the puzz.link frame**: `prefix ++ name ++ "/" ++ WIDTH ++ "/" ++ HEIGHT ++ "/" ++ body` (decimal numerals) -/
def urlFrame (pre name : Str) (w h : Nat) (body : Str) : Str :=
  pre ++ (name ++ [47] ++ toBase 10 w ++ [47] ++ toBase 10 h ++ [47] ++ body)

theorem urlFrame_eq (pre name : Str) (w h : Nat) (body : Str) :
    urlFrame pre name w h body = pre ++ Proofs.C16Url.tail name w h body := rfl

/-! ## URL frame -/

/-- **C16_url_frame.**  (1) `serialize_problem_as_url` – through which all nine combinator-based `serialize_<p>` go –
emits `prefix ++ name/width/height/body` in that order, `body` being what `serialize_problem` returns;
(2) on every URL of that shape (prefix `https://puzz.link/p?` or `http://pzv.jp/p.html?`, a non-empty name without `/`)
`get_puzzle_info_from_url` returns `(name, height, width)`, whatever the body; (3) the URL names of the nine regenerated
codecs are such names.  (The frames of the three hand-written producers – compass, star battle, aquarium – are part of
`C16_url_roundtrip_compass`, `C16_pzpr_star_battle`, `C16_pzpr_aquarium` below.) -/
def statement_url_frame : Prop :=
  (∀ (c : Comb) (name : Str) (h w : Nat) (p : PyVal) (pre body : Str), serProblem c p h w = .ok body →
      serProblemAsUrl c name h w p pre = .ok (urlFrame pre name w h body)) ∧
  (∀ (pre name : Str) (w h : Nat) (body : Str), pre = defaultPrefix ∨ pre = pzvPrefix → NameOk name →
      DecimalOk w → DecimalOk h → getPuzzleInfo (urlFrame pre name w h body) = .ok (name, h, w)) ∧
  (∀ pc ∈ Gen.puzzleCodecs, NameOk pc.urlName)

theorem C16_url_frame : statement_url_frame :=
  ⟨fun c name h w p pre body hs => Proofs.C16Url.serProblemAsUrl_frame c name h w p pre body hs,
   fun pre name w h body hp hn hdw hdh => Proofs.C16Url.getPuzzleInfo_frame pre name w h body hp hn hdw hdh,
   by decide⟩

/-! ## round trips of the nine combinator-based modules -/

/-- what the round trip of a grid puzzle says: `serialize_<p>(pb)` succeeds and is the puzz.link frame around the body
`serialize_problem` produces with `height = len(pb)`, `width = len(pb[0])`; `deserialize_<p>` of that URL returns `pb`;
`get_puzzle_info_from_url` returns the name, the height and the width. -/
def GridRoundTrip (pc : Gen.PuzzleCodec) (pb : PyVal) (h w : Nat) : Prop :=
  ∃ body, serProblem pc.comb pb h w = .ok body ∧
    serializeGridPuzzle pc pb = .ok (urlFrame defaultPrefix pc.urlName w h body) ∧
    deserializePuzzle pc (urlFrame defaultPrefix pc.urlName w h body) = .ok pb ∧
    getPuzzleInfo (urlFrame defaultPrefix pc.urlName w h body) = .ok (pc.urlName, h, w)

/-- **nurikabe**: every h×w grid (h ≥ 1, any w ≥ 0, non-square included) of cells `-1` ("?"), `0` (empty), `1..4095`. -/
def statement_url_roundtrip_nurikabe : Prop :=
  ∀ (h w : Nat) (g : List (List Int)), 1 ≤ h → DecimalOk h → DecimalOk w → IntGrid NurikabeCell h w g →
    GridRoundTrip Gen.nurikabeCodec (intGridVal g) h w
theorem C16_url_roundtrip_nurikabe : statement_url_roundtrip_nurikabe :=
  fun h w g hh hdh hdw hg => Proofs.C16Grid.roundtrip_nurikabe h w g hh hdh hdw hg

/-- **sudoku**: cells `0` (empty) or `1..4095`. -/
def statement_url_roundtrip_sudoku : Prop :=
  ∀ (h w : Nat) (g : List (List Int)), 1 ≤ h → DecimalOk h → DecimalOk w → IntGrid SudokuCell h w g →
    GridRoundTrip Gen.sudokuCodec (intGridVal g) h w
theorem C16_url_roundtrip_sudoku : statement_url_roundtrip_sudoku :=
  fun h w g hh hdh hdw hg => Proofs.C16Grid.roundtrip_sudoku h w g hh hdh hdw hg

/-- **nurimisaki**: cells `-1` (empty), `0` (circle), `1..4095`. -/
def statement_url_roundtrip_nurimisaki : Prop :=
  ∀ (h w : Nat) (g : List (List Int)), 1 ≤ h → DecimalOk h → DecimalOk w → IntGrid NurimisakiCell h w g →
    GridRoundTrip Gen.nurimisakiCodec (intGridVal g) h w
theorem C16_url_roundtrip_nurimisaki : statement_url_roundtrip_nurimisaki :=
  fun h w g hh hdh hdw hg => Proofs.C16Grid.roundtrip_nurimisaki h w g hh hdh hdw hg

/-- **slitherlink**: cells `-1` (empty) or `0..4`. -/
def statement_url_roundtrip_slitherlink : Prop :=
  ∀ (h w : Nat) (g : List (List Int)), 1 ≤ h → DecimalOk h → DecimalOk w → IntGrid SlitherCell h w g →
    GridRoundTrip Gen.slitherlinkCodec (intGridVal g) h w
theorem C16_url_roundtrip_slitherlink : statement_url_roundtrip_slitherlink :=
  fun h w g hh hdh hdw hg => Proofs.C16Grid.roundtrip_slitherlink h w g hh hdh hdw hg

/-- **masyu**: cells `0`, `1` (white), `2` (black); board sizes whose cell count is not a multiple of 3 included. -/
def statement_url_roundtrip_masyu : Prop :=
  ∀ (h w : Nat) (g : List (List Int)), 1 ≤ h → DecimalOk h → DecimalOk w → IntGrid MasyuCell h w g →
    GridRoundTrip Gen.masyuCodec (intGridVal g) h w
theorem C16_url_roundtrip_masyu : statement_url_roundtrip_masyu :=
  fun h w g hh hdh hdw hg => Proofs.C16Grid.roundtrip_masyu h w g hh hdh hdw hg

/-- **yajilin**: all clue kinds the solver accepts – `".."`, `"??"`, and an arrow `^ v < >` with a number `0..255` (one
hexadecimal digit below 16, two from 16 on). -/
def statement_url_roundtrip_yajilin : Prop :=
  ∀ (h w : Nat) (g : List (List YCell)), 1 ≤ h → DecimalOk h → DecimalOk w → YGrid h w g →
    GridRoundTrip Gen.yajilinCodec (yGridVal g) h w
theorem C16_url_roundtrip_yajilin : statement_url_roundtrip_yajilin :=
  fun h w g hh hdh hdw hg => Proofs.C16Grid.roundtrip_yajilin h w g hh hdh hdw hg

/-- the round trip of a rooms puzzle (`serialize_<p>(height, width, blocks)`; `deserialize_<p>` returns
`(height, width, blocks)`): the partition comes back in canonical form (rooms by least cell, cells row-major; equal to
the input when the input is canonical), height and width are recovered. -/
def RoomsRoundTrip (pc : Gen.PuzzleCodec) (h w : Nat) (rooms : List (List (Nat × Nat))) : Prop :=
  ∃ body, serProblem pc.comb (roomsVal rooms) h w = .ok body ∧
    serializeRoomsPuzzle pc h w (roomsVal rooms) = .ok (urlFrame defaultPrefix pc.urlName w h body) ∧
    deserializePuzzle pc (urlFrame defaultPrefix pc.urlName w h body)
      = .ok (.tuple [.int h, .int w, roomsVal (canonRooms h w rooms)]) ∧
    getPuzzleInfo (urlFrame defaultPrefix pc.urlName w h body) = .ok (pc.urlName, h, w)

/-- **lits**: every partition of an h×w board (h, w ≥ 1; 1×N, N×1, 1×1 included) into non-empty connected rooms, rooms and
cells in ANY order. -/
def statement_url_roundtrip_lits : Prop :=
  ∀ (h w : Nat) (rooms : List (List (Nat × Nat))), 1 ≤ h → 1 ≤ w → DecimalOk h → DecimalOk w →
    ValidPartition h w rooms → RoomsRoundTrip Gen.litsCodec h w rooms
theorem C16_url_roundtrip_lits : statement_url_roundtrip_lits := fun h w rooms hh hw hdh hdw hv => by
  obtain ⟨body, h1, h2, h3, h4, _⟩ := Proofs.C16Rooms.roundtrip_lits h w hh hw hdh hdw rooms hv
  exact ⟨body, h1, h2, h3, h4⟩

/-- **norinori**: as lits. -/
def statement_url_roundtrip_norinori : Prop :=
  ∀ (h w : Nat) (rooms : List (List (Nat × Nat))), 1 ≤ h → 1 ≤ w → DecimalOk h → DecimalOk w →
    ValidPartition h w rooms → RoomsRoundTrip Gen.norinoriCodec h w rooms
theorem C16_url_roundtrip_norinori : statement_url_roundtrip_norinori := fun h w rooms hh hw hdh hdw hv => by
  obtain ⟨body, h1, h2, h3, h4, _⟩ := Proofs.C16Rooms.roundtrip_norinori h w hh hw hdh hdw rooms hv
  exact ⟨body, h1, h2, h3, h4⟩

/-- **heyawake** (`serialize_heyawake(height, width, rooms, clues)`): every valid partition with one clue per room
(`-1` = none, or `0..4095`), rooms and cells in any order; the decoded problem has the rooms in canonical form and every
clue still attached to its room (`canonValues`). -/
def statement_url_roundtrip_heyawake : Prop :=
  ∀ (h w : Nat) (rooms : List (List (Nat × Nat))) (clues : List Int), 1 ≤ h → 1 ≤ w → DecimalOk h → DecimalOk w →
    ValidPartition h w rooms → clues.length = rooms.length → (∀ c ∈ clues, ClueVal c) →
    ∃ body, serProblem Gen.heyawakeCodec.comb (.tuple [roomsVal rooms, .list (clues.map PyVal.int)]) h w = .ok body ∧
      serializeHeyawake h w (roomsVal rooms) (.list (clues.map PyVal.int))
        = .ok (urlFrame defaultPrefix Gen.heyawakeCodec.urlName w h body) ∧
      deserializePuzzle Gen.heyawakeCodec (urlFrame defaultPrefix Gen.heyawakeCodec.urlName w h body)
        = .ok (.tuple [.int h, .int w,
            .tuple [roomsVal (canonRooms h w rooms), .list (canonValues h w rooms (clues.map PyVal.int))]]) ∧
      getPuzzleInfo (urlFrame defaultPrefix Gen.heyawakeCodec.urlName w h body) = .ok (Gen.heyawakeCodec.urlName, h, w)
theorem C16_url_roundtrip_heyawake : statement_url_roundtrip_heyawake :=
  fun h w rooms clues hh hw hdh hdw hv hl hcl => by
    obtain ⟨body, h1, h2, h3, h4, _⟩ := Proofs.C16Rooms.roundtrip_heyawake h w hh hw hdh hdw rooms hv clues hl hcl
    exact ⟨body, h1, h2, h3, h4⟩

/-- **compass** (`to_puzz_link_url` / `parse_puzz_link_url`, the REPAIRED parser – patches D13 (width/height order) and D14
(the `+xxx` form)): every board size (non-square included), every list of clues inside the board in row-major order on
pairwise different cells, numbers `-1` (none) or `0..4095` (everything `encode_array` can write): the URL has the
puzz.link frame, and parsing it returns `(height, width, clues)`. -/
def statement_url_roundtrip_compass : Prop :=
  ∀ (h w : Nat) (pos : List CompassClue), (∀ c ∈ pos, CompassClueOk h w c) → CompassSorted w pos →
    DecimalOk h → DecimalOk w →
    ∃ body, compassToPuzzLinkUrl h w pos = .ok (urlFrame puzzLinkPrefix (strOfString "compass") w h body) ∧
      compassParsePuzzLinkUrl (urlFrame puzzLinkPrefix (strOfString "compass") w h body) = .ok ((h : Int), (w : Int), pos) ∧
      getPuzzleInfo (urlFrame puzzLinkPrefix (strOfString "compass") w h body) = .ok (strOfString "compass", h, w)
theorem C16_url_roundtrip_compass : statement_url_roundtrip_compass := fun h w pos hok hs hdh hdw => by
  obtain ⟨body, h1, h2, _⟩ := Proofs.C16Compass.compass_roundtrip h w pos hok hs hdh hdw
  have e : urlFrame puzzLinkPrefix (strOfString "compass") w h body
      = puzzLinkPrefix ++ strOfString "compass" ++ [47] ++ toBase 10 w ++ [47] ++ toBase 10 h ++ [47] ++ body := by
    simp [urlFrame, List.append_assoc]
  refine ⟨body, by rw [e]; exact h1, by rw [e]; exact h2, ?_⟩
  rw [urlFrame_eq, Proofs.C16Url.puzzLinkPrefix_eq]
  exact Proofs.C16Url.getPuzzleInfo_frame defaultPrefix _ w h body (Or.inl rfl) ⟨by decide, by decide⟩ hdw hdh

/-! ## the independent pzpr decoder reads the body back as the same problem -/

/-- **C16_pzpr, the six grid puzzles**: for every problem of the module's format, the body `serialize_problem` produces
(which is the body of the URL, see `GridRoundTrip`) is read by the independent decoder of the corresponding pzpr
encoding (number16 / 4-cell / circle triples / arrow-number) as the same board: nurikabe `0 ↦ no clue, -1 ↦ "?"`,
sudoku `0 ↦ no clue`, nurimisaki `-1 ↦ no clue, 0 ↦ "?"` (a circle without number), slitherlink and masyu unchanged,
yajilin `".." ↦ no clue, "??" ↦ direction 0 with number "?", "^n" ↦ (1, n)` etc. -/
def statement_pzpr_grids : Prop :=
  (∀ h w g body, IntGrid NurikabeCell h w g → serProblem Gen.nurikabeCombinator (intGridVal g) h w = .ok body →
      Pzpr.decodeNumberGrid h w body = some (g.map fun r => r.map nurikabeQ)) ∧
  (∀ h w g body, IntGrid SudokuCell h w g → serProblem Gen.sudokuCombinator (intGridVal g) h w = .ok body →
      Pzpr.decodeNumberGrid h w body = some (g.map fun r => r.map sudokuQ)) ∧
  (∀ h w g body, IntGrid NurimisakiCell h w g → serProblem Gen.nurimisakiCombinator (intGridVal g) h w = .ok body →
      Pzpr.decodeNumberGrid h w body = some (g.map fun r => r.map nurimisakiQ)) ∧
  (∀ h w g body, IntGrid SlitherCell h w g → serProblem Gen.slitherlinkCombinator (intGridVal g) h w = .ok body →
      Pzpr.decodeSlither h w body = some (g.map fun r => r.map slitherQ)) ∧
  (∀ h w g body, IntGrid MasyuCell h w g → serProblem Gen.masyuCombinator (intGridVal g) h w = .ok body →
      Pzpr.decodeMasyu h w body = some (g.map fun r => r.map masyuQ)) ∧
  (∀ h w g body, YGrid h w g → serProblem Gen.yajilinCombinator (yGridVal g) h w = .ok body →
      Pzpr.decodeYajilin h w body = some (g.map fun r => r.map yajilinQ))

theorem C16_pzpr_grids : statement_pzpr_grids :=
  ⟨fun h w g body hg hs => Proofs.C16PzprNum.pzpr_nurikabe h w g hg body hs,
   fun h w g body hg hs => Proofs.C16PzprNum.pzpr_sudoku h w g hg body hs,
   fun h w g body hg hs => Proofs.C16PzprNum.pzpr_nurimisaki h w g hg body hs,
   fun h w g body hg hs => Proofs.C16PzprCells.pzpr_slitherlink h w g hg body hs,
   fun h w g body hg hs => Proofs.C16PzprCells.pzpr_masyu h w g hg body hs,
   fun h w g body hg hs => Proofs.C16PzprCells.pzpr_yajilin h w g hg body hs⟩

/-- **C16_pzpr, rooms puzzles** (full strength): the independent decoder, which reads the border bitmaps and computes the
rooms from them by ITS OWN connected-components routine (`Pzpr.roomsOfBorders`: label relaxation, nothing shared with the
flood fill of cspuz), returns the partition in canonical form (rooms by least cell, cells row-major) – for every valid
partition of every h×w board, h, w ≥ 1, given in any order; for heyawake also one number16 entry per room, which are the
clues in the order of the canonical rooms (`canonValues`: every clue with its room). -/
def statement_pzpr_rooms : Prop :=
  (∀ pc ∈ [Gen.litsCodec, Gen.norinoriCodec], ∀ h w rooms body, 1 ≤ h → 1 ≤ w → ValidPartition h w rooms →
      serProblem pc.comb (roomsVal rooms) h w = .ok body → Pzpr.decodeRooms h w body = some (canonRooms h w rooms)) ∧
  (∀ h w rooms (clues : List Int) body, 1 ≤ h → 1 ≤ w → ValidPartition h w rooms → clues.length = rooms.length →
      (∀ c ∈ clues, ClueVal c) →
      serProblem Gen.heyawakeCodec.comb (.tuple [roomsVal rooms, .list (clues.map PyVal.int)]) h w = .ok body →
      ∃ cl, canonValues h w rooms (clues.map PyVal.int) = cl.map PyVal.int ∧
        Pzpr.decodeHeyawake h w body = some (canonRooms h w rooms, cl))

theorem C16_pzpr_rooms : statement_pzpr_rooms := by
  refine ⟨?_, ?_⟩
  · intro pc hpc h w rooms body hh hw hv hs
    have hdec : pc = Gen.litsCodec ∨ pc = Gen.norinoriCodec := by simpa using hpc
    rcases hdec with rfl | rfl
    · exact Proofs.C16RoomsFull.pzpr_rooms_full _ rfl h w hh hw rooms hv body hs
    · exact Proofs.C16RoomsFull.pzpr_rooms_full _ rfl h w hh hw rooms hv body hs
  · intro h w rooms clues body hh hw hv hl hcl hs
    exact Proofs.C16RoomsFull.pzpr_heyawake_full h w hh hw rooms hv clues hl hcl body hs

/-- **the borders determine the partition**: (1) the independent components routine applied to the borders of a valid
partition returns the partition in canonical form (used above, and what turns the border statements for aquarium and
star battle below into statements about the partition); (2) a grid of block ids that labels the rooms of a partition
(any injective labelling – star battle's input format) has exactly the borders of that partition. -/
def statement_pzpr_partition : Prop :=
  (∀ (h w : Nat) (rooms : List (List (Nat × Nat))), 1 ≤ h → 1 ≤ w → ValidPartition h w rooms →
      Pzpr.roomsOfBorders h w (bordersOf h w rooms) = canonRooms h w rooms) ∧
  (∀ (h w : Nat) (rooms : List (List (Nat × Nat))) (bid : List (List Int)),
      (∀ y x y' x', y < h → x < w → y' < h → x' < w →
        ((bid.getD y []).getD x 0 = (bid.getD y' []).getD x' 0 ↔ roomIdx rooms (y, x) = roomIdx rooms (y', x'))) →
      bordersOfIds h w bid = bordersOf h w rooms)

theorem C16_pzpr_partition : statement_pzpr_partition :=
  ⟨fun h w rooms hh hw hv => Proofs.C16Components.roomsOfBorders_correct h w hh hw rooms hv,
   fun h w rooms bid hid => Proofs.C16RoomsFull.bordersOfIds_of_partition h w rooms bid hid⟩

/-- **C16_pzpr_star_battle** (`problem_to_pzv_url(n, k, block_ids)`): frame `http://pzv.jp/p.html?starbattle/n/n/<body>`, body
`k/<borders>`; the independent decoder reads the star count `k` and the borders of the block-id grid (a border
iff the ids differ; with `C16_pzpr_partition`: the partition whose rooms the ids label). -/
def statement_pzpr_star_battle : Prop :=
  ∀ (n k : Nat) (bid : List (List Int)), (bid.length = n ∧ ∀ r ∈ bid, r.length = n) → DecimalOk n →
    ∃ body, starBattleProblemToPzvUrl n (k : Int) bid = .ok (urlFrame pzvPrefix (strOfString "starbattle") n n body) ∧
      getPuzzleInfo (urlFrame pzvPrefix (strOfString "starbattle") n n body) = .ok (strOfString "starbattle", n, n) ∧
      Pzpr.decodeStarBattle n n body = some (k, bordersOfIds n n bid)
theorem C16_pzpr_star_battle : statement_pzpr_star_battle :=
  fun n k bid hd hdn => Proofs.C16OneWay.star_battle n k bid hd hdn

/-- **C16_pzpr_aquarium** (`problem_to_url(height, width, blocks, clue_row, clue_col)`): frame
`https://puzz.link/p?aquarium/width/height/<body>`, body `<borders>/<numbers>`; the independent decoder reads the borders of
the partition and, after the `/`, the `width` numbers above the board (`clue_col`) followed by the `height` numbers to its
left (`clue_row`).  (Whether pzpr separates the two parts by `/` could not be checked offline: Spec/Pzpr.lean, UNSURE.) -/
def statement_pzpr_aquarium : Prop :=
  ∀ (h w : Nat) (rooms : List (List (Nat × Nat))) (clueRow clueCol : List Int), 1 ≤ h → 1 ≤ w → DecimalOk h → DecimalOk w →
    ValidPartition h w rooms → clueRow.length = h → clueCol.length = w →
    (∀ v ∈ clueRow, ClueVal v) → (∀ v ∈ clueCol, ClueVal v) →
    ∃ body, aquariumProblemToUrl h w (rooms.map fun r => r.map fun c => ((c.1 : Int), (c.2 : Int)))
          (clueRow.map PyVal.int) (clueCol.map PyVal.int) = .ok (urlFrame puzzLinkPrefix (strOfString "aquarium") w h body) ∧
      getPuzzleInfo (urlFrame puzzLinkPrefix (strOfString "aquarium") w h body) = .ok (strOfString "aquarium", h, w) ∧
      Pzpr.decodeAquarium h w body = some (bordersOf h w rooms, clueCol, clueRow)
theorem C16_pzpr_aquarium : statement_pzpr_aquarium :=
  fun h w rooms clueRow clueCol hh hw hdh hdw hv hr hc hrv hcv =>
    Proofs.C16OneWay.aquarium h w hh hw hdh hdw rooms hv clueRow clueCol hr hc hrv hcv

/-- **C16_pzpr_compass**: the body `to_puzz_link_url` writes is read by the independent decoder as the board with
`(up, down, left, right)` in each clue cell. -/
def statement_pzpr_compass : Prop :=
  ∀ (h w : Nat) (pos : List CompassClue), (∀ c ∈ pos, CompassClueOk h w c) → CompassSorted w pos →
    ∃ body, compassToPuzzLinkUrl h w pos = .ok (urlFrame puzzLinkPrefix (strOfString "compass") w h body) ∧
      Pzpr.decodeCompass h w body = some (compassBoard h w pos)
theorem C16_pzpr_compass : statement_pzpr_compass := fun h w pos hok hs => by
  have e : ∀ body, urlFrame puzzLinkPrefix (strOfString "compass") w h body
      = puzzLinkPrefix ++ strOfString "compass" ++ [47] ++ toBase 10 w ++ [47] ++ toBase 10 h ++ [47] ++ body := by
    intro body; simp [urlFrame, List.append_assoc]
  exact ⟨_, by rw [e]; exact Proofs.C16Compass.compass_url h w pos hok hs, Proofs.C16Compass.compass_pzpr h w pos hok hs⟩

/-! ## legacy helper encoders = combinator-based codecs -/

/-- **C16_legacy_agree.**  (1) `encode_array(xs, single_empty_marker=m, empty=e, dim=1)` returns exactly the text of
`serialize_problem(Seq(OneOf(Spaces(e, m), HexInt()), len(xs)), xs)`, and (2) `encode_array(rows, m, e)` (2-D, `dim`
inferred) exactly the text of `serialize_problem(Grid(OneOf(Spaces(e, m), HexInt())), rows)` on an h×w board, for every
marker `m` in `0-9a-z` (`Spaces(e, m)` has offset `int(m, 36) - 1`; `'g'` is code point 103, offset 15), every `bool`-free
empty marker `e`, on the data DOMAIN: every item is `e` or an int in `0..4095`; both sides are `.ok` of the same text.
Outside that domain they differ (`example`s in Proofs/C16Legacy.lean): a negative int (legacy: garbage `"x1"`; combinator:
`AssertionError`), an int > 4095 (`ValueError` vs `AssertionError`), `str` / tuple items (written as-is vs rejected), ragged
rows (ignored vs rejected).  (3) `encode_grid_segmentation(h, w, blocks_to_block_id(h, w, rooms))` is exactly the text of
`Rooms` for every valid partition of an h×w board, h, w ≥ 1. -/
def statement_legacy_agree : Prop :=
  (∀ (m : Nat) (empty : PyVal) (xs : List PyVal) (h w : Nat), isAlnumLower m = true → empty.noBool = true →
      (∀ v ∈ xs, Proofs.C16Legacy.LegacyItem empty v) →
      ∃ t, encodeArray xs m empty (some 1) = .ok t ∧
        serProblem (.seq (.oneOf [.spaces empty ((charVal m : Int) - 1), .hexInt]) xs.length) (.list xs) h w = .ok t) ∧
  (∀ (m : Nat) (empty : PyVal) (rows : List (List PyVal)) (h w : Nat), isAlnumLower m = true → empty.noBool = true →
      (rows.length = h ∧ ∀ r ∈ rows, r.length = w) → (∀ r ∈ rows, ∀ v ∈ r, Proofs.C16Legacy.LegacyItem empty v) →
      ∃ t, encodeArray (rows.map PyVal.list) m empty none = .ok t ∧
        serProblem (.grid (.oneOf [.spaces empty ((charVal m : Int) - 1), .hexInt]) none) (.list (rows.map PyVal.list)) h w
          = .ok t) ∧
  (∀ (h w : Nat) (rooms : List (List (Nat × Nat))) (skip allow : Bool), 1 ≤ h → 1 ≤ w → ValidPartition h w rooms →
      ∃ bid t, blocksToBlockId h w (rooms.map fun r => r.map fun c => ((c.1 : Int), (c.2 : Int))) = .ok bid ∧
        encodeGridSegmentation h w bid = .ok t ∧ ser (.rooms skip allow) ⟨h, w⟩ [roomsVal rooms] 0 = .ok (1, t))

theorem C16_legacy_agree : statement_legacy_agree :=
  ⟨fun m empty xs h w hm he hx => Proofs.C16Legacy.legacy_encode_array_flat_marker m hm empty he xs hx h w,
   fun m empty rows h w hm he hshape hx =>
     Proofs.C16Legacy.legacy_encode_array_grid_marker m hm empty he rows h w hshape hx none (Or.inl rfl),
   fun h w rooms skip allow hh hw hv => Proofs.C16Bits.legacy_segmentation h w hh hw rooms hv skip allow⟩

/-! ## non-vacuity: concrete URLs (the ones of /repo/tests where there is one)

  (The independent decoders of Spec/Pzpr.lean are written for readability, not for evaluation inside the kernel; the
  examples about them are therefore instances of the theorems above, the texts being computed by the model.) -/

theorem nurikabe_2x3 : IntGrid NurikabeCell 2 3 [[0, 7, -1], [16, 0, 0]] := ⟨rfl, by simp [NurikabeCell]⟩

/-- nurikabe on a NON-SQUARE 2×3 board: width 3 comes first, height 2 second -/
example : serializeGridPuzzle Gen.nurikabeCodec (intGridVal [[0, 7, -1], [16, 0, 0]])
    = .ok (strOfString "https://puzz.link/p?nurikabe/3/2/g7.-10h") := by rfl
example : getPuzzleInfo (strOfString "https://puzz.link/p?nurikabe/3/2/g7.-10h") = .ok (strOfString "nurikabe", 2, 3) := by rfl
/-- … it decodes back, and the independent decoder reads `0 ↦ no clue (-1)`, `-1 ↦ "?" (-2)` -/
example : ∃ url, serializeGridPuzzle Gen.nurikabeCodec (intGridVal [[0, 7, -1], [16, 0, 0]]) = .ok url ∧
    deserializePuzzle Gen.nurikabeCodec url = .ok (intGridVal [[0, 7, -1], [16, 0, 0]]) := by
  obtain ⟨body, _, h2, h3, _⟩ := C16_url_roundtrip_nurikabe 2 3 _ (by omega) (by unfold DecimalOk; decide) (by unfold DecimalOk; decide) nurikabe_2x3
  exact ⟨_, h2, h3⟩
example : Pzpr.decodeNumberGrid 2 3 (strOfString "g7.-10h") = some [[-1, 7, -2], [16, -1, -1]] :=
  C16_pzpr_grids.1 2 3 [[0, 7, -1], [16, 0, 0]] _ nurikabe_2x3 (by rfl)

theorem yajilin_1x4 : YGrid 1 4 [[.empty, .unknown, .arrow 1 3, .arrow 4 17]] := ⟨rfl, by simp [YCell.Ok]⟩

/-- yajilin with every clue kind, 1×4: `".."`, `"??"`, `"^3"`, `">17"` -/
example : serializeGridPuzzle Gen.yajilinCodec (yGridVal [[.empty, .unknown, .arrow 1 3, .arrow 4 17]])
    = .ok (strOfString "https://puzz.link/p?yajilin/4/1/a0.13911") := by rfl
example : Pzpr.decodeYajilin 1 4 (strOfString "a0.13911") = some [[none, some (0, -2), some (1, 3), some (4, 17)]] :=
  C16_pzpr_grids.2.2.2.2.2 1 4 [[.empty, .unknown, .arrow 1 3, .arrow 4 17]] _ yajilin_1x4 (by rfl)

/-- the compass URL of tests/puzzle/test_compass.py (5 rows, 4 columns) and the repaired parser on it -/
example : compassToPuzzLinkUrl 5 4 [⟨1, 1, 1, 2, -1, 3⟩, ⟨2, 3, -1, 6, -1, -1⟩, ⟨3, 1, 4, -1, -1, 5⟩]
    = .ok (strOfString "https://puzz.link/p?compass/4/5/k1.23k..6.g4..5l") := by rfl
example : compassParsePuzzLinkUrl (strOfString "https://puzz.link/p?compass/4/5/k1.23k..6.g4..5l")
    = .ok (5, 4, [⟨1, 1, 1, 2, -1, 3⟩, ⟨2, 3, -1, 6, -1, -1⟩, ⟨3, 1, 4, -1, -1, 5⟩]) := by rfl
/-- the star battle URL of tests/puzzle/test_star_battle.py -/
example : starBattleProblemToPzvUrl 6 1 [[0, 0, 0, 0, 1, 1], [0, 2, 3, 0, 1, 1], [2, 2, 3, 3, 3, 1], [2, 1, 1, 1, 1, 1],
      [2, 4, 4, 1, 4, 5], [2, 2, 4, 4, 4, 5]]
    = .ok (strOfString "http://pzv.jp/p.html?starbattle/6/6/1/2u9gn9c9jpmk") := by rfl
/-- lits on a single-row board -/
example : serializeRoomsPuzzle Gen.litsCodec 1 3 (roomsVal [[(0, 2)], [(0, 1), (0, 0)]])
    = .ok (strOfString "https://puzz.link/p?lits/3/1/8") := by rfl
example : Pzpr.decodeRooms 1 3 (strOfString "8") = some [[(0, 0), (0, 1)], [(0, 2)]] := by rfl

end Cspuz.C16
