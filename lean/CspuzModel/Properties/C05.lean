/-
  C05 — division_connected holds exactly for labelings whose classes are connected.
-/
import CspuzModel.Spec.C05Defs
import CspuzModel.Proofs.C05
namespace Cspuz.C05
open Cspuz Cspuz.Spec

-- `labOf` (label of a vertex under `σ`) and `InRange` (labels lie in `0..k-1`) are defined in
-- Spec/C05Defs.lean (namespace `Cspuz.Spec`, opened above).

/-- Rank/root/spanning-forest encoding, full strength: for every multigraph, every `k ≥ 1`, every list
of well-typed integer label expressions (variables, literals, compound) whose values lie in `0..k-1`,
every `roots` list (with `None` holes; `none` = the argument is omitted) and both settings of
`allow_empty_group`, the emitted constraints are satisfiable for the labeling iff every label class
induces a connected subgraph, every label is used (unless empty groups are allowed) and every listed
root carries the label of its position. -/
def statement_aux : Prop :=
  ∀ (g : Graph) (dv : List Expr) (k : Nat) (roots : Option (List (Option Nat))) (allowEmpty : Bool)
    (base : Nat) (p : Prog) (σ : Asg),
    g.wf = true → dv.length = g.n → IntArgs base dv → InRange σ dv g.n k →
    divisionConnected g dv k roots allowEmpty false base = .ok p →
    (Realizable base p σ ↔ DivisionOK g (labOf σ dv) k (roots.getD []) allowEmpty)

theorem C05_aux_exact : statement_aux := Cspuz.Proofs.C05.aux_exact

/-- Native-primitive route (one indicator array per label, each constrained connected by the native
operator, non-emptiness by a count, roots by equalities): same characterisation. -/
def statement_prim : Prop :=
  ∀ (g : Graph) (dv : List Expr) (k : Nat) (roots : Option (List (Option Nat))) (allowEmpty : Bool)
    (base : Nat) (p : Prog) (σ : Asg),
    g.wf = true → dv.length = g.n → IntArgs base dv → InRange σ dv g.n k →
    divisionConnected g dv k roots allowEmpty true base = .ok p →
    (Realizable base p σ ↔ DivisionOK g (labOf σ dv) k (roots.getD []) allowEmpty)

theorem C05_prim_exact : statement_prim := Cspuz.Proofs.C05.prim_exact

/-- Roots given as grid coordinates `(y, x)` are converted to the vertex id `y * width + x` of the
inferred grid graph (`division_connected` on an IntArray2D), and the generator succeeds on every
well-formed call. -/
def statement_total : Prop :=
  ∀ (g : Graph) (dv : List Expr) (k : Nat) (roots : Option (List (Option Nat))) (allowEmpty prim : Bool)
    (base : Nat),
    0 < g.n → g.wf = true → dv.length = g.n → IntArgs base dv →
    (∀ (c r : Nat), (roots.getD [])[c]? = some (some r) → r < g.n) →
    ∃ p, divisionConnected g dv k roots allowEmpty prim base = .ok p

theorem C05_total : statement_total := Cspuz.Proofs.C05.total

/-- Non-vacuity: a concrete instance satisfies all hypotheses of `statement_aux` / `statement_prim`
(path graph 0 — 1 — 2, labels `x0, x1, x2` with values 0, 0, 1, two groups, root of group 0 prescribed). -/
example :
    let g : Graph := { n := 3, edges := [(0, 1), (1, 2)] }
    let dv : List Expr := [.ivar 0, .ivar 1, .ivar 2]
    let σ : Asg := { b := fun _ => false, i := fun id => if id = 2 then 1 else 0 }
    let roots : Option (List (Option Nat)) := some [some 0, none]
    g.wf = true ∧ dv.length = g.n ∧ IntArgs 3 dv ∧ InRange σ dv g.n 2 ∧
      (∃ p, divisionConnected g dv 2 roots false false 3 = .ok p) ∧
      (∃ p, divisionConnected g dv 2 roots false true 3 = .ok p) := by
  refine ⟨rfl, rfl, ?_, ?_, ⟨_, rfl⟩, ⟨_, rfl⟩⟩
  · intro e he
    simp only [List.mem_cons, List.not_mem_nil, or_false] at he
    rcases he with rfl | rfl | rfl <;> exact ⟨rfl, rfl⟩
  · intro v hv
    match v, hv with
    | 0, _ => exact ⟨0, rfl, by decide, by decide⟩
    | 1, _ => exact ⟨0, rfl, by decide, by decide⟩
    | 2, _ => exact ⟨1, rfl, by decide, by decide⟩

end Cspuz.C05
