/-
  C05 — division_connected holds exactly for labelings whose classes are connected.
-/
import CspuzModel.Proofs.C05
namespace Cspuz.C05
open Cspuz Cspuz.Spec

/-- Label of vertex `v` under `σ` (0 when the expression is missing / not an integer). -/
def labOf (σ : Asg) (dv : List Expr) (v : Nat) : Int := (intAt σ dv v).getD 0

/-- The label expressions range over `0..k-1` under `σ`. -/
def InRange (σ : Asg) (dv : List Expr) (n k : Nat) : Prop :=
  ∀ v, v < n → ∃ x, intAt σ dv v = some x ∧ 0 ≤ x ∧ x < (k : Int)

/-- Rank/root/spanning-forest encoding, full strength: for every multigraph, every `k ≥ 1`, every list
of well-typed integer label expressions (variables, literals, compound) whose values lie in `0..k-1`,
every `roots` list (with `None` holes; `none` = the argument is omitted) and both settings of
`allow_empty_group`, the emitted constraints are satisfiable for the labeling iff every label class
induces a connected subgraph, every label is used (unless empty groups are allowed) and every listed
root carries the label of its position. -/
def statement_aux : Prop :=
  ∀ (g : Graph) (dv : List Expr) (k : Nat) (roots : Option (List (Option Nat))) (allowEmpty : Bool)
    (base : Nat) (p : Prog) (σ : Asg),
    g.wf = true → dv.length = g.n → IntArgs base dv → InRange σ dv g.n k →
    divisionConnected g dv k roots allowEmpty false base = .ok p →
    (Realizable base p σ ↔ DivisionOK g (labOf σ dv) k (roots.getD []) allowEmpty)

theorem C05_aux_exact : statement_aux := Cspuz.Proofs.C05.aux_exact

/-- Native-primitive route (one indicator array per label, each constrained connected by the native
operator, non-emptiness by a count, roots by equalities): same characterisation. -/
def statement_prim : Prop :=
  ∀ (g : Graph) (dv : List Expr) (k : Nat) (roots : Option (List (Option Nat))) (allowEmpty : Bool)
    (base : Nat) (p : Prog) (σ : Asg),
    g.wf = true → dv.length = g.n → IntArgs base dv → InRange σ dv g.n k →
    divisionConnected g dv k roots allowEmpty true base = .ok p →
    (Realizable base p σ ↔ DivisionOK g (labOf σ dv) k (roots.getD []) allowEmpty)

theorem C05_prim_exact : statement_prim := Cspuz.Proofs.C05.prim_exact

/-- Roots given as grid coordinates `(y, x)` are converted to the vertex id `y * width + x` of the
inferred grid graph (`division_connected` on an IntArray2D), and the generator succeeds on every
well-formed call. -/
def statement_total : Prop :=
  ∀ (g : Graph) (dv : List Expr) (k : Nat) (roots : Option (List (Option Nat))) (allowEmpty prim : Bool)
    (base : Nat),
    0 < g.n → g.wf = true → dv.length = g.n → IntArgs base dv →
    (∀ (c r : Nat), (roots.getD [])[c]? = some (some r) → r < g.n) →
    ∃ p, divisionConnected g dv k roots allowEmpty prim base = .ok p

theorem C05_total : statement_total := Cspuz.Proofs.C05.total

end Cspuz.C05
