/-
  C11 / firefly — assembly: the program of `solve_firefly` encodes the published rules of Hotaru Beam.
    program ⇔ arithmetic certificate            (Proofs/C11FireflyL1.lean, `encodes_cert`)
    certificate ⇒ rules                          (Proofs/C11FireflySound.lean, `rules_of_cert`)
    rules ⇒ certificate                          (Proofs/C11FireflyComplete.lean, `cert_of_rules`)
-/
import CspuzModel.Proofs.C11FireflyL1
import CspuzModel.Proofs.C11FireflySound
import CspuzModel.Proofs.C11FireflyComplete
namespace Cspuz.Proofs.C11Firefly
open Cspuz Cspuz.Spec Cspuz.Spec.FrameGeom Cspuz.Spec.Loop Cspuz.Puzzles Cspuz.Proofs
open Cspuz.Puzzles.Firefly hiding Dir
open Cspuz.Spec.Firefly (clue WellFormed firefly Rules RulesOn)
open Cspuz.Proofs.C11FireflyProg Cspuz.Proofs.C11FireflyCert

/-! ### `n_turn_unknown` exceeds every number on the board -/

theorem le_foldl_maxStepS (pb : Problem) : ∀ (l : List (Nat × Nat)) (m : Int), m ≤ l.foldl (maxStepS pb) m
  | [], m => Int.le_refl m
  | p :: l, m => by
    refine Int.le_trans ?_ (le_foldl_maxStepS pb l _)
    unfold maxStepS
    split
    · split <;> omega
    · exact Int.le_refl m

theorem num_le_foldl (pb : Problem) (q : Nat × Nat) (d : Option Firefly.Dir) (k : Int)
    (hq : clue pb q.1 q.2 = .fly d (.num k)) :
    ∀ (l : List (Nat × Nat)) (m : Int), q ∈ l → k ≤ l.foldl (maxStepS pb) m
  | [], _, h => by cases h
  | p :: l, m, h => by
    rcases List.mem_cons.mp h with rfl | h
    · refine Int.le_trans ?_ (le_foldl_maxStepS pb l _)
      unfold maxStepS
      rw [hq]
      simp only
      split <;> omega
    · exact num_le_foldl pb q d k hq l _ h

theorem num_lt_unk {pb : Problem} {H W : Nat} (hH : pb.height = H + 1) (hW : pb.width = W + 1) :
    ∀ y x d k, y ≤ H → x ≤ W → firefly pb (y, x) = some (d, some k) → k < maxNS pb + 1 := by
  intro y x d k hy hx hf
  have hc : ∃ d', clue pb y x = .fly (some d') (.num k) := by
    unfold firefly at hf
    split at hf
    · cases hf
    · next d' n hcl => cases hf; exact ⟨d', hcl⟩
    · cases hf
  obtain ⟨d', hc⟩ := hc
  have := num_le_foldl pb (y, x) (some d') k hc (cellsOf pb.height pb.width) 0
    (mem_cellsOf.mpr ⟨by simp only; omega, by simp only; omega⟩)
  unfold maxNS
  omega

/-! ### the main theorem -/

theorem encodes_rules {pb : Problem} (hw : WellFormed pb) {H W : Nat} (hH : pb.height = H + 1) (hW : pb.width = W + 1) :
    EncodesRules (progE pb H W) (Rules pb) := by
  intro a
  rw [C11FireflyL1.encodes_cert hw hH hW a]
  unfold Rules
  have e1 : pb.height - 1 = H := by omega
  have e2 : pb.width - 1 = W := by omega
  rw [e1, e2]
  constructor
  · rintro ⟨on, rfl, ⟨c⟩⟩
    exact ⟨on, rfl, C11FireflySound.rules_of_cert pb H W hH hW hw _ (num_lt_unk hH hW) on c⟩
  · rintro ⟨on, rfl, hr⟩
    exact ⟨on, rfl, C11FireflyComplete.cert_of_rules pb H W hH hW hw _ (by have := maxNS_nonneg pb; omega)
      (num_lt_unk hH hW) on hr⟩

theorem main (pb : Problem) (hw : WellFormed pb) (P : PuzzleProg) (hP : program pb = .ok P) :
    EncodesRules P (Rules pb) ∧ P.KeysOk ∧ (∀ c ∈ P.cs, wtB c = true) := by
  obtain ⟨H, W, hH, hW⟩ := dims hw
  rw [program_eq hw hH hW] at hP
  cases hP
  exact ⟨encodes_rules hw hH hW, keysOk_progE pb H W, wt_progE pb H W⟩

theorem total (pb : Problem) (hw : WellFormed pb) : ∃ P, program pb = .ok P := C11FireflyProg.total hw

end Cspuz.Proofs.C11Firefly
