/-
  C19, part 6: the map from admissible draw sequences to permutations performed by `shuffle` is a bijection.
-/
import CspuzModel.Proofs.C19Rand
namespace Cspuz.Gen
open Cspuz
variable {α : Type}

theorem swapAt_eq {l : List α} {i j : Nat} (hi : i < l.length) (hj : j < l.length) :
    swapAt l i j = (l.set i l[j]).set j l[i] := by
  simp [swapAt, hi, hj]

theorem swapAt_getElem? {l : List α} {i j : Nat} (hi : i < l.length) (hj : j < l.length) (k : Nat) :
    (swapAt l i j)[k]? = if k = j then l[i]? else if k = i then l[j]? else l[k]? := by
  rw [swapAt_eq hi hj]
  simp only [List.getElem?_set, List.length_set]
  by_cases h1 : j = k
  · subst h1; simp [hj, hi]
  · by_cases h2 : i = k
    · subst h2; simp [h1, hi, hj, Ne.symm h1]
    · simp [h1, h2, Ne.symm h1, Ne.symm h2]

theorem swapAt_invol (l : List α) (i j : Nat) : swapAt (swapAt l i j) i j = l := by
  by_cases hi : i < l.length
  · by_cases hj : j < l.length
    · apply List.ext_getElem?
      intro k
      have hi' : i < (swapAt l i j).length := by rw [swapAt_length]; exact hi
      have hj' : j < (swapAt l i j).length := by rw [swapAt_length]; exact hj
      rw [swapAt_getElem? hi' hj', swapAt_getElem? hi hj, swapAt_getElem? hi hj, swapAt_getElem? hi hj]
      by_cases h1 : k = j
      · subst h1
        by_cases h2 : i = k
        · subst h2; simp
        · simp [h2]
      · by_cases h2 : k = i
        · subst h2; simp [h1]
        · simp [h1, h2]
    · have : swapAt l i j = l := by simp [swapAt, hj]
      rw [this, this]
  · have : swapAt l i j = l := by simp [swapAt, hi]
    rw [this, this]

theorem swapAt_append_lt {l : List α} {i j : Nat} (a : α) (hi : i < l.length) (hj : j < l.length) :
    swapAt (l ++ [a]) i j = swapAt l i j ++ [a] := by
  rw [swapAt_eq (by simp; omega) (by simp; omega), swapAt_eq hi hj]
  simp [List.getElem_append_left, hi, hj]

theorem shuffleWith_snoc : ∀ (js : List Nat) (j i : Nat) (l : List α),
    shuffleWith (js ++ [j]) i l = swapAt (shuffleWith js i l) (i + js.length) j
  | [], j, i, l => by simp [shuffleWith]
  | j0 :: js, j, i, l => by
    simp only [List.cons_append, shuffleWith, List.length_cons]
    rw [shuffleWith_snoc js j (i + 1) _]
    congr 1
    omega

theorem shuffleWith_length : ∀ (js : List Nat) (i : Nat) (l : List α), (shuffleWith js i l).length = l.length :=
  fun js i l => (shuffleWith_perm js i l).length_eq

theorem shuffleWith_append_elem : ∀ (js : List Nat) (i : Nat) (l : List α) (a : α),
    (∀ t (h : t < js.length), js[t] ≤ i + t) → i + js.length ≤ l.length →
    shuffleWith js i (l ++ [a]) = shuffleWith js i l ++ [a]
  | [], _, _, _, _, _ => rfl
  | j :: js, i, l, a, hle, hlen => by
    simp only [shuffleWith]
    have hj : j ≤ i := by
      have := hle 0 (by simp)
      simp only [List.getElem_cons_zero] at this
      omega
    simp only [List.length_cons] at hlen
    rw [swapAt_append_lt a (by omega) (by omega)]
    apply shuffleWith_append_elem js (i + 1) (swapAt l i j) a
    · intro t ht
      have := hle (t + 1) (by simpa using ht)
      simp only [List.getElem_cons_succ] at this
      omega
    · rw [swapAt_length]; omega

end Cspuz.Gen
namespace Cspuz.Gen
open Cspuz
variable {α : Type}

theorem admissible_snoc (js0 : List Nat) (j n : Nat) (hn : 1 ≤ n) :
    Admissible (js0 ++ [j]) (n + 1) ↔ Admissible js0 n ∧ j ≤ n := by
  unfold Admissible
  constructor
  · rintro ⟨hlen, hle⟩
    simp only [List.length_append, List.length_singleton] at hlen
    refine ⟨⟨by omega, ?_⟩, ?_⟩
    · intro k hk
      have := hle k (by simp; omega)
      rwa [List.getElem_append_left hk] at this
    · have := hle js0.length (by simp)
      simp only [List.getElem_append_right (Nat.le_refl _), Nat.sub_self, List.getElem_cons_zero] at this
      omega
  · rintro ⟨⟨hlen, hle⟩, hj⟩
    refine ⟨by simp; omega, ?_⟩
    intro k hk
    simp only [List.length_append, List.length_singleton] at hk
    by_cases hk' : k < js0.length
    · rw [List.getElem_append_left hk']; exact hle k hk'
    · have : k = js0.length := by omega
      subst this
      simp only [List.getElem_append_right (Nat.le_refl _), Nat.sub_self, List.getElem_cons_zero]
      omega

/-- The last loop iteration, for a list with a new last element `a`. -/
theorem shuffleWith_step (js0 : List Nat) (j : Nat) (l : List α) (a : α) (hn : 1 ≤ l.length)
    (hadm : Admissible js0 l.length) :
    shuffleWith (js0 ++ [j]) 1 (l ++ [a]) = swapAt (shuffleWith js0 1 l ++ [a]) l.length j := by
  rw [shuffleWith_snoc, shuffleWith_append_elem js0 1 l a (fun t ht => by have := hadm.2 t ht; omega)
    (by have := hadm.1; omega)]
  congr 1
  have := hadm.1; omega

theorem eq_take_append_last {m : List α} {n : Nat} {a : α} (hlen : m.length = n + 1)
    (hlast : m[n]? = some a) : m = m.take n ++ [a] := by
  obtain ⟨hlt, e⟩ := List.getElem?_eq_some_iff.mp hlast
  conv_lhs => rw [← List.take_append_drop n m]
  congr 1
  rw [List.drop_eq_getElem_cons hlt, e, List.drop_of_length_le (by omega)]

/-- Position `j` of the result of the last swap holds the new element. -/
theorem swap_last_getElem? (r : List α) (a : α) (j : Nat) (hj : j ≤ r.length) :
    (swapAt (r ++ [a]) r.length j)[j]? = some a := by
  rw [swapAt_getElem? (by simp) (by simp; omega)]
  simp

theorem shuffle_bij (l : List α) : l.Nodup → ∀ l' : List α, l'.Perm l →
    ∃! js, Admissible js l.length ∧ shuffleWith js 1 l = l' := by
  induction l using List.reverseRecOn with
  | nil =>
    intro _ l' hp
    have : l' = [] := hp.eq_nil
    subst this
    refine ⟨[], ⟨⟨rfl, by simp⟩, rfl⟩, ?_⟩
    rintro js ⟨⟨hlen, _⟩, _⟩
    exact List.eq_nil_of_length_eq_zero (by simpa using hlen)
  | append_singleton l a ih =>
    intro hnd l' hp
    have hndl : l.Nodup := (List.nodup_append.mp hnd).1
    by_cases hl : l = []
    · subst hl
      have : l' = [a] := by simpa using hp
      subst this
      refine ⟨[], ⟨⟨rfl, by simp⟩, rfl⟩, ?_⟩
      rintro js ⟨⟨hlen, _⟩, _⟩
      exact List.eq_nil_of_length_eq_zero (by simpa using hlen)
    · have hn : 1 ≤ l.length := by
        cases l with
        | nil => exact absurd rfl hl
        | cons _ _ => simp
      have hnd' : l'.Nodup := hp.nodup_iff.mpr hnd
      have hlen' : l'.length = l.length + 1 := by simpa using hp.length_eq
      have ha : a ∈ l' := hp.mem_iff.mpr (by simp)
      have hlen_eq : (l ++ [a]).length = l.length + 1 := by simp
      rw [hlen_eq]
      apply existsUnique_of_exists_of_unique
      · -- existence: undo the last swap and use the induction hypothesis
        obtain ⟨j, hj, hja⟩ := List.getElem_of_mem ha
        have hja' : l'[j]? = some a := by rw [List.getElem?_eq_getElem hj, hja]
        have hmlen : (swapAt l' l.length j).length = l.length + 1 := by rw [swapAt_length, hlen']
        have hm_last : (swapAt l' l.length j)[l.length]? = some a := by
          rw [swapAt_getElem? (by omega) hj]
          by_cases e : l.length = j
          · rw [if_pos e, e]; exact hja'
          · rw [if_neg e, if_pos rfl]; exact hja'
        have hm := eq_take_append_last hmlen hm_last
        have hperm0 : ((swapAt l' l.length j).take l.length).Perm l := by
          have h1 : (swapAt l' l.length j).Perm (l ++ [a]) := (swapAt_perm _ _ _).trans hp
          rw [hm] at h1
          exact (List.perm_append_right_iff _).mp h1
        obtain ⟨js0, ⟨hadm0, hres0⟩, _⟩ := ih hndl _ hperm0
        refine ⟨js0 ++ [j], (admissible_snoc js0 j l.length hn).mpr ⟨hadm0, by omega⟩, ?_⟩
        rw [shuffleWith_step js0 j l a hn hadm0, hres0, ← hm, swapAt_invol]
      · -- uniqueness
        rintro js js' ⟨hadm, hres⟩ ⟨hadm', hres'⟩
        have split : ∀ ks : List Nat, Admissible ks (l.length + 1) → ∃ ks0 k, ks = ks0 ++ [k] := by
          intro ks hk
          have : ks ≠ [] := by
            intro e; have := hk.1; rw [e] at this; simp at this; omega
          exact ⟨ks.dropLast, ks.getLast this, (List.dropLast_append_getLast this).symm⟩
        obtain ⟨js0, j, rfl⟩ := split js hadm
        obtain ⟨js0', j', rfl⟩ := split js' hadm'
        obtain ⟨hadm0, hj⟩ := (admissible_snoc js0 j l.length hn).mp hadm
        obtain ⟨hadm0', hj'⟩ := (admissible_snoc js0' j' l.length hn).mp hadm'
        rw [shuffleWith_step js0 j l a hn hadm0] at hres
        rw [shuffleWith_step js0' j' l a hn hadm0'] at hres'
        have hr0 : (shuffleWith js0 1 l).length = l.length := shuffleWith_length _ _ _
        have hr0' : (shuffleWith js0' 1 l).length = l.length := shuffleWith_length _ _ _
        have e1 : l'[j]? = some a := by
          rw [← hres]
          have := swap_last_getElem? (shuffleWith js0 1 l) a j (by omega)
          rwa [hr0] at this
        have e2 : l'[j']? = some a := by
          rw [← hres']
          have := swap_last_getElem? (shuffleWith js0' 1 l) a j' (by omega)
          rwa [hr0'] at this
        have hjj : j = j' := by
          obtain ⟨h1, g1⟩ := List.getElem?_eq_some_iff.mp e1
          obtain ⟨h2, g2⟩ := List.getElem?_eq_some_iff.mp e2
          exact (List.Nodup.getElem_inj_iff hnd').mp (g1.trans g2.symm)
        subst hjj
        have hback : shuffleWith js0 1 l ++ [a] = shuffleWith js0' 1 l ++ [a] := by
          rw [← swapAt_invol (shuffleWith js0 1 l ++ [a]) l.length j, hres, ← hres', swapAt_invol]
        have hr : shuffleWith js0 1 l = shuffleWith js0' 1 l := List.append_cancel_right hback
        have huniq := ih hndl (shuffleWith js0 1 l) (shuffleWith_perm _ _ _)
        have := huniq.unique ⟨hadm0, rfl⟩ ⟨hadm0', hr.symm⟩
        rw [this]

end Cspuz.Gen
