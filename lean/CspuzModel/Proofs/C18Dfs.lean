/-
  C18 — `_is_connected` (`visit` / `isConnected` of Model/Segmentation.lean) decides orthogonal connectivity of
  a duplicate-free block minus the excluded cell: soundness (`isConnected_sound`), the size fact used by the
  mutate step (`isConnected_some_length`) and completeness (`isConnected_complete`).
-/
import CspuzModel.Proofs.C18Conn
import Mathlib.Data.List.Nodup
import Mathlib.Data.List.Perm.Subperm

namespace Cspuz.Seg.Proofs
open Cspuz.Seg Cspuz.Seg.Spec

/-- The cell set explored by `visit`: cells of the block other than the excluded one. -/
abbrev VS (blk : Block) (excl : Option Cell) : Cell → Prop := fun p => p ∈ blk ∧ some p ≠ excl

/-- What a successful call `visit blk excl d c vis = .ok vis'` guarantees. -/
structure VisitOk (blk : Block) (excl : Option Cell) (c : Cell) (vis vis' : List Cell) : Prop where
  nodup : vis.Nodup → vis'.Nodup
  mono : ∀ p ∈ vis, p ∈ vis'
  reach : ∀ u ∈ vis', u ∉ vis → Reach (VS blk excl) c u
  start : VS blk excl c → c ∈ vis'
  closed : ∀ u ∈ vis', u ∉ vis → ∀ v, Adj4 u v → VS blk excl v → v ∈ vis'

theorem visitOk_skip {blk : Block} {excl : Option Cell} {c : Cell} {vis : List Cell}
    (h : c ∉ blk ∨ c ∈ vis ∨ some c = excl) : VisitOk blk excl c vis vis where
  nodup := id
  mono := fun _ hp => hp
  reach := fun _ hu hn => absurd hu hn
  start := fun hS => by
    rcases h with h | h | h
    · exact absurd hS.1 h
    · exact h
    · exact absurd h hS.2
  closed := fun _ hu hn => absurd hu hn

theorem visitOk_step {blk : Block} {excl : Option Cell} {c : Cell} {vis v1 v2 v3 v4 : List Cell}
    (hS : VS blk excl c) (hc : c ∉ vis)
    (h1 : VisitOk blk excl (c.1 - 1, c.2) (c :: vis) v1)
    (h2 : VisitOk blk excl (c.1 + 1, c.2) v1 v2)
    (h3 : VisitOk blk excl (c.1, c.2 - 1) v2 v3)
    (h4 : VisitOk blk excl (c.1, c.2 + 1) v3 v4) : VisitOk blk excl c vis v4 := by
  have a1 : Adj4 c (c.1 - 1, c.2) := adj4_of_mem_nbrs4 (by simp [nbrs4])
  have a2 : Adj4 c (c.1 + 1, c.2) := adj4_of_mem_nbrs4 (by simp [nbrs4])
  have a3 : Adj4 c (c.1, c.2 - 1) := adj4_of_mem_nbrs4 (by simp [nbrs4])
  have a4 : Adj4 c (c.1, c.2 + 1) := adj4_of_mem_nbrs4 (by simp [nbrs4])
  have m34 : ∀ p ∈ v3, p ∈ v4 := h4.mono
  have m24 : ∀ p ∈ v2, p ∈ v4 := fun p hp => m34 p (h3.mono p hp)
  have m14 : ∀ p ∈ v1, p ∈ v4 := fun p hp => m24 p (h2.mono p hp)
  have m04 : ∀ p ∈ c :: vis, p ∈ v4 := fun p hp => m14 p (h1.mono p hp)
  -- every new cell other than `c` was added by exactly one of the four calls
  have origin : ∀ u ∈ v4, u ∉ vis → u ≠ c →
      (u ∈ v1 ∧ u ∉ c :: vis) ∨ (u ∈ v2 ∧ u ∉ v1) ∨ (u ∈ v3 ∧ u ∉ v2) ∨ (u ∈ v4 ∧ u ∉ v3) := by
    intro u hu hn hne
    have h0 : u ∉ c :: vis := by simp [hne, hn]
    by_cases u3 : u ∈ v3
    · by_cases u2 : u ∈ v2
      · by_cases u1 : u ∈ v1
        · exact Or.inl ⟨u1, h0⟩
        · exact Or.inr (Or.inl ⟨u2, u1⟩)
      · exact Or.inr (Or.inr (Or.inl ⟨u3, u2⟩))
    · exact Or.inr (Or.inr (Or.inr ⟨hu, u3⟩))
  refine ⟨?_, ?_, ?_, ?_, ?_⟩
  · intro hv
    exact h4.nodup (h3.nodup (h2.nodup (h1.nodup (List.nodup_cons.2 ⟨hc, hv⟩))))
  · intro p hp
    exact m04 p (List.mem_cons_of_mem _ hp)
  · intro u hu hn
    by_cases hne : u = c
    · subst hne; exact .refl hS
    · rcases origin u hu hn hne with ⟨x, y⟩ | ⟨x, y⟩ | ⟨x, y⟩ | ⟨x, y⟩
      · exact Reach.head hS a1 (h1.reach u x y)
      · exact Reach.head hS a2 (h2.reach u x y)
      · exact Reach.head hS a3 (h3.reach u x y)
      · exact Reach.head hS a4 (h4.reach u x y)
  · intro _
    exact m04 c (List.mem_cons_self ..)
  · intro u hu hn v hadj hv
    by_cases hne : u = c
    · subst hne
      have := mem_nbrs4_of_adj4 hadj
      simp only [nbrs4, List.mem_cons, List.not_mem_nil, or_false] at this
      rcases this with rfl | rfl | rfl | rfl
      · exact m14 _ (h1.start hv)
      · exact m24 _ (h2.start hv)
      · exact m34 _ (h3.start hv)
      · exact h4.start hv
    · rcases origin u hu hn hne with ⟨x, y⟩ | ⟨x, y⟩ | ⟨x, y⟩ | ⟨x, y⟩
      · exact m14 _ (h1.closed u x y v hadj hv)
      · exact m24 _ (h2.closed u x y v hadj hv)
      · exact m34 _ (h3.closed u x y v hadj hv)
      · exact h4.closed u x y v hadj hv

theorem visit_ok {blk : Block} {excl : Option Cell} :
    ∀ (d : Nat) (c : Cell) (vis vis' : List Cell),
      visit blk excl d c vis = .ok vis' → VisitOk blk excl c vis vis' := by
  intro d
  induction d with
  | zero => intro c vis vis' h; simp [visit] at h
  | succ d ih =>
    intro c vis vis' h
    rw [visit] at h
    split at h
    · next hsk =>
      cases h
      exact visitOk_skip hsk
    · next hsk =>
      simp only [not_or, not_not] at hsk
      split at h
      · cases h
      · next v1 e1 =>
        split at h
        · cases h
        · next v2 e2 =>
          split at h
          · cases h
          · next v3 e3 =>
            exact visitOk_step ⟨hsk.1, hsk.2.2⟩ hsk.2.1 (ih _ _ _ e1) (ih _ _ _ e2) (ih _ _ _ e3)
              (ih _ _ _ h)

/-! ### `isConnected` -/

theorem dedup_eq_of_nodup : ∀ {l : List Cell}, l.Nodup → dedup l = l
  | [], _ => rfl
  | c :: cs, h => by
    have h' := List.nodup_cons.1 h
    simp only [dedup, h'.1, if_false, dedup_eq_of_nodup h'.2]

/-- The cells of `VS blk excl` as a list. -/
def vsList (blk : Block) (excl : Option Cell) : List Cell := blk.filter (fun p => decide (some p ≠ excl))

theorem mem_vsList {blk : Block} {excl : Option Cell} {p : Cell} : p ∈ vsList blk excl ↔ VS blk excl p := by
  simp [vsList, VS]

theorem nodup_vsList {blk : Block} {excl : Option Cell} (h : blk.Nodup) : (vsList blk excl).Nodup :=
  h.filter _

/-- The number subtracted from `len(set(block))` in `_is_connected`. -/
def exclCount (blk : Block) (excl : Option Cell) : Int :=
  match excl with
  | none => 0
  | some e => if e ∈ blk then 1 else 0

theorem length_vsList {blk : Block} {excl : Option Cell} (h : blk.Nodup) :
    ((vsList blk excl).length : Int) = (blk.length : Int) - exclCount blk excl := by
  cases excl with
  | none => simp [vsList, exclCount]
  | some e =>
    have : vsList blk (some e) = blk.erase e := by
      rw [h.erase_eq_filter]
      apply List.filter_congr
      intro p _
      by_cases hp : p = e <;> simp [hp]
    rw [this, List.length_erase]
    simp only [exclCount]
    split
    · next hm =>
      have := List.length_pos_of_mem hm
      omega
    · omega

/-- Unfolding `isConnected` on a block with at least two cells. -/
theorem isConnected_cons_cons {depth : Nat} {c0 c1 : Cell} {rest : Block} {excl : Option Cell} {r : Bool}
    (h : isConnected depth (c0 :: c1 :: rest) excl = .ok r) :
    ∃ vis, visit (c0 :: c1 :: rest) excl depth (if some c0 = excl then c1 else c0) [] = .ok vis ∧
      r = decide ((vis.length : Int) =
        ((dedup (c0 :: c1 :: rest)).length : Int) - exclCount (c0 :: c1 :: rest) excl) := by
  simp only [isConnected] at h
  split at h
  · cases h
  · next vis e =>
    refine ⟨vis, e, ?_⟩
    injection h with h
    rw [← h]
    cases excl <;> rfl

/-- The start cell chosen by `isConnected` lies in the explored set. -/
theorem start_mem_vs {c0 c1 : Cell} {rest : Block} {excl : Option Cell} (hnd : (c0 :: c1 :: rest).Nodup) :
    VS (c0 :: c1 :: rest) excl (if some c0 = excl then c1 else c0) := by
  split
  · next h =>
    refine ⟨by simp, ?_⟩
    rw [← h]
    intro h'
    injection h' with h'
    subst h'
    simp at hnd
  · next h => exact ⟨by simp, h⟩

/-- Everything reachable from a visited cell of a top-level call is visited. -/
theorem mem_of_reach {blk : Block} {excl : Option Cell} {s : Cell} {vis : List Cell}
    (hv : VisitOk blk excl s [] vis) {a b : Cell} (hr : Reach (VS blk excl) a b) (ha : a ∈ vis) : b ∈ vis := by
  induction hr with
  | refl _ => exact ha
  | step _ hc hadj ih => exact hv.closed _ ih (by simp) _ hadj hc

theorem isConnected_sound {depth : Nat} {blk : Block} {excl : Option Cell} (hnd : blk.Nodup)
    (h : isConnected depth blk excl = .ok true) : ConnectedOn (fun p => p ∈ blk ∧ some p ≠ excl) := by
  match blk, hnd, h with
  | [], _, h => simp [isConnected] at h
  | [x], _, h =>
    simp only [isConnected, Except.ok.injEq, Option.isNone_iff_eq_none] at h
    subst h
    intro a b ha hb
    simp only [List.mem_singleton] at ha hb
    obtain ⟨rfl, _⟩ := ha
    obtain ⟨rfl, _⟩ := hb
    exact .refl (by simp)
  | c0 :: c1 :: rest, hnd, h =>
    obtain ⟨vis, hvis, hr⟩ := isConnected_cons_cons h
    have hv := visit_ok _ _ _ _ hvis
    have hlen := of_decide_eq_true hr.symm
    rw [dedup_eq_of_nodup hnd, ← length_vsList hnd] at hlen
    have hsub : vis ⊆ vsList (c0 :: c1 :: rest) excl :=
      fun p hp => mem_vsList.2 (hv.reach p hp (by simp)).right_mem
    have hperm := (List.subperm_of_subset (hv.nodup List.nodup_nil) hsub).perm_of_length_le (by omega)
    apply connectedOn_of_hub (if some c0 = excl then c1 else c0)
    intro p hp
    exact hv.reach p (hperm.mem_iff.2 (mem_vsList.2 hp)) (by simp)

theorem isConnected_some_length {depth : Nat} {blk : Block} {c : Cell}
    (h : isConnected depth blk (some c) = .ok true) : 2 ≤ blk.length := by
  match blk, h with
  | [], h => simp [isConnected] at h
  | [x], h => simp [isConnected] at h
  | _ :: _ :: _, _ => simp

theorem isConnected_complete {depth : Nat} {blk : Block} {excl : Option Cell} {r : Bool} (hnd : blk.Nodup)
    (hlen : 2 ≤ blk.length) (h : isConnected depth blk excl = .ok r)
    (hc : ConnectedOn (fun p => p ∈ blk ∧ some p ≠ excl)) : r = true := by
  match blk, hnd, hlen, h, hc with
  | [], _, hlen, _, _ => simp at hlen
  | [x], _, hlen, _, _ => simp at hlen
  | c0 :: c1 :: rest, hnd, _, h, hc =>
    obtain ⟨vis, hvis, hr⟩ := isConnected_cons_cons h
    have hv := visit_ok _ _ _ _ hvis
    have hs := start_mem_vs (excl := excl) hnd
    have hperm : vis.Perm (vsList (c0 :: c1 :: rest) excl) := by
      rw [List.perm_ext_iff_of_nodup (hv.nodup List.nodup_nil) (nodup_vsList hnd)]
      intro p
      constructor
      · intro hp
        exact mem_vsList.2 (hv.reach p hp (by simp)).right_mem
      · intro hp
        exact mem_of_reach hv (hc _ _ hs (mem_vsList.1 hp)) (hv.start hs)
    rw [hr, decide_eq_true_eq, dedup_eq_of_nodup hnd, ← length_vsList hnd, hperm.length_eq]

end Cspuz.Seg.Proofs
