/-
  C08, planar lemma, direction "diagonal graph acyclic ⇒ white cells connected".

  Induction on the number of black cells.  A non-empty forest has a black cell `p` with at most one
  neighbour in the diagonal graph (a cell of maximal depth).  Making `p` white keeps the hypotheses,
  so the white cells together with `p` are connected; every passage of a walk through `p` can be
  re-routed around `p` inside its 8-neighbourhood, because at most one "contact" (a diagonal black cell
  or the border) interrupts the ring of white cells around `p`.
-/
import Mathlib.Combinatorics.SimpleGraph.Acyclic
import CspuzModel.Spec.C08Spec
import CspuzModel.Proofs.C04Prim
import CspuzModel.Proofs.C08DiagL3
import CspuzModel.Proofs.C08PlanarGrid
namespace Cspuz.Proofs.C08PlanarEasy
open Cspuz Cspuz.Spec SimpleGraph Cspuz.Proofs.C08PlanarGrid

variable {h w : Nat} {act : Nat → Bool}

/-! ### integer coordinates -/

def OnB (h w : Nat) (p : Int × Int) : Prop := 0 ≤ p.1 ∧ p.1 < h ∧ 0 ≤ p.2 ∧ p.2 < w

abbrev idxI (w : Nat) (p : Int × Int) : Nat := p.1.toNat * w + p.2.toNat

def WhiteI (h w : Nat) (act : Nat → Bool) (p : Int × Int) : Prop := OnB h w p ∧ act (idxI w p) = false

def BlackI (h w : Nat) (act : Nat → Bool) (p : Int × Int) : Prop := OnB h w p ∧ act (idxI w p) = true

theorem OnB.y {p : Int × Int} (hp : OnB h w p) : p.1.toNat < h := by
  obtain ⟨a, b, c, d⟩ := hp; omega

theorem OnB.x {p : Int × Int} (hp : OnB h w p) : p.2.toNat < w := by
  obtain ⟨a, b, c, d⟩ := hp; omega

def mkVI (p : Int × Int) (hp : WhiteI h w act p) : WSet h w act :=
  mkV p.1.toNat p.2.toNat hp.1.y hp.1.x hp.2

/-- reachability between white cells, in integer coordinates -/
def R (h w : Nat) (act : Nat → Bool) (p q : Int × Int) : Prop :=
  ∃ (hp : WhiteI h w act p) (hq : WhiteI h w act q), (WG h w act).Reachable (mkVI p hp) (mkVI q hq)

theorem R.refl {p : Int × Int} (hp : WhiteI h w act p) : R h w act p p := ⟨hp, hp, Reachable.refl _⟩

theorem R.symm {p q : Int × Int} (hr : R h w act p q) : R h w act q p := by
  obtain ⟨hp, hq, hr⟩ := hr
  exact ⟨hq, hp, hr.symm⟩

theorem R.trans {p q r : Int × Int} (h1 : R h w act p q) (h2 : R h w act q r) : R h w act p r := by
  obtain ⟨hp, hq, h1⟩ := h1
  obtain ⟨_, hr, h2⟩ := h2
  exact ⟨hp, hr, h1.trans h2⟩

def orthI (p q : Int × Int) : Prop :=
  (p.1 = q.1 ∧ (p.2 + 1 = q.2 ∨ q.2 + 1 = p.2)) ∨ (p.2 = q.2 ∧ (p.1 + 1 = q.1 ∨ q.1 + 1 = p.1))

def diagI (p q : Int × Int) : Prop :=
  (p.1 + 1 = q.1 ∨ q.1 + 1 = p.1) ∧ (p.2 + 1 = q.2 ∨ q.2 + 1 = p.2)

theorem R_adj {p q : Int × Int} (hp : WhiteI h w act p) (hq : WhiteI h w act q) (ho : orthI p q) :
    R h w act p q := by
  refine ⟨hp, hq, Adj.reachable ?_⟩
  unfold mkVI
  rw [mkV_adj_iff]
  obtain ⟨a1, a2, a3, a4⟩ := hp.1
  obtain ⟨b1, b2, b3, b4⟩ := hq.1
  unfold orthI at ho
  omega

theorem white_of_orth (hNA : NoAdjacentActive (Graph.grid h w) act) {p q : Int × Int}
    (hp : BlackI h w act p) (hq : OnB h w q) (ho : orthI p q) : WhiteI h w act q := by
  refine ⟨hq, ?_⟩
  cases hact : act (idxI w q) with
  | false => rfl
  | true =>
    exfalso
    obtain ⟨a1, a2, a3, a4⟩ := hp.1
    obtain ⟨b1, b2, b3, b4⟩ := hq
    have hpa := hp.2
    unfold idxI at hpa hact
    rcases ho with ⟨e, e' | e'⟩ | ⟨e, e' | e'⟩
    · have e1 : q.1.toNat = p.1.toNat := by omega
      have e2 : q.2.toNat = p.2.toNat + 1 := by omega
      rw [e1, e2] at hact
      exact hNA (_, _) ((C04Prim.mem_grid_edges h w _ _).2
        ⟨p.1.toNat, by omega, p.2.toNat, by omega, Or.inl ⟨by omega, rfl, rfl⟩⟩) ⟨hpa, hact⟩
    · have e1 : p.1.toNat = q.1.toNat := by omega
      have e2 : p.2.toNat = q.2.toNat + 1 := by omega
      rw [e1, e2] at hpa
      exact hNA (_, _) ((C04Prim.mem_grid_edges h w _ _).2
        ⟨q.1.toNat, by omega, q.2.toNat, by omega, Or.inl ⟨by omega, rfl, rfl⟩⟩) ⟨hact, hpa⟩
    · have e1 : q.1.toNat = p.1.toNat + 1 := by omega
      have e2 : q.2.toNat = p.2.toNat := by omega
      rw [e1, e2] at hact
      exact hNA (_, _) ((C04Prim.mem_grid_edges h w _ _).2
        ⟨p.1.toNat, by omega, p.2.toNat, by omega, Or.inr ⟨by omega, rfl, rfl⟩⟩) ⟨hpa, hact⟩
    · have e1 : p.1.toNat = q.1.toNat + 1 := by omega
      have e2 : p.2.toNat = q.2.toNat := by omega
      rw [e1, e2] at hpa
      exact hNA (_, _) ((C04Prim.mem_grid_edges h w _ _).2
        ⟨q.1.toNat, by omega, q.2.toNat, by omega, Or.inr ⟨by omega, rfl, rfl⟩⟩) ⟨hact, hpa⟩

/-- the board cell with integer coordinates `p` -/
def mkC (p : Int × Int) (hp : OnB h w p) : Fin h × Fin w := (⟨p.1.toNat, hp.y⟩, ⟨p.2.toNat, hp.x⟩)

theorem adj_diag {p q : Int × Int} (hp : BlackI h w act p) (hq : BlackI h w act q) (hd : diagI p q) :
    (diagGraph h w act).Adj (some (mkC p hp.1)) (some (mkC q hq.1)) := by
  refine ⟨hp.2, hq.2, ?_⟩
  obtain ⟨a1, a2, a3, a4⟩ := hp.1
  obtain ⟨b1, b2, b3, b4⟩ := hq.1
  unfold diagI at hd
  simp only [diagonal, mkC]
  omega

theorem adj_border {p : Int × Int} (hp : BlackI h w act p)
    (hb : p.1 = 0 ∨ p.1 + 1 = h ∨ p.2 = 0 ∨ p.2 + 1 = w) :
    (diagGraph h w act).Adj (some (mkC p hp.1)) none := by
  refine ⟨hp.2, ?_⟩
  obtain ⟨a1, a2, a3, a4⟩ := hp.1
  simp only [onBorder, mkC]
  omega

theorem mkC_inj {p q : Int × Int} {hp : OnB h w p} {hq : OnB h w q} (he : mkC p hp = mkC q hq) :
    p = q := by
  obtain ⟨a1, a2, a3, a4⟩ := hp
  obtain ⟨b1, b2, b3, b4⟩ := hq
  simp only [mkC, Prod.mk.injEq, Fin.mk.injEq] at he
  apply Prod.ext <;> omega

/-- a leaf: at most one neighbour in the diagonal graph -/
def Leaf (h w : Nat) (act : Nat → Bool) (p : Int × Int) (hp : OnB h w p) : Prop :=
  ∀ u v, (diagGraph h w act).Adj (some (mkC p hp)) u → (diagGraph h w act).Adj (some (mkC p hp)) v → u = v

/-- two orthogonal neighbours of a leaf around a corner are connected through white cells -/
theorem corner (hNA : NoAdjacentActive (Graph.grid h w) act) {p : Int × Int}
    (hb : BlackI h w act p) (hleaf : Leaf h w act p hb.1) (sy sx : Int)
    (hsy : sy = 1 ∨ sy = -1) (hsx : sx = 1 ∨ sx = -1)
    (h1 : OnB h w (p.1 + sy, p.2)) (h2 : OnB h w (p.1, p.2 + sx)) :
    R h w act (p.1 + sy, p.2) (p.1, p.2 + sx) := by
  have hd : OnB h w (p.1 + sy, p.2 + sx) := ⟨h1.1, h1.2.1, h2.2.2.1, h2.2.2.2⟩
  have w1 : WhiteI h w act (p.1 + sy, p.2) := white_of_orth hNA hb h1 (by unfold orthI; dsimp only; omega)
  have w2 : WhiteI h w act (p.1, p.2 + sx) := white_of_orth hNA hb h2 (by unfold orthI; dsimp only; omega)
  cases hact : act (idxI w (p.1 + sy, p.2 + sx)) with
  | false =>
    have wd : WhiteI h w act (p.1 + sy, p.2 + sx) := ⟨hd, hact⟩
    exact (R_adj w1 wd (by unfold orthI; dsimp only; omega)).trans
      (R_adj wd w2 (by unfold orthI; dsimp only; omega))
  | true =>
    have bd : BlackI h w act (p.1 + sy, p.2 + sx) := ⟨hd, hact⟩
    have adj1 := adj_diag hb bd (by unfold diagI; dsimp only; omega)
    have hnb : ¬ (p.1 = 0 ∨ p.1 + 1 = h ∨ p.2 = 0 ∨ p.2 + 1 = w) := by
      intro hbd
      have := hleaf _ _ adj1 (adj_border hb hbd)
      cases this
    obtain ⟨a1, a2, a3, a4⟩ := hb.1
    have dw : ∀ d' : Int × Int, diagI p d' → d' ≠ (p.1 + sy, p.2 + sx) → WhiteI h w act d' := by
      intro d' hd' hne
      have hon : OnB h w d' := by
        unfold diagI at hd'
        unfold OnB
        omega
      refine ⟨hon, ?_⟩
      cases hact' : act (idxI w d') with
      | false => rfl
      | true =>
        exfalso
        have adj2 := adj_diag hb (q := d') ⟨hon, hact'⟩ hd'
        have := hleaf _ _ adj1 adj2
        exact hne (mkC_inj (Option.some.inj this)).symm
    have wa : WhiteI h w act (p.1 + sy, p.2 - sx) :=
      dw _ (by unfold diagI; dsimp only; omega) (by intro e; simp only [Prod.mk.injEq] at e; omega)
    have wb : WhiteI h w act (p.1 - sy, p.2 - sx) :=
      dw _ (by unfold diagI; dsimp only; omega) (by intro e; simp only [Prod.mk.injEq] at e; omega)
    have wc : WhiteI h w act (p.1 - sy, p.2 + sx) :=
      dw _ (by unfold diagI; dsimp only; omega) (by intro e; simp only [Prod.mk.injEq] at e; omega)
    have w3 : WhiteI h w act (p.1, p.2 - sx) :=
      white_of_orth hNA hb (by unfold OnB; dsimp only; omega) (by unfold orthI; dsimp only; omega)
    have w4 : WhiteI h w act (p.1 - sy, p.2) :=
      white_of_orth hNA hb (by unfold OnB; dsimp only; omega) (by unfold orthI; dsimp only; omega)
    exact (R_adj w1 wa (by unfold orthI; dsimp only; omega)).trans <|
      (R_adj wa w3 (by unfold orthI; dsimp only; omega)).trans <|
      (R_adj w3 wb (by unfold orthI; dsimp only; omega)).trans <|
      (R_adj wb w4 (by unfold orthI; dsimp only; omega)).trans <|
      (R_adj w4 wc (by unfold orthI; dsimp only; omega)).trans <|
      (R_adj wc w2 (by unfold orthI; dsimp only; omega))

theorem orth_cases {p q : Int × Int} (ho : orthI p q) :
    (∃ s : Int, (s = 1 ∨ s = -1) ∧ q = (p.1 + s, p.2)) ∨
    (∃ s : Int, (s = 1 ∨ s = -1) ∧ q = (p.1, p.2 + s)) := by
  rcases ho with ⟨e, e' | e'⟩ | ⟨e, e' | e'⟩
  · exact Or.inr ⟨1, Or.inl rfl, Prod.ext (by dsimp only; omega) (by dsimp only; omega)⟩
  · exact Or.inr ⟨-1, Or.inr rfl, Prod.ext (by dsimp only; omega) (by dsimp only; omega)⟩
  · exact Or.inl ⟨1, Or.inl rfl, Prod.ext (by dsimp only; omega) (by dsimp only; omega)⟩
  · exact Or.inl ⟨-1, Or.inr rfl, Prod.ext (by dsimp only; omega) (by dsimp only; omega)⟩

/-- any two orthogonal neighbours of a leaf are connected through white cells -/
theorem around (hh : 2 ≤ h) (hw : 2 ≤ w) (hNA : NoAdjacentActive (Graph.grid h w) act) {p : Int × Int}
    (hb : BlackI h w act p) (hleaf : Leaf h w act p hb.1) {q1 q2 : Int × Int}
    (h1 : OnB h w q1) (h2 : OnB h w q2) (o1 : orthI p q1) (o2 : orthI p q2) : R h w act q1 q2 := by
  have wq1 := white_of_orth hNA hb h1 o1
  obtain ⟨a1, a2, a3, a4⟩ := hb.1
  rcases orth_cases o1 with ⟨s1, hs1, rfl⟩ | ⟨s1, hs1, rfl⟩ <;>
    rcases orth_cases o2 with ⟨s2, hs2, rfl⟩ | ⟨s2, hs2, rfl⟩
  · by_cases hs : s1 = s2
    · subst hs; exact R.refl wq1
    · -- opposite vertical neighbours: go through a horizontal neighbour
      by_cases hx : p.2 + 1 < w
      · have h3 : OnB h w (p.1, p.2 + 1) := by unfold OnB; dsimp only; omega
        exact (corner hNA hb hleaf s1 1 hs1 (Or.inl rfl) h1 h3).trans
          (corner hNA hb hleaf s2 1 hs2 (Or.inl rfl) h2 h3).symm
      · have h3 : OnB h w (p.1, p.2 + -1) := by unfold OnB; dsimp only; omega
        exact (corner hNA hb hleaf s1 (-1) hs1 (Or.inr rfl) h1 h3).trans
          (corner hNA hb hleaf s2 (-1) hs2 (Or.inr rfl) h2 h3).symm
  · exact corner hNA hb hleaf s1 s2 hs1 hs2 h1 h2
  · exact (corner hNA hb hleaf s2 s1 hs2 hs1 h2 h1).symm
  · by_cases hs : s1 = s2
    · subst hs; exact R.refl wq1
    · by_cases hy : p.1 + 1 < h
      · have h3 : OnB h w (p.1 + 1, p.2) := by unfold OnB; dsimp only; omega
        exact (corner hNA hb hleaf 1 s1 (Or.inl rfl) hs1 h3 h1).symm.trans
          (corner hNA hb hleaf 1 s2 (Or.inl rfl) hs2 h3 h2)
      · have h3 : OnB h w (p.1 + -1, p.2) := by unfold OnB; dsimp only; omega
        exact (corner hNA hb hleaf (-1) s1 (Or.inr rfl) hs1 h3 h1).symm.trans
          (corner hNA hb hleaf (-1) s2 (Or.inr rfl) hs2 h3 h2)

/-! ### existence of a leaf -/

theorem exists_leaf (hF : DiagForest h w act) (c0 : Fin h × Fin w)
    (h0 : act (c0.1.1 * w + c0.2.1) = true) :
    ∃ c : Fin h × Fin w, act (c.1.1 * w + c.2.1) = true ∧
      ∀ u v, (diagGraph h w act).Adj (some c) u → (diagGraph h w act).Adj (some c) v → u = v := by
  classical
  let S : Finset (Fin h × Fin w) := Finset.univ.filter fun c => act (c.1.1 * w + c.2.1) = true
  obtain ⟨c, hcS, hmax⟩ := Finset.exists_max_image S
    (fun c => C08DiagL3.dp (diagGraph h w act) none (some c)) ⟨c0, by simp [S, h0]⟩
  have hcb : act (c.1.1 * w + c.2.1) = true := (Finset.mem_filter.1 hcS).2
  have hnone : C08DiagL3.dp (diagGraph h w act) none none = 0 := by
    unfold C08DiagL3.dp
    rw [C08DiagL3.rt_of_reach _ _ (Reachable.refl _)]
    simp
  have lower : ∀ u, (diagGraph h w act).Adj (some c) u →
      C08DiagL3.dp (diagGraph h w act) none u < C08DiagL3.dp (diagGraph h w act) none (some c) := by
    intro u hu
    rcases C08DiagL3.dp_adj (diagGraph h w act) none hF hu with h1 | h1
    · omega
    · exfalso
      match u, hu, h1 with
      | none, _, h1 => rw [hnone] at h1; omega
      | some d, hu, h1 =>
        have hd : d ∈ S := by simp only [S, Finset.mem_filter, Finset.mem_univ, true_and]; exact hu.2.1
        have := hmax d hd
        omega
  exact ⟨c, hcb, fun u v hu hv =>
    C08DiagL3.dp_parent_unique (diagGraph h w act) none hF hu hv (lower u hu) (lower v hv)⟩

/-! ### the all-white board -/

theorem all_white_connected (hall : ∀ y x, y < h → x < w → act (y * w + x) = false) :
    (WG h w act).Preconnected := by
  have row : ∀ (x y : Nat) (hy : y < h) (hx : x < w) (h0 : 0 < w),
      (WG h w act).Reachable (mkV y 0 hy h0 (hall _ _ hy h0)) (mkV y x hy hx (hall _ _ hy hx)) := by
    intro x
    induction x with
    | zero => intro y hy hx h0; exact Reachable.refl _
    | succ x ih =>
      intro y hy hx h0
      refine (ih y hy (by omega) h0).trans (Adj.reachable ?_)
      rw [mkV_adj_iff]; omega
  have col : ∀ (y : Nat) (hy : y < h) (h0 : 0 < w) (h0' : 0 < h),
      (WG h w act).Reachable (mkV 0 0 h0' h0 (hall _ _ h0' h0)) (mkV y 0 hy h0 (hall _ _ hy h0)) := by
    intro y
    induction y with
    | zero => intro hy h0 h0'; exact Reachable.refl _
    | succ y ih =>
      intro hy h0 h0'
      refine (ih (by omega) h0 h0').trans (Adj.reachable ?_)
      rw [mkV_adj_iff]; omega
  have all : ∀ v : WSet h w act, ∃ (h0 : 0 < w) (h0' : 0 < h),
      (WG h w act).Reachable (mkV 0 0 h0' h0 (hall _ _ h0' h0)) v := by
    intro v
    obtain ⟨y, x, hy, hx, hwh, rfl⟩ := exists_coords v
    exact ⟨by omega, by omega, (col y hy (by omega) (by omega)).trans (row x y hy hx (by omega))⟩
  intro u v
  obtain ⟨_, _, hu⟩ := all u
  obtain ⟨_, _, hv⟩ := all v
  exact hu.symm.trans hv

/-! ### the induction step -/

/-- make cell `i` white -/
def rem (act : Nat → Bool) (i : Nat) : Nat → Bool := fun v => if v = i then false else act v

theorem idx_inj {w y x y' x' : Nat} (hx : x < w) (hx' : x' < w) (e : y * w + x = y' * w + x') :
    y = y' ∧ x = x' := by
  have h1 := divmod_cell (y := y) hx
  have h2 := divmod_cell (y := y') hx'
  rw [e] at h1
  exact ⟨h1.1.symm.trans h2.1, h1.2.symm.trans h2.2⟩

theorem mkVI_cast {y x : Nat} (hp : WhiteI h w act ((y : Int), (x : Int)))
    (hy : y < h) (hx : x < w) (hwh : act (y * w + x) = false) :
    mkVI ((y : Int), (x : Int)) hp = mkV y x hy hx hwh := by
  apply Subtype.ext
  apply Fin.ext
  simp [mkVI, mkV]

theorem step (hh : 2 ≤ h) (hw : 2 ≤ w) (hNA : NoAdjacentActive (Graph.grid h w) act)
    {p : Int × Int} (hb : BlackI h w act p) (hleaf : Leaf h w act p hb.1)
    (hIH : (WG h w (rem act (idxI w p))).Preconnected) : (WG h w act).Preconnected := by
  obtain ⟨a1, a2, a3, a4⟩ := hb.1
  -- a fixed orthogonal neighbour of `p`
  obtain ⟨q0, hq0, oq0⟩ : ∃ q0, OnB h w q0 ∧ orthI p q0 := by
    by_cases hy : p.1 + 1 < h
    · exact ⟨(p.1 + 1, p.2), by unfold OnB; dsimp only; omega, by unfold orthI; dsimp only; omega⟩
    · exact ⟨(p.1 - 1, p.2), by unfold OnB; dsimp only; omega, by unfold orthI; dsimp only; omega⟩
  have wq0 := white_of_orth hNA hb hq0 oq0
  let g : Nat → Nat → Int × Int := fun y x => if act (y * w + x) = false then ((y : Int), (x : Int)) else q0
  -- cells that are white after the removal but not before are `p`
  have isP : ∀ y x, x < w → rem act (idxI w p) (y * w + x) = false → act (y * w + x) = true →
      (y : Int) = p.1 ∧ (x : Int) = p.2 := by
    intro y x hx h1 h2
    unfold rem at h1
    split at h1
    · rename_i he
      have := idx_inj hx (by omega) he
      omega
    · rw [h2] at h1; cases h1
  have gwhite : ∀ y x, y < h → x < w → WhiteI h w act (g y x) := by
    intro y x hy hx
    simp only [g]
    split
    · rename_i hf
      exact ⟨by unfold OnB; dsimp only; omega, by simpa [idxI] using hf⟩
    · exact wq0
  have key : ∀ y x y' x', y < h → x < w → rem act (idxI w p) (y * w + x) = false →
      y' < h → x' < w → rem act (idxI w p) (y' * w + x') = false →
      ((y = y' ∧ x + 1 = x') ∨ (x = x' ∧ y + 1 = y')) → R h w act (g y x) (g y' x') := by
    intro y x y' x' hy hx hr hy' hx' hr' hstep
    have W1 := gwhite y x hy hx
    have W2 := gwhite y' x' hy' hx'
    cases hA : act (y * w + x) <;> cases hB : act (y' * w + x')
    · simp only [g, hA, hB, if_true] at W1 W2 ⊢
      exact R_adj W1 W2 (by unfold orthI; dsimp only; omega)
    · obtain ⟨e1, e2⟩ := isP y' x' hx' hr' hB
      simp only [g, hA, hB, if_true] at W1 W2 ⊢
      simp only [Bool.true_eq_false, if_false] at W2 ⊢
      exact (around hh hw hNA hb hleaf hq0 W1.1 oq0 (by unfold orthI; dsimp only; omega)).symm
    · obtain ⟨e1, e2⟩ := isP y x hx hr hA
      simp only [g, hA, hB, if_true] at W1 W2 ⊢
      simp only [Bool.true_eq_false, if_false] at W1 ⊢
      exact around hh hw hNA hb hleaf hq0 W2.1 oq0 (by unfold orthI; dsimp only; omega)
    · obtain ⟨e1, e2⟩ := isP y x hx hr hA
      obtain ⟨e3, e4⟩ := isP y' x' hx' hr' hB
      omega
  intro u v
  obtain ⟨y, x, hy, hx, hwh, rfl⟩ := exists_coords u
  obtain ⟨y', x', hy', hx', hwh', rfl⟩ := exists_coords v
  have r1 : rem act (idxI w p) (y * w + x) = false := by unfold rem; split <;> simp [hwh]
  have r2 : rem act (idxI w p) (y' * w + x') = false := by unfold rem; split <;> simp [hwh']
  -- `R` is an equivalence on white cells, so `fun y x => Quot.mk _ (g y x)`-style constancy:
  have hreach := hIH (mkV y x hy hx r1) (mkV y' x' hy' hx' r2)
  -- transport along the walk
  have trans' : ∀ a b : WSet h w (rem act (idxI w p)),
      (WG h w (rem act (idxI w p))).Reachable a b →
      R h w act (g (a.1.1 / w) (a.1.1 % w)) (g (b.1.1 / w) (b.1.1 % w)) := by
    rintro a b ⟨q⟩
    induction q with
    | @nil a =>
      obtain ⟨ya, xa, hya, hxa, hwa, rfl⟩ := exists_coords a
      simp only [mkV, (divmod_cell hxa).1, (divmod_cell hxa).2]
      exact R.refl (gwhite ya xa hya hxa)
    | @cons a b c hadj _ ih =>
      refine R.trans ?_ ih
      obtain ⟨ya, xa, hya, hxa, hwa, rfl⟩ := exists_coords a
      obtain ⟨yb, xb, hyb, hxb, hwb, rfl⟩ := exists_coords b
      rw [mkV_adj_iff] at hadj
      simp only [mkV, (divmod_cell hxa).1, (divmod_cell hxa).2, (divmod_cell hxb).1,
        (divmod_cell hxb).2]
      rcases hadj with ⟨h1, h2 | h2⟩ | ⟨h1, h2 | h2⟩
      · exact key _ _ _ _ hya hxa hwa hyb hxb hwb (Or.inl ⟨h1, h2⟩)
      · exact (key _ _ _ _ hyb hxb hwb hya hxa hwa (Or.inl ⟨h1.symm, h2⟩)).symm
      · exact key _ _ _ _ hya hxa hwa hyb hxb hwb (Or.inr ⟨h1, h2⟩)
      · exact (key _ _ _ _ hyb hxb hwb hya hxa hwa (Or.inr ⟨h1.symm, h2⟩)).symm
  have hR := trans' _ _ hreach
  simp only [mkV, (divmod_cell hx).1, (divmod_cell hx).2, (divmod_cell hx').1,
    (divmod_cell hx').2, g, hwh, hwh', if_true] at hR
  obtain ⟨hp1, hp2, hr⟩ := hR
  rw [mkVI_cast hp1 hy hx hwh, mkVI_cast hp2 hy' hx' hwh'] at hr
  exact hr

/-! ### the induction -/

def blacks (h w : Nat) (act : Nat → Bool) : Finset (Fin h × Fin w) :=
  Finset.univ.filter fun c => act (c.1.1 * w + c.2.1) = true

theorem rem_le {i v : Nat} (hv : rem act i v = true) : act v = true := by
  unfold rem at hv
  split at hv
  · cases hv
  · exact hv

theorem rem_noAdj (hNA : NoAdjacentActive (Graph.grid h w) act) (i : Nat) :
    NoAdjacentActive (Graph.grid h w) (rem act i) :=
  fun e he hc => hNA e he ⟨rem_le hc.1, rem_le hc.2⟩

theorem rem_forest (hF : DiagForest h w act) (i : Nat) : DiagForest h w (rem act i) := by
  refine IsAcyclic.anti ?_ hF
  intro a b hab
  match a, b, hab with
  | some c, some d, hab => exact ⟨rem_le hab.1, rem_le hab.2.1, hab.2.2⟩
  | some c, none, hab => exact ⟨rem_le hab.1, hab.2⟩
  | none, some d, hab => exact ⟨rem_le hab.1, hab.2⟩

theorem rem_card (c : Fin h × Fin w) (hc : act (c.1.1 * w + c.2.1) = true) :
    (blacks h w (rem act (c.1.1 * w + c.2.1))).card < (blacks h w act).card := by
  apply Finset.card_lt_card
  rw [Finset.ssubset_iff_of_subset]
  · refine ⟨c, by simp [blacks, hc], by simp [blacks, rem]⟩
  · intro d hd
    simp only [blacks, Finset.mem_filter, Finset.mem_univ, true_and] at hd ⊢
    exact rem_le hd

theorem connected_of_forest_aux (hh : 2 ≤ h) (hw : 2 ≤ w) : ∀ (n : Nat) (act : Nat → Bool),
    (blacks h w act).card = n → NoAdjacentActive (Graph.grid h w) act → DiagForest h w act →
    (WG h w act).Preconnected := by
  intro n
  induction n using Nat.strong_induction_on with
  | _ n ih =>
    intro act hn hNA hF
    by_cases hex : ∃ c0 : Fin h × Fin w, act (c0.1.1 * w + c0.2.1) = true
    · obtain ⟨c0, h0⟩ := hex
      obtain ⟨c, hc, hleaf⟩ := exists_leaf hF c0 h0
      have hon : OnB h w ((c.1.1 : Int), (c.2.1 : Int)) := by
        have := c.1.2; have := c.2.2
        unfold OnB; dsimp only; omega
      have hidx : idxI w ((c.1.1 : Int), (c.2.1 : Int)) = c.1.1 * w + c.2.1 := by simp [idxI]
      have hb : BlackI h w act ((c.1.1 : Int), (c.2.1 : Int)) := ⟨hon, by rw [hidx]; exact hc⟩
      have hmk : mkC ((c.1.1 : Int), (c.2.1 : Int)) hon = c := by
        apply Prod.ext <;> apply Fin.ext <;> simp [mkC]
      refine step hh hw hNA hb ?_ ?_
      · unfold Leaf; rw [hmk]; exact hleaf
      · rw [hidx]
        exact ih _ (by rw [← hn]; exact rem_card c hc) _ rfl (rem_noAdj hNA _) (rem_forest hF _)
    · apply all_white_connected
      intro y x hy hx
      cases hact : act (y * w + x) with
      | false => rfl
      | true => exact absurd ⟨(⟨y, hy⟩, ⟨x, hx⟩), hact⟩ hex

/-- if the diagonal graph has no cycle, the white cells are connected -/
theorem connected_of_forest (hh : 2 ≤ h) (hw : 2 ≤ w)
    (hNA : NoAdjacentActive (Graph.grid h w) act) (hF : DiagForest h w act) :
    ActiveConnected (Graph.grid h w) (fun v => !act v) :=
  connected_of_forest_aux hh hw _ act rfl hNA hF

end Cspuz.Proofs.C08PlanarEasy
