/-
  C11 / Nurimisaki, part B — typing / locality and the meaning of the constraints of the closed form.
-/
import CspuzModel.Proofs.C11NurimisakiA
namespace Cspuz.Proofs.C11NurimisakiB
open Cspuz Cspuz.Spec Cspuz.Puzzles Cspuz.Puzzles.Nurimisaki Cspuz.Spec.Nurimisaki Cspuz.Proofs
open Cspuz.Proofs.C11NurimisakiA

/-! ### typing and locality -/

/-- Well-typed Boolean tree over the cell variables only. -/
def Good (b : Nat) (e : Expr) : Prop := wtB e = true ∧ e.varsBelow b = true

theorem good_cv {h w y x : Nat} (hy : y < h) (hx : x < w) : Good (h * w) (cv w y x) := by
  refine ⟨rfl, ?_⟩
  simp only [cv, Expr.varsBelow, decide_eq_true_eq]
  exact C11Grid.cell_lt hy hx

theorem good_node_bool {b : Nat} (op : Op) (hop : op = .and ∨ op = .or) (l : List Expr)
    (hl : ∀ e ∈ l, Good b e) : Good b (.node op l) := by
  refine ⟨?_, (C11FragWT.varsBelow_node _ _ _).2 fun e he => (hl e he).2⟩
  rcases hop with rfl | rfl <;>
    simp only [wtB] <;> exact (C11FragWT.wtBs_iff _).2 fun e he => (hl e he).1

theorem good_not {b : Nat} {e : Expr} (he : Good b e) : Good b (.node .not [e]) := by
  refine ⟨?_, (C11FragWT.varsBelow_node _ _ _).2 (by simpa using he.2)⟩
  simp [wtB, wtBs, he.1]

theorem good_pair {b : Nat} (op : Op) (hop : op = .and ∨ op = .or) {e1 e2 : Expr} (h1 : Good b e1) (h2 : Good b e2) :
    Good b (.node op [e1, e2]) :=
  good_node_bool op hop _ (by
    intro e he
    simp only [List.mem_cons, List.not_mem_nil, or_false] at he
    rcases he with rfl | rfl <;> assumption)

theorem good_andE {b : Nat} (l : List Expr) (hl : ∀ e ∈ l, Good b e) : Good b (andE l) := by
  unfold andE
  split
  · exact ⟨rfl, rfl⟩
  · exact good_node_bool .and (Or.inl rfl) l hl

theorem good_orE {b : Nat} (l : List Expr) (hl : ∀ e ∈ l, Good b e) : Good b (orE l) := by
  unfold orE
  split
  · exact ⟨rfl, rfl⟩
  · exact good_node_bool .or (Or.inr rfl) l hl

theorem mem_blocks {h w : Nat} {c : Expr} :
    c ∈ blocks h w ↔ ∃ y x, y + 1 < h ∧ x + 1 < w ∧ (c = orBlock w y x ∨ c = nandBlock w y x) := by
  simp only [blocks, List.mem_append, List.mem_map, List.mem_range]
  constructor
  · rintro (⟨i, hi, rfl⟩ | ⟨i, hi, rfl⟩)
    · obtain ⟨h1, h2⟩ := C11Grid.div_lt_of_lt_mul hi
      exact ⟨_, _, Nat.add_lt_of_lt_sub h1, Nat.add_lt_of_lt_sub h2, Or.inl rfl⟩
    · obtain ⟨h1, h2⟩ := C11Grid.div_lt_of_lt_mul hi
      exact ⟨_, _, Nat.add_lt_of_lt_sub h1, Nat.add_lt_of_lt_sub h2, Or.inr rfl⟩
  · rintro ⟨y, x, hy, hx, rfl | rfl⟩
    · refine Or.inl ⟨y * (w - 1) + x, C11Grid.cell_lt (by omega) (by omega), ?_⟩
      have := C11Grid.cell_div_mod (w := w - 1) (y := y) (x := x) (by omega)
      rw [this.1, this.2]
    · refine Or.inr ⟨y * (w - 1) + x, C11Grid.cell_lt (by omega) (by omega), ?_⟩
      have := C11Grid.cell_div_mod (w := w - 1) (y := y) (x := x) (by omega)
      rw [this.1, this.2]

theorem good_blocks {h w : Nat} : ∀ c ∈ blocks h w, Good (h * w) c := by
  intro c hc
  obtain ⟨y, x, hy, hx, rfl | rfl⟩ := mem_blocks.1 hc
  · exact good_pair .or (Or.inr rfl) (good_pair .or (Or.inr rfl) (good_pair .or (Or.inr rfl)
      (good_cv (by omega) (by omega)) (good_cv hy (by omega))) (good_cv (by omega) hx)) (good_cv hy hx)
  · exact good_not (good_pair .and (Or.inl rfl) (good_pair .and (Or.inl rfl) (good_pair .and (Or.inl rfl)
      (good_cv (by omega) (by omega)) (good_cv hy (by omega))) (good_cv (by omega) hx)) (good_cv hy hx))

theorem good_dirCands {b : Nat} (edge inside : Prop) [Decidable edge] [Decidable inside] (run : List Expr)
    (stop : Expr) (hrun : edge ∨ inside → ∀ e ∈ run, Good b e) (hstop : ¬ edge → inside → Good b stop) :
    ∀ e ∈ dirCands edge inside run stop, Good b e := by
  intro e he
  unfold dirCands at he
  split at he
  · next h1 =>
    simp only [List.mem_singleton] at he; subst he
    exact good_andE _ (hrun (Or.inl h1))
  · next h1 =>
    split at he
    · next h2 =>
      simp only [List.mem_singleton] at he; subst he
      apply good_andE
      intro e he
      rcases List.mem_append.1 he with h | h
      · exact hrun (Or.inr h2) e h
      · simp only [List.mem_singleton] at h; subst h; exact good_not (hstop h1 h2)
    · simp at he

theorem good_run {h w n : Nat} (F G : Nat → Nat) (hF : ∀ j, j < n → F j < h) (hG : ∀ j, j < n → G j < w) :
    ∀ e ∈ (List.range n).map (fun j => cv w (F j) (G j)), Good (h * w) e := by
  intro e he
  simp only [List.mem_map, List.mem_range] at he
  obtain ⟨j, hj, rfl⟩ := he
  exact good_cv (hF j hj) (hG j hj)

theorem good_cands {h w y x m : Nat} (hy : y < h) (hx : x < w) (hm : 1 ≤ m) :
    ∀ e ∈ cands h w y x m, Good (h * w) e := by
  intro e he
  simp only [cands, List.mem_append] at he
  rcases he with ((he | he) | he) | he
  · exact good_dirCands _ _ _ _ (fun hc => good_run _ _ (by intro j hj; omega) (fun _ _ => hx))
      (fun _ hi => good_cv (by omega) hx) e he
  · exact good_dirCands _ _ _ _ (fun hc => good_run _ _ (by intro j hj; omega) (fun _ _ => hx))
      (fun _ hi => good_cv (by omega) hx) e he
  · exact good_dirCands _ _ _ _ (fun hc => good_run _ _ (fun _ _ => hy) (by intro j hj; omega))
      (fun _ hi => good_cv hy (by omega)) e he
  · exact good_dirCands _ _ _ _ (fun hc => good_run _ _ (fun _ _ => hy) (by intro j hj; omega))
      (fun _ hi => good_cv hy (by omega)) e he

theorem nbE_facts {h w y x : Nat} : ∀ e ∈ nbE h w y x, wtB e = true ∧ e.varsBelow (h * w) = true := by
  intro e he
  simp only [nbE, List.mem_map] at he
  obtain ⟨p, hp, rfl⟩ := he
  obtain ⟨h1, h2, h3, h4⟩ := C12Conv.mem_neighbours hp
  refine ⟨rfl, ?_⟩
  simp only [Expr.varsBelow, decide_eq_true_eq]
  exact C11Grid.cell_lt (by omega) (by omega)

theorem good_cmp_count {h w y x : Nat} (op : Op) (hop : op.isCmp = true) (v : Int) :
    Good (h * w) (.node op [countTrueE (nbE h w y x), .litI v]) :=
  ⟨C11FragWT.wtB_cmp_countTrueE op hop _ v (fun e he => (nbE_facts e he).1),
    C11FragWT.varsBelow_cmp_countTrueE _ op _ v (fun e he => (nbE_facts e he).2)⟩

theorem good_cellE {pb : Problem} (hwf : WellFormed pb) {y x : Nat} (hy : y < pb.height) (hx : x < pb.width) :
    ∀ c ∈ cellE pb y x, Good (pb.height * pb.width) c := by
  intro c hc
  have hvc := val_cases hwf hy hx
  unfold cellE at hc
  split at hc
  · simp only [List.mem_singleton] at hc; subst hc
    have h1 := good_cv (h := pb.height) hy hx
    have h2 := good_cmp_count (h := pb.height) (w := pb.width) (y := y) (x := x) .ne rfl 1
    generalize Expr.node Op.ne [countTrueE (nbE pb.height pb.width y x), Expr.litI 1] = e2 at h2 ⊢
    refine ⟨?_, (C11FragWT.varsBelow_node _ _ _).2 ?_⟩
    · simp [wtB, wtBs, h1.1, h2.1]
    · intro e he
      simp only [List.mem_cons, List.not_mem_nil, or_false] at he
      rcases he with rfl | rfl
      · exact h1.2
      · exact h2.2
  · next hv1 =>
    simp only [List.cons_append, List.nil_append, List.mem_cons] at hc
    rcases hc with rfl | rfl | hc
    · exact good_cv hy hx
    · exact good_cmp_count .eq rfl 1
    · split at hc
      · simp at hc
      · next hv0 =>
        simp only [List.mem_singleton] at hc; subst hc
        exact good_orE _ (good_cands hy hx (by omega))

end Cspuz.Proofs.C11NurimisakiB
