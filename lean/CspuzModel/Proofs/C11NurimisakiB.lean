/-
  C11 / Nurimisaki, part B — typing / locality and the meaning of the constraints of the closed form.
-/
import CspuzModel.Proofs.C11NurimisakiA
namespace Cspuz.Proofs.C11NurimisakiB
open Cspuz Cspuz.Spec Cspuz.Puzzles Cspuz.Puzzles.Nurimisaki Cspuz.Spec.Nurimisaki Cspuz.Proofs
open Cspuz.Proofs.C11NurimisakiA

/-! ### typing and locality -/

/-- Well-typed Boolean tree over the cell variables only. -/
def Good (b : Nat) (e : Expr) : Prop := wtB e = true ∧ e.varsBelow b = true

theorem good_cv {h w y x : Nat} (hy : y < h) (hx : x < w) : Good (h * w) (cv w y x) := by
  refine ⟨rfl, ?_⟩
  simp only [cv, Expr.varsBelow, decide_eq_true_eq]
  exact C11Grid.cell_lt hy hx

theorem good_node_bool {b : Nat} (op : Op) (hop : op = .and ∨ op = .or) (l : List Expr)
    (hl : ∀ e ∈ l, Good b e) : Good b (.node op l) := by
  refine ⟨?_, (C11FragWT.varsBelow_node _ _ _).2 fun e he => (hl e he).2⟩
  rcases hop with rfl | rfl <;>
    simp only [wtB] <;> exact (C11FragWT.wtBs_iff _).2 fun e he => (hl e he).1

theorem good_not {b : Nat} {e : Expr} (he : Good b e) : Good b (.node .not [e]) := by
  refine ⟨?_, (C11FragWT.varsBelow_node _ _ _).2 (by simpa using he.2)⟩
  simp [wtB, wtBs, he.1]

theorem good_pair {b : Nat} (op : Op) (hop : op = .and ∨ op = .or) {e1 e2 : Expr} (h1 : Good b e1) (h2 : Good b e2) :
    Good b (.node op [e1, e2]) :=
  good_node_bool op hop _ (by
    intro e he
    simp only [List.mem_cons, List.not_mem_nil, or_false] at he
    rcases he with rfl | rfl <;> assumption)

theorem good_andE {b : Nat} (l : List Expr) (hl : ∀ e ∈ l, Good b e) : Good b (andE l) := by
  unfold andE
  split
  · exact ⟨rfl, rfl⟩
  · exact good_node_bool .and (Or.inl rfl) l hl

theorem good_orE {b : Nat} (l : List Expr) (hl : ∀ e ∈ l, Good b e) : Good b (orE l) := by
  unfold orE
  split
  · exact ⟨rfl, rfl⟩
  · exact good_node_bool .or (Or.inr rfl) l hl

theorem mem_blocks {h w : Nat} {c : Expr} :
    c ∈ blocks h w ↔ ∃ y x, y + 1 < h ∧ x + 1 < w ∧ (c = orBlock w y x ∨ c = nandBlock w y x) := by
  simp only [blocks, List.mem_append, List.mem_map, List.mem_range]
  constructor
  · rintro (⟨i, hi, rfl⟩ | ⟨i, hi, rfl⟩)
    · obtain ⟨h1, h2⟩ := C11Grid.div_lt_of_lt_mul hi
      exact ⟨_, _, Nat.add_lt_of_lt_sub h1, Nat.add_lt_of_lt_sub h2, Or.inl rfl⟩
    · obtain ⟨h1, h2⟩ := C11Grid.div_lt_of_lt_mul hi
      exact ⟨_, _, Nat.add_lt_of_lt_sub h1, Nat.add_lt_of_lt_sub h2, Or.inr rfl⟩
  · rintro ⟨y, x, hy, hx, rfl | rfl⟩
    · refine Or.inl ⟨y * (w - 1) + x, C11Grid.cell_lt (by omega) (by omega), ?_⟩
      have := C11Grid.cell_div_mod (w := w - 1) (y := y) (x := x) (by omega)
      rw [this.1, this.2]
    · refine Or.inr ⟨y * (w - 1) + x, C11Grid.cell_lt (by omega) (by omega), ?_⟩
      have := C11Grid.cell_div_mod (w := w - 1) (y := y) (x := x) (by omega)
      rw [this.1, this.2]

theorem good_blocks {h w : Nat} : ∀ c ∈ blocks h w, Good (h * w) c := by
  intro c hc
  obtain ⟨y, x, hy, hx, rfl | rfl⟩ := mem_blocks.1 hc
  · exact good_pair .or (Or.inr rfl) (good_pair .or (Or.inr rfl) (good_pair .or (Or.inr rfl)
      (good_cv (by omega) (by omega)) (good_cv hy (by omega))) (good_cv (by omega) hx)) (good_cv hy hx)
  · exact good_not (good_pair .and (Or.inl rfl) (good_pair .and (Or.inl rfl) (good_pair .and (Or.inl rfl)
      (good_cv (by omega) (by omega)) (good_cv hy (by omega))) (good_cv (by omega) hx)) (good_cv hy hx))

theorem good_dirCands {b : Nat} (edge inside : Prop) [Decidable edge] [Decidable inside] (run : List Expr)
    (stop : Expr) (hrun : edge ∨ inside → ∀ e ∈ run, Good b e) (hstop : ¬ edge → inside → Good b stop) :
    ∀ e ∈ dirCands edge inside run stop, Good b e := by
  intro e he
  unfold dirCands at he
  split at he
  · next h1 =>
    simp only [List.mem_singleton] at he; subst he
    exact good_andE _ (hrun (Or.inl h1))
  · next h1 =>
    split at he
    · next h2 =>
      simp only [List.mem_singleton] at he; subst he
      apply good_andE
      intro e he
      rcases List.mem_append.1 he with h | h
      · exact hrun (Or.inr h2) e h
      · simp only [List.mem_singleton] at h; subst h; exact good_not (hstop h1 h2)
    · simp at he

theorem good_run {h w n : Nat} (F G : Nat → Nat) (hF : ∀ j, j < n → F j < h) (hG : ∀ j, j < n → G j < w) :
    ∀ e ∈ (List.range n).map (fun j => cv w (F j) (G j)), Good (h * w) e := by
  intro e he
  simp only [List.mem_map, List.mem_range] at he
  obtain ⟨j, hj, rfl⟩ := he
  exact good_cv (hF j hj) (hG j hj)

theorem good_cands {h w y x m : Nat} (hy : y < h) (hx : x < w) (hm : 1 ≤ m) :
    ∀ e ∈ cands h w y x m, Good (h * w) e := by
  intro e he
  simp only [cands, List.mem_append] at he
  rcases he with ((he | he) | he) | he
  · exact good_dirCands _ _ _ _ (fun hc => good_run _ _ (by intro j hj; omega) (fun _ _ => hx))
      (fun _ hi => good_cv (by omega) hx) e he
  · exact good_dirCands _ _ _ _ (fun hc => good_run _ _ (by intro j hj; omega) (fun _ _ => hx))
      (fun _ hi => good_cv (by omega) hx) e he
  · exact good_dirCands _ _ _ _ (fun hc => good_run _ _ (fun _ _ => hy) (by intro j hj; omega))
      (fun _ hi => good_cv hy (by omega)) e he
  · exact good_dirCands _ _ _ _ (fun hc => good_run _ _ (fun _ _ => hy) (by intro j hj; omega))
      (fun _ hi => good_cv hy (by omega)) e he

theorem nbE_facts {h w y x : Nat} : ∀ e ∈ nbE h w y x, wtB e = true ∧ e.varsBelow (h * w) = true := by
  intro e he
  simp only [nbE, List.mem_map] at he
  obtain ⟨p, hp, rfl⟩ := he
  obtain ⟨h1, h2, h3, h4⟩ := C12Conv.mem_neighbours hp
  refine ⟨rfl, ?_⟩
  simp only [Expr.varsBelow, decide_eq_true_eq]
  exact C11Grid.cell_lt (by omega) (by omega)

theorem good_cmp_count {h w y x : Nat} (op : Op) (hop : op.isCmp = true) (v : Int) :
    Good (h * w) (.node op [countTrueE (nbE h w y x), .litI v]) :=
  ⟨C11FragWT.wtB_cmp_countTrueE op hop _ v (fun e he => (nbE_facts e he).1),
    C11FragWT.varsBelow_cmp_countTrueE _ op _ v (fun e he => (nbE_facts e he).2)⟩

theorem good_cellE {pb : Problem} (hwf : WellFormed pb) {y x : Nat} (hy : y < pb.height) (hx : x < pb.width) :
    ∀ c ∈ cellE pb y x, Good (pb.height * pb.width) c := by
  intro c hc
  have hvc := val_cases hwf hy hx
  unfold cellE at hc
  split at hc
  · simp only [List.mem_singleton] at hc; subst hc
    have h1 := good_cv (h := pb.height) hy hx
    have h2 := good_cmp_count (h := pb.height) (w := pb.width) (y := y) (x := x) .ne rfl 1
    generalize Expr.node Op.ne [countTrueE (nbE pb.height pb.width y x), Expr.litI 1] = e2 at h2 ⊢
    refine ⟨?_, (C11FragWT.varsBelow_node _ _ _).2 ?_⟩
    · simp [wtB, wtBs, h1.1, h2.1]
    · intro e he
      simp only [List.mem_cons, List.not_mem_nil, or_false] at he
      rcases he with rfl | rfl
      · exact h1.2
      · exact h2.2
  · next hv1 =>
    simp only [List.cons_append, List.nil_append, List.mem_cons] at hc
    rcases hc with rfl | rfl | hc
    · exact good_cv hy hx
    · exact good_cmp_count .eq rfl 1
    · split at hc
      · simp at hc
      · next hv0 =>
        simp only [List.mem_singleton] at hc; subst hc
        exact good_orE _ (good_cands hy hx (by omega))

/-! ### generic evaluation facts -/

theorem eval_and_iff (σ : Asg) (l : List Expr) (hl : ∀ e ∈ l, wtB e = true) :
    eval σ (.node .and l) = some (.b true) ↔ ∀ e ∈ l, eval σ e = some (.b true) := by
  have hmap : l.map (eval σ)
      = (l.map fun e => decide (eval σ e = some (.b true))).map fun b => some (.b b) := by
    rw [List.map_map]
    apply List.map_congr_left
    intro e he
    obtain ⟨b, hb⟩ := wtB_eval σ e (hl e he)
    cases b <;> simp [hb]
  rw [eval_node, hmap, evalOp_and]
  simp [List.all_eq_true]

theorem eval_or_iff (σ : Asg) (l : List Expr) (hl : ∀ e ∈ l, wtB e = true) :
    eval σ (.node .or l) = some (.b true) ↔ ∃ e ∈ l, eval σ e = some (.b true) := by
  have hmap : l.map (eval σ)
      = (l.map fun e => decide (eval σ e = some (.b true))).map fun b => some (.b b) := by
    rw [List.map_map]
    apply List.map_congr_left
    intro e he
    obtain ⟨b, hb⟩ := wtB_eval σ e (hl e he)
    cases b <;> simp [hb]
  rw [eval_node, hmap, evalOp_or]
  simp [List.any_eq_true]

theorem eval_andE_iff (σ : Asg) (l : List Expr) (hl : ∀ e ∈ l, wtB e = true) :
    eval σ (andE l) = some (.b true) ↔ ∀ e ∈ l, eval σ e = some (.b true) := by
  unfold andE
  split
  · next h =>
    have : l = [] := by simpa using h
    subst this
    simp [evalOp]
  · exact eval_and_iff σ l hl

theorem eval_orE_iff (σ : Asg) (l : List Expr) (hl : ∀ e ∈ l, wtB e = true) :
    eval σ (orE l) = some (.b true) ↔ ∃ e ∈ l, eval σ e = some (.b true) := by
  unfold orE
  split
  · next h =>
    have : l = [] := by simpa using h
    subst this
    simp [evalOp]
  · exact eval_or_iff σ l hl

theorem eval_or2 {σ : Asg} {a b : Expr} {x y : Bool}
    (ha : eval σ a = some (.b x)) (hb : eval σ b = some (.b y)) :
    eval σ (.node .or [a, b]) = some (.b (x || y)) := by
  simp [ha, hb, evalOp, allBools]

theorem dirCands_sem (σ : Asg) (edge inside : Prop) [Decidable edge] [Decidable inside] (run : List Expr) (s : Nat)
    (hrun : ∀ e ∈ run, wtB e = true) :
    (∃ c ∈ dirCands edge inside run (.bvar s), eval σ c = some (.b true)) ↔
      (edge ∨ inside) ∧ (∀ e ∈ run, eval σ e = some (.b true)) ∧ (¬ edge → σ.b s = false) := by
  unfold dirCands
  by_cases he : edge
  · simp [he, eval_andE_iff σ run hrun]
  · by_cases hi : inside
    · have hw : ∀ e ∈ run ++ [Expr.node .not [Expr.bvar s]], wtB e = true := by
        intro e he'
        rcases List.mem_append.1 he' with h | h
        · exact hrun e h
        · simp only [List.mem_singleton] at h; subst h; rfl
      simp only [he, hi, if_true, if_false, List.mem_singleton, exists_eq_left, eval_andE_iff σ _ hw,
        or_true, true_and, not_false_eq_true, forall_const]
      constructor
      · intro h
        refine ⟨fun e he' => h e (List.mem_append.2 (Or.inl he')), ?_⟩
        have := h _ (List.mem_append.2 (Or.inr (List.mem_singleton.2 rfl)))
        rw [eval_not (eval_bvar σ s)] at this
        simpa using this
      · rintro ⟨h1, h2⟩ e he'
        rcases List.mem_append.1 he' with h | h
        · exact h1 e h
        · simp only [List.mem_singleton] at h; subst h
          rw [eval_not (eval_bvar σ s), h2]; rfl
    · simp [he, hi]

/-! ### meaning of the constraints on a grid -/

section sem
variable {pb : Problem} (σ : Asg) (g : Nat → Nat → Bool)
  (hg : ∀ y, y < pb.height → ∀ x, x < pb.width → g y x = σ.b (y * pb.width + x))
include hg

theorem eval_cv {y x : Nat} (hy : y < pb.height) (hx : x < pb.width) :
    eval σ (cv pb.width y x) = some (.b (g y x)) := by
  rw [cv, eval_bvar, hg y hy x hx]

theorem blocks_sem {y x : Nat} (hy : y + 1 < pb.height) (hx : x + 1 < pb.width) :
    (eval σ (orBlock pb.width y x) = some (.b true) ∧ eval σ (nandBlock pb.width y x) = some (.b true)) ↔
      (¬ (g y x = true ∧ g (y + 1) x = true ∧ g y (x + 1) = true ∧ g (y + 1) (x + 1) = true) ∧
       ¬ (g y x = false ∧ g (y + 1) x = false ∧ g y (x + 1) = false ∧ g (y + 1) (x + 1) = false)) := by
  have c00 := eval_cv σ g hg (y := y) (x := x) (by omega) (by omega)
  have c10 := eval_cv σ g hg (y := y + 1) (x := x) hy (by omega)
  have c01 := eval_cv σ g hg (y := y) (x := x + 1) (by omega) hx
  have c11 := eval_cv σ g hg (y := y + 1) (x := x + 1) hy hx
  have e1 := eval_or2 (eval_or2 (eval_or2 c00 c10) c01) c11
  have e2 := eval_not (eval_and2 (eval_and2 (eval_and2 c00 c10) c01) c11)
  rw [orBlock, nandBlock, e1, e2]
  cases g y x <;> cases g (y + 1) x <;> cases g y (x + 1) <;> cases g (y + 1) (x + 1) <;> simp

theorem nb_count {y x : Nat} (hy : y < pb.height) (hx : x < pb.width) :
    ((neighbours pb.height pb.width (y : Int) (x : Int)).filter
      fun p => σ.b (p.1.toNat * pb.width + p.2.toNat)).length = whiteNbrs pb g y x := by
  have hnb : ((neighbours pb.height pb.width (y : Int) (x : Int)).filter
        fun p => σ.b (p.1.toNat * pb.width + p.2.toNat))
      = (neighbours pb.height pb.width (y : Int) (x : Int)).filter fun p => g p.1.toNat p.2.toNat := by
    apply List.filter_congr
    intro p hp
    obtain ⟨h1, h2, h3, h4⟩ := C12Conv.mem_neighbours hp
    rw [hg _ (by omega) _ (by omega)]
  rw [hnb]
  have c1 : decide (0 ≤ (y : Int) - 1 ∧ (y : Int) - 1 < (pb.height : Int) ∧ 0 ≤ (x : Int) ∧ (x : Int) < (pb.width : Int))
      = decide (0 < y) := decide_eq_decide.2 (by omega)
  have c2 : decide (0 ≤ (y : Int) + 1 ∧ (y : Int) + 1 < (pb.height : Int) ∧ 0 ≤ (x : Int) ∧ (x : Int) < (pb.width : Int))
      = decide (y + 1 < pb.height) := decide_eq_decide.2 (by omega)
  have c3 : decide (0 ≤ (y : Int) ∧ (y : Int) < (pb.height : Int) ∧ 0 ≤ (x : Int) - 1 ∧ (x : Int) - 1 < (pb.width : Int))
      = decide (0 < x) := decide_eq_decide.2 (by omega)
  have c4 : decide (0 ≤ (y : Int) ∧ (y : Int) < (pb.height : Int) ∧ 0 ≤ (x : Int) + 1 ∧ (x : Int) + 1 < (pb.width : Int))
      = decide (x + 1 < pb.width) := decide_eq_decide.2 (by omega)
  have t1 : ((y : Int) - 1).toNat = y - 1 := by omega
  have t2 : ((y : Int) + 1).toNat = y + 1 := by omega
  have t3 : ((x : Int) - 1).toNat = x - 1 := by omega
  have t4 : ((x : Int) + 1).toNat = x + 1 := by omega
  unfold neighbours whiteNbrs
  simp only [List.filter_cons, List.filter_nil, c1, c2, c3, c4]
  by_cases h1 : 0 < y <;> by_cases h2 : y + 1 < pb.height <;> by_cases h3 : 0 < x <;>
    by_cases h4 : x + 1 < pb.width <;>
    simp only [h1, h2, h3, h4, decide_true, decide_false, if_true, if_false, Bool.false_eq_true,
      List.filter_cons, List.filter_nil, t1, t2, t3, t4, Int.toNat_natCast, true_and, false_and] <;>
    cases g (y - 1) x <;> cases g (y + 1) x <;> cases g y (x - 1) <;> cases g y (x + 1) <;> rfl

theorem eval_count {y x : Nat} (hy : y < pb.height) (hx : x < pb.width) :
    eval σ (countTrueE (nbE pb.height pb.width y x)) = some (.i (whiteNbrs pb g y x : Nat)) := by
  unfold nbE
  rw [C11Norinori.eval_count_bvars σ (neighbours pb.height pb.width (y : Int) (x : Int))
    (fun p : Int × Int => p.1.toNat * pb.width + p.2.toNat), nb_count σ g hg hy hx]

end sem

end Cspuz.Proofs.C11NurimisakiB

