/-
  C11 / LITS, part T — the meaning of the constraints of one region, in the vocabulary of the rules: the list
  `L` of shaded cells of the region, its adjacency counts (`C11LitsG`), its code, and the spec's set
  `shadedIn g b`.
-/
import CspuzModel.Proofs.C11LitsS
import CspuzModel.Proofs.C11LitsG
import CspuzModel.Proofs.C11LitsShape
namespace Cspuz.Proofs.C11LitsT
open Cspuz Cspuz.Spec Cspuz.Puzzles Cspuz.Puzzles.Lits Cspuz.Spec.Lits Cspuz.Proofs
open Cspuz.Proofs.C11LitsA Cspuz.Proofs.C11LitsP Cspuz.Proofs.C11LitsS Cspuz.Proofs.C11LitsG

/-! ### list lemmas -/

theorem length_eq_of_mem_iff {α : Type} {l1 l2 : List α} (h1 : l1.Nodup) (h2 : l2.Nodup)
    (h : ∀ x, x ∈ l1 ↔ x ∈ l2) : l1.length = l2.length :=
  ((List.perm_ext_iff_of_nodup h1 h2).2 h).length_eq

theorem length_filter_flatMap {α β : Type} (f : α → List β) (P : β → Bool) : ∀ l : List α,
    ((l.flatMap f).filter P).length = (l.map fun a => ((f a).filter P).length).sum
  | [] => rfl
  | a :: r => by
    simp only [List.flatMap_cons, List.filter_append, List.length_append, List.map_cons, List.sum_cons,
      length_filter_flatMap f P r]

theorem sum_map_ite_filter {α : Type} (c : α → Bool) (F : α → Nat) : ∀ l : List α,
    (l.map fun a => if c a = true then F a else 0).sum = ((l.filter c).map F).sum
  | [] => rfl
  | a :: r => by
    by_cases h : c a = true
    · rw [List.filter_cons_of_pos h]
      simp only [List.map_cons, List.sum_cons, h, if_true, sum_map_ite_filter c F r]
    · rw [List.filter_cons_of_neg h]
      simp only [List.map_cons, List.sum_cons, h, if_false, Bool.false_eq_true, sum_map_ite_filter c F r]
      omega

theorem sum_map_congr {α : Type} (F G : α → Nat) : ∀ l : List α, (∀ a ∈ l, F a = G a) →
    (l.map F).sum = (l.map G).sum
  | [], _ => rfl
  | a :: r, h => by
    simp only [List.map_cons, List.sum_cons, h a (by simp), sum_map_congr F G r (fun x hx => h x (by simp [hx]))]

/-! ### one region -/

section Region
variable {pb : Problem} (hwf : WellFormed pb) {i : Nat} {b : List (Int × Int)} (hb : pb.blocks[i]? = some b)
  (σ : Asg)
include hwf hb

/-- The shaded cells of the region, as a list. -/
def shL (pb : Problem) (σ : Asg) (b : List (Int × Int)) : List (Nat × Nat) := (cellsN b).filter (sh pb σ)

theorem cellsN_nodup' : (cellsN b).Nodup :=
  cellsN_nodup (wf_onBoard hwf (List.mem_of_getElem? hb)) (blocks_nodup hwf (List.mem_of_getElem? hb))

theorem shL_nodup : (shL pb σ b).Nodup := (cellsN_nodup' hwf hb).filter _

theorem mem_shL {p : Nat × Nat} : p ∈ shL pb σ b ↔ (OnB pb p ∧ regionIdx pb p = i) ∧ sh pb σ p = true := by
  unfold shL
  rw [List.mem_filter, mem_cellsN_iff hwf hb]

omit hwf hb in
theorem mem_sameN {p q : Nat × Nat} (hp : OnB pb p) :
    q ∈ sameN pb i p ↔ cellGraph.Adj p q ∧ OnB pb q ∧ regionIdx pb q = i := by
  unfold sameN
  rw [List.mem_filter, mem_nbN hp]
  simp only [OnB, beq_iff_eq, and_assoc]

omit hwf hb in
theorem sameN_nodup (p : Nat × Nat) : (sameN pb i p).Nodup := (nbN_nodup _ _ p).filter _

/-- The neighbour condition. -/
theorem nbr_iff {p : Nat × Nat} (hp : OnB pb p) :
    (sameN pb i p).any (sh pb σ) = true ↔ ∃ q ∈ shL pb σ b, cellGraph.Adj p q := by
  rw [List.any_eq_true]
  constructor
  · rintro ⟨q, hq, hs⟩
    obtain ⟨hadj, hon, hr⟩ := (mem_sameN hp).1 hq
    exact ⟨q, (mem_shL hwf hb σ).2 ⟨⟨hon, hr⟩, hs⟩, hadj⟩
  · rintro ⟨q, hq, hadj⟩
    obtain ⟨⟨hon, hr⟩, hs⟩ := (mem_shL hwf hb σ).1 hq
    exact ⟨q, (mem_sameN hp).2 ⟨hadj, hon, hr⟩, hs⟩

theorem nbrs_iff :
    (∀ p ∈ cellsN b, sh pb σ p = true → (sameN pb i p).any (sh pb σ) = true) ↔
      ∀ p ∈ shL pb σ b, ∃ q ∈ shL pb σ b, cellGraph.Adj p q := by
  constructor
  · intro h p hp
    have hp' := List.mem_filter.1 hp
    have hon := ((mem_cellsN_iff hwf hb).1 hp'.1).1
    exact (nbr_iff hwf hb σ hon).1 (h p hp'.1 hp'.2)
  · intro h p hp hs
    have hon := ((mem_cellsN_iff hwf hb).1 hp).1
    exact (nbr_iff hwf hb σ hon).2 (h p (List.mem_filter.2 ⟨hp, hs⟩))

/-- Neighbours of `p` in the region that are shaded and satisfy `P`, counted in `sameN` or in `L`. -/
theorem count_same {p : Nat × Nat} (hp : OnB pb p) (P : Nat × Nat → Bool) :
    ((sameN pb i p).filter fun q => P q && sh pb σ q).length
      = (shL pb σ b).countP fun q => P q && adjB p q := by
  rw [List.countP_eq_length_filter]
  apply length_eq_of_mem_iff ((sameN_nodup p).filter _) ((shL_nodup hwf hb σ).filter _)
  intro q
  simp only [List.mem_filter, mem_sameN hp, mem_shL hwf hb σ, Bool.and_eq_true, adjB_iff]
  tauto

/-- The pair count. -/
theorem pairs_eq :
    ((pairsL pb i (cellsN b)).filter fun pq => sh pb σ pq.1 && sh pb σ pq.2).length
      = pairCnt (shL pb σ b) := by
  unfold pairsL pairCnt
  rw [length_filter_flatMap]
  have h1 : ∀ p ∈ cellsN b,
      ((((sameN pb i p).filter (C11LitsP.lexLtB p)).map fun q => (p, q)).filter
          fun pq => sh pb σ pq.1 && sh pb σ pq.2).length
        = if sh pb σ p = true then (shL pb σ b).countP (fun q => C11LitsG.lexLtB p q && adjB p q) else 0 := by
    intro p hp
    have hon := ((mem_cellsN_iff hwf hb).1 hp).1
    rw [List.filter_map, List.length_map]
    by_cases hs : sh pb σ p = true
    · rw [if_pos hs, ← count_same hwf hb σ hon (C11LitsG.lexLtB p), List.filter_filter]
      congr 1
      apply List.filter_congr
      intro q _
      simp only [Function.comp, hs, Bool.true_and]
      rw [Bool.and_comm]
      rfl
    · rw [if_neg hs]
      have : ((sameN pb i p).filter (C11LitsP.lexLtB p)).filter
          ((fun pq : (Nat × Nat) × (Nat × Nat) => sh pb σ pq.1 && sh pb σ pq.2) ∘ fun q => (p, q)) = [] := by
        rw [List.filter_eq_nil_iff]
        intro q _
        simp [hs]
      rw [this]; rfl
  rw [sum_map_congr _ _ _ h1, sum_map_ite_filter]
  rfl

/-- Straight middles. -/
theorem strB_eq {p : Nat × Nat} (hp : p ∈ cellsN b) : strB pb σ i p = midB (shL pb σ b) p := by
  have hon := ((mem_cellsN_iff hwf hb).1 hp).1
  have hr := ((mem_cellsN_iff hwf hb).1 hp).2
  rw [Bool.eq_iff_iff, midB_iff]
  unfold StraightMid strB vertOK horizOK
  obtain ⟨p1, p2⟩ := p
  obtain ⟨h1, h2⟩ := hon
  simp only at h1 h2 hr
  have e1 : p1 - 1 < pb.height := by omega
  have e2 : p2 - 1 < pb.width := by omega
  simp only [Set.mem_ofPred_eq, mem_shL hwf hb σ, Bool.or_eq_true, Bool.and_eq_true, decide_eq_true_eq,
    beq_iff_eq, OnB, h1, h2, hr, e1, e2, true_and, and_true]
  have e3 : 0 < p1 ↔ 1 ≤ p1 := by omega
  have e4 : 0 < p2 ↔ 1 ≤ p2 := by omega
  rw [e3, e4]
  tauto

theorem strN_eq : strN pb σ i (cellsN b) = (shL pb σ b).countP (midB (shL pb σ b)) := by
  unfold strN
  rw [List.countP_eq_length_filter]
  have : (cellsN b).filter (strB pb σ i) = (cellsN b).filter (midB (shL pb σ b)) :=
    List.filter_congr (fun p hp => strB_eq hwf hb σ hp)
  rw [this]
  unfold shL
  rw [List.filter_filter]
  congr 1
  apply List.filter_congr
  intro p hp
  by_cases hm : midB ((cellsN b).filter (sh pb σ)) p = true
  · have : p ∈ (cellsN b).filter (sh pb σ) := by
      have := ((midB_iff _ p).1 hm).1
      exact this
    simp [hm, (List.mem_filter.1 this).2]
  · simp [hm]

/-- The T flag. -/
theorem tB_iff : tB pb σ i (cellsN b) = true ↔ ∃ p ∈ cellsN b, 3 ≤ (shL pb σ b).countP (adjB p) := by
  unfold tB tCell
  rw [List.any_eq_true]
  have key : ∀ p ∈ cellsN b, ((sameN pb i p).filter (sh pb σ)).length = (shL pb σ b).countP (adjB p) := by
    intro p hp
    have hon := ((mem_cellsN_iff hwf hb).1 hp).1
    have := count_same hwf hb σ hon (fun _ => true)
    simpa using this
  constructor
  · rintro ⟨p, hp, h⟩
    simp only [Bool.and_eq_true, decide_eq_true_eq] at h
    exact ⟨p, hp, by rw [← key p hp]; exact h.2⟩
  · rintro ⟨p, hp, h⟩
    refine ⟨p, hp, ?_⟩
    simp only [Bool.and_eq_true, decide_eq_true_eq]
    rw [← key p hp] at h
    exact ⟨Nat.le_trans h (List.length_filter_le _ _), h⟩

/-- The spec's set of shaded cells of the region is the set of members of `L`. -/
theorem shadedIn_eq (g : Nat → Nat → Bool)
    (hg : ∀ y, y < pb.height → ∀ x, x < pb.width → g y x = σ.b (y * pb.width + x)) :
    shadedIn g b = {x | x ∈ shL pb σ b} := by
  ext p
  have hob := wf_onBoard hwf (List.mem_of_getElem? hb)
  simp only [shadedIn, Set.mem_ofPred_eq, shL, List.mem_filter]
  constructor
  · rintro ⟨h1, h2⟩
    have hp := (mem_cellsN hob).2 h1
    have hon := cellsN_onB (pb := pb) hob hp
    refine ⟨hp, ?_⟩
    rw [hg _ hon.1 _ hon.2] at h2
    exact h2
  · rintro ⟨hp, h2⟩
    have hon := cellsN_onB (pb := pb) hob hp
    refine ⟨(mem_cellsN hob).1 hp, ?_⟩
    rw [hg _ hon.1 _ hon.2]
    exact h2

end Region

/-! ### four cells with the solver's counts versus a tetromino -/

/-- What the solver demands of the shaded cells `L` of a region. -/
def Counts (L : List (Nat × Nat)) : Prop :=
  L.length = 4 ∧ (∀ p ∈ L, ∃ q ∈ L, cellGraph.Adj p q) ∧ pairCnt L = 3

theorem tetromino_of_counts {L : List (Nat × Nat)} (hnd : L.Nodup) (h : Counts L) :
    IsTetromino {x | x ∈ L} :=
  ⟨by rw [C11LitsShape.ncard_list _ hnd]; exact h.1, connected_of_counts L hnd h.1 h.2.1 h.2.2⟩

theorem counts_of_tetromino {L : List (Nat × Nat)} (hnd : L.Nodup) (h : IsTetromino {x | x ∈ L})
    (hsq : NoSq L) : Counts L := by
  have hlen : L.length = 4 := by rw [← C11LitsShape.ncard_list _ hnd]; exact h.1
  obtain ⟨h1, h2⟩ := counts_of_connected L hnd hlen h.2 hsq
  exact ⟨hlen, h1, h2⟩

theorem code_of_counts {L : List (Nat × Nat)} (hnd : L.Nodup) (h : Counts L) :
    straightCount {x | x ∈ L} = L.countP (midB L) ∧ L.countP (midB L) ≤ 2 ∧
      (HasT {x | x ∈ L} ↔ ∃ p, 3 ≤ L.countP (adjB p)) := by
  refine ⟨?_, mids_le_two L hnd h.1 h.2.1 h.2.2, ?_⟩
  · rw [C11LitsShape.straightCount_list _ hnd, List.countP_eq_length_filter]
  · rw [C11LitsShape.hasT_list _ hnd]
    constructor
    · rintro ⟨p, _, hp⟩
      exact ⟨p, by rw [List.countP_eq_length_filter]; exact hp⟩
    · rintro ⟨p, hp⟩
      refine ⟨p, tcell_mem L hnd h.1 h.2.1 h.2.2 p hp, ?_⟩
      rw [← List.countP_eq_length_filter]; exact hp

end Cspuz.Proofs.C11LitsT
