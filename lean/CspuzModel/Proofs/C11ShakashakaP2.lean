/-
  C11 / shakashaka, program level, part 2 — closed form of the second loop body (`pointCs`) and of the whole
  posted program on a well-formed problem.
-/
import CspuzModel.Proofs.C11ShakashakaP1
namespace Cspuz.Proofs.C11ShakashakaP2
open Cspuz Cspuz.Spec Cspuz.Puzzles Cspuz.Puzzles.Shakashaka Cspuz.Spec.Shakashaka Cspuz.Proofs
  Cspuz.Proofs.C11CL Cspuz.Proofs.C11ShakashakaDefs Cspuz.Proofs.C11ShakashakaP1

/-! ### One implication of the second loop -/

/-- The body of the `for i in range(8)` loop (verbatim from the model). -/
def perBody (diagonals isEmpty : List PyV) (i : Nat) : Py (List Expr) := do
  let di ← getV diagonals i
  match di with
  | .scalar (.litB false) => .ok []
  | _ =>
    let (j, k) := if i % 2 == 0 then ((i + 3) % 8, (i + 5) % 8) else ((i + 5) % 8, (i + 3) % 8)
    let dj ← getV diagonals j
    let ej ← getV isEmpty (j / 2)
    let dk ← getV diagonals k
    let both ← binop .and_ ej dk
    let alt ← binop .or_ dj both
    let r ← callM .then_ di [alt]
    ensureV r

theorem pointCs_unfold (pb : Problem) (answer : PyV) (p : Nat × Nat) :
    pointCs pb answer p = (do
      let y : Int := p.1
      let x : Int := p.2
      let h : Int := pb.height
      let w : Int := pb.width
      let q1 ← quadrant pb answer (y > 0 && x > 0) (y - 1) (x - 1) 4 2 1
      let q2 ← quadrant pb answer (y < h && x > 0) y (x - 1) 1 3 2
      let q3 ← quadrant pb answer (y < h && x < w) y x 2 4 3
      let q4 ← quadrant pb answer (y > 0 && x < w) (y - 1) x 3 1 4
      let per ← (List.range 8).mapM (perBody (q1.1 ++ q2.1 ++ q3.1 ++ q4.1) [q1.2.1, q2.2.1, q3.2.1, q4.2.1])
      let ct ← countTrueA [.items (q1.2.2 ++ q2.2.2 ++ q3.2.2 ++ q4.2.2)]
      let c ← ensureV (← binop .ne (.scalar ct) (.scalar (.litI 3)))
      .ok (per.flatten ++ c)) := rfl

/-- One implication as a list of constraints (`di` the premise). -/
def impOf (di dj dk ej : Expr) : List Expr :=
  match di with
  | .litB false => []
  | _ => [.node .imp [di, orE dj (andE ej dk)]]

theorem perBody_eq (D E : List PyV) (i j k : Nat) (di dj dk ej : Expr)
    (hjk : (if i % 2 == 0 then ((i + 3) % 8, (i + 5) % 8) else ((i + 5) % 8, (i + 3) % 8)) = (j, k))
    (hi : getV D i = .ok (.scalar di)) (hj : getV D j = .ok (.scalar dj)) (hk : getV D k = .ok (.scalar dk))
    (he : getV E (j / 2) = .ok (.scalar ej))
    (hdi : di = .litB false ∨ ∃ l, di = .node .eq l) (hdj : BS dj) (hdk : BS dk) (hej : BS ej) :
    perBody D E i = .ok (impOf di dj dk ej) := by
  unfold perBody
  rw [hi]
  simp only [ok_bind]
  rcases hdi with rfl | ⟨l, rfl⟩
  · rfl
  · simp only [hjk, hj, hk, he, ok_bind, binop_and hej hdk, binop_or hdj (BS_andE hej hdk),
      callM_then (BS_orE hdj (BS_andE hej hdk))]
    rw [ensureV_scalar _ rfl]
    rfl

/-! ### The constraints of one grid point -/

/-- Quadrant `j` of the grid point `(y, x)` is on the board. -/
def onB (pb : Problem) (y x : Int) (j : Nat) : Bool := inB pb (qc y x j).1 (qc y x j).2

/-- `diagonals[i]`. -/
def dE (pb : Problem) (y x : Int) (i : Nat) : Expr :=
  qD pb (onB pb y x (i / 2)) (qc y x (i / 2)).1 (qc y x (i / 2)).2 (dval i)

/-- `is_empty[j]`. -/
def eE (pb : Problem) (y x : Int) (j : Nat) : Expr := qE pb (onB pb y x j) (qc y x j).1 (qc y x j).2

/-- The `is_white_angle` entries of quadrant `j`. -/
def wE (pb : Problem) (y x : Int) (j : Nat) : List Expr :=
  qW pb (onB pb y x j) (qc y x j).1 (qc y x j).2 (wval j)

def jk (i : Nat) : Nat × Nat :=
  if i % 2 == 0 then ((i + 3) % 8, (i + 5) % 8) else ((i + 5) % 8, (i + 3) % 8)

def impL (pb : Problem) (y x : Int) (i : Nat) : List Expr :=
  impOf (dE pb y x i) (dE pb y x (jk i).1) (dE pb y x (jk i).2) (eE pb y x ((jk i).1 / 2))

def angleC (pb : Problem) (y x : Int) : Expr :=
  .node .ne [countTrueE (wE pb y x 0 ++ wE pb y x 1 ++ wE pb y x 2 ++ wE pb y x 3), .litI 3]

def pointList (pb : Problem) (p : Nat × Nat) : List Expr :=
  ((List.range 8).map (impL pb (p.1 : Int) (p.2 : Int))).flatten ++ [angleC pb p.1 p.2]

theorem on0 (pb : Problem) {y x : Nat} (hy : y ≤ pb.height) (hx : x ≤ pb.width) :
    (decide ((y : Int) > 0) && decide ((x : Int) > 0)) = onB pb y x 0 := by
  simp only [onB, qc, inB]
  rw [Bool.eq_iff_iff]; simp only [Bool.and_eq_true, decide_eq_true_eq]; omega

theorem on1 (pb : Problem) {y x : Nat} (_hy : y ≤ pb.height) (hx : x ≤ pb.width) :
    (decide ((y : Int) < (pb.height : Int)) && decide ((x : Int) > 0)) = onB pb y x 1 := by
  simp only [onB, qc, inB]
  rw [Bool.eq_iff_iff]; simp only [Bool.and_eq_true, decide_eq_true_eq]; omega

theorem on2 (pb : Problem) {y x : Nat} (_hy : y ≤ pb.height) (_hx : x ≤ pb.width) :
    (decide ((y : Int) < (pb.height : Int)) && decide ((x : Int) < (pb.width : Int))) = onB pb y x 2 := by
  simp only [onB, qc, inB]
  rw [Bool.eq_iff_iff]; simp only [Bool.and_eq_true, decide_eq_true_eq]; omega

theorem on3 (pb : Problem) {y x : Nat} (hy : y ≤ pb.height) (_hx : x ≤ pb.width) :
    (decide ((y : Int) > 0) && decide ((x : Int) < (pb.width : Int))) = onB pb y x 3 := by
  simp only [onB, qc, inB]
  rw [Bool.eq_iff_iff]; simp only [Bool.and_eq_true, decide_eq_true_eq]; omega

theorem dE_cases (pb : Problem) (y x : Int) (i : Nat) :
    dE pb y x i = .litB false ∨ ∃ l, dE pb y x i = .node .eq l := by
  unfold dE qD
  split
  · exact Or.inr ⟨_, rfl⟩
  · exact Or.inl rfl

theorem BS_dE (pb : Problem) (y x : Int) (i : Nat) : BS (dE pb y x i) := BS_qD _ _ _ _ _
theorem BS_eE (pb : Problem) (y x : Int) (j : Nat) : BS (eE pb y x j) := BS_qE _ _ _ _

theorem flattenList_leaves : ∀ l : List Expr, ANest.flattenList (l.map fun e => ANest.leaf (.scalar e)) = l
  | [] => by simp [ANest.flattenList]
  | e :: r => by simp [ANest.flattenList, ANest.flatten, PyV.flat, flattenList_leaves r]

theorem wE_boolLike (pb : Problem) (y x : Int) (j : Nat) : ∀ e ∈ wE pb y x j, e.isBoolLike = true := by
  intro e he
  unfold wE qW at he
  split at he
  · simp only [List.mem_singleton] at he; subst he; rfl
  · simp at he

theorem countTrueA_items (pb : Problem) (y x : Int) :
    countTrueA [.items ((wE pb y x 0).map (fun e => ANest.leaf (.scalar e)) ++
      (wE pb y x 1).map (fun e => ANest.leaf (.scalar e)) ++ (wE pb y x 2).map (fun e => ANest.leaf (.scalar e)) ++
      (wE pb y x 3).map (fun e => ANest.leaf (.scalar e)))]
      = .ok (countTrueE (wE pb y x 0 ++ wE pb y x 1 ++ wE pb y x 2 ++ wE pb y x 3)) := by
  rw [← List.map_append, ← List.map_append, ← List.map_append]
  simp only [countTrueA, ANest.flattenList, ANest.flatten, List.append_nil, flattenList_leaves]
  apply countTrue_ok_of_boolLike
  intro e he
  simp only [List.mem_append] at he
  rcases he with ((he | he) | he) | he <;> exact wE_boolLike _ _ _ _ _ he

theorem pointCs_eq {pb : Problem} (hwf : WellFormed pb) {p : Nat × Nat} (hy : p.1 ≤ pb.height) (hx : p.2 ≤ pb.width) :
    pointCs pb (ans pb) p = .ok (pointList pb p) := by
  rw [pointCs_unfold]
  simp only [on0 pb hy hx, on1 pb hy hx, on2 pb hy hx, on3 pb hy hx]
  rw [quadrant_eq hwf (onB pb p.1 p.2 0) ((p.1 : Int) - 1) ((p.2 : Int) - 1) 4 2 1 (fun h => h),
    quadrant_eq hwf (onB pb p.1 p.2 1) (p.1 : Int) ((p.2 : Int) - 1) 1 3 2 (fun h => h),
    quadrant_eq hwf (onB pb p.1 p.2 2) (p.1 : Int) (p.2 : Int) 2 4 3 (fun h => h),
    quadrant_eq hwf (onB pb p.1 p.2 3) ((p.1 : Int) - 1) (p.2 : Int) 3 1 4 (fun h => h)]
  simp only [ok_bind, List.cons_append, List.nil_append]
  rw [mapM_eq_ok_map (g := impL pb p.1 p.2)]
  swap
  · intro i hi
    have hi8 : i < 8 := List.mem_range.1 hi
    have h8 : i = 0 ∨ i = 1 ∨ i = 2 ∨ i = 3 ∨ i = 4 ∨ i = 5 ∨ i = 6 ∨ i = 7 := by omega
    rcases h8 with rfl | rfl | rfl | rfl | rfl | rfl | rfl | rfl
    · exact perBody_eq _ _ 0 (jk 0).1 (jk 0).2 (dE pb p.1 p.2 0) (dE pb p.1 p.2 (jk 0).1) (dE pb p.1 p.2 (jk 0).2)
        (eE pb p.1 p.2 ((jk 0).1 / 2)) rfl rfl rfl rfl rfl (dE_cases _ _ _ _) (BS_dE _ _ _ _) (BS_dE _ _ _ _)
        (BS_eE _ _ _ _)
    · exact perBody_eq _ _ 1 (jk 1).1 (jk 1).2 (dE pb p.1 p.2 1) (dE pb p.1 p.2 (jk 1).1) (dE pb p.1 p.2 (jk 1).2)
        (eE pb p.1 p.2 ((jk 1).1 / 2)) rfl rfl rfl rfl rfl (dE_cases _ _ _ _) (BS_dE _ _ _ _) (BS_dE _ _ _ _)
        (BS_eE _ _ _ _)
    · exact perBody_eq _ _ 2 (jk 2).1 (jk 2).2 (dE pb p.1 p.2 2) (dE pb p.1 p.2 (jk 2).1) (dE pb p.1 p.2 (jk 2).2)
        (eE pb p.1 p.2 ((jk 2).1 / 2)) rfl rfl rfl rfl rfl (dE_cases _ _ _ _) (BS_dE _ _ _ _) (BS_dE _ _ _ _)
        (BS_eE _ _ _ _)
    · exact perBody_eq _ _ 3 (jk 3).1 (jk 3).2 (dE pb p.1 p.2 3) (dE pb p.1 p.2 (jk 3).1) (dE pb p.1 p.2 (jk 3).2)
        (eE pb p.1 p.2 ((jk 3).1 / 2)) rfl rfl rfl rfl rfl (dE_cases _ _ _ _) (BS_dE _ _ _ _) (BS_dE _ _ _ _)
        (BS_eE _ _ _ _)
    · exact perBody_eq _ _ 4 (jk 4).1 (jk 4).2 (dE pb p.1 p.2 4) (dE pb p.1 p.2 (jk 4).1) (dE pb p.1 p.2 (jk 4).2)
        (eE pb p.1 p.2 ((jk 4).1 / 2)) rfl rfl rfl rfl rfl (dE_cases _ _ _ _) (BS_dE _ _ _ _) (BS_dE _ _ _ _)
        (BS_eE _ _ _ _)
    · exact perBody_eq _ _ 5 (jk 5).1 (jk 5).2 (dE pb p.1 p.2 5) (dE pb p.1 p.2 (jk 5).1) (dE pb p.1 p.2 (jk 5).2)
        (eE pb p.1 p.2 ((jk 5).1 / 2)) rfl rfl rfl rfl rfl (dE_cases _ _ _ _) (BS_dE _ _ _ _) (BS_dE _ _ _ _)
        (BS_eE _ _ _ _)
    · exact perBody_eq _ _ 6 (jk 6).1 (jk 6).2 (dE pb p.1 p.2 6) (dE pb p.1 p.2 (jk 6).1) (dE pb p.1 p.2 (jk 6).2)
        (eE pb p.1 p.2 ((jk 6).1 / 2)) rfl rfl rfl rfl rfl (dE_cases _ _ _ _) (BS_dE _ _ _ _) (BS_dE _ _ _ _)
        (BS_eE _ _ _ _)
    · exact perBody_eq _ _ 7 (jk 7).1 (jk 7).2 (dE pb p.1 p.2 7) (dE pb p.1 p.2 (jk 7).1) (dE pb p.1 p.2 (jk 7).2)
        (eE pb p.1 p.2 ((jk 7).1 / 2)) rfl rfl rfl rfl rfl (dE_cases _ _ _ _) (BS_dE _ _ _ _) (BS_dE _ _ _ _)
        (BS_eE _ _ _ _)
  simp only [ok_bind]
  have hct := countTrueA_items pb p.1 p.2
  simp only [wE, qc, wval] at hct
  rw [hct]
  simp only [ok_bind]
  rw [C11ArrOps.binop_cmp_countTrueE .ne .ne (Or.inr (Or.inr (Or.inr ⟨rfl, rfl⟩)))]
  simp only [ok_bind]
  rw [ensureV_scalar _ rfl]
  rfl

/-! ### The whole program -/

def closedCs (pb : Problem) : List Expr :=
  ((cellsOf pb.height pb.width).map (blackList pb)).flatten ++
    ((cellsOf (pb.height + 1) (pb.width + 1)).map (pointList pb)).flatten

def closed (pb : Problem) : PuzzleProg :=
  { decls := List.replicate (pb.height * pb.width) (.int 0 4), cs := closedCs pb,
    keys := List.range (pb.height * pb.width) }

theorem program_closed {pb : Problem} (hwf : WellFormed pb) : program pb = .ok (closed pb) := by
  unfold program
  simp only [intArrayDecls, show ¬ ((0 : Int) > 4) by decide, if_false, ok_bind, C11Grid.addKeys_ivars]
  rw [show PyV.arr2 false pb.height pb.width (ivars 0 (pb.height * pb.width)) = ans pb from rfl]
  rw [mapM_eq_ok_map (g := blackList pb) (fun p hp =>
    blackCs_eq hwf (C11Norinori.mem_cellsOf.1 hp).1 (C11Norinori.mem_cellsOf.1 hp).2)]
  simp only [ok_bind]
  rw [mapM_eq_ok_map (g := pointList pb) (fun p hp =>
    pointCs_eq hwf (Nat.le_of_lt_succ (C11Norinori.mem_cellsOf.1 hp).1) (Nat.le_of_lt_succ (C11Norinori.mem_cellsOf.1 hp).2))]
  rfl

end Cspuz.Proofs.C11ShakashakaP2
