/-
  C11 / Fillomino — geometry: the graph `_from_grid_frame(border.dual())` hands to the division constraint
  is the cell grid of the board (vertex `y * w + x` = cell `(y, x)`), its `k`-th edge joins the two cells
  separated by the `k`-th border variable, and the border variables are pairwise different.
-/
import CspuzModel.Proofs.C11FillominoProg
import CspuzModel.Proofs.C11FillominoSem
namespace Cspuz.Proofs.C11FillominoGeom
open Cspuz Cspuz.Spec Cspuz.Spec.FrameGeom Cspuz.Spec.Fillomino Cspuz.Proofs
open Cspuz.Proofs.C11FillominoSem Cspuz.Proofs.C11FillominoProg
open Cspuz.Proofs.C14 (graphSegs segEdge graphSegs_perm graphSegs_valid mem_allSegs)
open Cspuz.Proofs.C11Loop (lg)

variable {H W : Nat}

theorem pt_cell {W : Nat} (p : Nat × Nat) (hx : p.2 ≤ W) : cellOf (W + 1) (ptIndex W p) = p :=
  cellOf_idx (w := W + 1) (p := p) (by omega)

/-- The two ends of a segment of the dual frame are neighbouring cells of the board. -/
theorem seg_adj {s : Seg} (hs : s.Valid H W) :
    ptIndex W s.ends.1 < (H + 1) * (W + 1) ∧ ptIndex W s.ends.2 < (H + 1) * (W + 1) ∧
    cellGraph.Adj (cellOf (W + 1) (ptIndex W s.ends.1)) (cellOf (W + 1) (ptIndex W s.ends.2)) := by
  have hv := C14.ends_valid H W s hs
  refine ⟨C14.ptIndex_lt H W _ hv.1, C14.ptIndex_lt H W _ hv.2.1, ?_⟩
  rw [pt_cell _ hv.1.2, pt_cell _ hv.2.1.2]
  cases s with
  | h y x => exact Or.inl ⟨rfl, Or.inl rfl⟩
  | v y x => exact Or.inr ⟨rfl, Or.inl rfl⟩

/-- Two neighbouring cells are the two ends of a segment. -/
theorem adj_seg {u v : Nat} (hu : u < (H + 1) * (W + 1)) (hv : v < (H + 1) * (W + 1))
    (hadj : cellGraph.Adj (cellOf (W + 1) u) (cellOf (W + 1) v)) :
    ∃ s : Seg, s.Valid H W ∧ (segEdge W s = (u, v) ∨ segEdge W s = (v, u)) := by
  have bu := onBoard_cellOf hu
  have bv := onBoard_cellOf hv
  have eu := idx_cellOf (W + 1) u
  have ev := idx_cellOf (W + 1) v
  generalize cellOf (W + 1) u = p at *
  generalize cellOf (W + 1) v = q at *
  obtain ⟨p1, p2⟩ := p
  obtain ⟨q1, q2⟩ := q
  simp only [OnBoard] at bu bv eu ev
  subst eu ev
  rcases hadj with ⟨h1, h2 | h2⟩ | ⟨h1, h2 | h2⟩ <;> simp only at h1 h2
  · subst h1 h2
    exact ⟨.h p1 p2, ⟨by omega, by omega⟩, Or.inl rfl⟩
  · subst h1 h2
    exact ⟨.h p1 q2, ⟨by omega, by omega⟩, Or.inr rfl⟩
  · subst h1 h2
    exact ⟨.v p1 p2, ⟨by omega, by omega⟩, Or.inl rfl⟩
  · subst h1 h2
    exact ⟨.v q1 p2, ⟨by omega, by omega⟩, Or.inr rfl⟩

theorem lg_edge {k : Nat} {e : Nat × Nat} (hk : (lg H W).edges[k]? = some e) :
    ∃ s, (graphSegs H W)[k]? = some s ∧ s.Valid H W ∧ segEdge W s = e := by
  simp only [lg, List.getElem?_map, Option.map_eq_some_iff] at hk
  obtain ⟨s, hs, rfl⟩ := hk
  exact ⟨s, hs, graphSegs_valid H W s (List.mem_of_getElem? hs), rfl⟩

theorem seg_edge {s : Seg} (hs : s.Valid H W) : ∃ k : Nat, (graphSegs H W)[k]? = some s ∧
    (lg H W).edges[k]? = some (segEdge W s) := by
  have hm : s ∈ graphSegs H W := (graphSegs_perm H W).mem_iff.mpr ((mem_allSegs H W s).mpr hs)
  obtain ⟨k, hk, rfl⟩ := List.getElem_of_mem hm
  refine ⟨k, List.getElem?_eq_getElem hk, ?_⟩
  simp [lg, List.getElem?_eq_getElem hk]

/-- The graph is the cell grid. -/
theorem lg_gridLike (H W : Nat) : GridLike (H + 1) (W + 1) (lg H W) where
  n_eq := rfl
  adj := by
    intro u v hu hv
    constructor
    · rintro ⟨k, hj | hj⟩
      · obtain ⟨s, _, hs, he⟩ := lg_edge hj
        have := (seg_adj hs).2.2
        simp only [segEdge, Prod.mk.injEq] at he
        rwa [he.1, he.2] at this
      · obtain ⟨s, _, hs, he⟩ := lg_edge hj
        have := (seg_adj hs).2.2
        simp only [segEdge, Prod.mk.injEq] at he
        rw [he.1, he.2] at this
        exact this.symm
    · intro hadj
      obtain ⟨s, hs, he | he⟩ := adj_seg hu hv hadj
      · obtain ⟨k, _, hk⟩ := seg_edge hs
        exact ⟨k, Or.inl (by rw [hk, he])⟩
      · obtain ⟨k, _, hk⟩ := seg_edge hs
        exact ⟨k, Or.inr (by rw [hk, he])⟩

/-- Different borders carry different variables. -/
theorem segV_inj (n : Nat) {s t : Seg} (hs : s.Valid H W) (ht : t.Valid H W)
    (h : segV (n + H * (W + 1)) n W s = segV (n + H * (W + 1)) n W t) : s = t := by
  cases s with
  | h y x =>
    cases t with
    | h y' x' =>
      simp only [segV] at h
      have e : y * W + x = y' * W + x' := by omega
      have h1 := C11Grid.cell_div_mod (w := W) (y := y) (x := x) hs.2
      have h2 := C11Grid.cell_div_mod (w := W) (y := y') (x := x') ht.2
      rw [e] at h1
      rw [show y = y' from h1.1.symm.trans h2.1, show x = x' from h1.2.symm.trans h2.2]
    | v y' x' =>
      exfalso
      simp only [segV] at h
      have := C11Grid.cell_lt (h := H) (w := W + 1) (y := y') (x := x') ht.1 (by have := ht.2; omega)
      omega
  | v y x =>
    cases t with
    | h y' x' =>
      exfalso
      simp only [segV] at h
      have := C11Grid.cell_lt (h := H) (w := W + 1) (y := y) (x := x) hs.1 (by have := hs.2; omega)
      omega
    | v y' x' =>
      simp only [segV] at h
      have e : y * (W + 1) + x = y' * (W + 1) + x' := by omega
      have h1 := C11Grid.cell_div_mod (w := W + 1) (y := y) (x := x) (by have := hs.2; omega)
      have h2 := C11Grid.cell_div_mod (w := W + 1) (y := y') (x := x') (by have := ht.2; omega)
      rw [e] at h1
      rw [show y = y' from h1.1.symm.trans h2.1, show x = x' from h1.2.symm.trans h2.2]

end Cspuz.Proofs.C11FillominoGeom
