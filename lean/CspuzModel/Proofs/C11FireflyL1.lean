/-
  C11 / firefly — level 1: the constraints of the program of `solve_firefly`, evaluated under an assignment, say
  exactly what the arithmetic certificate (Proofs/C11FireflyCert.lean) says about the assignment read on the
  geometry of the board.
-/
import CspuzModel.Proofs.C11FireflyProg
import CspuzModel.Proofs.C11FireflyCert
namespace Cspuz.Proofs.C11FireflyL1
open Cspuz Cspuz.Spec Cspuz.Spec.FrameGeom Cspuz.Spec.Loop Cspuz.Puzzles Cspuz.Proofs
open Cspuz.Puzzles.Firefly hiding Dir
open Cspuz.Spec.Firefly (clue WellFormed firefly segOf)
open Cspuz.Proofs.C11FireflyTop Cspuz.Proofs.C11FireflyCell Cspuz.Proofs.C11FireflyProg Cspuz.Proofs.C11FireflyCert
open Cspuz.Proofs.C14 (mem_allSegs allSegs_map_var var_range)

/-! ### the assignment read on the board -/

section
variable (H W : Nat) (σ : Asg)

def onσ (s : Seg) : Bool := σ.b (s.var 0 H W)
def ulσ (s : Seg) : Bool := σ.b (s.var (Frame.numVars H W) H W)
def drσ (s : Seg) : Bool := σ.b (s.var (2 * Frame.numVars H W) H W)
def igσ (s : Seg) : Bool := σ.b (s.var (3 * Frame.numVars H W) H W)
def rankσ (p : Pt) : Int := σ.i (4 * Frame.numVars H W + (p.1 * (W + 1) + p.2))
def ntσ : Seg → Int
  | .h y x => σ.i (ntH H W y x)
  | .v y x => σ.i (ntV H W y x)

end

theorem var_base (b H W : Nat) (s : Seg) : s.var b H W = b + s.var 0 H W := by
  cases s <;> simp only [Seg.var] <;> omega

theorem var_lt (H W : Nat) (s : Seg) (hs : s.Valid H W) : s.var 0 H W < Frame.numVars H W := by
  have := (var_range 0 H W s hs).2; omega

/-- Quantifying over the frame variables is quantifying over the valid segments. -/
theorem forall_var_iff (H W : Nat) (P : Nat → Prop) :
    (∀ i, i < Frame.numVars H W → P i) ↔ ∀ s : Seg, s.Valid H W → P (s.var 0 H W) := by
  constructor
  · intro h s hs; exact h _ (var_lt H W s hs)
  · intro h i hi
    have hm : (0 + i) ∈ (allSegs H W).map (Seg.var 0 H W) := by
      rw [allSegs_map_var]; exact List.mem_map.mpr ⟨i, List.mem_range.mpr hi, rfl⟩
    obtain ⟨s, hs, e⟩ := List.mem_map.mp hm
    have := h s ((mem_allSegs H W s).mp hs)
    rw [e, Nat.zero_add] at this
    exact this

theorem forall_mem_range_map {α : Type} (n : Nat) (f : Nat → α) (P : α → Prop) :
    (∀ c ∈ (List.range n).map f, P c) ↔ ∀ i, i < n → P (f i) := by
  constructor
  · intro h i hi; exact h _ (List.mem_map.mpr ⟨i, List.mem_range.mpr hi, rfl⟩)
  · intro h c hc
    obtain ⟨i, hi, rfl⟩ := List.mem_map.mp hc
    exact h i (List.mem_range.mp hi)

/-- A family of constraints indexed by the frame variables holds iff its reading holds on every valid segment. -/
theorem family_iff (H W : Nat) (σ : Asg) (f : Nat → Expr) (Q : Seg → Prop)
    (h : ∀ s : Seg, s.Valid H W → (eval σ (f (s.var 0 H W)) = some (.b true) ↔ Q s)) :
    (∀ c ∈ (List.range (Frame.numVars H W)).map f, eval σ c = some (.b true)) ↔ ∀ s : Seg, s.Valid H W → Q s := by
  rw [forall_mem_range_map, forall_var_iff H W (fun i => eval σ (f i) = some (.b true))]
  exact forall_congr' fun s => imp_congr_right fun hs => h s hs

/-! ### evaluation of the small trees -/

theorem ev_bvar (σ : Asg) (i : Nat) : eval σ (.bvar i) = some (.b (σ.b i)) := by simp [eval]
theorem ev_ivar (σ : Asg) (i : Nat) : eval σ (.ivar i) = some (.i (σ.i i)) := by simp [eval]
theorem ev_litI (σ : Asg) (n : Int) : eval σ (.litI n) = some (.i n) := by simp [eval]

theorem ev_iff {σ : Asg} {a b : Expr} {x y : Bool} (ha : eval σ a = some (.b x)) (hb : eval σ b = some (.b y)) :
    eval σ (.node .iff [a, b]) = some (.b (x == y)) := by
  simp [ha, hb, evalOp, allBools]

theorem ev_or {σ : Asg} {a b : Expr} {x y : Bool} (ha : eval σ a = some (.b x)) (hb : eval σ b = some (.b y)) :
    eval σ (.node .or [a, b]) = some (.b (x || y)) := by
  simp [ha, hb, evalOp, allBools]

theorem ev_imp {σ : Asg} {a b : Expr} {x y : Bool} (ha : eval σ a = some (.b x)) (hb : eval σ b = some (.b y)) :
    eval σ (.node .imp [a, b]) = some (.b (!x || y)) := by
  simp [ha, hb, evalOp, allBools]

theorem ev_add {σ : Asg} {a b : Expr} {x y : Int} (ha : eval σ a = some (.i x)) (hb : eval σ b = some (.i y)) :
    eval σ (.node .add [a, b]) = some (.i (x + y)) := by
  simp [ha, hb, evalOp, allInts]

theorem some_b_true (x : Bool) : (some (Val.b x) = some (Val.b true)) ↔ x = true := by simp

/-! ### orientation -/

theorem orient_iff (H W : Nat) (σ : Asg) :
    (∀ c ∈ orientIff (Frame.numVars H W) ++ orientNot (Frame.numVars H W), eval σ c = some (.b true)) ↔
      ∀ s : Seg, s.Valid H W → onσ H W σ s = (ulσ H W σ s || drσ H W σ s) ∧ (ulσ H W σ s && drσ H W σ s) = false := by
  have h1 := family_iff H W σ
    (fun i => Expr.node .iff [.bvar (0 + i), .node .or [.bvar (Frame.numVars H W + i), .bvar (2 * Frame.numVars H W + i)]])
    (fun s => onσ H W σ s = (ulσ H W σ s || drσ H W σ s)) (by
      intro s _
      rw [ev_iff (ev_bvar _ _) (ev_or (ev_bvar _ _) (ev_bvar _ _)), some_b_true]
      simp only [onσ, ulσ, drσ, var_base (Frame.numVars H W) H W s, var_base (2 * Frame.numVars H W) H W s, Nat.zero_add,
        beq_iff_eq])
  have h2 := family_iff H W σ
    (fun i => Expr.node .not [.node .and [.bvar (Frame.numVars H W + i), .bvar (2 * Frame.numVars H W + i)]])
    (fun s => (ulσ H W σ s && drσ H W σ s) = false) (by
      intro s _
      rw [eval_not (eval_and2 (ev_bvar _ _) (ev_bvar _ _)), some_b_true]
      simp only [ulσ, drσ, var_base (Frame.numVars H W) H W s, var_base (2 * Frame.numVars H W) H W s, Bool.not_eq_true'])
  simp only [List.mem_append, or_imp, forall_and]
  exact and_congr h1 h2

/-! ### the ignored segment -/

theorem ignored_iff (H W : Nat) (σ : Asg) :
    eval σ (ignoredOne (Frame.numVars H W)) = some (.b true) ↔ ((allSegs H W).filter (igσ H W σ)).length = 1 := by
  have hbs : (bvars (3 * Frame.numVars H W) (Frame.numVars H W)).map (eval σ)
      = ((allSegs H W).map (igσ H W σ)).map fun b => some (Val.b b) := by
    have : (allSegs H W).map (igσ H W σ) = ((allSegs H W).map (Seg.var (3 * Frame.numVars H W) H W)).map σ.b := by
      rw [List.map_map]; rfl
    rw [this, allSegs_map_var, bvars_eq]
    simp only [List.map_map]
    apply List.map_congr_left
    intro i _
    simp [eval]
  have hct := eval_countTrueE (σ := σ) _ hbs
  unfold ignoredOne
  rw [eval_cmp rfl hct (ev_litI σ 1), some_b_true]
  rw [List.count_eq_countP, List.countP_map, List.countP_eq_length_filter]
  have : (List.filter ((fun x => x == true) ∘ igσ H W σ) (allSegs H W)) = (allSegs H W).filter (igσ H W σ) := by
    apply List.filter_congr; intro x _; simp
  rw [this]
  simp only [cmpOp_eq, beq_iff_eq]
  omega

/-! ### the rank constraints -/

theorem forall_lt_mul (a b : Nat) (P : Nat → Prop) :
    (∀ i, i < a * b → P i) ↔ ∀ y, y < a → ∀ x, x < b → P (y * b + x) := by
  constructor
  · intro h y hy x hx; exact h _ (C11Grid.cell_lt hy hx)
  · intro h i hi
    obtain ⟨h1, h2⟩ := C11Grid.div_lt_of_lt_mul hi
    have := h _ h1 _ h2
    rwa [Nat.div_add_mod' i b] at this

theorem forall_seg_split (H W : Nat) (Q : Seg → Prop) :
    (∀ s : Seg, s.Valid H W → Q s) ↔
      (∀ y, y < H + 1 → ∀ x, x < W → Q (Seg.h y x)) ∧ (∀ y, y < H → ∀ x, x < W + 1 → Q (Seg.v y x)) := by
  constructor
  · intro h
    exact ⟨fun y hy x hx => h _ ⟨by omega, hx⟩, fun y hy x hx => h _ ⟨hy, by omega⟩⟩
  · rintro ⟨h1, h2⟩ s hs
    cases s with
    | h y x => exact h1 y (by have := hs.1; omega) x hs.2
    | v y x => exact h2 y hs.1 x (by have := hs.2; omega)

theorem ev_guard (σ : Asg) (bl bi i : Nat) :
    eval σ (guardE bl bi i) = some (.b (σ.b (bl + i) && !σ.b (bi + i))) :=
  eval_and2 (ev_bvar _ _) (eval_not (ev_bvar _ _))

theorem imp_guard_iff (a b c : Bool) : ((!(a && !b) || c) = true) ↔ (a = true → b = false → c = true) := by
  cases a <;> cases b <;> cases c <;> simp

theorem rankH_iff (σ : Asg) (op : Op) (hop : op.isCmp = true) (H W bl bi br : Nat) :
    (∀ c ∈ (List.range ((H + 1) * W)).map (rankHE op W bl bi br), eval σ c = some (.b true)) ↔
      ∀ y, y < H + 1 → ∀ x, x < W → σ.b (bl + (y * W + x)) = true → σ.b (bi + (y * W + x)) = false →
        cmpOp op (σ.i (br + (y * (W + 1) + x))) (σ.i (br + (y * (W + 1) + (x + 1)))) = true := by
  rw [forall_mem_range_map, forall_lt_mul]
  apply forall_congr'; intro y; apply imp_congr_right; intro _
  apply forall_congr'; intro x; apply imp_congr_right; intro hx
  unfold rankHE
  rw [ev_imp (ev_guard σ bl bi _) (eval_cmp hop (ev_ivar _ _) (ev_ivar _ _)), some_b_true, imp_guard_iff,
    (C11Grid.cell_div_mod hx).1, (C11Grid.cell_div_mod hx).2]

theorem rankV_iff (σ : Asg) (op : Op) (hop : op.isCmp = true) (H W bl bi br : Nat) :
    (∀ c ∈ (List.range (H * (W + 1))).map (rankVE op W bl bi br), eval σ c = some (.b true)) ↔
      ∀ y, y < H → ∀ x, x < W + 1 → σ.b (bl + (y * (W + 1) + x)) = true → σ.b (bi + (y * (W + 1) + x)) = false →
        cmpOp op (σ.i (br + (y * (W + 1) + x))) (σ.i (br + (y * (W + 1) + x + (W + 1)))) = true := by
  rw [forall_mem_range_map, forall_lt_mul]
  apply forall_congr'; intro y; apply imp_congr_right; intro _
  apply forall_congr'; intro x; apply imp_congr_right; intro hx
  unfold rankVE
  rw [ev_imp (ev_guard σ bl bi _) (eval_cmp hop (ev_ivar _ _) (ev_ivar _ _)), some_b_true, imp_guard_iff]

/-- The four families of rank constraints. -/
def rankAll (H W : Nat) : List Expr :=
  let N := Frame.numVars H W
  (List.range ((H + 1) * W)).map (rankHE .lt W N (3 * N) (4 * N)) ++
    (List.range (H * (W + 1))).map (rankVE .lt W (N + (H + 1) * W) (3 * N + (H + 1) * W) (4 * N)) ++
    (List.range ((H + 1) * W)).map (rankHE .gt W (2 * N) (3 * N) (4 * N)) ++
    (List.range (H * (W + 1))).map (rankVE .gt W (2 * N + (H + 1) * W) (3 * N + (H + 1) * W) (4 * N))

theorem rank_iff (H W : Nat) (σ : Asg) :
    (∀ c ∈ rankAll H W, eval σ c = some (.b true)) ↔
      (∀ s : Seg, s.Valid H W → ulσ H W σ s = true → igσ H W σ s = false →
        rankσ H W σ s.ends.1 < rankσ H W σ s.ends.2) ∧
      (∀ s : Seg, s.Valid H W → drσ H W σ s = true → igσ H W σ s = false →
        rankσ H W σ s.ends.1 > rankσ H W σ s.ends.2) := by
  simp only [rankAll, List.mem_append, or_imp, forall_and]
  rw [rankH_iff σ .lt rfl, rankV_iff σ .lt rfl, rankH_iff σ .gt rfl, rankV_iff σ .gt rfl,
    forall_seg_split H W, forall_seg_split H W]
  simp only [ulσ, drσ, igσ, rankσ, Seg.var, Seg.ends, cmpOp_lt, cmpOp_gt, decide_eq_true_eq]
  constructor
  · rintro ⟨⟨⟨h1, h2⟩, h3⟩, h4⟩
    refine ⟨⟨fun y hy x hx a b => ?_, fun y hy x hx a b => ?_⟩, ⟨fun y hy x hx a b => ?_, fun y hy x hx a b => ?_⟩⟩
    · exact h1 y hy x hx (by rw [← a]; congr 1; omega) (by rw [← b]; congr 1; omega)
    · have := h2 y hy x hx (by rw [← a]; congr 1; omega) (by rw [← b]; congr 1; omega)
      have e : (y + 1) * (W + 1) + x = y * (W + 1) + x + (W + 1) := by rw [Nat.add_mul]; omega
      rw [e]; exact this
    · exact h3 y hy x hx (by rw [← a]; congr 1; omega) (by rw [← b]; congr 1; omega)
    · have := h4 y hy x hx (by rw [← a]; congr 1; omega) (by rw [← b]; congr 1; omega)
      have e : (y + 1) * (W + 1) + x = y * (W + 1) + x + (W + 1) := by rw [Nat.add_mul]; omega
      rw [e]; exact this
  · rintro ⟨⟨h1, h2⟩, ⟨h3, h4⟩⟩
    refine ⟨⟨⟨fun y hy x hx a b => ?_, fun y hy x hx a b => ?_⟩, fun y hy x hx a b => ?_⟩, fun y hy x hx a b => ?_⟩
    · exact h1 y hy x hx (by rw [← a]; congr 1; omega) (by rw [← b]; congr 1; omega)
    · have := h2 y hy x hx (by rw [← a]; congr 1; omega) (by rw [← b]; congr 1; omega)
      have e : (y + 1) * (W + 1) + x = y * (W + 1) + x + (W + 1) := by rw [Nat.add_mul]; omega
      rw [e] at this; exact this
    · exact h3 y hy x hx (by rw [← a]; congr 1; omega) (by rw [← b]; congr 1; omega)
    · have := h4 y hy x hx (by rw [← a]; congr 1; omega) (by rw [← b]; congr 1; omega)
      have e : (y + 1) * (W + 1) + x = y * (W + 1) + x + (W + 1) := by rw [Nat.add_mul]; omega
      rw [e] at this; exact this

/-! ### the declared bounds -/

def Shifted (σ : Asg) (base : Nat) (B : List VarDecl) : Prop :=
  ∀ j lo hi, B[j]? = some (.int lo hi) → lo ≤ σ.i (base + j) ∧ σ.i (base + j) ≤ hi

theorem respects_iff_shifted (σ : Asg) (B : List VarDecl) : σ.respects B ↔ Shifted σ 0 B := by
  unfold Asg.respects Shifted
  simp only [Nat.zero_add]

theorem shifted_append (σ : Asg) (base : Nat) (A B : List VarDecl) :
    Shifted σ base (A ++ B) ↔ Shifted σ base A ∧ Shifted σ (base + A.length) B := by
  constructor
  · intro h
    refine ⟨fun j lo hi hj => ?_, fun j lo hi hj => ?_⟩
    · have hlt : j < A.length := by
        by_contra hn
        rw [List.getElem?_eq_none (by omega)] at hj; cases hj
      exact h j lo hi (by rw [List.getElem?_append_left hlt]; exact hj)
    · have := h (A.length + j) lo hi (by rw [List.getElem?_append_right (by omega)]; simpa using hj)
      rwa [← Nat.add_assoc] at this
  · rintro ⟨h1, h2⟩ j lo hi hj
    by_cases hlt : j < A.length
    · rw [List.getElem?_append_left hlt] at hj; exact h1 j lo hi hj
    · rw [List.getElem?_append_right (by omega)] at hj
      have := h2 (j - A.length) lo hi hj
      rwa [Nat.add_assoc, Nat.add_sub_cancel' (by omega)] at this

theorem shifted_bool (σ : Asg) (base n : Nat) : Shifted σ base (List.replicate n .bool) := by
  intro j lo hi hj
  rw [List.getElem?_replicate] at hj
  split at hj <;> cases hj

theorem shifted_int (σ : Asg) (base n : Nat) (lo hi : Int) :
    Shifted σ base (List.replicate n (.int lo hi)) ↔ ∀ j, j < n → lo ≤ σ.i (base + j) ∧ σ.i (base + j) ≤ hi := by
  constructor
  · intro h j hj
    exact h j lo hi (by rw [List.getElem?_replicate, if_pos hj])
  · intro h j lo' hi' hj
    rw [List.getElem?_replicate] at hj
    split at hj
    · next hlt =>
      simp only [Option.some.injEq, VarDecl.int.injEq] at hj
      obtain ⟨rfl, rfl⟩ := hj
      exact h j hlt
    · cases hj

theorem bounds_iff (pb : Problem) (H W : Nat) (σ : Asg) :
    σ.respects (declsE pb H W) ↔
      (∀ p : Pt, p.1 ≤ H → p.2 ≤ W →
        0 ≤ rankσ H W σ p ∧ rankσ H W σ p ≤ ((H + 1 : Nat) : Int) * ((W + 1 : Nat) : Int) - 1) ∧
      (∀ s : Seg, s.Valid H W → 0 ≤ ntσ H W σ s ∧ ntσ H W σ s ≤ maxNS pb + 1) := by
  rw [respects_iff_shifted, declsE, shifted_append, shifted_append, shifted_append, shifted_int, shifted_int, shifted_int,
    forall_seg_split H W, forall_lt_mul, forall_lt_mul, forall_lt_mul]
  simp only [List.length_append, List.length_replicate, Nat.zero_add, rankσ, ntσ, ntH, ntV]
  constructor
  · rintro ⟨⟨⟨_, h1⟩, h2⟩, h3⟩
    exact ⟨fun p hy hx => h1 p.1 (by omega) p.2 (by omega), h2, h3⟩
  · rintro ⟨h1, h2, h3⟩
    exact ⟨⟨⟨shifted_bool _ _ _, fun y hy x hx => h1 (y, x) (by simp only; omega) (by simp only; omega)⟩, h2⟩, h3⟩

/-! ### the `adj` table by direction -/

/-- The `adj` entry of the cell `p` for direction `d` (meaningful when `has H W p d`). -/
def dirAdj (H W : Nat) (p : Pt) : Dir → Adj
  | .up => mkAdj (geomV (2 * Frame.numVars H W) H W (p.1 - 1) p.2) (geomV (Frame.numVars H W) H W (p.1 - 1) p.2)
      (ntV H W (p.1 - 1) p.2)
  | .down => mkAdj (geomV (Frame.numVars H W) H W p.1 p.2) (geomV (2 * Frame.numVars H W) H W p.1 p.2) (ntV H W p.1 p.2)
  | .left => mkAdj (geomH (2 * Frame.numVars H W) H W p.1 (p.2 - 1)) (geomH (Frame.numVars H W) H W p.1 (p.2 - 1))
      (ntH H W p.1 (p.2 - 1))
  | .right => mkAdj (geomH (Frame.numVars H W) H W p.1 p.2) (geomH (2 * Frame.numVars H W) H W p.1 p.2) (ntH H W p.1 p.2)

def entry (H W : Nat) (p : Pt) (d : Dir) : Option Adj := if has H W p d = true then some (dirAdj H W p d) else none

/-- Position of a direction in `adj`. -/
def idx : Dir → Nat
  | .up => 0 | .down => 1 | .left => 2 | .right => 3

theorem adjS_eq (H W y x : Nat) : adjS H W y x = dirs.map (entry H W (y, x)) := by
  simp only [adjS, dirs, entry, has, dirAdj, List.map_cons, List.map_nil, decide_eq_true_eq, gt_iff_lt]

theorem adjS_zipIdx (H W y x : Nat) :
    (adjS H W y x).zipIdx = dirs.map fun d => (entry H W (y, x) d, idx d) := by
  rw [adjS_eq]; rfl

theorem mem_dirs (d : Dir) : d ∈ dirs := by cases d <;> simp [dirs]

theorem idx_inj {d d' : Dir} : idx d = idx d' ↔ d = d' := by
  cases d <;> cases d' <;> simp [idx]

theorem idx_axis (d d' : Dir) : (idx d / 2 == idx d' / 2) = (isVert d == isVert d') := by
  cases d <;> cases d' <;> rfl

theorem ev_in (H W : Nat) (σ : Asg) (p : Pt) (d : Dir) :
    eval σ (dirAdj H W p d).inE = some (.b (inTo (ulσ H W σ) (drσ H W σ) p d)) := by
  cases d <;> exact ev_bvar _ _

theorem ev_out (H W : Nat) (σ : Asg) (p : Pt) (d : Dir) :
    eval σ (dirAdj H W p d).outE = some (.b (outFrom (ulσ H W σ) (drσ H W σ) p d)) := by
  cases d <;> exact ev_bvar _ _

theorem ev_nt (H W : Nat) (σ : Asg) (p : Pt) (d : Dir) :
    eval σ (dirAdj H W p d).nt = some (.i (ntσ H W σ (segOf p d))) := by
  cases d <;> exact ev_ivar _ _

theorem ev_eqE {σ : Asg} {t : Expr} {v : Int} (ht : eval σ t = some (.i v)) (n : Int) :
    eval σ (eqE t n) = some (.b (v == n)) := by
  unfold eqE
  rw [eval_cmp rfl ht (ev_litI σ n)]; rfl

/-! ### a firefly cell -/

section
variable (H W : Nat) (σ : Asg)

local notation "UL" => ulσ H W σ
local notation "DR" => drσ H W σ
local notation "NT" => ntσ H W σ

theorem flySide_iff (p : Pt) (d : Dir) (unk : Int) :
    (∀ c ∈ flySideE unk (dirAdj H W p d), eval σ c = some (.b true)) ↔
      (outFrom UL DR p d = false ∧ (inTo UL DR p d = true → NT (segOf p d) = 0 ∨ NT (segOf p d) = unk)) := by
  simp only [flySideE, List.mem_cons, List.not_mem_nil, or_false, forall_eq_or_imp, forall_eq]
  rw [eval_not (ev_out H W σ p d),
    ev_imp (ev_in H W σ p d) (ev_or (ev_eqE (ev_nt H W σ p d) 0) (ev_eqE (ev_nt H W σ p d) unk)),
    some_b_true, some_b_true]
  cases outFrom UL DR p d <;> cases inTo UL DR p d <;> simp

theorem forall_mem_flatten_dirs {α : Type} (f : Dir → List α) (P : α → Prop) :
    (∀ c ∈ (dirs.map f).flatten, P c) ↔ ∀ d, ∀ c ∈ f d, P c := by
  constructor
  · intro h d c hc
    exact h c (List.mem_flatten.mpr ⟨f d, List.mem_map.mpr ⟨d, mem_dirs d, rfl⟩, hc⟩)
  · intro h c hc
    obtain ⟨l, hl, hcl⟩ := List.mem_flatten.mp hc
    obtain ⟨d, _, rfl⟩ := List.mem_map.mp hl
    exact h d c hcl

theorem flyRest_iff (y x : Nat) (d0 : Dir) (unk : Int) :
    (∀ c ∈ flyRestE (adjS H W y x) (idx d0) unk, eval σ c = some (.b true)) ↔
      ∀ d, d ≠ d0 → has H W (y, x) d = true →
        outFrom UL DR (y, x) d = false ∧
          (inTo UL DR (y, x) d = true → NT (segOf (y, x) d) = 0 ∨ NT (segOf (y, x) d) = unk) := by
  unfold flyRestE
  rw [adjS_zipIdx, List.map_map, forall_mem_flatten_dirs]
  apply forall_congr'
  intro d
  simp only [Function.comp, flyRestStepE, entry]
  by_cases hh : has H W (y, x) d = true
  · simp only [hh, if_true]
    by_cases hd : d = d0
    · subst hd; simp
    · have : (idx d != idx d0) = true := by simp [idx_inj, hd]
      simp only [this, if_true, flySide_iff, hd, ne_eq, not_false_eq_true, true_implies]
  · simp only [hh, Bool.false_eq_true, if_false, List.not_mem_nil, false_implies, implies_true]

def numOpt : Num → Option Int
  | .num k => some k
  | _ => none

theorem targetOf_eq (n : Num) (unk : Int) : targetOf n unk = (numOpt n).getD unk := by
  cases n <;> rfl

theorem adjS_at (y x : Nat) (d : Firefly.Dir) :
    (adjS H W y x)[d.idx]? = some (entry H W (y, x) (Spec.Firefly.ld d)) := by
  rw [adjS_eq]; cases d <;> rfl

theorem idx_ld (d : Firefly.Dir) : idx (Spec.Firefly.ld d) = d.idx := by cases d <;> rfl

/-- The constraints of a firefly cell hold iff `FlyOk` holds of the assignment. -/
theorem fly_iff (y x : Nat) (d : Firefly.Dir) (n : Num) (unk : Int) :
    (∀ c ∈ (flyPart (adjS H W y x) d.idx (targetOf n unk) unk).1, eval σ c = some (.b true)) ↔
      FlyOk H W unk UL DR NT (y, x) (Spec.Firefly.ld d) (numOpt n) := by
  unfold flyPart
  rw [adjS_at, entry]
  unfold FlyOk
  by_cases hh : has H W (y, x) (Spec.Firefly.ld d) = true
  · simp only [hh, if_true, flyE, List.mem_cons, forall_eq_or_imp, true_and]
    rw [← idx_ld, flyRest_iff, ev_out H W σ, ev_eqE (ev_nt H W σ _ _), some_b_true, some_b_true, targetOf_eq]
    simp only [beq_iff_eq]
  · simp only [hh, Bool.false_eq_true, if_false, List.mem_cons, List.not_mem_nil, or_false, forall_eq, false_and, iff_false]
    simp [eval]

/-! ### an empty cell -/

theorem filterMap_ite {α β : Type} (c : α → Bool) (g : α → β) :
    ∀ l : List α, l.filterMap (fun a => if c a = true then some (g a) else none) = (l.filter c).map g
  | [] => rfl
  | a :: l => by
    by_cases h : c a = true
    · simp [h, filterMap_ite c g l]
    · simp [h, filterMap_ite c g l]

theorem present_eq (y x : Nat) :
    (adjS H W y x).filterMap id = (dirs.filter (has H W (y, x))).map (dirAdj H W (y, x)) := by
  rw [adjS_eq, List.filterMap_map]
  exact filterMap_ite (has H W (y, x)) (dirAdj H W (y, x)) dirs

theorem count_true_map {α : Type} (l : List α) (f : α → Bool) : (l.map f).count true = (l.filter f).length := by
  rw [List.count_eq_countP, List.countP_map, List.countP_eq_length_filter]
  congr 1
  apply List.filter_congr
  intro a _; simp

theorem ev_inCount (y x : Nat) :
    eval σ (inCount (adjS H W y x)) = some (.i ((inCnt H W UL DR (y, x) : Nat) : Int)) := by
  unfold inCount
  rw [present_eq, eval_countTrueE (σ := σ) ((dirs.filter (has H W (y, x))).map (inTo UL DR (y, x))) (by
    simp only [List.map_map]
    apply List.map_congr_left
    intro d _
    exact ev_in H W σ (y, x) d)]
  rw [count_true_map, List.filter_filter]
  simp only [inCnt, Bool.and_comm]

theorem ev_outCount (y x : Nat) :
    eval σ (outCount (adjS H W y x)) = some (.i ((outCnt H W UL DR (y, x) : Nat) : Int)) := by
  unfold outCount
  rw [present_eq, eval_countTrueE (σ := σ) ((dirs.filter (has H W (y, x))).map (outFrom UL DR (y, x))) (by
    simp only [List.map_map]
    apply List.map_congr_left
    intro d _
    exact ev_out H W σ (y, x) d)]
  rw [count_true_map, List.filter_filter]
  simp only [outCnt, Bool.and_comm]

/-- What the pair constraint says about the sides `d` (in) and `d'` (out). -/
def PairOk (unk : Int) (p : Pt) (d d' : Dir) : Prop :=
  inTo UL DR p d = true → outFrom UL DR p d' = true →
    if isVert d = isVert d' then NT (segOf p d) = NT (segOf p d')
    else (NT (segOf p d) = unk ∧ NT (segOf p d') = unk) ∨ NT (segOf p d) = NT (segOf p d') + 1

theorem imp_and_iff (a b c : Bool) : ((!(a && b) || c) = true) ↔ (a = true → b = true → c = true) := by
  cases a <;> cases b <;> cases c <;> simp

theorem pairE_iff (unk : Int) (p : Pt) (d d' : Dir) :
    eval σ (pairE unk (idx d) (idx d') (dirAdj H W p d) (dirAdj H W p d')) = some (.b true) ↔ PairOk H W σ unk p d d' := by
  unfold pairE PairOk
  rw [idx_axis]
  by_cases hv : isVert d = isVert d'
  · have hb : (isVert d == isVert d') = true := by simp [hv]
    rw [if_pos hb, if_pos hv,
      ev_imp (eval_and2 (ev_in H W σ p d) (ev_out H W σ p d'))
        (eval_cmp (op := .eq) rfl (ev_nt H W σ p d) (ev_nt H W σ p d')),
      some_b_true, imp_and_iff]
    simp only [cmpOp_eq, beq_iff_eq]
  · have hb : ¬ (isVert d == isVert d') = true := by simp [hv]
    rw [if_neg hb, if_neg hv,
      ev_imp (eval_and2 (ev_in H W σ p d) (ev_out H W σ p d'))
        (ev_or (eval_and2 (ev_eqE (ev_nt H W σ p d) unk) (ev_eqE (ev_nt H W σ p d') unk))
          (eval_cmp (op := .eq) rfl (ev_nt H W σ p d) (ev_add (ev_nt H W σ p d') (ev_litI σ 1)))),
      some_b_true, imp_and_iff]
    simp only [cmpOp_eq, beq_iff_eq, Bool.or_eq_true, Bool.and_eq_true]

theorem pairs_iff (y x : Nat) (unk : Int) :
    (∀ c ∈ pairsE (adjS H W y x) unk, eval σ c = some (.b true)) ↔
      ∀ d d', d ≠ d' → has H W (y, x) d = true → has H W (y, x) d' = true → PairOk H W σ unk (y, x) d d' := by
  unfold pairsE
  rw [adjS_zipIdx, List.map_map, List.map_map, forall_mem_flatten_dirs]
  apply forall_congr'
  intro d
  simp only [Function.comp, List.map_map]
  rw [forall_mem_flatten_dirs]
  apply forall_congr'
  intro d'
  simp only [Function.comp, pairStepE, entry]
  by_cases h1 : has H W (y, x) d = true <;> by_cases h2 : has H W (y, x) d' = true
  · simp only [h1, h2, if_true]
    by_cases hd : d = d'
    · subst hd; simp
    · have : (idx d != idx d') = true := by simp [idx_inj, hd]
      simp only [this, if_true, List.mem_cons, List.not_mem_nil, or_false, forall_eq, pairE_iff, hd, ne_eq,
        not_false_eq_true, true_implies]
  · simp [h1, h2]
  · simp [h1, h2]
  · simp [h1, h2]

/-- The constraints of an empty cell hold iff `EmptyOk` holds of the assignment. -/
theorem empty_iff (y x : Nat) (unk : Int) :
    (∀ c ∈ emptyE (adjS H W y x) unk, eval σ c = some (.b true)) ↔ EmptyOk H W unk UL DR NT (y, x) := by
  unfold emptyE EmptyOk
  simp only [List.mem_cons, forall_eq_or_imp]
  rw [pairs_iff, eval_cmp (op := .le) rfl (ev_inCount H W σ y x) (ev_litI σ 1),
    eval_cmp (op := .eq) rfl (ev_inCount H W σ y x) (ev_outCount H W σ y x), some_b_true, some_b_true]
  simp only [cmpOp_le, cmpOp_eq, decide_eq_true_eq, beq_iff_eq, PairOk]
  constructor
  · rintro ⟨h1, h2, h3⟩
    exact ⟨by omega, by omega, fun d d' hd a b c e => h3 d d' hd a b c e⟩
  · rintro ⟨h1, h2, h3⟩
    exact ⟨by omega, by omega, fun d d' hd a b c e => h3 d d' hd a b c e⟩

end

/-! ### all cells -/

theorem rowE_iff (g : Nat → List Expr × Bool) (P : Expr → Prop) :
    ∀ xs : List Nat, (∀ x ∈ xs, (g x).2 = true → ¬ ∀ c ∈ (g x).1, P c) →
      ((∀ c ∈ rowE g xs, P c) ↔ ∀ x ∈ xs, ∀ c ∈ (g x).1, P c)
  | [], _ => by simp [rowE]
  | x :: xs, hb => by
    have ih := rowE_iff g P xs (fun x' hx' => hb x' (List.mem_cons_of_mem _ hx'))
    unfold rowE
    by_cases hx : (g x).2 = true
    · have hno := hb x (List.mem_cons_self ..) hx
      simp only [hx, if_true, List.mem_cons, forall_eq_or_imp]
      constructor
      · intro h; exact absurd h hno
      · intro h; exact h.1
    · simp only [hx, Bool.false_eq_true, if_false, List.mem_append, or_imp, forall_and, List.mem_cons, forall_eq]
      rw [ih]

theorem cellE_break (pb : Problem) (H W : Nat) (σ : Asg) (unk : Int) (y x : Nat)
    (hb : (cellE pb H W unk y x).2 = true) : ¬ ∀ c ∈ (cellE pb H W unk y x).1, eval σ c = some (.b true) := by
  have hno : ¬ ∀ c ∈ [Expr.litB false], eval σ c = some (.b true) := by
    intro h
    have := h (.litB false) (List.mem_cons_self ..)
    simp [eval] at this
  unfold cellE at hb ⊢
  split at hb
  · cases hb
  · unfold flyPart at hb ⊢
    split at hb
    · cases hb
    · exact hno
  · cases hb

/-- The per-cell constraints hold iff every firefly cell is `FlyOk` and every empty cell `EmptyOk`. -/
theorem cells_iff {pb : Problem} (hw : WellFormed pb) {H W : Nat} (hH : pb.height = H + 1) (hW : pb.width = W + 1)
    (σ : Asg) :
    (∀ c ∈ rowsE pb H W, eval σ c = some (.b true)) ↔
      (∀ y, y ≤ H → ∀ x, x ≤ W → ∀ d n, firefly pb (y, x) = some (d, n) →
        FlyOk H W (maxNS pb + 1) (ulσ H W σ) (drσ H W σ) (ntσ H W σ) (y, x) d n) ∧
      (∀ y, y ≤ H → ∀ x, x ≤ W → firefly pb (y, x) = none →
        EmptyOk H W (maxNS pb + 1) (ulσ H W σ) (drσ H W σ) (ntσ H W σ) (y, x)) := by
  have hcell : ∀ y, y ≤ H → ∀ x, x ≤ W →
      ((∀ c ∈ (cellE pb H W (maxNS pb + 1) y x).1, eval σ c = some (.b true)) ↔
        ((∀ d n, firefly pb (y, x) = some (d, n) →
          FlyOk H W (maxNS pb + 1) (ulσ H W σ) (drσ H W σ) (ntσ H W σ) (y, x) d n) ∧
        (firefly pb (y, x) = none → EmptyOk H W (maxNS pb + 1) (ulσ H W σ) (drσ H W σ) (ntσ H W σ) (y, x)))) := by
    intro y hy x hx
    unfold cellE firefly
    rcases hw.2.2.2.2.1 y (by omega) x (by omega) with h | ⟨d, h⟩ | ⟨d, k, h⟩ <;> simp only [h]
    · rw [empty_iff]; simp
    · rw [fly_iff]; simp [numOpt]
    · rw [fly_iff]; simp [numOpt]
  unfold rowsE
  simp only [List.mem_flatten, List.mem_map, List.mem_range]
  constructor
  · intro h
    have hall : ∀ y, y ≤ H → ∀ x, x ≤ W → ∀ c ∈ (cellE pb H W (maxNS pb + 1) y x).1, eval σ c = some (.b true) := by
      intro y hy
      have hrow : ∀ c ∈ rowE (cellE pb H W (maxNS pb + 1) y) (List.range (W + 1)), eval σ c = some (.b true) :=
        fun c hc => h c ⟨_, ⟨y, by omega, rfl⟩, hc⟩
      rw [rowE_iff _ _ _ (fun x _ hb => cellE_break pb H W σ _ y x hb)] at hrow
      intro x hx; exact hrow x (List.mem_range.mpr (by omega))
    exact ⟨fun y hy x hx => ((hcell y hy x hx).mp (hall y hy x hx)).1,
      fun y hy x hx => ((hcell y hy x hx).mp (hall y hy x hx)).2⟩
  · rintro ⟨h1, h2⟩ c ⟨l, ⟨y, hy, rfl⟩, hc⟩
    have hrow : ∀ c ∈ rowE (cellE pb H W (maxNS pb + 1) y) (List.range (W + 1)), eval σ c = some (.b true) := by
      rw [rowE_iff _ _ _ (fun x _ hb => cellE_break pb H W σ _ y x hb)]
      intro x hx
      have hx' := List.mem_range.mp hx
      exact (hcell y (by omega) x (by omega)).mpr ⟨h1 y (by omega) x (by omega), h2 y (by omega) x (by omega)⟩
    exact hrow c hc

/-! ### the certificate as a predicate on explicit functions, and its invariance -/

def CertP (pb : Problem) (H W : Nat) (unk : Int) (on ul dr ig : Seg → Bool) (rank : Pt → Int) (nt : Seg → Int) : Prop :=
  (∀ s : Seg, s.Valid H W → on s = (ul s || dr s) ∧ (ul s && dr s) = false) ∧
  ((allSegs H W).filter ig).length = 1 ∧
  (∀ p : Pt, p.1 ≤ H → p.2 ≤ W → 0 ≤ rank p ∧ rank p ≤ ((H + 1 : Nat) : Int) * ((W + 1 : Nat) : Int) - 1) ∧
  (∀ s : Seg, s.Valid H W → 0 ≤ nt s ∧ nt s ≤ unk) ∧
  (∀ s : Seg, s.Valid H W → ul s = true → ig s = false → rank s.ends.1 < rank s.ends.2) ∧
  (∀ s : Seg, s.Valid H W → dr s = true → ig s = false → rank s.ends.1 > rank s.ends.2) ∧
  (∀ y, y ≤ H → ∀ x, x ≤ W → ∀ d n, firefly pb (y, x) = some (d, n) → FlyOk H W unk ul dr nt (y, x) d n) ∧
  (∀ y, y ≤ H → ∀ x, x ≤ W → firefly pb (y, x) = none → EmptyOk H W unk ul dr nt (y, x))

theorem hasCert_iff (pb : Problem) (H W : Nat) (unk : Int) (on : Seg → Bool) :
    HasCert pb H W unk on ↔ ∃ ul dr ig rank nt, CertP pb H W unk on ul dr ig rank nt := by
  constructor
  · rintro ⟨c⟩
    exact ⟨c.ul, c.dr, c.ig, c.rank, c.nt, c.orient, c.oneIgnored, c.rankBound, c.ntBound, c.rankUl, c.rankDr,
      c.flies, c.empties⟩
  · rintro ⟨ul, dr, ig, rank, nt, h1, h2, h3, h4, h5, h6, h7, h8⟩
    exact ⟨⟨ul, dr, ig, rank, nt, h1, h2, h3, h4, h5, h6, h7, h8⟩⟩

theorem segOf_valid (H W : Nat) (p : Pt) (hy : p.1 ≤ H) (hx : p.2 ≤ W) (d : Dir) (hd : has H W p d = true) :
    (segOf p d).Valid H W := by
  cases d <;> simp only [has, decide_eq_true_eq] at hd <;> simp only [segOf, Seg.Valid] <;> omega

theorem ends_valid (H W : Nat) (s : Seg) (hs : s.Valid H W) :
    (s.ends.1.1 ≤ H ∧ s.ends.1.2 ≤ W) ∧ (s.ends.2.1 ≤ H ∧ s.ends.2.2 ≤ W) := by
  cases s <;> simp only [Seg.Valid] at hs <;> simp only [Seg.ends] <;> omega

section congr
variable {H W : Nat} {ul dr ul' dr' : Seg → Bool} {nt nt' : Seg → Int}

theorem inTo_congr (hu : ∀ s, s.Valid H W → ul s = ul' s) (hd : ∀ s, s.Valid H W → dr s = dr' s)
    (p : Pt) (hy : p.1 ≤ H) (hx : p.2 ≤ W) (d : Dir) (h : has H W p d = true) :
    inTo ul dr p d = inTo ul' dr' p d := by
  have hv := segOf_valid H W p hy hx d h
  cases d <;> simp only [inTo] <;> first | exact hu _ hv | exact hd _ hv

theorem outFrom_congr (hu : ∀ s, s.Valid H W → ul s = ul' s) (hd : ∀ s, s.Valid H W → dr s = dr' s)
    (p : Pt) (hy : p.1 ≤ H) (hx : p.2 ≤ W) (d : Dir) (h : has H W p d = true) :
    outFrom ul dr p d = outFrom ul' dr' p d := by
  have hv := segOf_valid H W p hy hx d h
  cases d <;> simp only [outFrom] <;> first | exact hu _ hv | exact hd _ hv

theorem inCnt_congr (hu : ∀ s, s.Valid H W → ul s = ul' s) (hd : ∀ s, s.Valid H W → dr s = dr' s)
    (p : Pt) (hy : p.1 ≤ H) (hx : p.2 ≤ W) : inCnt H W ul dr p = inCnt H W ul' dr' p := by
  unfold inCnt
  congr 1
  apply List.filter_congr
  intro d _
  by_cases h : has H W p d = true
  · rw [inTo_congr hu hd p hy hx d h]
  · simp [h]

theorem outCnt_congr (hu : ∀ s, s.Valid H W → ul s = ul' s) (hd : ∀ s, s.Valid H W → dr s = dr' s)
    (p : Pt) (hy : p.1 ≤ H) (hx : p.2 ≤ W) : outCnt H W ul dr p = outCnt H W ul' dr' p := by
  unfold outCnt
  congr 1
  apply List.filter_congr
  intro d _
  by_cases h : has H W p d = true
  · rw [outFrom_congr hu hd p hy hx d h]
  · simp [h]

theorem flyOk_congr (hu : ∀ s, s.Valid H W → ul s = ul' s) (hd : ∀ s, s.Valid H W → dr s = dr' s)
    (hn : ∀ s, s.Valid H W → nt s = nt' s) (unk : Int) (p : Pt) (hy : p.1 ≤ H) (hx : p.2 ≤ W) (d0 : Dir) (n : Option Int)
    (h : FlyOk H W unk ul dr nt p d0 n) : FlyOk H W unk ul' dr' nt' p d0 n := by
  obtain ⟨h1, h2, h3, h4⟩ := h
  refine ⟨h1, ?_, ?_, ?_⟩
  · rw [← outFrom_congr hu hd p hy hx d0 h1]; exact h2
  · rw [← hn _ (segOf_valid H W p hy hx d0 h1)]; exact h3
  · intro d hne hh
    rw [← outFrom_congr hu hd p hy hx d hh, ← inTo_congr hu hd p hy hx d hh, ← hn _ (segOf_valid H W p hy hx d hh)]
    exact h4 d hne hh

theorem emptyOk_congr (hu : ∀ s, s.Valid H W → ul s = ul' s) (hd : ∀ s, s.Valid H W → dr s = dr' s)
    (hn : ∀ s, s.Valid H W → nt s = nt' s) (unk : Int) (p : Pt) (hy : p.1 ≤ H) (hx : p.2 ≤ W)
    (h : EmptyOk H W unk ul dr nt p) : EmptyOk H W unk ul' dr' nt' p := by
  obtain ⟨h1, h2, h3⟩ := h
  refine ⟨?_, ?_, ?_⟩
  · rw [← inCnt_congr hu hd p hy hx]; exact h1
  · rw [← inCnt_congr hu hd p hy hx, ← outCnt_congr hu hd p hy hx]; exact h2
  · intro d d' hne hh hh'
    rw [← inTo_congr hu hd p hy hx d hh, ← outFrom_congr hu hd p hy hx d' hh',
      ← hn _ (segOf_valid H W p hy hx d hh), ← hn _ (segOf_valid H W p hy hx d' hh')]
    exact h3 d d' hne hh hh'

end congr

theorem certP_congr (pb : Problem) (H W : Nat) (unk : Int) {on ul dr ig on' ul' dr' ig' : Seg → Bool}
    {rank rank' : Pt → Int} {nt nt' : Seg → Int}
    (ho : ∀ s, s.Valid H W → on s = on' s) (hu : ∀ s, s.Valid H W → ul s = ul' s)
    (hd : ∀ s, s.Valid H W → dr s = dr' s) (hi : ∀ s, s.Valid H W → ig s = ig' s)
    (hr : ∀ p : Pt, p.1 ≤ H → p.2 ≤ W → rank p = rank' p) (hn : ∀ s, s.Valid H W → nt s = nt' s)
    (h : CertP pb H W unk on ul dr ig rank nt) : CertP pb H W unk on' ul' dr' ig' rank' nt' := by
  obtain ⟨h1, h2, h3, h4, h5, h6, h7, h8⟩ := h
  refine ⟨?_, ?_, ?_, ?_, ?_, ?_, ?_, ?_⟩
  · intro s hs; rw [← ho s hs, ← hu s hs, ← hd s hs]; exact h1 s hs
  · rw [← h2]; congr 1; apply List.filter_congr; intro s hs; exact (hi s ((mem_allSegs H W s).mp hs)).symm
  · intro p hy hx; rw [← hr p hy hx]; exact h3 p hy hx
  · intro s hs; rw [← hn s hs]; exact h4 s hs
  · intro s hs; rw [← hu s hs, ← hi s hs, ← hr _ (ends_valid H W s hs).1.1 (ends_valid H W s hs).1.2,
      ← hr _ (ends_valid H W s hs).2.1 (ends_valid H W s hs).2.2]; exact h5 s hs
  · intro s hs; rw [← hd s hs, ← hi s hs, ← hr _ (ends_valid H W s hs).1.1 (ends_valid H W s hs).1.2,
      ← hr _ (ends_valid H W s hs).2.1 (ends_valid H W s hs).2.2]; exact h6 s hs
  · intro y hy x hx d n hf; exact flyOk_congr hu hd hn unk (y, x) hy hx d n (h7 y hy x hx d n hf)
  · intro y hy x hx hf; exact emptyOk_congr hu hd hn unk (y, x) hy hx (h8 y hy x hx hf)

/-! ### models of the program ⇔ certificates read off the assignment -/

theorem sat_iff {pb : Problem} (hw : WellFormed pb) {H W : Nat} (hH : pb.height = H + 1) (hW : pb.width = W + 1)
    (σ : Asg) :
    Sat (progE pb H W).decls (progE pb H W).cs σ ↔
      CertP pb H W (maxNS pb + 1) (onσ H W σ) (ulσ H W σ) (drσ H W σ) (igσ H W σ) (rankσ H W σ) (ntσ H W σ) := by
  unfold Sat CertP progE
  simp only
  rw [bounds_iff]
  have htop : (∀ c ∈ topE H W, eval σ c = some (.b true)) ↔
      ((∀ c ∈ orientIff (Frame.numVars H W) ++ orientNot (Frame.numVars H W), eval σ c = some (.b true)) ∧
        eval σ (ignoredOne (Frame.numVars H W)) = some (.b true)) ∧ (∀ c ∈ rankAll H W, eval σ c = some (.b true)) := by
    simp only [topE, rankAll, List.mem_append, List.mem_cons, List.not_mem_nil, or_false, or_imp, forall_and, forall_eq]
    tauto
  have hcs : (∀ c ∈ topE H W ++ rowsE pb H W, eval σ c = some (.b true)) ↔
      (∀ c ∈ topE H W, eval σ c = some (.b true)) ∧ (∀ c ∈ rowsE pb H W, eval σ c = some (.b true)) := by
    simp only [List.mem_append, or_imp, forall_and]
  rw [hcs, htop, orient_iff, ignored_iff, rank_iff, cells_iff hw hH hW]
  tauto

/-! ### an assignment that carries given functions -/

/-- The assignment whose frames / arrays hold the given functions. -/
def mkσ (H W : Nat) (on ul dr ig : Seg → Bool) (rank : Pt → Int) (nt : Seg → Int) : Asg :=
  let N := Frame.numVars H W
  { b := fun id =>
      match (allSegs H W)[id % N]? with
      | some s => if id / N = 0 then on s else if id / N = 1 then ul s else if id / N = 2 then dr s else ig s
      | none => false,
    i := fun id =>
      if id < 4 * N + (H + 1) * (W + 1) then rank ((id - 4 * N) / (W + 1), (id - 4 * N) % (W + 1))
      else if id < 4 * N + (H + 1) * (W + 1) + (H + 1) * W then
        nt (Seg.h ((id - (4 * N + (H + 1) * (W + 1))) / W) ((id - (4 * N + (H + 1) * (W + 1))) % W))
      else nt (Seg.v ((id - (4 * N + (H + 1) * (W + 1) + (H + 1) * W)) / (W + 1))
        ((id - (4 * N + (H + 1) * (W + 1) + (H + 1) * W)) % (W + 1))) }

section mk
variable (H W : Nat) (on ul dr ig : Seg → Bool) (rank : Pt → Int) (nt : Seg → Int)

theorem mkσ_b (k : Nat) (s : Seg) (hs : s.Valid H W) :
    (mkσ H W on ul dr ig rank nt).b (s.var (k * Frame.numVars H W) H W) =
      if k = 0 then on s else if k = 1 then ul s else if k = 2 then dr s else ig s := by
  have hlt := var_lt H W s hs
  have hpos : 0 < Frame.numVars H W := by omega
  rw [var_base]
  simp only [mkσ]
  have e1 : (k * Frame.numVars H W + Seg.var 0 H W s) % Frame.numVars H W = Seg.var 0 H W s := by
    rw [Nat.mul_comm, Nat.mul_add_mod, Nat.mod_eq_of_lt hlt]
  have e2 : (k * Frame.numVars H W + Seg.var 0 H W s) / Frame.numVars H W = k := by
    rw [Nat.mul_comm, Nat.mul_add_div hpos, Nat.div_eq_of_lt hlt]; simp
  rw [e1, e2, C11Loop.allSegs_var_getElem? H W s hs]

theorem mkσ_on (s : Seg) (hs : s.Valid H W) : onσ H W (mkσ H W on ul dr ig rank nt) s = on s := by
  have := mkσ_b H W on ul dr ig rank nt 0 s hs
  simpa [onσ] using this

theorem mkσ_ul (s : Seg) (hs : s.Valid H W) : ulσ H W (mkσ H W on ul dr ig rank nt) s = ul s := by
  have := mkσ_b H W on ul dr ig rank nt 1 s hs
  simpa [ulσ] using this

theorem mkσ_dr (s : Seg) (hs : s.Valid H W) : drσ H W (mkσ H W on ul dr ig rank nt) s = dr s := by
  have := mkσ_b H W on ul dr ig rank nt 2 s hs
  simpa [drσ] using this

theorem mkσ_ig (s : Seg) (hs : s.Valid H W) : igσ H W (mkσ H W on ul dr ig rank nt) s = ig s := by
  have := mkσ_b H W on ul dr ig rank nt 3 s hs
  simpa [igσ] using this

theorem mkσ_rank (p : Pt) (hy : p.1 ≤ H) (hx : p.2 ≤ W) : rankσ H W (mkσ H W on ul dr ig rank nt) p = rank p := by
  simp only [rankσ, mkσ]
  have hlt : p.1 * (W + 1) + p.2 < (H + 1) * (W + 1) := C11Grid.cell_lt (by omega) (by omega)
  rw [if_pos (by omega), Nat.add_sub_cancel_left, (C11Grid.cell_div_mod (show p.2 < W + 1 by omega)).1,
    (C11Grid.cell_div_mod (show p.2 < W + 1 by omega)).2]

theorem mkσ_nt (s : Seg) (hs : s.Valid H W) : ntσ H W (mkσ H W on ul dr ig rank nt) s = nt s := by
  cases s with
  | h y x =>
    obtain ⟨hy, hx⟩ := hs
    have hlt : y * W + x < (H + 1) * W := C11Grid.cell_lt (by omega) hx
    simp only [ntσ, ntH, mkσ]
    rw [if_neg (by omega), if_pos (by omega), Nat.add_sub_cancel_left, (C11Grid.cell_div_mod hx).1,
      (C11Grid.cell_div_mod hx).2]
  | v y x =>
    obtain ⟨hy, hx⟩ := hs
    have hlt : y * (W + 1) + x < H * (W + 1) := C11Grid.cell_lt hy (by omega)
    simp only [ntσ, ntV, mkσ]
    rw [if_neg (by omega), if_neg (by omega), Nat.add_sub_cancel_left,
      (C11Grid.cell_div_mod (show x < W + 1 by omega)).1, (C11Grid.cell_div_mod (show x < W + 1 by omega)).2]

end mk

/-! ### the program encodes "there is a certificate" -/

theorem encodes_cert {pb : Problem} (hw : WellFormed pb) {H W : Nat} (hH : pb.height = H + 1) (hW : pb.width = W + 1) :
    EncodesRules (progE pb H W)
      (fun a => ∃ on : Seg → Bool, a = segAnswer H W on ∧ HasCert pb H W (maxNS pb + 1) on) := by
  have hdecl : (progE pb H W).decls = List.replicate (Frame.numVars H W) .bool ++
      (List.replicate (3 * Frame.numVars H W) .bool ++
        List.replicate ((H + 1) * (W + 1)) (.int 0 (((H + 1 : Nat) : Int) * ((W + 1 : Nat) : Int) - 1)) ++
        List.replicate ((H + 1) * W) (.int 0 (maxNS pb + 1)) ++ List.replicate (H * (W + 1)) (.int 0 (maxNS pb + 1))) := by
    have e : List.replicate (4 * Frame.numVars H W) VarDecl.bool
        = List.replicate (Frame.numVars H W) .bool ++ List.replicate (3 * Frame.numVars H W) .bool := by
      rw [← List.replicate_add]; congr 1; omega
    simp only [progE, declsE, e, List.append_assoc]
  have hkv : ∀ σ : Asg, (progE pb H W).keyVals σ = (segAnswer H W (onσ H W σ)).map some := by
    intro σ
    unfold PuzzleProg.keyVals
    rw [hdecl]
    exact C11Loop.keyVals_frame H W _ σ
  intro a
  constructor
  · rintro ⟨σ, hσ, hk⟩
    refine ⟨onσ H W σ, ?_, ?_⟩
    · rw [hkv] at hk
      exact ((List.map_inj_right (fun _ _ e => Option.some.inj e)).mp hk).symm
    · rw [hasCert_iff]
      exact ⟨_, _, _, _, _, (sat_iff hw hH hW σ).mp hσ⟩
  · rintro ⟨on, rfl, hc⟩
    rw [hasCert_iff] at hc
    obtain ⟨ul, dr, ig, rank, nt, hc⟩ := hc
    refine ⟨mkσ H W on ul dr ig rank nt, (sat_iff hw hH hW _).mpr ?_, ?_⟩
    · exact certP_congr pb H W _
        (fun s hs => (mkσ_on H W on ul dr ig rank nt s hs).symm) (fun s hs => (mkσ_ul H W on ul dr ig rank nt s hs).symm)
        (fun s hs => (mkσ_dr H W on ul dr ig rank nt s hs).symm) (fun s hs => (mkσ_ig H W on ul dr ig rank nt s hs).symm)
        (fun p hy hx => (mkσ_rank H W on ul dr ig rank nt p hy hx).symm)
        (fun s hs => (mkσ_nt H W on ul dr ig rank nt s hs).symm) hc
    · rw [hkv]
      congr 1
      exact C11Loop.segAnswer_congr H W _ _ (fun s hs => mkσ_on H W on ul dr ig rank nt s hs)

end Cspuz.Proofs.C11FireflyL1
