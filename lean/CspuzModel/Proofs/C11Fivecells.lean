/-
  C11 for `solve_fivecells`: the posted program encodes the published rules of FiveCells.

  Structure of the posted program (closed form: Proofs/C11FivecellsP.lean):
    * the fragment of `division_connected_variable_groups(solver, graph=g, group_size=5)` on the graph of
      edge-adjacent board cells (group ids = variables `0 … n-1`) — meaning: `Cspuz.C07.C07_groups_exact`;
    * one clue constraint per numbered cell, over the group ids;
    * one Boolean key per edge, defined as "the two group ids differ".
  The answer keys are declared LAST, so the theorem is proved directly on `EncodesRules`/`Sat`.
-/
import CspuzModel.Proofs.C11FivecellsG
import CspuzModel.Proofs.C11FillominoVG
import CspuzModel.Properties.C07
namespace Cspuz.Proofs.C11Fivecells
open Cspuz Cspuz.Spec Cspuz.Proofs Cspuz.Puzzles Cspuz.Puzzles.Fivecells Cspuz.Spec.Fivecells
open Cspuz.Proofs.C11FivecellsA Cspuz.Proofs.C11FivecellsP Cspuz.Proofs.C11FivecellsG

/-- The group ids of `σ` and the region labels describe the same division of the board. -/
def Compat (pb : Problem) (σ : Asg) (region : Nat × Nat → Nat) : Prop :=
  ∀ p q, onBoard pb p = true → onBoard pb q = true →
    (σ.i (vidx pb p) = σ.i (vidx pb q) ↔ region p = region q)

/-! ### the clue constraints -/

theorem eval_neE (pb : Problem) (σ : Asg) (p q : Nat × Nat) :
    eval σ (neE pb p q) = some (.b (σ.i (vidx pb p) != σ.i (vidx pb q))) := by
  unfold neE
  rw [eval_cmp (op := .ne) rfl (eval_ivar σ _) (eval_ivar σ _)]
  rfl

theorem mem_nbrs {pb : Problem} {p q : Nat × Nat} (h : q ∈ nbrs pb p) : onBoard pb q = true := by
  unfold nbrs at h
  simp only [List.mem_append] at h
  rcases h with ((h | h) | h) | h <;> split at h <;>
    first
    | (rw [List.mem_singleton] at h; subst h; first | assumption | (rename_i hh; exact hh.2))
    | exact absurd h List.not_mem_nil

/-- One direction: "outside or different" plus "is a neighbour" counts one plus "is a different neighbour". -/
theorem side_count (e : Prop) [Decidable e] (b dq : Bool) (q : Nat × Nat) (d : Nat × Nat → Bool) (hd : d q = dq) :
    (if ¬ e ∨ (!b || dq) = true then 1 else 0) + (if e ∧ b = true then [q] else []).length
      = 1 + (if e ∧ b = true then [q] else []).countP d := by
  by_cases he : e <;> cases b <;> cases dq <;> simp [he, hd]

/-- Border sides = sides without a neighbouring board cell + neighbouring board cells in another region. -/
theorem count_identity (pb : Problem) (region : Nat × Nat → Nat) (p : Nat × Nat) :
    borderCount pb region p + (nbrs pb p).length
      = 4 + (nbrs pb p).countP (fun q => region q != region p) := by
  have h1 := side_count (0 < p.1) (onBoard pb (p.1 - 1, p.2)) (region (p.1 - 1, p.2) != region p) (p.1 - 1, p.2)
    (fun q => region q != region p) rfl
  have h2 := side_count True (onBoard pb (p.1 + 1, p.2)) (region (p.1 + 1, p.2) != region p) (p.1 + 1, p.2)
    (fun q => region q != region p) rfl
  have h3 := side_count (0 < p.2) (onBoard pb (p.1, p.2 - 1)) (region (p.1, p.2 - 1) != region p) (p.1, p.2 - 1)
    (fun q => region q != region p) rfl
  have h4 := side_count True (onBoard pb (p.1, p.2 + 1)) (region (p.1, p.2 + 1) != region p) (p.1, p.2 + 1)
    (fun q => region q != region p) rfl
  have e1 : (¬ 0 < p.1) ↔ p.1 = 0 := by omega
  have e3 : (¬ 0 < p.2) ↔ p.2 = 0 := by omega
  simp only [e1, e3, not_true, false_or, true_and] at h1 h2 h3 h4
  unfold borderCount nbrs sideIsBorder
  simp only [List.length_append, List.countP_append]
  omega

theorem eval_clueC {pb : Problem} {σ : Asg} {region : Nat × Nat → Nat} (hc : Compat pb σ region)
    {p : Nat × Nat} (hp : onBoard pb p = true) :
    eval σ (clueC pb p) = some (.b (decide
      ((((nbrs pb p).countP fun q => region q != region p : Nat) : Int) = rhs pb p))) := by
  unfold clueC
  have h := eval_countTrueE (σ := σ) (xs := (nbrs pb p).map (neE pb p))
    ((nbrs pb p).map fun q => region q != region p) (by
      rw [List.map_map, List.map_map]
      apply List.map_congr_left
      intro q hq
      simp only [Function.comp, eval_neE]
      have hb : (σ.i (vidx pb p) != σ.i (vidx pb q)) = (region q != region p) := by
        have := hc p q hp (mem_nbrs hq)
        rw [Bool.eq_iff_iff]
        simp only [bne_iff_ne, ne_eq, this]
        exact not_congr eq_comm
      rw [hb])
  rw [eval_cmp (op := .eq) rfl h (eval_litI σ _)]
  rw [List.count_eq_countP, List.countP_map]
  congr 2
  simp only [cmpOp_eq]
  have e : ((fun x => x == true) ∘ fun q => region q != region p) = fun q => region q != region p := by
    funext q; simp
  rw [e]
  exact beq_eq_decide _ _

theorem clue_iff {pb : Problem} {σ : Asg} {region : Nat × Nat → Nat} (hc : Compat pb σ region) :
    (∀ c ∈ clues pb, eval σ c = some (.b true)) ↔
      ∀ p, onBoard pb p = true → 0 ≤ val pb p.1 p.2 → (borderCount pb region p : Int) = val pb p.1 p.2 := by
  have key : ∀ p, onBoard pb p = true →
      (eval σ (clueC pb p) = some (.b true) ↔ (borderCount pb region p : Int) = val pb p.1 p.2) := by
    intro p hp
    rw [eval_clueC hc hp]
    have := count_identity pb region p
    simp only [Option.some.injEq, Val.b.injEq, decide_eq_true_eq]
    unfold rhs
    omega
  unfold clues
  constructor
  · intro h p hp hv
    rw [← key p hp]
    apply h
    rw [List.mem_flatten]
    refine ⟨(cellE pb p).1, List.mem_map.2 ⟨p, (List.mem_filter.1 (mem_bcells.2 hp)).1, rfl⟩, ?_⟩
    simp [cellE, hv]
  · intro h c hcm
    rw [List.mem_flatten] at hcm
    obtain ⟨l, hl, hcl⟩ := hcm
    obtain ⟨p, hpm, rfl⟩ := List.mem_map.1 hl
    unfold cellE at hcl
    split at hcl
    · next hv =>
      simp only [List.mem_singleton] at hcl
      subst hcl
      obtain ⟨hy, hx⟩ := mem_cellsOf.1 hpm
      have hp : onBoard pb p = true := onBoard_iff.2 ⟨hy, hx, by omega⟩
      rw [key p hp]
      exact h p hp hv
    · simp at hcl

/-! ### the border definitions and the keys -/

theorem eval_defE (σ : Asg) (bb : Nat) (u v k : Nat) :
    eval σ (defE bb ((u, v), k)) = some (.b (σ.b (bb + k) == (σ.i u != σ.i v))) := by
  unfold defE
  have h : eval σ (.node .ne [.ivar u, .ivar v]) = some (.b (σ.i u != σ.i v)) := by
    rw [eval_cmp (op := .ne) rfl (eval_ivar σ _) (eval_ivar σ _)]; rfl
  rw [eval_node]
  simp only [List.map_cons, List.map_nil, h, eval_bvar]
  simp [evalOp, allBools]

theorem defs_iff {pb : Problem} {σ : Asg} {region : Nat × Nat → Nat} (hc : Compat pb σ region) :
    (∀ c ∈ defs pb, eval σ c = some (.b true)) ↔
      ∀ (k : Nat) (pq : (Nat × Nat) × (Nat × Nat)), (pairs pb)[k]? = some pq →
        σ.b (bb pb + k) = (region pq.1 != region pq.2) := by
  have key : ∀ (k : Nat) (pq : (Nat × Nat) × (Nat × Nat)), (pairs pb)[k]? = some pq →
      (eval σ (defE (bb pb) (vpair pb pq, k)) = some (.b true) ↔
        σ.b (bb pb + k) = (region pq.1 != region pq.2)) := by
    intro k pq hk
    obtain ⟨h1, h2, _⟩ := mem_pairs.1 (List.mem_of_getElem? hk)
    have := hc pq.1 pq.2 h1 h2
    have hb : (σ.i (vidx pb pq.1) != σ.i (vidx pb pq.2)) = (region pq.1 != region pq.2) := by
      rw [Bool.eq_iff_iff]
      simp only [bne_iff_ne, ne_eq, this]
    simp only [vpair, eval_defE, Option.some.injEq, Val.b.injEq, beq_iff_eq, hb]
  unfold defs
  constructor
  · intro h k pq hk
    rw [← key k pq hk]
    apply h
    refine List.mem_map.2 ⟨(vpair pb pq, k), ?_, rfl⟩
    rw [List.mk_mem_zipIdx_iff_getElem?]
    simp [graph, hk]
  · intro h c hcm
    obtain ⟨⟨uv, k⟩, hm, rfl⟩ := List.mem_map.1 hcm
    rw [List.mk_mem_zipIdx_iff_getElem?] at hm
    simp only [graph, List.getElem?_map, Option.map_eq_some_iff] at hm
    obtain ⟨pq, hk, rfl⟩ := hm
    rw [key k pq hk]
    exact h k pq hk

theorem bb_eq (pb : Problem) : bb pb = 5 * (graph pb).n + (graph pb).edges.length := by
  unfold bb vg
  rw [C11FillominoVG.vgProg_decls_length]

theorem valOf_key (pb : Problem) (σ : Asg) {k : Nat} (hk : k < nk pb) :
    valOf (prog pb).decls σ (bb pb + k) = some (.b (σ.b (bb pb + k))) := by
  unfold valOf
  have : (prog pb).decls[bb pb + k]? = some .bool := by
    simp only [prog]
    rw [List.getElem?_append_right (by unfold bb; omega)]
    simp [bb, hk]
  rw [this]

theorem keyVals_eq (pb : Problem) (σ : Asg) :
    (prog pb).keyVals σ = (List.range (nk pb)).map fun k => some (.b (σ.b (bb pb + k))) := by
  unfold PuzzleProg.keyVals
  simp only [prog, List.map_map]
  apply List.map_congr_left
  intro k hk
  exact valOf_key pb σ (List.mem_range.1 hk)

theorem keys_iff (pb : Problem) (σ : Asg) (f : (Nat × Nat) × (Nat × Nat) → Bool) :
    (prog pb).keyVals σ = ((pairs pb).map fun pq => Val.b (f pq)).map some ↔
      ∀ (k : Nat) (pq : (Nat × Nat) × (Nat × Nat)), (pairs pb)[k]? = some pq → σ.b (bb pb + k) = f pq := by
  rw [keyVals_eq]
  constructor
  · intro h k pq hk
    have hlt : k < (pairs pb).length := (List.getElem?_eq_some_iff.1 hk).1
    have := congrArg (fun l => l[k]?) h
    simp only [List.getElem?_map, List.getElem?_range (show k < nk pb from hlt), hk, Option.map_some,
      Option.some.injEq, Val.b.injEq] at this
    exact this
  · intro h
    apply List.ext_getElem
    · simp [nk]
    · intro k h1 h2
      simp only [List.length_map, List.length_range] at h1
      simp only [List.getElem_map, List.getElem_range]
      exact congrArg (fun b => some (Val.b b)) (h k _ (List.getElem?_eq_getElem h1))

/-! ### decomposition of `Sat` -/

theorem sat_iff (pb : Problem) (σ : Asg) :
    Sat (prog pb).decls (prog pb).cs σ ↔
      SatFrag 0 (vg pb) σ ∧ (∀ c ∈ clues pb, eval σ c = some (.b true)) ∧
        (∀ c ∈ defs pb, eval σ c = some (.b true)) := by
  unfold Sat SatFrag
  simp only [prog, List.forall_mem_append, Nat.zero_add]
  have hd : σ.respects ((vg pb).decls ++ List.replicate (nk pb) VarDecl.bool) ↔
      ∀ k lo hi, (vg pb).decls[k]? = some (.int lo hi) → lo ≤ σ.i k ∧ σ.i k ≤ hi := by
    unfold Asg.respects
    constructor
    · intro h k lo hi hk
      apply h k lo hi
      rw [List.getElem?_append_left (List.getElem?_eq_some_iff.1 hk).1]; exact hk
    · intro h k lo hi hk
      by_cases hlt : k < (vg pb).decls.length
      · rw [List.getElem?_append_left hlt] at hk; exact h k lo hi hk
      · rw [List.getElem?_append_right (by omega)] at hk
        have := List.mem_of_getElem? hk
        simp at this
  rw [hd]
  tauto

/-! ### the main theorem -/

theorem graph_n (pb : Problem) : (graph pb).n = (bcells pb).length := rfl

theorem vg_ok {pb : Problem} (hw : WellFormed pb) :
    variableGroups (graph pb) (.scalar (.litI 5)) 0 = .ok (vg pb, ivars 0 (graph pb).n) :=
  C07L1.vg_eq_scalar (bcells_pos hw) (by rfl)

theorem sizeArgs5 (pb : Problem) : SizeArgs 0 (graph pb).n (.scalar (.litI 5)) := ⟨rfl, rfl⟩

theorem encodes {pb : Problem} (hw : WellFormed pb) : EncodesRules (prog pb) (Rules pb) := by
  intro a
  have hC07 := fun σ P => (Cspuz.C07.C07_groups_exact (graph pb) (.scalar (.litI 5)) 0 (vg pb)
    (ivars 0 (graph pb).n) σ P (graph_wf pb) (sizeArgs5 pb) (vg_ok hw)).2
  constructor
  · -- a model of the program gives a division obeying the rules
    rintro ⟨σ, hsat, hkv⟩
    obtain ⟨hfrag, hclue, hdef⟩ := (sat_iff pb σ).1 hsat
    -- the group ids are non-negative
    have hnn : ∀ v, v < (graph pb).n → 0 ≤ σ.i v := by
      obtain ⟨C, hCg⟩ := C07L1.groups_sat_cert (σ := σ) (graph_wf pb) (sizeArgs5 pb) (vg_ok hw)
        (AgreeBelow.refl 0 σ) hfrag
      intro v hv
      have := (C.gid_rng v hv).1
      rw [hCg v hv, Nat.zero_add] at this
      exact this
    let P : VPartition (graph pb).n :=
      { same := fun u v => σ.i u = σ.i v
        refl := fun _ _ => rfl
        symm := fun _ _ h => h.symm
        trans := fun _ _ _ h1 h2 => h1.trans h2 }
    let region : Nat × Nat → Nat := fun p => (σ.i (vidx pb p)).toNat
    have hcompatV : ∀ u v, u < (graph pb).n → v < (graph pb).n →
        (P.same u v ↔ region (cellAt pb u) = region (cellAt pb v)) := by
      intro u v hu hv
      show σ.i u = σ.i v ↔ (σ.i (vidx pb (cellAt pb u))).toNat = (σ.i (vidx pb (cellAt pb v))).toNat
      rw [vidx_cellAt hu, vidx_cellAt hv]
      have := hnn u hu
      have := hnn v hv
      omega
    have hcompat : Compat pb σ region := by
      intro p q hp hq
      show _ ↔ (σ.i (vidx pb p)).toNat = (σ.i (vidx pb q)).toNat
      have := hnn _ (vidx_lt hp)
      have := hnn _ (vidx_lt hq)
      omega
    have hok : PartitionOK (graph pb) P (sizeSpec σ (.scalar (.litI 5))) :=
      (hC07 σ P).1 ⟨σ, AgreeBelow.refl 0 σ, hfrag, by
        intro u v _ _
        simp only [Nat.zero_add]
        exact Iff.rfl⟩
    refine ⟨region, ⟨(partitionOK_iff P region hcompatV σ).1 hok, (clue_iff hcompat).1 hclue⟩, ?_⟩
    have hk := (defs_iff hcompat).1 hdef
    have := (keys_iff pb σ (fun pq => region pq.1 != region pq.2)).2 hk
    rw [hkv] at this
    exact (List.map_inj_right (fun _ _ e => Option.some.inj e)).1 this
  · -- a division obeying the rules gives a model of the program
    rintro ⟨region, ⟨hr1, hr2⟩, rfl⟩
    let P : VPartition (graph pb).n :=
      { same := fun u v => region (cellAt pb u) = region (cellAt pb v)
        refl := fun _ _ => rfl
        symm := fun _ _ h => h.symm
        trans := fun _ _ _ h1 h2 => h1.trans h2 }
    have hcompatV : ∀ u v, u < (graph pb).n → v < (graph pb).n →
        (P.same u v ↔ region (cellAt pb u) = region (cellAt pb v)) := fun _ _ _ _ => Iff.rfl
    let σ0 : Asg := { b := fun _ => false, i := fun _ => 0 }
    have hok : PartitionOK (graph pb) P (sizeSpec σ0 (.scalar (.litI 5))) :=
      (partitionOK_iff P region hcompatV σ0).2 hr1
    obtain ⟨σ', _, hfrag', hreal⟩ := (hC07 σ0 P).2 hok
    -- set the border variables
    let σ : Asg :=
      { i := σ'.i
        b := fun id => if id < bb pb then σ'.b id else
          match (pairs pb)[id - bb pb]? with
          | some pq => region pq.1 != region pq.2
          | none => false }
    have hag : AgreeBelow (bb pb) σ' σ := by
      intro id hid
      refine ⟨?_, rfl⟩
      show σ'.b id = if id < bb pb then σ'.b id else _
      rw [if_pos hid]
    have hfrag : SatFrag 0 (vg pb) σ := by
      refine ⟨hfrag'.1, ?_⟩
      intro c hc
      have hvb := (C11FillominoVG.vgProg_wt (graph_wf pb) (sizeArgs5 pb) c hc).2
      rw [Nat.zero_add] at hvb
      rw [← eval_congr_of_varsBelow hag c hvb]
      exact hfrag'.2 c hc
    have hcompat : Compat pb σ region := by
      intro p q hp hq
      have := hreal (vidx pb p) (vidx pb q) (vidx_lt hp) (vidx_lt hq)
      simp only [Nat.zero_add] at this
      show σ'.i (vidx pb p) = σ'.i (vidx pb q) ↔ _
      rw [this]
      show region (cellAt pb (vidx pb p)) = region (cellAt pb (vidx pb q)) ↔ _
      rw [cellAt_vidx hp, cellAt_vidx hq]
    have hk : ∀ (k : Nat) (pq : (Nat × Nat) × (Nat × Nat)), (pairs pb)[k]? = some pq →
        σ.b (bb pb + k) = (region pq.1 != region pq.2) := by
      intro k pq hk
      show (if bb pb + k < bb pb then σ'.b (bb pb + k) else
          match (pairs pb)[bb pb + k - bb pb]? with
          | some pq => region pq.1 != region pq.2
          | none => false) = _
      rw [if_neg (by omega), show bb pb + k - bb pb = k by omega, hk]
    refine ⟨σ, (sat_iff pb σ).2 ⟨hfrag, (clue_iff hcompat).2 hr2, (defs_iff hcompat).2 hk⟩, ?_⟩
    exact (keys_iff pb σ (fun pq => region pq.1 != region pq.2)).2 hk

theorem keysOk (pb : Problem) : (prog pb).KeysOk := by
  refine ⟨?_, ?_⟩
  · simp only [prog]
    exact List.Nodup.map (fun a b h => by simpa using h) List.nodup_range
  · intro k hk
    simp only [prog, List.mem_map, List.mem_range] at hk
    obtain ⟨i, hi, rfl⟩ := hk
    simp only [prog, List.length_append, List.length_replicate]
    unfold bb
    omega

theorem wt (pb : Problem) : ∀ c ∈ (prog pb).cs, wtB c = true := by
  intro c hc
  simp only [prog, List.mem_append] at hc
  rcases hc with (hc | hc) | hc
  · exact (C11FillominoVG.vgProg_wt (graph_wf pb) (sizeArgs5 pb) c hc).1
  · unfold clues at hc
    rw [List.mem_flatten] at hc
    obtain ⟨l, hl, hcl⟩ := hc
    obtain ⟨p, _, rfl⟩ := List.mem_map.1 hl
    unfold cellE at hcl
    split at hcl
    · simp only [List.mem_singleton] at hcl
      subst hcl
      have : ∀ x ∈ (nbrs pb p).map (neE pb p), wtB x = true := by
        intro e he
        obtain ⟨q, _, rfl⟩ := List.mem_map.1 he
        rfl
      simp [clueC, wtB, wtIs, wtI, C11FragWT.wtI_countTrueE _ this]
    · simp at hcl
  · unfold defs at hc
    obtain ⟨uv, _, rfl⟩ := List.mem_map.1 hc
    rfl

theorem main (pb : Problem) (hw : WellFormed pb) (P : PuzzleProg) (hP : program pb = .ok P) :
    EncodesRules P (Rules pb) ∧ P.KeysOk ∧ (∀ c ∈ P.cs, wtB c = true) := by
  rw [program_eq hw] at hP
  cases hP
  exact ⟨encodes hw, keysOk pb, wt pb⟩

theorem total (pb : Problem) (hw : WellFormed pb) : ∃ P, program pb = .ok P := ⟨_, program_eq hw⟩

/-! ### the `is_invalid` shortcut -/

/-- `solve_fivecells` returns `False` without calling the solver when some numbered cell has fewer than
`always_border` as its number; no division can satisfy such a clue. -/
theorem invalid_sound (pb : Problem) (hw : WellFormed pb) (r : Result) (hr : run pb = .ok r)
    (hi : r.isInvalid = true) : ¬ ∃ a, Rules pb a := by
  rw [run_eq hw] at hr
  cases hr
  simp only [List.any_eq_true] at hi
  obtain ⟨p, hpm, hp⟩ := hi
  rintro ⟨a, region, ⟨_, hr2⟩, _⟩
  unfold cellE at hp
  split at hp
  · next hv =>
    simp only [decide_eq_true_eq] at hp
    unfold rhs at hp
    obtain ⟨hy, hx⟩ := mem_cellsOf.1 hpm
    have hb : onBoard pb p = true := onBoard_iff.2 ⟨hy, hx, by omega⟩
    have h1 := hr2 p hb hv
    have h2 := count_identity pb region p
    omega
  · cases hp

/-- Conversely the flag is set only in that situation (exact characterisation of the shortcut). -/
theorem invalid_iff (pb : Problem) (hw : WellFormed pb) (r : Result) (hr : run pb = .ok r) :
    r.isInvalid = true ↔ ∃ p, onBoard pb p = true ∧ 0 ≤ val pb p.1 p.2 ∧
      val pb p.1 p.2 < 4 - ((nbrs pb p).length : Int) := by
  rw [run_eq hw] at hr
  cases hr
  simp only [List.any_eq_true]
  constructor
  · rintro ⟨p, hpm, hp⟩
    unfold cellE at hp
    split at hp
    · next hv =>
      simp only [decide_eq_true_eq] at hp
      unfold rhs at hp
      obtain ⟨hy, hx⟩ := mem_cellsOf.1 hpm
      exact ⟨p, onBoard_iff.2 ⟨hy, hx, by omega⟩, hv, by omega⟩
    · cases hp
  · rintro ⟨p, hb, hv, hlt⟩
    refine ⟨p, (List.mem_filter.1 (mem_bcells.2 hb)).1, ?_⟩
    unfold cellE
    rw [if_pos hv]
    simp only [decide_eq_true_eq]
    unfold rhs
    omega

end Cspuz.Proofs.C11Fivecells
