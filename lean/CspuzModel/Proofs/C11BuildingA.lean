/-
  C11 / building (Skyscrapers), part A — closed form of the program posted by `solve_building`.
-/
import CspuzModel.Spec.PuzzleRules.Building
import CspuzModel.Proofs.C11CL
import CspuzModel.Proofs.C11Grid
namespace Cspuz.Proofs.C11BuildingA
open Cspuz Cspuz.Spec Cspuz.Puzzles Cspuz.Puzzles.Building Cspuz.Spec.Building Cspuz.Proofs Cspuz.Proofs.C11CL

/-! ### Closed form -/

/-- Variable ids of row `i` (left to right) and of column `i` (top to bottom). -/
def rowK (n i : Nat) : List Nat := (List.range n).map fun x => i * n + x
def colK (n i : Nat) : List Nat := (List.range n).map fun y => y * n + i

/-- `[cells[j] < cells[i] for j in range(i)]` on the variables `ks`. -/
def condsE (ks : List Nat) (i : Nat) : List Expr :=
  (List.range i).map fun j => Expr.node .lt [.ivar (ks.getD j 0), .ivar (ks.getD i 0)]

/-- `fold_and(…).cond(1, 0)`. -/
def termE (ks : List Nat) (i : Nat) : Expr := .node .ite [.node .and (condsE ks i), .litI 1, .litI 0]

/-- `res += term` over the positions `is`. -/
def sumFrom (ks : List Nat) (is : List Nat) (init : Expr) : Expr :=
  is.foldl (fun acc i => .node .add [acc, termE ks i]) init

/-- `num_visible_buildings(cells)`. -/
def nvE (ks : List Nat) : Expr := sumFrom ks (List.range' 1 (ks.length - 1)) (.litI 1)

/-- `num_visible_buildings(cells) == c`. -/
def eqE (c : Int) (ks : List Nat) : Expr :=
  if ks.length ≤ 1 then .litB (cmpOp .eq 1 c) else .node .eq [nvE ks, .litI c]

/-- The constraints posted for one clue slot. -/
def clueE (clue : List Int) (i : Nat) (ks : List Nat) : List Expr :=
  if clue.getD i 0 ≥ 1 then [eqE (clue.getD i 0) ks] else []

def latC (n : Nat) : List (List Expr) :=
  (List.range n).map fun i =>
    [.node .alldiff ((rowK n i).map Expr.ivar), .node .alldiff ((colK n i).map Expr.ivar)]

def cluesC (pb : Problem) : List (List Expr) :=
  (List.range pb.n).map fun i =>
    clueE pb.up i (colK pb.n i) ++ clueE pb.dw i (colK pb.n i).reverse ++
      clueE pb.lf i (rowK pb.n i) ++ clueE pb.rg i (rowK pb.n i).reverse

def closedCs (pb : Problem) : List Expr := (latC pb.n).flatten ++ (cluesC pb).flatten

def closed (pb : Problem) : PuzzleProg :=
  { decls := List.replicate (pb.n * pb.n) (.int 1 (pb.n : Int)),
    cs := closedCs pb,
    keys := List.range (pb.n * pb.n) }

/-! ### Lines -/

theorem line_row (pb : Problem) (i : Nat) (hi : i < pb.n) :
    line pb (rowKey i) = .ok ((rowK pb.n i).map Expr.ivar) := by
  simp only [line, answer, rowKey, ivars, Nat.zero_add]
  rw [getitemV_row false Expr.ivar _ _ i fullSlice _ hi (axisSel_full _) (fun x hx => List.mem_range.mp hx)]
  simp only [ok_bind, rowK, List.map_map]
  rfl

theorem line_col (pb : Problem) (i : Nat) (hi : i < pb.n) :
    line pb (colKey i) = .ok ((colK pb.n i).map Expr.ivar) := by
  simp only [line, answer, colKey, ivars, Nat.zero_add]
  rw [getitemV_col false Expr.ivar _ _ fullSlice i _ hi (axisSel_full _) (fun x hx => List.mem_range.mp hx)]
  simp only [ok_bind, colK, List.map_map]
  rfl

theorem alldifferentE_ivars (ks : List Nat) :
    alldifferentE (ks.map Expr.ivar) = .ok (.node .alldiff (ks.map Expr.ivar)) := by
  unfold alldifferentE
  rw [if_pos]
  rw [List.all_eq_true]
  intro x hx
  obtain ⟨k, _, rfl⟩ := List.mem_map.mp hx
  rfl

/-! ### `fold_and` on comparison nodes -/

theorem foldAnd_go_lt (l : List Expr) (hl : ∀ x ∈ l, ∃ a, x = Expr.node .lt a) :
    ∀ acc, foldAnd.go l acc = foldAnd.go [] (l.reverse ++ acc) := by
  induction l with
  | nil => intro acc; rfl
  | cons x r ih =>
    intro acc
    obtain ⟨a, rfl⟩ := hl _ List.mem_cons_self
    have : foldAnd.go (Expr.node .lt a :: r) acc = foldAnd.go r (Expr.node .lt a :: acc) := by
      simp [foldAnd.go, Expr.isBoolExpr, Op.isBoolOp]
    rw [this, ih (fun x hx => hl x (List.mem_cons_of_mem _ hx))]
    simp

theorem foldAnd_lt (l : List Expr) (hl : ∀ x ∈ l, ∃ a, x = Expr.node .lt a) (hne : l ≠ []) :
    foldAnd l = .ok (.node .and l) := by
  unfold foldAnd
  rw [foldAnd_go_lt l hl]
  cases l with
  | nil => exact absurd rfl hne
  | cons x r => simp [foldAnd.go]

/-! ### One term -/

theorem getE_ivars (ks : List Nat) (j : Nat) (hj : j < ks.length) :
    getE (ks.map Expr.ivar) j = .ok (.ivar (ks.getD j 0)) := by
  rw [getE_eq_ok (by simpa using hj)]
  simp [List.getD_eq_getElem?_getD, hj]

theorem visibleTerm_eq (ks : List Nat) (i : Nat) (h1 : 1 ≤ i) (hi : i < ks.length) :
    visibleTerm (ks.map Expr.ivar) i = .ok (termE ks i) := by
  unfold visibleTerm
  rw [getE_ivars ks i hi]
  simp only [ok_bind]
  rw [mapM_eq_ok_map (g := fun j => Expr.node .lt [.ivar (ks.getD j 0), .ivar (ks.getD i 0)])]
  swap
  · intro j hj
    have hj' := List.mem_range.mp hj
    rw [getE_ivars ks j (by omega)]
    rfl
  simp only [ok_bind]
  rw [foldAnd_lt]
  · rfl
  · intro x hx
    obtain ⟨j, _, rfl⟩ := List.mem_map.mp hx
    exact ⟨_, rfl⟩
  · intro h0
    have := congrArg List.length h0
    simp at this
    omega

/-! ### The running sum -/

theorem binop_add_lit1_ite (l : List Expr) :
    binop .add (.scalar (.litI 1)) (.scalar (.node .ite l))
      = .ok (.scalar (.node .add [.litI 1, .node .ite l])) := rfl

theorem binop_eq_lit_lit (a c : Int) :
    binop .eq (.scalar (.litI a)) (.scalar (.litI c)) = .ok (.scalar (.litB (cmpOp .eq a c))) := rfl

theorem numFold_node (ks : List Nat) : ∀ (is : List Nat), (∀ i ∈ is, 1 ≤ i ∧ i < ks.length) →
    ∀ (op : Op) (l : List Expr), op.isIntOp = true →
      is.foldlM (fun (res : PyV) (i : Nat) => do
          let t ← visibleTerm (ks.map Expr.ivar) i
          binop .add res (.scalar t)) (.scalar (.node op l))
        = .ok (.scalar (sumFrom ks is (.node op l))) := by
  intro is
  induction is with
  | nil => intro _ op l _; rfl
  | cons i r ih =>
    intro his op l hop
    obtain ⟨h1, h2⟩ := his i List.mem_cons_self
    simp only [List.foldlM_cons, visibleTerm_eq ks i h1 h2, ok_bind, termE,
      binop_add_node op .ite l _ hop rfl]
    exact ih (fun x hx => his x (List.mem_cons_of_mem _ hx)) .add _ rfl

theorem numVisible_eq (ks : List Nat) : numVisible (ks.map Expr.ivar) = .ok (.scalar (nvE ks)) := by
  unfold numVisible nvE
  simp only [List.length_map]
  have hall : ∀ i ∈ List.range' 1 (ks.length - 1), 1 ≤ i ∧ i < ks.length := by
    intro i hi
    rw [List.mem_range'_1] at hi
    omega
  generalize List.range' 1 (ks.length - 1) = is at hall
  cases is with
  | nil => rfl
  | cons i r =>
    obtain ⟨h1, h2⟩ := hall i List.mem_cons_self
    simp only [List.foldlM_cons, visibleTerm_eq ks i h1 h2, ok_bind, termE, binop_add_lit1_ite]
    exact numFold_node ks r (fun x hx => hall x (List.mem_cons_of_mem _ hx)) .add _ rfl

theorem sumFrom_isNode (ks : List Nat) (is : List Nat) (init : Expr) (hne : is ≠ []) :
    ∃ a, sumFrom ks is init = .node .add a := by
  rcases List.eq_nil_or_concat is with h | ⟨r, i, rfl⟩
  · exact absurd h hne
  · exact ⟨[sumFrom ks r init, termE ks i], by simp [sumFrom]⟩

/-! ### One clue slot -/

theorem pyIndex_nat (clue : List Int) (i : Nat) (hi : i < clue.length) :
    pyIndex clue (i : Int) = .ok (clue.getD i 0) := by
  rw [Cspuz.Proofs.C13.pyIndex_natCast _ _ hi]
  simp [List.getD_eq_getElem?_getD, hi]

theorem clueCs_eq (clue : List Int) (i : Nat) (hi : i < clue.length) (ks : List Nat) (hk : 1 ≤ ks.length) :
    clueCs clue i (ks.map Expr.ivar) = .ok (clueE clue i ks) := by
  unfold clueCs clueE
  rw [pyIndex_nat clue i hi]
  simp only [ok_bind]
  split
  · rw [numVisible_eq]
    simp only [ok_bind]
    unfold eqE
    by_cases h1 : ks.length ≤ 1
    · rw [if_pos h1]
      have hl : ks.length - 1 = 0 := by omega
      simp only [nvE, hl, List.range'_zero, sumFrom, List.foldl_nil]
      rw [binop_eq_lit_lit, ok_bind, ensureV_scalar _ rfl]
    · rw [if_neg h1]
      obtain ⟨a, ha⟩ := sumFrom_isNode ks (List.range' 1 (ks.length - 1)) (.litI 1) (by
        intro h0
        have := congrArg List.length h0
        simp at this
        omega)
      simp only [nvE, ha]
      rw [binop_eq_node_lit .add a _ rfl, ok_bind, ensureV_scalar _ rfl]
  · rfl

/-! ### The whole program -/

theorem program_closed (pb : Problem) (hwf : WellFormed pb) : program pb = .ok (closed pb) := by
  obtain ⟨hn, hup, hdw, hlf, hrg⟩ := hwf
  unfold program
  have h1 : intArrayDecls (pb.n * pb.n) 1 (pb.n : Int)
      = .ok (List.replicate (pb.n * pb.n) (.int 1 (pb.n : Int))) := by
    unfold intArrayDecls
    rw [if_neg (by omega)]
  simp only [h1, ok_bind]
  rw [show addKeysV (answer pb) [] = .ok (List.range (pb.n * pb.n)) from
    Cspuz.Proofs.C11Grid.addKeys_ivars pb.n pb.n]
  simp only [ok_bind]
  rw [mapM_eq_ok_map (g := fun i =>
    [Expr.node .alldiff ((rowK pb.n i).map Expr.ivar), Expr.node .alldiff ((colK pb.n i).map Expr.ivar)])]
  swap
  · intro i hi
    have hi' := List.mem_range.mp hi
    rw [line_row pb i hi', ok_bind, alldifferentE_ivars, ok_bind]
    rw [line_col pb i hi', show ensure1 (Expr.node .alldiff ((rowK pb.n i).map Expr.ivar)) = .ok _ from rfl, ok_bind,
      ok_bind, alldifferentE_ivars, ok_bind]
    rfl
  simp only [ok_bind]
  rw [mapM_eq_ok_map (g := fun i =>
    clueE pb.up i (colK pb.n i) ++ clueE pb.dw i (colK pb.n i).reverse ++
      clueE pb.lf i (rowK pb.n i) ++ clueE pb.rg i (rowK pb.n i).reverse)]
  swap
  · intro i hi
    have hi' := List.mem_range.mp hi
    have hlc : (colK pb.n i).length = pb.n := by simp [colK]
    have hlr : (rowK pb.n i).length = pb.n := by simp [rowK]
    rw [line_col pb i hi', ok_bind, clueCs_eq pb.up i (by omega) _ (by omega), ok_bind,
      ← List.map_reverse, clueCs_eq pb.dw i (by omega) _ (by simp; omega), ok_bind,
      line_row pb i hi', ok_bind, clueCs_eq pb.lf i (by omega) _ (by omega), ok_bind,
      ← List.map_reverse, clueCs_eq pb.rg i (by omega) _ (by simp; omega), ok_bind]
  rfl

end Cspuz.Proofs.C11BuildingA
