/-
  C11 / Yin-Yang — generic graph facts used by the planarity argument.
   * `exists_cycle_of_no_leaf`: a graph on `Option V` with finitely many edges, at least one edge, and no
     vertex `some p` of degree one contains a cycle (take a longest path: one of its two ends is a `some p`
     and would be a leaf in a forest).
   * `cyc_nbr`: a vertex has no or exactly two neighbours along a cycle.
   * `cyc_some_edge`: a cycle has an edge that avoids the vertex `none`.
-/
import Mathlib.Combinatorics.SimpleGraph.Acyclic
import Mathlib.Combinatorics.SimpleGraph.Connectivity.Subgraph
namespace Cspuz.Proofs.C11YinyangGraph
open SimpleGraph

theorem exists_cycle_of_no_leaf {V : Type} (G : SimpleGraph (Option V)) [Finite G.edgeSet]
    (hedge : ∃ a b, G.Adj a b)
    (hnl : ∀ (p : V) a, G.Adj (some p) a → ∃ b, b ≠ a ∧ G.Adj (some p) b) :
    ∃ (v : Option V) (c : G.Walk v v), c.IsCycle := by
  by_contra hno
  have hac : G.IsAcyclic := by
    intro v c hc
    exact hno ⟨v, c, hc⟩
  obtain ⟨u, v, p, hp, hmax⟩ := Walk.exists_isPath_forall_isPath_length_le_length G
  obtain ⟨a, b, hab⟩ := hedge
  have hlen : 1 ≤ p.length := by
    have := hmax a b (Walk.cons hab Walk.nil) (by simp [hab.ne])
    simpa using this
  have hnil : ¬ p.Nil := by
    intro hn
    have := Walk.length_eq_zero_iff.2 hn
    omega
  -- a path end that is `some q` gives a contradiction
  have key : ∀ (u v : Option V) (p : G.Walk u v), p.IsPath → ¬ p.Nil →
      (∀ (u' v' : Option V) (p' : G.Walk u' v') (_ : p'.IsPath), p'.length ≤ p.length) →
      ∀ q, u = some q → False := by
    intro u v p hp hnil hmax q hq
    subst hq
    obtain ⟨b, hb, hadj⟩ := hnl q _ (p.adj_snd hnil)
    by_cases hmem : b ∈ p.support
    · exact hb (hac.eq_snd_of_adj_start hp hadj hmem)
    · have hp' : (Walk.cons hadj.symm p).IsPath := hp.cons hmem
      have := hmax _ _ _ hp'
      simp at this
  match u, v, p, hp, hnil, hmax with
  | some q, v, p, hp, hnil, hmax => exact key _ _ p hp hnil hmax q rfl
  | none, some q, p, hp, hnil, hmax =>
    exact key _ _ p.reverse hp.reverse (by simpa using hnil) (by simpa using hmax) q rfl
  | none, none, p, hp, hnil, hmax => exact hnil (hp.nil_iff_eq.2 rfl)

/-- along a cycle a vertex has no neighbour at all or exactly two -/
theorem cyc_nbr {V : Type} {G : SimpleGraph V} {v : V} (C : G.Walk v v) (hC : C.IsCycle) (a : V) :
    (∀ b, s(a, b) ∉ C.edges) ∨ ∃ x y, x ≠ y ∧ ∀ b, s(a, b) ∈ C.edges ↔ (b = x ∨ b = y) := by
  by_cases ha : a ∈ C.support
  · right
    have h2 := hC.ncard_neighborSet_toSubgraph_eq_two ha
    obtain ⟨x, y, hxy, hS⟩ := Set.ncard_eq_two.1 h2
    refine ⟨x, y, hxy, fun b => ?_⟩
    rw [← Walk.adj_toSubgraph_iff_mem_edges, ← Subgraph.mem_neighborSet, hS]
    simp
  · left
    intro b hb
    exact ha (Walk.fst_mem_support_of_mem_edges C hb)

/-- three neighbours along a cycle: two of them coincide -/
theorem cyc_three {V : Type} {G : SimpleGraph V} {v : V} (C : G.Walk v v) (hC : C.IsCycle) (a b1 b2 b3 : V)
    (h1 : s(a, b1) ∈ C.edges) (h2 : s(a, b2) ∈ C.edges) (h3 : s(a, b3) ∈ C.edges) :
    b1 = b2 ∨ b1 = b3 ∨ b2 = b3 := by
  rcases cyc_nbr C hC a with hn | ⟨x, y, _, hxy⟩
  · exact absurd h1 (hn b1)
  · rcases (hxy b1).1 h1 with rfl | rfl <;> rcases (hxy b2).1 h2 with rfl | rfl <;>
      rcases (hxy b3).1 h3 with rfl | rfl <;> simp

/-- a neighbour along a cycle is never the only one -/
theorem cyc_other {V : Type} {G : SimpleGraph V} {v : V} (C : G.Walk v v) (hC : C.IsCycle) (a b : V)
    (h1 : s(a, b) ∈ C.edges) : ∃ b', b' ≠ b ∧ s(a, b') ∈ C.edges := by
  rcases cyc_nbr C hC a with hn | ⟨x, y, hne, hxy⟩
  · exact absurd h1 (hn b)
  · rcases (hxy b).1 h1 with rfl | rfl
    · exact ⟨y, hne.symm, (hxy y).2 (Or.inr rfl)⟩
    · exact ⟨x, hne, (hxy x).2 (Or.inl rfl)⟩

/-- a cycle of a graph on `Option V` has an edge between two vertices `some p`, `some q` -/
theorem cyc_some_edge {V : Type} {G : SimpleGraph (Option V)} {v : Option V} (C : G.Walk v v) (hC : C.IsCycle) :
    ∃ p q : V, s(some p, some q) ∈ C.edges := by
  have hne : C.edges ≠ [] := by
    intro he
    have := hC.three_le_length
    rw [← Walk.length_edges, he] at this
    simp at this
  obtain ⟨e, he⟩ := List.exists_mem_of_ne_nil _ hne
  induction e using Sym2.ind with
  | _ a b =>
  have hadj : G.Adj a b := Walk.adj_of_mem_edges C he
  have aux : ∀ (p : V), s(some p, (none : Option V)) ∈ C.edges → ∃ p q : V, s(some p, some q) ∈ C.edges := by
    intro p hp
    obtain ⟨b', hb', hb'e⟩ := cyc_other C hC (some p) none hp
    match b', hb', hb'e with
    | some q, _, hq => exact ⟨p, q, hq⟩
    | none, hb', _ => exact absurd rfl hb'
  match a, b, he, hadj with
  | some p, some q, he, _ => exact ⟨p, q, he⟩
  | some p, none, he, _ => exact aux p he
  | none, some q, he, _ => exact aux q (by rw [Sym2.eq_swap]; exact he)
  | none, none, _, hadj => exact absurd hadj (G.loopless.irrefl _)

end Cspuz.Proofs.C11YinyangGraph
