/-
  C11 / aquarium — the program posted by (the repaired) `solve_aquarium` encodes the rules of
  Spec/PuzzleRules/Aquarium.lean.
-/
import CspuzModel.Spec.PuzzleRules.Aquarium
import CspuzModel.Proofs.C11Grid
import CspuzModel.Proofs.C11CL
namespace Cspuz.Proofs.C11Aquarium
open Cspuz Cspuz.Spec Cspuz.Puzzles Cspuz.Puzzles.Aquarium Cspuz.Spec.Aquarium Cspuz.Proofs

/-! ### Python-level glue on fresh Boolean arrays -/

theorem bvars_eq (n : Nat) : bvars 0 n = (List.range n).map fun i => Expr.bvar i := by
  simp [bvars]

/-- `A[y, x]` through `getCell`. -/
theorem getCell_bvars (h w y x : Nat) (hy : y < h) (hx : x < w) :
    getCell (bvars 0 (h * w)) h w (y : Int) (x : Int) = .ok (.bvar (y * w + x)) := by
  have := Cspuz.Proofs.C11CL.getitemV_cell true Expr.bvar h w y x hy hx
  rw [← bvars_eq] at this
  simp only [getitemV] at this
  unfold getCell
  cases hg : getitem2D (bvars 0 (h * w)) h w (.pair (.idx (y : Int)) (.idx (x : Int))) with
  | error e => rw [hg] at this; simp [Except.map] at this
  | ok r =>
    rw [hg] at this
    cases r with
    | scalar e =>
      simp only [Except.map, idxToPyV, Except.ok.injEq, PyV.scalar.injEq] at this
      simp [this]
    | arr1 l => simp [Except.map, idxToPyV] at this
    | arr2 a b l => simp [Except.map, idxToPyV] at this

theorem pyIndex_nat {α : Type} (l : List α) (k : Nat) (d : α) (hk : k < l.length) :
    pyIndex l (k : Int) = .ok (l.getD k d) := by
  unfold pyIndex
  simp only [show ¬ ((k : Int) < 0) by omega, if_false]
  rw [if_pos (by omega), Int.toNat_natCast, List.getElem?_eq_getElem hk]
  simp [List.getD, List.getElem?_eq_getElem hk]

/-! ### The `block_id` table -/

/-- `t` is an `h × w` table (Python list of lists) whose entries are given by `f`. -/
def Rep (h w : Nat) (t : List (List Int)) (f : Nat → Nat → Int) : Prop :=
  t.length = h ∧ ∀ y, y < h → ∃ row, t[y]? = some row ∧ row.length = w ∧ ∀ x, x < w → row[x]? = some (f y x)

theorem rep_replicate (h w : Nat) (v : Int) : Rep h w (List.replicate h (List.replicate w v)) (fun _ _ => v) := by
  refine ⟨by simp, fun y hy => ⟨List.replicate w v, ?_, by simp, fun x hx => ?_⟩⟩
  · rw [List.getElem?_replicate, if_pos hy]
  · rw [List.getElem?_replicate, if_pos hx]

theorem pyIndex_of_getElem? {α : Type} (l : List α) (k : Nat) (a : α) (hk : l[k]? = some a) :
    pyIndex l (k : Int) = .ok a := by
  have hlt : k < l.length := by
    rcases Nat.lt_or_ge k l.length with h | h
    · exact h
    · rw [List.getElem?_eq_none h] at hk; cases hk
  unfold pyIndex
  simp only [show ¬ ((k : Int) < 0) by omega, if_false]
  rw [if_pos (by omega), Int.toNat_natCast, hk]

theorem tableGet_rep {h w : Nat} {t : List (List Int)} {f : Nat → Nat → Int} (hr : Rep h w t f)
    {y x : Nat} (hy : y < h) (hx : x < w) : tableGet t (y : Int) (x : Int) = .ok (f y x) := by
  obtain ⟨row, hrow, _, hf⟩ := hr.2 y hy
  unfold tableGet
  rw [pyIndex_of_getElem? t y row hrow]
  exact pyIndex_of_getElem? row x _ (hf x hx)

theorem pySet_nat {α : Type} (l : List α) (k : Nat) (v : α) (hk : k < l.length) :
    pySet l (k : Int) v = .ok (l.set k v) := by
  unfold pySet
  simp only [show ¬ ((k : Int) < 0) by omega, if_false]
  rw [if_pos (by omega), Int.toNat_natCast]

theorem tableSet_rep {h w : Nat} {t : List (List Int)} {f : Nat → Nat → Int} (hr : Rep h w t f)
    (cy cx : Nat) (hy : cy < h) (hx : cx < w) (v : Int) :
    ∃ t', tableSet t (cy : Int) (cx : Int) v = .ok t' ∧
      Rep h w t' (fun y x => if y = cy ∧ x = cx then v else f y x) := by
  obtain ⟨row, hrow, hlen, hf⟩ := hr.2 cy hy
  refine ⟨t.set cy (row.set cx v), ?_, ?_⟩
  · unfold tableSet
    rw [pyIndex_of_getElem? t cy row hrow]
    simp only [ok_bind]
    rw [pySet_nat row cx v (by omega)]
    simp only [ok_bind]
    exact pySet_nat t cy _ (by rw [hr.1]; exact hy)
  · refine ⟨by rw [List.length_set]; exact hr.1, fun y hy' => ?_⟩
    by_cases hyc : y = cy
    · subst hyc
      refine ⟨row.set cx v, ?_, by rw [List.length_set]; exact hlen, fun x hx' => ?_⟩
      · rw [List.getElem?_set_self (by rw [hr.1]; exact hy)]
      · by_cases hxc : x = cx
        · subst hxc
          rw [List.getElem?_set_self (by omega)]
          simp
        · rw [List.getElem?_set_ne (Ne.symm hxc), hf x hx']
          simp [hxc]
    · obtain ⟨row', hrow', hlen', hf'⟩ := hr.2 y hy'
      refine ⟨row', ?_, hlen', fun x hx' => ?_⟩
      · rw [List.getElem?_set_ne (Ne.symm hyc)]; exact hrow'
      · rw [hf' x hx']; simp [hyc]

theorem rep_congr {h w : Nat} {t : List (List Int)} {f f' : Nat → Nat → Int} (hr : Rep h w t f)
    (hff : ∀ y, y < h → ∀ x, x < w → f y x = f' y x) : Rep h w t f' := by
  refine ⟨hr.1, fun y hy => ?_⟩
  obtain ⟨row, hrow, hlen, hf⟩ := hr.2 y hy
  exact ⟨row, hrow, hlen, fun x hx => by rw [hf x hx, hff y hy x hx]⟩

/-- All cells of the tank lie on the board. -/
def OnBoard (h w : Nat) (b : List (Int × Int)) : Prop :=
  ∀ c ∈ b, 0 ≤ c.1 ∧ c.1 < (h : Int) ∧ 0 ≤ c.2 ∧ c.2 < (w : Int)

open Classical in
/-- The inner loop `for y, x in block: block_id[y][x] = i`. -/
theorem fill_block {h w : Nat} (i : Int) : ∀ (b : List (Int × Int)) (t : List (List Int)) (f : Nat → Nat → Int),
    Rep h w t f → OnBoard h w b →
    ∃ t', b.foldlM (fun t (c : Int × Int) => tableSet t c.1 c.2 i) t = .ok t' ∧
      Rep h w t' (fun y x => if InTank b y x then i else f y x)
  | [], t, f, hr, _ => ⟨t, rfl, rep_congr hr (by intro y _ x _; simp [InTank])⟩
  | c :: r, t, f, hr, hb => by
    obtain ⟨h1, h2, h3, h4⟩ := hb c (by simp)
    have e1 : c.1 = ((c.1.toNat : Nat) : Int) := (Int.toNat_of_nonneg h1).symm
    have e2 : c.2 = ((c.2.toNat : Nat) : Int) := (Int.toNat_of_nonneg h3).symm
    obtain ⟨t1, ht1, hr1⟩ := tableSet_rep hr c.1.toNat c.2.toNat (by omega) (by omega) i
    rw [← e1, ← e2] at ht1
    obtain ⟨t', ht', hr'⟩ := fill_block i r t1 _ hr1 (fun c' hc' => hb c' (by simp [hc']))
    refine ⟨t', ?_, rep_congr hr' ?_⟩
    · rw [List.foldlM_cons, ht1]; exact ht'
    · intro y _ x _
      show (if InTank r y x then i else if y = c.1.toNat ∧ x = c.2.toNat then i else f y x)
        = if InTank (c :: r) y x then i else f y x
      have hiff : InTank (c :: r) y x ↔ (y = c.1.toNat ∧ x = c.2.toNat) ∨ InTank r y x := by
        simp only [InTank, List.mem_cons]
        constructor
        · rintro (hc | hin)
          · left; rw [← hc]; simp
          · right; exact hin
        · rintro (⟨rfl, rfl⟩ | hin)
          · left; rw [← e1, ← e2]
          · right; exact hin
      by_cases hin : InTank r y x
      · rw [if_pos hin, if_pos (hiff.2 (Or.inr hin))]
      · rw [if_neg hin]
        by_cases hc : y = c.1.toNat ∧ x = c.2.toNat
        · rw [if_pos hc, if_pos (hiff.2 (Or.inl hc))]
        · rw [if_neg hc, if_neg (fun h' => (hiff.1 h').elim hc hin)]

/-- The loop body of `fillTable`. -/
def fillBody (t : List (List Int)) (ib : Nat × List (Int × Int)) : Py (List (List Int)) :=
  ib.2.foldlM (fun t (c : Int × Int) => tableSet t c.1 c.2 (ib.1 : Int)) t

/-- The outer loop `for i, block in enumerate(blocks)`, started at index `k`: a cell that lies in some tank
ends up with the index of the LAST tank containing it; a cell in no tank keeps its entry. -/
theorem fill_blocks {h w : Nat} : ∀ (bs : List (List (Int × Int))) (k : Nat) (t : List (List Int))
    (f : Nat → Nat → Int), Rep h w t f → (∀ b ∈ bs, OnBoard h w b) →
    ∃ t' f', ((List.range' k bs.length).zip bs).foldlM fillBody t = .ok t' ∧ Rep h w t' f' ∧
      ∀ y x,
        (∀ i, i < bs.length → InTank (bs.getD i []) y x →
          (∀ j, i < j → j < bs.length → ¬ InTank (bs.getD j []) y x) → f' y x = ((k + i : Nat) : Int)) ∧
        ((∀ j, j < bs.length → ¬ InTank (bs.getD j []) y x) → f' y x = f y x)
  | [], k, t, f, hr, _ => ⟨t, f, rfl, hr, fun y x => ⟨fun i hi => absurd hi (by simp), fun _ => rfl⟩⟩
  | b :: rest, k, t, f, hr, hb => by
    obtain ⟨t1, ht1, hr1⟩ := fill_block (h := h) (w := w) (k : Int) b t f hr (hb b (by simp))
    obtain ⟨t', f', ht', hr', hf'⟩ := fill_blocks rest (k + 1) t1 _ hr1 (fun b' hb' => hb b' (by simp [hb']))
    refine ⟨t', f', ?_, hr', fun y x => ⟨?_, ?_⟩⟩
    · simp only [List.length_cons, List.range'_succ, List.zip_cons_cons, List.foldlM_cons]
      show (fillBody t (k, b) >>= _) = _
      unfold fillBody
      simp only []
      rw [ht1]; exact ht'
    · intro i hi hin hlast
      cases i with
      | zero =>
        have hnone : ∀ j, j < rest.length → ¬ InTank (rest.getD j []) y x := by
          intro j hj
          have := hlast (j + 1) (by omega) (by simp; omega)
          simpa using this
        rw [(hf' y x).2 hnone]
        have : InTank b y x := by simpa using hin
        rw [if_pos this]; simp
      | succ i =>
        have hin' : InTank (rest.getD i []) y x := by simpa using hin
        have := (hf' y x).1 i (by simpa using hi) hin' (by
          intro j hij hj
          have := hlast (j + 1) (by omega) (by simp; omega)
          simpa using this)
        rw [this]; congr 1; omega
    · intro hnone
      have hnone' : ∀ j, j < rest.length → ¬ InTank (rest.getD j []) y x := by
        intro j hj
        have := hnone (j + 1) (by simp; omega)
        simpa using this
      rw [(hf' y x).2 hnone']
      have : ¬ InTank b y x := by simpa using hnone 0 (by simp)
      rw [if_neg this]

/-- The table built by the repaired `solve_aquarium` on a well-formed instance: every cell of the board
holds the index of its tank. -/
theorem fillTable_wf (pb : Problem) (hwf : WellFormed pb) :
    ∃ bid f, fillTable pb.blocks (List.replicate pb.height (List.replicate pb.width (-1))) = .ok bid ∧
      Rep pb.height pb.width bid f ∧
      ∀ y, y < pb.height → ∀ x, x < pb.width → ∀ i, i < pb.blocks.length →
        InTank (pb.blocks.getD i []) y x → f y x = (i : Int) := by
  obtain ⟨_, _, hon, hpart⟩ := hwf
  obtain ⟨t', f', ht', hr', hf'⟩ := fill_blocks (h := pb.height) (w := pb.width) pb.blocks 0 _ _
    (rep_replicate pb.height pb.width (-1)) hon
  refine ⟨t', f', ?_, hr', ?_⟩
  · unfold fillTable
    rw [List.range_eq_range']
    exact ht'
  · intro y hy x hx i hi hin
    obtain ⟨i0, hi0, hin0, huniq⟩ := hpart y hy x hx
    have hii : i = i0 := huniq i hi hin
    subst hii
    have := (hf' y x).1 i hi hin (by
      intro j hij hj hjin
      have := huniq j hj hjin
      omega)
    rw [this]; simp

/-- On a well-formed instance two cells of the board carry the same table entry iff they are in one tank. -/
theorem same_id_iff (pb : Problem) (hwf : WellFormed pb) (f : Nat → Nat → Int)
    (hf : ∀ y, y < pb.height → ∀ x, x < pb.width → ∀ i, i < pb.blocks.length →
        InTank (pb.blocks.getD i []) y x → f y x = (i : Int))
    {y x y' x' : Nat} (hy : y < pb.height) (hx : x < pb.width) (hy' : y' < pb.height) (hx' : x' < pb.width) :
    f y x = f y' x' ↔ SameTank pb y x y' x' := by
  obtain ⟨_, _, _, hpart⟩ := hwf
  constructor
  · intro he
    obtain ⟨i, hi, hin, _⟩ := hpart y hy x hx
    obtain ⟨j, hj, hjn, _⟩ := hpart y' hy' x' hx'
    rw [hf y hy x hx i hi hin, hf y' hy' x' hx' j hj hjn] at he
    have hij : i = j := by omega
    subst hij
    refine ⟨pb.blocks.getD i [], ?_, hin, hjn⟩
    rw [← List.getElem_eq_getD (h := hi) []]; exact List.getElem_mem hi
  · rintro ⟨b, hb, h1, h2⟩
    obtain ⟨i, hi, rfl⟩ := List.mem_iff_getElem.1 hb
    have e : pb.blocks.getD i [] = pb.blocks[i] := (List.getElem_eq_getD (h := hi) []).symm
    rw [hf y hy x hx i hi (by rw [e]; exact h1), hf y' hy' x' hx' i hi (by rw [e]; exact h2)]

/-! ### Closed form of the posted program -/

open Classical

/-- The constraints posted for the cell `p` by the final double loop. -/
noncomputable def rightPure (pb : Problem) (y x : Nat) : List Expr :=
  if x + 1 < pb.width ∧ SameTank pb y x y (x + 1)
    then [.node .iff [.bvar (y * pb.width + x), .bvar (y * pb.width + (x + 1))]] else []

noncomputable def belowPure (pb : Problem) (y x : Nat) : List Expr :=
  if y + 1 < pb.height ∧ SameTank pb y x (y + 1) x
    then [.node .imp [.bvar (y * pb.width + x), .bvar ((y + 1) * pb.width + x)]] else []

noncomputable def cellPure (pb : Problem) (p : Nat × Nat) : List Expr :=
  rightPure pb p.1 p.2 ++ belowPure pb p.1 p.2

theorem waterAt_eq (pb : Problem) {y x : Nat} (hy : y < pb.height) (hx : x < pb.width) :
    waterAt pb y x = .ok (.bvar (y * pb.width + x)) := getCell_bvars pb.height pb.width y x hy hx

section
variable (pb : Problem) (hwf : WellFormed pb) (bid : List (List Int)) (f : Nat → Nat → Int)
  (hr : Rep pb.height pb.width bid f)
  (hf : ∀ y, y < pb.height → ∀ x, x < pb.width → ∀ i, i < pb.blocks.length →
      InTank (pb.blocks.getD i []) y x → f y x = (i : Int))
include hwf hr hf

theorem rightCs_eq {y x : Nat} (hy : y < pb.height) (hx : x < pb.width) :
    rightCs pb bid y x = .ok (rightPure pb y x) := by
  unfold rightCs rightPure
  by_cases hx1 : x + 1 < pb.width
  · rw [if_pos (by omega)]
    have e1 : ((x : Int) + 1) = ((x + 1 : Nat) : Int) := by omega
    rw [e1, tableGet_rep hr hy hx, tableGet_rep hr hy hx1]
    simp only [ok_bind]
    by_cases hs : SameTank pb y x y (x + 1)
    · have := (same_id_iff pb hwf f hf hy hx hy hx1).2 hs
      rw [if_pos (by simpa using this), waterAt_eq pb hy hx, waterAt_eq pb hy hx1]
      simp only [ok_bind]
      rw [if_pos ⟨hx1, hs⟩]
      rfl
    · have : ¬ f y x = f y (x + 1) := fun h' => hs ((same_id_iff pb hwf f hf hy hx hy hx1).1 h')
      rw [if_neg (by simpa using this), if_neg (fun h' => hs h'.2)]
  · rw [if_neg (by omega), if_neg (fun h' => hx1 h'.1)]

theorem belowCs_eq {y x : Nat} (hy : y < pb.height) (hx : x < pb.width) :
    belowCs pb bid y x = .ok (belowPure pb y x) := by
  unfold belowCs belowPure
  by_cases hy1 : y + 1 < pb.height
  · rw [if_pos (by omega)]
    have e1 : ((y : Int) + 1) = ((y + 1 : Nat) : Int) := by omega
    rw [e1, tableGet_rep hr hy hx, tableGet_rep hr hy1 hx]
    simp only [ok_bind]
    by_cases hs : SameTank pb y x (y + 1) x
    · have := (same_id_iff pb hwf f hf hy hx hy1 hx).2 hs
      rw [if_pos (by simpa using this), waterAt_eq pb hy hx, waterAt_eq pb hy1 hx]
      simp only [ok_bind]
      rw [if_pos ⟨hy1, hs⟩]
      rfl
    · have : ¬ f y x = f (y + 1) x := fun h' => hs ((same_id_iff pb hwf f hf hy hx hy1 hx).1 h')
      rw [if_neg (by simpa using this), if_neg (fun h' => hs h'.2)]
  · rw [if_neg (by omega), if_neg (fun h' => hy1 h'.1)]

theorem cellCs_eq (p : Nat × Nat) (hy : p.1 < pb.height) (hx : p.2 < pb.width) :
    cellCs pb bid p = .ok (cellPure pb p) := by
  unfold cellCs cellPure
  rw [rightCs_eq pb hwf bid f hr hf hy hx, belowCs_eq pb hwf bid f hr hf hy hx]
  rfl

end

/-- Variables of row `y` / column `x`. -/
def rowVars (pb : Problem) (y : Nat) : List Expr := (List.range pb.width).map fun x => Expr.bvar (y * pb.width + x)
def colVars (pb : Problem) (x : Nat) : List Expr := (List.range pb.height).map fun y => Expr.bvar (y * pb.width + x)

/-- The constraint posted for one clue slot. -/
def cluePure (c : Int) (vars : List Expr) : List Expr :=
  if c ≥ 0 then [.node .eq [countTrueE vars, .litI c]] else []

theorem cmpPy_countTrueE (xs : List Expr) (c : Int) :
    cmpPy .eq (countTrueE xs) (.litI c) = .ok (.node .eq [countTrueE xs, .litI c]) := by
  unfold countTrueE
  simp only []
  split <;> split <;> rfl

theorem countTrueA_arr1 (l : List Expr) : countTrueA [.leaf (.arr1 true l)] = countTrue l := by
  simp [countTrueA, ANest.flattenList, ANest.flatten, PyV.flat]

theorem all_bvar_boolLike {l : List Expr} (h : ∀ e ∈ l, ∃ i, e = .bvar i) : ∀ e ∈ l, e.isBoolLike = true := by
  intro e he; obtain ⟨i, rfl⟩ := h e he; rfl

theorem clueCs_of_line (pb : Problem) (clue : List Int) (k : Nat) (key : Key2) (vars : List Expr)
    (hk : k < clue.length) (hline : getitemV (isWater pb) key = .ok (.arr1 true vars))
    (hv : ∀ e ∈ vars, ∃ i, e = .bvar i) :
    clueCs pb clue k key = .ok (cluePure (clue.getD k (-1)) vars) := by
  unfold clueCs cluePure
  rw [pyIndex_nat clue k (-1) hk]
  simp only [ok_bind]
  split
  · rw [hline]
    simp only [ok_bind]
    rw [countTrueA_arr1, countTrue_ok_of_boolLike (all_bvar_boolLike hv)]
    simp only [ok_bind]
    rw [cmpPy_countTrueE]
    rfl
  · rfl

theorem row_line (pb : Problem) {y : Nat} (hy : y < pb.height) :
    getitemV (isWater pb) (.pair (.idx (y : Int)) fullSlice) = .ok (.arr1 true (rowVars pb y)) := by
  unfold isWater rowVars
  rw [bvars_eq]
  exact Cspuz.Proofs.C11CL.getitemV_row true Expr.bvar pb.height pb.width y fullSlice (List.range pb.width) hy
    (Cspuz.Proofs.C11CL.axisSel_full _) (fun x hx => List.mem_range.mp hx)

theorem col_line (pb : Problem) {x : Nat} (hx : x < pb.width) :
    getitemV (isWater pb) (.pair fullSlice (.idx (x : Int))) = .ok (.arr1 true (colVars pb x)) := by
  unfold isWater colVars
  rw [bvars_eq]
  exact Cspuz.Proofs.C11CL.getitemV_col true Expr.bvar pb.height pb.width fullSlice x (List.range pb.height) hx
    (Cspuz.Proofs.C11CL.axisSel_full _) (fun y hy => List.mem_range.mp hy)

/-- All constraints of the (repaired) program on a well-formed instance. -/
noncomputable def allCs (pb : Problem) : List Expr :=
  ((List.range pb.height).map fun y => cluePure (pb.clueRow.getD y (-1)) (rowVars pb y)).flatten ++
  ((List.range pb.width).map fun x => cluePure (pb.clueCol.getD x (-1)) (colVars pb x)).flatten ++
  ((cellsOf pb.height pb.width).map (cellPure pb)).flatten

theorem mem_cellsOf {h w : Nat} {p : Nat × Nat} : p ∈ cellsOf h w ↔ p.1 < h ∧ p.2 < w := by
  unfold cellsOf
  simp only [List.mem_flatMap, List.mem_range, List.mem_map]
  constructor
  · rintro ⟨y, hy, x, hx, rfl⟩; exact ⟨hy, hx⟩
  · rintro ⟨hy, hx⟩; exact ⟨p.1, hy, p.2, hx, rfl⟩

theorem program_eq (pb : Problem) (hwf : WellFormed pb) :
    program pb = .ok { decls := List.replicate (pb.height * pb.width) .bool, cs := allCs pb,
                       keys := List.range (pb.height * pb.width) } := by
  obtain ⟨bid, f, hfill, hr, hf⟩ := fillTable_wf pb hwf
  have hR : (List.range pb.height).mapM (fun y => clueCs pb pb.clueRow y (.pair (.idx (y : Int)) fullSlice))
      = .ok ((List.range pb.height).map fun y => cluePure (pb.clueRow.getD y (-1)) (rowVars pb y)) :=
    mapM_eq_ok_map (fun y hy => by
      have hy' := List.mem_range.mp hy
      exact clueCs_of_line pb pb.clueRow y _ _ (by rw [hwf.1]; exact hy') (row_line pb hy')
        (by intro e he; simp only [rowVars, List.mem_map] at he; obtain ⟨x, _, rfl⟩ := he; exact ⟨_, rfl⟩))
  have hC : (List.range pb.width).mapM (fun x => clueCs pb pb.clueCol x (.pair fullSlice (.idx (x : Int))))
      = .ok ((List.range pb.width).map fun x => cluePure (pb.clueCol.getD x (-1)) (colVars pb x)) :=
    mapM_eq_ok_map (fun x hx => by
      have hx' := List.mem_range.mp hx
      exact clueCs_of_line pb pb.clueCol x _ _ (by rw [hwf.2.1]; exact hx') (col_line pb hx')
        (by intro e he; simp only [colVars, List.mem_map] at he; obtain ⟨y, _, rfl⟩ := he; exact ⟨_, rfl⟩))
  have hcell : (cellsOf pb.height pb.width).mapM (cellCs pb bid)
      = .ok ((cellsOf pb.height pb.width).map (cellPure pb)) :=
    mapM_eq_ok_map (fun p hp => by
      have := mem_cellsOf.1 hp
      exact cellCs_eq pb hwf bid f hr hf p this.1 this.2)
  unfold program programWith
  simp only []
  rw [show addKeysV (isWater pb) [] = .ok (List.range (pb.height * pb.width)) from
    Cspuz.Proofs.C11Grid.addKeys_bvars pb.height pb.width]
  simp only [ok_bind]
  rw [hR]
  simp only [ok_bind]
  rw [hC]
  simp only [ok_bind]
  rw [hfill]
  simp only [ok_bind]
  rw [hcell]
  rfl

/-! ### Meaning of the constraints on the grid -/

theorem forall_mem_flatten_map {α β : Type} (l : List α) (f : α → List β) (P : β → Prop) :
    (∀ c ∈ (l.map f).flatten, P c) ↔ ∀ a ∈ l, ∀ c ∈ f a, P c := by
  simp only [List.mem_flatten, List.mem_map]
  constructor
  · intro h a ha c hc; exact h c ⟨f a, ⟨a, ha, rfl⟩, hc⟩
  · rintro h c ⟨_, ⟨a, ha, rfl⟩, hc⟩; exact h a ha c hc

theorem eval_iff2 {σ : Asg} {a b : Expr} {x y : Bool} (ha : eval σ a = some (.b x))
    (hb : eval σ b = some (.b y)) : eval σ (.node .iff [a, b]) = some (.b (x == y)) := by
  simp [ha, hb, evalOp, allBools]

theorem eval_imp2 {σ : Asg} {a b : Expr} {x y : Bool} (ha : eval σ a = some (.b x))
    (hb : eval σ b = some (.b y)) : eval σ (.node .imp [a, b]) = some (.b (!x || y)) := by
  simp [ha, hb, evalOp_imp]

/-- One clue slot: the constraint holds iff the number of true variables of the line is the clue. -/
theorem cluePure_sat {σ : Asg} (c : Int) (ids : List Nat) :
    (∀ e ∈ cluePure c (ids.map Expr.bvar), eval σ e = some (.b true)) ↔
      (0 ≤ c → (((ids.filter fun i => σ.b i).length : Nat) : Int) = c) := by
  have hct : eval σ (countTrueE (ids.map Expr.bvar)) = some (.i ((ids.filter fun i => σ.b i).length : Nat)) := by
    rw [eval_countTrueE (ids.map fun i => σ.b i) (by simp [List.map_map, Function.comp_def])]
    rw [List.count_eq_countP, List.countP_map, List.countP_eq_length_filter]
    congr 4
    apply List.filter_congr
    intro x _; simp
  unfold cluePure
  by_cases hc : c ≥ 0
  · rw [if_pos hc]
    simp only [List.mem_singleton, forall_eq]
    rw [eval_cmp rfl hct (eval_litI σ c)]
    simp only [cmpOp_eq, Option.some.injEq, Val.b.injEq, beq_iff_eq]
    constructor
    · intro h _; exact h
    · intro h; exact h hc
  · rw [if_neg hc]
    simp only [List.not_mem_nil, false_implies, implies_true, true_iff]
    intro h; omega

theorem wtB_cluePure (c : Int) (ids : List Nat) : ∀ e ∈ cluePure c (ids.map Expr.bvar), wtB e = true := by
  intro e he
  unfold cluePure at he
  split at he
  · simp only [List.mem_singleton] at he
    subst he
    have hwt : wtI (countTrueE (ids.map Expr.bvar)) = true := by
      have hops : ∀ l : List Nat, ctOps (l.map Expr.bvar) = l.map fun i => .node .ite [.bvar i, .litI 1, .litI 0] := by
        intro l; induction l with
        | nil => rfl
        | cons a l ih => simp [ctOps, ih]
      have hconst : ∀ l : List Nat, ctConst (l.map Expr.bvar) = 0 := by
        intro l; induction l with
        | nil => rfl
        | cons a l ih => simp [ctConst, ih]
      have hwts : ∀ l : List Nat, wtIs (l.map fun i => Expr.node .ite [.bvar i, .litI 1, .litI 0]) = true := by
        intro l; induction l with
        | nil => rfl
        | cons a l ih => simp [wtIs, wtI, wtB, ih]
      unfold countTrueE
      simp only [hconst, hops, Nat.lt_irrefl, gt_iff_lt, if_false]
      split
      · rfl
      · next hne =>
        rw [wtI]
        simp only [hwts, Bool.and_true]
        cases ids with
        | nil => simp at hne
        | cons a l => simp
    simp [wtB, wtIs, wtI, hwt]
  · simp at he

theorem rowVars_eq (pb : Problem) (y : Nat) :
    rowVars pb y = ((List.range pb.width).map fun x => y * pb.width + x).map Expr.bvar := by
  simp [rowVars, List.map_map, Function.comp_def]

theorem colVars_eq (pb : Problem) (x : Nat) :
    colVars pb x = ((List.range pb.height).map fun y => y * pb.width + x).map Expr.bvar := by
  simp [colVars, List.map_map, Function.comp_def]

section
variable (pb : Problem) (σ : Asg) (g : Nat → Nat → Bool)
  (hag : ∀ y, y < pb.height → ∀ x, x < pb.width → g y x = σ.b (y * pb.width + x))
include hag

theorem row_sat {y : Nat} (hy : y < pb.height) :
    (∀ e ∈ cluePure (pb.clueRow.getD y (-1)) (rowVars pb y), eval σ e = some (.b true)) ↔
      (0 ≤ pb.clueRow.getD y (-1) → (rowCount pb g y : Int) = pb.clueRow.getD y (-1)) := by
  rw [rowVars_eq, cluePure_sat]
  have : ((List.range pb.width).map fun x => y * pb.width + x).filter (fun i => σ.b i)
      = ((List.range pb.width).filter fun x => g y x).map fun x => y * pb.width + x := by
    rw [List.filter_map]
    congr 1
    apply List.filter_congr
    intro x hx
    simp only [Function.comp]
    rw [hag y hy x (List.mem_range.mp hx)]
  rw [this, List.length_map]
  rfl

theorem col_sat {x : Nat} (hx : x < pb.width) :
    (∀ e ∈ cluePure (pb.clueCol.getD x (-1)) (colVars pb x), eval σ e = some (.b true)) ↔
      (0 ≤ pb.clueCol.getD x (-1) → (colCount pb g x : Int) = pb.clueCol.getD x (-1)) := by
  rw [colVars_eq, cluePure_sat]
  have : ((List.range pb.height).map fun y => y * pb.width + x).filter (fun i => σ.b i)
      = ((List.range pb.height).filter fun y => g y x).map fun y => y * pb.width + x := by
    rw [List.filter_map]
    congr 1
    apply List.filter_congr
    intro y hy
    simp only [Function.comp]
    rw [hag y (List.mem_range.mp hy) x hx]
  rw [this, List.length_map]
  rfl

theorem right_sat {y x : Nat} (hy : y < pb.height) (hx : x < pb.width) :
    (∀ e ∈ rightPure pb y x, eval σ e = some (.b true)) ↔
      (x + 1 < pb.width → SameTank pb y x y (x + 1) → g y x = g y (x + 1)) := by
  unfold rightPure
  by_cases hc : x + 1 < pb.width ∧ SameTank pb y x y (x + 1)
  · rw [if_pos hc]
    simp only [List.mem_singleton, forall_eq]
    rw [eval_iff2 (eval_bvar σ _) (eval_bvar σ _), ← hag y hy x hx, ← hag y hy (x + 1) hc.1]
    simp only [Option.some.injEq, Val.b.injEq, beq_iff_eq]
    exact ⟨fun h _ _ => h, fun h => h hc.1 hc.2⟩
  · rw [if_neg hc]
    simp only [List.not_mem_nil, false_implies, implies_true, true_iff]
    intro h1 h2; exact absurd ⟨h1, h2⟩ hc

theorem below_sat {y x : Nat} (hy : y < pb.height) (hx : x < pb.width) :
    (∀ e ∈ belowPure pb y x, eval σ e = some (.b true)) ↔
      (y + 1 < pb.height → SameTank pb y x (y + 1) x → g y x = true → g (y + 1) x = true) := by
  unfold belowPure
  by_cases hc : y + 1 < pb.height ∧ SameTank pb y x (y + 1) x
  · rw [if_pos hc]
    simp only [List.mem_singleton, forall_eq]
    rw [eval_imp2 (eval_bvar σ _) (eval_bvar σ _), ← hag y hy x hx, ← hag (y + 1) hc.1 x hx]
    simp only [Option.some.injEq, Val.b.injEq]
    constructor
    · intro h _ _ h1; simpa [h1] using h
    · intro h
      cases h1 : g y x with
      | false => simp
      | true => simp [h hc.1 hc.2 h1]
  · rw [if_neg hc]
    simp only [List.not_mem_nil, false_implies, implies_true, true_iff]
    intro h1 h2; exact absurd ⟨h1, h2⟩ hc

/-- The constraints of the program hold under `σ` iff the grid read off `σ` obeys the rules. -/
theorem allCs_sat : (∀ c ∈ allCs pb, eval σ c = some (.b true)) ↔ RulesGrid pb g := by
  unfold allCs RulesGrid Clues
  simp only [List.mem_append, or_imp, forall_and, forall_mem_flatten_map, List.mem_range]
  constructor
  · rintro ⟨⟨hR, hC⟩, hcell⟩
    refine ⟨⟨fun y hy => (row_sat pb σ g hag hy).1 (hR y hy), fun x hx => (col_sat pb σ g hag hx).1 (hC x hx)⟩, ?_, ?_⟩
    · intro y hy x hx1 hs
      have := hcell (y, x) (mem_cellsOf.2 ⟨hy, by omega⟩)
      exact (right_sat pb σ g hag hy (by omega)).1 (fun e he => this e (by simp [cellPure, he])) hx1 hs
    · intro y hy1 x hx hs
      have := hcell (y, x) (mem_cellsOf.2 ⟨by omega, hx⟩)
      exact (below_sat pb σ g hag (by omega) hx).1 (fun e he => this e (by simp [cellPure, he])) hy1 hs
  · rintro ⟨⟨hR, hC⟩, hright, hbelow⟩
    refine ⟨⟨fun y hy => (row_sat pb σ g hag hy).2 (hR y hy), fun x hx => (col_sat pb σ g hag hx).2 (hC x hx)⟩, ?_⟩
    intro p hp e he
    have hp' := mem_cellsOf.1 hp
    simp only [cellPure, List.mem_append] at he
    rcases he with he | he
    · exact (right_sat pb σ g hag hp'.1 hp'.2).2 (fun hx1 hs => hright p.1 hp'.1 p.2 hx1 hs) e he
    · exact (below_sat pb σ g hag hp'.1 hp'.2).2 (fun hy1 hs => hbelow p.1 hy1 p.2 hp'.2 hs) e he

end

theorem wtB_allCs (pb : Problem) : ∀ c ∈ allCs pb, wtB c = true := by
  unfold allCs
  simp only [List.mem_append, or_imp, forall_and, forall_mem_flatten_map]
  refine ⟨⟨?_, ?_⟩, ?_⟩
  · intro y _; rw [rowVars_eq]; exact wtB_cluePure _ _
  · intro x _; rw [colVars_eq]; exact wtB_cluePure _ _
  · intro p _ e he
    simp only [cellPure, rightPure, belowPure, List.mem_append] at he
    rcases he with he | he <;> split at he <;> simp at he <;> subst he <;> rfl

/-! ### The theorems -/

theorem total (pb : Problem) (hwf : WellFormed pb) : ∃ P, program pb = .ok P := ⟨_, program_eq pb hwf⟩

theorem program_iff_rules (pb : Problem) (hwf : WellFormed pb) (P : PuzzleProg) (hP : program pb = .ok P) :
    EncodesRules P (Rules pb) ∧ P.KeysOk ∧ (∀ c ∈ P.cs, wtB c = true) := by
  rw [program_eq pb hwf] at hP
  cases hP
  refine ⟨?_, Cspuz.Proofs.C11Grid.keysOk_range _ _ _ (by simp), wtB_allCs pb⟩
  exact Cspuz.Proofs.C11Grid.encodes_bool_grid pb.height pb.width (allCs pb) (RulesGrid pb)
    (fun σ g hag => allCs_sat pb σ g hag)

end Cspuz.Proofs.C11Aquarium
