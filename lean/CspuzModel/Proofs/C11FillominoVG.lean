/-
  C11 (fillomino group) — typing (`wtB`) and variable locality (`varsBelow`) of the program emitted by
  `_division_connected_variable_groups` (closed form `C07L1.vgProg`) and of the auxiliary
  `_with_borders` route on Boolean-variable borders, together with the closed form of the latter.
-/
import CspuzModel.Proofs.C07L1
import CspuzModel.Proofs.C11FragWT
namespace Cspuz.Proofs.C11FillominoVG
open Cspuz Cspuz.Spec Cspuz.Proofs Cspuz.Proofs.C07L1 Cspuz.Proofs.C11FragWT

/-- well typed and local below `B` -/
def OKB (B : Nat) (c : Expr) : Prop := wtB c = true ∧ c.varsBelow B = true

theorem vb_bvar {B k : Nat} (h : k < B) : (Expr.bvar k).varsBelow B = true := by
  simp only [Expr.varsBelow, decide_eq_true_eq]; exact h

theorem vb_ivar {B k : Nat} (h : k < B) : (Expr.ivar k).varsBelow B = true := by
  simp only [Expr.varsBelow, decide_eq_true_eq]; exact h

theorem vb_litI (B : Nat) (n : Int) : (Expr.litI n).varsBelow B = true := by
  simp [Expr.varsBelow]

theorem vb_node1 {B : Nat} {op : Op} {a : Expr} (ha : a.varsBelow B = true) :
    (Expr.node op [a]).varsBelow B = true := by
  rw [varsBelow_node]; intro x hx; simp at hx; subst hx; exact ha

theorem vb_node2 {B : Nat} {op : Op} {a b : Expr} (ha : a.varsBelow B = true) (hb : b.varsBelow B = true) :
    (Expr.node op [a, b]).varsBelow B = true := by
  rw [varsBelow_node]; intro x hx; simp at hx; rcases hx with rfl | rfl <;> assumption

theorem vb_node3 {B : Nat} {op : Op} {a b c : Expr} (ha : a.varsBelow B = true) (hb : b.varsBelow B = true)
    (hc : c.varsBelow B = true) : (Expr.node op [a, b, c]).varsBelow B = true := by
  rw [varsBelow_node]; intro x hx; simp at hx; rcases hx with rfl | rfl | rfl <;> assumption

/-! ### the base constraints -/

theorem c0E_ok {base n B : Nat} (hB : base + 3 * n ≤ B) : ∀ c ∈ c0E base n, OKB B c := by
  intro c hc
  simp only [c0E, List.mem_map, List.mem_range] at hc
  obtain ⟨i, hi, rfl⟩ := hc
  refine ⟨by simp [rootE, rankE, wtB, wtBs, wtIs, wtI], ?_⟩
  exact vb_node2 (vb_bvar (by omega)) (vb_node2 (vb_ivar (by omega)) (vb_litI _ _))

theorem perE_ok {g : Graph} {base B : Nat} (hwf : g.wf = true) (hB : base + 3 * g.n + g.edges.length ≤ B)
    {i : Nat} (hi : i < g.n) : ∀ c ∈ perE g base i, OKB B c := by
  intro c hc
  simp only [perE, List.mem_append, List.mem_singleton, List.mem_map] at hc
  rcases hc with (rfl | ⟨je, hje, rfl⟩) | rfl
  · refine ⟨by simp [rootE, gidE, wtB, wtBs, wtIs, wtI], ?_⟩
    exact vb_node2 (vb_bvar (by omega)) (vb_node2 (vb_ivar (by omega)) (vb_litI _ _))
  · have hb := incident_bounds hwf hje
    refine ⟨by simp [aeE, rankE, wtB, wtBs, wtIs, wtI], ?_⟩
    exact vb_node2 (vb_bvar (by omega)) (vb_node2 (vb_ivar (by omega)) (vb_ivar (by omega)))
  · have hxs : ∀ x ∈ (g.incident i).map (fun je =>
        Expr.node .and [aeE base g.n je.2, .node .lt [rankE base g.n je.1, rankE base g.n i]]), OKB B x := by
      intro x hx
      simp only [List.mem_map] at hx
      obtain ⟨je, hje, rfl⟩ := hx
      have hb := incident_bounds hwf hje
      refine ⟨by simp [aeE, rankE, wtB, wtBs, wtIs, wtI], ?_⟩
      exact vb_node2 (vb_bvar (by omega)) (vb_node2 (vb_ivar (by omega)) (vb_ivar (by omega)))
    have hw := wtI_countTrueE _ (fun x hx => (hxs x hx).1)
    have hv := varsBelow_countTrueE B _ (fun x hx => (hxs x hx).2)
    refine ⟨by simp [rootE, wtB, wtIs, wtI, hw], ?_⟩
    exact vb_node2 hv (vb_node3 (vb_bvar (by omega)) (vb_litI _ _) (vb_litI _ _))

theorem zipIdx_bounds {g : Graph} (hwf : g.wf = true) {uv : (Nat × Nat) × Nat} (h : uv ∈ g.edges.zipIdx) :
    uv.2 < g.edges.length ∧ uv.1.1 < g.n ∧ uv.1.2 < g.n := by
  obtain ⟨⟨u, v⟩, k⟩ := uv
  exact edge_bounds hwf (List.mem_zipIdx_iff_getElem?.1 h)

theorem c2E_ok {g : Graph} {base B : Nat} (hwf : g.wf = true) (hB : base + 3 * g.n + g.edges.length ≤ B) :
    ∀ c ∈ c2E g base, OKB B c := by
  intro c hc
  simp only [c2E, List.mem_map] at hc
  obtain ⟨uv, huv, rfl⟩ := hc
  have hb := zipIdx_bounds hwf huv
  refine ⟨by simp [aeE, gidE, wtB, wtBs, wtIs, wtI], ?_⟩
  exact vb_node2 (vb_bvar (by omega)) (vb_node2 (vb_ivar (by omega)) (vb_ivar (by omega)))

theorem baseCs_ok {g : Graph} {base B : Nat} (hwf : g.wf = true) (hB : base + 3 * g.n + g.edges.length ≤ B) :
    ∀ c ∈ baseCs g base, OKB B c := by
  intro c hc
  simp only [baseCs, List.mem_append] at hc
  rcases hc with (hc | hc) | hc
  · exact c0E_ok (by omega) c hc
  · revert c
    rw [forall_mem_flatten_range]
    intro i hi c hc
    exact perE_ok hwf hB hi c hc
  · exact c2E_ok hwf hB c hc

/-! ### the size constraints -/

theorem c3E_ok {base n m B : Nat} (hB : base + 5 * n + m ≤ B) : ∀ c ∈ c3E base n m, OKB B c := by
  intro c hc
  simp only [c3E, List.mem_map, List.mem_range] at hc
  obtain ⟨i, hi, rfl⟩ := hc
  refine ⟨by simp [dsE, tsE, wtB, wtIs, wtI], ?_⟩
  exact vb_node2 (vb_ivar (by omega)) (vb_ivar (by omega))

theorem c4E_ok {base n m B : Nat} (hB : base + 5 * n + m ≤ B) : ∀ c ∈ c4E base n m, OKB B c := by
  intro c hc
  simp only [c4E, List.mem_map, List.mem_range] at hc
  obtain ⟨i, hi, rfl⟩ := hc
  refine ⟨by simp [rootE, dsE, tsE, wtB, wtBs, wtIs, wtI], ?_⟩
  exact vb_node2 (vb_bvar (by omega)) (vb_node2 (vb_ivar (by omega)) (vb_ivar (by omega)))

theorem c5E_ok {g : Graph} {gs : GroupSize} {base B : Nat} (hwf : g.wf = true)
    (hB : base + 5 * g.n + g.edges.length ≤ B) : ∀ c ∈ c5E g gs base, OKB B c := by
  have key : ∀ c ∈ g.edges.zipIdx.map (fun uv =>
      Expr.node .imp [aeE base g.n uv.2,
        .node .eq [tsE base g.n g.edges.length uv.1.1, tsE base g.n g.edges.length uv.1.2]]), OKB B c := by
    intro c hc
    simp only [List.mem_map] at hc
    obtain ⟨uv, huv, rfl⟩ := hc
    have hb := zipIdx_bounds hwf huv
    refine ⟨by simp [aeE, tsE, wtB, wtBs, wtIs, wtI], ?_⟩
    exact vb_node2 (vb_bvar (by omega)) (vb_node2 (vb_ivar (by omega)) (vb_ivar (by omega)))
  intro c hc
  cases gs with
  | none => exact key c hc
  | scalar s => simp [c5E] at hc
  | perVertex l => exact key c hc

theorem foldAdd_wtI : ∀ (r : List Expr) (acc : Expr), wtI acc = true → (∀ x ∈ r, wtI x = true) →
    wtI (r.foldl (fun acc x => .node .add [acc, x]) acc) = true
  | [], acc, ha, _ => by simpa using ha
  | t :: r, acc, ha, h => by
    rw [List.foldl_cons]
    refine foldAdd_wtI r _ ?_ (fun x hx => h x (List.mem_cons_of_mem _ hx))
    have ht := h t List.mem_cons_self
    simp [wtI, wtIs, ha, ht]

theorem foldAdd_vb {B : Nat} : ∀ (r : List Expr) (acc : Expr), acc.varsBelow B = true →
    (∀ x ∈ r, x.varsBelow B = true) →
    (r.foldl (fun acc x => .node .add [acc, x]) acc).varsBelow B = true
  | [], acc, ha, _ => by simpa using ha
  | t :: r, acc, ha, h => by
    rw [List.foldl_cons]
    exact foldAdd_vb r _ (vb_node2 ha (h t List.mem_cons_self)) (fun x hx => h x (List.mem_cons_of_mem _ hx))

theorem lhsE_wtI (terms : List Expr) (h : ∀ x ∈ terms, wtI x = true) : wtI (lhsE terms) = true := by
  cases terms with
  | nil => simp [lhsE, wtI]
  | cons t r =>
    have ht := h t List.mem_cons_self
    have h0 : wtI (.node .add [.litI 0, t]) = true := by simp [wtI, wtIs, ht]
    have hf := foldAdd_wtI r _ h0 (fun x hx => h x (List.mem_cons_of_mem _ hx))
    unfold lhsE
    simp only [wtI, wtIs, hf]
    simp

theorem lhsE_vb {B : Nat} (terms : List Expr) (h : ∀ x ∈ terms, x.varsBelow B = true) :
    (lhsE terms).varsBelow B = true := by
  cases terms with
  | nil => simp [lhsE, Expr.varsBelow]
  | cons t r =>
    unfold lhsE
    exact vb_node2 (foldAdd_vb r _ (vb_node2 (vb_litI _ _) (h t List.mem_cons_self))
      (fun x hx => h x (List.mem_cons_of_mem _ hx))) (vb_litI _ _)

theorem termE_ok {g : Graph} {base B : Nat} (hwf : g.wf = true) (hB : base + 5 * g.n + g.edges.length ≤ B)
    {i : Nat} {je : Nat × Nat} (hje : je ∈ g.incident i) :
    wtI (termE g base i je) = true ∧ (termE g base i je).varsBelow B = true := by
  have hb := incident_bounds hwf hje
  refine ⟨by simp [termE, aeE, rankE, dsE, wtB, wtBs, wtIs, wtI], ?_⟩
  exact vb_node3 (vb_node2 (vb_bvar (by omega)) (vb_node2 (vb_ivar (by omega)) (vb_ivar (by omega))))
    (vb_ivar (by omega)) (vb_litI _ _)

theorem specE_ok {gs : GroupSize} {base n m B : Nat} (hsz : SizeArgs base n gs) (hB : base + 5 * n + m ≤ B)
    {i : Nat} (hi : i < n) : ∀ c ∈ specE gs base n m i, OKB B c := by
  have key : ∀ e : Expr, wtI e = true → e.varsBelow base = true →
      OKB B (.node .eq [tsE base n m i, e]) := by
    intro e h1 h2
    refine ⟨by simp [tsE, wtB, wtIs, wtI, h1], ?_⟩
    exact vb_node2 (vb_ivar (by omega)) (C11Frag.varsBelow_mono (by omega) _ h2)
  intro c hc
  cases gs with
  | none => simp [specE] at hc
  | scalar s =>
    simp only [specE, List.mem_singleton] at hc
    subst hc
    exact key s hsz.1 hsz.2
  | perVertex l =>
    simp only [specE] at hc
    split at hc
    · rename_i e he
      simp only [List.mem_singleton] at hc
      subst hc
      have hm : some e ∈ l := List.mem_of_getElem? he
      exact key e (hsz.2 e hm).1 (hsz.2 e hm).2
    · simp at hc

theorem per2E_ok {g : Graph} {gs : GroupSize} {base B : Nat} (hwf : g.wf = true) (hsz : SizeArgs base g.n gs)
    (hB : base + 5 * g.n + g.edges.length ≤ B) {i : Nat} (hi : i < g.n) :
    ∀ c ∈ per2E g gs base i, OKB B c := by
  intro c hc
  simp only [per2E, List.mem_cons] at hc
  rcases hc with rfl | hc
  · have hw := lhsE_wtI ((g.incident i).map (termE g base i)) (by
      intro x hx
      simp only [List.mem_map] at hx
      obtain ⟨je, hje, rfl⟩ := hx
      exact (termE_ok (B := B) hwf hB hje).1)
    have hv := lhsE_vb (B := B) ((g.incident i).map (termE g base i)) (by
      intro x hx
      simp only [List.mem_map] at hx
      obtain ⟨je, hje, rfl⟩ := hx
      exact (termE_ok hwf hB hje).2)
    refine ⟨by simp [dsE, wtB, wtIs, wtI, hw], ?_⟩
    exact vb_node2 (vb_ivar (by omega)) hv
  · exact specE_ok hsz hB hi c hc

theorem vgProg_decls_length (g : Graph) (gs : GroupSize) (base : Nat) :
    (vgProg g gs base).decls.length =
      (match gs with | .none => 3 * g.n + g.edges.length | _ => 5 * g.n + g.edges.length) := by
  cases gs <;> simp only [vgProg, List.length_append, List.length_replicate, baseDecls_length] <;> omega

theorem sizedCs_ok {g : Graph} {gs : GroupSize} {base B : Nat} (hwf : g.wf = true) (hsz : SizeArgs base g.n gs)
    (hB : base + 5 * g.n + g.edges.length ≤ B) :
    ∀ c ∈ baseCs g base ++ c3E base g.n g.edges.length ++ c4E base g.n g.edges.length ++
        ((List.range g.n).map (per2E g gs base)).flatten ++ c5E g gs base, OKB B c := by
  intro c hc
  simp only [List.mem_append] at hc
  rcases hc with (((hc | hc) | hc) | hc) | hc
  · exact baseCs_ok hwf (by omega) c hc
  · exact c3E_ok hB c hc
  · exact c4E_ok hB c hc
  · revert c
    rw [forall_mem_flatten_range]
    intro i hi c hc
    exact per2E_ok hwf hsz hB hi c hc
  · exact c5E_ok hwf hB c hc

/-- Every constraint of the closed form `vgProg` is a well-typed Boolean tree over variables below
`base + (number of auxiliary variables)`. -/
theorem vgProg_wt {g : Graph} {gs : GroupSize} {base : Nat} (hwf : g.wf = true) (hsz : SizeArgs base g.n gs) :
    ∀ c ∈ (vgProg g gs base).cs,
      wtB c = true ∧ c.varsBelow (base + (vgProg g gs base).decls.length) = true := by
  rw [vgProg_decls_length]
  cases gs with
  | none => exact baseCs_ok hwf (by simp only; omega)
  | scalar s => exact sizedCs_ok hwf hsz (by simp only; omega)
  | perVertex l => exact sizedCs_ok hwf hsz (by simp only; omega)

/-! ### the `_with_borders` route -/

/-- The border constraints `border[k] == (gid[u] != gid[v])` of the `_with_borders` route when every border
expression is a Boolean variable. -/
def borderCs (g : Graph) (bs : List Nat) (base : Nat) : List Expr :=
  g.edges.zipIdx.map fun uv =>
    Expr.node .iff [.bvar (bs.getD uv.2 0), .node .ne [.ivar (base + uv.1.1), .ivar (base + uv.1.2)]]

/-- Closed form of `variableGroupsWithBorders` (auxiliary route, `prim = false`) on Boolean-variable borders. -/
theorem vgwb_eq {g : Graph} {gs : List (Option Expr)} {bs : List Nat} {base : Nat}
    (hwf : g.wf = true) (hn : 0 < g.n) (hsz : SizeArgs base g.n (.perVertex gs))
    (hlen : bs.length = g.edges.length) :
    variableGroupsWithBorders g gs (bs.map Expr.bvar) false base
      = .ok (vgProg g (.perVertex gs) base ++ ({ cs := borderCs g bs base } : Prog)) := by
  unfold variableGroupsWithBorders
  rw [if_neg (by rw [hsz.1]; simp), if_neg (by rw [List.length_map, hlen]; simp)]
  simp only [Bool.false_eq_true, if_false]
  rw [vg_eq_prog hn hsz, ok_bind]
  simp only []
  rw [mapM_eq_ok_map (g := fun uv =>
    Expr.node .iff [.bvar (bs.getD uv.2 0), .node .ne [.ivar (base + uv.1.1), .ivar (base + uv.1.2)]])]
  · rfl
  · intro uv huv
    have hb := zipIdx_bounds hwf huv
    have hk : uv.2 < (bs.map Expr.bvar).length := by rw [List.length_map]; omega
    have hk' : uv.2 < bs.length := by omega
    rw [getE_ivars hb.2.1, ok_bind, getE_ivars hb.2.2, ok_bind, getE_eq_ok hk, ok_bind]
    simp only [List.getElem_map, List.getD, List.getElem?_eq_getElem hk', Option.getD_some]
    rfl

theorem vgwb_wt {g : Graph} {gs : List (Option Expr)} {bs : List Nat} {base : Nat}
    (hwf : g.wf = true) (hsz : SizeArgs base g.n (.perVertex gs))
    (hlen : bs.length = g.edges.length) (hbs : ∀ b ∈ bs, b < base) :
    ∀ c ∈ (vgProg g (.perVertex gs) base ++ ({ cs := borderCs g bs base } : Prog)).cs,
      wtB c = true ∧
      c.varsBelow (base + (vgProg g (.perVertex gs) base ++ ({ cs := borderCs g bs base } : Prog)).decls.length) = true := by
  have hd : (vgProg g (.perVertex gs) base ++ ({ cs := borderCs g bs base } : Prog)).decls.length
      = (vgProg g (.perVertex gs) base).decls.length := by
    rw [C11Frag.prog_append_decls]; simp
  rw [hd, C11Frag.prog_append_cs]
  intro c hc
  rcases List.mem_append.1 hc with hc | hc
  · exact vgProg_wt hwf hsz c hc
  · simp only [borderCs, List.mem_map] at hc
    obtain ⟨uv, huv, rfl⟩ := hc
    have hb := zipIdx_bounds hwf huv
    have hk' : uv.2 < bs.length := by omega
    have hbk : bs.getD uv.2 0 < base := by
      simp only [List.getD, List.getElem?_eq_getElem hk', Option.getD_some]
      exact hbs _ (List.getElem_mem hk')
    have hdl := vgProg_decls_length g (.perVertex gs) base
    simp only at hdl
    refine ⟨by simp [wtB, wtBs, wtIs, wtI], ?_⟩
    exact vb_node2 (vb_bvar (by omega)) (vb_node2 (vb_ivar (by omega)) (vb_ivar (by omega)))

end Cspuz.Proofs.C11FillominoVG
