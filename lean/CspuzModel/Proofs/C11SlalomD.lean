/-
  C11 for `solve_slalom`: the table `gate_id` versus the gates of the problem.
-/
import CspuzModel.Proofs.C11SlalomS
import Mathlib.Data.List.Pairwise
namespace Cspuz.Proofs.C11SlalomD
open Cspuz Cspuz.Spec Cspuz.Spec.FrameGeom
open Cspuz.Puzzles.Slalom Cspuz.Spec.Slalom Cspuz.Proofs.C11SlalomP Cspuz.Proofs.C11SlalomS

/-- the fold that defines `gidF`, with an arbitrary start value. -/
def gfold (p : Pt) (acc : Option Int) (gs : List Gate) : Option Int :=
  gs.foldl (fun acc g => if p ∈ gateCellsN g then some g.n else acc) acc

theorem gidF_eq (gs : List Gate) (p : Pt) : gidF gs p = gfold p none gs := rfl

theorem gfold_isSome (p : Pt) : ∀ (gs : List Gate) (acc : Option Int),
    (gfold p acc gs).isSome = (acc.isSome || gs.any fun g => decide (p ∈ gateCellsN g))
  | [], acc => by simp [gfold]
  | g :: gs, acc => by
    show (gfold p _ gs).isSome = _
    rw [gfold_isSome p gs]
    by_cases h : p ∈ gateCellsN g <;> simp [h]

theorem gfold_some (p : Pt) : ∀ (gs : List Gate) (acc : Option Int) (n : Int), gfold p acc gs = some n →
    acc = some n ∨ ∃ g ∈ gs, p ∈ gateCellsN g ∧ g.n = n
  | [], acc, n, h => Or.inl h
  | g :: gs, acc, n, h => by
    have h' : gfold p (if p ∈ gateCellsN g then some g.n else acc) gs = some n := h
    rcases gfold_some p gs _ n h' with h1 | ⟨g', hg', hp, hn⟩
    · by_cases hc : p ∈ gateCellsN g
      · rw [if_pos hc] at h1
        exact Or.inr ⟨g, List.mem_cons_self, hc, Option.some.inj h1⟩
      · rw [if_neg hc] at h1
        exact Or.inl h1
    · exact Or.inr ⟨g', List.mem_cons_of_mem _ hg', hp, hn⟩

theorem gfold_const (p : Pt) (n : Int) : ∀ (gs : List Gate), (∀ g ∈ gs, p ∈ gateCellsN g → g.n = n) →
    gfold p (some n) gs = some n
  | [], _ => rfl
  | g :: gs, h => by
    show gfold p (if p ∈ gateCellsN g then some g.n else some n) gs = some n
    have : (if p ∈ gateCellsN g then some g.n else some n) = some n := by
      by_cases hc : p ∈ gateCellsN g
      · rw [if_pos hc, h g List.mem_cons_self hc]
      · rw [if_neg hc]
    rw [this]
    exact gfold_const p n gs (fun g' hg' => h g' (List.mem_cons_of_mem _ hg'))

theorem gfold_of_mem (p : Pt) (n : Int) : ∀ (gs : List Gate) (acc : Option Int),
    (∃ g ∈ gs, p ∈ gateCellsN g) → (∀ g ∈ gs, p ∈ gateCellsN g → g.n = n) → gfold p acc gs = some n
  | [], _, ⟨g, hg, _⟩, _ => by cases hg
  | g :: gs, acc, hex, h => by
    show gfold p (if p ∈ gateCellsN g then some g.n else acc) gs = some n
    by_cases hc : p ∈ gateCellsN g
    · rw [if_pos hc, h g List.mem_cons_self hc]
      exact gfold_const p n gs (fun g' hg' => h g' (List.mem_cons_of_mem _ hg'))
    · rw [if_neg hc]
      apply gfold_of_mem p n gs acc _ (fun g' hg' => h g' (List.mem_cons_of_mem _ hg'))
      obtain ⟨g', hg', hp⟩ := hex
      rcases List.mem_cons.mp hg' with rfl | h1
      · exact absurd hp hc
      · exact ⟨g', h1, hp⟩

section
variable (pb : Problem)

theorem onGate_eq (p : Pt) : onGate pb p = isGateCell pb p := by
  unfold onGate isGateCell
  rw [gidF_eq, gfold_isSome]
  simp

theorem mem_of_gidF {p : Pt} {n : Int} (h : gidF pb.gates p = some n) : ∃ g ∈ pb.gates, p ∈ gateCellsN g ∧ g.n = n := by
  rcases gfold_some p _ _ _ h with h1 | h1
  · cases h1
  · exact h1

/-- In a problem whose gates are pairwise disjoint, a cell lies on at most one gate. -/
theorem gate_unique (hnd : (pb.gates.flatMap gateCellsN).Nodup) {g g' : Gate} (hg : g ∈ pb.gates) (hg' : g' ∈ pb.gates)
    {p : Pt} (hp : p ∈ gateCellsN g) (hp' : p ∈ gateCellsN g') : g = g' := by
  by_contra hne
  have hpw := (List.nodup_flatMap.mp hnd).2
  have : Std.Symm (fun a b : Gate => List.Disjoint (gateCellsN a) (gateCellsN b)) := ⟨fun _ _ h => h.symm⟩
  have hd : List.Disjoint (gateCellsN g) (gateCellsN g') := List.Pairwise.forall hpw hg hg' hne
  exact hd hp hp'

theorem gidF_of_mem (hnd : (pb.gates.flatMap gateCellsN).Nodup) {g : Gate} (hg : g ∈ pb.gates) {p : Pt}
    (hp : p ∈ gateCellsN g) : gidF pb.gates p = some g.n := by
  rw [gidF_eq]
  apply gfold_of_mem p g.n pb.gates none ⟨g, hg, hp⟩
  intro g' hg' hp'
  rw [gate_unique pb hnd hg' hg hp' hp]

theorem isGateCell_of_mem {g : Gate} (hg : g ∈ pb.gates) {p : Pt} (hp : p ∈ gateCellsN g) : isGateCell pb p = true := by
  unfold isGateCell
  rw [List.any_eq_true]
  exact ⟨g, hg, by simpa using hp⟩

theorem mem_of_isGateCell {p : Pt} (h : isGateCell pb p = true) : ∃ g ∈ pb.gates, p ∈ gateCellsN g := by
  unfold isGateCell at h
  rw [List.any_eq_true] at h
  obtain ⟨g, hg, hp⟩ := h
  exact ⟨g, hg, by simpa using hp⟩

end

end Cspuz.Proofs.C11SlalomD
