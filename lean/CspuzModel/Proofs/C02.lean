/-
  C02 assembly: the two lemmas used by Properties/C02.lean.
-/
import CspuzModel.Proofs.C02Loop
namespace Cspuz.Proofs.C02
open Cspuz Cspuz.Spec

theorem exact :
    ∀ (B : Backend), B.Correct → ∀ (st : SolverState), (∀ c ∈ st.cs, wtB c = true) →
    st.isKey.length = st.decls.length →
    ((solveRefine B st).2 = .verdict true ∨ (solveRefine B st).2 = .verdict false) ∧
    ((solveRefine B st).2 = .verdict true ↔ Satisfiable st.decls st.cs) ∧
    ((solveRefine B st).2 = .verdict true →
      ∀ i, i < st.decls.length → st.isKey.getD i false = true →
        (∀ v, (solveRefine B st).1.sol.getD i none = some v ↔ CommonValue st.decls st.cs i v) ∧
        ((solveRefine B st).1.sol.getD i none = none ↔ Undetermined st.decls st.cs i)) :=
  Cspuz.Proofs.C02Loop.exact

theorem terminates :
    ∀ (B : Backend), B.Correct → ∀ (decls : List VarDecl) (cs : List Expr) (answer : List (Option Val)),
    (∀ c ∈ cs, wtB c = true) → answer.length = decls.length →
    (∀ i a, answer.getD i none = some a → ∃ σ, Sat decls cs σ ∧ valOf decls σ i = some a) →
    ∀ fuel extra, (answer.filter Option.isSome).length < fuel →
      (∀ x ∈ extra, wtB x = true) →
      ∃ final, refineLoop B decls cs fuel extra answer = .ok final ∧
        ∀ fuel', fuel ≤ fuel' → refineLoop B decls cs fuel' extra answer = .ok final :=
  Cspuz.Proofs.C02Loop.terminates

end Cspuz.Proofs.C02
