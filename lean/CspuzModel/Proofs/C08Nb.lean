/-
  C08: the list of in-range diagonal neighbours of a cell, in the order of the Python loop.
-/
import CspuzModel.Model.Graph
import Mathlib.Data.List.Nodup
namespace Cspuz.Proofs.C08Nb
open Cspuz

/-- `nb` of `notSegmentingGridDiag` for the cell `(y, x)`. -/
def nbOf (h w y x : Nat) : List (Nat × Nat) :=
  diagOffsets.filterMap fun d =>
    let y2 : Int := (y : Int) + d.1
    let x2 : Int := (x : Int) + d.2
    if 0 ≤ y2 ∧ y2 < h ∧ 0 ≤ x2 ∧ x2 < w then some (y2.toNat, x2.toNat) else none

theorem mem_nbOf {h w y x : Nat} {p : Nat × Nat} :
    p ∈ nbOf h w y x ↔
      (p.1 < h ∧ p.2 < w ∧ (y + 1 = p.1 ∨ p.1 + 1 = y) ∧ (x + 1 = p.2 ∨ p.2 + 1 = x)) := by
  obtain ⟨py, px⟩ := p
  simp only [nbOf, List.mem_filterMap, Option.ite_none_right_eq_some, Option.some.injEq,
    Prod.mk.injEq]
  constructor
  · rintro ⟨d, hd, hc, h1, h2⟩
    simp only [diagOffsets, List.mem_cons, List.not_mem_nil, or_false] at hd
    rcases hd with rfl | rfl | rfl | rfl <;> (simp only at hc h1 h2; omega)
  · rintro ⟨h1, h2, h3, h4⟩
    rcases h3 with h3 | h3 <;> rcases h4 with h4 | h4
    · refine ⟨(1, 1), by simp [diagOffsets], ?_⟩; simp only; omega
    · refine ⟨(1, -1), by simp [diagOffsets], ?_⟩; simp only; omega
    · refine ⟨(-1, 1), by simp [diagOffsets], ?_⟩; simp only; omega
    · refine ⟨(-1, -1), by simp [diagOffsets], ?_⟩; simp only; omega

theorem nbOf_nodup (h w y x : Nat) : (nbOf h w y x).Nodup := by
  unfold nbOf
  apply List.Nodup.filterMap
  · intro d d' b hb hb'
    simp only [Option.mem_def, Option.ite_none_right_eq_some, Option.some.injEq] at hb hb'
    obtain ⟨hc, rfl⟩ := hb
    obtain ⟨hc', he⟩ := hb'
    simp only [Prod.mk.injEq] at he
    apply Prod.ext <;> omega
  · decide

theorem nbOf_length_lt {h w y x : Nat} (hy : y < h) (hx : x < w) :
    (nbOf h w y x).length < 4 ↔ (y = 0 ∨ y + 1 = h ∨ x = 0 ∨ x + 1 = w) := by
  unfold nbOf
  rw [List.length_filterMap_eq_countP]
  simp only [diagOffsets, List.countP_cons, List.countP_nil]
  split_ifs <;> simp_all <;> omega

end Cspuz.Proofs.C08Nb
