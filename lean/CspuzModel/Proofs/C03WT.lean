/-
  C03: the well-typed trees of C01 (`wtB` / `wtI`, i.e. everything the DSL builds) are printable by the
  Sugar-family backends as soon as they contain no ONE-operand `SUB` node (which cannot be built through the
  DSL: `IntExpr.__sub__` / `__rsub__` always pass two operands), and so are the two native graph constraints.
-/
import CspuzModel.Proofs.C03Text
namespace Cspuz.Proofs.C03WT
open Cspuz Cspuz.Sugar Cspuz.SugarSyntax Cspuz.Proofs.C03Text

mutual
/-- No `SUB` node with exactly one operand (Sugar reads `(- x)` as negation, cspuz as `x`). -/
def unarySubFree : Expr → Bool
  | .node op args =>
    (match op with
     | .sub => args.length != 1
     | _ => true) && unarySubFrees args
  | _ => true
def unarySubFrees : List Expr → Bool
  | [] => true
  | e :: r => unarySubFree e && unarySubFrees r
end

mutual
theorem printable_of_wtB : ∀ e : Expr, wtB e = true → unarySubFree e = true → printable e = true
  | .bvar _, _, _ => by rw [printable]; intro _ _ h; cases h
  | .litB _, _, _ => by rw [printable]; intro _ _ h; cases h
  | .ivar _, h, _ => by simp [wtB] at h
  | .litI _, h, _ => by simp [wtB] at h
  | .litNone, h, _ => by simp [wtB] at h
  | .node op args, h, hu => by
    simp only [unarySubFree, Bool.and_eq_true] at hu
    cases op <;> simp only [wtB, Bool.and_eq_true, beq_iff_eq, Bool.false_eq_true] at h
    case boolConst =>
      split at h
      · simp [printable]
      · cases h
    case eq | ne | le | lt | ge | gt => all_goals (simp only [printable]; exact printables_of_wtIs args h.2 hu.2)
    case not | iff | xor | imp => all_goals (simp only [printable]; exact printables_of_wtBs args h.2 hu.2)
    case and | or => all_goals (simp only [printable]; exact printables_of_wtBs args h hu.2)
    case alldiff => simp only [printable]; exact printables_of_wtIs args h hu.2
theorem printable_of_wtI : ∀ e : Expr, wtI e = true → unarySubFree e = true → printable e = true
  | .ivar _, _, _ => by rw [printable]; intro _ _ h; cases h
  | .litI _, _, _ => by rw [printable]; intro _ _ h; cases h
  | .bvar _, h, _ => by simp [wtI] at h
  | .litB _, h, _ => by simp [wtI] at h
  | .litNone, h, _ => by rw [wtI] at h; cases h; all_goals (intros; contradiction)
  | .node op args, h, hu => by
    simp only [unarySubFree, Bool.and_eq_true] at hu
    cases op <;> (try simp only [wtI, Bool.and_eq_true, beq_iff_eq, bne_iff_ne, Bool.false_eq_true] at h)
    case intConst =>
      split at h
      · simp [printable]
      · cases h
    case neg => simp only [printable, Bool.and_eq_true, beq_iff_eq]; exact ⟨h.1, printables_of_wtIs args h.2 hu.2⟩
    case add => simp only [printable]; exact printables_of_wtIs args h.2 hu.2
    case sub =>
      simp only [printable, Bool.and_eq_true]
      exact ⟨hu.1, printables_of_wtIs args h.2 hu.2⟩
    case ite =>
      match args, h, hu with
      | [c, t, f], h, hu =>
        simp only [wtI, Bool.and_eq_true] at h
        simp only [unarySubFrees, Bool.and_eq_true, Bool.and_true] at hu
        simp only [printable, printables, Bool.and_eq_true, Bool.and_true]
        exact ⟨printable_of_wtB c h.1.1 hu.2.1, printable_of_wtI t h.1.2 hu.2.2.1, printable_of_wtI f h.2 hu.2.2.2⟩
      | [], h, _ => simp [wtI] at h
      | [_], h, _ => simp [wtI] at h
      | [_, _], h, _ => simp [wtI] at h
      | _ :: _ :: _ :: _ :: _, h, _ => simp [wtI] at h
theorem printables_of_wtBs : ∀ l : List Expr, wtBs l = true → unarySubFrees l = true → printables l = true
  | [], _, _ => rfl
  | e :: r, h, hu => by
    simp only [wtBs, unarySubFrees, Bool.and_eq_true] at h hu
    simp only [printables, Bool.and_eq_true]
    exact ⟨printable_of_wtB e h.1 hu.1, printables_of_wtBs r h.2 hu.2⟩
theorem printables_of_wtIs : ∀ l : List Expr, wtIs l = true → unarySubFrees l = true → printables l = true
  | [], _, _ => rfl
  | e :: r, h, hu => by
    simp only [wtIs, unarySubFrees, Bool.and_eq_true] at h hu
    simp only [printables, Bool.and_eq_true]
    exact ⟨printable_of_wtI e h.1 hu.1, printables_of_wtIs r h.2 hu.2⟩
end

/-- An operand of a native graph constraint: a well-typed Boolean or integer tree, or `None`. -/
def nativeArg (e : Expr) : Bool :=
  match e with
  | .litNone => true
  | e => (wtB e || wtI e) && unarySubFree e

/-- `BoolExpr(Op.GRAPH_ACTIVE_VERTICES_CONNECTED, …)` / `BoolExpr(Op.GRAPH_DIVISION, …)` as built by
cspuz/graph.py with `use_graph_primitive=True`. -/
def nativeNode (e : Expr) : Bool :=
  match e with
  | .node .graphAVC args => args.all nativeArg
  | .node .graphDiv args => args.all nativeArg
  | _ => false

theorem printable_of_nativeArg {e : Expr} (h : nativeArg e = true) : printable e = true := by
  unfold nativeArg at h
  split at h
  · rw [printable]; intro _ _ h; cases h
  · simp only [Bool.and_eq_true, Bool.or_eq_true] at h
    rcases h.1 with hb | hi
    · exact printable_of_wtB _ hb h.2
    · exact printable_of_wtI _ hi h.2

theorem printables_of_all : ∀ {l : List Expr}, l.all nativeArg = true → printables l = true
  | [], _ => rfl
  | e :: r, h => by
    simp only [List.all_cons, Bool.and_eq_true] at h
    simp only [printables, Bool.and_eq_true]
    exact ⟨printable_of_nativeArg h.1, printables_of_all h.2⟩

theorem printable_of_nativeNode {e : Expr} (h : nativeNode e = true) : printable e = true := by
  unfold nativeNode at h
  split at h
  · simp only [printable]; exact printables_of_all h
  · simp only [printable]; exact printables_of_all h
  · cases h

/-- The constraints of the property's quantifier: "as in C01, plus the two native graph operators". -/
def sugarWT (c : Expr) : Bool := (wtB c && unarySubFree c) || nativeNode c

theorem printable_of_sugarWT {c : Expr} (h : sugarWT c = true) : printable c = true := by
  simp only [sugarWT, Bool.or_eq_true, Bool.and_eq_true] at h
  rcases h with h | h
  · exact printable_of_wtB c h.1 h.2
  · exact printable_of_nativeNode h

end Cspuz.Proofs.C03WT
