/-
  C11 / Yin-Yang, part B — typing / locality and the meaning of the local constraints of the closed form.
-/
import CspuzModel.Proofs.C11YinyangA
namespace Cspuz.Proofs.C11YinyangB
open Cspuz Cspuz.Spec Cspuz.Puzzles Cspuz.Puzzles.Yinyang Cspuz.Spec.Yinyang Cspuz.Proofs
open Cspuz.Proofs.C11YinyangDefs Cspuz.Proofs.C11YinyangA

/-! ### typing and locality -/

/-- Well-typed Boolean tree over the cell variables only. -/
def Good (b : Nat) (e : Expr) : Prop := wtB e = true ∧ e.varsBelow b = true

theorem good_cv {h w y x : Nat} (hy : y < h) (hx : x < w) : Good (h * w) (cv w y x) := by
  refine ⟨rfl, ?_⟩
  simp only [cv, Expr.varsBelow, decide_eq_true_eq]
  exact C11Grid.cell_lt hy hx

theorem good_not {b : Nat} {e : Expr} (he : Good b e) : Good b (.node .not [e]) := by
  refine ⟨?_, (C11FragWT.varsBelow_node _ _ _).2 (by simpa using he.2)⟩
  simp [wtB, wtBs, he.1]

theorem good_nv {h w y x : Nat} (hy : y < h) (hx : x < w) : Good (h * w) (nv w y x) :=
  good_not (good_cv hy hx)

theorem good_pair {b : Nat} (op : Op) (hop : op = .and ∨ op = .or) {e1 e2 : Expr} (h1 : Good b e1) (h2 : Good b e2) :
    Good b (.node op [e1, e2]) := by
  refine ⟨?_, (C11FragWT.varsBelow_node _ _ _).2 ?_⟩
  · rcases hop with rfl | rfl <;> simp [wtB, wtBs, h1.1, h2.1]
  · intro e he
    simp only [List.mem_cons, List.not_mem_nil, or_false] at he
    rcases he with rfl | rfl
    · exact h1.2
    · exact h2.2

theorem good_op4 {b : Nat} (op : Op) (hop : op = .and ∨ op = .or) {a c d e : Expr}
    (ha : Good b a) (hc : Good b c) (hd : Good b d) (he : Good b e) : Good b (op4 op a c d e) :=
  good_pair op hop (good_pair op hop (good_pair op hop ha hc) hd) he

theorem mem_blocks {h w : Nat} {c : Expr} :
    c ∈ blocks h w ↔ ∃ y x, y + 1 < h ∧ x + 1 < w ∧
      (c = blk1 w y x ∨ c = blk2 w y x ∨ c = blk3 w y x ∨ c = blk4 w y x) := by
  simp only [blocks, List.mem_append, List.mem_map, List.mem_range]
  have key : ∀ (B : Nat → Nat → Nat → Expr),
      (∃ i, i < (h - 1) * (w - 1) ∧ B w (i / (w - 1)) (i % (w - 1)) = c) ↔
        ∃ y x, y + 1 < h ∧ x + 1 < w ∧ c = B w y x := by
    intro B
    constructor
    · rintro ⟨i, hi, rfl⟩
      obtain ⟨h1, h2⟩ := C11Grid.div_lt_of_lt_mul hi
      exact ⟨_, _, Nat.add_lt_of_lt_sub h1, Nat.add_lt_of_lt_sub h2, rfl⟩
    · rintro ⟨y, x, hy, hx, rfl⟩
      refine ⟨y * (w - 1) + x, C11Grid.cell_lt (by omega) (by omega), ?_⟩
      have := C11Grid.cell_div_mod (w := w - 1) (y := y) (x := x) (by omega)
      rw [this.1, this.2]
  rw [key blk1, key blk2, key blk3, key blk4]
  constructor
  · rintro (((⟨y, x, hy, hx, hc⟩ | ⟨y, x, hy, hx, hc⟩) | ⟨y, x, hy, hx, hc⟩) | ⟨y, x, hy, hx, hc⟩)
    · exact ⟨y, x, hy, hx, Or.inl hc⟩
    · exact ⟨y, x, hy, hx, Or.inr (Or.inl hc)⟩
    · exact ⟨y, x, hy, hx, Or.inr (Or.inr (Or.inl hc))⟩
    · exact ⟨y, x, hy, hx, Or.inr (Or.inr (Or.inr hc))⟩
  · rintro ⟨y, x, hy, hx, hc | hc | hc | hc⟩
    · exact Or.inl (Or.inl (Or.inl ⟨y, x, hy, hx, hc⟩))
    · exact Or.inl (Or.inl (Or.inr ⟨y, x, hy, hx, hc⟩))
    · exact Or.inl (Or.inr ⟨y, x, hy, hx, hc⟩)
    · exact Or.inr ⟨y, x, hy, hx, hc⟩

theorem good_blocks {h w : Nat} : ∀ c ∈ blocks h w, Good (h * w) c := by
  intro c hc
  obtain ⟨y, x, hy, hx, rfl | rfl | rfl | rfl⟩ := mem_blocks.1 hc
  · exact good_op4 .or (Or.inr rfl) (good_cv (by omega) (by omega)) (good_cv (by omega) hx)
      (good_cv hy (by omega)) (good_cv hy hx)
  · exact good_not (good_op4 .and (Or.inl rfl) (good_cv (by omega) (by omega)) (good_cv (by omega) hx)
      (good_cv hy (by omega)) (good_cv hy hx))
  · exact good_not (good_op4 .and (Or.inl rfl) (good_cv (by omega) (by omega)) (good_cv hy hx)
      (good_nv hy (by omega)) (good_nv (by omega) hx))
  · exact good_not (good_op4 .and (Or.inl rfl) (good_nv (by omega) (by omega)) (good_nv hy hx)
      (good_cv hy (by omega)) (good_cv (by omega) hx))

theorem ringCell_lt {h w i : Nat} (hh : 1 ≤ h) (hw : 1 ≤ w) (hi : i < ringLen h w) :
    (ringCell h w i).1 < h ∧ (ringCell h w i).2 < w := by
  have hi' : i < h + (w - 1) + (h - 1) + (w - 2) := ringLen_eq hh hw ▸ hi
  unfold ringCell
  split
  · exact ⟨by assumption, by omega⟩
  · split
    · simp only; omega
    · split
      · simp only; omega
      · simp only; omega

theorem ringVar_lt {h w i : Nat} (hh : 1 ≤ h) (hw : 1 ≤ w) (hi : i < ringLen h w) : ringVar h w i < h * w := by
  obtain ⟨h1, h2⟩ := ringCell_lt hh hw hi
  exact C11Grid.cell_lt h1 h2

theorem switchE_facts {h w : Nat} (hh : 1 ≤ h) (hw : 1 ≤ w) :
    ∀ e ∈ switchE (ringLen h w) (ringVar h w), wtB e = true ∧ e.varsBelow (h * w) = true := by
  intro e he
  simp only [switchE, List.mem_map, List.mem_range] at he
  obtain ⟨i, hi, rfl⟩ := he
  have hj : (i + 1) % ringLen h w < ringLen h w := Nat.mod_lt _ (by omega)
  refine ⟨rfl, (C11FragWT.varsBelow_node _ _ _).2 ?_⟩
  intro z hz
  simp only [List.mem_cons, List.not_mem_nil, or_false] at hz
  rcases hz with rfl | rfl
  · simp only [Expr.varsBelow, decide_eq_true_eq]; exact ringVar_lt hh hw hi
  · simp only [Expr.varsBelow, decide_eq_true_eq]; exact ringVar_lt hh hw hj

theorem good_ringC {h w : Nat} (hh : 1 ≤ h) (hw : 1 ≤ w) :
    Good (h * w) (ringC (ringLen h w) (ringVar h w)) :=
  ⟨C11FragWT.wtB_cmp_countTrueE .le rfl _ 2 (fun e he => (switchE_facts hh hw e he).1),
    C11FragWT.varsBelow_cmp_countTrueE _ .le _ 2 (fun e he => (switchE_facts hh hw e he).2)⟩

theorem good_cellE {pb : Problem} {y x : Nat} (hy : y < pb.height) (hx : x < pb.width) :
    ∀ c ∈ cellE pb y x, Good (pb.height * pb.width) c := by
  intro c hc
  unfold cellE at hc
  split at hc
  · simp only [List.mem_singleton] at hc; subst hc; exact good_nv hy hx
  · split at hc
    · simp only [List.mem_singleton] at hc; subst hc; exact good_cv hy hx
    · simp at hc

theorem mem_cells {pb : Problem} {c : Expr} :
    c ∈ cells pb ↔ ∃ y x, y < pb.height ∧ x < pb.width ∧ c ∈ cellE pb y x := by
  simp only [cells, List.mem_flatMap]
  constructor
  · rintro ⟨p, hp, hc⟩
    obtain ⟨h1, h2⟩ := mem_cellsOf.1 hp
    exact ⟨p.1, p.2, h1, h2, hc⟩
  · rintro ⟨y, x, hy, hx, hc⟩
    exact ⟨(y, x), mem_cellsOf.2 ⟨hy, hx⟩, hc⟩

theorem mem_locals {pb : Problem} {c : Expr} :
    c ∈ locals pb ↔ c ∈ blocks pb.height pb.width ∨
      c = ringC (ringLen pb.height pb.width) (ringVar pb.height pb.width) ∨ c ∈ cells pb := by
  simp only [locals, List.mem_append, List.mem_singleton, or_assoc]

theorem good_locals {pb : Problem} (hwf : WellFormed pb) :
    ∀ c ∈ locals pb, Good (pb.height * pb.width) c := by
  intro c hc
  rcases mem_locals.1 hc with hc | rfl | hc
  · exact good_blocks c hc
  · exact good_ringC hwf.1 hwf.2.1
  · obtain ⟨y, x, hy, hx, hc⟩ := mem_cells.1 hc
    exact good_cellE hy hx c hc

/-! ### meaning of the constraints on a grid -/

theorem eval_or2 {σ : Asg} {a b : Expr} {x y : Bool}
    (ha : eval σ a = some (.b x)) (hb : eval σ b = some (.b y)) :
    eval σ (.node .or [a, b]) = some (.b (x || y)) := by
  simp [ha, hb, evalOp, allBools]

theorem eval_or4 {σ : Asg} {a b c d : Expr} {x y z u : Bool}
    (ha : eval σ a = some (.b x)) (hb : eval σ b = some (.b y)) (hc : eval σ c = some (.b z))
    (hd : eval σ d = some (.b u)) : eval σ (op4 .or a b c d) = some (.b (((x || y) || z) || u)) :=
  eval_or2 (eval_or2 (eval_or2 ha hb) hc) hd

theorem eval_and4 {σ : Asg} {a b c d : Expr} {x y z u : Bool}
    (ha : eval σ a = some (.b x)) (hb : eval σ b = some (.b y)) (hc : eval σ c = some (.b z))
    (hd : eval σ d = some (.b u)) : eval σ (op4 .and a b c d) = some (.b (((x && y) && z) && u)) :=
  eval_and2 (eval_and2 (eval_and2 ha hb) hc) hd

theorem eval_xor_bvars (σ : Asg) (a b : Nat) :
    eval σ (.node .xor [.bvar a, .bvar b]) = some (.b (σ.b a != σ.b b)) := by
  simp [evalOp, allBools]

section sem
variable {pb : Problem} (σ : Asg) (g : Nat → Nat → Bool)
  (hg : ∀ y, y < pb.height → ∀ x, x < pb.width → g y x = σ.b (y * pb.width + x))
include hg

theorem eval_cv {y x : Nat} (hy : y < pb.height) (hx : x < pb.width) :
    eval σ (cv pb.width y x) = some (.b (g y x)) := by
  rw [cv, eval_bvar, hg y hy x hx]

theorem eval_nv {y x : Nat} (hy : y < pb.height) (hx : x < pb.width) :
    eval σ (nv pb.width y x) = some (.b (!g y x)) :=
  eval_not (eval_cv σ g hg hy hx)

/-- The four constraints of one 2 × 2 block: rule 3 and "no checkerboard" there. -/
theorem blocks_sem {y x : Nat} (hy : y + 1 < pb.height) (hx : x + 1 < pb.width) :
    (eval σ (blk1 pb.width y x) = some (.b true) ∧ eval σ (blk2 pb.width y x) = some (.b true) ∧
      eval σ (blk3 pb.width y x) = some (.b true) ∧ eval σ (blk4 pb.width y x) = some (.b true)) ↔
      ((¬ (g y x = true ∧ g (y + 1) x = true ∧ g y (x + 1) = true ∧ g (y + 1) (x + 1) = true) ∧
        ¬ (g y x = false ∧ g (y + 1) x = false ∧ g y (x + 1) = false ∧ g (y + 1) (x + 1) = false)) ∧
       (¬ (g y x = true ∧ g (y + 1) (x + 1) = true ∧ g (y + 1) x = false ∧ g y (x + 1) = false) ∧
        ¬ (g y x = false ∧ g (y + 1) (x + 1) = false ∧ g (y + 1) x = true ∧ g y (x + 1) = true))) := by
  have c00 := eval_cv σ g hg (y := y) (x := x) (by omega) (by omega)
  have c10 := eval_cv σ g hg (y := y + 1) (x := x) hy (by omega)
  have c01 := eval_cv σ g hg (y := y) (x := x + 1) (by omega) hx
  have c11 := eval_cv σ g hg (y := y + 1) (x := x + 1) hy hx
  have n00 := eval_nv σ g hg (y := y) (x := x) (by omega) (by omega)
  have n10 := eval_nv σ g hg (y := y + 1) (x := x) hy (by omega)
  have n01 := eval_nv σ g hg (y := y) (x := x + 1) (by omega) hx
  have n11 := eval_nv σ g hg (y := y + 1) (x := x + 1) hy hx
  have e1 := eval_or4 c00 c01 c10 c11
  have e2 := eval_not (eval_and4 c00 c01 c10 c11)
  have e3 := eval_not (eval_and4 c00 c11 n10 n01)
  have e4 := eval_not (eval_and4 n00 n11 c10 c01)
  rw [blk1, blk2, blk3, blk4, e1, e2, e3, e4]
  cases g y x <;> cases g (y + 1) x <;> cases g y (x + 1) <;> cases g (y + 1) (x + 1) <;> simp

/-- The stone constraints of one cell: rule 4 there. -/
theorem cell_sem {y x : Nat} (hy : y < pb.height) (hx : x < pb.width) :
    (∀ c ∈ cellE pb y x, eval σ c = some (.b true)) ↔
      ((val pb y x = 1 → g y x = false) ∧ (val pb y x = 2 → g y x = true)) := by
  have h1 := eval_cv σ g hg hy hx
  have h2 := eval_nv σ g hg hy hx
  unfold cellE
  by_cases hv1 : val pb y x = 1
  · rw [if_pos hv1]
    simp only [List.mem_singleton, forall_eq, h2, hv1]
    cases g y x <;> simp
  · rw [if_neg hv1]
    by_cases hv2 : val pb y x = 2
    · rw [if_pos hv2]
      simp only [List.mem_singleton, forall_eq, h1, hv2]
      cases g y x <;> simp
    · rw [if_neg hv2]
      simp [hv1, hv2]

end sem

/-- The ring constraint: at most two colour changes round the ring. -/
theorem ring_sem {pb : Problem} (hwf : WellFormed pb) (σ : Asg) (g : Nat → Nat → Bool)
    (hg : ∀ y, y < pb.height → ∀ x, x < pb.width → g y x = σ.b (y * pb.width + x)) :
    eval σ (ringC (ringLen pb.height pb.width) (ringVar pb.height pb.width)) = some (.b true) ↔
      RingOk pb.height pb.width g := by
  have hh := hwf.1
  have hw := hwf.2.1
  have hsw : ∀ i, i < ringLen pb.height pb.width → ringSwitch pb.height pb.width g i
      = (σ.b (ringVar pb.height pb.width i) !=
          σ.b (ringVar pb.height pb.width ((i + 1) % ringLen pb.height pb.width))) := by
    intro i hi
    have hj : (i + 1) % ringLen pb.height pb.width < ringLen pb.height pb.width := Nat.mod_lt _ (by omega)
    obtain ⟨a1, a2⟩ := ringCell_lt hh hw hi
    obtain ⟨b1, b2⟩ := ringCell_lt hh hw hj
    unfold ringSwitch ringVar
    rw [hg _ a1 _ a2, hg _ b1 _ b2]
  have hct : eval σ (countTrueE (switchE (ringLen pb.height pb.width) (ringVar pb.height pb.width)))
      = some (.i ((((List.range (ringLen pb.height pb.width)).filter
          (ringSwitch pb.height pb.width g)).length : Nat) : Int)) := by
    rw [eval_countTrueE ((List.range (ringLen pb.height pb.width)).map (ringSwitch pb.height pb.width g)) (by
      unfold switchE
      rw [List.map_map, List.map_map]
      apply List.map_congr_left
      intro i hi
      simp only [Function.comp]
      rw [eval_xor_bvars, hsw i (List.mem_range.1 hi)])]
    rw [List.count_eq_countP, List.countP_map, List.countP_eq_length_filter]
    have : ((fun x => x == true) ∘ ringSwitch pb.height pb.width g) = ringSwitch pb.height pb.width g := by
      funext i; simp
    rw [this]
  unfold ringC RingOk
  rw [eval_cmp rfl hct (eval_litI σ 2)]
  simp only [cmpOp_le, Option.some.injEq, Val.b.injEq, decide_eq_true_eq]
  omega

/-- The local constraints of the posted program, read on the grid: rules 3 and 4, no checkerboard block, at
most two colour changes round the ring. -/
theorem locals_sem {pb : Problem} (hwf : WellFormed pb) (σ : Asg) (g : Nat → Nat → Bool)
    (hg : ∀ y, y < pb.height → ∀ x, x < pb.width → g y x = σ.b (y * pb.width + x)) :
    (∀ c ∈ locals pb, eval σ c = some (.b true)) ↔
      ((∀ y x, y + 1 < pb.height → x + 1 < pb.width →
        ¬ (g y x = true ∧ g (y + 1) x = true ∧ g y (x + 1) = true ∧ g (y + 1) (x + 1) = true) ∧
        ¬ (g y x = false ∧ g (y + 1) x = false ∧ g y (x + 1) = false ∧ g (y + 1) (x + 1) = false)) ∧
      (∀ y, y < pb.height → ∀ x, x < pb.width →
        (val pb y x = 1 → g y x = false) ∧ (val pb y x = 2 → g y x = true)) ∧
      NoChecker pb.height pb.width g ∧ RingOk pb.height pb.width g) := by
  have hL : (∀ c ∈ locals pb, eval σ c = some (.b true)) ↔
      (∀ c ∈ blocks pb.height pb.width, eval σ c = some (.b true)) ∧
        eval σ (ringC (ringLen pb.height pb.width) (ringVar pb.height pb.width)) = some (.b true) ∧
        (∀ c ∈ cells pb, eval σ c = some (.b true)) := by
    simp only [mem_locals, or_imp, forall_and, forall_eq]
  rw [hL, ring_sem hwf σ g hg]
  have hB : (∀ c ∈ blocks pb.height pb.width, eval σ c = some (.b true)) ↔
      ((∀ y x, y + 1 < pb.height → x + 1 < pb.width →
        ¬ (g y x = true ∧ g (y + 1) x = true ∧ g y (x + 1) = true ∧ g (y + 1) (x + 1) = true) ∧
        ¬ (g y x = false ∧ g (y + 1) x = false ∧ g y (x + 1) = false ∧ g (y + 1) (x + 1) = false)) ∧
       NoChecker pb.height pb.width g) := by
    constructor
    · intro h
      have key : ∀ y x, y + 1 < pb.height → x + 1 < pb.width → _ := fun y x hy hx =>
        (blocks_sem σ g hg hy hx).1 ⟨h _ (mem_blocks.2 ⟨y, x, hy, hx, Or.inl rfl⟩),
          h _ (mem_blocks.2 ⟨y, x, hy, hx, Or.inr (Or.inl rfl)⟩),
          h _ (mem_blocks.2 ⟨y, x, hy, hx, Or.inr (Or.inr (Or.inl rfl))⟩),
          h _ (mem_blocks.2 ⟨y, x, hy, hx, Or.inr (Or.inr (Or.inr rfl))⟩)⟩
      exact ⟨fun y x hy hx => (key y x hy hx).1, fun y x hy hx => (key y x hy hx).2⟩
    · rintro ⟨h3, hN⟩ c hc
      obtain ⟨y, x, hy, hx, hc⟩ := mem_blocks.1 hc
      have key := (blocks_sem σ g hg hy hx).2 ⟨h3 y x hy hx, hN y x hy hx⟩
      rcases hc with rfl | rfl | rfl | rfl
      · exact key.1
      · exact key.2.1
      · exact key.2.2.1
      · exact key.2.2.2
  have hC : (∀ c ∈ cells pb, eval σ c = some (.b true)) ↔
      (∀ y, y < pb.height → ∀ x, x < pb.width →
        (val pb y x = 1 → g y x = false) ∧ (val pb y x = 2 → g y x = true)) := by
    constructor
    · intro h y hy x hx
      exact (cell_sem σ g hg hy hx).1 fun c hc => h c (mem_cells.2 ⟨y, x, hy, hx, hc⟩)
    · intro h c hc
      obtain ⟨y, x, hy, hx, hc⟩ := mem_cells.1 hc
      exact (cell_sem σ g hg hy hx).2 (h y hy x hx) c hc
  rw [hB, hC]
  constructor
  · rintro ⟨⟨h3, hN⟩, hR, h4⟩; exact ⟨h3, h4, hN, hR⟩
  · rintro ⟨h3, h4, hN, hR⟩; exact ⟨⟨h3, hN⟩, hR, h4⟩

end Cspuz.Proofs.C11YinyangB
