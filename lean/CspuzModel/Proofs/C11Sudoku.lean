/-
  C11 / sudoku — the program posted by `solve_sudoku` encodes the rules of Sudoku.
-/
import CspuzModel.Spec.PuzzleRules.Sudoku
import CspuzModel.Proofs.C11CL
import CspuzModel.Proofs.C11Grid
import Mathlib.Data.Finset.Card
import Mathlib.Order.Interval.Finset.Basic
import Mathlib.Data.Int.Interval
import Mathlib.Data.List.Nodup
namespace Cspuz.Proofs.C11Sudoku
open Cspuz Cspuz.Spec Cspuz.Puzzles Cspuz.Puzzles.Sudoku Cspuz.Proofs Cspuz.Proofs.C11CL

/-! ### Closed form of the posted program -/

def rowE (size i : Nat) : List Expr := (List.range size).map fun x => .ivar (i * size + x)
def colE (size i : Nat) : List Expr := (List.range size).map fun y => .ivar (y * size + i)
def boxE (n y x : Nat) : List Expr :=
  ((List.range n).map fun j => y * n + j).flatMap fun yy =>
    ((List.range n).map fun j => x * n + j).map fun xx => .ivar (yy * (n * n) + xx)

def linesC (size : Nat) : List (List Expr) :=
  (List.range size).map fun i => [.node .alldiff (rowE size i), .node .alldiff (colE size i)]
def boxesC (n : Nat) : List (List Expr) :=
  (cellsOf n n).map fun yx => [.node .alldiff (boxE n yx.1 yx.2)]
def cluesC (n : Nat) (cl : Nat → Nat → Int) : List (List Expr) :=
  (cellsOf (n * n) (n * n)).map fun yx =>
    if cl yx.1 yx.2 ≥ 1 then [.node .eq [.ivar (yx.1 * (n * n) + yx.2), .litI (cl yx.1 yx.2)]] else []

def closedCs (n : Nat) (cl : Nat → Nat → Int) : List Expr :=
  (linesC (n * n)).flatten ++ (boxesC n).flatten ++ (cluesC n cl).flatten

def closed (pb : Problem) : PuzzleProg :=
  { decls := List.replicate (pb.n * pb.n * (pb.n * pb.n)) (.int 1 ((pb.n * pb.n : Nat) : Int)),
    cs := closedCs pb.n (clue pb),
    keys := List.range (pb.n * pb.n * (pb.n * pb.n)) }

theorem mem_cellsOf {h w : Nat} {p : Nat × Nat} : p ∈ cellsOf h w ↔ p.1 < h ∧ p.2 < w := by
  simp only [cellsOf, List.mem_flatMap, List.mem_range, List.mem_map]
  constructor
  · rintro ⟨y, hy, x, hx, rfl⟩; exact ⟨hy, hx⟩
  · rintro ⟨hy, hx⟩; exact ⟨p.1, hy, p.2, hx, rfl⟩

theorem tableGet_clue (pb : Problem) (hwf : WellFormed pb) (y x : Nat) (hy : y < pb.n * pb.n) (hx : x < pb.n * pb.n) :
    tableGet pb.cells (y : Int) (x : Int) = .ok (clue pb y x) := by
  obtain ⟨_, hl, hr⟩ := hwf
  have hy' : y < pb.cells.length := by omega
  have hrow : (pb.cells[y]).length = pb.n * pb.n := hr _ (List.getElem_mem hy')
  simp only [tableGet, clue]
  rw [Cspuz.Proofs.C13.pyIndex_natCast _ _ hy', List.getElem?_eq_getElem hy']
  simp only [ok_bind, Option.getD_some]
  rw [Cspuz.Proofs.C13.pyIndex_natCast _ _ (by omega), List.getElem?_eq_getElem (by omega)]
  simp

theorem ivar_isIntExpr (l : List Expr) (hl : ∀ e ∈ l, ∃ i, e = .ivar i) : ∀ x ∈ l, x.isIntExpr = true := by
  intro x hx; obtain ⟨i, rfl⟩ := hl x hx; rfl

theorem ivar_map_isIntExpr {ι : Type} (L : List ι) (f : ι → Nat) :
    ∀ x ∈ L.map (fun p => Expr.ivar (f p)), x.isIntExpr = true := by
  intro x hx
  simp only [List.mem_map] at hx
  obtain ⟨_, _, rfl⟩ := hx; rfl

theorem program_closed (pb : Problem) (hwf : WellFormed pb) : program pb = .ok (closed pb) := by
  have hn : 1 ≤ pb.n := hwf.1
  have hsz : 1 ≤ pb.n * pb.n := Nat.mul_pos hn hn
  unfold program
  have h1 : intArrayDecls (pb.n * pb.n * (pb.n * pb.n)) 1 ((pb.n * pb.n : Nat) : Int)
      = .ok (List.replicate (pb.n * pb.n * (pb.n * pb.n)) (.int 1 ((pb.n * pb.n : Nat) : Int))) := by
    unfold intArrayDecls
    rw [if_neg (by omega)]
  simp only [h1, ok_bind, ivars, Nat.zero_add]
  rw [addKeysV_fresh false _ _ _ Expr.ivar (fun _ => rfl)]
  simp only [ok_bind]
  -- rows and columns
  rw [mapM_eq_ok_map (g := fun i => [.node .alldiff (rowE (pb.n * pb.n) i), .node .alldiff (colE (pb.n * pb.n) i)])]
  swap
  · intro i hi
    have hi' := List.mem_range.mp hi
    rw [getitemV_row false Expr.ivar _ _ i fullSlice _ hi' (axisSel_full _) (fun x hx => List.mem_range.mp hx)]
    simp only [ok_bind]
    rw [alldifferentA_arr1 _ _ (ivar_map_isIntExpr _ _)]
    simp only [ok_bind]
    rw [ensureV_scalar _ rfl]
    simp only [ok_bind]
    rw [getitemV_col false Expr.ivar _ _ fullSlice i _ hi' (axisSel_full _) (fun x hx => List.mem_range.mp hx)]
    simp only [ok_bind]
    rw [alldifferentA_arr1 _ _ (ivar_map_isIntExpr _ _)]
    simp only [ok_bind]
    rw [ensureV_scalar _ rfl]
    rfl
  simp only [ok_bind]
  -- boxes
  rw [mapM_eq_ok_map (g := fun yx => [.node .alldiff (boxE pb.n yx.1 yx.2)])]
  swap
  · intro yx hyx
    obtain ⟨hy, hx⟩ := mem_cellsOf.mp hyx
    have b1 : (yx.1 + 1) * pb.n ≤ pb.n * pb.n := Nat.mul_le_mul_right _ hy
    have b2 : (yx.2 + 1) * pb.n ≤ pb.n * pb.n := Nat.mul_le_mul_right _ hx
    have d1 : (yx.1 + 1) * pb.n - yx.1 * pb.n = pb.n := by rw [Nat.succ_mul]; omega
    have d2 : (yx.2 + 1) * pb.n - yx.2 * pb.n = pb.n := by rw [Nat.succ_mul]; omega
    rw [getitemV_slices false Expr.ivar _ _ _ _ _ _
      (axisSel_range' _ _ _ (yx.1 * pb.n) ((yx.1 + 1) * pb.n) (by push_cast; rfl) (by push_cast; rfl)
        (by rw [Nat.succ_mul]; omega) b1)
      (axisSel_range' _ _ _ (yx.2 * pb.n) ((yx.2 + 1) * pb.n) (by push_cast; rfl) (by push_cast; rfl)
        (by rw [Nat.succ_mul]; omega) b2)
      (by intro y hy'; simp only [List.mem_map, List.mem_range] at hy'; obtain ⟨j, hj, rfl⟩ := hy'; omega)
      (by intro y hy'; simp only [List.mem_map, List.mem_range] at hy'; obtain ⟨j, hj, rfl⟩ := hy'; omega)]
    simp only [ok_bind, d1, d2]
    rw [alldifferentA_arr2 _ _ _ _ (ivar_isIntExpr _ (by
      intro e he
      simp only [List.mem_flatMap, List.mem_map] at he
      obtain ⟨_, _, _, _, rfl⟩ := he
      exact ⟨_, rfl⟩))]
    simp only [ok_bind]
    rw [ensureV_scalar _ rfl]
    rfl
  simp only [ok_bind]
  -- givens
  rw [mapM_eq_ok_map (g := fun yx =>
    if clue pb yx.1 yx.2 ≥ 1 then [.node .eq [.ivar (yx.1 * (pb.n * pb.n) + yx.2), .litI (clue pb yx.1 yx.2)]] else [])]
  swap
  · intro yx hyx
    obtain ⟨hy, hx⟩ := mem_cellsOf.mp hyx
    rw [tableGet_clue pb hwf _ _ hy hx]
    simp only [ok_bind]
    split
    · rw [getitemV_cell false Expr.ivar _ _ _ _ hy hx]
      simp only [ok_bind]
      rw [binop_eq_ivar_lit, ok_bind, ensureV_scalar _ rfl]
    · rfl
  rfl

/-! ### Meaning of the constraints -/

theorem eval_alldiff_ivars {ι : Type} (σ : Asg) (L : List ι) (f : ι → Nat) :
    eval σ (.node .alldiff (L.map fun p => Expr.ivar (f p)))
      = some (.b (decide ((L.map fun p => σ.i (f p)).Nodup))) := by
  rw [Cspuz.Proofs.C12Agg.eval_alldiff_node (ns := L.map fun p => σ.i (f p))]
  · rw [Cspuz.Proofs.C12Agg.allDistinct_eq_decide]
  · simp [Cspuz.Proofs.C12Agg.EvalI, List.map_map, Function.comp_def]

/-- Pigeonhole: `m` cells holding digits `1 … m` are pairwise different iff every digit occurs exactly once. -/
theorem exactlyOnce_iff_nodup {ι : Type} (L : List ι) (hL : L.Nodup) (m : Nat) (hm : L.length = m)
    (cell : ι → Int) (hr : ∀ p ∈ L, 1 ≤ cell p ∧ cell p ≤ m) :
    (∀ d : Int, 1 ≤ d → d ≤ m → ExactlyOnce (fun p => p ∈ L) cell d) ↔ (L.map cell).Nodup := by
  classical
  constructor
  · intro h
    apply List.Nodup.map_on _ hL
    intro p hp q hq hpq
    exact (h (cell p) (hr p hp).1 (hr p hp).2).2 p q hp hq rfl hpq.symm
  · intro hnd d hd1 hd2
    refine ⟨?_, ?_⟩
    · have hsub : (L.map cell).toFinset ⊆ Finset.Icc (1 : Int) m := by
        intro v hv
        simp only [List.mem_toFinset, List.mem_map] at hv
        obtain ⟨p, hp, rfl⟩ := hv
        exact Finset.mem_Icc.mpr (hr p hp)
      have hcard : (Finset.Icc (1 : Int) m).card ≤ ((L.map cell).toFinset).card := by
        rw [List.toFinset_card_of_nodup hnd, List.length_map, hm, Int.card_Icc]
        omega
      have heq := Finset.eq_of_subset_of_card_le hsub hcard
      have : d ∈ (L.map cell).toFinset := by rw [heq]; exact Finset.mem_Icc.mpr ⟨hd1, hd2⟩
      simp only [List.mem_toFinset, List.mem_map] at this
      obtain ⟨p, hp, rfl⟩ := this
      exact ⟨p, hp, rfl⟩
    · intro p q hp hq h1 h2
      exact List.inj_on_of_nodup_map hnd hp hq (h1.trans h2.symm)

theorem exactlyOnce_congr {ι : Type} {ps qs : ι → Prop} (h : ∀ p, ps p ↔ qs p) (cell : ι → Int) (d : Int) :
    ExactlyOnce ps cell d ↔ ExactlyOnce qs cell d := by
  have : ps = qs := funext fun p => propext (h p)
  rw [this]

theorem cellsOf_nodup (h w : Nat) : (cellsOf h w).Nodup := by
  unfold cellsOf
  rw [List.nodup_flatMap]
  refine ⟨?_, ?_⟩
  · intro y _
    exact List.Nodup.map (fun a b hab => by injection hab) List.nodup_range
  · refine List.Pairwise.imp_of_mem ?_ (List.nodup_range (n := h))
    intro a b _ _ hab
    simp only [Function.onFun, List.disjoint_left, List.mem_map, List.mem_range]
    rintro p ⟨x, _, rfl⟩ ⟨x', _, hx'⟩
    exact hab (by injection hx' with h1 _; exact h1.symm)

theorem cellsOf_length (h w : Nat) : (cellsOf h w).length = h * w := by
  unfold cellsOf
  induction h with
  | zero => simp
  | succ h ih => rw [List.range_succ, List.flatMap_append, List.length_append, ih]; simp [Nat.succ_mul]

theorem boxE_eq (n y x : Nat) :
    boxE n y x = (cellsOf n n).map fun p => Expr.ivar ((y * n + p.1) * (n * n) + (x * n + p.2)) := by
  simp [boxE, cellsOf, List.flatMap_map, List.map_flatMap, List.map_map, Function.comp_def]

theorem mem_flatten_map {α β : Type} (L : List α) (f : α → List β) (c : β) :
    c ∈ (L.map f).flatten ↔ ∃ a ∈ L, c ∈ f a := by
  simp [List.mem_flatten]

/-- The constraints of the posted program, read on the grid, are the rules (`n` = box size, `cl` = givens). -/
theorem cs_iff (n : Nat) (cl : Nat → Nat → Int) (σ : Asg) (g : Nat → Nat → Int)
    (hg : ∀ y, y < n * n → ∀ x, x < n * n → g y x = σ.i (y * (n * n) + x)) :
    ((∀ y, y < n * n → ∀ x, x < n * n → (1 : Int) ≤ g y x ∧ g y x ≤ ((n * n : Nat) : Int)) ∧
      ∀ c ∈ closedCs n cl, eval σ c = some (.b true)) ↔
    ((∀ y x, y < n * n → x < n * n → 1 ≤ g y x ∧ g y x ≤ ((n * n : Nat) : Int)) ∧
     (∀ y, y < n * n → ∀ d : Int, 1 ≤ d → d ≤ ((n * n : Nat) : Int) →
        ExactlyOnce (fun x : Nat => x < n * n) (fun x => g y x) d) ∧
     (∀ x, x < n * n → ∀ d : Int, 1 ≤ d → d ≤ ((n * n : Nat) : Int) →
        ExactlyOnce (fun y : Nat => y < n * n) (fun y => g y x) d) ∧
     (∀ by_ bx, by_ < n → bx < n → ∀ d : Int, 1 ≤ d → d ≤ ((n * n : Nat) : Int) →
        ExactlyOnce (fun p : Nat × Nat => p.1 < n ∧ p.2 < n) (fun p => g (by_ * n + p.1) (bx * n + p.2)) d) ∧
     (∀ y x, y < n * n → x < n * n → 1 ≤ cl y x → g y x = cl y x)) := by
  generalize hsize : n * n = size at hg ⊢
  have hbox : ∀ by_ bx p, by_ < n → bx < n → p ∈ cellsOf n n → by_ * n + p.1 < size ∧ bx * n + p.2 < size := by
    intro by_ bx p hby hbx hp
    obtain ⟨h1, h2⟩ := mem_cellsOf.mp hp
    have e1 : (by_ + 1) * n ≤ n * n := Nat.mul_le_mul_right _ hby
    have e2 : (bx + 1) * n ≤ n * n := Nat.mul_le_mul_right _ hbx
    rw [Nat.succ_mul] at e1 e2
    constructor <;> omega
  simp only [closedCs, hsize]
  simp only [List.mem_append, linesC, boxesC, cluesC, mem_flatten_map, hsize]
  constructor
  · rintro ⟨hrange, hcs⟩
    have hrange' : ∀ y x, y < size → x < size → (1 : Int) ≤ g y x ∧ g y x ≤ (size : Int) :=
      fun y x hy hx => hrange y hy x hx
    refine ⟨hrange', ?_, ?_, ?_, ?_⟩
    · -- rows
      intro y hy
      have hc := hcs (.node .alldiff (rowE size y)) (Or.inl (Or.inl ⟨y, List.mem_range.mpr hy, by simp⟩))
      rw [rowE, eval_alldiff_ivars] at hc
      simp only [Option.some.injEq, Val.b.injEq, decide_eq_true_eq] at hc
      have hc' : ((List.range size).map fun x => g y x).Nodup := by
        rw [List.map_congr_left (g := fun x => σ.i (y * size + x))]
        · exact hc
        · intro x hx; exact hg y hy x (List.mem_range.mp hx)
      have := (exactlyOnce_iff_nodup (List.range size) List.nodup_range size (by simp) (fun x => g y x)
        (fun x hx => hrange' y x hy (List.mem_range.mp hx))).mpr hc'
      intro d hd1 hd2
      exact (exactlyOnce_congr (fun x => List.mem_range) _ d).mp (this d hd1 hd2)
    · -- columns
      intro x hx
      have hc := hcs (.node .alldiff (colE size x)) (Or.inl (Or.inl ⟨x, List.mem_range.mpr hx, by simp⟩))
      rw [colE, eval_alldiff_ivars] at hc
      simp only [Option.some.injEq, Val.b.injEq, decide_eq_true_eq] at hc
      have hc' : ((List.range size).map fun y => g y x).Nodup := by
        rw [List.map_congr_left (g := fun y => σ.i (y * size + x))]
        · exact hc
        · intro y hy; exact hg y (List.mem_range.mp hy) x hx
      have := (exactlyOnce_iff_nodup (List.range size) List.nodup_range size (by simp) (fun y => g y x)
        (fun y hy => hrange' y x (List.mem_range.mp hy) hx)).mpr hc'
      intro d hd1 hd2
      exact (exactlyOnce_congr (fun x => List.mem_range) _ d).mp (this d hd1 hd2)
    · -- boxes
      intro by_ bx hby hbx
      have hc := hcs (.node .alldiff (boxE n by_ bx))
        (Or.inl (Or.inr ⟨(by_, bx), mem_cellsOf.mpr ⟨hby, hbx⟩, by simp⟩))
      rw [boxE_eq, hsize, eval_alldiff_ivars] at hc
      simp only [Option.some.injEq, Val.b.injEq, decide_eq_true_eq] at hc
      have hc' : ((cellsOf n n).map fun p => g (by_ * n + p.1) (bx * n + p.2)).Nodup := by
        rw [List.map_congr_left (g := fun p => σ.i ((by_ * n + p.1) * size + (bx * n + p.2)))]
        · exact hc
        · intro p hp
          obtain ⟨h1, h2⟩ := hbox by_ bx p hby hbx hp
          exact hg _ h1 _ h2
      have := (exactlyOnce_iff_nodup (cellsOf n n) (cellsOf_nodup n n) size (by rw [cellsOf_length, hsize])
        (fun p => g (by_ * n + p.1) (bx * n + p.2))
        (fun p hp => by
          obtain ⟨h1, h2⟩ := hbox by_ bx p hby hbx hp
          exact hrange' _ _ h1 h2)).mpr hc'
      intro d hd1 hd2
      exact (exactlyOnce_congr (fun p => mem_cellsOf) _ d).mp (this d hd1 hd2)
    · -- givens
      intro y x hy hx hcl
      have hc := hcs (.node .eq [.ivar (y * size + x), .litI (cl y x)])
        (Or.inr ⟨(y, x), mem_cellsOf.mpr ⟨hy, hx⟩, by simp [hcl]⟩)
      simp [evalOp, allInts] at hc
      rw [hg y hy x hx]; exact hc
  · rintro ⟨hrange, hrows, hcols, hboxes, hclues⟩
    refine ⟨fun y hy x hx => hrange y x hy hx, ?_⟩
    rintro c ((⟨i, hi, hc⟩ | ⟨yx, hyx, hc⟩) | ⟨yx, hyx, hc⟩)
    · have hi' := List.mem_range.mp hi
      simp only [List.mem_cons, List.mem_nil_iff, or_false] at hc
      rcases hc with rfl | rfl
      · rw [rowE, eval_alldiff_ivars]
        simp only [Option.some.injEq, Val.b.injEq, decide_eq_true_eq]
        rw [← List.map_congr_left (f := fun x => g i x)]
        · exact (exactlyOnce_iff_nodup (List.range size) List.nodup_range size (by simp) (fun x => g i x)
            (fun x hx => hrange i x hi' (List.mem_range.mp hx))).mp
            (fun d hd1 hd2 => (exactlyOnce_congr (fun x => List.mem_range) _ d).mpr (hrows i hi' d hd1 hd2))
        · intro x hx; exact hg i hi' x (List.mem_range.mp hx)
      · rw [colE, eval_alldiff_ivars]
        simp only [Option.some.injEq, Val.b.injEq, decide_eq_true_eq]
        rw [← List.map_congr_left (f := fun y => g y i)]
        · exact (exactlyOnce_iff_nodup (List.range size) List.nodup_range size (by simp) (fun y => g y i)
            (fun y hy => hrange y i (List.mem_range.mp hy) hi')).mp
            (fun d hd1 hd2 => (exactlyOnce_congr (fun x => List.mem_range) _ d).mpr (hcols i hi' d hd1 hd2))
        · intro y hy; exact hg y (List.mem_range.mp hy) i hi'
    · obtain ⟨hby, hbx⟩ := mem_cellsOf.mp hyx
      simp only [List.mem_cons, List.mem_nil_iff, or_false] at hc
      subst hc
      rw [boxE_eq, hsize, eval_alldiff_ivars]
      simp only [Option.some.injEq, Val.b.injEq, decide_eq_true_eq]
      rw [← List.map_congr_left (f := fun p => g (yx.1 * n + p.1) (yx.2 * n + p.2))]
      · exact (exactlyOnce_iff_nodup (cellsOf n n) (cellsOf_nodup n n) size (by rw [cellsOf_length, hsize])
          (fun p => g (yx.1 * n + p.1) (yx.2 * n + p.2))
          (fun p hp => by
            obtain ⟨h1, h2⟩ := hbox yx.1 yx.2 p hby hbx hp
            exact hrange _ _ h1 h2)).mp
          (fun d hd1 hd2 => (exactlyOnce_congr (fun p => mem_cellsOf) _ d).mpr (hboxes yx.1 yx.2 hby hbx d hd1 hd2))
      · intro p hp
        obtain ⟨h1, h2⟩ := hbox yx.1 yx.2 p hby hbx hp
        exact hg _ h1 _ h2
    · obtain ⟨hy, hx⟩ := mem_cellsOf.mp hyx
      split at hc
      · next hcl =>
        simp only [List.mem_cons, List.mem_nil_iff, or_false] at hc
        subst hc
        have := hclues yx.1 yx.2 hy hx hcl
        rw [hg _ hy _ hx] at this
        simp [evalOp, allInts, this]
      · simp at hc

/-! ### Assembly -/

theorem wt_closed (n : Nat) (cl : Nat → Nat → Int) : ∀ c ∈ closedCs n cl, wtB c = true := by
  have hiv : ∀ {ι : Type} (L : List ι) (f : ι → Nat), wtIs (L.map fun p => Expr.ivar (f p)) = true := by
    intro ι L f
    induction L with
    | nil => rfl
    | cons a L ih => simp [wtIs, wtI, ih]
  intro c hc
  simp only [closedCs, List.mem_append, linesC, boxesC, cluesC, mem_flatten_map] at hc
  rcases hc with (⟨i, _, hc⟩ | ⟨yx, _, hc⟩) | ⟨yx, _, hc⟩
  · simp only [List.mem_cons, List.mem_nil_iff, or_false] at hc
    rcases hc with rfl | rfl
    · simp only [wtB, rowE]; exact hiv _ _
    · simp only [wtB, colE]; exact hiv _ _
  · simp only [List.mem_cons, List.mem_nil_iff, or_false] at hc
    subst hc
    simp only [wtB, boxE_eq]; exact hiv _ _
  · split at hc
    · simp only [List.mem_cons, List.mem_nil_iff, or_false] at hc
      subst hc
      simp [wtB, wtIs, wtI]
    · simp at hc

theorem encodes (pb : Problem) : EncodesRules (closed pb) (Rules pb) :=
  Cspuz.Proofs.C11Grid.encodes_int_grid (pb.n * pb.n) (pb.n * pb.n) 1 ((pb.n * pb.n : Nat) : Int)
    (closedCs pb.n (clue pb)) (GridRules pb) (fun σ g hg => cs_iff pb.n (clue pb) σ g hg)

theorem main (pb : Problem) (hwf : WellFormed pb) (P : PuzzleProg) (hP : program pb = .ok P) :
    EncodesRules P (Rules pb) ∧ P.KeysOk ∧ (∀ c ∈ P.cs, wtB c = true) := by
  rw [program_closed pb hwf] at hP
  cases hP
  exact ⟨encodes pb, Cspuz.Proofs.C11Grid.keysOk_range _ _ _ (by simp), wt_closed _ _⟩

theorem total (pb : Problem) (hwf : WellFormed pb) : ∃ P, program pb = .ok P :=
  ⟨_, program_closed pb hwf⟩

end Cspuz.Proofs.C11Sudoku
