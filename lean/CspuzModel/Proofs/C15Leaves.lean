/-
  C15: locality (`CombLocal`) of every leaf combinator of the serializer model, with the reusable facts about
  numerals (`digits`/`toBase`/`fromBase`), decimal strings (`isDigit`/`decimalVal`/`pyInt`), Python `==` on
  `bool`-free values, `countRun`, and `mdPack`/`mdUnpack`.
-/
import CspuzModel.Proofs.SerBasics
namespace Cspuz.Ser
open Cspuz

/-! ### numerals -/

theorem digitsAux_eq (b : Nat) (hb : 2 ≤ b) : ∀ fuel n acc, n < fuel →
    digitsAux b fuel n acc = digitsAux b (n + 1) n [] ++ acc := by
  intro fuel
  induction fuel using Nat.strongRecOn with
  | _ fuel ih =>
    intro n acc hn
    cases fuel with
    | zero => omega
    | succ fuel =>
      by_cases hnb : n < b
      · simp [digitsAux, hnb]
      · have hdiv : n / b < n := Nat.div_lt_self (by omega) (by omega)
        have h1 : digitsAux b (fuel + 1) n acc = digitsAux b fuel (n / b) (n % b :: acc) := by
          simp [digitsAux, hnb]
        have h2 : digitsAux b (n + 1) n [] = digitsAux b n (n / b) [n % b] := by
          simp [digitsAux, hnb]
        rw [h1, h2, ih fuel (by omega) (n / b) _ (by omega), ih n (by omega) (n / b) _ hdiv]
        simp

/-- the usual recursion of positional notation -/
theorem digits_eq (b n : Nat) (hb : 2 ≤ b) :
    digits b n = if n < b then [n] else digits b (n / b) ++ [n % b] := by
  by_cases hnb : n < b
  · simp [digits, digitsAux, hnb]
  · have hdiv : n / b < n := Nat.div_lt_self (by omega) (by omega)
    simp only [hnb, if_false]
    unfold digits
    have h2 : digitsAux b (n + 1) n [] = digitsAux b n (n / b) [n % b] := by
      simp [digitsAux, hnb]
    rw [h2, digitsAux_eq b hb n (n / b) _ hdiv]

theorem digits_of_lt (b n : Nat) (hb : 2 ≤ b) (h : n < b) : digits b n = [n] := by
  rw [digits_eq b n hb]; simp [h]

theorem digits_of_ge (b n : Nat) (hb : 2 ≤ b) (h : b ≤ n) : digits b n = digits b (n / b) ++ [n % b] := by
  rw [digits_eq b n hb]; simp [Nat.not_lt.mpr h]

theorem digits_lt (b : Nat) (hb : 2 ≤ b) : ∀ n, ∀ d ∈ digits b n, d < b := by
  intro n
  induction n using Nat.strongRecOn with
  | _ n ih =>
    intro d hd
    by_cases hnb : n < b
    · rw [digits_of_lt b n hb hnb] at hd; simp at hd; omega
    · rw [digits_of_ge b n hb (by omega)] at hd
      simp only [List.mem_append, List.mem_singleton] at hd
      rcases hd with hd | hd
      · exact ih (n / b) (Nat.div_lt_self (by omega) (by omega)) d hd
      · subst hd; exact Nat.mod_lt _ (by omega)

theorem digits_ne_nil (b n : Nat) (hb : 2 ≤ b) : digits b n ≠ [] := by
  rw [digits_eq b n hb]; split <;> simp

/-- positional value of a list of digit values, most significant first -/
def ofDigits (b : Nat) (l : List Nat) : Nat := l.foldl (fun a d => a * b + d) 0

theorem ofDigits_digits (b : Nat) (hb : 2 ≤ b) : ∀ n, ofDigits b (digits b n) = n := by
  intro n
  induction n using Nat.strongRecOn with
  | _ n ih =>
    by_cases hnb : n < b
    · rw [digits_of_lt b n hb hnb]; simp [ofDigits]
    · rw [digits_of_ge b n hb (by omega)]
      have := ih (n / b) (Nat.div_lt_self (by omega) (by omega))
      simp only [ofDigits] at this
      simp only [ofDigits, List.foldl_append, List.foldl_cons, List.foldl_nil, this]
      exact Nat.div_add_mod' n b

theorem digits_length_of_lt (b n : Nat) (hb : 2 ≤ b) (h : n < b) : (digits b n).length = 1 := by
  rw [digits_of_lt b n hb h]; rfl

theorem digits_length_of_ge (b n : Nat) (hb : 2 ≤ b) (h : b ≤ n) :
    (digits b n).length = (digits b (n / b)).length + 1 := by
  rw [digits_of_ge b n hb h]; simp

theorem charVal_digitChar (d : Nat) (h : d < 36) : charVal (digitChar d) = d := by
  unfold charVal digitChar; split <;> split <;> omega

theorem isHex_digitChar (d : Nat) (h : d < 16) : isHex (digitChar d) = true := by
  unfold isHex digitChar; split <;> simp <;> omega

theorem isAlnumLower_digitChar (d : Nat) (h : d < 36) : isAlnumLower (digitChar d) = true := by
  unfold isAlnumLower digitChar; split <;> simp <;> omega

theorem digitChar_ne_punct (d : Nat) : digitChar d ≠ 45 ∧ digitChar d ≠ 43 ∧ digitChar d ≠ 46 := by
  unfold digitChar; split <;> omega

theorem foldl_charVal_map_digitChar (b : Nat) (D : List Nat) (hD : ∀ d ∈ D, d < 36) (a : Nat) :
    (D.map digitChar).foldl (fun a c => a * b + charVal c) a = D.foldl (fun a d => a * b + d) a := by
  induction D generalizing a with
  | nil => rfl
  | cons d D ih =>
    simp only [List.map_cons, List.foldl_cons]
    rw [charVal_digitChar d (hD d (by simp))]
    exact ih (fun x hx => hD x (by simp [hx])) _

theorem fromBase_toBase (b n : Nat) (hb : 2 ≤ b) (hb' : b ≤ 36) : fromBase b (toBase b n) = n := by
  unfold fromBase toBase
  rw [foldl_charVal_map_digitChar b _ (fun d hd => by have := digits_lt b hb n d hd; omega)]
  exact ofDigits_digits b hb n

theorem toBase_length (b n : Nat) : (toBase b n).length = (digits b n).length := by simp [toBase]

theorem toBase_of_lt (b n : Nat) (hb : 2 ≤ b) (h : n < b) : toBase b n = [digitChar n] := by
  simp [toBase, digits_of_lt b n hb h]

theorem toBase16_length_1 (n : Nat) (h : n < 16) : (toBase 16 n).length = 1 := by
  rw [toBase_length, digits_length_of_lt 16 n (by omega) h]

theorem toBase16_length_2 (n : Nat) (h1 : 16 ≤ n) (h2 : n < 256) : (toBase 16 n).length = 2 := by
  rw [toBase_length, digits_length_of_ge 16 n (by omega) h1, digits_length_of_lt 16 _ (by omega) (by omega)]

theorem toBase16_length_3 (n : Nat) (h1 : 256 ≤ n) (h2 : n < 4096) : (toBase 16 n).length = 3 := by
  rw [toBase_length, digits_length_of_ge 16 n (by omega) (by omega),
    digits_length_of_ge 16 _ (by omega) (by omega), digits_length_of_lt 16 _ (by omega) (by omega)]

theorem toBase36_length_1 (n : Nat) (h : n < 36) : (toBase 36 n).length = 1 := by
  rw [toBase_length, digits_length_of_lt 36 n (by omega) h]

theorem toBase_all_isHex (n : Nat) : ∀ c ∈ toBase 16 n, isHex c = true := by
  intro c hc
  simp only [toBase, List.mem_map] at hc
  obtain ⟨d, hd, rfl⟩ := hc
  exact isHex_digitChar d (digits_lt 16 (by omega) n d hd)


/-! ### decimal strings -/

theorem ascii_digit_cases (c : Nat) (h1 : 48 ≤ c) (h2 : c ≤ 57) :
    c = 48 ∨ c = 49 ∨ c = 50 ∨ c = 51 ∨ c = 52 ∨ c = 53 ∨ c = 54 ∨ c = 55 ∨ c = 56 ∨ c = 57 := by omega

theorem isDigit_ascii (c : Nat) (h1 : 48 ≤ c) (h2 : c ≤ 57) : isDigit c = true := by
  rcases ascii_digit_cases c h1 h2 with h | h | h | h | h | h | h | h | h | h <;> subst h <;> decide

theorem decimalVal_ascii (c : Nat) (h1 : 48 ≤ c) (h2 : c ≤ 57) : decimalVal c = some (c - 48) := by
  rcases ascii_digit_cases c h1 h2 with h | h | h | h | h | h | h | h | h | h <;> subst h <;> decide

theorem isDecimal_ascii (c : Nat) (h1 : 48 ≤ c) (h2 : c ≤ 57) : isDecimal c = true := by
  simp [isDecimal, decimalVal_ascii c h1 h2]

theorem digitChar_ascii (d : Nat) (h : d < 10) : 48 ≤ digitChar d ∧ digitChar d ≤ 57 := by
  unfold digitChar; split <;> omega

theorem toBase10_ascii (n : Nat) : ∀ c ∈ toBase 10 n, 48 ≤ c ∧ c ≤ 57 := by
  intro c hc
  simp only [toBase, List.mem_map] at hc
  obtain ⟨d, hd, rfl⟩ := hc
  exact digitChar_ascii d (digits_lt 10 (by omega) n d hd)

theorem toBase10_isDigit (n : Nat) : ∀ c ∈ toBase 10 n, isDigit c = true :=
  fun c hc => isDigit_ascii c (toBase10_ascii n c hc).1 (toBase10_ascii n c hc).2

theorem toBase_ne_nil (b n : Nat) (hb : 2 ≤ b) : toBase b n ≠ [] := by
  simp [toBase, digits_ne_nil b n hb]

theorem foldl_decimalVal_map_digitChar (D : List Nat) (hD : ∀ d ∈ D, d < 10) (a : Nat) :
    (D.map digitChar).foldl (fun a c => a * 10 + (decimalVal c).getD 0) a = D.foldl (fun a d => a * 10 + d) a := by
  induction D generalizing a with
  | nil => rfl
  | cons d D ih =>
    simp only [List.map_cons, List.foldl_cons]
    have hd := hD d (by simp)
    have h := digitChar_ascii d hd
    rw [decimalVal_ascii _ h.1 h.2]
    have : digitChar d - 48 = d := by unfold digitChar; split <;> omega
    simp only [Option.getD_some, this]
    exact ih (fun x hx => hD x (by simp [hx])) _

theorem pyInt_toBase10 (n : Nat) (h : (toBase 10 n).length ≤ 4300) : pyInt (toBase 10 n) = .ok n := by
  unfold pyInt
  have hall : (toBase 10 n).all isDecimal = true := by
    rw [List.all_eq_true]
    exact fun c hc => isDecimal_ascii c (toBase10_ascii n c hc).1 (toBase10_ascii n c hc).2
  rw [if_neg (by omega), if_pos hall]
  unfold toBase
  rw [foldl_decimalVal_map_digitChar _ (digits_lt 10 (by omega) n)]
  exact congrArg _ (ofDigits_digits 10 (by omega) n)

theorem takeWhile_isDigit_ctx (t rest : Str) (ht : ∀ c ∈ t, isDigit c = true) (hr : NoDigitHead rest) :
    (t ++ rest).takeWhile isDigit = t := by
  rw [List.takeWhile_append_of_pos ht]
  cases rest with
  | nil => simp
  | cons c r =>
    have : isDigit c = false := hr c (by simp)
    simp [this]

/-! ### `pyEq` on `bool`-free values, `countRun` -/

mutual
theorem pyEq_iff_eq : ∀ (v u : PyVal), v.noBool = true → u.noBool = true → (pyEq v u = true ↔ v = u)
  | .int a, u, _, hu => by cases u <;> simp_all [pyEq, PyVal.noBool]
  | .str a, u, _, hu => by cases u <;> simp_all [pyEq, PyVal.noBool]
  | .none, u, _, hu => by cases u <;> simp_all [pyEq, PyVal.noBool]
  | .bool a, u, hv, hu => by simp [PyVal.noBool] at hv
  | .tuple a, u, hv, hu => by
    cases u with
    | tuple b =>
      simp only [PyVal.noBool] at hv hu
      simp only [pyEq, PyVal.tuple.injEq]
      exact pyEqL_iff_eq a b hv hu
    | _ => simp_all [pyEq, PyVal.noBool]
  | .list a, u, hv, hu => by
    cases u with
    | list b =>
      simp only [PyVal.noBool] at hv hu
      simp only [pyEq, PyVal.list.injEq]
      exact pyEqL_iff_eq a b hv hu
    | _ => simp_all [pyEq, PyVal.noBool]
theorem pyEqL_iff_eq : ∀ (l m : List PyVal), noBoolL l = true → noBoolL m = true → (pyEqL l m = true ↔ l = m)
  | [], [], _, _ => by simp [pyEqL]
  | [], _ :: _, _, _ => by simp [pyEqL]
  | _ :: _, [], _, _ => by simp [pyEqL]
  | x :: xs, y :: ys, hl, hm => by
    simp only [noBoolL, Bool.and_eq_true] at hl hm
    simp only [pyEqL, Bool.and_eq_true, List.cons.injEq]
    rw [pyEq_iff_eq x y hl.1 hm.1, pyEqL_iff_eq xs ys hl.2 hm.2]
end

theorem noBoolL_getElem? : ∀ (d : List PyVal) (i : Nat) (v : PyVal), noBoolL d = true → d[i]? = some v →
    v.noBool = true
  | [], _, _, _, h => by simp at h
  | x :: xs, 0, v, hd, h => by
    simp only [noBoolL, Bool.and_eq_true] at hd
    simp at h; subst h; exact hd.1
  | x :: xs, i + 1, v, hd, h => by
    simp only [noBoolL, Bool.and_eq_true] at hd
    simp at h; exact noBoolL_getElem? xs i v hd.2 h

theorem noBoolL_drop : ∀ (d : List PyVal) (i : Nat), noBoolL d = true → noBoolL (d.drop i) = true
  | _, 0, h => by simpa using h
  | [], _ + 1, _ => by simp [noBoolL]
  | x :: xs, i + 1, h => by
    simp only [noBoolL, Bool.and_eq_true] at h
    simpa using noBoolL_drop xs i h.2

theorem countRun_le_lim (sp : PyVal) : ∀ (l : List PyVal) (lim : Nat), countRun sp l lim ≤ lim
  | _, 0 => by simp [countRun]
  | [], _ + 1 => by simp [countRun]
  | v :: r, lim + 1 => by
    simp only [countRun]; split
    · have := countRun_le_lim sp r lim; omega
    · omega

theorem countRun_le_length (sp : PyVal) : ∀ (l : List PyVal) (lim : Nat), countRun sp l lim ≤ l.length
  | _, 0 => by simp [countRun]
  | [], _ + 1 => by simp [countRun]
  | v :: r, lim + 1 => by
    simp only [countRun]; split
    · have := countRun_le_length sp r lim; simp; omega
    · omega

/-- the counted items are all `==` to the space -/
theorem countRun_pyEq (sp : PyVal) : ∀ (l : List PyVal) (lim : Nat),
    ∀ v ∈ l.take (countRun sp l lim), pyEq v sp = true
  | _, 0 => by simp [countRun]
  | [], _ + 1 => by simp [countRun]
  | x :: r, lim + 1 => by
    simp only [countRun]; split
    · rename_i hx
      intro v hv
      rw [Nat.add_comm, List.take_succ_cons] at hv
      rcases List.mem_cons.mp hv with rfl | hv
      · exact hx
      · exact countRun_pyEq sp r lim v hv
    · simp

theorem take_countRun (sp : PyVal) (hsp : sp.noBool = true) : ∀ (l : List PyVal) (lim : Nat), noBoolL l = true →
    l.take (countRun sp l lim) = List.replicate (countRun sp l lim) sp
  | _, 0, _ => by simp [countRun]
  | [], _ + 1, _ => by simp [countRun]
  | x :: r, lim + 1, hl => by
    simp only [noBoolL, Bool.and_eq_true] at hl
    simp only [countRun]; split
    · rename_i hx
      rw [Nat.add_comm, List.take_succ_cons, List.replicate_succ, take_countRun sp hsp r lim hl.2,
        (pyEq_iff_eq x sp hl.1 hsp).mp hx]
    · simp


/-! ### `MultiDigit` packing -/

/-- `mdUnpack`, most significant digit first -/
theorem mdUnpack_succ (base : Nat) : ∀ (k v : Nat) (acc : List PyVal),
    mdUnpack base (k + 1) v acc = .int (((v / base ^ k) % base : Nat) : Int) :: mdUnpack base k v acc
  | 0, v, acc => by simp [mdUnpack]
  | k + 1, v, acc => by
    rw [mdUnpack, mdUnpack_succ base k (v / base), ← mdUnpack]
    rw [Nat.div_div_eq_div_mul, ← Nat.pow_succ']

theorem mdUnpack_length (base : Nat) : ∀ (k v : Nat) (acc : List PyVal),
    (mdUnpack base k v acc).length = k + acc.length
  | 0, _, _ => by simp [mdUnpack]
  | k + 1, v, acc => by rw [mdUnpack, mdUnpack_length base k]; simp; omega

/-- what `mdPack` computes, with the accumulator generalised -/
theorem mdPack_spec (base : Nat) (hb : 0 < base) : ∀ (k : Nat) (items : List PyVal) (acc v : Nat),
    mdPack base k items acc = .ok v → noBoolL items = true →
    v / base ^ k = acc ∧ ∀ tail, mdUnpack base k v tail =
      (items.take k ++ List.replicate (k - items.length) (.int 0)) ++ tail
  | 0, items, acc, v, h, _ => by
    simp only [mdPack, Outcome.ok.injEq] at h
    simp [mdUnpack, h]
  | k + 1, [], acc, v, h, hnb => by
    simp only [mdPack] at h
    obtain ⟨h1, h2⟩ := mdPack_spec base hb k [] (acc * base) v h hnb
    have hdiv : v / base ^ (k + 1) = acc := by
      rw [Nat.pow_succ, ← Nat.div_div_eq_div_mul, h1, Nat.mul_div_cancel _ hb]
    refine ⟨hdiv, fun tail => ?_⟩
    rw [mdUnpack_succ, h2, h1]
    simp [List.replicate_succ]
  | k + 1, x :: r, acc, v, h, hnb => by
    simp only [noBoolL, Bool.and_eq_true] at hnb
    cases x with
    | int n =>
      simp only [mdPack, asInt?] at h
      split at h
      · rename_i hn
        simp only [Bool.and_eq_true, decide_eq_true_eq] at hn
        obtain ⟨h1, h2⟩ := mdPack_spec base hb k r (acc * base + n.toNat) v h hnb.2
        have hdiv : v / base ^ (k + 1) = acc := by
          rw [Nat.pow_succ, ← Nat.div_div_eq_div_mul, h1, Nat.mul_comm acc base,
            Nat.mul_add_div hb, Nat.div_eq_of_lt (by omega)]
          omega
        refine ⟨hdiv, fun tail => ?_⟩
        rw [mdUnpack_succ, h2, h1]
        have : ((acc * base + n.toNat) % base : Nat) = n.toNat := by
          rw [Nat.mul_comm, Nat.mul_add_mod, Nat.mod_eq_of_lt (by omega)]
        rw [this]
        have hn' : ((n.toNat : Nat) : Int) = n := by omega
        simp [hn']
      · simp at h
    | bool b => simp [PyVal.noBool] at hnb
    | _ => simp [mdPack, asInt?] at h

theorem mdPack_lt (base : Nat) (hb : 0 < base) (k : Nat) (items : List PyVal) (v : Nat)
    (h : mdPack base k items 0 = .ok v) (hnb : noBoolL items = true) : v < base ^ k := by
  have := (mdPack_spec base hb k items 0 v h hnb).1
  exact (Nat.div_eq_zero_iff_lt (Nat.pow_pos hb)).mp this

theorem mdUnpack_mdPack (base : Nat) (hb : 0 < base) (k : Nat) (items : List PyVal) (v : Nat)
    (h : mdPack base k items 0 = .ok v) (hnb : noBoolL items = true) :
    mdUnpack base k v [] = items.take k ++ List.replicate (k - items.length) (.int 0) := by
  simpa using (mdPack_spec base hb k items 0 v h hnb).2 []


/-! ### access to the embedded text -/

theorem slice_ctx (pre t rest : Str) (j n : Nat) :
    slice (pre ++ t ++ rest) (pre.length + j) n = ((t ++ rest).drop j).take n := by
  unfold slice
  rw [← List.drop_drop, drop_ctx]

theorem slice_ctx0 (pre t rest : Str) (n : Nat) :
    slice (pre ++ t ++ rest) pre.length n = (t ++ rest).take n := by
  simpa using slice_ctx pre t rest 0 n

theorem length_ctx (pre t rest : Str) : (pre ++ t ++ rest).length = pre.length + t.length + rest.length := by
  simp only [List.length_append]

theorem getElem?_ctx0 (pre rest : Str) (c : Nat) (t : Str) :
    (pre ++ (c :: t) ++ rest)[pre.length]? = some c := by
  simp

/-! ### FixStr -/

theorem fixStr_local (s : Str) (env : Env) : CombLocal (.fixStr s) env := by
  intro data i k t hs _ pre rest _
  simp only [ser, fixStrSer, Outcome.ok.injEq, Prod.mk.injEq] at hs
  obtain ⟨rfl, rfl⟩ := hs
  refine ⟨[], ?_, by simp, by simp⟩
  simp only [de, fixStrDe, slice_ctx0, length_ctx]
  rw [if_neg (by omega), if_pos (by simp)]

/-! ### Dict -/

theorem dictSerFind_ok (v : PyVal) : ∀ (b : List PyVal) (a : List Str) (k : Nat) (t : Str),
    dictSerFind v b a = .ok (k, t) → k = 1 ∧ ∃ (j : Nat) (bj : PyVal), a[j]? = some t ∧ b[j]? = some bj ∧ pyEq v bj = true
  | [], _, _, _, h => by simp [dictSerFind] at h
  | _ :: _, [], _, _, h => by simp [dictSerFind] at h
  | b0 :: bs, a0 :: as, k, t, h => by
    simp only [dictSerFind] at h
    split at h
    · rename_i hb
      simp only [Outcome.ok.injEq, Prod.mk.injEq] at h
      exact ⟨h.1.symm, 0, b0, by simp [h.2], by simp, hb⟩
    · obtain ⟨hk, j, bj, h1, h2, h3⟩ := dictSerFind_ok v bs as k t h
      exact ⟨hk, j + 1, bj, by simpa using h1, by simpa using h2, h3⟩

theorem dictDeFind_ctx (pre rest : Str) : ∀ (b : List PyVal) (a : List Str) (j : Nat) (t : Str) (bj : PyVal),
    prefixFree a = true → a[j]? = some t → b[j]? = some bj →
    dictDeFind (pre ++ t ++ rest) pre.length b a = .ok (t.length, [bj])
  | [], _, _, _, _, _, _, h => by simp at h
  | _ :: _, [], _, _, _, _, h, _ => by simp at h
  | b0 :: bs, a0 :: as, 0, t, bj, _, ha, hb => by
    simp only [List.getElem?_cons_zero, Option.some.injEq] at ha hb
    subst ha; subst hb
    simp only [dictDeFind, slice_ctx0, length_ctx]
    rw [if_pos]
    simp only [Bool.and_eq_true, decide_eq_true_eq, beq_iff_eq]
    exact ⟨by omega, by simp⟩
  | b0 :: bs, a0 :: as, j + 1, t, bj, hpf, ha, hb => by
    simp only [List.getElem?_cons_succ] at ha hb
    simp only [prefixFree, Bool.and_eq_true, List.all_eq_true] at hpf
    have hmem : t ∈ as := List.mem_of_getElem? ha
    have hno := hpf.1 t hmem
    simp only [Bool.not_eq_true'] at hno
    simp only [dictDeFind, slice_ctx0, length_ctx]
    rw [if_neg]
    · exact dictDeFind_ctx pre rest bs as j t bj hpf.2 ha hb
    · simp only [Bool.and_eq_true, decide_eq_true_eq, beq_iff_eq, not_and]
      intro _ heq
      have h1 : a0 <+: t ++ rest := by rw [← heq]; exact List.take_prefix _ _
      have h2 : t <+: t ++ rest := List.prefix_append _ _
      rcases List.prefix_or_prefix_of_prefix h1 h2 with h | h
      · rw [List.isPrefixOf_iff_prefix.mpr h] at hno; simp at hno
      · rw [List.isPrefixOf_iff_prefix.mpr h] at hno; simp at hno

theorem dict_local (b : List PyVal) (a : List Str) (env : Env) (h : wf (.dict b a) = true) :
    CombLocal (.dict b a) env := by
  intro data i k t hs hgood pre rest _
  simp only [wf, Bool.and_eq_true, List.all_eq_true] at h
  obtain ⟨⟨⟨⟨_, hne⟩, hpf⟩, _⟩, hnb⟩ := h
  simp only [ser, dictSer] at hs
  obtain ⟨v, hv, hfind⟩ := withItem_eq_ok.mp hs
  obtain ⟨rfl, j, bj, haj, hbj, heq⟩ := dictSerFind_ok v b a k t hfind
  have hvnb := noBoolL_getElem? data i v hgood.1 hv
  have hbnb := noBoolL_getElem? b j bj hnb hbj
  have hvb : v = bj := (pyEq_iff_eq v bj hvnb hbnb).mp heq
  subst hvb
  have htne : t ≠ [] := by
    have := hne t (List.mem_of_getElem? haj)
    simpa using this
  refine ⟨[v], ?_, by rw [window_one data i v hv]; exact List.prefix_refl _, fun _ => (window_one data i v hv).symm⟩
  simp only [de, dictDe, length_ctx]
  rw [if_neg (by have := List.length_pos_iff.mpr htne; omega)]
  exact dictDeFind_ctx pre rest b a j t v hpf haj hbj


/-! ### Spaces -/

theorem getElem?_lt {α} {l : List α} {i : Nat} {v : α} (h : l[i]? = some v) : i < l.length := by
  rcases Nat.lt_or_ge i l.length with h' | h'
  · exact h'
  · simp [List.getElem?_eq_none h'] at h

theorem window_succ (d : List PyVal) (i m : Nat) (v : PyVal) (h : d[i]? = some v) :
    window d i (m + 1) = v :: (d.drop (i + 1)).take m := by
  have hi := getElem?_lt h
  simp only [window]
  rw [List.drop_eq_getElem_cons hi, List.take_succ_cons]
  simp [List.getElem?_eq_getElem hi] at h
  rw [h]

theorem slice_ctx1 (pre rest hh : Str) (c n : Nat) (h : hh.length = n) :
    slice (pre ++ (c :: hh) ++ rest) (pre.length + 1) n = hh := by
  rw [slice_ctx]
  simp only [List.cons_append, List.drop_succ_cons, List.drop_zero]
  exact List.take_left' h

theorem spaces_local (sp : PyVal) (o : Int) (env : Env) (h : wf (.spaces sp o) = true) :
    CombLocal (.spaces sp o) env := by
  intro data i k t hs hgood pre rest _
  simp only [wf, Bool.and_eq_true, decide_eq_true_eq] at h
  obtain ⟨⟨ho1, ho2⟩, hsp⟩ := h
  simp only [ser, spacesSer] at hs
  obtain ⟨v, hv, hk⟩ := withItem_eq_ok.mp hs
  have hvnb := noBoolL_getElem? data i v hgood.1 hv
  have hm1 := countRun_le_lim sp (data.drop (i + 1)) ((35 - o) - 1).toNat
  have hm2 := take_countRun sp hsp (data.drop (i + 1)) ((35 - o) - 1).toNat (noBoolL_drop data (i + 1) hgood.1)
  generalize countRun sp (data.drop (i + 1)) ((35 - o) - 1).toNat = m at hk hm1 hm2
  split at hk
  · simp at hk
  · rename_i heq
    simp only [Bool.not_eq_true', Bool.not_eq_false] at heq
    have hvsp : v = sp := (pyEq_iff_eq v sp hvnb hsp).mp heq
    subst hvsp
    simp only [toBase36] at hk
    rw [if_neg (by omega)] at hk
    simp only [Outcome.bind_ok, Outcome.ok.injEq, Prod.mk.injEq] at hk
    obtain ⟨rfl, rfl⟩ := hk
    have hN : (o + ((1 + m : Nat) : Int)).toNat < 36 := by omega
    have hwin : window data i (1 + m) = List.replicate (1 + m) v := by
      rw [Nat.add_comm 1 m, window_succ data i m v hv, hm2, List.replicate_succ]
    rw [toBase_of_lt 36 _ (by omega) hN]
    refine ⟨List.replicate (1 + m) v, ?_, by rw [hwin]; exact List.prefix_refl _, fun _ => hwin.symm⟩
    simp only [de, spacesDe]
    rw [withChar_eq_ok]
    refine ⟨_, getElem?_ctx0 pre rest _ [], ?_⟩
    rw [isAlnumLower_digitChar _ hN, charVal_digitChar _ hN]
    simp only [Bool.not_true, Bool.false_eq_true, if_false]
    rw [if_pos (by omega)]
    have : ((((o + ((1 + m : Nat) : Int)).toNat : Nat) : Int) - o).toNat = 1 + m := by omega
    rw [this]; rfl

/-! ### DecInt -/

theorem decInt_local (env : Env) : CombLocal .decInt env := by
  intro data i k t hs hgood pre rest hrest
  simp only [ser, decIntSer] at hs
  obtain ⟨v, hv, hk⟩ := withItem_eq_ok.mp hs
  have hvnb := noBoolL_getElem? data i v hgood.1 hv
  cases v with
  | int n =>
    simp only at hk
    split at hk
    · simp at hk
    · split at hk
      · simp at hk
      · rename_i hn hlen
        simp only [Outcome.ok.injEq, Prod.mk.injEq] at hk
        obtain ⟨rfl, rfl⟩ := hk
        have hne := toBase_ne_nil 10 n.toNat (by omega)
        have hpos := List.length_pos_iff.mpr hne
        refine ⟨[.int n], ?_, by rw [window_one data i _ hv]; exact List.prefix_refl _,
          fun _ => (window_one data i _ hv).symm⟩
        simp only [de, decIntDe, drop_ctx, length_ctx]
        rw [if_neg (by omega)]
        rw [takeWhile_isDigit_ctx _ rest (toBase10_isDigit n.toNat) (hrest rfl)]
        rw [if_neg (by omega), pyInt_toBase10 _ (by omega)]
        have : ((n.toNat : Nat) : Int) = n := by omega
        simp [this]
  | bool b => simp [PyVal.noBool] at hvnb
  | _ => simp at hk


/-! ### HexInt -/

theorem toBase16_fromBase (n : Nat) : fromBase 16 (toBase 16 n) = n :=
  fromBase_toBase 16 n (by omega) (by omega)

theorem all_isHex_toBase16 (n : Nat) : (toBase 16 n).all isHex = true := by
  rw [List.all_eq_true]; exact toBase_all_isHex n

theorem hexInt_local (env : Env) : CombLocal .hexInt env := by
  intro data i k t hs hgood pre rest _
  simp only [ser, hexIntSer] at hs
  obtain ⟨v, hv, hk⟩ := withItem_eq_ok.mp hs
  have hvnb := noBoolL_getElem? data i v hgood.1 hv
  cases v with
  | int n =>
    simp only [asInt?] at hk
    split at hk
    · simp at hk
    · rename_i hn
      simp only [Bool.not_eq_true', Bool.not_eq_false, Bool.and_eq_true, decide_eq_true_eq] at hn
      simp only [Outcome.ok.injEq, Prod.mk.injEq] at hk
      obtain ⟨rfl, rfl⟩ := hk
      have hcast : ((n.toNat : Nat) : Int) = n := by omega
      refine ⟨[.int n], ?_, by rw [window_one data i _ hv]; exact List.prefix_refl _,
        fun _ => (window_one data i _ hv).symm⟩
      simp only [de, hexIntDe]
      rw [withChar_eq_ok]
      by_cases h1 : n < 16
      · have hN : n.toNat < 16 := by omega
        rw [if_neg (by simp; omega), if_neg (by simp; omega), toBase_of_lt 16 _ (by omega) hN]
        refine ⟨_, getElem?_ctx0 pre rest _ [], ?_⟩
        have hp := digitChar_ne_punct n.toNat
        rw [if_neg hp.1, if_neg hp.2.1, if_pos (isHex_digitChar _ hN), charVal_digitChar _ (by omega), hcast]
        rfl
      · by_cases h2 : n < 256
        · rw [if_pos (by simp; omega), List.singleton_append]
          have hlen := toBase16_length_2 n.toNat (by omega) (by omega)
          refine ⟨45, getElem?_ctx0 pre rest _ _, ?_⟩
          rw [if_pos rfl, slice_ctx1 pre rest _ 45 2 hlen, all_isHex_toBase16, toBase16_fromBase, hcast]
          simp [hlen]
        · rw [if_neg (by simp; omega), if_pos (by omega), List.singleton_append]
          have hlen := toBase16_length_3 n.toNat (by omega) (by omega)
          refine ⟨43, getElem?_ctx0 pre rest _ _, ?_⟩
          rw [if_neg (by decide), if_pos rfl, slice_ctx1 pre rest _ 43 3 hlen, all_isHex_toBase16,
            toBase16_fromBase, hcast]
          simp [hlen]
  | bool b => simp [PyVal.noBool] at hvnb
  | _ => simp [asInt?] at hk

/-! ### IntSpaces -/

theorem intSpaces_local (sp : PyVal) (mi ms : Nat) (env : Env) (h : wf (.intSpaces sp mi ms) = true) :
    CombLocal (.intSpaces sp mi ms) env := by
  intro data i k t hs hgood pre rest _
  simp only [wf, Bool.and_eq_true, decide_eq_true_eq] at h
  obtain ⟨hprod, hsp⟩ := h
  simp only [ser, intSpacesSer] at hs
  obtain ⟨v, hv, hk⟩ := withItem_eq_ok.mp hs
  have hvnb := noBoolL_getElem? data i v hgood.1 hv
  have hm1 := countRun_le_lim sp (data.drop (i + 1)) ms
  have hm2 := take_countRun sp hsp (data.drop (i + 1)) ms (noBoolL_drop data (i + 1) hgood.1)
  generalize countRun sp (data.drop (i + 1)) ms = m at hk hm1 hm2
  cases v with
  | int n =>
    simp only [asInt?] at hk
    split at hk
    · simp at hk
    · rename_i hn
      simp only [Bool.not_eq_true', Bool.not_eq_false, Bool.and_eq_true, decide_eq_true_eq] at hn
      simp only [Outcome.ok.injEq, Prod.mk.injEq] at hk
      obtain ⟨rfl, rfl⟩ := hk
      have hcast : ((n.toNat : Nat) : Int) = n := by omega
      have hnle : n.toNat ≤ mi := by omega
      have hlt : m * (mi + 1) + n.toNat < (mi + 1) * (ms + 1) := by
        have : m * (mi + 1) ≤ ms * (mi + 1) := Nat.mul_le_mul_right _ hm1
        rw [Nat.mul_comm (mi + 1) (ms + 1), Nat.add_mul]; omega
      have hN : m * (mi + 1) + n.toNat < 36 := by omega
      have hmod : (m * (mi + 1) + n.toNat) % (mi + 1) = n.toNat := by
        rw [Nat.mul_comm, Nat.mul_add_mod, Nat.mod_eq_of_lt (by omega)]
      have hdiv : (m * (mi + 1) + n.toNat) / (mi + 1) = m := by
        rw [Nat.mul_comm, Nat.mul_add_div (by omega), Nat.div_eq_of_lt (by omega)]; rfl
      have hwin : window data i (1 + m) = .int n :: List.replicate m sp := by
        rw [Nat.add_comm 1 m, window_succ data i m _ hv, hm2]
      rw [toBase_of_lt 36 _ (by omega) hN]
      refine ⟨.int n :: List.replicate m sp, ?_, by rw [hwin]; exact List.prefix_refl _, fun _ => hwin.symm⟩
      simp only [de, intSpacesDe]
      rw [withChar_eq_ok]
      refine ⟨_, getElem?_ctx0 pre rest _ [], ?_⟩
      rw [isAlnumLower_digitChar _ hN, charVal_digitChar _ hN]
      simp only [Bool.not_true, Bool.false_eq_true, if_false]
      rw [if_neg (by simp; exact hlt), hmod, hdiv, hcast]
      rfl
  | bool b => simp [PyVal.noBool] at hvnb
  | _ => simp [asInt?] at hk

/-! ### MultiDigit -/

theorem multiDigit_local (b k : Nat) (env : Env) (h : wf (.multiDigit b k) = true) :
    CombLocal (.multiDigit b k) env := by
  intro data i kk t hs hgood pre rest _
  simp only [wf, Bool.and_eq_true, decide_eq_true_eq] at h
  obtain ⟨hk1, hpow⟩ := h
  simp only [ser, multiDigitSer] at hs
  split at hs
  · simp at hs
  · split at hs
    · simp at hs
    · rename_i hi1 hi2
      obtain ⟨v, hpack, hk⟩ := Outcome.bind_eq_ok.mp hs
      simp only [Outcome.ok.injEq, Prod.mk.injEq] at hk
      obtain ⟨rfl, rfl⟩ := hk
      have hnb := noBoolL_drop data i hgood.1
      have hdl : (data.drop i).length = data.length - i := List.length_drop
      have hb : 0 < b := by
        rcases Nat.eq_zero_or_pos b with rfl | hb
        · exfalso
          obtain ⟨k', rfl⟩ : ∃ k', k = k' + 1 := ⟨k - 1, by omega⟩
          cases hd : data.drop i with
          | nil => rw [hd] at hdl; simp at hdl; omega
          | cons x r =>
            rw [hd] at hpack
            simp only [mdPack] at hpack
            cases hx : asInt? x with
            | none => simp [hx] at hpack
            | some n =>
              simp only [hx] at hpack
              rw [if_neg (by simp)] at hpack
              simp at hpack
        · exact hb
      have hv := mdPack_lt b hb k _ v hpack hnb
      have hun := mdUnpack_mdPack b hb k _ v hpack hnb
      have hN : v < 36 := by omega
      rw [toBase_of_lt 36 _ (by omega) hN]
      have hwin : window data i (min (data.length - i) k) = (data.drop i).take k := by
        simp only [window]
        rw [← hdl, Nat.min_comm, ← List.take_eq_take_min]
      refine ⟨mdUnpack b k v [], ?_, ?_, ?_⟩
      · simp only [de, multiDigitDe]
        rw [withChar_eq_ok]
        refine ⟨_, getElem?_ctx0 pre rest _ [], ?_⟩
        rw [isAlnumLower_digitChar _ hN, charVal_digitChar _ hN]
        simp only [Bool.not_true, Bool.false_eq_true, if_false]
        rw [if_neg (by simp; exact hv)]
        rfl
      · rw [hwin, hun]; exact List.prefix_append _ _
      · intro hex
        rw [hwin, hun]
        have : k - (data.drop i).length = 0 := by
          rcases hex with hex | hex
          · simp only [exact, decide_eq_true_eq] at hex; omega
          · omega
        rw [this]; simp


/-! ### YajilinClue -/

theorem dirOfChar_some (c dir : Nat) (h : dirOfChar c = some dir) :
    1 ≤ dir ∧ dir ≤ 4 ∧ charOfDir dir = c := by
  unfold dirOfChar at h
  unfold charOfDir
  split at h
  · simp only [Option.some.injEq] at h; subst h; simp_all
  · split at h
    · simp only [Option.some.injEq] at h; subst h; simp_all
    · split at h
      · simp only [Option.some.injEq] at h; subst h; simp_all
      · split at h
        · simp only [Option.some.injEq] at h; subst h; simp_all
        · simp at h

theorem length_two {α} (l : List α) (h : l.length = 2) : ∃ a b, l = [a, b] := by
  match l, h with
  | [a, b], _ => exact ⟨a, b, rfl⟩

theorem getElem?_ctx1 (pre rest : Str) (c c' : Nat) (t : Str) :
    (pre ++ (c :: c' :: t) ++ rest)[pre.length + 1]? = some c' := by
  simp

theorem yajilin_local (env : Env) : CombLocal .yajilinClue env := by
  intro data i k t hs hgood pre rest _
  have hcanon : YajilinCanon data i := by simpa [Tight] using hgood.2
  simp only [ser, yajilinSer] at hs
  split at hs
  · simp at hs
  · cases hv : data[i]? with
    | none => simp [hv] at hs
    | some v =>
      have hvnb := noBoolL_getElem? data i v hgood.1 hv
      simp only [hv] at hs
      split at hs
      · simp at hs
      · split at hs
        · rename_i _ hq
          have hvq : v = .str qq := (pyEq_iff_eq v (.str qq) hvnb rfl).mp hq
          subst hvq
          simp only [Outcome.ok.injEq, Prod.mk.injEq] at hs
          obtain ⟨rfl, rfl⟩ := hs
          refine ⟨[.str qq], ?_, by rw [window_one data i _ hv]; exact List.prefix_refl _,
            fun _ => (window_one data i _ hv).symm⟩
          simp only [de, yajilinDe, getElem?_ctx0, getElem?_ctx1, length_ctx]
          rw [if_neg (by simp; omega)]
          simp
        · split at hs
          · rename_i c r _ _
            split at hs
            · simp at hs
            · rename_i dir hdir
              obtain ⟨hd1, hd4, hcd⟩ := dirOfChar_some c dir hdir
              split at hs
              · simp at hs
              · obtain ⟨n, hpy, hk⟩ := Outcome.bind_eq_ok.mp hs
                have hr : r = toBase 10 n := hcanon c r n hv hpy
                have hwin := window_one data i _ hv
                split at hk
                · rename_i hn
                  simp only [Outcome.ok.injEq, Prod.mk.injEq] at hk
                  obtain ⟨rfl, rfl⟩ := hk
                  rw [toBase_of_lt 16 n (by omega) hn]
                  refine ⟨[.str (c :: r)], ?_, by rw [hwin]; exact List.prefix_refl _, fun _ => hwin.symm⟩
                  simp only [de, yajilinDe, getElem?_ctx0, getElem?_ctx1, length_ctx]
                  rw [if_neg (by simp; omega), if_neg (by omega), if_pos (by simp; omega),
                    if_neg (digitChar_ne_punct n).2.2, isHex_digitChar n hn, charVal_digitChar n (by omega)]
                  simp [hcd, hr]
                · split at hk
                  · rename_i hn1 hn2
                    simp only [Outcome.ok.injEq, Prod.mk.injEq] at hk
                    obtain ⟨rfl, rfl⟩ := hk
                    have hlen := toBase16_length_2 n (by omega) hn2
                    have hall := all_isHex_toBase16 n
                    have hfb := toBase16_fromBase n
                    obtain ⟨h0, h1, hhh⟩ := length_two _ hlen
                    rw [hhh] at hall hfb ⊢
                    refine ⟨[.str (c :: r)], ?_, by rw [hwin]; exact List.prefix_refl _, fun _ => hwin.symm⟩
                    simp only [de, yajilinDe, getElem?_ctx0, getElem?_ctx1, length_ctx]
                    rw [if_neg (by simp; omega), if_neg (by omega), if_neg (by simp; omega),
                      if_pos (by simp; omega), if_neg (by simp; omega),
                      slice_ctx1 pre rest [h0, h1] _ 2 rfl, hall, hfb]
                    have : 48 + dir + 5 - 53 = dir := by omega
                    simp [this, hcd, hr]
                    omega
                  · simp at hk
          · simp at hs

end Cspuz.Ser
