/-
  Lemmas for C20, encoding part: the program a graph generator emits contains a native graph operator
  exactly when the resolved flag says so.  Core Lean only.
-/
import CspuzModel.Model.Graph
import CspuzModel.Model.Config
import CspuzModel.Spec.Config
namespace Cspuz.Proofs.C20
open Cspuz Cspuz.Spec

/-! ### `Except` / `mapM` plumbing (local copies, so that this file depends on the models only) -/

theorem bind_ok {ε α β : Type} {x : Except ε α} {f : α → Except ε β} {b : β} :
    (x >>= f) = .ok b ↔ ∃ a, x = .ok a ∧ f a = .ok b := by
  cases x with
  | error e => simp [bind, Except.bind]
  | ok a => simp [bind, Except.bind]

theorem mapM_mem {ε α β : Type} {f : α → Except ε β} :
    ∀ {l : List α} {r : List β}, l.mapM f = .ok r → ∀ y ∈ r, ∃ x ∈ l, f x = .ok y
  | [], r, h, y, hy => by
    have : r = [] := by simpa [pure, Except.pure] using h.symm
    subst this; cases hy
  | x :: l, r, h, y, hy => by
    rw [List.mapM_cons, bind_ok] at h
    obtain ⟨y0, hy0, h⟩ := h
    rw [bind_ok] at h
    obtain ⟨ys, hys, h⟩ := h
    cases h
    rcases List.mem_cons.1 hy with rfl | hy
    · exact ⟨x, by simp, hy0⟩
    · obtain ⟨x', hx', h'⟩ := mapM_mem hys y hy
      exact ⟨x', by simp [hx'], h'⟩

/-! ### `hasNative` -/

theorem hasNativeList_eq : ∀ l : List Expr, hasNative.hasNativeList l = l.any hasNative
  | [] => rfl
  | e :: r => by simp [hasNative.hasNativeList, hasNativeList_eq r]

@[simp] theorem hn_node (op : Op) (args : List Expr) :
    hasNative (.node op args) = (op == .graphAVC || op == .graphDiv || args.any hasNative) := by
  simp [hasNative, hasNativeList_eq]

@[simp] theorem hn_bvar (i : Nat) : hasNative (.bvar i) = false := rfl
@[simp] theorem hn_ivar (i : Nat) : hasNative (.ivar i) = false := rfl
@[simp] theorem hn_litB (b : Bool) : hasNative (.litB b) = false := rfl
@[simp] theorem hn_litI (n : Int) : hasNative (.litI n) = false := rfl
@[simp] theorem hn_litNone : hasNative .litNone = false := rfl

theorem progHasNative_false {p : Prog} : progHasNative p = false ↔ NativeFree p.cs := by
  simp [progHasNative, NativeFree]

theorem nativeFree_append {a b : List Expr} : NativeFree (a ++ b) ↔ NativeFree a ∧ NativeFree b := by
  simp only [NativeFree, List.mem_append]
  constructor
  · intro h; exact ⟨fun e he => h e (Or.inl he), fun e he => h e (Or.inr he)⟩
  · rintro ⟨h1, h2⟩ e (he | he)
    · exact h1 e he
    · exact h2 e he

theorem nativeFree_flatten {l : List (List Expr)} : NativeFree l.flatten ↔ ∀ x ∈ l, NativeFree x := by
  simp only [NativeFree, List.mem_flatten]
  constructor
  · intro h x hx e he; exact h e ⟨x, hx, he⟩
  · rintro h e ⟨x, hx, he⟩; exact h x hx e he

theorem nativeFree_cons {a : Expr} {l : List Expr} : NativeFree (a :: l) ↔ hasNative a = false ∧ NativeFree l := by
  simp [NativeFree]

theorem nativeFree_nil : NativeFree [] := by simp [NativeFree]

/-! ### the DSL helpers preserve native-freeness -/

theorem getE_mem {l : List Expr} {i : Nat} {x : Expr} (h : getE l i = .ok x) : x ∈ l := by
  unfold getE at h
  split at h
  · rename_i y hy
    cases h
    exact List.mem_of_getElem? hy
  · cases h

theorem getE_nf {l : List Expr} {i : Nat} {x : Expr} (hl : NativeFree l) (h : getE l i = .ok x) :
    hasNative x = false := hl x (getE_mem h)

theorem andPy_nf {a b e : Expr} (h : andPy a b = .ok e) (ha : hasNative a = false) (hb : hasNative b = false) :
    hasNative e = false := by
  unfold andPy at h
  split at h
  · cases h; rfl
  · split at h
    · cases h; simp [ha, hb]
    · cases h

theorem cmpEq_nf {a b e : Expr} (h : cmpPy .eq a b = .ok e) (ha : hasNative a = false)
    (hb : hasNative b = false) : hasNative e = false := by
  unfold cmpPy at h
  split at h
  · cases h; rfl
  · split at h
    · cases h; simp [Op.mirror, hb]
    · cases h
  · split at h
    · cases h; simp [Op.mirror, ha]
    · cases h
  · split at h
    · cases h; simp [ha, hb]
    · cases h

theorem iffPy_nf {a b e : Expr} (h : iffPy a b = .ok e) (ha : hasNative a = false)
    (hb : hasNative b = false) : hasNative e = false := by
  unfold iffPy at h
  split at h
  · cases h; rfl
  · split at h
    · cases h; simp [hb]
    · cases h
  · split at h
    · cases h; simp [ha]
    · cases h
  · split at h
    · cases h; simp [ha, hb]
    · cases h

theorem countTrue_go_nf : ∀ (xs : List Expr) (c : Nat) (acc : List Expr) (c' : Nat) (ops : List Expr),
    countTrue.go xs c acc = .ok (c', ops) → NativeFree xs → NativeFree acc → NativeFree ops
  | [], c, acc, c', ops, h, _, hacc => by
    simp only [countTrue.go] at h
    cases h
    intro e he
    exact hacc e (by simpa using he)
  | x :: r, c, acc, c', ops, h, hxs, hacc => by
    have hx := (nativeFree_cons.1 hxs).1
    have hr := (nativeFree_cons.1 hxs).2
    unfold countTrue.go at h
    split at h
    · exact countTrue_go_nf r _ _ _ _ h hr hacc
    · exact countTrue_go_nf r _ _ _ _ h hr hacc
    · split at h
      · refine countTrue_go_nf r _ _ _ _ h hr (nativeFree_cons.2 ⟨?_, hacc⟩)
        simp [hx]
      · cases h

theorem countTrue_nf {xs : List Expr} {e : Expr} (h : countTrue xs = .ok e) (hxs : NativeFree xs) :
    hasNative e = false := by
  unfold countTrue at h
  obtain ⟨⟨c, ops⟩, hgo, h⟩ := bind_ok.1 h
  have hops := countTrue_go_nf xs 0 [] c ops hgo hxs nativeFree_nil
  have hops' : NativeFree (if c > 0 then ops ++ [Expr.litI (c : Nat)] else ops) := by
    split
    · exact nativeFree_append.2 ⟨hops, by simp [NativeFree]⟩
    · exact hops
  simp only at h
  generalize (if c > 0 then ops ++ [Expr.litI (c : Nat)] else ops) = ops' at h hops'
  split at h
  · cases h; simp
  · cases h
    simpa [NativeFree] using hops'

theorem foldOr_go_nf : ∀ (xs acc : List Expr) (e : Expr),
    foldOr.go xs acc = .ok e → NativeFree xs → NativeFree acc → hasNative e = false
  | [], acc, e, h, _, hacc => by
    unfold foldOr.go at h
    split at h
    · cases h; simp
    · cases h
      simpa [NativeFree] using hacc
  | x :: r, acc, e, h, hxs, hacc => by
    have hx := (nativeFree_cons.1 hxs).1
    have hr := (nativeFree_cons.1 hxs).2
    unfold foldOr.go at h
    split at h
    · cases h; simp
    · exact foldOr_go_nf r _ _ h hr hacc
    · split at h
      · exact foldOr_go_nf r _ _ h hr (nativeFree_cons.2 ⟨hx, hacc⟩)
      · cases h

theorem foldOr_nf {xs : List Expr} {e : Expr} (h : foldOr xs = .ok e) (hxs : NativeFree xs) :
    hasNative e = false := foldOr_go_nf xs [] e h hxs nativeFree_nil

theorem nativeFree_bvars (f : Nat → Nat) (l : List Nat) : NativeFree (l.map fun i => Expr.bvar (f i)) := by
  intro e he
  obtain ⟨i, _, rfl⟩ := List.mem_map.1 he
  rfl

/-- `mapM` of a function whose every result is native-free gives native-free results. -/
theorem mapM_nf {α : Type} {f : α → Py Expr} {l : List α} {r : List Expr} (h : l.mapM f = .ok r)
    (hf : ∀ x ∈ l, ∀ y, f x = .ok y → hasNative y = false) : NativeFree r := by
  intro y hy
  obtain ⟨x, hx, hfx⟩ := mapM_mem h y hy
  exact hf x hx y hfx

theorem mapM_nfl {α : Type} {f : α → Py (List Expr)} {l : List α} {r : List (List Expr)}
    (h : l.mapM f = .ok r) (hf : ∀ x ∈ l, ∀ y, f x = .ok y → NativeFree y) : NativeFree r.flatten := by
  rw [nativeFree_flatten]
  intro y hy
  obtain ⟨x, hx, hfx⟩ := mapM_mem h y hy
  exact hf x hx y hfx

/-! ### active_vertices_connected -/

theorem avc_prim {g : Graph} {ia : List Expr} {base : Nat} {p : Prog}
    (h : activeVerticesConnected g ia base false true = .ok p) : progHasNative p = true := by
  simp only [activeVerticesConnected, Bool.and_self, Bool.not_false, if_true] at h
  split at h
  · cases h
  · cases h
    simp [progHasNative]

theorem avc_aux {g : Graph} {ia : List Expr} {base : Nat} {acyclic prim : Bool} {p : Prog}
    (hc : (prim && !acyclic) = false) (hia : NativeFree ia)
    (h : activeVerticesConnected g ia base acyclic prim = .ok p) : progHasNative p = false := by
  rw [progHasNative_false]
  simp only [activeVerticesConnected, hc, Bool.false_eq_true, if_false] at h
  obtain ⟨rdecl, _, h⟩ := bind_ok.1 h
  obtain ⟨per, hper, h⟩ := bind_ok.1 h
  obtain ⟨ctr, hctr, h⟩ := bind_ok.1 h
  cases h
  simp only
  rw [nativeFree_append]
  refine ⟨mapM_nfl hper ?_, ?_⟩
  · intro i _ l hl
    obtain ⟨less, hless, hl⟩ := bind_ok.1 hl
    obtain ⟨ai, hai, hl⟩ := bind_ok.1 hl
    obtain ⟨ct, hct, hl⟩ := bind_ok.1 hl
    have hlessnf : NativeFree less := mapM_nf hless (by
      intro je _ y hy
      obtain ⟨a, ha, hy⟩ := bind_ok.1 hy
      exact andPy_nf hy (by simp) (getE_nf hia ha))
    have hctnf : hasNative ct = false :=
      countTrue_nf hct (nativeFree_append.2 ⟨hlessnf, by simp [NativeFree]⟩)
    have hainf := getE_nf hia hai
    split at hl
    · cases hl
      rw [nativeFree_append]
      refine ⟨?_, by simp [NativeFree, thenRaw, hainf, hctnf]⟩
      intro e he
      obtain ⟨je, _, hje⟩ := List.mem_filterMap.1 he
      split at hje
      · cases hje; simp
      · cases hje
    · cases hl
      simp [NativeFree, thenRaw, hainf, hctnf]
  · have := countTrue_nf hctr (nativeFree_bvars (fun i => base + g.n + i) (List.range g.n))
    simp [NativeFree, this]

/-- The native operator appears in the output of `_active_vertices_connected` iff
`use_graph_primitive and not acyclic`. -/
theorem avc_native {g : Graph} {ia : List Expr} {base : Nat} {acyclic prim : Bool} {p : Prog}
    (hia : NativeFree ia) (h : activeVerticesConnected g ia base acyclic prim = .ok p) :
    progHasNative p = (prim && !acyclic) := by
  cases hc : (prim && !acyclic)
  · exact avc_aux hc hia h
  · have hp : prim = true := by cases prim <;> simp_all
    have ha : acyclic = false := by cases acyclic <;> simp_all
    subst hp ha
    exact avc_prim h

/-! ### division_connected -/

theorem mapM_mem' {ε α β : Type} {f : α → Except ε β} :
    ∀ {l : List α} {r : List β}, l.mapM f = .ok r → ∀ x ∈ l, ∃ y ∈ r, f x = .ok y
  | [], _, _, x, hx => by cases hx
  | x0 :: l, r, h, x, hx => by
    rw [List.mapM_cons, bind_ok] at h
    obtain ⟨y0, hy0, h⟩ := h
    rw [bind_ok] at h
    obtain ⟨ys, hys, h⟩ := h
    cases h
    rcases List.mem_cons.1 hx with rfl | hx
    · exact ⟨y0, by simp, hy0⟩
    · obtain ⟨y, hy, h'⟩ := mapM_mem' hys x hx
      exact ⟨y, by simp [hy], h'⟩

theorem progHasNative_true {p : Prog} : progHasNative p = true ↔ ∃ e ∈ p.cs, hasNative e = true := by
  simp [progHasNative]

/-- the `roots` constraints of `_division_connected` -/
syntax "rootcs_tac" ident ident : tactic
macro_rules
  | `(tactic| rootcs_tac $hrc $hdv) => `(tactic| (
      split at $hrc:ident
      · cases $hrc:ident; exact nativeFree_nil
      · obtain ⟨l, hl, hrc'⟩ := bind_ok.1 $hrc
        cases hrc'
        refine mapM_nfl hl ?_
        intro ri _ y hy
        split at hy
        · cases hy; exact nativeFree_nil
        · obtain ⟨d, hd, hy⟩ := bind_ok.1 hy
          obtain ⟨c, hc, hy⟩ := bind_ok.1 hy
          cases hy
          have := cmpEq_nf hc (getE_nf $hdv hd) (by simp)
          simp [NativeFree, this]))

theorem divconn_native {g : Graph} {dv : List Expr} {k : Nat} {roots : Option (List (Option Nat))}
    {allowEmpty prim : Bool} {base : Nat} {p : Prog} (hdv : NativeFree dv)
    (h : divisionConnected g dv k roots allowEmpty prim base = .ok p) :
    progHasNative p = (prim && decide (0 < k)) := by
  cases prim
  · simp only [divisionConnected, Bool.false_eq_true, if_false] at h
    obtain ⟨rdecl, _, h⟩ := bind_ok.1 h
    obtain ⟨per, hper, h⟩ := bind_ok.1 h
    obtain ⟨perRegion, hpr, h⟩ := bind_ok.1 h
    obtain ⟨rc, hrc, h⟩ := bind_ok.1 h
    cases h
    rw [Bool.false_and, progHasNative_false]
    simp only
    rw [nativeFree_append, nativeFree_append]
    refine ⟨⟨mapM_nfl hper ?_, mapM_nf hpr ?_⟩, ?_⟩
    · intro i _ l hl
      obtain ⟨items, hitems, hl⟩ := bind_ok.1 hl
      obtain ⟨ct, hct, hl⟩ := bind_ok.1 hl
      cases hl
      have hit : ∀ it ∈ items, hasNative it.1 = false ∧ NativeFree it.2 := by
        intro it hit
        obtain ⟨je, _, hje⟩ := mapM_mem hitems it hit
        split at hje
        · obtain ⟨a, ha, hje⟩ := bind_ok.1 hje
          obtain ⟨b, hb, hje⟩ := bind_ok.1 hje
          obtain ⟨deq, hdeq, hje⟩ := bind_ok.1 hje
          obtain ⟨both, hboth, hje⟩ := bind_ok.1 hje
          obtain ⟨c, hc, hje⟩ := bind_ok.1 hje
          cases hje; cases hc
          have := andPy_nf hboth (cmpEq_nf hdeq (getE_nf hdv ha) (getE_nf hdv hb)) (by simp)
          simp [NativeFree, this]
        · obtain ⟨c, hc, hje⟩ := bind_ok.1 hje
          cases hje; cases hc
          simp [NativeFree]
      have hct' := countTrue_nf hct (by
        intro e he
        obtain ⟨it, hit', rfl⟩ := List.mem_map.1 he
        exact (hit it hit').1)
      rw [nativeFree_append]
      refine ⟨?_, by simp [NativeFree, hct']⟩
      intro e he
      obtain ⟨it, hit', he⟩ := List.mem_flatMap.1 he
      exact (hit it hit').2 e he
    · intro i _ y hy
      obtain ⟨items, hitems, hy⟩ := bind_ok.1 hy
      obtain ⟨ct, hct, hy⟩ := bind_ok.1 hy
      cases hy
      have hitems' : NativeFree items := mapM_nf hitems (by
        intro vd hvd y hy
        obtain ⟨c, hc, hy⟩ := bind_ok.1 hy
        exact andPy_nf hy (by simp) (cmpEq_nf hc (hdv _ (List.of_mem_zip hvd).2) (by simp)))
      have := countTrue_nf hct hitems'
      cases allowEmpty <;> simp [this]
    · rootcs_tac hrc hdv
  · simp only [divisionConnected, if_true] at h
    obtain ⟨per, hper, h⟩ := bind_ok.1 h
    obtain ⟨rc, hrc, h⟩ := bind_ok.1 h
    cases h
    rw [Bool.true_and]
    by_cases hk : 0 < k
    · rw [decide_eq_true hk, progHasNative_true]
      obtain ⟨y, hy, hf⟩ := mapM_mem' hper 0 (by simp [hk])
      obtain ⟨eqs, _, hf⟩ := bind_ok.1 hf
      obtain ⟨avc, havc, hf⟩ := bind_ok.1 hf
      obtain ⟨e, he, hn⟩ := progHasNative_true.1 (avc_prim havc)
      have hey : e ∈ y := by
        split at hf
        · obtain ⟨ne, _, hf⟩ := bind_ok.1 hf
          cases hf; simp [he]
        · obtain ⟨ct, _, hf⟩ := bind_ok.1 hf
          obtain ⟨ne, _, hf⟩ := bind_ok.1 hf
          cases hf; simp [he]
      refine ⟨e, ?_, hn⟩
      simp only [List.mem_append, List.mem_flatten]
      exact Or.inl ⟨_, hy, hey⟩
    · have hk0 : k = 0 := by omega
      subst hk0
      have : per = [] := by simpa [pure, Except.pure] using hper.symm
      subst this
      rw [decide_eq_false hk, progHasNative_false]
      simp only [List.flatten_nil, List.nil_append]
      rootcs_tac hrc hdv

/-! ### active_edges_single_cycle / single_path -/

theorem degreeOf_nf {g : Graph} {ie : List Expr} {i : Nat} {d : Expr} (hie : NativeFree ie)
    (h : degreeOf g ie i = .ok d) : hasNative d = false := by
  unfold degreeOf at h
  obtain ⟨l, hl, h⟩ := bind_ok.1 h
  exact countTrue_nf h (mapM_nf hl (fun je _ y hy => getE_nf hie hy))

theorem cycle_native {g : Graph} {ie : List Expr} {prim : Bool} {base : Nat} {r : Prog × List Expr}
    (hie : NativeFree ie) (h : singleCycle g ie prim base = .ok r) : progHasNative r.1 = prim := by
  cases prim
  · simp only [singleCycle, Bool.false_eq_true, if_false] at h
    obtain ⟨rdecl, _, h⟩ := bind_ok.1 h
    obtain ⟨per, hper, h⟩ := bind_ok.1 h
    obtain ⟨ctr, hctr, h⟩ := bind_ok.1 h
    cases h
    rw [progHasNative_false]
    simp only
    rw [nativeFree_append]
    refine ⟨mapM_nfl hper ?_, ?_⟩
    · intro i _ l hl
      obtain ⟨d, hd, hl⟩ := bind_ok.1 hl
      obtain ⟨items, hitems, hl⟩ := bind_ok.1 hl
      obtain ⟨ct, hct, hl⟩ := bind_ok.1 hl
      cases hl
      have hd' := degreeOf_nf hie hd
      have hitems' : NativeFree items := mapM_nf hitems (by
        intro je _ y hy
        obtain ⟨a, ha, hy⟩ := bind_ok.1 hy
        exact andPy_nf hy (getE_nf hie ha) (by simp))
      have hct' := countTrue_nf hct hitems'
      simp [NativeFree, hd', hct']
    · have := countTrue_nf hctr (nativeFree_bvars (fun i => base + 2 * g.n + i) (List.range g.n))
      simp [NativeFree, this]
  · simp only [singleCycle, if_true] at h
    obtain ⟨degs, _, h⟩ := bind_ok.1 h
    obtain ⟨avc, havc, h⟩ := bind_ok.1 h
    cases h
    obtain ⟨e, he, hn⟩ := progHasNative_true.1 (avc_prim havc)
    exact progHasNative_true.2 ⟨e, by simp [he], hn⟩

theorem path_native {g : Graph} {ie : List Expr} {prim : Bool} {base : Nat} {r : Prog × List Expr}
    (h : singlePath g ie prim base = .ok r) : progHasNative r.1 = prim := by
  cases prim
  · simp [singlePath] at h
  · simp only [singlePath, if_true] at h
    obtain ⟨per, _, h⟩ := bind_ok.1 h
    obtain ⟨ctEnd, _, h⟩ := bind_ok.1 h
    obtain ⟨anyEdge, _, h⟩ := bind_ok.1 h
    obtain ⟨avc, havc, h⟩ := bind_ok.1 h
    cases h
    obtain ⟨e, he, hn⟩ := progHasNative_true.1 (avc_prim havc)
    exact progHasNative_true.2 ⟨e, by simp [he], hn⟩

/-! ### division_connected_variable_groups_with_borders -/

theorem nativeFree_map {α : Type} (f : α → Expr) (l : List α) (h : ∀ x, hasNative (f x) = false) :
    NativeFree (l.map f) := by
  intro e he
  obtain ⟨x, _, rfl⟩ := List.mem_map.1 he
  exact h x

theorem foldl_add_nf : ∀ (r : List Expr) (acc : Expr), hasNative acc = false → NativeFree r →
    hasNative (r.foldl (fun acc x => Expr.node .add [acc, x]) acc) = false
  | [], _, h, _ => h
  | x :: r, acc, h, hr => by
    rw [List.foldl_cons]
    exact foldl_add_nf r _ (by simp [h, (nativeFree_cons.1 hr).1]) (nativeFree_cons.1 hr).2

theorem sumPlusOne_nf {terms : List Expr} (h : NativeFree terms) :
    hasNative (match (generalizing := false) terms with
      | [] => Expr.litI 1
      | t :: r => Expr.node .add [r.foldl (fun acc x => Expr.node .add [acc, x]) (.node .add [.litI 0, t]), .litI 1])
      = false := by
  cases terms with
  | nil => rfl
  | cons t r =>
    have := foldl_add_nf r (.node .add [.litI 0, t]) (by simp [(nativeFree_cons.1 h).1]) (nativeFree_cons.1 h).2
    simp [this]

theorem vgroups_nf {g : Graph} {gs : List (Option Expr)} {base : Nat} {r : Prog × List Expr}
    (hgs : ∀ e, some e ∈ gs → hasNative e = false)
    (h : variableGroups g (.perVertex gs) base = .ok r) : NativeFree r.1.cs ∧ NativeFree r.2 := by
  simp only [variableGroups] at h
  obtain ⟨d1, _, h⟩ := bind_ok.1 h
  obtain ⟨per, hper, h⟩ := bind_ok.1 h
  obtain ⟨d2, _, h⟩ := bind_ok.1 h
  obtain ⟨per2, hper2, h⟩ := bind_ok.1 h
  cases h
  refine ⟨?_, nativeFree_map _ _ (fun _ => rfl)⟩
  simp only [nativeFree_append]
  refine ⟨⟨⟨⟨⟨⟨?_, mapM_nfl hper ?_⟩, ?_⟩, ?_⟩, ?_⟩, mapM_nfl hper2 ?_⟩, ?_⟩
  · exact nativeFree_map _ _ (fun _ => by simp)
  · intro i _ l hl
    obtain ⟨ct, hct, hl⟩ := bind_ok.1 hl
    cases hl
    have := countTrue_nf hct (nativeFree_map _ _ (fun _ => by simp))
    simp only [nativeFree_append]
    exact ⟨⟨by simp [NativeFree], nativeFree_map _ _ (fun _ => by simp)⟩, by simp [NativeFree, this]⟩
  · exact nativeFree_map _ _ (fun _ => by simp)
  · exact nativeFree_map _ _ (fun _ => by simp)
  · exact nativeFree_map _ _ (fun _ => by simp)
  · intro i _ l hl
    obtain ⟨c, hc, hl⟩ := bind_ok.1 hl
    have hc' := cmpEq_nf hc (sumPlusOne_nf (nativeFree_map _ _ (fun _ => by simp))) (by simp)
    split at hl
    · rename_i x hx
      obtain ⟨s, hs, hl⟩ := bind_ok.1 hl
      cases hs
      cases x with
      | none => cases hl; simp [NativeFree, hc']
      | some s' =>
        simp only at hl
        split at hl
        · cases hl
          have : hasNative s' = false := hgs s' (List.mem_of_getElem? hx)
          simp [NativeFree, hc', this]
        · cases hl
    · obtain ⟨s, hs, hl⟩ := bind_ok.1 hl
      cases hs
  · exact nativeFree_map _ _ (fun _ => by simp)

theorem vgborders_native {g : Graph} {gs : List (Option Expr)} {border : List Expr} {prim : Bool} {base : Nat}
    {p : Prog} (hgs : ∀ e, some e ∈ gs → hasNative e = false) (hb : NativeFree border)
    (h : variableGroupsWithBorders g gs border prim base = .ok p) : progHasNative p = prim := by
  unfold variableGroupsWithBorders at h
  split at h
  · cases h
  split at h
  · cases h
  cases prim
  · simp only [Bool.false_eq_true, if_false] at h
    obtain ⟨⟨p0, gid⟩, hvg, h⟩ := bind_ok.1 h
    obtain ⟨cs, hcs, h⟩ := bind_ok.1 h
    cases h
    obtain ⟨h1, h2⟩ := vgroups_nf hgs hvg
    rw [progHasNative_false]
    show NativeFree (p0.cs ++ cs)
    rw [nativeFree_append]
    refine ⟨h1, mapM_nf hcs ?_⟩
    intro uv _ y hy
    obtain ⟨a, ha, hy⟩ := bind_ok.1 hy
    obtain ⟨b, hb', hy⟩ := bind_ok.1 hy
    obtain ⟨c, hc, hy⟩ := bind_ok.1 hy
    exact iffPy_nf hy (getE_nf hb hc) (by simp [getE_nf h2 ha, getE_nf h2 hb'])
  · simp only [if_true] at h
    cases h
    simp [progHasNative]

end Cspuz.Proofs.C20
