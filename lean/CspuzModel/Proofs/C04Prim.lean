/-
  C04, native-primitive layer: the reference semantics `avcSem` of `graph-active-vertices-connected`
  is connectivity of the active set; the primitive encoding is exact; the grid graph is the
  4-neighbour grid.
-/
import Mathlib.Combinatorics.SimpleGraph.Acyclic
import Mathlib.Logic.Function.Iterate
import CspuzModel.Model.Graph
import CspuzModel.Spec.GraphSpec
import CspuzModel.Spec.Sat
import CspuzModel.Proofs.EvalLemmas
namespace Cspuz.Proofs.C04Prim
open Cspuz Cspuz.Spec Cspuz.Proofs

/-! ### Part 3: the grid graph -/

theorem exists_joins_iff_mem (g : Graph) (a b : Nat) :
    (∃ k, Joins g k a b) ↔ ((a, b) ∈ g.edges ∨ (b, a) ∈ g.edges) := by
  simp only [Joins, List.mem_iff_getElem?]
  constructor
  · rintro ⟨k, h | h⟩
    · exact Or.inl ⟨k, h⟩
    · exact Or.inr ⟨k, h⟩
  · rintro (⟨k, h⟩ | ⟨k, h⟩)
    · exact ⟨k, Or.inl h⟩
    · exact ⟨k, Or.inr h⟩

theorem mem_grid_edges (h w a b : Nat) : (a, b) ∈ (Graph.grid h w).edges ↔
    ∃ y, y < h ∧ ∃ x, x < w ∧ ((x + 1 < w ∧ a = y * w + x ∧ b = y * w + (x + 1)) ∨
      (y + 1 < h ∧ a = y * w + x ∧ b = (y + 1) * w + x)) := by
  simp only [Graph.grid, List.mem_flatMap, List.mem_range, List.mem_append]
  constructor
  · rintro ⟨y, hy, x, hx, h | h⟩
    · split at h
      · simp only [List.mem_singleton, Prod.mk.injEq] at h
        exact ⟨y, hy, x, hx, Or.inl ⟨by assumption, h.1, h.2⟩⟩
      · simp at h
    · split at h
      · simp only [List.mem_singleton, Prod.mk.injEq] at h
        exact ⟨y, hy, x, hx, Or.inr ⟨by assumption, h.1, h.2⟩⟩
      · simp at h
  · rintro ⟨y, hy, x, hx, ⟨h1, h2, h3⟩ | ⟨h1, h2, h3⟩⟩
    · exact ⟨y, hy, x, hx, Or.inl (by simp [h1, h2, h3])⟩
    · exact ⟨y, hy, x, hx, Or.inr (by simp [h1, h2, h3])⟩

theorem grid_wf (h w : Nat) : (Graph.grid h w).wf = true := by
  simp only [Graph.wf, List.all_eq_true, Bool.and_eq_true, decide_eq_true_eq]
  rintro ⟨a, b⟩ hab
  rw [mem_grid_edges] at hab
  obtain ⟨y, hy, x, hx, ⟨h1, h2, h3⟩ | ⟨h1, h2, h3⟩⟩ := hab
  · subst h2 h3
    have : y * w + w ≤ h * w := by
      have := Nat.mul_le_mul_right w (show y + 1 ≤ h by omega)
      rw [Nat.add_mul] at this; omega
    simp only [Graph.grid]; omega
  · subst h2 h3
    have : (y + 1) * w + w ≤ h * w := by
      have := Nat.mul_le_mul_right w (show y + 1 + 1 ≤ h by omega)
      rw [Nat.add_mul (y+1)] at this; omega
    have : y * w ≤ (y + 1) * w := Nat.mul_le_mul_right w (by omega)
    simp only [Graph.grid]; omega

theorem grid_adj : ∀ (h w : Nat) (u v : Fin (Graph.grid h w).n),
    (toSimple (Graph.grid h w)).Adj u v ↔
      ((u.1 / w = v.1 / w ∧ (u.1 % w + 1 = v.1 % w ∨ v.1 % w + 1 = u.1 % w)) ∨
       (u.1 % w = v.1 % w ∧ (u.1 / w + 1 = v.1 / w ∨ v.1 / w + 1 = u.1 / w))) := by
  rintro h w ⟨u, hu⟩ ⟨v, hv⟩
  have hn : (Graph.grid h w).n = h * w := rfl
  rw [hn] at hu hv
  have hw : 0 < w := by
    rcases Nat.eq_zero_or_pos w with h0 | h0
    · subst h0; simp at hu
    · exact h0
  simp only [toSimple, exists_joins_iff_mem, mem_grid_edges, ne_eq, Fin.mk.injEq]
  have key : ∀ y x, x < w → (y * w + x) / w = y ∧ (y * w + x) % w = x := by
    intro y x hx
    rw [Nat.mul_comm y w]
    exact ⟨by rw [Nat.mul_add_div hw, Nat.div_eq_of_lt hx, Nat.add_zero],
           by rw [Nat.mul_add_mod, Nat.mod_eq_of_lt hx]⟩
  have hud := Nat.div_add_mod u w
  have hvd := Nat.div_add_mod v w
  have hum := Nat.mod_lt u hw
  have hvm := Nat.mod_lt v hw
  have huq : u / w < h := Nat.div_lt_of_lt_mul (by rw [Nat.mul_comm]; exact hu)
  have hvq : v / w < h := Nat.div_lt_of_lt_mul (by rw [Nat.mul_comm]; exact hv)
  rw [Nat.mul_comm w (u / w)] at hud
  rw [Nat.mul_comm w (v / w)] at hvd
  constructor
  · rintro ⟨hne, ⟨y, hy, x, hx, ⟨h1, h2, h3⟩ | ⟨h1, h2, h3⟩⟩ | ⟨y, hy, x, hx, ⟨h1, h2, h3⟩ | ⟨h1, h2, h3⟩⟩⟩
    · obtain ⟨a1, a2⟩ := key y x hx
      obtain ⟨b1, b2⟩ := key y (x + 1) h1
      rw [← h2] at a1 a2; rw [← h3] at b1 b2
      omega
    · obtain ⟨a1, a2⟩ := key y x hx
      obtain ⟨b1, b2⟩ := key (y + 1) x hx
      rw [← h2] at a1 a2; rw [← h3] at b1 b2
      omega
    · obtain ⟨a1, a2⟩ := key y x hx
      obtain ⟨b1, b2⟩ := key y (x + 1) h1
      rw [← h2] at a1 a2; rw [← h3] at b1 b2
      omega
    · obtain ⟨a1, a2⟩ := key y x hx
      obtain ⟨b1, b2⟩ := key (y + 1) x hx
      rw [← h2] at a1 a2; rw [← h3] at b1 b2
      omega
  · rintro (⟨h1, h2 | h2⟩ | ⟨h1, h2 | h2⟩)
    · refine ⟨by intro e; subst e; omega, Or.inl ⟨u / w, huq, u % w, hum, Or.inl ⟨by omega, hud.symm, ?_⟩⟩⟩
      rw [h1, h2]; exact hvd.symm
    · refine ⟨by intro e; subst e; omega, Or.inr ⟨v / w, hvq, v % w, hvm, Or.inl ⟨by omega, hvd.symm, ?_⟩⟩⟩
      rw [← h1, h2]; exact hud.symm
    · refine ⟨by intro e; subst e; omega, Or.inl ⟨u / w, huq, u % w, hum, Or.inr ⟨by omega, hud.symm, ?_⟩⟩⟩
      rw [h1, h2]; exact hvd.symm
    · refine ⟨by intro e; subst e; omega, Or.inr ⟨v / w, hvq, v % w, hvm, Or.inr ⟨by omega, hvd.symm, ?_⟩⟩⟩
      rw [← h1, h2]; exact hud.symm

/-! ### Part 1: label propagation computes connected components -/

/-- The simple graph on `ℕ` whose edges are the (non-loop) pairs of `es`. -/
def edgeGraph (es : List (Nat × Nat)) : SimpleGraph Nat where
  Adj a b := a ≠ b ∧ ((a, b) ∈ es ∨ (b, a) ∈ es)
  symm := ⟨fun _ _ h => ⟨h.1.symm, h.2.symm⟩⟩
  loopless := ⟨fun _ h => h.1 rfl⟩

/-- Function-level view of one edge step of `sweep`. -/
def stepF (f : Nat → Nat) (e : Nat × Nat) : Nat → Nat :=
  fun v => if v = e.1 ∨ v = e.2 then min (f e.1) (f e.2) else f v

def sweepF (es : List (Nat × Nat)) (f : Nat → Nat) : Nat → Nat := es.foldl stepF f

theorem stepF_le (f : Nat → Nat) (e : Nat × Nat) (v : Nat) : stepF f e v ≤ f v := by
  unfold stepF
  split
  · rename_i h
    rcases h with h | h <;> subst h <;> omega
  · exact Nat.le_refl _

theorem sweepF_le (es : List (Nat × Nat)) (f : Nat → Nat) (v : Nat) : sweepF es f v ≤ f v := by
  induction es generalizing f with
  | nil => exact Nat.le_refl _
  | cons e r ih =>
    exact Nat.le_trans (ih (stepF f e)) (stepF_le f e v)

theorem sweepF_edge (es : List (Nat × Nat)) (f : Nat → Nat) (a b : Nat) (h : (a, b) ∈ es) :
    sweepF es f a ≤ f b ∧ sweepF es f b ≤ f a := by
  induction es generalizing f with
  | nil => simp at h
  | cons e r ih =>
    rcases List.mem_cons.1 h with h | h
    · subst h
      have h1 := sweepF_le r (stepF f (a, b)) a
      have h2 := sweepF_le r (stepF f (a, b)) b
      have h3 : stepF f (a, b) a = min (f a) (f b) := by simp [stepF]
      have h4 : stepF f (a, b) b = min (f a) (f b) := by simp [stepF]
      show sweepF r (stepF f (a, b)) a ≤ f b ∧ sweepF r (stepF f (a, b)) b ≤ f a
      omega
    · have := ih (stepF f e) h
      have h1 := stepF_le f e a
      have h2 := stepF_le f e b
      show sweepF r (stepF f e) a ≤ f b ∧ sweepF r (stepF f e) b ≤ f a
      omega

theorem sweepF_adj (es : List (Nat × Nat)) (f : Nat → Nat) (a b : Nat) (h : (edgeGraph es).Adj a b) :
    sweepF es f a ≤ f b := by
  rcases h.2 with h | h
  · exact (sweepF_edge es f a b h).1
  · exact (sweepF_edge es f b a h).2

/-- Progress: after `k` sweeps the label of `v` is at most every vertex within distance `k`. -/
theorem iterate_le_of_walk (es : List (Nat × Nat)) (f0 : Nat → Nat) (hf0 : ∀ v, f0 v ≤ v) (k : Nat) :
    ∀ (v u : Nat) (p : (edgeGraph es).Walk v u), p.length ≤ k → (sweepF es)^[k] f0 v ≤ u := by
  induction k with
  | zero =>
    intro v u p hp
    cases p with
    | nil => exact hf0 v
    | cons h q => simp at hp
  | succ k ih =>
    intro v u p hp
    rw [Function.iterate_succ_apply']
    cases p with
    | nil =>
      exact Nat.le_trans (sweepF_le _ _ _) (ih v v .nil (by simp))
    | cons h q =>
      rename_i w
      simp only [SimpleGraph.Walk.length_cons] at hp
      exact Nat.le_trans (sweepF_adj es _ v w h) (ih w u q (by omega))

/-- Soundness: labels stay inside the component. -/
theorem stepF_reach (es : List (Nat × Nat)) (f : Nat → Nat) (n : Nat) (e : Nat × Nat) (he : e ∈ es)
    (hb : e.1 < n ∧ e.2 < n)
    (hf : ∀ v, v < n → (edgeGraph es).Reachable v (f v)) :
    ∀ v, v < n → (edgeGraph es).Reachable v (stepF f e v) := by
  intro v hv
  have h12 : (edgeGraph es).Reachable e.1 e.2 := by
    by_cases h : e.1 = e.2
    · rw [h]
    · exact SimpleGraph.Adj.reachable ⟨h, Or.inl he⟩
  unfold stepF
  split
  · rename_i h
    rcases Nat.le_total (f e.1) (f e.2) with hm | hm
    · rw [Nat.min_eq_left hm]
      rcases h with h | h
      · rw [h]; exact hf _ hb.1
      · rw [h]; exact h12.symm.trans (hf _ hb.1)
    · rw [Nat.min_eq_right hm]
      rcases h with h | h
      · rw [h]; exact h12.trans (hf _ hb.2)
      · rw [h]; exact hf _ hb.2
  · exact hf v hv

theorem foldl_stepF_reach (es : List (Nat × Nat)) (n : Nat) (hes : ∀ e ∈ es, e.1 < n ∧ e.2 < n)
    (l : List (Nat × Nat)) (hl : ∀ e ∈ l, e ∈ es) (f : Nat → Nat)
    (hf : ∀ v, v < n → (edgeGraph es).Reachable v (f v)) :
    ∀ v, v < n → (edgeGraph es).Reachable v (l.foldl stepF f v) := by
  induction l generalizing f with
  | nil => exact hf
  | cons e r ih =>
    have he := hl e (List.mem_cons_self)
    exact ih (fun x hx => hl x (List.mem_cons_of_mem _ hx)) (stepF f e)
      (stepF_reach es f n e he (hes e he) hf)

theorem iterate_reach (es : List (Nat × Nat)) (n : Nat) (hes : ∀ e ∈ es, e.1 < n ∧ e.2 < n)
    (f : Nat → Nat) (hf : ∀ v, v < n → (edgeGraph es).Reachable v (f v)) (k : Nat) :
    ∀ v, v < n → (edgeGraph es).Reachable v ((sweepF es)^[k] f v) := by
  induction k with
  | zero => exact hf
  | succ k ih =>
    rw [Function.iterate_succ_apply']
    exact foldl_stepF_reach es n hes es (fun _ h => h) _ ih

theorem adj_lt (es : List (Nat × Nat)) (n : Nat) (hes : ∀ e ∈ es, e.1 < n ∧ e.2 < n) {a b : Nat}
    (h : (edgeGraph es).Adj a b) : a < n ∧ b < n := by
  rcases h.2 with h | h
  · exact hes _ h
  · exact (hes _ h).symm

theorem walk_support_lt (es : List (Nat × Nat)) (n : Nat) (hes : ∀ e ∈ es, e.1 < n ∧ e.2 < n)
    {v u : Nat} (p : (edgeGraph es).Walk v u) (hv : v < n) : ∀ x ∈ p.support, x < n := by
  induction p with
  | nil =>
    intro x hx
    rw [SimpleGraph.Walk.support_nil, List.mem_singleton] at hx
    rw [hx]; exact hv
  | cons h q ih =>
    intro x hx
    rw [SimpleGraph.Walk.support_cons, List.mem_cons] at hx
    rcases hx with hx | hx
    · rw [hx]; exact hv
    · exact ih (adj_lt es n hes h).2 x hx

theorem reach_bound (es : List (Nat × Nat)) (n : Nat) (hes : ∀ e ∈ es, e.1 < n ∧ e.2 < n)
    {v u : Nat} (h : (edgeGraph es).Reachable v u) (hv : v < n) :
    ∃ p : (edgeGraph es).Walk v u, p.length ≤ n := by
  obtain ⟨p, hp⟩ := h.exists_isPath
  refine ⟨p, ?_⟩
  have := List.Nodup.length_le_of_subset hp.support_nodup (l₂ := List.range n)
    (fun x hx => List.mem_range.2 (walk_support_lt es n hes p hv x hx))
  rw [SimpleGraph.Walk.length_support, List.length_range] at this
  omega

/-- After `n` sweeps two vertices carry the same label iff they are connected. -/
theorem iterate_eq_iff_reach (es : List (Nat × Nat)) (n : Nat) (hes : ∀ e ∈ es, e.1 < n ∧ e.2 < n)
    (f0 : Nat → Nat) (hf0 : ∀ v, f0 v ≤ v) (hr0 : ∀ v, v < n → (edgeGraph es).Reachable v (f0 v))
    {v u : Nat} (hv : v < n) (hu : u < n) :
    ((sweepF es)^[n] f0 v = (sweepF es)^[n] f0 u ↔ (edgeGraph es).Reachable v u) := by
  have hR := iterate_reach es n hes f0 hr0 n
  have hle : ∀ v u, v < n → (edgeGraph es).Reachable v u → (sweepF es)^[n] f0 v ≤ u := by
    intro v u hv h
    obtain ⟨p, hp⟩ := reach_bound es n hes h hv
    exact iterate_le_of_walk es f0 hf0 n v u p hp
  constructor
  · intro h
    refine (hR v hv).trans ?_
    rw [h]
    exact (hR u hu).symm
  · intro h
    exact Nat.le_antisymm (hle v _ hv (h.trans (hR u hu))) (hle u _ hu (h.symm.trans (hR v hv)))

/-! list level ↔ function level -/

theorem getD_set_set (lab : List Nat) (a b m v : Nat) (ha : a < lab.length) (hb : b < lab.length) :
    ((lab.set a m).set b m).getD v 0 = if v = a ∨ v = b then m else lab.getD v 0 := by
  simp only [List.getD_eq_getElem?_getD, List.getElem?_set, List.length_set]
  grind

theorem sweep_spec (es : List (Nat × Nat)) (lab : List Nat)
    (hes : ∀ e ∈ es, e.1 < lab.length ∧ e.2 < lab.length) :
    (sweep es lab).length = lab.length ∧
      (fun v => (sweep es lab).getD v 0) = sweepF es (fun v => lab.getD v 0) := by
  induction es generalizing lab with
  | nil => exact ⟨rfl, rfl⟩
  | cons e r ih =>
    have he := hes e List.mem_cons_self
    let m := min (lab.getD e.1 0) (lab.getD e.2 0)
    have hlen : ((lab.set e.1 m).set e.2 m).length = lab.length := by simp
    have hstep : (fun v => ((lab.set e.1 m).set e.2 m).getD v 0) = stepF (fun v => lab.getD v 0) e := by
      funext v
      rw [getD_set_set lab e.1 e.2 m v he.1 he.2]
      rfl
    have := ih ((lab.set e.1 m).set e.2 m) (by
      intro x hx; rw [hlen]; exact hes x (List.mem_cons_of_mem _ hx))
    rw [hlen, hstep] at this
    exact this

theorem foldl_const_eq_iterate {α β : Type} (S : α → α) (l : List β) (a : α) :
    l.foldl (fun x _ => S x) a = S^[l.length] a := by
  induction l generalizing a with
  | nil => rfl
  | cons _ r ih => rw [List.foldl_cons, ih, List.length_cons, Function.iterate_succ_apply]

theorem iterate_sweep_spec (es : List (Nat × Nat)) (k : Nat) (lab : List Nat)
    (hes : ∀ e ∈ es, e.1 < lab.length ∧ e.2 < lab.length) :
    ((sweep es)^[k] lab).length = lab.length ∧
      (fun v => ((sweep es)^[k] lab).getD v 0) = (sweepF es)^[k] (fun v => lab.getD v 0) := by
  induction k with
  | zero => exact ⟨rfl, rfl⟩
  | succ k ih =>
    rw [Function.iterate_succ_apply', Function.iterate_succ_apply']
    have h := sweep_spec es ((sweep es)^[k] lab) (by rw [ih.1]; exact hes)
    rw [ih.2, ih.1] at h
    exact h

/-- `components n es` assigns equal labels exactly to connected vertices. -/
theorem components_spec (es : List (Nat × Nat)) (n : Nat) (hes : ∀ e ∈ es, e.1 < n ∧ e.2 < n)
    {v u : Nat} (hv : v < n) (hu : u < n) :
    ((components n es).getD v 0 = (components n es).getD u 0 ↔ (edgeGraph es).Reachable v u) := by
  have h0 : ∀ v, (List.range n).getD v 0 ≤ v := by
    intro v
    simp only [List.getD_eq_getElem?_getD]
    grind
  have h1 : ∀ v, v < n → (List.range n).getD v 0 = v := by
    intro v hv
    simp [List.getD_eq_getElem?_getD, hv]
  have hc : components n es = (sweep es)^[n] (List.range n) := by
    unfold components
    rw [foldl_const_eq_iterate, List.length_range]
  have hs := (iterate_sweep_spec es n (List.range n) (by simpa using hes)).2
  have := iterate_eq_iff_reach es n hes (fun v => (List.range n).getD v 0) h0
    (fun v hv => by rw [h1 v hv]) hv hu
  rw [← hs] at this
  rw [hc]
  exact this

theorem allEq_iff (l : List Nat) :
    (match l with | [] => true | a :: r => r.all (· == a)) = true ↔ ∀ x ∈ l, ∀ y ∈ l, x = y := by
  cases l with
  | nil => simp
  | cons a r =>
    simp only [List.all_eq_true, beq_iff_eq, List.mem_cons]
    constructor
    · intro h x hx y hy
      have hx' : x = a := by rcases hx with hx | hx; exact hx; exact h x hx
      have hy' : y = a := by rcases hy with hy | hy; exact hy; exact h y hy
      rw [hx', hy']
    · intro h x hx
      exact h x (Or.inr hx) a (Or.inl rfl)

theorem getD_map_range (n : Nat) (f : Nat → Bool) (v : Nat) :
    ((List.range n).map f).getD v false = (decide (v < n) && f v) := by
  simp only [List.getD_eq_getElem?_getD, List.getElem?_map]
  by_cases h : v < n <;> simp [h]

/-- the edges that `avcSem` keeps. -/
def usable (g : Graph) (act : Nat → Bool) : List (Nat × Nat) :=
  g.edges.filter fun e => ((List.range g.n).map act).getD e.1 false &&
    ((List.range g.n).map act).getD e.2 false && e.1 < g.n && e.2 < g.n

theorem mem_usable (g : Graph) (act : Nat → Bool) (a b : Nat) :
    (a, b) ∈ usable g act ↔ (a, b) ∈ g.edges ∧ a < g.n ∧ b < g.n ∧ act a = true ∧ act b = true := by
  simp only [usable, List.mem_filter, getD_map_range, Bool.and_eq_true, decide_eq_true_eq]
  constructor
  · rintro ⟨h, ⟨⟨⟨-, h1⟩, -, h2⟩, h3⟩, h4⟩
    exact ⟨h, h3, h4, h1, h2⟩
  · rintro ⟨h, h3, h4, h1, h2⟩
    exact ⟨h, ⟨⟨⟨h3, h1⟩, h4, h2⟩, h3⟩, h4⟩

theorem avcSem_iff_labels (g : Graph) (act : Nat → Bool) :
    avcSem g.n ((List.range g.n).map act) g.edges = true ↔
      ∀ v, v < g.n → act v = true → ∀ u, u < g.n → act u = true →
        (components g.n (usable g act)).getD v 0 = (components g.n (usable g act)).getD u 0 := by
  unfold avcSem
  simp only []
  rw [← usable]
  refine Iff.trans (allEq_iff _) ?_
  simp only [List.mem_filterMap, List.mem_range, getD_map_range]
  constructor
  · intro h v hv av u hu au
    exact h _ ⟨v, hv, by simp [hv, av]⟩ _ ⟨u, hu, by simp [hu, au]⟩
  · rintro h x ⟨v, hv, hx⟩ y ⟨u, hu, hy⟩
    simp only [hv, hu, decide_true, Bool.true_and] at hx hy
    split at hx
    · split at hy
      · rename_i av au
        simp only [Option.some.injEq] at hx hy
        rw [← hx, ← hy]
        exact h v hv av u hu au
      · simp at hy
    · simp at hx

theorem usable_lt (g : Graph) (act : Nat → Bool) : ∀ e ∈ usable g act, e.1 < g.n ∧ e.2 < g.n := by
  rintro ⟨a, b⟩ h
  have := (mem_usable g act a b).1 h
  exact ⟨this.2.1, this.2.2.1⟩

theorem adj_usable (g : Graph) (act : Nat → Bool) {a b : Nat}
    (h : (edgeGraph (usable g act)).Adj a b) :
    a ≠ b ∧ a < g.n ∧ b < g.n ∧ act a = true ∧ act b = true ∧
      ((a, b) ∈ g.edges ∨ (b, a) ∈ g.edges) := by
  obtain ⟨hne, h | h⟩ := h
  · obtain ⟨h1, h2, h3, h4, h5⟩ := (mem_usable g act a b).1 h
    exact ⟨hne, h2, h3, h4, h5, Or.inl h1⟩
  · obtain ⟨h1, h2, h3, h4, h5⟩ := (mem_usable g act b a).1 h
    exact ⟨hne, h3, h2, h5, h4, Or.inr h1⟩

/-- the induced graph on the active vertices. -/
abbrev activeGraph (g : Graph) (act : Nat → Bool) : SimpleGraph (activeSet g act) :=
  (toSimple g).induce (activeSet g act)

theorem reach_to_induce (g : Graph) (act : Nat → Bool) {v u : Nat}
    (h : (edgeGraph (usable g act)).Reachable v u) (hv : v < g.n) (av : act v = true) :
    ∃ (hu : u < g.n) (au : act u = true),
      (activeGraph g act).Reachable ⟨⟨v, hv⟩, av⟩ ⟨⟨u, hu⟩, au⟩ := by
  obtain ⟨p⟩ := h
  induction p with
  | nil => exact ⟨hv, av, SimpleGraph.Reachable.refl _⟩
  | cons hadj q ih =>
    rename_i a b c
    obtain ⟨hne, _, hb, _, ab, hmem⟩ := adj_usable g act hadj
    obtain ⟨hu, au, r⟩ := ih hb ab
    refine ⟨hu, au, SimpleGraph.Reachable.trans (SimpleGraph.Adj.reachable ?_) r⟩
    show (toSimple g).Adj ⟨a, hv⟩ ⟨b, hb⟩
    exact ⟨fun e => hne (Fin.mk.inj_iff.1 e), (exists_joins_iff_mem g a b).2 hmem⟩

/-- forgetting the proofs is a graph homomorphism into the graph of usable edges. -/
def homToUsable (g : Graph) (act : Nat → Bool) :
    activeGraph g act →g edgeGraph (usable g act) where
  toFun x := x.1.1
  map_rel' := by
    rintro ⟨⟨a, ha⟩, aa⟩ ⟨⟨b, hb⟩, ab⟩ h
    have h' : (toSimple g).Adj ⟨a, ha⟩ ⟨b, hb⟩ := h
    obtain ⟨hne, hj⟩ := h'
    have hm := (exists_joins_iff_mem g a b).1 hj
    refine ⟨fun e => hne (Fin.mk.inj_iff.2 e), ?_⟩
    rcases hm with hm | hm
    · exact Or.inl ((mem_usable g act a b).2 ⟨hm, ha, hb, aa, ab⟩)
    · exact Or.inr ((mem_usable g act b a).2 ⟨hm, hb, ha, ab, aa⟩)

/-- The reference semantics of the native operator is connectivity of the active set. -/
theorem avcSem_iff (g : Graph) (act : Nat → Bool) (_hwf : g.wf = true) :
    avcSem g.n ((List.range g.n).map act) g.edges = true ↔ ActiveConnected g act := by
  rw [avcSem_iff_labels]
  unfold ActiveConnected
  constructor
  · rintro h ⟨⟨v, hv⟩, av⟩ ⟨⟨u, hu⟩, au⟩
    have hr := (components_spec _ g.n (usable_lt g act) hv hu).1 (h v hv av u hu au)
    obtain ⟨_, _, r⟩ := reach_to_induce g act hr hv av
    exact r
  · intro h v hv av u hu au
    rw [components_spec _ g.n (usable_lt g act) hv hu]
    exact (h ⟨⟨v, hv⟩, av⟩ ⟨⟨u, hu⟩, au⟩).map (homToUsable g act)

/-! ### Part 2: the primitive encoding is exact -/

/-- the integer operands that `edgeLits` evaluates to. -/
def intsOf (es : List (Nat × Nat)) : List Int := es.flatMap fun e => [(e.1 : Int), (e.2 : Int)]

theorem allBools_map (l : List Bool) : allBools (l.map fun b => some (.b b)) = some l := by
  induction l with
  | nil => rfl
  | cons b r ih => simp [allBools, ih]

theorem allInts_map (l : List Int) : allInts (l.map fun i => some (.i i)) = some l := by
  induction l with
  | nil => rfl
  | cons b r ih => simp [allInts, ih]

theorem pairUp_intsOf (es : List (Nat × Nat)) : pairUp (intsOf es) = es := by
  induction es with
  | nil => rfl
  | cons e r ih =>
    have : intsOf (e :: r) = (e.1 : Int) :: (e.2 : Int) :: intsOf r := by simp [intsOf]
    rw [this, pairUp, ih]
    simp

theorem length_intsOf (es : List (Nat × Nat)) : (intsOf es).length = 2 * es.length := by
  induction es with
  | nil => rfl
  | cons e r ih =>
    have : intsOf (e :: r) = (e.1 : Int) :: (e.2 : Int) :: intsOf r := by simp [intsOf]
    rw [this, List.length_cons, List.length_cons, ih, List.length_cons]; omega

theorem map_eval_edgeLits (σ : Asg) (es : List (Nat × Nat)) :
    (edgeLits es).map (eval σ) = (intsOf es).map fun i => some (.i i) := by
  induction es with
  | nil => rfl
  | cons e r ih =>
    have h1 : intsOf (e :: r) = (e.1 : Int) :: (e.2 : Int) :: intsOf r := by simp [intsOf]
    have h2 : edgeLits (e :: r) = .litI e.1 :: .litI e.2 :: edgeLits r := by simp [edgeLits]
    rw [h1, h2, List.map_cons, List.map_cons, ih]
    simp

theorem evalAVC_lits (n : Nat) (act : List Bool) (es : List (Nat × Nat)) (hact : act.length = n) :
    evalAVC (some (.i n) :: some (.i es.length) ::
      (act.map (fun b => some (.b b)) ++ (intsOf es).map (fun i => some (.i i)))) =
      some (.b (avcSem n act es)) := by
  have hlen : (act.map (fun b => some (Val.b b)) ++ (intsOf es).map (fun i => some (Val.i i))).length
      = n + 2 * es.length := by
    simp [length_intsOf, hact]
  have hl : (act.map (fun b => some (Val.b b))).length = n := by simp [hact]
  simp only [evalAVC, Int.toNat_natCast]
  rw [if_neg (by simp [hlen]), List.take_left' hl, List.drop_left' hl, allBools_map, allInts_map]
  simp only [pairUp_intsOf]

theorem map_eval_boolArgs {base : Nat} {σ σ' : Asg} {ia : List Expr} (hl : BoolArgs base ia)
    (h : AgreeBelow base σ σ') :
    ia.map (eval σ') = ((List.range ia.length).map (truthAt σ ia)).map fun b => some (.b b) := by
  apply List.ext_getElem
  · simp
  · intro i h1 h2
    simp only [List.length_map] at h1
    simp [eval_boolArg hl h h1]

theorem eval_avcNode {base : Nat} {σ σ' : Asg} (g : Graph) {ia : List Expr} (hlen : ia.length = g.n)
    (hl : BoolArgs base ia) (h : AgreeBelow base σ σ') :
    eval σ' (.node .graphAVC ([.litI g.n, .litI g.edges.length] ++ ia ++ edgeLits g.edges)) =
      some (.b (avcSem g.n ((List.range g.n).map (truthAt σ ia)) g.edges)) := by
  rw [eval_node]
  simp only [List.map_append, List.map_cons, eval_litI, evalOp, List.cons_append,
    List.nil_append]
  rw [map_eval_boolArgs hl h, map_eval_edgeLits, hlen]
  exact evalAVC_lits g.n _ g.edges (by simp)

theorem prim_exact : ∀ (g : Graph) (ia : List Expr) (base : Nat) (p : Prog) (σ : Asg),
    g.wf = true → ia.length = g.n → BoolArgs base ia →
    activeVerticesConnected g ia base false true = .ok p →
    (Realizable base p σ ↔ ActiveConnected g (truthAt σ ia)) := by
  intro g ia base p σ hwf hlen hl hp
  simp only [activeVerticesConnected, Bool.not_false, Bool.and_self, if_true, hlen, ne_eq,
    not_true_eq_false, if_false, Except.ok.injEq] at hp
  subst hp
  rw [← avcSem_iff g (truthAt σ ia) hwf]
  constructor
  · rintro ⟨σ', hag, -, hcs⟩
    have := hcs _ (List.mem_singleton.2 rfl)
    rw [eval_avcNode g hlen hl hag] at this
    simpa using this
  · intro h
    refine ⟨σ, AgreeBelow.refl base σ, ?_, ?_⟩
    · intro k lo hi hk
      simp at hk
    · intro c hc
      rw [List.mem_singleton.1 hc, eval_avcNode g hlen hl (AgreeBelow.refl base σ), h]

end Cspuz.Proofs.C04Prim
