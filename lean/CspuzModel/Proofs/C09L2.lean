/-
  C09 (L2): a `ForestCert` exists iff the active edges form a forest (graph theory part).
-/
import Mathlib.Combinatorics.SimpleGraph.Acyclic
import Mathlib.Combinatorics.SimpleGraph.Metric
import CspuzModel.Spec.GraphSpec
import CspuzModel.Spec.Certs
namespace Cspuz.Proofs.C09L2
open Cspuz Cspuz.Spec

/-! ### Lists -/

theorem two_le_filter_length {α : Type} [DecidableEq α] (l : List α) (p : α → Bool) (a b : α)
    (ha : a ∈ l) (hb : b ∈ l) (hab : a ≠ b) (hpa : p a = true) (hpb : p b = true) :
    2 ≤ (l.filter p).length := by
  have hnd : [a, b].Nodup := by simp [hab]
  have hsub : [a, b] ⊆ l.filter p := by
    intro x hx
    simp only [List.mem_cons, List.not_mem_nil, or_false] at hx
    rcases hx with rfl | rfl
    · exact List.mem_filter.2 ⟨ha, hpa⟩
    · exact List.mem_filter.2 ⟨hb, hpb⟩
  exact (List.subperm_of_subset hnd hsub).length_le

theorem filter_length_le_one {α : Type} (l : List α) (p : α → Bool) (hnd : l.Nodup)
    (h : ∀ a ∈ l, ∀ b ∈ l, p a = true → p b = true → a = b) : (l.filter p).length ≤ 1 := by
  have hnd' : (l.filter p).Nodup := hnd.filter _
  have hall : ∀ a ∈ l.filter p, ∀ b ∈ l.filter p, a = b := by
    intro a ha b hb
    rw [List.mem_filter] at ha hb
    exact h a ha.1 b hb.1 ha.2 hb.2
  match hl : l.filter p, hnd', hall with
  | [], _, _ => simp
  | [_], _, _ => simp
  | a :: b :: t, hnd', hall =>
    exfalso
    have : a = b := hall a (by simp) b (by simp)
    simp [this] at hnd'

/-! ### Incidence lists -/

theorem mem_incident (g : Graph) (i j e : Nat) :
    (j, e) ∈ g.incident i ↔ Joins g e i j := by
  unfold Graph.incident Joins
  simp only [List.mem_flatMap, Prod.exists, List.mem_zipIdx_iff_getElem?, List.mem_append]
  constructor
  · rintro ⟨a, b, k, hk, h⟩
    rcases h with h | h
    · split at h
      · simp only [List.mem_singleton, Prod.mk.injEq] at h
        obtain ⟨rfl, rfl⟩ := h
        subst_vars
        exact Or.inl hk
      · simp at h
    · split at h
      · simp only [List.mem_singleton, Prod.mk.injEq] at h
        obtain ⟨rfl, rfl⟩ := h
        subst_vars
        exact Or.inr hk
      · simp at h
  · rintro (h | h)
    · exact ⟨i, j, e, h, Or.inl (by simp)⟩
    · exact ⟨j, i, e, h, Or.inr (by simp)⟩

/-- generalised (offset) form of `incident` for the induction -/
theorem incident_aux_nodup (v : Nat) (l : List (Nat × Nat)) (hl : ∀ ab ∈ l, ab.1 ≠ ab.2) (k : Nat) :
    ((l.zipIdx k).flatMap fun (ab, e) =>
      (if ab.1 = v then [(ab.2, e)] else []) ++ (if ab.2 = v then [(ab.1, e)] else [])).Nodup ∧
    ∀ je ∈ ((l.zipIdx k).flatMap fun (ab, e) =>
      (if ab.1 = v then [(ab.2, e)] else []) ++ (if ab.2 = v then [(ab.1, e)] else [])), k ≤ je.2 := by
  induction l generalizing k with
  | nil => simp
  | cons ab t ih =>
    have hab := hl ab (by simp)
    obtain ⟨ih1, ih2⟩ := ih (fun x hx => hl x (by simp [hx])) (k + 1)
    simp only [List.zipIdx_cons, List.flatMap_cons]
    constructor
    · rw [List.nodup_append]
      refine ⟨?_, ih1, ?_⟩
      · by_cases h1 : ab.1 = v <;> by_cases h2 : ab.2 = v <;> simp [h1, h2]
        exact hab (h1.trans h2.symm)
      · intro a ha b hb hab'
        have := ih2 b hb
        subst hab'
        by_cases h1 : ab.1 = v <;> by_cases h2 : ab.2 = v <;> simp [h1, h2] at ha <;> grind
    · intro je hje
      rw [List.mem_append] at hje
      rcases hje with hje | hje
      · by_cases h1 : ab.1 = v <;> by_cases h2 : ab.2 = v <;> simp [h1, h2] at hje <;> grind
      · have := ih2 je hje
        omega

theorem incident_nodup (g : Graph) (hlf : LoopFree g) (v : Nat) : (g.incident v).Nodup :=
  (incident_aux_nodup v g.edges hlf 0).1

theorem joins_lt (g : Graph) (hwf : g.wf = true) {e i j : Nat} (h : Joins g e i j) :
    i < g.n ∧ j < g.n := by
  unfold Graph.wf at hwf
  rw [List.all_eq_true] at hwf
  rcases h with h | h
  · have := hwf _ (List.mem_of_getElem? h)
    simp at this; omega
  · have := hwf _ (List.mem_of_getElem? h)
    simp at this; omega

theorem joins_ne (g : Graph) (hlf : LoopFree g) {e i j : Nat} (h : Joins g e i j) : i ≠ j := by
  rcases h with h | h
  · exact hlf _ (List.mem_of_getElem? h)
  · exact (hlf _ (List.mem_of_getElem? h)).symm

theorem joins_symm {g : Graph} {e i j : Nat} (h : Joins g e i j) : Joins g e j i := h.symm

/-! ### Certificate ⇒ forest -/

section Forward
variable {g : Graph} {act : Nat → Bool}

theorem rank_ne (c : ForestCert g act) (hwf : g.wf = true) (hlf : LoopFree g) {e i j : Nat}
    (h : Joins g e i j) : c.rank i ≠ c.rank j := by
  obtain ⟨hi, hj⟩ := joins_lt g hwf h
  have hne := joins_ne g hlf h
  rcases Nat.lt_or_gt_of_ne hne with hlt | hlt
  · exact c.distinct i hi (j, e) ((mem_incident g i j e).2 h) hlt
  · exact (c.distinct j hj (i, e) ((mem_incident g j i e).2 h.symm) hlt).symm

theorem no_two_lower (c : ForestCert g act) (hwf : g.wf = true) {i j1 e1 j2 e2 : Nat}
    (h1 : Joins g e1 i j1) (h2 : Joins g e2 i j2) (hne : (j1, e1) ≠ (j2, e2))
    (a1 : act e1 = true) (a2 : act e2 = true)
    (r1 : c.rank j1 < c.rank i) (r2 : c.rank j2 < c.rank i) : False := by
  have hi := (joins_lt g hwf h1).1
  have hloc := c.loc i hi
  have := two_le_filter_length (g.incident i)
    (fun je => decide (c.rank je.1 < c.rank i) && act je.2) (j1, e1) (j2, e2)
    ((mem_incident g i j1 e1).2 h1) ((mem_incident g i j2 e2).2 h2) hne
    (by simp [r1, a1]) (by simp [r2, a2])
  unfold countInc at hloc
  omega

theorem forest_of_cert (c : ForestCert g act) (hwf : g.wf = true) (hlf : LoopFree g) :
    EdgesForest g act := by
  constructor
  · intro v w hw
    obtain ⟨m, hm, hmax⟩ := Finset.exists_max_image w.support.toFinset (fun x => c.rank x.1)
      ⟨v, by simp⟩
    rw [List.mem_toFinset] at hm
    have hw' : (w.rotate m hm).IsCycle := hw.rotate hm
    set w' := w.rotate m hm with hw'def
    have hnil : ¬ w'.Nil := hw'.not_nil
    have hab : w'.snd ≠ w'.penultimate := hw'.snd_ne_penultimate
    have hA : (activeEdgeGraph g act).Adj m w'.snd := SimpleGraph.Walk.adj_snd hnil
    have hB : (activeEdgeGraph g act).Adj w'.penultimate m := SimpleGraph.Walk.adj_penultimate hnil
    have hAs : w'.snd ∈ w.support := by
      rw [← SimpleGraph.Walk.mem_support_rotate_iff w m hm]
      exact SimpleGraph.Walk.getVert_mem_support _ _
    have hBs : w'.penultimate ∈ w.support := by
      rw [← SimpleGraph.Walk.mem_support_rotate_iff w m hm]
      exact SimpleGraph.Walk.getVert_mem_support _ _
    have hAr := hmax _ (List.mem_toFinset.2 hAs)
    have hBr := hmax _ (List.mem_toFinset.2 hBs)
    obtain ⟨_, k, hk, hjk⟩ := hA
    obtain ⟨_, l, hl, hjl⟩ := hB
    have hjl' : Joins g l m.1 w'.penultimate.1 := hjl.symm
    have n1 := rank_ne c hwf hlf hjk
    have n2 := rank_ne c hwf hlf hjl'
    refine no_two_lower c hwf hjk hjl' ?_ hk hl (by omega) (by omega)
    intro h
    simp only [Prod.mk.injEq] at h
    exact hab (Fin.ext h.1)
  · intro k l u v hkl hk hl hjk hjl
    have n1 := rank_ne c hwf hlf hjk
    rcases lt_or_gt_of_ne n1 with h | h
    · exact no_two_lower c hwf hjk.symm hjl.symm (by simp [hkl]) hk hl h h
    · exact no_two_lower c hwf hjk hjl (by simp [hkl]) hk hl h h

end Forward

/-! ### Forest ⇒ certificate -/

section Order
variable {n : Nat} (d : Fin n → Nat)

/-- sort key: depth first, then index -/
def key (v : Fin n) : Nat := d v * n + v.1

theorem key_inj {u v : Fin n} (h : key d u = key d v) : u = v := by
  unfold key at h
  have h2 : (d u * n + u.1) % n = (d v * n + v.1) % n := by rw [h]
  rw [Nat.mul_add_mod_self_right, Nat.mul_add_mod_self_right, Nat.mod_eq_of_lt u.2,
    Nat.mod_eq_of_lt v.2] at h2
  exact Fin.ext h2

theorem le_of_key_lt {u v : Fin n} (h : key d u < key d v) : d u ≤ d v := by
  by_contra hc
  have h1 : (d v + 1) * n ≤ d u * n := Nat.mul_le_mul_right n (by omega)
  unfold key at h
  have := v.2
  rw [Nat.add_mul] at h1
  omega

theorem key_lt_of_lt {u v : Fin n} (h : d u < d v) : key d u < key d v := by
  have h1 : (d u + 1) * n ≤ d v * n := Nat.mul_le_mul_right n (by omega)
  unfold key
  have := u.2
  rw [Nat.add_mul] at h1
  omega

/-- position in the list of vertices sorted by `key` -/
def rk (v : Fin n) : Nat := (Finset.univ.filter (fun u => key d u < key d v)).card

theorem rk_lt (v : Fin n) : rk d v < n := by
  have : (Finset.univ.filter (fun u => key d u < key d v)) ⊂ Finset.univ := by
    rw [Finset.ssubset_iff_of_subset (Finset.subset_univ _)]
    exact ⟨v, Finset.mem_univ _, by simp⟩
  have := Finset.card_lt_card this
  simpa [rk] using this

theorem rk_mono {u v : Fin n} (h : key d u ≤ key d v) : rk d u ≤ rk d v := by
  unfold rk
  apply Finset.card_le_card
  intro x hx
  simp only [Finset.mem_filter, Finset.mem_univ, true_and] at hx ⊢
  omega

theorem rk_lt_of_key_lt {u v : Fin n} (h : key d u < key d v) : rk d u < rk d v := by
  unfold rk
  apply Finset.card_lt_card
  rw [Finset.ssubset_iff_of_subset]
  · exact ⟨u, by simp [h], by simp⟩
  · intro x hx
    simp only [Finset.mem_filter, Finset.mem_univ, true_and] at hx ⊢
    omega

theorem key_lt_of_rk_lt {u v : Fin n} (h : rk d u < rk d v) : key d u < key d v := by
  by_contra hc
  have := rk_mono d (Nat.le_of_not_lt hc)
  omega

theorem rk_ne {u v : Fin n} (h : u ≠ v) : rk d u ≠ rk d v := by
  have hk : key d u ≠ key d v := fun e => h (key_inj d e)
  rcases Nat.lt_or_gt_of_ne hk with h1 | h1
  · exact (rk_lt_of_key_lt d h1).ne
  · exact (rk_lt_of_key_lt d h1).ne'

end Order

section Depth
variable {V : Type} (F : SimpleGraph V)

/-- a chosen representative of the component of `v` -/
noncomputable def root (v : V) : V := (F.connectedComponentMk v).out

theorem root_reachable (v : V) : F.Reachable (root F v) v :=
  SimpleGraph.ConnectedComponent.exact (Quot.out_eq _)

theorem root_eq_of_adj {v w : V} (h : F.Adj v w) : root F v = root F w := by
  unfold root
  rw [SimpleGraph.ConnectedComponent.sound h.reachable]

noncomputable def depth (v : V) : Nat := F.dist (root F v) v

theorem depth_adj (hF : F.IsAcyclic) {v w : V} (h : F.Adj v w) :
    depth F v = depth F w + 1 ∨ depth F w = depth F v + 1 := by
  unfold depth
  rw [← root_eq_of_adj F h]
  exact hF.dist_eq_dist_add_one_of_adj_of_reachable _ h (root_reachable F v)

theorem parent_unique_aux (hF : F.IsAcyclic) (u v w1 w2 : V)
    (hr1 : F.Reachable u w1) (hr2 : F.Reachable u w2) (h1 : F.Adj w1 v) (h2 : F.Adj w2 v)
    (d1 : F.dist u w1 + 1 = F.dist u v) (d2 : F.dist u w2 + 1 = F.dist u v) : w1 = w2 := by
  obtain ⟨p1, hp1⟩ := hr1.exists_walk_length_eq_dist
  obtain ⟨p2, hp2⟩ := hr2.exists_walk_length_eq_dist
  have q1 : (p1.concat h1).IsPath :=
    SimpleGraph.Walk.isPath_of_length_eq_dist _ (by rw [SimpleGraph.Walk.length_concat]; omega)
  have q2 : (p2.concat h2).IsPath :=
    SimpleGraph.Walk.isPath_of_length_eq_dist _ (by rw [SimpleGraph.Walk.length_concat]; omega)
  have := (hF.subsingleton_path u v).elim ⟨_, q1⟩ ⟨_, q2⟩
  have := congrArg Subtype.val this
  exact (SimpleGraph.Walk.concat_inj this).1

theorem parent_unique (hF : F.IsAcyclic) {v w1 w2 : V} (h1 : F.Adj w1 v) (h2 : F.Adj w2 v)
    (d1 : depth F w1 + 1 = depth F v) (d2 : depth F w2 + 1 = depth F v) : w1 = w2 := by
  unfold depth at d1 d2
  have e1 := root_eq_of_adj F h1
  have e2 := root_eq_of_adj F h2
  have r1 := root_reachable F w1
  have r2 := root_reachable F w2
  rw [e1] at d1 r1
  rw [e2] at d2 r2
  exact parent_unique_aux F hF _ v w1 w2 r1 r2 h1 h2 d1 d2

end Depth

section Backward
variable {g : Graph} {act : Nat → Bool}

/-- the rank used for the certificate -/
noncomputable def rankOf (g : Graph) (act : Nat → Bool) (i : Nat) : Int :=
  if h : i < g.n then (rk (depth (activeEdgeGraph g act)) ⟨i, h⟩ : Int) else 0

theorem rankOf_lt (i : Nat) (h : i < g.n) :
    rankOf g act i = (rk (depth (activeEdgeGraph g act)) ⟨i, h⟩ : Int) := by
  simp [rankOf, h]

theorem cert_of_forest (hwf : g.wf = true) (hlf : LoopFree g) (hF : EdgesForest g act) :
    Nonempty (ForestCert g act) := by
  obtain ⟨hac, hpar⟩ := hF
  refine ⟨{ rank := rankOf g act, rank_lo := ?_, rank_hi := ?_, distinct := ?_, loc := ?_ }⟩
  · intro i hi
    rw [rankOf_lt i hi]; omega
  · intro i hi
    rw [rankOf_lt i hi]
    have := rk_lt (depth (activeEdgeGraph g act)) ⟨i, hi⟩
    omega
  · rintro i hi ⟨j, e⟩ hje hij
    have hj := (mem_incident g i j e).1 hje
    have hjn := (joins_lt g hwf hj).2
    simp only
    rw [rankOf_lt i hi, rankOf_lt j hjn]
    have := rk_ne (depth (activeEdgeGraph g act)) (u := ⟨i, hi⟩) (v := ⟨j, hjn⟩)
      (by simp; omega)
    omega
  · intro i hi
    unfold countInc
    apply filter_length_le_one _ _ (incident_nodup g hlf i)
    rintro ⟨j1, e1⟩ hm1 ⟨j2, e2⟩ hm2 hp1 hp2
    have hj1 := (mem_incident g i j1 e1).1 hm1
    have hj2 := (mem_incident g i j2 e2).1 hm2
    have hn1 := (joins_lt g hwf hj1).2
    have hn2 := (joins_lt g hwf hj2).2
    have ne1 := joins_ne g hlf hj1
    have ne2 := joins_ne g hlf hj2
    simp only [Bool.and_eq_true, decide_eq_true_eq] at hp1 hp2
    obtain ⟨r1, a1⟩ := hp1
    obtain ⟨r2, a2⟩ := hp2
    rw [rankOf_lt i hi, rankOf_lt j1 hn1] at r1
    rw [rankOf_lt i hi, rankOf_lt j2 hn2] at r2
    have A1 : (activeEdgeGraph g act).Adj ⟨j1, hn1⟩ ⟨i, hi⟩ :=
      ⟨by simp; omega, e1, a1, hj1.symm⟩
    have A2 : (activeEdgeGraph g act).Adj ⟨j2, hn2⟩ ⟨i, hi⟩ :=
      ⟨by simp; omega, e2, a2, hj2.symm⟩
    have k1 := le_of_key_lt _ (key_lt_of_rk_lt _ (by exact_mod_cast r1))
    have k2 := le_of_key_lt _ (key_lt_of_rk_lt _ (by exact_mod_cast r2))
    have D1 := depth_adj _ hac A1
    have D2 := depth_adj _ hac A2
    have hEq := parent_unique _ hac A1 A2 (by omega) (by omega)
    have hj : j1 = j2 := by simpa using hEq
    subst hj
    by_cases he : e1 = e2
    · rw [he]
    · exact (hpar e1 e2 i j1 he a1 a2 hj1 hj2).elim

end Backward

theorem forest_cert_iff (g : Graph) (act : Nat → Bool) (hwf : g.wf = true) (hlf : LoopFree g) :
    Nonempty (ForestCert g act) ↔ EdgesForest g act :=
  ⟨fun ⟨c⟩ => forest_of_cert c hwf hlf, cert_of_forest hwf hlf⟩

end Cspuz.Proofs.C09L2
