/-
  C16: the independent pzpr decoders `Pzpr.fourCell` (slitherlink), `Pzpr.circle` (masyu) and `Pzpr.arrowNumber16`
  (yajilin) read the text the cspuz serializer model emits for the corresponding puzzle combinators back as the
  same problem.
-/
import CspuzModel.Spec.C16Formats
import CspuzModel.Gen.PuzzleCombinators
import CspuzModel.Proofs.SerBasics
import CspuzModel.Proofs.C15Leaves
import CspuzModel.Proofs.C15Comp
import Mathlib.Tactic.IntervalCases
set_option linter.unusedVariables false
namespace Cspuz.Proofs.C16PzprCells
open Cspuz Cspuz.Ser Cspuz.C16F

/-! ### generic: the serialize loop of `Seq` against a cell decoder -/

/-- what one call of the base serializer emits is read back by the decoder as the consumed cells -/
def StepLaw {α β : Type} (val : α → PyVal) (q : α → β) (dec : Nat → Pzpr.Str → Option (List β × Pzpr.Str))
    (f : SerF) (X : List α) : Prop :=
  ∀ p k tk, p < X.length → f (X.map val) p = .ok (k, tk) →
    1 ≤ k ∧ p + k ≤ X.length ∧ ∀ rest, dec (X.length - p) (tk ++ rest) =
      (dec (X.length - p - k) rest).map fun r => (((X.drop p).take k).map q ++ r.1, r.2)

theorem loop_dec {α β : Type} (val : α → PyVal) (q : α → β) (dec : Nat → Pzpr.Str → Option (List β × Pzpr.Str))
    (f : SerF) (X : List α) (hdec0 : ∀ s, dec 0 s = some ([], s)) (hstep : StepLaw val q dec f X) :
    ∀ fuel p acc t, p ≤ X.length → seqSerLoop f (X.map val) X.length fuel p acc = .ok t →
      ∃ t', t = acc ++ t' ∧ dec (X.length - p) t' = some ((X.drop p).map q, []) := by
  intro fuel
  induction fuel with
  | zero => intro p acc t _ h; simp [seqSerLoop] at h
  | succ fuel ih =>
    intro p acc t hp h
    unfold seqSerLoop at h
    split at h
    · rename_i hlt
      cases hf : f (X.map val) p with
      | none => simp [hf] at h
      | raised e => simp [hf] at h
      | diverge => simp [hf] at h
      | ok r =>
        obtain ⟨k, tk⟩ := r
        obtain ⟨hk1, hk2, hd⟩ := hstep p k tk hlt hf
        simp only [hf] at h
        rw [if_neg (by omega)] at h
        obtain ⟨t'', rfl, hd''⟩ := ih (p + k) (acc ++ tk) t hk2 h
        refine ⟨tk ++ t'', by simp, ?_⟩
        rw [hd t'', show X.length - p - k = X.length - (p + k) by omega, hd'']
        simp only [Option.map_some]
        rw [← List.map_append, ← List.drop_drop, List.take_append_drop]
    · split at h
      · rename_i h1
        cases h
        refine ⟨[], by simp, ?_⟩
        rw [h1]; simp [hdec0]
      · simp at h

theorem toRows_flatten {α β : Type} (q : α → β) (w : Nat) : ∀ (g : List (List α)) (h : Nat), g.length = h →
    (∀ r ∈ g, r.length = w) → Pzpr.toRows w (g.flatten.map q) h = g.map (List.map q)
  | [], h, hl, _ => by subst hl; simp [Pzpr.toRows]
  | r :: g, h, hl, hr => by
    subst hl
    have hrw : r.length = w := hr r (by simp)
    have ih := toRows_flatten q w g g.length rfl (fun r' h' => hr r' (by simp [h']))
    simp only [List.length_cons, Pzpr.toRows, List.flatten_cons, List.map_append, List.map_cons]
    rw [List.take_left' (by simp [hrw]), List.drop_left' (by simp [hrw]), ih]

theorem rowsFlat_map {α : Type} (val : α → PyVal) : ∀ g : List (List α),
    rowsFlat (g.map fun r => .list (r.map val)) = g.flatten.map val
  | [] => rfl
  | r :: g => by simp [rowsFlat, rowsFlat_map val g]

theorem length_flatten_of {α : Type} (w : Nat) : ∀ (g : List (List α)), (∀ r ∈ g, r.length = w) →
    g.flatten.length = g.length * w
  | [], _ => by simp
  | r :: g, hr => by
    have := length_flatten_of w g (fun r' h' => hr r' (by simp [h']))
    simp [this, hr r (by simp), Nat.add_mul]; omega

/-- `Grid(base).serialize` of a typed grid, decoded cell by cell -/
theorem grid_decode {α β : Type} (val : α → PyVal) (q : α → β) (dec : Nat → Pzpr.Str → Option (List β × Pzpr.Str))
    (f : SerF) (h w : Nat) (g : List (List α)) (hlen : g.length = h) (hrow : ∀ r ∈ g, r.length = w)
    (hdec0 : ∀ s, dec 0 s = some ([], s)) (hstep : StepLaw val q dec f g.flatten) (r : Nat × Str)
    (hs : gridSer f h w [.list (g.map fun r => .list (r.map val))] 0 = .ok r) :
    (Pzpr.whole (dec (h * w) r.2)).map (fun l => Pzpr.toRows w l h) = some (g.map (List.map q)) := by
  have hshape : GridShape h w (g.map fun r => .list (r.map val)) := by
    refine ⟨by simp [hlen], ?_⟩
    intro r hr
    obtain ⟨r0, hr0, rfl⟩ := List.mem_map.mp hr
    exact ⟨_, rfl, by simp [hrow r0 hr0]⟩
  obtain ⟨hflat, hflen⟩ := gridFlatten_shape h w _ hshape
  rw [rowsFlat_map] at hflat hflen
  have hXlen : g.flatten.length = h * w := by rw [← hflen, List.length_map]
  obtain ⟨k, body⟩ := r
  unfold gridSer at hs
  obtain ⟨v, hv, hk⟩ := withItem_eq_ok.mp hs
  simp only [List.getElem?_cons_zero, Option.some.injEq] at hv
  subst hv
  simp only [hflat, Outcome.bind_ok] at hk
  obtain ⟨l, hl, _, hloop⟩ := seqSer_eq_ok hk
  simp only [List.getElem?_cons_zero, Option.some.injEq, PyVal.list.injEq] at hl
  subst hl
  rw [← hXlen] at hloop
  obtain ⟨t', ht', hd⟩ := loop_dec val q dec f g.flatten hdec0 hstep _ 0 [] body (by omega) hloop
  simp only [List.nil_append] at ht'
  subst ht'
  simp only [Nat.sub_zero, List.drop_zero] at hd
  rw [← hXlen, hd]
  simp only [Pzpr.whole, Option.map_some]
  rw [toRows_flatten q w g h hlen hrow]

theorem serProblem_ok {c : Comb} {v : PyVal} {h w : Nat} {body : Str} (hs : serProblem c v h w = .ok body) :
    ∃ r, ser c ⟨h, w⟩ [v] 0 = .ok r ∧ r.2 = body := by
  unfold serProblem at hs
  split at hs <;> simp at hs
  rename_i r hr
  exact ⟨r, hr, hs⟩

theorem oneOf2_ok {A B : Type} (f1 f2 : A → Nat → Outcome B) (a : A) (i : Nat) (r : B)
    (h : oneOfF [f1, f2] a i = .ok r) : f1 a i = .ok r ∨ f2 a i = .ok r := by
  simp only [oneOfF] at h
  cases h1 : f1 a i with
  | ok x => simp [h1] at h; left; rw [h]
  | raised e => simp [h1] at h
  | diverge => simp [h1] at h
  | none =>
    simp only [h1] at h
    cases h2 : f2 a i with
    | ok x => simp [h2] at h; right; rw [h]
    | raised e => simp [h2] at h
    | diverge => simp [h2] at h
    | none => simp [h2] at h

/-- the run counted by `countRun` in a typed list consists of the one cell that denotes the space -/
theorem take_countRun_typed {α : Type} (val : α → PyVal) (sp : PyVal) (e : α)
    (hval : ∀ x, pyEq (val x) sp = true → x = e) : ∀ (X : List α) (lim : Nat),
    X.take (countRun sp (X.map val) lim) = List.replicate (countRun sp (X.map val) lim) e
  | _, 0 => by simp [countRun]
  | [], _ + 1 => by simp [countRun]
  | x :: r, lim + 1 => by
    simp only [List.map_cons, countRun]; split
    · rename_i hx
      rw [Nat.add_comm, List.take_succ_cons, List.replicate_succ, take_countRun_typed val sp e hval r lim,
        hval x hx]
    · simp

theorem drop_of_getElem? {α : Type} {X : List α} {p : Nat} {x : α} (h : X[p]? = some x) :
    X.drop p = x :: X.drop (p + 1) := by
  have hp := getElem?_lt h
  rw [List.drop_eq_getElem_cons hp]
  simp [List.getElem?_eq_getElem hp] at h
  rw [h]

/-- `Spaces(space, …).serialize` on a typed list: one character for a run of `k` spaces -/
theorem spacesSer_typed {α : Type} (val : α → PyVal) (sp : PyVal) (e : α)
    (hval : ∀ x, pyEq (val x) sp = true → x = e) (o : Int) (ho1 : -1 ≤ o) (ho2 : o ≤ 34)
    (X : List α) (p k : Nat) (tk : Str) (h : spacesSer sp o (X.map val) p = .ok (k, tk)) :
    1 ≤ k ∧ (k : Int) ≤ 35 - o ∧ p + k ≤ X.length ∧ tk = [digitChar (o + (k : Int)).toNat] ∧
      (X.drop p).take k = List.replicate k e := by
  unfold spacesSer at h
  obtain ⟨v, hv, hk⟩ := withItem_eq_ok.mp h
  rw [List.getElem?_map] at hv
  obtain ⟨x, hx, rfl⟩ := Option.map_eq_some_iff.mp hv
  have hp := getElem?_lt hx
  rw [← List.map_drop] at hk
  have hm1 := countRun_le_lim sp ((X.drop (p + 1)).map val) ((35 - o) - 1).toNat
  have hm3 := countRun_le_length sp ((X.drop (p + 1)).map val) ((35 - o) - 1).toNat
  have hm2 := take_countRun_typed val sp e hval (X.drop (p + 1)) ((35 - o) - 1).toNat
  rw [List.length_map, List.length_drop] at hm3
  generalize countRun sp ((X.drop (p + 1)).map val) ((35 - o) - 1).toNat = m at hk hm1 hm2 hm3
  split at hk
  · simp at hk
  · rename_i heq
    simp only [Bool.not_eq_true', Bool.not_eq_false] at heq
    have hxe := hval x heq
    subst hxe
    simp only [toBase36] at hk
    rw [if_neg (by omega)] at hk
    simp only [Outcome.bind_ok, Outcome.ok.injEq, Prod.mk.injEq] at hk
    obtain ⟨rfl, rfl⟩ := hk
    have hN : (o + ((1 + m : Nat) : Int)).toNat < 36 := by omega
    refine ⟨by omega, by omega, by omega, toBase_of_lt 36 _ (by omega) hN, ?_⟩
    rw [drop_of_getElem? hx, Nat.add_comm 1 m, List.take_succ_cons, hm2, List.replicate_succ]

/-! ### slitherlink -/

theorem map_slitherQ (l : List Int) : l.map slitherQ = l := by
  induction l with
  | nil => rfl
  | cons a l ih => simp [slitherQ, ih]

theorem fourCell_zero (s : Pzpr.Str) : Pzpr.fourCell 0 s = some ([], s) := by
  cases s <;> simp [Pzpr.fourCell]

theorem fourCell_run (m n : Nat) (rest : Pzpr.Str) (h1 : 1 ≤ n) (h2 : n ≤ 20) (hm : n ≤ m) :
    Pzpr.fourCell m ((102 + n) :: rest) =
      (Pzpr.fourCell (m - n) rest).map fun r => (List.replicate n (-1) ++ r.1, r.2) := by
  obtain ⟨m', rfl⟩ : ∃ m', m = m' + 1 := ⟨m - 1, by omega⟩
  have b1 : Pzpr.between (102 + n) 48 52 = false := by simp [Pzpr.between]; omega
  have b2 : Pzpr.between (102 + n) 53 57 = false := by simp [Pzpr.between]; omega
  have b3 : Pzpr.between (102 + n) 97 101 = false := by simp [Pzpr.between]; omega
  have b4 : Pzpr.between (102 + n) 103 122 = true := by simp [Pzpr.between]; omega
  rw [Pzpr.fourCell]
  simp only [b1, b2, b3, b4, Bool.false_eq_true, if_false, if_true, Pzpr.emptyCells]
  rw [show 102 + n - 102 = n by omega, show min n (m' + 1) = n by omega]

theorem fourCell_clue (m ns v : Nat) (rest : Pzpr.Str) (hv : v ≤ 4) (hns : ns ≤ 2) (hm : 1 + ns ≤ m) :
    Pzpr.fourCell m (digitChar (ns * 5 + v) :: rest) =
      (Pzpr.fourCell (m - (1 + ns)) rest).map fun r => ((v : Int) :: List.replicate ns (-1) ++ r.1, r.2) := by
  obtain ⟨m', rfl⟩ : ∃ m', m = m' + 1 := ⟨m - 1, by omega⟩
  interval_cases ns
  · have hc : digitChar (0 * 5 + v) = 48 + v := by unfold digitChar; split <;> omega
    have b1 : Pzpr.between (48 + v) 48 52 = true := by simp [Pzpr.between]; omega
    rw [hc, Pzpr.fourCell]
    simp only [b1, if_true]
    rw [show 48 + v - 48 = v by omega, show m' + 1 - (1 + 0) = m' by omega]
    simp
  · have hc : digitChar (1 * 5 + v) = 53 + v := by unfold digitChar; split <;> omega
    have b1 : Pzpr.between (53 + v) 48 52 = false := by simp [Pzpr.between]; omega
    have b2 : Pzpr.between (53 + v) 53 57 = true := by simp [Pzpr.between]; omega
    rw [hc, Pzpr.fourCell]
    simp only [b1, b2, Bool.false_eq_true, if_false, if_true, Pzpr.emptyCells]
    rw [show 53 + v - 53 = v by omega, show m' + 1 - (1 + 1) = m' - 1 by omega, show min 1 m' = 1 by omega]
  · have hc : digitChar (2 * 5 + v) = 97 + v := by unfold digitChar; split <;> omega
    have b1 : Pzpr.between (97 + v) 48 52 = false := by simp [Pzpr.between]; omega
    have b2 : Pzpr.between (97 + v) 53 57 = false := by simp [Pzpr.between]; omega
    have b3 : Pzpr.between (97 + v) 97 101 = true := by simp [Pzpr.between]; omega
    rw [hc, Pzpr.fourCell]
    simp only [b1, b2, b3, Bool.false_eq_true, if_false, if_true, Pzpr.emptyCells]
    rw [show 97 + v - 97 = v by omega, show m' + 1 - (1 + 2) = m' - 2 by omega, show min 2 m' = 2 by omega]

theorem pyEq_int_int (x a : Int) (h : pyEq (PyVal.int x) (.int a) = true) : x = a := by
  simpa [pyEq] using h

/-- `IntSpaces(-1, 4, 2).serialize` on a list of ints -/
theorem intSpacesSer_slither (X : List Int) (p k : Nat) (tk : Str)
    (h : intSpacesSer (.int (-1)) 4 2 (X.map PyVal.int) p = .ok (k, tk)) :
    ∃ (x : Int) (ns : Nat), X[p]? = some x ∧ 0 ≤ x ∧ x ≤ 4 ∧ ns ≤ 2 ∧ k = 1 + ns ∧ p + k ≤ X.length ∧
      tk = [digitChar (ns * 5 + x.toNat)] ∧ (X.drop p).take k = x :: List.replicate ns (-1) := by
  unfold intSpacesSer at h
  obtain ⟨v, hv, hk⟩ := withItem_eq_ok.mp h
  rw [List.getElem?_map] at hv
  obtain ⟨x, hx, rfl⟩ := Option.map_eq_some_iff.mp hv
  have hp := getElem?_lt hx
  rw [← List.map_drop] at hk
  have hm1 := countRun_le_lim (.int (-1)) ((X.drop (p + 1)).map PyVal.int) 2
  have hm3 := countRun_le_length (.int (-1)) ((X.drop (p + 1)).map PyVal.int) 2
  have hm2 := take_countRun_typed PyVal.int (.int (-1)) (-1) (fun x => pyEq_int_int x (-1)) (X.drop (p + 1)) 2
  rw [List.length_map, List.length_drop] at hm3
  generalize countRun (.int (-1)) ((X.drop (p + 1)).map PyVal.int) 2 = m at hk hm1 hm2 hm3
  simp only [asInt?] at hk
  split at hk
  · simp at hk
  · rename_i hn
    simp only [Bool.not_eq_true', Bool.not_eq_false, Bool.and_eq_true, decide_eq_true_eq] at hn
    simp only [Outcome.ok.injEq, Prod.mk.injEq] at hk
    obtain ⟨rfl, rfl⟩ := hk
    have hN : m * (4 + 1) + x.toNat < 36 := by omega
    refine ⟨x, m, hx, hn.1, by omega, hm1, rfl, by omega, toBase_of_lt 36 _ (by omega) hN, ?_⟩
    rw [drop_of_getElem? hx, Nat.add_comm 1 m, List.take_succ_cons, hm2]

theorem slither_step (env : Env) (X : List Int) :
    StepLaw PyVal.int slitherQ Pzpr.fourCell
      (ser (.oneOf [.spaces (.int (-1)) 15, .intSpaces (.int (-1)) 4 2]) env) X := by
  intro p k tk hp hf
  have hser : ser (.oneOf [.spaces (.int (-1)) 15, .intSpaces (.int (-1)) 4 2]) env =
      oneOfF [spacesSer (.int (-1)) 15, intSpacesSer (.int (-1)) 4 2] := by
    simp [ser, serL]
  rw [hser] at hf
  rcases oneOf2_ok _ _ _ _ _ hf with h | h
  · obtain ⟨hk1, hk2, hk3, rfl, hwin⟩ :=
      spacesSer_typed PyVal.int (.int (-1)) (-1) (fun x => pyEq_int_int x (-1)) 15 (by omega) (by omega) X p k tk h
    refine ⟨hk1, hk3, fun rest => ?_⟩
    have hc : digitChar ((15 : Int) + (k : Int)).toNat = 102 + k := by unfold digitChar; split <;> omega
    rw [hc, List.singleton_append, fourCell_run _ k rest hk1 (by omega) (by omega), hwin, map_slitherQ]
  · obtain ⟨x, ns, hx, hx0, hx4, hns, rfl, hk3, rfl, hwin⟩ := intSpacesSer_slither X p k tk h
    refine ⟨by omega, hk3, fun rest => ?_⟩
    rw [List.singleton_append, fourCell_clue _ ns x.toNat rest (by omega) hns (by omega), hwin, map_slitherQ,
      show ((x.toNat : Nat) : Int) = x by omega]

theorem pzpr_slitherlink (h w : Nat) (g : List (List Int)) (hg : IntGrid SlitherCell h w g) (body : Str)
    (hs : serProblem Gen.slitherlinkCombinator (intGridVal g) h w = .ok body) :
    Pzpr.decodeSlither h w body = some (g.map fun r => r.map slitherQ) := by
  obtain ⟨r, hr, rfl⟩ := serProblem_ok hs
  have hr' : gridSer (ser (.oneOf [.spaces (.int (-1)) 15, .intSpaces (.int (-1)) 4 2]) ⟨h, w⟩) h w
      [.list (g.map fun r => .list (r.map PyVal.int))] 0 = .ok r := by
    simpa [Gen.slitherlinkCombinator, ser, gridDims, intGridVal] using hr
  exact grid_decode PyVal.int slitherQ Pzpr.fourCell _ h w g hg.1 (fun r hr => (hg.2 r hr).1) fourCell_zero
    (slither_step _ g.flatten) r hr'

/-! ### yajilin -/

theorem arrow_zero (s : Pzpr.Str) : Pzpr.arrowNumber16 0 s = some ([], s) := by
  cases s <;> rfl

/-- the defining equation of `Pzpr.arrowNumber16` on a non-empty text (the compiler-generated equation lemmas are too
expensive to produce) -/
theorem arrow_cons (n c : Nat) (s : Pzpr.Str) : Pzpr.arrowNumber16 (n+1) (c :: s) =
    if Pzpr.between c 48 52 then
      match s with
      | d :: s' =>
        if d = 46 then (Pzpr.arrowNumber16 n s').map fun r => (some (c - 48, (-2 : Int)) :: r.1, r.2)
        else match Pzpr.hexVal d with
          | some v => (Pzpr.arrowNumber16 n s').map fun r => (some (c - 48, (v : Int)) :: r.1, r.2)
          | none => none
      | [] => none
    else if Pzpr.between c 53 57 then
      match s with
      | a :: b :: s' =>
        match Pzpr.hexVal a, Pzpr.hexVal b with
        | some x, some y => (Pzpr.arrowNumber16 n s').map fun r => (some (c - 53, ((16 * x + y : Nat) : Int)) :: r.1, r.2)
        | _, _ => none
      | _ => none
    else if c = 45 then
      match s with
      | d :: a :: b :: e :: s' =>
        match Pzpr.digitBelow 5 d, Pzpr.hexVal a, Pzpr.hexVal b, Pzpr.hexVal e with
        | some dir, some x, some y, some z =>
          (Pzpr.arrowNumber16 n s').map fun r => (some (dir, ((256 * x + 16 * y + z : Nat) : Int)) :: r.1, r.2)
        | _, _, _, _ => none
      | _ => none
    else if Pzpr.between c 97 122 then
      (Pzpr.arrowNumber16 (n + 1 - (c - 96)) s).map fun r => (List.replicate (min (c - 96) (n + 1)) none ++ r.1, r.2)
    else none := by
  rcases s with _ | ⟨d, _ | ⟨a, _ | ⟨b, _ | ⟨e, s'⟩⟩⟩⟩ <;> rfl

theorem arrow_run (m n : Nat) (rest : Pzpr.Str) (h1 : 1 ≤ n) (h2 : n ≤ 26) (hm : n ≤ m) :
    Pzpr.arrowNumber16 m ((96 + n) :: rest) =
      (Pzpr.arrowNumber16 (m - n) rest).map fun r => (List.replicate n none ++ r.1, r.2) := by
  obtain ⟨m', rfl⟩ : ∃ m', m = m' + 1 := ⟨m - 1, by omega⟩
  have b1 : Pzpr.between (96 + n) 48 52 = false := by simp [Pzpr.between]; omega
  have b2 : Pzpr.between (96 + n) 53 57 = false := by simp [Pzpr.between]; omega
  have b3 : ¬ (96 + n = 45) := by omega
  have b4 : Pzpr.between (96 + n) 97 122 = true := by simp [Pzpr.between]; omega
  rw [arrow_cons]
  simp only [b1, b2, b3, b4, Bool.false_eq_true, if_false, if_true]
  rw [show 96 + n - 96 = n by omega, show min n (m' + 1) = n by omega]

theorem hexVal_digitChar (n : Nat) (h : n < 16) : Pzpr.hexVal (digitChar n) = some n := by
  interval_cases n <;> decide

theorem arrow_unknown (m : Nat) (rest : Pzpr.Str) (hm : 1 ≤ m) :
    Pzpr.arrowNumber16 m (48 :: 46 :: rest) =
      (Pzpr.arrowNumber16 (m - 1) rest).map fun r => (some (0, (-2 : Int)) :: r.1, r.2) := by
  obtain ⟨m', rfl⟩ : ∃ m', m = m' + 1 := ⟨m - 1, by omega⟩
  rw [arrow_cons]
  simp [Pzpr.between]

theorem arrow_small (m d n : Nat) (rest : Pzpr.Str) (hm : 1 ≤ m) (hd : d ≤ 4) (hn : n < 16) :
    Pzpr.arrowNumber16 m ((48 + d) :: digitChar n :: rest) =
      (Pzpr.arrowNumber16 (m - 1) rest).map fun r => (some (d, (n : Int)) :: r.1, r.2) := by
  obtain ⟨m', rfl⟩ : ∃ m', m = m' + 1 := ⟨m - 1, by omega⟩
  have b1 : Pzpr.between (48 + d) 48 52 = true := by simp [Pzpr.between]; omega
  rw [arrow_cons]
  simp only [b1, if_true, if_neg (digitChar_ne_punct n).2.2, hexVal_digitChar n hn]
  rw [show 48 + d - 48 = d by omega, show m' + 1 - 1 = m' by omega]

theorem arrow_big (m d n : Nat) (rest : Pzpr.Str) (hm : 1 ≤ m) (hd : d ≤ 4) (hn1 : 16 ≤ n) (hn : n < 256) :
    Pzpr.arrowNumber16 m ((48 + d + 5) :: digitChar (n / 16) :: digitChar (n % 16) :: rest) =
      (Pzpr.arrowNumber16 (m - 1) rest).map fun r => (some (d, (n : Int)) :: r.1, r.2) := by
  obtain ⟨m', rfl⟩ : ∃ m', m = m' + 1 := ⟨m - 1, by omega⟩
  have b1 : Pzpr.between (48 + d + 5) 48 52 = false := by simp [Pzpr.between]; omega
  have b2 : Pzpr.between (48 + d + 5) 53 57 = true := by simp [Pzpr.between]; omega
  rw [arrow_cons]
  simp only [b1, b2, Bool.false_eq_true, if_false, if_true, hexVal_digitChar (n / 16) (by omega),
    hexVal_digitChar (n % 16) (by omega)]
  rw [show 48 + d + 5 - 53 = d by omega, show m' + 1 - 1 = m' by omega, show 16 * (n / 16) + n % 16 = n by omega]

theorem charOfDir_ne (d : Nat) : charOfDir d ≠ 46 ∧ charOfDir d ≠ 63 := by
  unfold charOfDir; split
  · omega
  · split
    · omega
    · split <;> omega

theorem dirOfChar_charOfDir (d : Nat) (h1 : 1 ≤ d) (h4 : d ≤ 4) : dirOfChar (charOfDir d) = some d := by
  interval_cases d <;> decide

theorem toBase10_len3 (n : Nat) (h : n < 1000) : (toBase 10 n).length ≤ 3 := by
  rw [toBase_length]
  by_cases h1 : n < 10
  · rw [digits_length_of_lt 10 n (by omega) h1]; omega
  · rw [digits_length_of_ge 10 n (by omega) (by omega)]
    by_cases h2 : n / 10 < 10
    · rw [digits_length_of_lt 10 _ (by omega) h2]; omega
    · rw [digits_length_of_ge 10 _ (by omega) (by omega), digits_length_of_lt 10 _ (by omega) (by omega)]

theorem toBase16_two (n : Nat) (h1 : 16 ≤ n) (h2 : n < 256) :
    toBase 16 n = [digitChar (n / 16), digitChar (n % 16)] := by
  simp [toBase, digits_of_ge 16 n (by omega) h1, digits_of_lt 16 (n / 16) (by omega) (by omega)]

theorem yval_empty (x : YCell) (h : pyEq x.val (.str [46, 46]) = true) : x = .empty := by
  cases x with
  | empty => rfl
  | unknown => simp [YCell.val, pyEq] at h
  | arrow d n =>
    have := (charOfDir_ne d).1
    simp [YCell.val, pyEq, this] at h

/-- `YajilinClue.serialize` on a typed list of yajilin cells -/
theorem yajilinSer_typed (X : List YCell) (hX : ∀ x ∈ X, x.Ok) (p k : Nat) (tk : Str)
    (h : yajilinSer (X.map YCell.val) p = .ok (k, tk)) :
    k = 1 ∧ p + 1 ≤ X.length ∧ ∃ x, X[p]? = some x ∧
      ((x = .unknown ∧ tk = [48, 46]) ∨
       (∃ d n, x = .arrow d n ∧ d ≤ 4 ∧ n < 16 ∧ tk = [48 + d, digitChar n]) ∨
       (∃ d n, x = .arrow d n ∧ d ≤ 4 ∧ 16 ≤ n ∧ n < 256 ∧
          tk = [48 + d + 5, digitChar (n / 16), digitChar (n % 16)])) := by
  unfold yajilinSer at h
  split at h
  · simp at h
  · rename_i hp
    simp only [List.length_map, ge_iff_le, Nat.not_le] at hp
    have hx : X[p]? = some X[p] := List.getElem?_eq_getElem hp
    have hok := hX X[p] (List.getElem_mem hp)
    rw [List.getElem?_map, hx] at h
    simp only [Option.map_some] at h
    generalize X[p] = x at hx hok h
    cases x with
    | empty => simp [YCell.val, pyEq] at h
    | unknown =>
      simp [YCell.val, pyEq, qq] at h
      exact ⟨h.1.symm, by omega, _, hx, Or.inl ⟨rfl, h.2.symm⟩⟩
    | arrow d n =>
      obtain ⟨hd1, hd4, hn⟩ := hok
      have hne1 : pyEq (.str (charOfDir d :: toBase 10 n)) (.str [46, 46]) = false := by
        have := (charOfDir_ne d).1
        simp [pyEq, this]
      have hne2 : pyEq (.str (charOfDir d :: toBase 10 n)) (.str qq) = false := by
        have := (charOfDir_ne d).2
        simp [pyEq, qq, this]
      have hemp : (toBase 10 n).isEmpty = false := by
        have := toBase_ne_nil 10 n (by omega)
        simpa using this
      have hall : (toBase 10 n).all isAsciiDigit = true := by
        rw [List.all_eq_true]
        intro c hc
        have := toBase10_ascii n c hc
        simp [isAsciiDigit, this.1, this.2]
      have hpy : pyInt (toBase 10 n) = .ok n := pyInt_toBase10 n (by have := toBase10_len3 n (by omega); omega)
      simp only [YCell.val, hne1, hne2, Bool.false_eq_true, if_false, dirOfChar_charOfDir d hd1 hd4, hemp, hall,
        Bool.not_true, Bool.or_self, hpy, Outcome.bind_ok] at h
      split at h
      · rename_i hn16
        simp only [Outcome.ok.injEq, Prod.mk.injEq] at h
        refine ⟨h.1.symm, by omega, _, hx, Or.inr (Or.inl ⟨d, n, rfl, hd4, hn16, ?_⟩)⟩
        rw [← h.2, toBase_of_lt 16 n (by omega) hn16]
      · rename_i hn16
        rw [if_pos (by omega)] at h
        simp only [Outcome.ok.injEq, Prod.mk.injEq] at h
        refine ⟨h.1.symm, by omega, _, hx, Or.inr (Or.inr ⟨d, n, rfl, hd4, by omega, by omega, ?_⟩)⟩
        rw [← h.2, toBase16_two n (by omega) (by omega)]

theorem take_one_of_getElem? {α : Type} {X : List α} {p : Nat} {x : α} (h : X[p]? = some x) :
    (X.drop p).take 1 = [x] := by
  rw [drop_of_getElem? h]; simp

theorem yajilin_step (env : Env) (X : List YCell) (hX : ∀ x ∈ X, x.Ok) :
    StepLaw YCell.val yajilinQ Pzpr.arrowNumber16
      (ser (.oneOf [.yajilinClue, .spaces (.str [46, 46]) 9]) env) X := by
  intro p k tk hp hf
  have hser : ser (.oneOf [.yajilinClue, .spaces (.str [46, 46]) 9]) env =
      oneOfF [yajilinSer, spacesSer (.str [46, 46]) 9] := by
    simp [ser, serL]
  rw [hser] at hf
  rcases oneOf2_ok _ _ _ _ _ hf with h | h
  · obtain ⟨rfl, hp1, x, hx, hcase⟩ := yajilinSer_typed X hX p k tk h
    refine ⟨by omega, hp1, fun rest => ?_⟩
    rw [take_one_of_getElem? hx]
    rcases hcase with ⟨rfl, rfl⟩ | ⟨d, n, rfl, hd, hn, rfl⟩ | ⟨d, n, rfl, hd, hn1, hn2, rfl⟩
    · exact arrow_unknown _ rest (by omega)
    · exact arrow_small _ d n rest (by omega) hd hn
    · exact arrow_big _ d n rest (by omega) hd hn1 hn2
  · obtain ⟨hk1, hk2, hk3, rfl, hwin⟩ :=
      spacesSer_typed YCell.val (.str [46, 46]) .empty yval_empty 9 (by omega) (by omega) X p k tk h
    refine ⟨hk1, hk3, fun rest => ?_⟩
    have hc : digitChar ((9 : Int) + (k : Int)).toNat = 96 + k := by unfold digitChar; split <;> omega
    rw [hc, List.singleton_append, arrow_run _ k rest hk1 (by omega) (by omega), hwin]
    simp [yajilinQ]

theorem pzpr_yajilin (h w : Nat) (g : List (List YCell)) (hg : YGrid h w g) (body : Str)
    (hs : serProblem Gen.yajilinCombinator (yGridVal g) h w = .ok body) :
    Pzpr.decodeYajilin h w body = some (g.map fun r => r.map yajilinQ) := by
  obtain ⟨r, hr, rfl⟩ := serProblem_ok hs
  have hr' : gridSer (ser (.oneOf [.yajilinClue, .spaces (.str [46, 46]) 9]) ⟨h, w⟩) h w
      [.list (g.map fun r => .list (r.map YCell.val))] 0 = .ok r := by
    simpa [Gen.yajilinCombinator, ser, gridDims, yGridVal] using hr
  have hX : ∀ x ∈ g.flatten, x.Ok := by
    intro x hx
    obtain ⟨r, hr, hxr⟩ := List.mem_flatten.mp hx
    exact (hg.2 r hr).2 x hxr
  exact grid_decode YCell.val yajilinQ Pzpr.arrowNumber16 _ h w g hg.1 (fun r hr => (hg.2 r hr).1) arrow_zero
    (yajilin_step _ g.flatten hX) r hr'

/-! ### masyu -/

theorem circle_zero (s : Pzpr.Str) : Pzpr.circle 0 s = some ([], s) := by
  simp [Pzpr.circle, Pzpr.mapOpt]

/-- recursive characterisation of `Pzpr.circle`: one character holds the next (at most three) cells -/
theorem circle_cons (n c v : Nat) (s : Pzpr.Str) (hn : 1 ≤ n) (hv : Pzpr.digitBelow 27 c = some v) :
    Pzpr.circle n (c :: s) =
      (Pzpr.circle (n - 3) s).map fun r => ([v / 9 % 3, v / 3 % 3, v % 3].take n ++ r.1, r.2) := by
  have hk : (n + 2) / 3 = (n - 3 + 2) / 3 + 1 := by omega
  unfold Pzpr.circle
  simp only [hk, List.length_cons, List.take_succ_cons, List.drop_succ_cons]
  generalize (n - 3 + 2) / 3 = k'
  by_cases hs : s.length < k'
  · rw [if_pos (by omega), if_pos hs]; rfl
  · rw [if_neg (by omega), if_neg hs]
    simp only [Pzpr.mapOpt, hv]
    cases hm : Pzpr.mapOpt (Pzpr.digitBelow 27) (List.take k' s) with
    | none => rfl
    | some vs =>
      simp only [Option.map_some, List.map_cons, List.flatten_cons, List.take_append, List.length_cons,
        List.length_nil]

theorem digitBelow27_digitChar (v : Nat) (h : v < 27) : Pzpr.digitBelow 27 (digitChar v) = some v := by
  interval_cases v <;> decide

theorem noBoolL_map_int : ∀ X : List Int, noBoolL (X.map PyVal.int) = true
  | [] => rfl
  | x :: X => by simp [noBoolL, PyVal.noBool, noBoolL_map_int X]

/-- left inverse of `PyVal.int` followed by `masyuQ` -/
def unInt : PyVal → Nat
  | .int z => z.toNat
  | _ => 0

theorem map_unInt (l : List Int) : (l.map PyVal.int).map unInt = l.map masyuQ := by
  induction l with
  | nil => rfl
  | cons a l ih => simp [unInt, masyuQ]

/-- `MultiDigit(3, 3).serialize` on a list of ints -/
theorem multiDigitSer_masyu (X : List Int) (p k : Nat) (tk : Str)
    (h : multiDigitSer 3 3 (X.map PyVal.int) p = .ok (k, tk)) :
    p < X.length ∧ k = min (X.length - p) 3 ∧ ∃ v, v < 27 ∧ tk = [digitChar v] ∧
      [v / 9 % 3, v / 3 % 3, v % 3].take k = ((X.drop p).take k).map masyuQ := by
  unfold multiDigitSer at h
  simp only [List.length_map] at h
  split at h
  · simp at h
  · split at h
    · simp at h
    · rename_i hi1 hi2
      obtain ⟨v, hpack, hk⟩ := Outcome.bind_eq_ok.mp h
      simp only [Outcome.ok.injEq, Prod.mk.injEq] at hk
      obtain ⟨rfl, rfl⟩ := hk
      rw [← List.map_drop] at hpack
      have hnb := noBoolL_map_int (X.drop p)
      have hv := mdPack_lt 3 (by omega) 3 _ v hpack hnb
      have hun := mdUnpack_mdPack 3 (by omega) 3 _ v hpack hnb
      have hl : (X.drop p).length = X.length - p := List.length_drop
      refine ⟨by omega, rfl, v, by omega, toBase_of_lt 36 v (by omega) (by omega), ?_⟩
      have hun' : [v / 9 % 3, v / 3 % 3, v % 3] =
          ((X.drop p).take 3).map masyuQ ++ List.replicate (3 - (X.drop p).length) 0 := by
        have := congrArg (List.map unInt) hun
        rw [← List.map_take, List.map_append, map_unInt, List.length_map] at this
        simp only [mdUnpack, List.map_cons, List.map_nil, unInt, Int.toNat_natCast, List.map_replicate] at this
        rw [show Int.toNat 0 = 0 from rfl] at this
        rw [← this, show v / 3 / 3 % 3 = v / 9 % 3 by omega]
      rw [hun', ← hl, Nat.min_comm, ← List.take_eq_take_min]
      exact List.take_left' (by simp [List.length_take])

theorem masyu_step (env : Env) (X : List Int) :
    StepLaw PyVal.int masyuQ Pzpr.circle (ser (.multiDigit 3 3) env) X := by
  intro p k tk hp hf
  have hser : ser (.multiDigit 3 3) env = multiDigitSer 3 3 := by simp [ser]
  rw [hser] at hf
  obtain ⟨_, hk, v, hv, rfl, hwin⟩ := multiDigitSer_masyu X p k tk hf
  refine ⟨by omega, by omega, fun rest => ?_⟩
  rw [List.singleton_append, circle_cons _ _ v rest (by omega) (digitBelow27_digitChar v hv),
    show X.length - p - k = X.length - p - 3 by omega, ← hwin]
  have : List.take (X.length - p) [v / 9 % 3, v / 3 % 3, v % 3] = List.take k [v / 9 % 3, v / 3 % 3, v % 3] := by
    rw [List.take_eq_take_min, hk]; rfl
  rw [this]

theorem pzpr_masyu (h w : Nat) (g : List (List Int)) (hg : IntGrid MasyuCell h w g) (body : Str)
    (hs : serProblem Gen.masyuCombinator (intGridVal g) h w = .ok body) :
    Pzpr.decodeMasyu h w body = some (g.map fun r => r.map masyuQ) := by
  obtain ⟨r, hr, rfl⟩ := serProblem_ok hs
  have hr' : gridSer (ser (.multiDigit 3 3) ⟨h, w⟩) h w
      [.list (g.map fun r => .list (r.map PyVal.int))] 0 = .ok r := by
    simpa [Gen.masyuCombinator, ser, gridDims, intGridVal] using hr
  exact grid_decode PyVal.int masyuQ Pzpr.circle _ h w g hg.1 (fun r hr => (hg.2 r hr).1) circle_zero
    (masyu_step _ g.flatten) r hr'

#print axioms pzpr_slitherlink
#print axioms pzpr_masyu
#print axioms pzpr_yajilin

end Cspuz.Proofs.C16PzprCells
