/-
  C08, the planar lemma (a discrete Jordan-curve statement): on a board with at least two rows and
  two columns and no two orthogonally adjacent black cells, the diagonal graph of the black cells
  (with the outside vertex) is a forest iff the white cells are orthogonally connected.

  (⇒) `C08PlanarEasy.connected_of_forest`: induction on the number of black cells, removing a leaf.
  (⇐) `C08PlanarHard.forest_of_connected`: ray-casting parity of a cycle's edge set.
-/
import CspuzModel.Proofs.C08PlanarEasy
import CspuzModel.Proofs.C08PlanarHard
namespace Cspuz.Proofs.C08Planar
open Cspuz Cspuz.Spec

theorem planar : ∀ (h w : Nat) (act : Nat → Bool), 2 ≤ h → 2 ≤ w →
    NoAdjacentActive (Graph.grid h w) act →
    (DiagForest h w act ↔ ActiveConnected (Graph.grid h w) (fun v => !act v)) :=
  fun _ _ _ hh hw hNA =>
    ⟨C08PlanarEasy.connected_of_forest hh hw hNA, C08PlanarHard.forest_of_connected hh hw hNA⟩

end Cspuz.Proofs.C08Planar
