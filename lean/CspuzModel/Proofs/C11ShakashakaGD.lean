/-
  C11 / shakashaka — geometry, rotated case: an area without any cell side on its boundary is a union of "diamonds"
  (two quarters resting on one cell side = a unit square of the grid p = (X+Y)/2, q = (X-Y)/2), and the diamonds form a
  rectangle by the classical lemma (Proofs/C11ShakashakaRect.lean).
-/
import CspuzModel.Proofs.C11ShakashakaG0
import CspuzModel.Proofs.C11ShakashakaRect
namespace Cspuz.Proofs.C11ShakashakaGD
open Cspuz Cspuz.Spec Cspuz.Spec.Shakashaka Cspuz.Proofs.C11ShakashakaG0 Cspuz.Proofs.C11ShakashakaRect

/-- The unit square of the `(p, q)`-grid that contains the quarter (lower-left corner). -/
def dm (t : Quarter) : Int × Int :=
  match t.q with
  | 0 => (t.x + t.y, t.x - t.y)
  | 1 => (t.x + t.y + 1, t.x - t.y)
  | 2 => (t.x + t.y + 1, t.x - t.y - 1)
  | 3 => (t.x + t.y, t.x - t.y - 1)

theorem dm_across (t : Quarter) : dm (across t) = dm t := by
  obtain ⟨y, x, q⟩ := t
  fin_cases q <;> simp [across, dm] <;> omega

theorem inRotated_iff (a b c d : Int) (t : Quarter) :
    InRotated a b c d t ↔ (a ≤ (dm t).1 ∧ (dm t).1 + 1 ≤ b ∧ c ≤ (dm t).2 ∧ (dm t).2 + 1 ≤ d) := by
  obtain ⟨y, x, q⟩ := t
  fin_cases q <;> simp [InRotated, verts, dm] <;> omega

theorem dm_eq {s t : Quarter} (h : dm s = dm t) : s = t ∨ s = across t := by
  obtain ⟨y, x, q⟩ := s
  obtain ⟨y', x', q'⟩ := t
  fin_cases q <;> fin_cases q' <;> simp [dm, across] at h ⊢ <;> omega

theorem dm_next (y x : Int) (q : Fin 4) : Adj4 (dm ⟨y, x, q⟩) (dm ⟨y, x, q + 1⟩) := by
  fin_cases q <;> simp [dm, Adj4]

theorem adj4_symm {a b : Int × Int} (h : Adj4 a b) : Adj4 b a := by
  unfold Adj4 at *
  omega

/-- A touching step moves to the same or a 4-adjacent diamond. -/
theorem dm_touch {s t : Quarter} (h : Touch s t) : dm s = dm t ∨ Adj4 (dm s) (dm t) := by
  rcases h with ⟨hy, hx, hq⟩ | h
  · obtain ⟨y, x, q⟩ := s
    obtain ⟨y', x', q'⟩ := t
    simp only at hy hx hq
    subst hy hx
    rcases hq with rfl | rfl
    · exact Or.inr (dm_next _ _ _)
    · exact Or.inr (adj4_symm (dm_next _ _ _))
  · left; rw [h, dm_across]

/-! ### pure facts about `AnglesOK` -/

theorem fin8_facts : ∀ k : Fin 8, k + 7 = k - 1 ∧ k + 7 + 1 = k ∧ k + 7 + 2 = k + 1 ∧ k + 7 + 3 = k + 2 ∧
    k + 7 + 4 = k + 3 ∧ k + 6 + 1 = k + 7 ∧ k + 7 - 1 = k + 6 := by decide

theorem fin8_cover : ∀ k i : Fin 8, i = k ∨ i = k + 1 ∨ i = k + 2 ∨ i = k + 3 ∨ i = k + 4 ∨ i = k + 5 ∨ i = k + 6 ∨
    i = k + 7 := by decide

/-- Six consecutive white octants force all eight. -/
theorem angles_all_of_six {o : Fin 8 → Prop} (h : AnglesOK o) (k : Fin 8) (h0 : o k) (h1 : o (k + 1))
    (h2 : o (k + 2)) (h3 : o (k + 3)) (h4 : o (k + 4)) (h5 : o (k + 5)) : ∀ i, o i := by
  rcases h with h | h
  · exact h
  · obtain ⟨e1, e2, e3, e4, e5, e6, e7⟩ := fin8_facts k
    have h7 : o (k + 7) := by
      by_contra hn
      have := h k h0 (by rw [← e1]; exact hn)
      rcases this with ⟨_, hx⟩ | ⟨_, _, _, hx⟩
      · exact hx h2
      · exact hx h4
    have h6 : o (k + 6) := by
      by_contra hn
      have := h (k + 7) h7 (by rw [e7]; exact hn)
      rw [e2, e3, e4, e5] at this
      rcases this with ⟨_, hx⟩ | ⟨_, _, _, hx⟩
      · exact hx h1
      · exact hx h3
    intro i
    rcases fin8_cover k i with rfl | rfl | rfl | rfl | rfl | rfl | rfl | rfl <;> assumption

/-! ### the diamonds of an area without cell sides on its boundary -/

/-- The diamonds met by the area of `s`. -/
def DS (W : Quarter → Prop) (s : Quarter) (p : Int × Int) : Prop := ∃ t, Comp W s t ∧ dm t = p

section
variable {W : Quarter → Prop} {s : Quarter}

theorem comp_across (hs : W s) (hno : ∀ t, Comp W s t → W (across t)) {t : Quarter} (ht : Comp W s t) :
    Comp W s (across t) :=
  comp_step ht (comp_white hs ht) (hno t ht) (touch_across t)

theorem mem_of_DS (hs : W s) (hno : ∀ t, Comp W s t → W (across t)) {p : Int × Int} (hp : DS W s p)
    (t : Quarter) (ht : dm t = p) : Comp W s t := by
  obtain ⟨t0, h0, e0⟩ := hp
  rcases dm_eq (ht.trans e0.symm) with rfl | rfl
  · exact h0
  · exact comp_across hs hno h0

theorem ds_conn : ∀ t, Comp W s t →
    Relation.ReflTransGen (fun a b => DS W s a ∧ DS W s b ∧ Adj4 a b) (dm s) (dm t) := by
  intro t ht
  induction ht with
  | refl => exact Relation.ReflTransGen.refl
  | @tail b c hsb hbc ih =>
    rcases dm_touch hbc.2.2 with e | e
    · rw [← e]; exact ih
    · exact Relation.ReflTransGen.tail ih ⟨⟨b, hsb, rfl⟩, ⟨c, Relation.ReflTransGen.tail hsb hbc, rfl⟩, e⟩

theorem ds_bounded (hs : W s) (hb : Bounded W) :
    ∃ B : Int, ∀ p, DS W s p → -B ≤ p.1 ∧ p.1 ≤ B ∧ -B ≤ p.2 ∧ p.2 ≤ B := by
  obtain ⟨B, hB⟩ := hb
  refine ⟨2 * B + 2, ?_⟩
  rintro p ⟨t, ht, rfl⟩
  have := hB t (comp_white hs ht)
  obtain ⟨y, x, q⟩ := t
  simp only at this
  fin_cases q <;> simp only [dm] <;> omega

/-- Around a cell centre: two opposite diamonds of the area force all four. -/
theorem ds_centre (hc : CellPattern W) (hs : W s) (hno : ∀ t, Comp W s t → W (across t)) (y x : Int)
    (q1 q2 : Fin 4) (hq : q2 = q1 + 2) (h1 : DS W s (dm ⟨y, x, q1⟩)) (h2 : DS W s (dm ⟨y, x, q2⟩)) (q' : Fin 4) :
    DS W s (dm ⟨y, x, q'⟩) := by
  subst hq
  have c1 := mem_of_DS hs hno h1 _ rfl
  have c2 := mem_of_DS hs hno h2 _ rfl
  have hall := cell_all_of_opposite hc y x q1 (comp_white hs c1) (comp_white hs c2)
  exact ⟨_, comp_trans c1 (comp_cell hc y x q1 q' (hall _) (hall _)), rfl⟩

theorem fin8_miss : ∀ a : Fin 8, (a + 2 ≠ a ∧ a + 2 ≠ a + 1) ∧ (a + 2 + 1 ≠ a ∧ a + 2 + 1 ≠ a + 1) ∧
    (a + 2 + 2 ≠ a ∧ a + 2 + 2 ≠ a + 1) ∧ (a + 2 + 3 ≠ a ∧ a + 2 + 3 ≠ a + 1) ∧
    (a + 2 + 4 ≠ a ∧ a + 2 + 4 ≠ a + 1) ∧ (a + 2 + 5 ≠ a ∧ a + 2 + 5 ≠ a + 1) ∧ a + 2 + 5 + 1 = a := by decide

/-- Around a grid point: if all octants except `a`, `a + 1` are in the area, all are. -/
theorem ds_point (ha : Angles W) (hs : W s) (py px : Int) (a : Fin 8)
    (h : ∀ i : Fin 8, i ≠ a → i ≠ a + 1 → Comp W s (octant py px i)) : ∀ i, Comp W s (octant py px i) := by
  obtain ⟨m0, m1, m2, m3, m4, m5, e⟩ := fin8_miss a
  have c0 := h _ m0.1 m0.2
  have c1 := h _ m1.1 m1.2
  have c2 := h _ m2.1 m2.2
  have c3 := h _ m3.1 m3.2
  have c4 := h _ m4.1 m4.2
  have c5 := h _ m5.1 m5.2
  have hall := angles_all_of_six (ha py px) (a + 2) (comp_white hs c0) (comp_white hs c1) (comp_white hs c2)
    (comp_white hs c3) (comp_white hs c4) (comp_white hs c5)
  have ca : Comp W s (octant py px a) := by
    have := comp_step c5 (comp_white hs c5) (hall (a + 2 + 5 + 1)) (touch_octant py px (a + 2 + 5))
    rwa [e] at this
  have ca1 : Comp W s (octant py px (a + 1)) := comp_step ca (hall _) (hall _) (touch_octant py px a)
  intro i
  by_cases h1 : i = a
  · rw [h1]; exact ca
  · by_cases h2 : i = a + 1
    · rw [h2]; exact ca1
    · exact h i h1 h2

end

theorem dm_octant (py px : Int) :
    dm (octant py px 0) = (px + py - 1, px - py) ∧ dm (octant py px 1) = (px + py - 1, px - py - 1) ∧
    dm (octant py px 2) = (px + py - 1, px - py - 1) ∧ dm (octant py px 3) = (px + py, px - py - 1) ∧
    dm (octant py px 4) = (px + py, px - py - 1) ∧ dm (octant py px 5) = (px + py, px - py) ∧
    dm (octant py px 6) = (px + py, px - py) ∧ dm (octant py px 7) = (px + py - 1, px - py) := by
  refine ⟨?_, ?_, ?_, ?_, ?_, ?_, ?_, ?_⟩ <;> simp only [octant, dm, Prod.mk.injEq] <;> omega

section
variable {W : Quarter → Prop} {s : Quarter}

/-- The window rule around a grid point. -/
theorem ds_window_point (ha : Angles W) (hs : W s) (hno : ∀ t, Comp W s t → W (across t)) (py px i j : Int)
    (hi : i + 1 = px + py) (hj : j + 1 = px - py) :
    (DS W s (i, j) → DS W s (i + 1, j) → DS W s (i, j + 1) → DS W s (i + 1, j + 1)) ∧
    (DS W s (i, j) → DS W s (i + 1, j) → DS W s (i + 1, j + 1) → DS W s (i, j + 1)) ∧
    (DS W s (i, j) → DS W s (i, j + 1) → DS W s (i + 1, j + 1) → DS W s (i + 1, j)) ∧
    (DS W s (i + 1, j) → DS W s (i, j + 1) → DS W s (i + 1, j + 1) → DS W s (i, j)) := by
  obtain ⟨d0, d1, d2, d3, d4, d5, d6, d7⟩ := dm_octant py px
  have o0 : dm (octant py px 0) = (i, j + 1) := by rw [d0, Prod.mk.injEq]; omega
  have o1 : dm (octant py px 1) = (i, j) := by rw [d1, Prod.mk.injEq]; omega
  have o2 : dm (octant py px 2) = (i, j) := by rw [d2, Prod.mk.injEq]; omega
  have o3 : dm (octant py px 3) = (i + 1, j) := by rw [d3, Prod.mk.injEq]; omega
  have o4 : dm (octant py px 4) = (i + 1, j) := by rw [d4, Prod.mk.injEq]; omega
  have o5 : dm (octant py px 5) = (i + 1, j + 1) := by rw [d5, Prod.mk.injEq]; omega
  have o6 : dm (octant py px 6) = (i + 1, j + 1) := by rw [d6, Prod.mk.injEq]; omega
  have o7 : dm (octant py px 7) = (i, j + 1) := by rw [d7, Prod.mk.injEq]; omega
  refine ⟨fun hA hB hD => ?_, fun hA hB hC => ?_, fun hA hD hC => ?_, fun hB hD hC => ?_⟩
  · refine ⟨_, ds_point ha hs py px 5 ?_ 5, o5⟩
    intro k h1 h2
    fin_cases k
    · exact mem_of_DS hs hno hD _ o0
    · exact mem_of_DS hs hno hA _ o1
    · exact mem_of_DS hs hno hA _ o2
    · exact mem_of_DS hs hno hB _ o3
    · exact mem_of_DS hs hno hB _ o4
    · exact absurd rfl h1
    · exact absurd rfl h2
    · exact mem_of_DS hs hno hD _ o7
  · refine ⟨_, ds_point ha hs py px 7 ?_ 7, o7⟩
    intro k h1 h2
    fin_cases k
    · exact absurd rfl h2
    · exact mem_of_DS hs hno hA _ o1
    · exact mem_of_DS hs hno hA _ o2
    · exact mem_of_DS hs hno hB _ o3
    · exact mem_of_DS hs hno hB _ o4
    · exact mem_of_DS hs hno hC _ o5
    · exact mem_of_DS hs hno hC _ o6
    · exact absurd rfl h1
  · refine ⟨_, ds_point ha hs py px 3 ?_ 3, o3⟩
    intro k h1 h2
    fin_cases k
    · exact mem_of_DS hs hno hD _ o0
    · exact mem_of_DS hs hno hA _ o1
    · exact mem_of_DS hs hno hA _ o2
    · exact absurd rfl h1
    · exact absurd rfl h2
    · exact mem_of_DS hs hno hC _ o5
    · exact mem_of_DS hs hno hC _ o6
    · exact mem_of_DS hs hno hD _ o7
  · refine ⟨_, ds_point ha hs py px 1 ?_ 1, o1⟩
    intro k h1 h2
    fin_cases k
    · exact mem_of_DS hs hno hD _ o0
    · exact absurd rfl h1
    · exact absurd rfl h2
    · exact mem_of_DS hs hno hB _ o3
    · exact mem_of_DS hs hno hB _ o4
    · exact mem_of_DS hs hno hC _ o5
    · exact mem_of_DS hs hno hC _ o6
    · exact mem_of_DS hs hno hD _ o7

end

section
variable {W : Quarter → Prop} {s : Quarter}

/-- The window rule around a cell centre. -/
theorem ds_window_centre (hc : CellPattern W) (hs : W s) (hno : ∀ t, Comp W s t → W (across t)) (y x i j : Int)
    (hi : i = x + y) (hj : j = x - y - 1) :
    (DS W s (i, j) → DS W s (i + 1, j) → DS W s (i, j + 1) → DS W s (i + 1, j + 1)) ∧
    (DS W s (i, j) → DS W s (i + 1, j) → DS W s (i + 1, j + 1) → DS W s (i, j + 1)) ∧
    (DS W s (i, j) → DS W s (i, j + 1) → DS W s (i + 1, j + 1) → DS W s (i + 1, j)) ∧
    (DS W s (i + 1, j) → DS W s (i, j + 1) → DS W s (i + 1, j + 1) → DS W s (i, j)) := by
  have e0 : dm ⟨y, x, 0⟩ = (i, j + 1) := by simp only [dm, Prod.mk.injEq]; omega
  have e1 : dm ⟨y, x, 1⟩ = (i + 1, j + 1) := by simp only [dm, Prod.mk.injEq]; omega
  have e2 : dm ⟨y, x, 2⟩ = (i + 1, j) := by simp only [dm, Prod.mk.injEq]; omega
  have e3 : dm ⟨y, x, 3⟩ = (i, j) := by simp only [dm, Prod.mk.injEq]; omega
  rw [← e0, ← e1, ← e2, ← e3]
  refine ⟨fun _ hB hD => ?_, fun hA _ hC => ?_, fun hA _ hC => ?_, fun hB hD _ => ?_⟩
  · exact ds_centre hc hs hno y x 0 2 (by decide) hD hB 1
  · exact ds_centre hc hs hno y x 1 3 (by decide) hC hA 0
  · exact ds_centre hc hs hno y x 1 3 (by decide) hC hA 2
  · exact ds_centre hc hs hno y x 0 2 (by decide) hD hB 3

theorem ds_noThree (hc : CellPattern W) (ha : Angles W) (hs : W s) (hno : ∀ t, Comp W s t → W (across t)) :
    NoThree (DS W s) := by
  intro i j
  have hpar : (i + j) % 2 = 0 ∨ (i + j) % 2 = 1 := by omega
  rcases hpar with h | h
  · exact ds_window_point ha hs hno ((i - j) / 2) ((i + j + 2) / 2) i j (by omega) (by omega)
  · exact ds_window_centre hc hs hno ((i - j - 1) / 2) ((i + j + 1) / 2) i j (by omega) (by omega)

/-- An area none of whose quarters has a non-white quarter across its cell side is a rotated rectangle. -/
theorem rotated_of_noSide (hc : CellPattern W) (hb : Bounded W) (ha : Angles W) (hs : W s)
    (hno : ∀ t, Comp W s t → W (across t)) : ∃ a b c d : Int, ∀ t, Comp W s t ↔ InRotated a b c d t := by
  obtain ⟨a, b, c, d, _, _, h⟩ := rect_of_noThree (DS W s) (dm s) ⟨s, Relation.ReflTransGen.refl, rfl⟩
    (ds_bounded hs hb) (by rintro p ⟨t, ht, rfl⟩; exact ds_conn t ht) (ds_noThree hc ha hs hno)
  refine ⟨a, b + 1, c, d + 1, fun t => ?_⟩
  rw [inRotated_iff]
  constructor
  · intro ht
    have := (h (dm t)).1 ⟨t, ht, rfl⟩
    omega
  · intro ht
    exact mem_of_DS hs hno ((h (dm t)).2 (by omega)) t rfl

end

end Cspuz.Proofs.C11ShakashakaGD
