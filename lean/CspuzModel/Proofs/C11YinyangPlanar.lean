/-
  C11 / Yin-Yang — the auxiliary constraints of `solve_yinyang` follow from the rules: if the black cells are
  connected and the white cells are connected then no 2 × 2 block is checkered and the colour changes at most
  twice round the outer ring.
-/
import CspuzModel.Proofs.C11YinyangCyc
import CspuzModel.Proofs.C11YinyangRing
namespace Cspuz.Proofs.C11YinyangPlanar
open Cspuz.Spec Cspuz.Proofs.C11YinyangDefs

theorem aux_of_connected (h w : Nat) (hh : 1 ≤ h) (hw : 1 ≤ w) (g : Nat → Nat → Bool)
    (hB : CellsConnected h w (fun y x => g y x = true))
    (hW : CellsConnected h w (fun y x => g y x = false)) :
    NoChecker h w g ∧ RingOk h w g :=
  have hd := C11YinyangCyc.degLeTwo hB hW
  ⟨C11YinyangCyc.noChecker_of_degLeTwo hd, C11YinyangRing.ringOk_of_degLeTwo h w hh hw g hd⟩

end Cspuz.Proofs.C11YinyangPlanar
