/-
  C11 / LITS, part A — the `block_id` table of `solve_lits` in closed form under `WellFormed`, and the
  cells of a region as natural-number pairs.
-/
import CspuzModel.Spec.PuzzleRules.Lits
import CspuzModel.Proofs.C11Aquarium
import CspuzModel.Proofs.C11CL
import CspuzModel.Proofs.C11Grid
namespace Cspuz.Proofs.C11LitsA
open Cspuz Cspuz.Spec Cspuz.Puzzles Cspuz.Puzzles.Lits Cspuz.Spec.Lits Cspuz.Proofs
open Cspuz.Proofs.C11Aquarium (Rep rep_replicate rep_congr tableGet_rep fill_block OnBoard)
open Cspuz.Spec.Aquarium (InTank)

/-! ### cells as pairs of naturals -/

/-- A cell of the board as the pair of Python ints the solver handles. -/
def castC (p : Nat × Nat) : Int × Int := ((p.1 : Int), (p.2 : Int))

/-- Back. -/
def natC (c : Int × Int) : Nat × Nat := (c.1.toNat, c.2.toNat)

@[simp] theorem natC_castC (p : Nat × Nat) : natC (castC p) = p := by
  simp [natC, castC]

theorem castC_natC {c : Int × Int} (h1 : 0 ≤ c.1) (h2 : 0 ≤ c.2) : castC (natC c) = c := by
  simp only [natC, castC]
  rw [Int.toNat_of_nonneg h1, Int.toNat_of_nonneg h2]

theorem castC_injective : Function.Injective castC := by
  intro p q h
  have := congrArg natC h
  simpa using this

/-- The cells of a region as pairs of naturals. -/
def cellsN (b : List (Int × Int)) : List (Nat × Nat) := b.map natC

/-- On board. -/
def OnB (pb : Problem) (p : Nat × Nat) : Prop := p.1 < pb.height ∧ p.2 < pb.width

theorem wf_onBoard {pb : Problem} (hwf : WellFormed pb) {b : List (Int × Int)} (hb : b ∈ pb.blocks) :
    OnBoard pb.height pb.width b := hwf.2.2.1 b hb

theorem map_castC_cellsN {h w : Nat} {b : List (Int × Int)} (hb : OnBoard h w b) : (cellsN b).map castC = b := by
  unfold cellsN
  rw [List.map_map]
  conv => rhs; rw [← List.map_id b]
  apply List.map_congr_left
  intro c hc
  obtain ⟨h1, _, h3, _⟩ := hb c hc
  exact castC_natC h1 h3

theorem mem_cellsN {h w : Nat} {b : List (Int × Int)} (hb : OnBoard h w b) {p : Nat × Nat} :
    p ∈ cellsN b ↔ castC p ∈ b := by
  constructor
  · intro hp
    simp only [cellsN, List.mem_map] at hp
    obtain ⟨c, hc, rfl⟩ := hp
    obtain ⟨h1, _, h3, _⟩ := hb c hc
    rw [castC_natC h1 h3]; exact hc
  · intro hp
    simp only [cellsN, List.mem_map]
    exact ⟨castC p, hp, natC_castC p⟩

theorem cellsN_onB {pb : Problem} {b : List (Int × Int)} (hb : OnBoard pb.height pb.width b) {p : Nat × Nat}
    (hp : p ∈ cellsN b) : OnB pb p := by
  have := hb _ ((mem_cellsN hb).1 hp)
  simp only [castC] at this
  exact ⟨by omega, by omega⟩

theorem cellsN_nodup {h w : Nat} {b : List (Int × Int)} (hb : OnBoard h w b) (hnd : b.Nodup) : (cellsN b).Nodup := by
  have : ((cellsN b).map castC).Nodup := by rw [map_castC_cellsN hb]; exact hnd
  exact List.Nodup.of_map _ this

/-! ### the region of a cell -/

/-- Index of the (first) region that lists the cell; `blocks.length` if there is none. -/
def regionIdx (pb : Problem) (p : Nat × Nat) : Nat := pb.blocks.findIdx fun b => b.contains (castC p)

theorem blocks_nodup {pb : Problem} (hwf : WellFormed pb) {b : List (Int × Int)} (hb : b ∈ pb.blocks) : b.Nodup :=
  (List.nodup_flatten.1 hwf.2.2.2.1).1 b hb

theorem blocks_disjoint {pb : Problem} (hwf : WellFormed pb) {i j : Nat} {bi bj : List (Int × Int)}
    (hi : pb.blocks[i]? = some bi) (hj : pb.blocks[j]? = some bj) (hij : i ≠ j) {c : Int × Int}
    (hci : c ∈ bi) (hcj : c ∈ bj) : False := by
  have hpw := (List.nodup_flatten.1 hwf.2.2.2.1).2
  rw [List.pairwise_iff_getElem] at hpw
  obtain ⟨hi', rfl⟩ := List.getElem?_eq_some_iff.1 hi
  obtain ⟨hj', rfl⟩ := List.getElem?_eq_some_iff.1 hj
  rcases Nat.lt_or_gt_of_ne hij with h | h
  · exact hpw i j hi' hj' h hci hcj
  · exact hpw j i hj' hi' h hcj hci

/-- On a well-formed instance every cell of the board lies in exactly one region, the one `regionIdx` names. -/
theorem regionIdx_spec {pb : Problem} (hwf : WellFormed pb) {p : Nat × Nat} (hp : OnB pb p) :
    ∃ b, pb.blocks[regionIdx pb p]? = some b ∧ castC p ∈ b := by
  have hmem := hwf.2.2.2.2 p.1 p.2 hp.1 hp.2
  rw [List.mem_flatten] at hmem
  obtain ⟨b, hb, hpb⟩ := hmem
  have hlt : regionIdx pb p < pb.blocks.length := by
    unfold regionIdx
    rw [List.findIdx_lt_length]
    exact ⟨b, hb, by simpa [castC] using hpb⟩
  refine ⟨pb.blocks[regionIdx pb p], List.getElem?_eq_getElem hlt, ?_⟩
  have := List.findIdx_getElem (w := hlt)
  simpa [regionIdx] using this

theorem regionIdx_lt {pb : Problem} (hwf : WellFormed pb) {p : Nat × Nat} (hp : OnB pb p) :
    regionIdx pb p < pb.blocks.length := by
  obtain ⟨b, hb, _⟩ := regionIdx_spec hwf hp
  exact (List.getElem?_eq_some_iff.1 hb).1

theorem regionIdx_eq_iff {pb : Problem} (hwf : WellFormed pb) {p : Nat × Nat} (hp : OnB pb p) {i : Nat}
    {b : List (Int × Int)} (hb : pb.blocks[i]? = some b) : regionIdx pb p = i ↔ castC p ∈ b := by
  obtain ⟨b', hb', hpb'⟩ := regionIdx_spec hwf hp
  constructor
  · intro h
    rw [h, hb] at hb'
    cases hb'
    exact hpb'
  · intro h
    by_contra hne
    exact blocks_disjoint hwf hb' hb hne hpb' h

/-- Membership in the cells of region `i`. -/
theorem mem_cellsN_iff {pb : Problem} (hwf : WellFormed pb) {i : Nat} {b : List (Int × Int)}
    (hb : pb.blocks[i]? = some b) {p : Nat × Nat} : p ∈ cellsN b ↔ OnB pb p ∧ regionIdx pb p = i := by
  have hbm : b ∈ pb.blocks := List.mem_of_getElem? hb
  have hob := wf_onBoard hwf hbm
  constructor
  · intro hp
    have hon := cellsN_onB hob hp
    exact ⟨hon, (regionIdx_eq_iff hwf hon hb).2 ((mem_cellsN hob).1 hp)⟩
  · rintro ⟨hon, hr⟩
    exact (mem_cellsN hob).2 ((regionIdx_eq_iff hwf hon hb).1 hr)

/-! ### the `block_id` table -/

/-- The loop body of `blockId`. -/
def fillBody (t : List (List Int)) (bi : List (Int × Int) × Nat) : Py (List (List Int)) :=
  bi.1.foldlM (fun (t : List (List Int)) (yx : Int × Int) => tableSet t yx.1 yx.2 (bi.2 : Int)) t

/-- The outer loop `for i, block in enumerate(blocks)`, started at index `k`: a cell that lies in some region
ends up with the index of the LAST region containing it; a cell in no region keeps its entry. -/
theorem fill_blocks {h w : Nat} : ∀ (bs : List (List (Int × Int))) (k : Nat) (t : List (List Int))
    (f : Nat → Nat → Int), Rep h w t f → (∀ b ∈ bs, OnBoard h w b) →
    ∃ t' f', (bs.zipIdx k).foldlM fillBody t = .ok t' ∧ Rep h w t' f' ∧
      ∀ y x,
        (∀ i, i < bs.length → InTank (bs.getD i []) y x →
          (∀ j, i < j → j < bs.length → ¬ InTank (bs.getD j []) y x) → f' y x = ((k + i : Nat) : Int)) ∧
        ((∀ j, j < bs.length → ¬ InTank (bs.getD j []) y x) → f' y x = f y x)
  | [], k, t, f, hr, _ => ⟨t, f, rfl, hr, fun y x => ⟨fun i hi => absurd hi (by simp), fun _ => rfl⟩⟩
  | b :: rest, k, t, f, hr, hb => by
    obtain ⟨t1, ht1, hr1⟩ := fill_block (h := h) (w := w) (k : Int) b t f hr (hb b (by simp))
    obtain ⟨t', f', ht', hr', hf'⟩ := fill_blocks rest (k + 1) t1 _ hr1 (fun b' hb' => hb b' (by simp [hb']))
    refine ⟨t', f', ?_, hr', fun y x => ⟨?_, ?_⟩⟩
    · simp only [List.zipIdx_cons, List.foldlM_cons]
      show (fillBody t (b, k) >>= _) = _
      unfold fillBody
      simp only []
      rw [ht1]; exact ht'
    · intro i hi hin hlast
      cases i with
      | zero =>
        have hnone : ∀ j, j < rest.length → ¬ InTank (rest.getD j []) y x := by
          intro j hj
          have := hlast (j + 1) (by omega) (by simp; omega)
          simpa using this
        rw [(hf' y x).2 hnone]
        have : InTank b y x := by simpa using hin
        rw [if_pos this]; simp
      | succ i =>
        have hin' : InTank (rest.getD i []) y x := by simpa using hin
        have := (hf' y x).1 i (by simpa using hi) hin' (by
          intro j hij hj
          have := hlast (j + 1) (by omega) (by simp; omega)
          simpa using this)
        rw [this]; congr 1; omega
    · intro hnone
      have hnone' : ∀ j, j < rest.length → ¬ InTank (rest.getD j []) y x := by
        intro j hj
        have := hnone (j + 1) (by simp; omega)
        simpa using this
      rw [(hf' y x).2 hnone']
      have : ¬ InTank b y x := by simpa using hnone 0 (by simp)
      rw [if_neg this]

/-- The table built by `solve_lits` on a well-formed instance: every cell of the board holds the index of its
region. -/
theorem blockId_wf {pb : Problem} (hwf : WellFormed pb) :
    ∃ bid, blockId pb = .ok bid ∧
      Rep pb.height pb.width bid (fun y x => ((regionIdx pb (y, x) : Nat) : Int)) := by
  obtain ⟨t', f', ht', hr', hf'⟩ := fill_blocks (h := pb.height) (w := pb.width) pb.blocks 0
    (List.replicate pb.height (List.replicate pb.width (-1))) (fun _ _ => -1)
    (rep_replicate _ _ _) (fun b hb => wf_onBoard hwf hb)
  refine ⟨t', ht', rep_congr hr' ?_⟩
  intro y hy x hx
  obtain ⟨b, hb, hpb⟩ := regionIdx_spec hwf (p := (y, x)) ⟨hy, hx⟩
  obtain ⟨hlt, hbe⟩ := List.getElem?_eq_some_iff.1 hb
  have hgetD : ∀ j (hj : j < pb.blocks.length), pb.blocks.getD j [] = pb.blocks[j] := by
    intro j hj; simp [List.getD, List.getElem?_eq_getElem hj]
  have := (hf' y x).1 (regionIdx pb (y, x)) hlt (by rw [hgetD _ hlt, hbe]; exact hpb) (by
    intro j hij hj hin
    rw [hgetD _ hj] at hin
    exact blocks_disjoint hwf hb (List.getElem?_eq_getElem hj) (by omega) hpb hin)
  rw [this]; simp

end Cspuz.Proofs.C11LitsA
