/-
  C11 / Heyawake — `solve_heyawake` posts a program that encodes the published rules
  (Spec/PuzzleRules/Heyawake.lean): meaning of each group of constraints and the assembly.
-/
import CspuzModel.Proofs.C11HeyawakeB
import CspuzModel.Properties.C08
import CspuzModel.Proofs.C11Frag
import CspuzModel.Proofs.C11CellGraph
import CspuzModel.Proofs.C12Agg
namespace Cspuz.Proofs.C11Heyawake
open Cspuz Cspuz.Spec Cspuz.Puzzles Cspuz.Puzzles.Heyawake Cspuz.Spec.Heyawake Cspuz.Proofs
open Cspuz.Proofs.C11HeyawakeA Cspuz.Proofs.C11HeyawakeB

/-- The grid `g` is the assignment of the cell variables. -/
def Agrees (pb : Problem) (σ : Asg) (g : Nat → Nat → Bool) : Prop :=
  ∀ y, y < pb.height → ∀ x, x < pb.width → g y x = σ.b (y * pb.width + x)

/-! ### rule 1: shaded cells are not adjacent -/

theorem na_plain (h w : Nat) (σ : Asg) :
    C08Adj.Plain (h * w) { cs := naCs h w } σ (NoAdjacentActive (Graph.grid h w) (truthAt σ (bvars 0 (h * w)))) :=
  C08Adj.notAdjacentGrid_plain σ (by simp [bvars]) (C11FragWT.bvars_boolArgs _) (na_eq h w)

theorem na_wt (h w : Nat) : ∀ c ∈ naCs h w, wtB c = true := by
  intro c hc
  simp only [naCs, List.mem_append, List.mem_map] at hc
  rcases hc with ⟨_, _, rfl⟩ | ⟨_, _, rfl⟩ <;> rfl

theorem na_iff {pb : Problem} {σ : Asg} {g : Nat → Nat → Bool} (hg : Agrees pb σ g) :
    (∀ c ∈ naCs pb.height pb.width, eval σ c = some (.b true)) ↔
      (∀ y, y < pb.height → ∀ x, x < pb.width → g y x = true →
        (y + 1 < pb.height → g (y + 1) x = false) ∧ (x + 1 < pb.width → g y (x + 1) = false)) := by
  have hp := (na_plain pb.height pb.width σ).sem
  simp only at hp
  rw [hp, C08Adj.noAdj_grid_iff]
  have hT : ∀ y x, y < pb.height → x < pb.width →
      truthAt σ (bvars 0 (pb.height * pb.width)) (y * pb.width + x) = g y x := by
    intro y x hy hx
    rw [C11FragWT.truthAt_bvars σ _ _ (C11Grid.cell_lt hy hx), hg y hy x hx]
  constructor
  · rintro ⟨hv, hh⟩ y hy x hx hgy
    constructor
    · intro hy1
      have := hv (y, x) (C08Adj.mem_vPairs.2 ⟨hy1, hx⟩)
      simp only [hT _ _ hy1 hx, hT _ _ hy hx, hgy] at this
      simpa using this
    · intro hx1
      have := hh (y, x) (C08Adj.mem_hPairs.2 ⟨hy, hx1⟩)
      simp only [hT _ _ hy hx1, hT _ _ hy hx, hgy] at this
      simpa using this
  · intro H
    constructor
    · rintro ⟨y, x⟩ hp
      obtain ⟨hy1, hx⟩ := C08Adj.mem_vPairs.1 hp
      simp only at hy1 hx
      simp only [hT _ _ hy1 hx, hT _ _ (show y < pb.height by omega) hx]
      rintro ⟨h1, h2⟩
      have := (H y (by omega) x hx h2).1 hy1
      rw [this] at h1; cases h1
    · rintro ⟨y, x⟩ hp
      obtain ⟨hy, hx1⟩ := C08Adj.mem_hPairs.1 hp
      simp only at hy hx1
      simp only [hT _ _ hy hx1, hT _ _ hy (show x < pb.width by omega)]
      rintro ⟨h1, h2⟩
      have := (H y hy x (by omega) h2).2 hx1
      rw [this] at h1; cases h1

/-! ### rule 2: the unshaded cells are connected -/

theorem truthAt_nots (σ : Asg) (n i : Nat) (hi : i < n) : truthAt σ (nots n) i = !σ.b i := by
  simp only [truthAt, nots, bvars, List.getElem?_map, List.getElem?_range hi, Option.map_some, Nat.zero_add,
    eval_node, List.map_cons, List.map_nil, eval_bvar, evalOp]
  cases σ.b i <;> rfl

theorem avc_iff {pb : Problem} (hwf : WellFormed pb) {σ : Asg} {g : Nat → Nat → Bool} (hg : Agrees pb σ g) :
    Realizable (pb.height * pb.width) (avc pb) σ ↔
      CellsConnected pb.height pb.width (fun y x => g y x = false) := by
  have hreal := Cspuz.C04.C04_aux_exact (Graph.grid pb.height pb.width) (nots (pb.height * pb.width))
    (pb.height * pb.width) false (avc pb) σ (C04Prim.grid_wf _ _) (by intro h; cases h)
    (by simp [nots_length, Graph.grid]) (nots_boolArgs _) (avc_eq hwf)
  simp only [Bool.false_eq_true, if_false] at hreal
  rw [hreal, C11CellGraph.activeConnected_grid_iff pb.height pb.width _ (fun y x => g y x = false) (by
    intro y x hy hx
    rw [truthAt_nots σ _ _ (C11Grid.cell_lt hy hx), hg y hy x hx]
    cases σ.b (y * pb.width + x) <;> simp)]

/-! ### rule 3: the numbers -/

theorem eval_count_bvars {ι : Type} (σ : Asg) (L : List ι) (f : ι → Nat) :
    eval σ (countTrueE (L.map fun p => Expr.bvar (f p)))
      = some (.i (((L.filter fun p => σ.b (f p)).length : Nat) : Int)) := by
  rw [eval_countTrueE (L.map fun p => σ.b (f p)) (by simp [List.map_map, Function.comp_def])]
  rw [List.count_eq_countP, List.countP_map, List.countP_eq_length_filter]
  congr 4
  apply List.filter_congr
  intro x _; simp

theorem eval_roomE {pb : Problem} {σ : Asg} {g : Nat → Nat → Bool} (hg : Agrees pb σ g) (r : List (Int × Int))
    (hr : OnBoard pb.height pb.width r) (n : Int) :
    eval σ (roomE pb.width r n) = some (.b true) ↔ (shadedIn g r : Int) = n := by
  have hc := eval_cmp (op := .eq) rfl (eval_count_bvars σ r (fun p => p.1.toNat * pb.width + p.2.toNat))
    (eval_litI σ n)
  rw [show roomE pb.width r n
    = Expr.node .eq [countTrueE (r.map fun p => Expr.bvar (p.1.toNat * pb.width + p.2.toNat)), .litI n] from rfl, hc]
  simp only [cmpOp_eq, Option.some.injEq, Val.b.injEq, beq_iff_eq]
  have : (r.filter fun p => σ.b (p.1.toNat * pb.width + p.2.toNat)) = r.filter fun c => g c.1.toNat c.2.toNat := by
    apply List.filter_congr
    intro c hc
    obtain ⟨h1, h2, h3, h4⟩ := hr c hc
    rw [hg c.1.toNat (by omega) c.2.toNat (by omega)]
  rw [this, shadedIn]

theorem mem_roomCs {pb : Problem} {c : Expr} :
    c ∈ roomCs pb ↔ ∃ i, i < pb.rooms.length ∧ 0 ≤ clue pb i ∧
      c = roomE pb.width (pb.rooms.getD i []) (clue pb i) := by
  simp only [roomCs, roomCsFrom, List.mem_flatMap, roomCs1]
  constructor
  · rintro ⟨⟨r, i⟩, hri, hc⟩
    rw [List.mem_zipIdx_iff_getElem?] at hri
    simp only at hri hc
    have hlt : i < pb.rooms.length := by
      rcases Nat.lt_or_ge i pb.rooms.length with h | h
      · exact h
      · rw [List.getElem?_eq_none h] at hri; cases hri
    split at hc
    · next hv =>
      simp only [List.mem_singleton] at hc
      refine ⟨i, hlt, hv, ?_⟩
      simp [List.getD, hri, hc]
    · simp at hc
  · rintro ⟨i, hi, hv, rfl⟩
    refine ⟨(pb.rooms.getD i [], i), ?_, by simp [hv]⟩
    rw [List.mem_zipIdx_iff_getElem?]
    simp [List.getD, List.getElem?_eq_getElem hi]

theorem room_onBoard {pb : Problem} (hwf : WellFormed pb) {i : Nat} (hi : i < pb.rooms.length) :
    OnBoard pb.height pb.width (pb.rooms.getD i []) := by
  have : pb.rooms.getD i [] = pb.rooms[i] := by simp [List.getD, List.getElem?_eq_getElem hi]
  rw [this]
  exact hwf.2.2.2.1 _ (List.getElem_mem hi)

theorem rooms_iff {pb : Problem} (hwf : WellFormed pb) {σ : Asg} {g : Nat → Nat → Bool} (hg : Agrees pb σ g) :
    (∀ c ∈ roomCs pb, eval σ c = some (.b true)) ↔
      (∀ i, i < pb.rooms.length → 0 ≤ clue pb i → (shadedIn g (pb.rooms.getD i []) : Int) = clue pb i) := by
  constructor
  · intro h i hi hv
    exact (eval_roomE hg _ (room_onBoard hwf hi) _).1 (h _ (mem_roomCs.2 ⟨i, hi, hv, rfl⟩))
  · intro h c hc
    obtain ⟨i, hi, hv, rfl⟩ := mem_roomCs.1 hc
    exact (eval_roomE hg _ (room_onBoard hwf hi) _).2 (h i hi hv)

/-! ### rule 4: a line of unshaded cells crosses at most one room border -/

theorem eval_or_bvars {ι : Type} (σ : Asg) (L : List ι) (f : ι → Nat) :
    eval σ (.node .or (L.map fun p => Expr.bvar (f p))) = some (.b true) ↔ ∃ p ∈ L, σ.b (f p) = true := by
  rw [C12Agg.eval_or_node (bs := L.map fun p => σ.b (f p)) (by
    simp [C12Agg.EvalB, List.map_map, Function.comp_def])]
  simp [List.any_eq_true]

theorem eval_colE {pb : Problem} {σ : Asg} {g : Nat → Nat → Bool} (hg : Agrees pb σ g) {y x k : Nat}
    (hx : x < pb.width) (hyk : y ≤ k) (hk : k + 1 < pb.height) :
    eval σ (colE pb.width y x k) = some (.b true) ↔ ∃ r, y ≤ r ∧ r ≤ k + 1 ∧ g r x = true := by
  unfold colE
  rw [eval_or_bvars]
  constructor
  · rintro ⟨r, hr, hb⟩
    simp only [List.mem_map, List.mem_range] at hr
    obtain ⟨j, hj, rfl⟩ := hr
    exact ⟨y + j, by omega, by omega, by rw [hg _ (by omega) _ hx]; exact hb⟩
  · rintro ⟨r, h1, h2, hb⟩
    refine ⟨r, ?_, by rw [← hg _ (by omega) _ hx]; exact hb⟩
    simp only [List.mem_map, List.mem_range]
    exact ⟨r - y, by omega, by omega⟩

theorem eval_rowE {pb : Problem} {σ : Asg} {g : Nat → Nat → Bool} (hg : Agrees pb σ g) {y x k : Nat}
    (hy : y < pb.height) (hxk : x ≤ k) (hk : k + 1 < pb.width) :
    eval σ (rowE pb.width y x k) = some (.b true) ↔ ∃ c, x ≤ c ∧ c ≤ k + 1 ∧ g y c = true := by
  unfold rowE
  rw [eval_or_bvars]
  constructor
  · rintro ⟨r, hr, hb⟩
    simp only [List.mem_map, List.mem_range] at hr
    obtain ⟨j, hj, rfl⟩ := hr
    exact ⟨x + j, by omega, by omega, by rw [hg _ hy _ (by omega)]; exact hb⟩
  · rintro ⟨r, h1, h2, hb⟩
    refine ⟨r, ?_, by rw [← hg _ hy _ (by omega)]; exact hb⟩
    simp only [List.mem_map, List.mem_range]
    exact ⟨r - x, by omega, by omega⟩

theorem mem_cellV {pb : Problem} {y x : Nat} {c : Expr} :
    c ∈ cellV pb y x ↔ y + 1 < pb.height ∧ dV pb x y = true ∧
      ∃ k, firstB (dV pb x) (y + 1) (pb.height - 1 - (y + 1)) = some k ∧ c = colE pb.width y x k := by
  unfold cellV
  by_cases h1 : y + 1 < pb.height
  · by_cases h2 : dV pb x y = true
    · rw [if_pos h1, if_pos h2]
      cases firstB (dV pb x) (y + 1) (pb.height - 1 - (y + 1)) with
      | none => simp
      | some k => simp [h1, h2]
    · rw [if_pos h1, if_neg h2]; simp [h2]
  · rw [if_neg h1]; simp [h1]

theorem mem_cellH {pb : Problem} {y x : Nat} {c : Expr} :
    c ∈ cellH pb y x ↔ x + 1 < pb.width ∧ dH pb y x = true ∧
      ∃ k, firstB (dH pb y) (x + 1) (pb.width - 1 - (x + 1)) = some k ∧ c = rowE pb.width y x k := by
  unfold cellH
  by_cases h1 : x + 1 < pb.width
  · by_cases h2 : dH pb y x = true
    · rw [if_pos h1, if_pos h2]
      cases firstB (dH pb y) (x + 1) (pb.width - 1 - (x + 1)) with
      | none => simp
      | some k => simp [h1, h2]
    · rw [if_pos h1, if_neg h2]; simp [h2]
  · rw [if_neg h1]; simp [h1]

theorem mem_lineCs {pb : Problem} {c : Expr} :
    c ∈ lineCs pb ↔ ∃ y x, y < pb.height ∧ x < pb.width ∧ (c ∈ cellV pb y x ∨ c ∈ cellH pb y x) := by
  simp only [lineCs, List.mem_flatMap, List.mem_append]
  constructor
  · rintro ⟨p, hp, hc⟩
    obtain ⟨h1, h2⟩ := mem_cellsOf.1 hp
    exact ⟨p.1, p.2, h1, h2, hc⟩
  · rintro ⟨y, x, hy, hx, hc⟩
    exact ⟨(y, x), mem_cellsOf.2 ⟨hy, hx⟩, hc⟩

/-- Vertical lines. -/
theorem vert_iff {pb : Problem} {σ : Asg} {g : Nat → Nat → Bool} (hg : Agrees pb σ g) :
    (∀ y x, y < pb.height → x < pb.width → ∀ c ∈ cellV pb y x, eval σ c = some (.b true)) ↔
      (∀ x, x < pb.width → ∀ y1 y2, y1 < y2 → y2 + 1 < pb.height → BorderBelow pb y1 x → BorderBelow pb y2 x →
        ∃ y, y1 ≤ y ∧ y ≤ y2 + 1 ∧ g y x = true) := by
  constructor
  · intro H x hx y1 y2 h12 h2 b1 b2
    cases hfb : firstB (dV pb x) (y1 + 1) (pb.height - 1 - (y1 + 1)) with
    | none =>
      have := firstB_none.1 hfb y2 (by omega) (by omega)
      rw [dV_iff.2 b2] at this; cases this
    | some k =>
      obtain ⟨g1, g2, g3, g4⟩ := firstB_some.1 hfb
      have hk : k ≤ y2 := by
        by_contra hlt
        have := g4 y2 (by omega) (by omega)
        rw [dV_iff.2 b2] at this; cases this
      have hc : colE pb.width y1 x k ∈ cellV pb y1 x := mem_cellV.2 ⟨by omega, dV_iff.2 b1, k, hfb, rfl⟩
      obtain ⟨r, r1, r2, r3⟩ := (eval_colE hg hx (by omega) (by omega)).1 (H y1 x (by omega) hx _ hc)
      exact ⟨r, r1, by omega, r3⟩
  · intro H y x hy hx c hc
    obtain ⟨h1, h2, k, hfb, rfl⟩ := mem_cellV.1 hc
    obtain ⟨g1, g2, g3, g4⟩ := firstB_some.1 hfb
    exact (eval_colE hg hx (by omega) (by omega)).2
      (H x hx y k (by omega) (by omega) (dV_iff.1 h2) (dV_iff.1 g3))

/-- Horizontal lines. -/
theorem horiz_iff {pb : Problem} {σ : Asg} {g : Nat → Nat → Bool} (hg : Agrees pb σ g) :
    (∀ y x, y < pb.height → x < pb.width → ∀ c ∈ cellH pb y x, eval σ c = some (.b true)) ↔
      (∀ y, y < pb.height → ∀ x1 x2, x1 < x2 → x2 + 1 < pb.width → BorderRight pb y x1 → BorderRight pb y x2 →
        ∃ x, x1 ≤ x ∧ x ≤ x2 + 1 ∧ g y x = true) := by
  constructor
  · intro H y hy x1 x2 h12 h2 b1 b2
    cases hfb : firstB (dH pb y) (x1 + 1) (pb.width - 1 - (x1 + 1)) with
    | none =>
      have := firstB_none.1 hfb x2 (by omega) (by omega)
      rw [dH_iff.2 b2] at this; cases this
    | some k =>
      obtain ⟨g1, g2, g3, g4⟩ := firstB_some.1 hfb
      have hk : k ≤ x2 := by
        by_contra hlt
        have := g4 x2 (by omega) (by omega)
        rw [dH_iff.2 b2] at this; cases this
      have hc : rowE pb.width y x1 k ∈ cellH pb y x1 := mem_cellH.2 ⟨by omega, dH_iff.2 b1, k, hfb, rfl⟩
      obtain ⟨r, r1, r2, r3⟩ := (eval_rowE hg hy (by omega) (by omega)).1 (H y x1 hy (by omega) _ hc)
      exact ⟨r, r1, by omega, r3⟩
  · intro H y x hy hx c hc
    obtain ⟨h1, h2, k, hfb, rfl⟩ := mem_cellH.1 hc
    obtain ⟨g1, g2, g3, g4⟩ := firstB_some.1 hfb
    exact (eval_rowE hg hy (by omega) (by omega)).2
      (H y hy x k (by omega) (by omega) (dH_iff.1 h2) (dH_iff.1 g3))

theorem line_iff {pb : Problem} {σ : Asg} {g : Nat → Nat → Bool} (hg : Agrees pb σ g) :
    (∀ c ∈ lineCs pb, eval σ c = some (.b true)) ↔
      (∀ y, y < pb.height → ∀ x1 x2, x1 < x2 → x2 + 1 < pb.width → BorderRight pb y x1 → BorderRight pb y x2 →
        ∃ x, x1 ≤ x ∧ x ≤ x2 + 1 ∧ g y x = true) ∧
      (∀ x, x < pb.width → ∀ y1 y2, y1 < y2 → y2 + 1 < pb.height → BorderBelow pb y1 x → BorderBelow pb y2 x →
        ∃ y, y1 ≤ y ∧ y ≤ y2 + 1 ∧ g y x = true) := by
  rw [← horiz_iff hg, ← vert_iff hg]
  constructor
  · intro H
    exact ⟨fun y x hy hx c hc => H c (mem_lineCs.2 ⟨y, x, hy, hx, Or.inr hc⟩),
      fun y x hy hx c hc => H c (mem_lineCs.2 ⟨y, x, hy, hx, Or.inl hc⟩)⟩
  · rintro ⟨Hh, Hv⟩ c hc
    obtain ⟨y, x, hy, hx, hc | hc⟩ := mem_lineCs.1 hc
    · exact Hv y x hy hx c hc
    · exact Hh y x hy hx c hc

/-! ### typing and locality -/

theorem or_bvars_wt {ι : Type} (n : Nat) (L : List ι) (f : ι → Nat) (hf : ∀ p ∈ L, f p < n) :
    wtB (.node .or (L.map fun p => Expr.bvar (f p))) = true ∧
      (Expr.node .or (L.map fun p => Expr.bvar (f p))).varsBelow n = true := by
  constructor
  · simp only [wtB]
    rw [C11FragWT.wtBs_iff]
    intro e he
    simp only [List.mem_map] at he
    obtain ⟨_, _, rfl⟩ := he; rfl
  · rw [C11FragWT.varsBelow_node]
    intro e he
    simp only [List.mem_map] at he
    obtain ⟨p, hp, rfl⟩ := he
    simp only [Expr.varsBelow, decide_eq_true_eq]
    exact hf p hp

theorem lineCs_wt {pb : Problem} : ∀ c ∈ lineCs pb,
    wtB c = true ∧ c.varsBelow (pb.height * pb.width) = true := by
  intro c hc
  obtain ⟨y, x, hy, hx, hc | hc⟩ := mem_lineCs.1 hc
  · obtain ⟨h1, h2, k, hfb, rfl⟩ := mem_cellV.1 hc
    obtain ⟨g1, g2, g3, g4⟩ := firstB_some.1 hfb
    apply or_bvars_wt
    intro r hr
    simp only [List.mem_map, List.mem_range] at hr
    obtain ⟨j, hj, rfl⟩ := hr
    exact C11Grid.cell_lt (by omega) hx
  · obtain ⟨h1, h2, k, hfb, rfl⟩ := mem_cellH.1 hc
    obtain ⟨g1, g2, g3, g4⟩ := firstB_some.1 hfb
    apply or_bvars_wt
    intro r hr
    simp only [List.mem_map, List.mem_range] at hr
    obtain ⟨j, hj, rfl⟩ := hr
    have : y * pb.width + (x + j) < pb.height * pb.width := C11Grid.cell_lt hy (by omega)
    exact this

theorem roomCs_wt {pb : Problem} (hwf : WellFormed pb) : ∀ c ∈ roomCs pb,
    wtB c = true ∧ c.varsBelow (pb.height * pb.width) = true := by
  intro c hc
  obtain ⟨i, hi, _, rfl⟩ := mem_roomCs.1 hc
  have hon := room_onBoard hwf hi
  have hxs : ∀ e ∈ (pb.rooms.getD i []).map (fun p => Expr.bvar (p.1.toNat * pb.width + p.2.toNat)),
      wtB e = true ∧ e.varsBelow (pb.height * pb.width) = true := by
    intro e he
    simp only [List.mem_map] at he
    obtain ⟨p, hp, rfl⟩ := he
    obtain ⟨q1, q2, q3, q4⟩ := hon p hp
    refine ⟨rfl, ?_⟩
    simp only [Expr.varsBelow, decide_eq_true_eq]
    exact C11Grid.cell_lt (by omega) (by omega)
  exact ⟨C11FragWT.wtB_cmp_countTrueE .eq rfl _ _ (fun e he => (hxs e he).1),
    C11FragWT.varsBelow_cmp_countTrueE _ .eq _ _ (fun e he => (hxs e he).2)⟩

/-! ### the theorem -/

/-- The constraints that mention the cell variables only. -/
def loc (pb : Problem) : List Expr := naCs pb.height pb.width ++ roomCs pb ++ lineCs pb

theorem encodes {pb : Problem} (hwf : WellFormed pb) :
    EncodesRules { decls := List.replicate (pb.height * pb.width) .bool ++ (avc pb).decls,
                   cs := naCs pb.height pb.width ++ (avc pb).cs ++ roomCs pb ++ lineCs pb,
                   keys := List.range (pb.height * pb.width) } (Rules pb) := by
  apply C11Frag.encodes_bool_grid_frag pb.height pb.width (avc pb) (loc pb) _ (RulesGrid pb)
  · intro c
    simp only [loc, List.mem_append]
    tauto
  · intro c hc
    simp only [loc, List.mem_append] at hc
    rcases hc with (hc | hc) | hc
    · exact (na_plain pb.height pb.width ⟨fun _ => false, fun _ => 0⟩).below c hc
    · exact (roomCs_wt hwf c hc).2
    · exact (lineCs_wt c hc).2
  · intro σ g hg
    have hg' : Agrees pb σ g := hg
    unfold RulesGrid
    rw [← na_iff hg', ← avc_iff hwf hg', ← rooms_iff hwf hg', ← line_iff hg']
    simp only [loc, List.mem_append]
    constructor
    · rintro ⟨h1, h2⟩
      exact ⟨fun c hc => h2 c (Or.inl (Or.inl hc)), h1, fun c hc => h2 c (Or.inl (Or.inr hc)),
        fun c hc => h2 c (Or.inr hc)⟩
    · rintro ⟨h1, h2, h3, h4⟩
      refine ⟨h2, ?_⟩
      rintro c ((hc | hc) | hc)
      · exact h1 c hc
      · exact h3 c hc
      · exact h4 c hc

theorem main (pb : Problem) (hwf : WellFormed pb) (P : PuzzleProg) (hP : program pb = .ok P) :
    EncodesRules P (Rules pb) ∧ P.KeysOk ∧ (∀ c ∈ P.cs, wtB c = true) := by
  rw [program_eq hwf] at hP
  cases hP
  refine ⟨encodes hwf, C11Frag.keysOk_range_le _ _ _ (by simp), ?_⟩
  intro c hc
  simp only [List.mem_append] at hc
  rcases hc with ((hc | hc) | hc) | hc
  · exact na_wt _ _ c hc
  · exact (C11FragWT.avcProg_wt (C04Prim.grid_wf _ _) (by simp [nots_length, Graph.grid])
      (nots_boolArgs _) c hc).1
  · exact (roomCs_wt hwf c hc).1
  · exact (lineCs_wt c hc).1

theorem total (pb : Problem) (hwf : WellFormed pb) : ∃ P, program pb = .ok P := ⟨_, program_eq hwf⟩

end Cspuz.Proofs.C11Heyawake
