/-
  C07, layer L2, soundness (pure graph theory): what a `GroupCert` forces.
    * following the unique lower active entry leads every vertex to a root; active edges preserve the
      group id and a root carries its own index, so equal ids ⇔ joined by active edges;
    * hence every id-class is connected;
    * double counting of the size equations: `ds r = |class of r|` for every root `r`.
  Self-loops and parallel edges are allowed.
-/
import Mathlib.Algebra.BigOperators.Fin
import Mathlib.Algebra.BigOperators.Ring.Finset
import Mathlib.Data.Set.Card
import CspuzModel.Spec.C07Spec
import CspuzModel.Proofs.C04L2
import CspuzModel.Proofs.C05L2
namespace Cspuz.Proofs.C07L2
open Cspuz Cspuz.Spec
open Cspuz.Proofs.C04L2

/-! ### generic graph facts -/

/-- A walk in a subgraph `F ≤ G` that cannot leave `S` is a walk in `G.induce S`. -/
theorem reach_induce {V : Type*} {G F : SimpleGraph V} (S : Set V) (hFG : ∀ a b, F.Adj a b → G.Adj a b)
    (hS : ∀ a b, F.Adj a b → a ∈ S → b ∈ S) {u v : V} (h : F.Reachable u v) (hu : u ∈ S) :
    ∃ hv : v ∈ S, (G.induce S).Reachable ⟨u, hu⟩ ⟨v, hv⟩ := by
  obtain ⟨p⟩ := h
  induction p with
  | nil => exact ⟨hu, SimpleGraph.Reachable.refl _⟩
  | cons hadj q ih =>
    rename_i a b d
    have hb : b ∈ S := hS _ _ hadj hu
    obtain ⟨hv, r⟩ := ih hb
    refine ⟨hv, SimpleGraph.Reachable.trans (SimpleGraph.Adj.reachable ?_) r⟩
    show G.Adj a b
    exact hFG _ _ hadj

/-- A quantity preserved along the edges of `F` is constant on its components. -/
theorem reach_inv {V α : Type*} {F : SimpleGraph V} (f : V → α) (hf : ∀ a b, F.Adj a b → f a = f b)
    {u v : V} (h : F.Reachable u v) : f u = f v := by
  obtain ⟨p⟩ := h
  induction p with
  | nil => rfl
  | cons hadj q ih => exact (hf _ _ hadj).trans ih

theorem ncard_fin (n : Nat) (p : Nat → Prop) [DecidablePred p] :
    Set.ncard {w : Fin n | p w.1} = ((Finset.range n).filter p).card := by
  classical
  rw [Set.ncard_eq_toFinset_card', Set.toFinset_ofPred, Finset.card_filter, Finset.card_filter,
    Finset.sum_range]

/-! ### descent to a root -/
section Soundness
variable {g : Graph} {size : Nat → Option Int} {ws pe : Bool}

/-- The graph of active edges. -/
abbrev F (C : GroupCert g size ws pe) : SimpleGraph (Fin g.n) := activeEdgeGraph g C.ae

theorem F_adj (C : GroupCert g size ws pe) {u v : Fin g.n} :
    (F C).Adj u v ↔ u ≠ v ∧ ∃ k, C.ae k = true ∧ Joins g k u.1 v.1 := Iff.rfl

theorem ae_gid' (C : GroupCert g size ws pe) {e u v : Nat} (hJ : Joins g e u v)
    (hae : C.ae e = true) : C.gid u = C.gid v := by
  rcases hJ with h | h
  · exact C.ae_gid e u v h hae
  · exact (C.ae_gid e v u h hae).symm

theorem ae_ts' (C : GroupCert g size true true) {e u v : Nat} (hJ : Joins g e u v)
    (hae : C.ae e = true) : C.ts u = C.ts v := by
  rcases hJ with h | h
  · exact C.sz_edge rfl rfl e u v h hae
  · exact (C.sz_edge rfl rfl e v u h hae).symm

theorem cert_step (C : GroupCert g size ws pe) {i : Nat} (hi : i < g.n) (hr : C.root i = false) :
    ∃ j e, Joins g e i j ∧ C.ae e = true ∧ C.rank j < C.rank i := by
  have h := C.loc i hi
  rw [hr] at h
  simp only [Bool.false_eq_true, if_false] at h
  obtain ⟨j, e, hj, hp⟩ := countInc_pos_iff.1 (le_of_eq h.symm)
  simp only [Bool.and_eq_true, decide_eq_true_eq] at hp
  exact ⟨j, e, hj, hp.1, hp.2⟩

theorem reach_root (hwf : g.wf = true) (C : GroupCert g size ws pe) :
    ∀ (m : Nat) (i : Nat) (hi : i < g.n), (C.rank i).toNat ≤ m →
      ∃ (r : Nat) (hr : r < g.n), C.root r = true ∧ (F C).Reachable ⟨i, hi⟩ ⟨r, hr⟩ := by
  intro m
  induction m with
  | zero =>
    intro i hi hm
    cases hroot : C.root i
    · obtain ⟨j, e, hj, _, hlt⟩ := cert_step C hi hroot
      have := (C.rank_rng j (joins_lt hwf hj).2).1
      omega
    · exact ⟨i, hi, hroot, SimpleGraph.Reachable.refl _⟩
  | succ m ih =>
    intro i hi hm
    cases hroot : C.root i
    · obtain ⟨j, e, hj, hae, hlt⟩ := cert_step C hi hroot
      have hjn := (joins_lt hwf hj).2
      have := (C.rank_rng j hjn).1
      obtain ⟨r, hr, hrr, hreach⟩ := ih j hjn (by omega)
      refine ⟨r, hr, hrr, SimpleGraph.Reachable.trans (SimpleGraph.Adj.reachable ?_) hreach⟩
      rw [F_adj]
      refine ⟨?_, e, hae, hj⟩
      intro h
      have : i = j := congrArg Fin.val h
      subst this; omega
    · exact ⟨i, hi, hroot, SimpleGraph.Reachable.refl _⟩

theorem reach_gid (C : GroupCert g size ws pe) {u v : Fin g.n} (h : (F C).Reachable u v) :
    C.gid u.1 = C.gid v.1 :=
  reach_inv (fun w : Fin g.n => C.gid w.1) (fun a b hab => by
    obtain ⟨_, k, hk, hJ⟩ := hab
    exact ae_gid' C hJ hk) h

/-- Equal group ids ⇔ joined by active edges. -/
theorem gid_eq_iff_reach (hwf : g.wf = true) (C : GroupCert g size ws pe) (u v : Fin g.n) :
    C.gid u.1 = C.gid v.1 ↔ (F C).Reachable u v := by
  constructor
  · intro h
    obtain ⟨r, hr, hrr, h1⟩ := reach_root hwf C _ u.1 u.2 le_rfl
    obtain ⟨r', hr', hrr', h2⟩ := reach_root hwf C _ v.1 v.2 le_rfl
    have e1 := reach_gid C h1
    have e2 := reach_gid C h2
    have e3 := C.root_gid r hr hrr
    have e4 := C.root_gid r' hr' hrr'
    simp only at e1 e2
    have : r = r' := by omega
    subst this
    exact h1.trans h2.symm
  · exact reach_gid C

/-- Every class of a partition realised by the group ids is connected. -/
theorem cert_connected (hwf : g.wf = true) (C : GroupCert g size ws pe) (P : VPartition g.n)
    (hR : Realises g.n P C.gid) (v : Nat) :
    ((toSimple g).induce (blockOf g P v)).Preconnected := by
  rintro ⟨a, ha⟩ ⟨b, hb⟩
  have ha' : P.same v a.1 := ha
  have hb' : P.same v b.1 := hb
  have hab : C.gid a.1 = C.gid b.1 :=
    (hR a.1 b.1 a.2 b.2).2 (P.trans _ _ _ (P.symm _ _ ha') hb')
  have hreach := (gid_eq_iff_reach hwf C a b).1 hab
  obtain ⟨_, h⟩ := reach_induce (G := toSimple g) (blockOf g P v)
    (fun x y hxy => by
      obtain ⟨hne, k, _, hJ⟩ := hxy
      exact ⟨hne, k, hJ⟩)
    (fun x y hxy hx => by
      obtain ⟨_, k, hk, hJ⟩ := hxy
      have hx' : P.same v x.1 := hx
      show P.same v y.1
      exact P.trans _ _ _ hx' ((hR x.1 y.1 x.2 y.2).1 (ae_gid' C hJ hk)))
    hreach ha
  exact h

end Soundness

/-! ### incidence sums -/

theorem sum_incStep (n : Nat) (K : Nat → Nat → Nat → Int) (p : (Nat × Nat) × Nat)
    (ha : p.1.1 < n) (hb : p.1.2 < n) :
    (∑ v ∈ Finset.range n, ((incStep v p).map fun je => K v je.1 je.2).sum) =
      K p.1.1 p.1.2 p.2 + K p.1.2 p.1.1 p.2 := by
  have h : ∀ v, ((incStep v p).map fun je => K v je.1 je.2).sum =
      (if p.1.1 = v then K v p.1.2 p.2 else 0) + (if p.1.2 = v then K v p.1.1 p.2 else 0) := by
    intro v
    unfold incStep
    by_cases h1 : p.1.1 = v <;> by_cases h2 : p.1.2 = v <;> simp [h1, h2]
  simp only [h]
  rw [Finset.sum_add_distrib, Finset.sum_ite_eq, Finset.sum_ite_eq]
  simp [ha, hb]

theorem sum_incAux (n : Nat) (K : Nat → Nat → Nat → Int) :
    ∀ (L : List ((Nat × Nat) × Nat)), (∀ p ∈ L, p.1.1 < n ∧ p.1.2 < n) →
    (∑ v ∈ Finset.range n, ((L.flatMap (incStep v)).map fun je => K v je.1 je.2).sum) =
      (L.map fun p => K p.1.1 p.1.2 p.2 + K p.1.2 p.1.1 p.2).sum := by
  intro L
  induction L with
  | nil => intro _; simp
  | cons p L ih =>
    intro h
    simp only [List.flatMap_cons, List.map_append, List.sum_append, List.map_cons, List.sum_cons]
    rw [Finset.sum_add_distrib, sum_incStep n K p (h p (by simp)).1 (h p (by simp)).2,
      ih (fun q hq => h q (by simp [hq]))]

/-- Summing a quantity over all (vertex, incident entry) pairs = summing over both ends of each edge. -/
theorem sum_incident {g : Graph} (hwf : g.wf = true) (K : Nat → Nat → Nat → Int) :
    (∑ v ∈ Finset.range g.n, ((g.incident v).map fun je => K v je.1 je.2).sum) =
      (g.edges.zipIdx.map fun p => K p.1.1 p.1.2 p.2 + K p.1.2 p.1.1 p.2).sum := by
  simp only [incident_eq]
  apply sum_incAux
  intro p hp
  have hm : p.1 ∈ g.edges := by
    obtain ⟨⟨a, b⟩, e⟩ := p
    exact List.mem_of_getElem? (List.mem_zipIdx_iff_getElem?.1 hp)
  have := List.all_eq_true.1 hwf _ hm
  simpa using this

/-- Incidence is symmetric: each pair (v, entry towards j) is a pair (j, entry towards v). -/
theorem sum_incident_symm {g : Graph} (hwf : g.wf = true) (K : Nat → Nat → Nat → Int) :
    (∑ v ∈ Finset.range g.n, ((g.incident v).map fun je => K v je.1 je.2).sum) =
      ∑ v ∈ Finset.range g.n, ((g.incident v).map fun je => K je.1 v je.2).sum := by
  rw [sum_incident hwf K, sum_incident hwf (fun v j e => K j v e)]
  congr 1
  apply List.map_congr_left
  intro p _
  omega

theorem sum_map_ite_const {α : Type} (l : List α) (p : α → Bool) (c : Int) :
    (l.map fun x => if p x = true then c else 0).sum = c * ((l.filter p).length : Int) := by
  induction l with
  | nil => simp
  | cons x l ih =>
    by_cases h : p x = true
    · simp [h, ih, Int.mul_add]; omega
    · simp [h, ih]

/-! ### the size equations count the class of a root -/
section Sizes
variable {g : Graph} {size : Nat → Option Int} {ws pe : Bool}

/-- The equation `Σ_children ds + 1 = ds v` at every vertex. -/
def SumEq (g : Graph) (ae : Nat → Bool) (rank : Nat → Int) (ds : Nat → Int) : Prop :=
  ∀ i, i < g.n →
    ((g.incident i).map fun je => if ae je.2 && decide (rank je.1 > rank i) then ds je.1 else 0).sum + 1 = ds i

open Classical in
theorem root_ds_eq_card (hwf : g.wf = true) (C : GroupCert g size ws pe) (ds : Nat → Int)
    (hsum : SumEq g C.ae C.rank ds) (r : Nat) (hr : r < g.n) (hroot : C.root r = true) :
    ds r = (((Finset.range g.n).filter fun v => C.gid v = C.gid r).card : Int) := by
  -- indicator of the class of `r`
  let χ : Nat → Int := fun v => if C.gid v = C.gid r then 1 else 0
  have hχ : ∀ e u v, Joins g e u v → C.ae e = true → χ u = χ v := by
    intro e u v hJ hae
    simp only [χ, ae_gid' C hJ hae]
  -- (1) weighted sum of the equations
  have h1 : (∑ v ∈ Finset.range g.n, χ v * ds v) =
      (∑ v ∈ Finset.range g.n, ((g.incident v).map fun je =>
        if C.ae je.2 && decide (C.rank je.1 > C.rank v) then χ je.1 * ds je.1 else 0).sum) +
      ∑ v ∈ Finset.range g.n, χ v := by
    rw [← Finset.sum_add_distrib]
    apply Finset.sum_congr rfl
    intro v hv
    have hv' : v < g.n := Finset.mem_range.1 hv
    rw [← hsum v hv', mul_add, mul_one, ← List.sum_map_mul_left]
    congr 2
    apply List.map_congr_left
    intro je hje
    by_cases hc : (C.ae je.2 && decide (C.rank je.1 > C.rank v)) = true
    · simp only [hc, if_true]
      have hc' := hc
      simp only [Bool.and_eq_true, decide_eq_true_eq] at hc'
      have hJ : Joins g je.2 v je.1 := mem_incident.1 (show (je.1, je.2) ∈ g.incident v from hje)
      rw [hχ _ _ _ hJ hc'.1]
    · simp only [hc]; simp
  -- (2) re-index by the child
  have h2 : (∑ v ∈ Finset.range g.n, ((g.incident v).map fun je =>
        if C.ae je.2 && decide (C.rank je.1 > C.rank v) then χ je.1 * ds je.1 else 0).sum) =
      ∑ j ∈ Finset.range g.n, χ j * ds j * (if C.root j then 0 else 1) := by
    rw [sum_incident_symm hwf (fun v j e =>
      if C.ae e && decide (C.rank j > C.rank v) then χ j * ds j else 0)]
    apply Finset.sum_congr rfl
    intro j hj
    have hj' : j < g.n := Finset.mem_range.1 hj
    have := sum_map_ite_const (g.incident j)
      (fun je => C.ae je.2 && decide (C.rank je.1 < C.rank j)) (χ j * ds j)
    have hloc := C.loc j hj'
    unfold countInc at hloc
    rw [hloc] at this
    simp only [gt_iff_lt]
    rw [this]
    cases C.root j <;> simp
  -- (3) only the root `r` of the class remains
  have h3 : (∑ v ∈ Finset.range g.n, χ v * ds v * (if C.root v then 1 else 0)) =
      ∑ v ∈ Finset.range g.n, χ v := by
    have : ∀ v, χ v * ds v = χ v * ds v * (if C.root v then 0 else 1) +
        χ v * ds v * (if C.root v then 1 else 0) := by
      intro v; cases C.root v <;> simp
    have h4 : (∑ v ∈ Finset.range g.n, χ v * ds v) =
        (∑ v ∈ Finset.range g.n, χ v * ds v * (if C.root v then 0 else 1)) +
        ∑ v ∈ Finset.range g.n, χ v * ds v * (if C.root v then 1 else 0) := by
      rw [← Finset.sum_add_distrib]
      exact Finset.sum_congr rfl (fun v _ => this v)
    rw [h1, h2] at h4
    omega
  have h5 : (∑ v ∈ Finset.range g.n, χ v * ds v * (if C.root v then 1 else 0)) = ds r := by
    have : ∀ v ∈ Finset.range g.n, χ v * ds v * (if C.root v then 1 else 0) =
        if r = v then ds v else 0 := by
      intro v hv
      have hv' : v < g.n := Finset.mem_range.1 hv
      by_cases hrv : r = v
      · subst hrv; simp [χ, hroot]
      · rw [if_neg hrv]
        cases hrt : C.root v
        · simp
        · have e1 := C.root_gid v hv' hrt
          have e2 := C.root_gid r hr hroot
          have : C.gid v ≠ C.gid r := by omega
          simp [χ, this]
    rw [Finset.sum_congr rfl this, Finset.sum_ite_eq]
    simp [hr]
  rw [← h5, h3]
  simp only [χ]
  rw [Finset.sum_boole]

/-- The block of `v` has `ts v` elements, whenever sizes are tracked. -/
theorem block_size (hwf : g.wf = true) (C : GroupCert g size true pe) (P : VPartition g.n)
    (hR : Realises g.n P C.gid) (v : Nat) (hv : v < g.n) :
    ∃ (r : Nat) (hr : r < g.n), (F C).Reachable ⟨v, hv⟩ ⟨r, hr⟩ ∧
      (blockSize g P v : Int) = C.ts r := by
  classical
  obtain ⟨r, hr, hrr, hreach⟩ := reach_root hwf C _ v hv le_rfl
  refine ⟨r, hr, hreach, ?_⟩
  have hg : C.gid v = C.gid r := reach_gid C hreach
  have hset : blockOf g P v = {w : Fin g.n | C.gid w.1 = C.gid r} := by
    ext w
    show P.same v w.1 ↔ C.gid w.1 = C.gid r
    rw [← hR v w.1 hv w.2, hg]
    exact eq_comm
  unfold blockSize
  rw [hset, ncard_fin g.n (fun w => C.gid w = C.gid r),
    ← root_ds_eq_card hwf C C.ds (C.sz_sum rfl) r hr hrr]
  exact C.sz_root rfl r hr hrr

/-- Soundness: a partition realised by the ids of a certificate is valid. -/
theorem cert_ok (hwf : g.wf = true) (C : GroupCert g size ws pe) (P : VPartition g.n)
    (hR : Realises g.n P C.gid) (hws : ws = true ∨ ∀ v, size v = none)
    (hpe : pe = true ∨ ∀ u v, size u = size v) : PartitionOK g P size := by
  refine ⟨fun v _ => cert_connected hwf C P hR v, ?_⟩
  intro v s hv hs
  rcases hws with rfl | h0
  · obtain ⟨r, hr, hreach, hbs⟩ := block_size hwf C P hR v hv
    rw [hbs]
    rcases hpe with rfl | hc
    · have : C.ts v = C.ts r :=
        reach_inv (fun w : Fin g.n => C.ts w.1) (fun a b hab => by
          obtain ⟨_, k, hk, hJ⟩ := hab
          exact ae_ts' C hJ hk) hreach
      rw [← this]
      exact C.sz_spec rfl v s hv hs
    · exact C.sz_spec rfl r s hr ((hc r v).trans hs)
  · rw [h0 v] at hs; cases hs

end Sizes

end Cspuz.Proofs.C07L2
