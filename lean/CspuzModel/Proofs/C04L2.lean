/-
  C04, layer L2 (pure graph theory): a rank/root certificate (`AVCCert`) exists iff the active
  vertices induce a connected subgraph (resp. a tree or nothing, for the acyclic variant).
    * `avc_cert_iff_connected`, `avc_cert_iff_tree` are the two results.
  Soundness: follow lower-ranked active entries down to the unique root; in a cycle a vertex of
  maximal rank would have two lower-ranked entries.  Completeness: rank := position in the order by
  `(distance from the root, index)`, which is injective, `< n`, and refines the distance.
-/
import CspuzModel.Spec.GraphSpec
import CspuzModel.Spec.Certs

namespace Cspuz.Proofs.C04L2
open Cspuz Cspuz.Spec

theorem eq_of_mem_of_length_le_one {α} {l : List α} (h : l.length ≤ 1) {x y : α}
    (hx : x ∈ l) (hy : y ∈ l) : x = y := by
  match l, h, hx, hy with
  | [a], _, hx, hy => simp at hx hy; rw [hx, hy]
  | [], _, hx, _ => simp at hx
  | _ :: _ :: _, h, _, _ => simp at h

theorem length_le_one_of_nodup {α} {l : List α} (hn : l.Nodup)
    (h : ∀ x ∈ l, ∀ y ∈ l, x = y) : l.length ≤ 1 := by
  match l, hn, h with
  | [], _, _ => simp
  | [a], _, _ => simp
  | a :: b :: t, hn, h =>
    have : a = b := h a (by simp) b (by simp)
    simp [this] at hn

theorem mem_incident {g : Graph} {i j e : Nat} : (j, e) ∈ g.incident i ↔ Joins g e i j := by
  unfold Graph.incident Joins
  simp only [List.mem_flatMap, Prod.exists, List.mem_zipIdx_iff_getElem?]
  constructor
  · rintro ⟨a, b, e', he, hm⟩
    simp only [List.mem_append] at hm
    rcases hm with hm | hm
    · split at hm
      · simp at hm; grind
      · simp at hm
    · split at hm
      · simp at hm; grind
      · simp at hm
  · rintro (h | h)
    · exact ⟨i, j, e, h, by simp⟩
    · exact ⟨j, i, e, h, by simp⟩



theorem joins_symm {g : Graph} {k u v : Nat} (h : Joins g k u v) : Joins g k v u := h.symm

theorem joins_lt {g : Graph} (hwf : g.wf = true) {k u v : Nat} (h : Joins g k u v) :
    u < g.n ∧ v < g.n := by
  unfold Graph.wf at hwf
  rw [List.all_eq_true] at hwf
  rcases h with h | h
  · have := hwf _ (List.mem_of_getElem? h)
    simp at this; omega
  · have := hwf _ (List.mem_of_getElem? h)
    simp at this; omega

theorem joins_ne {g : Graph} (hlf : LoopFree g) {k u v : Nat} (h : Joins g k u v) : u ≠ v := by
  rcases h with h | h
  · exact hlf _ (List.mem_of_getElem? h)
  · exact (hlf _ (List.mem_of_getElem? h)).symm

/-- The induced graph on the active vertices. -/
abbrev actGraph (g : Graph) (act : Nat → Bool) : SimpleGraph ↥(activeSet g act) :=
  (toSimple g).induce (activeSet g act)

/-- An active vertex as a vertex of `actGraph`. -/
def mkV {g : Graph} {act : Nat → Bool} (v : Nat) (hv : v < g.n) (ha : act v = true) :
    ↥(activeSet g act) := ⟨⟨v, hv⟩, ha⟩

theorem actGraph_adj {g : Graph} {act : Nat → Bool} (a b : ↥(activeSet g act)) :
    (actGraph g act).Adj a b ↔ a.1.1 ≠ b.1.1 ∧ ∃ k, Joins g k a.1.1 b.1.1 := by
  show (a.1 ≠ b.1 ∧ _) ↔ _
  rw [Ne, Fin.ext_iff]
  exact Iff.rfl

theorem act_of_mem {g : Graph} {act : Nat → Bool} (a : ↥(activeSet g act)) : act a.1.1 = true := a.2

theorem countInc_pos_iff {g : Graph} {i : Nat} {p : Nat × Nat → Bool} :
    1 ≤ countInc g i p ↔ ∃ j e, Joins g e i j ∧ p (j, e) = true := by
  unfold countInc
  rw [Nat.succ_le_iff, List.length_pos_iff_exists_mem]
  simp only [List.mem_filter, Prod.exists, mem_incident]

theorem countInc_le_one {g : Graph} {i : Nat} {p : Nat × Nat → Bool} (h : countInc g i p ≤ 1)
    {j e j' e' : Nat} (h1 : Joins g e i j) (p1 : p (j, e) = true)
    (h2 : Joins g e' i j') (p2 : p (j', e') = true) : j = j' ∧ e = e' := by
  have := eq_of_mem_of_length_le_one h (List.mem_filter.2 ⟨mem_incident.2 h1, p1⟩)
    (List.mem_filter.2 ⟨mem_incident.2 h2, p2⟩)
  simpa using this


/-! ### Soundness: a certificate forces connectivity -/
section Soundness
variable {g : Graph} {act : Nat → Bool} {b : Bool}

theorem cert_count_ge (c : AVCCert g act b) {i : Nat} (hi : i < g.n) (ha : act i = true) :
    countInc g i (fun je => decide (c.rank je.1 < c.rank i) && act je.1) + b2n (c.root i) ≥ 1 := by
  have := c.loc i hi ha
  cases b
  · simpa using this
  · simp only [if_true] at this; omega

theorem cert_step (c : AVCCert g act b) {i : Nat} (hi : i < g.n) (ha : act i = true)
    (hr : c.root i = false) : ∃ j e, Joins g e i j ∧ c.rank j < c.rank i ∧ act j = true := by
  have h := cert_count_ge c hi ha
  rw [hr] at h
  have h1 : 1 ≤ countInc g i (fun je => decide (c.rank je.1 < c.rank i) && act je.1) := by
    simpa [b2n] using h
  obtain ⟨j, e, hj, hp⟩ := countInc_pos_iff.1 h1
  simp only [Bool.and_eq_true, decide_eq_true_eq] at hp
  exact ⟨j, e, hj, hp.1, hp.2⟩

theorem cert_reach_root (hwf : g.wf = true) (c : AVCCert g act b) :
    ∀ (m : Nat) (i : Nat) (hi : i < g.n) (ha : act i = true), (c.rank i).toNat ≤ m →
      ∃ (r : Nat) (hr : r < g.n) (har : act r = true), c.root r = true ∧
        (actGraph g act).Reachable (mkV i hi ha) (mkV r hr har) := by
  intro m
  induction m with
  | zero =>
    intro i hi ha hm
    cases hroot : c.root i
    · obtain ⟨j, e, hj, hlt, haj⟩ := cert_step c hi ha hroot
      have := c.rank_lo j (joins_lt hwf hj).2
      omega
    · exact ⟨i, hi, ha, hroot, SimpleGraph.Reachable.refl _⟩
  | succ m ih =>
    intro i hi ha hm
    cases hroot : c.root i
    · obtain ⟨j, e, hj, hlt, haj⟩ := cert_step c hi ha hroot
      have hjn := (joins_lt hwf hj).2
      have := c.rank_lo j hjn
      obtain ⟨r, hr, har, hrr, hreach⟩ := ih j hjn haj (by omega)
      refine ⟨r, hr, har, hrr, SimpleGraph.Reachable.trans (SimpleGraph.Adj.reachable ?_) hreach⟩
      rw [actGraph_adj]
      refine ⟨?_, e, hj⟩
      show i ≠ j
      rintro rfl; omega
    · exact ⟨i, hi, ha, hroot, SimpleGraph.Reachable.refl _⟩

theorem cert_root_unique (c : AVCCert g act b) {r r' : Nat} (hr : r < g.n) (hr' : r' < g.n)
    (h : c.root r = true) (h' : c.root r' = true) : r = r' :=
  eq_of_mem_of_length_le_one c.one_root (List.mem_filter.2 ⟨List.mem_range.2 hr, h⟩)
    (List.mem_filter.2 ⟨List.mem_range.2 hr', h'⟩)

theorem cert_connected (hwf : g.wf = true) (c : AVCCert g act b) : ActiveConnected g act := by
  intro u v
  obtain ⟨⟨u, hu⟩, hau⟩ := u
  obtain ⟨⟨v, hv⟩, hav⟩ := v
  obtain ⟨r, hr, har, hrr, h1⟩ := cert_reach_root hwf c _ u hu hau le_rfl
  obtain ⟨r', hr', har', hrr', h2⟩ := cert_reach_root hwf c _ v hv hav le_rfl
  have := cert_root_unique c hr hr' hrr hrr'
  subst this
  exact h1.trans h2.symm

end Soundness


/-! ### A ranking of `0..n-1` refining a given depth function -/
section Ranking

/-- Lexicographic comparison of `(d u, u)` and `(d v, v)`. -/
def keyLt (d : Nat → Nat) (u v : Nat) : Prop := d u < d v ∨ (d u = d v ∧ u < v)

instance (d : Nat → Nat) : DecidableRel (keyLt d) := fun u v => by unfold keyLt; infer_instance

/-- Position of `v` among `0..n-1` sorted by `(d v, v)`. -/
def rk (n : Nat) (d : Nat → Nat) (v : Nat) : Nat :=
  ((Finset.range n).filter (fun u => keyLt d u v)).card

theorem keyLt_irrefl (d : Nat → Nat) (v : Nat) : ¬ keyLt d v v := by unfold keyLt; omega

variable (n : Nat) (d : Nat → Nat)

theorem rk_lt {v : Nat} (hv : v < n) : rk n d v < n := by
  have h : (Finset.range n).filter (fun u => keyLt d u v) ⊂ Finset.range n := by
    rw [Finset.ssubset_iff_of_subset (Finset.filter_subset _ _)]
    exact ⟨v, Finset.mem_range.2 hv, by simp [keyLt_irrefl]⟩
  have := Finset.card_lt_card h
  rw [Finset.card_range] at this
  exact this

theorem rk_lt_of_keyLt {u v : Nat} (hu : u < n) (h : keyLt d u v) : rk n d u < rk n d v := by
  apply Finset.card_lt_card
  rw [Finset.ssubset_iff_of_subset]
  · exact ⟨u, by simp [hu, h], by simp [keyLt_irrefl]⟩
  · intro w hw
    simp only [Finset.mem_filter] at hw ⊢
    exact ⟨hw.1, by unfold keyLt at *; omega⟩

theorem keyLt_of_rk_lt {u v : Nat} (hv : v < n) (h : rk n d u < rk n d v) : keyLt d u v := by
  by_contra hc
  by_cases huv : u = v
  · subst huv; omega
  · have h1 : keyLt d v u := by unfold keyLt at *; omega
    have := rk_lt_of_keyLt n d hv h1
    omega

theorem rk_inj {u v : Nat} (hu : u < n) (hv : v < n) (h : rk n d u = rk n d v) : u = v := by
  by_contra hc
  have h0 : keyLt d u v ∨ keyLt d v u := by unfold keyLt; omega
  rcases h0 with h1 | h1
  · have := rk_lt_of_keyLt n d hu h1; omega
  · have := rk_lt_of_keyLt n d hv h1; omega

end Ranking


/-! ### `incident` has no repeated entry in a loop-free graph; shortest-path facts -/

/-- one step of `Graph.incident` -/
def incStep (i : Nat) (p : (Nat × Nat) × Nat) : List (Nat × Nat) :=
  (if p.1.1 = i then [(p.1.2, p.2)] else []) ++ (if p.1.2 = i then [(p.1.1, p.2)] else [])

theorem incident_eq (g : Graph) (i : Nat) : g.incident i = (g.edges.zipIdx).flatMap (incStep i) := rfl

theorem incStep_snd {i : Nat} {p : (Nat × Nat) × Nat} {x : Nat × Nat} (h : x ∈ incStep i p) :
    x.2 = p.2 := by
  unfold incStep at h
  simp only [List.mem_append] at h
  rcases h with h | h <;> split at h <;> simp at h <;> simp [h]

theorem incStep_nodup {i : Nat} {p : (Nat × Nat) × Nat} (h : p.1.1 ≠ p.1.2) :
    (incStep i p).Nodup := by
  unfold incStep
  by_cases h1 : p.1.1 = i <;> by_cases h2 : p.1.2 = i <;> simp [h1, h2]
  omega

theorem incAux_nodup (i : Nat) : ∀ (l : List (Nat × Nat)) (k : Nat), (∀ ab ∈ l, ab.1 ≠ ab.2) →
    ((l.zipIdx k).flatMap (incStep i)).Nodup := by
  intro l
  induction l with
  | nil => intro k _; simp
  | cons ab l ih =>
    intro k h
    rw [List.zipIdx_cons, List.flatMap_cons, List.nodup_append]
    refine ⟨incStep_nodup (h ab (by simp)), ih (k + 1) (fun x hx => h x (by simp [hx])), ?_⟩
    intro x hx y hy hxy
    subst hxy
    have h1 := incStep_snd hx
    obtain ⟨q, hq, hyq⟩ := List.mem_flatMap.1 hy
    have h2 := incStep_snd hyq
    have h3 := (List.mem_zipIdx_iff_le_and_getElem?_sub.1 hq).1
    simp at h1
    omega

theorem incident_nodup {g : Graph} (hlf : LoopFree g) (i : Nat) : (g.incident i).Nodup :=
  incAux_nodup i g.edges 0 hlf

section
variable {V : Type*} {G : SimpleGraph V}
open SimpleGraph

theorem exists_closer {r v : V} (h : G.Reachable r v) (hne : v ≠ r) :
    ∃ w, G.Adj v w ∧ G.dist r w < G.dist r v := by
  obtain ⟨p, hp⟩ := h.symm.exists_walk_length_eq_dist
  cases p with
  | nil => exact absurd rfl hne
  | cons hadj q =>
    refine ⟨_, hadj, ?_⟩
    have h1 := dist_le q
    rw [Walk.length_cons] at hp
    rw [dist_comm, dist_comm (u := r)]
    omega

theorem not_mem_support_of_dist_lt {r v w : V} (p : G.Walk w r) (hp : p.length = G.dist r w)
    (h : G.dist r w < G.dist r v) : v ∉ p.support := by
  classical
  intro hmem
  have h3 := dist_le (p.dropUntil v hmem)
  have h4 := p.length_dropUntil_le_length hmem
  rw [dist_comm] at h3
  omega

theorem tree_parent_unique (hG : G.IsAcyclic) {r v w w' : V}
    (hrw : G.Reachable r w) (hrw' : G.Reachable r w')
    (hw : G.Adj v w) (hw' : G.Adj v w')
    (h1 : G.dist r w < G.dist r v) (h2 : G.dist r w' < G.dist r v) : w = w' := by
  obtain ⟨p, hp, hpl⟩ := hrw.symm.exists_path_of_dist
  obtain ⟨p', hp', hpl'⟩ := hrw'.symm.exists_path_of_dist
  rw [dist_comm] at hpl hpl'
  have hv := not_mem_support_of_dist_lt p hpl h1
  have hv' := not_mem_support_of_dist_lt p' hpl' h2
  have := (hG.subsingleton_path _ _).elim ⟨Walk.cons hw p, (Walk.cons_isPath_iff _ _).2 ⟨hp, hv⟩⟩
    ⟨Walk.cons hw' p', (Walk.cons_isPath_iff _ _).2 ⟨hp', hv'⟩⟩
  have := congrArg (fun q => q.1.snd) this
  simpa using this
end


/-! ### Completeness: building a certificate -/
section Completeness
variable {g : Graph} {act : Nat → Bool}
open SimpleGraph

/-- Distance from `r` in the active graph (`0` for anything that is not an active vertex). -/
noncomputable def depth (g : Graph) (act : Nat → Bool) (r : ↥(activeSet g act)) (v : Nat) : Nat :=
  if h : v < g.n ∧ act v = true then (actGraph g act).dist r (mkV v h.1 h.2) else 0

theorem depth_eq (r : ↥(activeSet g act)) {v : Nat} (hv : v < g.n) (ha : act v = true) :
    depth g act r v = (actGraph g act).dist r (mkV v hv ha) := by
  unfold depth; rw [dif_pos ⟨hv, ha⟩]

/-- The rank used by the constructed certificate: position in the order by `(depth, index)`. -/
noncomputable def crank (g : Graph) (act : Nat → Bool) (r : ↥(activeSet g act)) (v : Nat) : Int :=
  (rk g.n (depth g act r) v : Int)

theorem one_root_decide (n r0 : Nat) :
    ((List.range n).filter (fun v => decide (v = r0))).length ≤ 1 := by
  apply length_le_one_of_nodup (List.Nodup.filter _ List.nodup_range)
  intro x hx y hy
  simp only [List.mem_filter, decide_eq_true_eq] at hx hy
  omega

theorem crank_parent (hc : ActiveConnected g act) (r : ↥(activeSet g act)) {i : Nat} (hi : i < g.n)
    (ha : act i = true) (hne : i ≠ r.1.1) :
    ∃ j e, Joins g e i j ∧ (crank g act r j < crank g act r i ∧ act j = true) := by
  have hne' : mkV i hi ha ≠ r := by intro h; apply hne; rw [← h]; rfl
  obtain ⟨w, hadj, hlt⟩ := exists_closer (hc r (mkV i hi ha)) hne'
  rw [actGraph_adj] at hadj
  obtain ⟨_, k, hk⟩ := hadj
  refine ⟨w.1.1, k, hk, ?_, w.2⟩
  have : rk g.n (depth g act r) w.1.1 < rk g.n (depth g act r) i := by
    apply rk_lt_of_keyLt _ _ w.1.2
    left
    rw [depth_eq r w.1.2 w.2, depth_eq r hi ha]
    exact hlt
  unfold crank
  exact_mod_cast this

theorem empty_cert (b : Bool) (h : ∀ v, v < g.n → act v = false) : Nonempty (AVCCert g act b) :=
  ⟨{ rank := fun v => (v : Int), root := fun _ => false
     rank_lo := by intro i _; omega
     rank_hi := by intro i hi; omega
     loc := by intro i hi ha; rw [h i hi] at ha; cases ha
     distinct := by intro _ i _ je _ hlt; omega
     one_root := by simp }⟩

theorem connected_cert (hc : ActiveConnected g act) : Nonempty (AVCCert g act false) := by
  by_cases hex : ∃ v, v < g.n ∧ act v = true
  · obtain ⟨r0, hr0, har0⟩ := hex
    refine ⟨{ rank := crank g act (mkV r0 hr0 har0), root := fun v => decide (v = r0),
              rank_lo := ?_, rank_hi := ?_, loc := ?_, distinct := (by intro h; cases h),
              one_root := one_root_decide _ _ }⟩
    · intro i _; unfold crank; omega
    · intro i hi
      have := rk_lt g.n (depth g act (mkV r0 hr0 har0)) hi
      unfold crank; omega
    · intro i hi ha
      simp only [Bool.false_eq_true, if_false]
      by_cases hir : i = r0
      · simp [hir, b2n]
      · obtain ⟨j, e, hj, hp⟩ := crank_parent hc (mkV r0 hr0 har0) hi ha hir
        have := (countInc_pos_iff (p := fun je => decide (crank g act (mkV r0 hr0 har0) je.1 <
          crank g act (mkV r0 hr0 har0) i) && act je.1)).2 ⟨j, e, hj, by simpa using hp⟩
        omega
  · exact empty_cert false (by
      intro v hv
      by_contra h
      exact hex ⟨v, hv, by simpa using h⟩)

theorem tree_lower_depth (htree : (actGraph g act).IsTree) (r : ↥(activeSet g act)) {i j e : Nat}
    (hi : i < g.n) (ha : act i = true) (hj : j < g.n) (haj : act j = true) (hJ : Joins g e i j)
    (hlt : crank g act r j < crank g act r i) :
    (actGraph g act).Adj (mkV i hi ha) (mkV j hj haj) ∧
      (actGraph g act).dist r (mkV j hj haj) < (actGraph g act).dist r (mkV i hi ha) := by
  have hk : keyLt (depth g act r) j i :=
    keyLt_of_rk_lt _ _ hi (by unfold crank at hlt; exact_mod_cast hlt)
  have hne : i ≠ j := by rintro rfl; exact keyLt_irrefl _ _ hk
  have hadj : (actGraph g act).Adj (mkV i hi ha) (mkV j hj haj) :=
    (actGraph_adj _ _).2 ⟨hne, e, hJ⟩
  have := htree.dist_ne_of_adj r hadj
  unfold keyLt at hk
  rw [depth_eq r hi ha, depth_eq r hj haj] at hk
  exact ⟨hadj, by omega⟩

theorem tree_count_le_one (hwf : g.wf = true) (hlf : LoopFree g)
    (htree : (actGraph g act).IsTree) (hnp : NoParallelActive g act) (r : ↥(activeSet g act))
    {i : Nat} (hi : i < g.n) (ha : act i = true) :
    countInc g i (fun je => decide (crank g act r je.1 < crank g act r i) && act je.1) ≤ 1 := by
  unfold countInc
  apply length_le_one_of_nodup ((incident_nodup hlf i).filter _)
  rintro ⟨j, e⟩ hx ⟨j', e'⟩ hy
  simp only [List.mem_filter, Bool.and_eq_true, decide_eq_true_eq, mem_incident] at hx hy
  obtain ⟨hJ, hlt, haj⟩ := hx
  obtain ⟨hJ', hlt', haj'⟩ := hy
  have hjn := (joins_lt hwf hJ).2
  have hjn' := (joins_lt hwf hJ').2
  obtain ⟨hadj, d1⟩ := tree_lower_depth htree r hi ha hjn haj hJ hlt
  obtain ⟨hadj', d2⟩ := tree_lower_depth htree r hi ha hjn' haj' hJ' hlt'
  have hc := htree.connected.preconnected
  have hww : mkV j hjn haj = mkV j' hjn' haj' :=
    tree_parent_unique htree.isAcyclic (hc _ _) (hc _ _) hadj hadj' d1 d2
  have hjj : j = j' := congrArg (fun x => x.1.1) hww
  subst hjj
  have : e = e' := by
    by_contra hne
    exact hnp e e' i j hne hJ hJ' ⟨ha, haj⟩
  rw [this]

theorem tree_cert (hwf : g.wf = true) (hlf : LoopFree g) (h : ActiveTreeOrEmpty g act) :
    Nonempty (AVCCert g act true) := by
  rcases h with h | ⟨htree, hnp⟩
  · exact empty_cert true h
  · obtain ⟨r⟩ := htree.connected.nonempty
    have hc : ActiveConnected g act := htree.connected.preconnected
    refine ⟨{ rank := crank g act r, root := fun v => decide (v = r.1.1),
              rank_lo := ?_, rank_hi := ?_, loc := ?_, distinct := ?_,
              one_root := one_root_decide _ _ }⟩
    · intro i _; unfold crank; omega
    · intro i hi
      have := rk_lt g.n (depth g act r) hi
      unfold crank; omega
    · intro i hi ha
      simp only [if_true]
      have hle := tree_count_le_one hwf hlf htree hnp r hi ha
      by_cases hir : i = r.1.1
      · have h0 : ¬ 1 ≤ countInc g i
            (fun je => decide (crank g act r je.1 < crank g act r i) && act je.1) := by
          intro h1
          obtain ⟨j, e, hJ, hp⟩ := countInc_pos_iff.1 h1
          simp only [Bool.and_eq_true, decide_eq_true_eq] at hp
          obtain ⟨_, d1⟩ := tree_lower_depth htree r hi ha (joins_lt hwf hJ).2 hp.2 hJ hp.1
          have : mkV i hi ha = r := by subst hir; rfl
          rw [this, SimpleGraph.dist_self] at d1
          omega
        simp only [hir, decide_true, b2n, if_true] at h0 ⊢
        omega
      · obtain ⟨j, e, hj, hp⟩ := crank_parent hc r hi ha hir
        have := (countInc_pos_iff (p := fun je => decide (crank g act r je.1 <
          crank g act r i) && act je.1)).2 ⟨j, e, hj, by simpa using hp⟩
        simp only [hir, decide_false, b2n, Bool.false_eq_true, if_false]
        omega
    · intro _ i hi je hje hlt heq
      have hjn := (joins_lt hwf (mem_incident.1 (show (je.1, je.2) ∈ g.incident i from hje))).2
      have := rk_inj g.n (depth g act r) hjn hi (by unfold crank at heq; exact_mod_cast heq)
      omega

end Completeness

/-! ### Soundness for the acyclic variant -/
section TreeSoundness
variable {g : Graph} {act : Nat → Bool}
open SimpleGraph

theorem cert_count_le_one (c : AVCCert g act true) {i : Nat} (hi : i < g.n) (ha : act i = true) :
    countInc g i (fun je => decide (c.rank je.1 < c.rank i) && act je.1) ≤ 1 := by
  have := c.loc i hi ha
  simp only [if_true] at this
  omega

theorem cert_rank_ne (hwf : g.wf = true) (c : AVCCert g act true) {e u v : Nat}
    (hJ : Joins g e u v) (hne : u ≠ v) : c.rank u ≠ c.rank v := by
  obtain ⟨hu, hv⟩ := joins_lt hwf hJ
  rcases Nat.lt_or_gt_of_ne hne with h | h
  · exact (c.distinct rfl u hu (v, e) (mem_incident.2 hJ) h).symm
  · exact c.distinct rfl v hv (u, e) (mem_incident.2 hJ.symm) h

theorem cert_noParallel (hwf : g.wf = true) (hlf : LoopFree g) (c : AVCCert g act true) :
    NoParallelActive g act := by
  rintro k l u v hkl hk hl ⟨hau, hav⟩
  have hne := joins_ne hlf hk
  obtain ⟨hu, hv⟩ := joins_lt hwf hk
  have hr := cert_rank_ne hwf c hk hne
  rcases lt_or_gt_of_ne hr with h | h
  · have := countInc_le_one (cert_count_le_one c hv hav) hk.symm (by simp [h, hau])
      hl.symm (by simp [h, hau])
    exact hkl this.2
  · have := countInc_le_one (cert_count_le_one c hu hau) hk (by simp [h, hav])
      hl (by simp [h, hav])
    exact hkl this.2

/-- A neighbour (in a cycle through a vertex `u` of maximal rank) is a lower-ranked active entry. -/
theorem cert_lower_of_adj (hwf : g.wf = true) (c : AVCCert g act true) {u a : ↥(activeSet g act)}
    (hadj : (actGraph g act).Adj u a) (hle : c.rank a.1.1 ≤ c.rank u.1.1) :
    ∃ k, Joins g k u.1.1 a.1.1 ∧
      (fun je : Nat × Nat => decide (c.rank je.1 < c.rank u.1.1) && act je.1) (a.1.1, k) = true := by
  rw [actGraph_adj] at hadj
  obtain ⟨hne, k, hk⟩ := hadj
  have := cert_rank_ne hwf c hk hne
  refine ⟨k, hk, ?_⟩
  simp only [Bool.and_eq_true, decide_eq_true_eq]
  exact ⟨by omega, a.2⟩

theorem cert_acyclic (hwf : g.wf = true) (c : AVCCert g act true) :
    (actGraph g act).IsAcyclic := by
  classical
  intro v p hp
  obtain ⟨u, hu, hmax⟩ := Finset.exists_max_image p.support.toFinset (fun x => c.rank x.1.1)
    ⟨v, by simp⟩
  rw [List.mem_toFinset] at hu
  have h2 := hp.ncard_neighborSet_toSubgraph_eq_two hu
  obtain ⟨a, b, hab, hset⟩ := Set.ncard_eq_two.1 h2
  have ha : p.toSubgraph.Adj u a := by
    have : a ∈ p.toSubgraph.neighborSet u := by rw [hset]; simp
    exact this
  have hb : p.toSubgraph.Adj u b := by
    have : b ∈ p.toSubgraph.neighborSet u := by rw [hset]; simp
    exact this
  have hsa : a ∈ p.support := (p.mem_verts_toSubgraph).1 (p.toSubgraph.edge_vert ha.symm)
  have hsb : b ∈ p.support := (p.mem_verts_toSubgraph).1 (p.toSubgraph.edge_vert hb.symm)
  obtain ⟨ka, hka, hpa⟩ := cert_lower_of_adj hwf c ha.adj_sub (hmax a (List.mem_toFinset.2 hsa))
  obtain ⟨kb, hkb, hpb⟩ := cert_lower_of_adj hwf c hb.adj_sub (hmax b (List.mem_toFinset.2 hsb))
  have := countInc_le_one (cert_count_le_one c u.1.2 u.2) hka hpa hkb hpb
  exact hab (Subtype.ext (Fin.ext this.1))

theorem cert_tree (hwf : g.wf = true) (hlf : LoopFree g) (c : AVCCert g act true) :
    ActiveTreeOrEmpty g act := by
  by_cases hex : ∃ v, v < g.n ∧ act v = true
  · obtain ⟨r0, hr0, har0⟩ := hex
    right
    have hconn : (actGraph g act).Connected :=
      { preconnected := cert_connected hwf c, nonempty := ⟨mkV r0 hr0 har0⟩ }
    exact ⟨⟨hconn, cert_acyclic hwf c⟩, cert_noParallel hwf hlf c⟩
  · left
    intro v hv
    by_contra h
    exact hex ⟨v, hv, by simpa using h⟩

end TreeSoundness

/-! ### Main theorems -/

theorem avc_cert_iff_connected (g : Graph) (act : Nat → Bool) (hwf : g.wf = true) :
    Nonempty (AVCCert g act false) ↔ ActiveConnected g act :=
  ⟨fun ⟨c⟩ => cert_connected hwf c, connected_cert⟩

theorem avc_cert_iff_tree (g : Graph) (act : Nat → Bool) (hwf : g.wf = true) (hlf : LoopFree g) :
    Nonempty (AVCCert g act true) ↔ ActiveTreeOrEmpty g act :=
  ⟨fun ⟨c⟩ => cert_tree hwf hlf c, tree_cert hwf hlf⟩

end Cspuz.Proofs.C04L2
