/-
  C11 / shakashaka — the constraints posted by `solve_shakashaka` around one grid point, read on an answer grid
  (`PointOK`): the interface between the program-level proof (Proofs/C11ShakashakaP.lean: the program encodes
  `CluesOK ∧ ∀ points, PointOK`) and the geometric proofs (PointOK ⇔ white angles 90°/180°/360° ⇔ rectangles).
-/
import CspuzModel.Spec.PuzzleRules.Shakashaka
namespace Cspuz.Proofs.C11ShakashakaDefs
open Cspuz Cspuz.Spec Cspuz.Puzzles.Shakashaka Cspuz.Spec.Shakashaka

/-- The cell `(cy, cx)` lies on the board. -/
def inB (pb : Problem) (cy cx : Int) : Bool :=
  decide (0 ≤ cy) && decide (cy < pb.height) && decide (0 ≤ cx) && decide (cx < pb.width)

/-- The answer value of cell `(cy, cx)`. -/
def gv (g : Nat → Nat → Int) (cy cx : Int) : Int := g cy.toNat cx.toNat

/-- The cell `(cy, cx)` is a white cell of the board (`problem[cy][cx] is None`). -/
def whiteCell (pb : Problem) (cy cx : Int) : Bool :=
  inB pb cy cx && (val pb cy.toNat cx.toNat).isNone

/-- The four cells around the grid point `(y, x)` in the order of the program: NW, SW, SE, NE. -/
def qc (y x : Int) (j : Nat) : Int × Int :=
  match j with
  | 0 => (y - 1, x - 1)
  | 1 => (y, x - 1)
  | 2 => (y, x)
  | _ => (y - 1, x)

/-- The triangle value tested by `diagonals[i]`. -/
def dval (i : Nat) : Int :=
  match i with
  | 0 => 4 | 1 => 2 | 2 => 1 | 3 => 3 | 4 => 2 | 5 => 4 | 6 => 3 | _ => 1

/-- The triangle value (besides 0) accepted by the `is_white_angle` entry of quadrant `j`. -/
def wval (j : Nat) : Int :=
  match j with
  | 0 => 1 | 1 => 2 | 2 => 3 | _ => 4

/-- `diagonals[i]` at the grid point `(y, x)`. -/
def diagB (pb : Problem) (g : Nat → Nat → Int) (y x : Int) (i : Nat) : Bool :=
  inB pb (qc y x (i / 2)).1 (qc y x (i / 2)).2 && decide (gv g (qc y x (i / 2)).1 (qc y x (i / 2)).2 = dval i)

/-- `is_empty[j]` at the grid point `(y, x)`. -/
def emptyB (pb : Problem) (g : Nat → Nat → Int) (y x : Int) (j : Nat) : Bool :=
  whiteCell pb (qc y x j).1 (qc y x j).2 && decide (gv g (qc y x j).1 (qc y x j).2 = 0)

/-- The `is_white_angle` entry of quadrant `j` (absent entries read as `false`). -/
def angleB (pb : Problem) (g : Nat → Nat → Int) (y x : Int) (j : Nat) : Bool :=
  whiteCell pb (qc y x j).1 (qc y x j).2 &&
    (decide (gv g (qc y x j).1 (qc y x j).2 = 0) || decide (gv g (qc y x j).1 (qc y x j).2 = wval j))

/-- The constraints posted for the grid point `(y, x)`. -/
def PointOK (pb : Problem) (g : Nat → Nat → Int) (y x : Int) : Prop :=
  (∀ i, i < 8 → diagB pb g y x i = true →
    if i % 2 = 0 then
      diagB pb g y x ((i + 3) % 8) = true ∨
        (emptyB pb g y x ((i + 3) % 8 / 2) = true ∧ diagB pb g y x ((i + 5) % 8) = true)
    else
      diagB pb g y x ((i + 5) % 8) = true ∨
        (emptyB pb g y x ((i + 5) % 8 / 2) = true ∧ diagB pb g y x ((i + 3) % 8) = true)) ∧
  ((List.range 4).filter fun j => angleB pb g y x j).length ≠ 3

/-- All posted constraints, read on the grid. -/
def LocalCode (pb : Problem) (g : Nat → Nat → Int) : Prop :=
  CluesOK pb g ∧ ∀ y : Nat, y ≤ pb.height → ∀ x : Nat, x ≤ pb.width → PointOK pb g y x

end Cspuz.Proofs.C11ShakashakaDefs
