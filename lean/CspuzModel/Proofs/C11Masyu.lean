/-
  C11 for `solve_masyu`: the posted program encodes the published rules.
-/
import CspuzModel.Proofs.C11LoopDeg
import CspuzModel.Proofs.C11CL
import CspuzModel.Spec.PuzzleRules.Masyu
namespace Cspuz.Proofs.C11Masyu
open Cspuz Cspuz.Spec Cspuz.Spec.FrameGeom Cspuz.Spec.Loop Cspuz.Proofs Cspuz.Proofs.C11Loop
open Cspuz.Puzzles Cspuz.Puzzles.Loop Cspuz.Puzzles.Masyu Cspuz.Spec.Masyu
open Cspuz.Proofs.C11Slitherlink (mem_cellsOf)

/-! ### `a[i][j]` on an array of fresh variables -/

theorem rowCol_fresh (f : Nat → Expr) (h w y x : Nat) (hy : y < h) (hx : x < w) :
    rowCol ⟨h, w, (List.range (h * w)).map f⟩ (y : Int) (x : Int) = .ok (f (y * w + x)) := by
  unfold rowCol
  simp only []
  rw [Cspuz.Proofs.C13.getitem2D_eq_spec _ _ h w _ (by simp)]
  have hfull := C11CL.axisSel_full w
  unfold fullSlice at hfull
  simp only [specGetitem, specPair, C11CL.axisSel_idx h y hy, hfull, bind, Except.bind]
  rw [C11CL.sel_fresh f h w [y] (List.range w) (by simpa using hy) (by simp)]
  simp only [Bool.true_and, Bool.false_eq_true, and_false, if_false, Bool.or_false, not_true_eq_false,
    decide_false, decide_true, Bool.true_or, Bool.or_true, not_false_eq_true, if_true]
  simp only [List.flatMap_cons, List.flatMap_nil, List.append_nil]
  apply C14.pyIndex_nat
  rw [List.getElem?_map, List.getElem?_range hx]
  rfl

theorem rowCol_h (H W y x : Nat) (hy : y ≤ H) (hx : x < W) :
    rowCol (Frame.fresh 0 H W).horizontal (y : Int) (x : Int) = .ok (.bvar ((Seg.h y x).var 0 H W)) := by
  have := rowCol_fresh (fun i => Expr.bvar (0 + i)) (H + 1) W y x (by omega) hx
  simp only [Seg.var, Nat.add_assoc]
  exact this

theorem rowCol_v (H W y x : Nat) (hy : y < H) (hx : x ≤ W) :
    rowCol (Frame.fresh 0 H W).vertical (y : Int) (x : Int) = .ok (.bvar ((Seg.v y x).var 0 H W)) := by
  have := rowCol_fresh (fun i => Expr.bvar (0 + (H + 1) * W + i)) H (W + 1) y x hy (by omega)
  simp only [Seg.var, Nat.add_assoc] at this ⊢
  exact this
