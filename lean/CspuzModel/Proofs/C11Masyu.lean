/-
  C11 for `solve_masyu`: the posted program encodes the published rules.
-/
import CspuzModel.Proofs.C11LoopDeg
import CspuzModel.Proofs.C11CL
import CspuzModel.Spec.PuzzleRules.Masyu
namespace Cspuz.Proofs.C11Masyu
open Cspuz Cspuz.Spec Cspuz.Spec.FrameGeom Cspuz.Spec.Loop Cspuz.Proofs Cspuz.Proofs.C11Loop
open Cspuz.Puzzles Cspuz.Puzzles.Loop Cspuz.Puzzles.Masyu Cspuz.Spec.Masyu
open Cspuz.Proofs.C11Slitherlink (mem_cellsOf)

/-! ### `a[i][j]` on an array of fresh variables -/

theorem rowCol_fresh (f : Nat → Expr) (h w y x : Nat) (hy : y < h) (hx : x < w) :
    rowCol ⟨h, w, (List.range (h * w)).map f⟩ (y : Int) (x : Int) = .ok (f (y * w + x)) := by
  unfold rowCol
  simp only []
  rw [Cspuz.Proofs.C13.getitem2D_eq_spec _ _ h w _ (by simp)]
  have hfull := C11CL.axisSel_full w
  unfold fullSlice at hfull
  simp only [specGetitem, specPair, C11CL.axisSel_idx h y hy, hfull, bind, Except.bind]
  rw [C11CL.sel_fresh f h w [y] (List.range w) (by simpa using hy) (by simp)]
  simp only [Bool.false_eq_true, and_false, if_false]
  simp only [List.flatMap_cons, List.flatMap_nil, List.append_nil]
  apply C14.pyIndex_nat
  rw [List.getElem?_map, List.getElem?_range hx]
  rfl

theorem rowCol_h (H W y x : Nat) (hy : y ≤ H) (hx : x < W) :
    rowCol (Frame.fresh 0 H W).horizontal (y : Int) (x : Int) = .ok (.bvar ((Seg.h y x).var 0 H W)) := by
  have e : (Frame.fresh 0 H W).horizontal = ⟨H + 1, W, (List.range ((H + 1) * W)).map (fun i => Expr.bvar (0 + i))⟩ := rfl
  rw [e, rowCol_fresh _ (H + 1) W y x (by omega) hx]
  simp only [Seg.var, Nat.add_assoc]

theorem rowCol_v (H W y x : Nat) (hy : y < H) (hx : x ≤ W) :
    rowCol (Frame.fresh 0 H W).vertical (y : Int) (x : Int) = .ok (.bvar ((Seg.v y x).var 0 H W)) := by
  have e : (Frame.fresh 0 H W).vertical
      = ⟨H, W + 1, (List.range (H * (W + 1))).map (fun i => Expr.bvar (0 + (H + 1) * W + i))⟩ := rfl
  rw [e, rowCol_fresh _ H (W + 1) y x hy (by omega)]
  simp only [Seg.var, Nat.add_assoc]

/-! ### Boolean operands with a known value -/

/-- `e` is a well-typed Boolean operand (`BoolExpr` or Python bool) whose value under `σ` is `v σ`. -/
def Good (e : Expr) (v : Asg → Bool) : Prop :=
  e.isBoolLike = true ∧ wtB e = true ∧ ∀ σ, eval σ e = some (.b (v σ))

theorem good_lit (b : Bool) : Good (.litB b) (fun _ => b) := ⟨rfl, rfl, fun σ => eval_litB σ b⟩
theorem good_bvar (k : Nat) : Good (.bvar k) (fun σ => σ.b k) := ⟨rfl, rfl, fun σ => eval_bvar σ k⟩
theorem good_not_bvar (k : Nat) : Good (.node .not [.bvar k]) (fun σ => !σ.b k) :=
  ⟨rfl, rfl, fun σ => by simp [eval_node, evalOp]⟩

/-- closed forms of Python `&` and `|` on Boolean operands. -/
def andE (a b : Expr) : Expr :=
  match a, b with
  | .litB x, .litB y => .litB (x && y)
  | _, _ => .node .and [a, b]

def orE (a b : Expr) : Expr :=
  match a, b with
  | .litB x, .litB y => .litB (x || y)
  | _, _ => .node .or [a, b]

theorem andPy_eq {a b : Expr} (ha : a.isBoolLike = true) (hb : b.isBoolLike = true) :
    andPy a b = .ok (andE a b) := by
  unfold andPy andE
  cases a <;> cases b <;> simp_all

theorem orPy_eq {a b : Expr} (ha : a.isBoolLike = true) (hb : b.isBoolLike = true) :
    orPy a b = .ok (orE a b) := by
  unfold orPy orE
  cases a <;> cases b <;> simp_all

theorem good_and {a b : Expr} {va vb : Asg → Bool} (ha : Good a va) (hb : Good b vb) :
    andPy a b = .ok (andE a b) ∧ Good (andE a b) (fun σ => va σ && vb σ) := by
  have he := andPy_eq ha.1 hb.1
  obtain ⟨e, he', hbl⟩ := andPy_ok_of_boolLike ha.1 hb.1
  rw [he] at he'
  cases he'
  refine ⟨he, hbl, ?_, fun σ => eval_andPy he (ha.2.2 σ) (hb.2.2 σ)⟩
  unfold andE
  split
  · rfl
  · simp [wtB, wtBs, ha.2.1, hb.2.1]

theorem good_or {a b : Expr} {va vb : Asg → Bool} (ha : Good a va) (hb : Good b vb) :
    orPy a b = .ok (orE a b) ∧ Good (orE a b) (fun σ => va σ || vb σ) := by
  refine ⟨orPy_eq ha.1 hb.1, ?_⟩
  unfold orE
  split
  · next x y =>
    refine ⟨rfl, rfl, fun σ => ?_⟩
    have h1 := ha.2.2 σ
    have h2 := hb.2.2 σ
    simp only [eval_litB, Option.some.injEq, Val.b.injEq] at h1 h2
    rw [eval_litB, h1, h2]
  · refine ⟨rfl, by simp [wtB, wtBs, ha.2.1, hb.2.1], fun σ => ?_⟩
    rw [eval_node]
    simp only [List.map_cons, List.map_nil, ha.2.2 σ, hb.2.2 σ]
    simp [evalOp, allBools]

/-! ### `get_edge` -/

section GetEdge
variable (pb : Problem)

/-- Value of the horizontal step `(y, c) - (y, c+1)` (false when it does not exist). -/
def hv (σ : Asg) (y : Nat) (c : Int) : Bool :=
  if 0 ≤ c ∧ c < ((pb.width - 1 : Nat) : Int) then σ.b ((Seg.h y c.toNat).var 0 (pb.height - 1) (pb.width - 1)) else false

/-- Value of the vertical step `(r, x) - (r+1, x)` (false when it does not exist). -/
def vv (σ : Asg) (r : Int) (x : Nat) : Bool :=
  if 0 ≤ r ∧ r < ((pb.height - 1 : Nat) : Int) then σ.b ((Seg.v r.toNat x).var 0 (pb.height - 1) (pb.width - 1)) else false

def negIf (neg : Bool) (b : Bool) : Bool := if neg then !b else b

/-- closed form of `get_edge` on a horizontal / vertical step position. -/
def hE (y : Nat) (c : Int) (neg : Bool) : Expr :=
  if 0 ≤ c ∧ c < ((pb.width - 1 : Nat) : Int) then
    (if neg then .node .not [.bvar ((Seg.h y c.toNat).var 0 (pb.height - 1) (pb.width - 1))]
     else .bvar ((Seg.h y c.toNat).var 0 (pb.height - 1) (pb.width - 1)))
  else .litB neg

def vE (r : Int) (x : Nat) (neg : Bool) : Expr :=
  if 0 ≤ r ∧ r < ((pb.height - 1 : Nat) : Int) then
    (if neg then .node .not [.bvar ((Seg.v r.toNat x).var 0 (pb.height - 1) (pb.width - 1))]
     else .bvar ((Seg.v r.toNat x).var 0 (pb.height - 1) (pb.width - 1)))
  else .litB neg

theorem notE_bvar (k : Nat) : notE (.bvar k) = .ok (.node .not [.bvar k]) := rfl

theorem good_hE (y : Nat) (c : Int) (neg : Bool) : Good (hE pb y c neg) (fun σ => negIf neg (hv pb σ y c)) := by
  unfold hE
  by_cases hc : 0 ≤ c ∧ c < ((pb.width - 1 : Nat) : Int)
  · rw [if_pos hc]
    cases neg
    · simpa [negIf, hv, hc] using good_bvar ((Seg.h y c.toNat).var 0 (pb.height - 1) (pb.width - 1))
    · simpa [negIf, hv, hc] using good_not_bvar ((Seg.h y c.toNat).var 0 (pb.height - 1) (pb.width - 1))
  · rw [if_neg hc]
    have := good_lit neg
    cases neg <;> simpa [negIf, hv, hc] using this

theorem good_vE (r : Int) (x : Nat) (neg : Bool) : Good (vE pb r x neg) (fun σ => negIf neg (vv pb σ r x)) := by
  unfold vE
  by_cases hc : 0 ≤ r ∧ r < ((pb.height - 1 : Nat) : Int)
  · rw [if_pos hc]
    cases neg
    · simpa [negIf, vv, hc] using good_bvar ((Seg.v r.toNat x).var 0 (pb.height - 1) (pb.width - 1))
    · simpa [negIf, vv, hc] using good_not_bvar ((Seg.v r.toNat x).var 0 (pb.height - 1) (pb.width - 1))
  · rw [if_neg hc]
    have := good_lit neg
    cases neg <;> simpa [negIf, vv, hc] using this

theorem getEdge_h (hw : WellFormed pb) (y : Nat) (hy : y < pb.height) (c : Int) (Y X : Int)
    (hY : Y = (y : Int) * 2) (hX : X = c * 2 + 1) (neg : Bool) :
    getEdge pb (Frame.fresh 0 (pb.height - 1) (pb.width - 1)) Y X neg = .ok (hE pb y c neg) := by
  obtain ⟨h1, h2, _, _⟩ := hw
  subst hY hX
  unfold getEdge hE
  by_cases hc : 0 ≤ c ∧ c < ((pb.width - 1 : Nat) : Int)
  · rw [if_pos (by omega), if_pos hc]
    have hm : pyMod ((y : Int) * 2) 2 = 0 := by
      simp only [pyMod, Int.fmod_eq_emod_of_nonneg _ (show (0 : Int) ≤ 2 by omega)]; omega
    have hd1 : pyDiv ((y : Int) * 2) 2 = (y : Int) := by
      simp only [pyDiv, Int.fdiv_eq_ediv_of_nonneg _ (show (0 : Int) ≤ 2 by omega)]; omega
    have hd2 : pyDiv (c * 2 + 1) 2 = ((c.toNat : Nat) : Int) := by
      simp only [pyDiv, Int.fdiv_eq_ediv_of_nonneg _ (show (0 : Int) ≤ 2 by omega)]; omega
    rw [if_pos hm, hd1, hd2, rowCol_h _ _ y c.toNat (by omega) (by omega), ok_bind]
    cases neg
    · rfl
    · simp only [if_true]; exact notE_bvar _
  · rw [if_neg (by omega), if_neg hc]

theorem getEdge_v (hw : WellFormed pb) (x : Nat) (hx : x < pb.width) (r : Int) (Y X : Int)
    (hY : Y = r * 2 + 1) (hX : X = (x : Int) * 2) (neg : Bool) :
    getEdge pb (Frame.fresh 0 (pb.height - 1) (pb.width - 1)) Y X neg = .ok (vE pb r x neg) := by
  obtain ⟨h1, h2, _, _⟩ := hw
  subst hY hX
  unfold getEdge vE
  by_cases hc : 0 ≤ r ∧ r < ((pb.height - 1 : Nat) : Int)
  · rw [if_pos (by omega), if_pos hc]
    have hm : ¬ pyMod (r * 2 + 1) 2 = 0 := by
      simp only [pyMod, Int.fmod_eq_emod_of_nonneg _ (show (0 : Int) ≤ 2 by omega)]; omega
    have hd1 : pyDiv (r * 2 + 1) 2 = ((r.toNat : Nat) : Int) := by
      simp only [pyDiv, Int.fdiv_eq_ediv_of_nonneg _ (show (0 : Int) ≤ 2 by omega)]; omega
    have hd2 : pyDiv ((x : Int) * 2) 2 = (x : Int) := by
      simp only [pyDiv, Int.fdiv_eq_ediv_of_nonneg _ (show (0 : Int) ≤ 2 by omega)]; omega
    rw [if_neg hm, hd1, hd2, rowCol_v _ _ r.toNat x (by omega) (by omega), ok_bind]
    cases neg
    · rfl
    · simp only [if_true]; exact notE_bvar _
  · rw [if_neg (by omega), if_neg hc]

end GetEdge

/-! ### closed form of the posted program -/

section Cell
variable (pb : Problem)

def whiteE (y x : Nat) : Expr :=
  orE (andE (andE (hE pb y ((x : Int) - 1) false) (hE pb y (x : Int) false))
            (orE (hE pb y ((x : Int) - 2) true) (hE pb y ((x : Int) + 1) true)))
      (andE (andE (vE pb ((y : Int) - 1) x false) (vE pb (y : Int) x false))
            (orE (vE pb ((y : Int) - 2) x true) (vE pb ((y : Int) + 1) x true)))

def blackE (y x : Nat) : Expr :=
  andE (orE (andE (hE pb y ((x : Int) - 1) false) (hE pb y ((x : Int) - 2) false))
            (andE (hE pb y (x : Int) false) (hE pb y ((x : Int) + 1) false)))
       (orE (andE (vE pb ((y : Int) - 1) x false) (vE pb ((y : Int) - 2) x false))
            (andE (vE pb (y : Int) x false) (vE pb ((y : Int) + 1) x false)))

def whiteB (σ : Asg) (y x : Nat) : Bool :=
  (hv pb σ y ((x : Int) - 1) && hv pb σ y (x : Int) && (!hv pb σ y ((x : Int) - 2) || !hv pb σ y ((x : Int) + 1))) ||
  (vv pb σ ((y : Int) - 1) x && vv pb σ (y : Int) x && (!vv pb σ ((y : Int) - 2) x || !vv pb σ ((y : Int) + 1) x))

def blackB (σ : Asg) (y x : Nat) : Bool :=
  ((hv pb σ y ((x : Int) - 1) && hv pb σ y ((x : Int) - 2)) || (hv pb σ y (x : Int) && hv pb σ y ((x : Int) + 1))) &&
  ((vv pb σ ((y : Int) - 1) x && vv pb σ ((y : Int) - 2) x) || (vv pb σ (y : Int) x && vv pb σ ((y : Int) + 1) x))

theorem good_whiteE (y x : Nat) : Good (whiteE pb y x) (fun σ => whiteB pb σ y x) := by
  have := (good_or
    (good_and (good_and (good_hE pb y ((x : Int) - 1) false) (good_hE pb y (x : Int) false)).2
      (good_or (good_hE pb y ((x : Int) - 2) true) (good_hE pb y ((x : Int) + 1) true)).2).2
    (good_and (good_and (good_vE pb ((y : Int) - 1) x false) (good_vE pb (y : Int) x false)).2
      (good_or (good_vE pb ((y : Int) - 2) x true) (good_vE pb ((y : Int) + 1) x true)).2).2).2
  simpa [negIf, whiteE, whiteB] using this

theorem good_blackE (y x : Nat) : Good (blackE pb y x) (fun σ => blackB pb σ y x) := by
  have := (good_and
    (good_or (good_and (good_hE pb y ((x : Int) - 1) false) (good_hE pb y ((x : Int) - 2) false)).2
      (good_and (good_hE pb y (x : Int) false) (good_hE pb y ((x : Int) + 1) false)).2).2
    (good_or (good_and (good_vE pb ((y : Int) - 1) x false) (good_vE pb ((y : Int) - 2) x false)).2
      (good_and (good_vE pb (y : Int) x false) (good_vE pb ((y : Int) + 1) x false)).2).2).2
  simpa [negIf, blackE, blackB] using this

/-- What the double loop posts for one cell. -/
def cellE (p : Nat × Nat) : List Expr :=
  if val pb p.1 p.2 = 1 then [whiteE pb p.1 p.2] else if val pb p.1 p.2 = 2 then [blackE pb p.1 p.2] else []

def extra : List Expr := ((cellsOf pb.height pb.width).map (cellE pb)).flatten

theorem tableGet_eq (hw : WellFormed pb) {y x : Nat} (hy : y < pb.height) (hx : x < pb.width) :
    tableGet pb.problem (y : Int) (x : Int) = .ok (val pb y x) := by
  obtain ⟨_, _, hlen, hrows⟩ := hw
  unfold tableGet val
  have hy' : y < pb.problem.length := by rw [hlen]; exact hy
  have hrow : pb.problem[y]? = some pb.problem[y] := List.getElem?_eq_getElem hy'
  have hl : pb.problem[y].length = pb.width := hrows _ (List.getElem_mem hy')
  have hx' : x < pb.problem[y].length := by rw [hl]; exact hx
  rw [C14.pyIndex_nat _ _ _ hrow, ok_bind, C14.pyIndex_nat _ _ _ (List.getElem?_eq_getElem hx')]
  simp [List.getD, hrow, List.getElem?_eq_getElem hx']

theorem cellCs_eq (hw : WellFormed pb) {p : Nat × Nat} (hp : p ∈ cellsOf pb.height pb.width) :
    cellCs pb (Frame.fresh 0 (pb.height - 1) (pb.width - 1)) p = .ok (cellE pb p) := by
  obtain ⟨hy, hx⟩ := mem_cellsOf.mp hp
  obtain ⟨y, x⟩ := p
  simp only [] at hy hx
  -- the twelve `get_edge` calls
  have eh (c : Int) (X : Int) (hX : X = c * 2 + 1) (neg : Bool) :=
    getEdge_h pb hw y hy c ((y : Int) * 2) X rfl hX neg
  have ev (r : Int) (Y : Int) (hY : Y = r * 2 + 1) (neg : Bool) :=
    getEdge_v pb hw x hx r Y ((x : Int) * 2) hY rfl neg
  have h1 := eh ((x : Int) - 1) ((x : Int) * 2 - 1) (by omega)
  have h2 := eh (x : Int) ((x : Int) * 2 + 1) (by omega)
  have h3 := eh ((x : Int) - 2) ((x : Int) * 2 - 3) (by omega)
  have h4 := eh ((x : Int) + 1) ((x : Int) * 2 + 3) (by omega)
  have v1 := ev ((y : Int) - 1) ((y : Int) * 2 - 1) (by omega)
  have v2 := ev (y : Int) ((y : Int) * 2 + 1) (by omega)
  have v3 := ev ((y : Int) - 2) ((y : Int) * 2 - 3) (by omega)
  have v4 := ev ((y : Int) + 1) ((y : Int) * 2 + 3) (by omega)
  -- Boolean-likeness of the intermediate operands
  have gh (c : Int) (neg : Bool) := (good_hE pb y c neg)
  have gv (r : Int) (neg : Bool) := (good_vE pb r x neg)
  unfold cellCs cellE
  simp only []
  rw [tableGet_eq pb hw hy hx, ok_bind]
  by_cases hv1 : val pb y x = 1
  · simp only [hv1, if_true]
    simp only [h1, h2, h3, h4, v1, v2, v3, v4, bind, Except.bind]
    have a1 := good_and (gh ((x : Int) - 1) false) (gh (x : Int) false)
    have a2 := good_or (gh ((x : Int) - 2) true) (gh ((x : Int) + 1) true)
    have a := good_and a1.2 a2.2
    have b1 := good_and (gv ((y : Int) - 1) false) (gv (y : Int) false)
    have b2 := good_or (gv ((y : Int) - 2) true) (gv ((y : Int) + 1) true)
    have b := good_and b1.2 b2.2
    have c := good_or a.2 b.2
    simp only [a1.1, a2.1, a.1, b1.1, b2.1, b.1, c.1]
    have hbl : (whiteE pb y x).isBoolLike = true := c.2.1
    unfold whiteE at hbl ⊢
    simp only [ensure1, hbl, if_true]
  · by_cases hv2 : val pb y x = 2
    · rw [hv2, if_neg (by decide : ¬ ((2 : Int) = 1)), if_pos rfl, if_neg (by decide : ¬ ((2 : Int) = 1)), if_pos rfl]
      simp only [h1, h2, h3, h4, v1, v2, v3, v4, bind, Except.bind]
      have d0 := good_and (gh ((x : Int) - 1) false) (gh ((x : Int) - 2) false)
      have d1 := good_and (gv ((y : Int) - 1) false) (gv ((y : Int) - 2) false)
      have d2 := good_and (gh (x : Int) false) (gh ((x : Int) + 1) false)
      have d3 := good_and (gv (y : Int) false) (gv ((y : Int) + 1) false)
      have o1 := good_or d0.2 d2.2
      have o2 := good_or d1.2 d3.2
      have c := good_and o1.2 o2.2
      simp only [d0.1, d1.1, d2.1, d3.1, o1.1, o2.1, c.1]
      have hbl : (blackE pb y x).isBoolLike = true := c.2.1
      unfold blackE at hbl ⊢
      simp only [ensure1, hbl, if_true]
    · simp only [hv1, hv2, if_false]

/-- Closed form of the posted program. -/
theorem program_eq (hw : WellFormed pb) :
    program pb = .ok
      { decls := List.replicate (Frame.numVars (pb.height - 1) (pb.width - 1)) .bool ++ (cyc (pb.height - 1) (pb.width - 1)).decls,
        cs := (cyc (pb.height - 1) (pb.width - 1)).cs ++ extra pb,
        keys := List.range (Frame.numVars (pb.height - 1) (pb.width - 1)) } := by
  have hw' := hw
  obtain ⟨h1, h2, _, _⟩ := hw
  unfold program
  rw [if_neg (by omega)]
  simp only [frameKeys_eq, setup_eq, bind, Except.bind]
  rw [mapM_eq_ok_map (g := cellE pb) (fun p hp => cellCs_eq pb hw' hp)]
  rfl

end Cell

/-! ### Geometry of a loop around a cell -/

/-- the opposite direction. -/
def opp : Dir → Dir
  | .up => .down | .down => .up | .left => .right | .right => .left

theorem forall_dir (P : Dir → Prop) : (∀ d, P d) ↔ (P .up ∧ P .down ∧ P .left ∧ P .right) :=
  ⟨fun h => ⟨h _, h _, h _, h _⟩, fun h d => by cases d <;> simp [h.1, h.2.1, h.2.2.1, h.2.2.2]⟩

theorem exists_dir (P : Dir → Prop) : (∃ d, P d) ↔ (P .up ∨ P .down ∨ P .left ∨ P .right) := by
  constructor
  · rintro ⟨d, h⟩; cases d <;> simp [h]
  · rintro (h | h | h | h) <;> exact ⟨_, h⟩

/-- Following an arm leads to a lattice point from which the same segment leads back. -/
theorem arm_back (H W : Nat) (on : Seg → Bool) (p : Pt) (hp : PtValid H W p) (d : Dir)
    (h : arm H W on p d = true) : PtValid H W (nb p d) ∧ arm H W on (nb p d) (opp d) = true := by
  obtain ⟨y, x⟩ := p
  simp only [PtValid] at hp
  cases d <;> simp only [arm, nb, opp, PtValid, Bool.and_eq_true, decide_eq_true_eq] at h ⊢
  · exact ⟨⟨by omega, hp.2⟩, decide_eq_true (by omega), h.2⟩
  · refine ⟨⟨by omega, hp.2⟩, decide_eq_true (by omega), ?_⟩
    rw [Nat.add_sub_cancel]; exact h.2
  · exact ⟨⟨hp.1, by omega⟩, decide_eq_true (by omega), h.2⟩
  · refine ⟨⟨hp.1, by omega⟩, decide_eq_true (by omega), ?_⟩
    rw [Nat.add_sub_cancel]; exact h.2

/-- A loop that enters a cell from direction `d` either continues straight (leaves in the opposite direction) or
turns. -/
theorem enter (H W : Nat) (on : Seg → Bool) (hl : IsLoop H W on) (q : Pt) (hq : PtValid H W q) (d : Dir)
    (hin : arm H W on q d = true) :
    turn H W on q = !arm H W on q (opp d) ∧ straight H W on q = arm H W on q (opp d) := by
  have hdeg := C11LoopDeg.arms_of_loop H W on hl q hq
  simp only [] at hdeg
  unfold turn straight
  cases d <;> simp only [opp] at hin ⊢ <;>
    (generalize arm H W on q .up = u at *
     generalize arm H W on q .down = dn at *
     generalize arm H W on q .left = l at *
     generalize arm H W on q .right = r at *
     revert hdeg hin
     cases u <;> cases dn <;> cases l <;> cases r <;> simp [Bool.toNat])

theorem opp_opp (d : Dir) : opp (opp d) = d := by cases d <;> rfl

/-- The white-circle condition in terms of arms: straight through, and not straight on in one of the two
neighbouring cells on the line. -/
def whiteF (H W : Nat) (on : Seg → Bool) (p : Pt) : Bool :=
  (arm H W on p .left && arm H W on p .right &&
    (!arm H W on (nb p .left) .left || !arm H W on (nb p .right) .right)) ||
  (arm H W on p .up && arm H W on p .down &&
    (!arm H W on (nb p .up) .up || !arm H W on (nb p .down) .down))

/-- The black-circle condition in terms of arms. -/
def blackF (H W : Nat) (on : Seg → Bool) (p : Pt) : Bool :=
  ((arm H W on p .left && arm H W on (nb p .left) .left) || (arm H W on p .right && arm H W on (nb p .right) .right)) &&
  ((arm H W on p .up && arm H W on (nb p .up) .up) || (arm H W on p .down && arm H W on (nb p .down) .down))

theorem white_iff (H W : Nat) (on : Seg → Bool) (hl : IsLoop H W on) (p : Pt) (hp : PtValid H W p) :
    whiteF H W on p = true ↔ White H W on p := by
  have key : ∀ d, arm H W on p d = true → turn H W on (nb p d) = !arm H W on (nb p d) d := by
    intro d h
    obtain ⟨hv, hb⟩ := arm_back H W on p hp d h
    have := (enter H W on hl (nb p d) hv (opp d) hb).1
    rwa [opp_opp] at this
  have hdeg := C11LoopDeg.arms_of_loop H W on hl p hp
  simp only [] at hdeg
  unfold White
  rw [exists_dir]
  have e : ∀ d, (arm H W on p d = true ∧ turn H W on (nb p d) = true) ↔
      (arm H W on p d = true ∧ arm H W on (nb p d) d = false) := by
    intro d
    constructor
    · rintro ⟨h1, h2⟩; rw [key d h1] at h2; exact ⟨h1, by simpa using h2⟩
    · rintro ⟨h1, h2⟩; exact ⟨h1, by rw [key d h1, h2]; rfl⟩
  rw [e .up, e .down, e .left, e .right]
  unfold whiteF straight
  generalize arm H W on p .up = u at *
  generalize arm H W on p .down = dn at *
  generalize arm H W on p .left = l at *
  generalize arm H W on p .right = r at *
  generalize arm H W on (nb p .up) .up = cu
  generalize arm H W on (nb p .down) .down = cd
  generalize arm H W on (nb p .left) .left = cl
  generalize arm H W on (nb p .right) .right = cr
  revert hdeg
  cases u <;> cases dn <;> cases l <;> cases r <;> cases cu <;> cases cd <;> cases cl <;> cases cr <;>
    simp [Bool.toNat]

theorem black_iff (H W : Nat) (on : Seg → Bool) (hl : IsLoop H W on) (p : Pt) (hp : PtValid H W p) :
    blackF H W on p = true ↔ Black H W on p := by
  have key : ∀ d, arm H W on p d = true → straight H W on (nb p d) = arm H W on (nb p d) d := by
    intro d h
    obtain ⟨hv, hb⟩ := arm_back H W on p hp d h
    have := (enter H W on hl (nb p d) hv (opp d) hb).2
    rwa [opp_opp] at this
  have hdeg := C11LoopDeg.arms_of_loop H W on hl p hp
  simp only [] at hdeg
  unfold Black
  rw [forall_dir]
  have e : ∀ d, (arm H W on p d = true → straight H W on (nb p d) = true) ↔
      (arm H W on p d = true → arm H W on (nb p d) d = true) := by
    intro d
    constructor
    · intro h h1; rw [← key d h1]; exact h h1
    · intro h h1; rw [key d h1]; exact h h1
  rw [e .up, e .down, e .left, e .right]
  unfold blackF turn
  generalize arm H W on p .up = u at *
  generalize arm H W on p .down = dn at *
  generalize arm H W on p .left = l at *
  generalize arm H W on p .right = r at *
  generalize arm H W on (nb p .up) .up = cu
  generalize arm H W on (nb p .down) .down = cd
  generalize arm H W on (nb p .left) .left = cl
  generalize arm H W on (nb p .right) .right = cr
  revert hdeg
  cases u <;> cases dn <;> cases l <;> cases r <;> cases cu <;> cases cd <;> cases cl <;> cases cr <;>
    simp [Bool.toNat]

/-! ### The clue constraints say what the rules say -/

section Sem
variable (pb : Problem)

local notation "HH" => pb.height - 1
local notation "WW" => pb.width - 1

theorem hv_right (σ : Asg) (y x : Nat) :
    hv pb σ y (x : Int) = arm HH WW (onOf HH WW σ) (y, x) .right := by
  unfold hv arm onOf
  by_cases h : x < pb.width - 1
  · rw [if_pos (by omega)]; simp [h]
  · rw [if_neg (by omega)]; simp [h]

theorem hv_left (σ : Asg) (y x : Nat) (hx : x ≤ pb.width - 1) :
    hv pb σ y ((x : Int) - 1) = arm HH WW (onOf HH WW σ) (y, x) .left := by
  unfold hv arm onOf
  by_cases h : 0 < x
  · rw [if_pos (by omega)]
    have : ((x : Int) - 1).toNat = x - 1 := by omega
    simp [h, this]
  · rw [if_neg (by omega)]; simp [h]

theorem hv_left2 (σ : Asg) (y x : Nat) (hx : x ≤ pb.width - 1) :
    hv pb σ y ((x : Int) - 2) = arm HH WW (onOf HH WW σ) (nb (y, x) .left) .left := by
  by_cases h : 0 < x
  · have := hv_left pb σ y (x - 1) (by omega)
    rw [show (((x - 1 : Nat) : Int) - 1) = (x : Int) - 2 by omega] at this
    exact this
  · have hx0 : x = 0 := by omega
    subst hx0
    unfold hv arm nb
    rw [if_neg (by omega)]; simp

theorem hv_right2 (σ : Asg) (y x : Nat) :
    hv pb σ y ((x : Int) + 1) = arm HH WW (onOf HH WW σ) (nb (y, x) .right) .right := by
  have := hv_right pb σ y (x + 1)
  rw [show (((x + 1 : Nat) : Int)) = (x : Int) + 1 by omega] at this
  exact this

theorem vv_down (σ : Asg) (y x : Nat) :
    vv pb σ (y : Int) x = arm HH WW (onOf HH WW σ) (y, x) .down := by
  unfold vv arm onOf
  by_cases h : y < pb.height - 1
  · rw [if_pos (by omega)]; simp [h]
  · rw [if_neg (by omega)]; simp [h]

theorem vv_up (σ : Asg) (y x : Nat) (hy : y ≤ pb.height - 1) :
    vv pb σ ((y : Int) - 1) x = arm HH WW (onOf HH WW σ) (y, x) .up := by
  unfold vv arm onOf
  by_cases h : 0 < y
  · rw [if_pos (by omega)]
    have : ((y : Int) - 1).toNat = y - 1 := by omega
    simp [h, this]
  · rw [if_neg (by omega)]; simp [h]

theorem vv_up2 (σ : Asg) (y x : Nat) (hy : y ≤ pb.height - 1) :
    vv pb σ ((y : Int) - 2) x = arm HH WW (onOf HH WW σ) (nb (y, x) .up) .up := by
  by_cases h : 0 < y
  · have := vv_up pb σ (y - 1) x (by omega)
    rw [show (((y - 1 : Nat) : Int) - 1) = (y : Int) - 2 by omega] at this
    exact this
  · have hy0 : y = 0 := by omega
    subst hy0
    unfold vv arm nb
    rw [if_neg (by omega)]; simp

theorem vv_down2 (σ : Asg) (y x : Nat) :
    vv pb σ ((y : Int) + 1) x = arm HH WW (onOf HH WW σ) (nb (y, x) .down) .down := by
  have := vv_down pb σ (y + 1) x
  rw [show (((y + 1 : Nat) : Int)) = (y : Int) + 1 by omega] at this
  exact this

theorem whiteB_eq (σ : Asg) (y x : Nat) (hy : y ≤ pb.height - 1) (hx : x ≤ pb.width - 1) :
    whiteB pb σ y x = whiteF HH WW (onOf HH WW σ) (y, x) := by
  unfold whiteB whiteF
  rw [hv_left pb σ y x hx, hv_right, hv_left2 pb σ y x hx, hv_right2, vv_up pb σ y x hy, vv_down,
    vv_up2 pb σ y x hy, vv_down2]

theorem blackB_eq (σ : Asg) (y x : Nat) (hy : y ≤ pb.height - 1) (hx : x ≤ pb.width - 1) :
    blackB pb σ y x = blackF HH WW (onOf HH WW σ) (y, x) := by
  unfold blackB blackF
  rw [hv_left pb σ y x hx, hv_right, hv_left2 pb σ y x hx, hv_right2, vv_up pb σ y x hy, vv_down,
    vv_up2 pb σ y x hy, vv_down2]

/-- Rules 2-4 as a predicate on the drawn steps. -/
def G (on : Seg → Bool) : Prop :=
  ∀ y, y < pb.height → ∀ x, x < pb.width →
    (val pb y x = 1 → White HH WW on (y, x)) ∧ (val pb y x = 2 → Black HH WW on (y, x))

theorem extra_iff (hw : WellFormed pb) (σ : Asg) (hl : IsLoop HH WW (onOf HH WW σ)) :
    (∀ c ∈ extra pb, eval σ c = some (.b true)) ↔ G pb (onOf HH WW σ) := by
  obtain ⟨h1, h2, _, _⟩ := hw
  have hvalid : ∀ y x, y < pb.height → x < pb.width → PtValid HH WW (y, x) := by
    intro y x hy hx; exact ⟨by simp only []; omega, by simp only []; omega⟩
  have hW : ∀ y x, y < pb.height → x < pb.width →
      (eval σ (whiteE pb y x) = some (.b true) ↔ White HH WW (onOf HH WW σ) (y, x)) := by
    intro y x hy hx
    rw [(good_whiteE pb y x).2.2 σ]
    simp only []
    rw [whiteB_eq pb σ y x (by omega) (by omega),
      ← white_iff _ _ _ hl _ (hvalid y x hy hx)]
    simp
  have hB : ∀ y x, y < pb.height → x < pb.width →
      (eval σ (blackE pb y x) = some (.b true) ↔ Black HH WW (onOf HH WW σ) (y, x)) := by
    intro y x hy hx
    rw [(good_blackE pb y x).2.2 σ]
    simp only []
    rw [blackB_eq pb σ y x (by omega) (by omega),
      ← black_iff _ _ _ hl _ (hvalid y x hy hx)]
    simp
  unfold extra G
  constructor
  · intro h y hy x hx
    have hmem : ∀ c ∈ cellE pb (y, x), eval σ c = some (.b true) := by
      intro c hc
      apply h
      rw [List.mem_flatten]
      exact ⟨cellE pb (y, x), List.mem_map.mpr ⟨(y, x), mem_cellsOf.mpr ⟨hy, hx⟩, rfl⟩, hc⟩
    constructor
    · intro hv1
      apply (hW y x hy hx).mp
      apply hmem
      simp [cellE, hv1]
    · intro hv2
      apply (hB y x hy hx).mp
      apply hmem
      simp [cellE, hv2]
  · intro h c hc
    rw [List.mem_flatten] at hc
    obtain ⟨l, hl', hcl⟩ := hc
    obtain ⟨p, hp, rfl⟩ := List.mem_map.mp hl'
    obtain ⟨hy, hx⟩ := mem_cellsOf.mp hp
    unfold cellE at hcl
    split at hcl
    · next hv1 =>
      simp only [List.mem_singleton] at hcl
      subst hcl
      exact (hW _ _ hy hx).mpr ((h _ hy _ hx).1 hv1)
    · split at hcl
      · next hv2 =>
        simp only [List.mem_singleton] at hcl
        subst hcl
        exact (hB _ _ hy hx).mpr ((h _ hy _ hx).2 hv2)
      · simp at hcl

end Sem

/-! ### Only the segments of the lattice matter -/

theorem arm_congr (H W : Nat) (on on' : Seg → Bool) (h : ∀ s, s.Valid H W → on s = on' s)
    (p : Pt) (hp : PtValid H W p) (d : Dir) : arm H W on p d = arm H W on' p d := by
  obtain ⟨y, x⟩ := p
  simp only [PtValid] at hp
  cases d <;> unfold arm <;> simp only []
  · by_cases hg : 0 < y
    · rw [h (Seg.v (y - 1) x) ⟨by omega, hp.2⟩]
    · simp [hg]
  · by_cases hg : y < H
    · rw [h (Seg.v y x) ⟨hg, hp.2⟩]
    · simp [hg]
  · by_cases hg : 0 < x
    · rw [h (Seg.h y (x - 1)) ⟨hp.1, by omega⟩]
    · simp [hg]
  · by_cases hg : x < W
    · rw [h (Seg.h y x) ⟨hp.1, hg⟩]
    · simp [hg]

theorem straight_congr (H W : Nat) (on on' : Seg → Bool) (h : ∀ s, s.Valid H W → on s = on' s)
    (p : Pt) (hp : PtValid H W p) : straight H W on p = straight H W on' p := by
  unfold straight
  rw [arm_congr H W on on' h p hp .left, arm_congr H W on on' h p hp .right,
    arm_congr H W on on' h p hp .up, arm_congr H W on on' h p hp .down]

theorem turn_congr (H W : Nat) (on on' : Seg → Bool) (h : ∀ s, s.Valid H W → on s = on' s)
    (p : Pt) (hp : PtValid H W p) : turn H W on p = turn H W on' p := by
  unfold turn
  rw [arm_congr H W on on' h p hp .left, arm_congr H W on on' h p hp .right,
    arm_congr H W on on' h p hp .up, arm_congr H W on on' h p hp .down]

theorem white_congr (H W : Nat) (on on' : Seg → Bool) (h : ∀ s, s.Valid H W → on s = on' s)
    (p : Pt) (hp : PtValid H W p) : White H W on p → White H W on' p := by
  rintro ⟨hs, d, ha, ht⟩
  refine ⟨by rw [← straight_congr H W on on' h p hp]; exact hs, d,
    by rw [← arm_congr H W on on' h p hp d]; exact ha, ?_⟩
  rw [← turn_congr H W on on' h _ (arm_back H W on p hp d ha).1]; exact ht

theorem black_congr (H W : Nat) (on on' : Seg → Bool) (h : ∀ s, s.Valid H W → on s = on' s)
    (p : Pt) (hp : PtValid H W p) : Black H W on p → Black H W on' p := by
  rintro ⟨ht, hall⟩
  refine ⟨by rw [← turn_congr H W on on' h p hp]; exact ht, ?_⟩
  intro d ha'
  have ha : arm H W on p d = true := by rw [arm_congr H W on on' h p hp d]; exact ha'
  rw [← straight_congr H W on on' h _ (arm_back H W on p hp d ha).1]
  exact hall d ha

theorem G_congr (pb : Problem) (hw : WellFormed pb) (on on' : Seg → Bool)
    (h : ∀ s, s.Valid (pb.height - 1) (pb.width - 1) → on s = on' s) : G pb on ↔ G pb on' := by
  obtain ⟨h1, h2, _, _⟩ := hw
  have hvalid : ∀ y x, y < pb.height → x < pb.width → PtValid (pb.height - 1) (pb.width - 1) (y, x) := by
    intro y x hy hx; exact ⟨by simp only []; omega, by simp only []; omega⟩
  have h' : ∀ s, s.Valid (pb.height - 1) (pb.width - 1) → on' s = on s := fun s hs => (h s hs).symm
  unfold G
  constructor
  · intro hg y hy x hx
    exact ⟨fun hv => white_congr _ _ on on' h _ (hvalid y x hy hx) ((hg y hy x hx).1 hv),
           fun hv => black_congr _ _ on on' h _ (hvalid y x hy hx) ((hg y hy x hx).2 hv)⟩
  · intro hg y hy x hx
    exact ⟨fun hv => white_congr _ _ on' on h' _ (hvalid y x hy hx) ((hg y hy x hx).1 hv),
           fun hv => black_congr _ _ on' on h' _ (hvalid y x hy hx) ((hg y hy x hx).2 hv)⟩

theorem extra_wt (pb : Problem) : ∀ c ∈ extra pb, wtB c = true := by
  intro c hc
  unfold extra at hc
  rw [List.mem_flatten] at hc
  obtain ⟨l, hl, hcl⟩ := hc
  obtain ⟨p, _, rfl⟩ := List.mem_map.mp hl
  unfold cellE at hcl
  split at hcl
  · simp only [List.mem_singleton] at hcl
    subst hcl
    exact (good_whiteE pb p.1 p.2).2.1
  · split at hcl
    · simp only [List.mem_singleton] at hcl
      subst hcl
      exact (good_blackE pb p.1 p.2).2.1
    · simp at hcl

theorem main (pb : Problem) (hw : WellFormed pb) (P : PuzzleProg) (hP : program pb = .ok P) :
    EncodesRules P (Rules pb) ∧ P.KeysOk ∧ (∀ c ∈ P.cs, wtB c = true) := by
  rw [program_eq pb hw] at hP
  cases hP
  refine ⟨?_, keysOk_frame _ _ _ _, ?_⟩
  · have h := encodes_loop' (pb.height - 1) (pb.width - 1) (extra pb) (G pb) (G_congr pb hw)
      (fun σ hl _ => extra_iff pb hw σ hl)
    intro a
    rw [h a]
    unfold Rules RulesOn
    rfl
  · intro c hc
    rcases List.mem_append.mp hc with h | h
    · exact cyc_wt _ _ c h
    · exact extra_wt pb c h

theorem total (pb : Problem) (hw : WellFormed pb) : ∃ P, program pb = .ok P := ⟨_, program_eq pb hw⟩

end Cspuz.Proofs.C11Masyu
