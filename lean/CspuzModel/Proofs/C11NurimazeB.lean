/-
  C11 / Nurimaze, part B — the constraints of the closed form split into the ones over `is_white` only and the
  ones mentioning the hidden `path` array; typing / locality; their meaning on grids.
-/
import CspuzModel.Proofs.C11NurimazeA
import CspuzModel.Proofs.C11NurimisakiB
namespace Cspuz.Proofs.C11NurimazeB
open Cspuz Cspuz.Spec Cspuz.Puzzles Cspuz.Puzzles.Nurimaze Cspuz.Spec.Nurimaze Cspuz.Proofs
open Cspuz.Proofs.C11NurimazeA
open Cspuz.Proofs.C11NurimisakiB (Good good_pair good_not)

/-! ### splitting the constraints -/

/-- The constraints of the cell `(y, x)` over `is_white` only. -/
def whiteCellE (pb : Problem) (y x : Nat) : List Expr :=
  roomE (x + 1 < pb.width) (wallV pb y x) (wv pb.width y x) (wv pb.width y (x + 1)) ++
  roomE (y + 1 < pb.height) (wallH pb y x) (wv pb.width y x) (wv pb.width (y + 1) x) ++
  (if markAt pb y x ≠ 0 then [wv pb.width y x] else [])

/-- The constraints of the cell `(y, x)` that mention `path`. -/
def pathCellE (pb : Problem) (y x : Nat) : List Expr :=
  degCsE pb y x ++
  (if markAt pb y x = 1 then [pv pb y x] else if markAt pb y x = 2 then [.node .not [pv pb y x]] else [])

/-- All constraints over `is_white` only. -/
def locW (pb : Problem) : List Expr :=
  blocks pb.height pb.width ++ (cellsOf pb.height pb.width).flatMap fun p => whiteCellE pb p.1 p.2

/-- All constraints that mention `path`. -/
def pathCs (pb : Problem) : List Expr :=
  thenCs pb ++ (cellsOf pb.height pb.width).flatMap fun p => pathCellE pb p.1 p.2

theorem mem_cellE {pb : Problem} {y x : Nat} {c : Expr} :
    c ∈ cellE pb y x ↔ c ∈ whiteCellE pb y x ∨ c ∈ pathCellE pb y x := by
  simp only [cellE, markE, whiteCellE, pathCellE, List.mem_append]
  tauto

theorem mem_rest {pb : Problem} {c : Expr} : c ∈ rest pb ↔ c ∈ locW pb ∨ c ∈ pathCs pb := by
  simp only [rest, cells, locW, pathCs, List.mem_append, List.mem_flatMap, mem_cellE]
  constructor
  · rintro ((h | h) | ⟨p, hp, h | h⟩)
    · exact Or.inl (Or.inl h)
    · exact Or.inr (Or.inl h)
    · exact Or.inl (Or.inr ⟨p, hp, h⟩)
    · exact Or.inr (Or.inr ⟨p, hp, h⟩)
  · rintro ((h | ⟨p, hp, h⟩) | (h | ⟨p, hp, h⟩))
    · exact Or.inl (Or.inl h)
    · exact Or.inr ⟨p, hp, Or.inl h⟩
    · exact Or.inl (Or.inr h)
    · exact Or.inr ⟨p, hp, Or.inr h⟩

theorem mem_flat {pb : Problem} (f : Problem → Nat → Nat → List Expr) {c : Expr} :
    (c ∈ (cellsOf pb.height pb.width).flatMap fun p => f pb p.1 p.2) ↔
      ∃ y x, y < pb.height ∧ x < pb.width ∧ c ∈ f pb y x := by
  simp only [List.mem_flatMap]
  constructor
  · rintro ⟨p, hp, hc⟩
    obtain ⟨h1, h2⟩ := C11NurimisakiA.mem_cellsOf.1 hp
    exact ⟨p.1, p.2, h1, h2, hc⟩
  · rintro ⟨y, x, hy, hx, hc⟩
    exact ⟨(y, x), C11NurimisakiA.mem_cellsOf.2 ⟨hy, hx⟩, hc⟩

/-! ### typing and locality -/

theorem good_wv {h w y x : Nat} (hy : y < h) (hx : x < w) : Good (h * w) (wv w y x) :=
  C11NurimisakiB.good_cv hy hx

theorem good_mono {b b' : Nat} (hb : b ≤ b') {e : Expr} (h : Good b e) : Good b' e :=
  ⟨h.1, C11Frag.varsBelow_mono hb e h.2⟩

theorem good_pf (pb : Problem) {i : Nat} (hi : i < pb.height * pb.width) :
    Good (4 * (pb.height * pb.width)) (pf pb i) := by
  refine ⟨rfl, ?_⟩
  simp only [pf, pbase, Expr.varsBelow, decide_eq_true_eq]
  omega

theorem good_pv (pb : Problem) {y x : Nat} (hy : y < pb.height) (hx : x < pb.width) :
    Good (4 * (pb.height * pb.width)) (pv pb y x) :=
  good_pf pb (C11Grid.cell_lt hy hx)

theorem good_bin {b : Nat} (op : Op) (hop : op = .iff ∨ op = .imp) {e1 e2 : Expr} (h1 : Good b e1) (h2 : Good b e2) :
    Good b (.node op [e1, e2]) := by
  refine ⟨?_, (C11FragWT.varsBelow_node _ _ _).2 ?_⟩
  · rcases hop with rfl | rfl <;> simp [wtB, wtBs, h1.1, h2.1]
  · intro e he
    simp only [List.mem_cons, List.not_mem_nil, or_false] at he
    rcases he with rfl | rfl
    · exact h1.2
    · exact h2.2

theorem mem_blocks {h w : Nat} {c : Expr} :
    c ∈ blocks h w ↔ ∃ y x, y + 1 < h ∧ x + 1 < w ∧ (c = orBlock w y x ∨ c = nandBlock w y x) := by
  simp only [blocks, List.mem_append, List.mem_map, List.mem_range]
  constructor
  · rintro (⟨i, hi, rfl⟩ | ⟨i, hi, rfl⟩)
    · obtain ⟨h1, h2⟩ := C11Grid.div_lt_of_lt_mul hi
      exact ⟨_, _, Nat.add_lt_of_lt_sub h1, Nat.add_lt_of_lt_sub h2, Or.inl rfl⟩
    · obtain ⟨h1, h2⟩ := C11Grid.div_lt_of_lt_mul hi
      exact ⟨_, _, Nat.add_lt_of_lt_sub h1, Nat.add_lt_of_lt_sub h2, Or.inr rfl⟩
  · rintro ⟨y, x, hy, hx, rfl | rfl⟩
    · refine Or.inl ⟨y * (w - 1) + x, C11Grid.cell_lt (by omega) (by omega), ?_⟩
      have := C11Grid.cell_div_mod (w := w - 1) (y := y) (x := x) (by omega)
      rw [this.1, this.2]
    · refine Or.inr ⟨y * (w - 1) + x, C11Grid.cell_lt (by omega) (by omega), ?_⟩
      have := C11Grid.cell_div_mod (w := w - 1) (y := y) (x := x) (by omega)
      rw [this.1, this.2]

theorem good_blocks {h w : Nat} : ∀ c ∈ blocks h w, Good (h * w) c := by
  intro c hc
  obtain ⟨y, x, hy, hx, rfl | rfl⟩ := mem_blocks.1 hc
  · exact good_pair .or (Or.inr rfl) (good_pair .or (Or.inr rfl) (good_pair .or (Or.inr rfl)
      (good_wv (by omega) (by omega)) (good_wv (by omega) hx)) (good_wv hy (by omega))) (good_wv hy hx)
  · exact good_not (good_pair .and (Or.inl rfl) (good_pair .and (Or.inl rfl) (good_pair .and (Or.inl rfl)
      (good_wv (by omega) (by omega)) (good_wv (by omega) hx)) (good_wv hy (by omega))) (good_wv hy hx))

theorem good_roomE {b : Nat} (inside : Prop) [Decidable inside] (v : Int) {e1 e2 : Expr}
    (h1 : Good b e1) (h2 : inside → Good b e2) : ∀ c ∈ roomE inside v e1 e2, Good b c := by
  intro c hc
  unfold roomE at hc
  split at hc
  · next hi =>
    simp only [List.mem_singleton] at hc; subst hc
    exact good_bin .iff (Or.inl rfl) h1 (h2 hi.1)
  · simp at hc

theorem good_whiteCellE {pb : Problem} {y x : Nat} (hy : y < pb.height) (hx : x < pb.width) :
    ∀ c ∈ whiteCellE pb y x, Good (pb.height * pb.width) c := by
  intro c hc
  simp only [whiteCellE, List.mem_append] at hc
  rcases hc with (hc | hc) | hc
  · exact good_roomE _ _ (good_wv hy hx) (fun hi => good_wv hy hi) c hc
  · exact good_roomE _ _ (good_wv hy hx) (fun hi => good_wv hi hx) c hc
  · split at hc
    · simp only [List.mem_singleton] at hc; subst hc; exact good_wv hy hx
    · simp at hc

theorem good_locW {pb : Problem} : ∀ c ∈ locW pb, Good (pb.height * pb.width) c := by
  intro c hc
  rcases List.mem_append.1 hc with hc | hc
  · exact good_blocks c hc
  · obtain ⟨y, x, hy, hx, hc⟩ := (mem_flat whiteCellE).1 hc
    exact good_whiteCellE hy hx c hc

theorem nbP_facts (pb : Problem) {y x : Nat} :
    ∀ e ∈ nbP pb y x, wtB e = true ∧ e.varsBelow (4 * (pb.height * pb.width)) = true := by
  intro e he
  simp only [nbP, List.mem_map] at he
  obtain ⟨p, hp, rfl⟩ := he
  obtain ⟨h1, h2, h3, h4⟩ := C12Conv.mem_neighbours hp
  refine ⟨rfl, ?_⟩
  have := C11Grid.cell_lt (h := pb.height) (w := pb.width) (y := p.1.toNat) (x := p.2.toNat) (by omega) (by omega)
  exact (good_pf pb this).2

theorem good_degE (pb : Problem) {y x : Nat} (k : Int) : Good (4 * (pb.height * pb.width)) (degE pb y x k) :=
  ⟨C11FragWT.wtB_cmp_countTrueE .eq rfl _ k (fun e he => (nbP_facts pb e he).1),
    C11FragWT.varsBelow_cmp_countTrueE _ .eq _ k (fun e he => (nbP_facts pb e he).2)⟩

theorem good_pathCellE {pb : Problem} {y x : Nat} (hy : y < pb.height) (hx : x < pb.width) :
    ∀ c ∈ pathCellE pb y x, Good (4 * (pb.height * pb.width)) c := by
  intro c hc
  simp only [pathCellE, List.mem_append] at hc
  rcases hc with hc | hc
  · unfold degCsE at hc
    split at hc
    · simp only [List.mem_cons, List.not_mem_nil, or_false] at hc
      rcases hc with rfl | rfl
      · exact good_pv pb hy hx
      · exact good_degE pb 1
    · simp only [List.mem_singleton] at hc; subst hc
      exact good_bin .imp (Or.inr rfl) (good_pv pb hy hx) (good_degE pb 2)
  · split at hc
    · simp only [List.mem_singleton] at hc; subst hc; exact good_pv pb hy hx
    · split at hc
      · simp only [List.mem_singleton] at hc; subst hc; exact good_not (good_pv pb hy hx)
      · simp at hc

theorem good_pathCs {pb : Problem} : ∀ c ∈ pathCs pb, Good (4 * (pb.height * pb.width)) c := by
  intro c hc
  rcases List.mem_append.1 hc with hc | hc
  · simp only [thenCs, List.mem_map, List.mem_range] at hc
    obtain ⟨i, hi, rfl⟩ := hc
    refine good_bin .imp (Or.inr rfl) (good_pf pb hi) ⟨rfl, ?_⟩
    simp only [Expr.varsBelow, decide_eq_true_eq]; omega
  · obtain ⟨y, x, hy, hx, hc⟩ := (mem_flat pathCellE).1 hc
    exact good_pathCellE hy hx c hc

/-! ### meaning of the constraints on grids -/

/-- Number of neighbours of `(y, x)` on the board that lie on `pt`. -/
def nbCount (pb : Problem) (pt : Nat → Nat → Bool) (y x : Nat) : Nat :=
  ((neighbours pb.height pb.width (y : Int) (x : Int)).filter fun p => pt p.1.toNat p.2.toNat).length

/-- What the constraints over `is_white` only say about the grid `g`. -/
def LocSem (pb : Problem) (g : Nat → Nat → Bool) : Prop :=
  (∀ y x, y + 1 < pb.height → x + 1 < pb.width →
    ¬ (g y x = true ∧ g y (x + 1) = true ∧ g (y + 1) x = true ∧ g (y + 1) (x + 1) = true) ∧
    ¬ (g y x = false ∧ g y (x + 1) = false ∧ g (y + 1) x = false ∧ g (y + 1) (x + 1) = false)) ∧
  (∀ y, y < pb.height → ∀ x, x < pb.width →
    (x + 1 < pb.width → wallV pb y x = 0 → g y x = g y (x + 1)) ∧
    (y + 1 < pb.height → wallH pb y x = 0 → g y x = g (y + 1) x) ∧
    (markAt pb y x ≠ 0 → g y x = true))

/-- What the constraints mentioning `path` say about the grids `g` (white) and `pt` (path). -/
def PathCond (pb : Problem) (g pt : Nat → Nat → Bool) : Prop :=
  (∀ y, y < pb.height → ∀ x, x < pb.width → pt y x = true → g y x = true) ∧
  (∀ y, y < pb.height → ∀ x, x < pb.width →
    (IsEnd pb y x → pt y x = true ∧ nbCount pb pt y x = 1) ∧
    (¬ IsEnd pb y x → pt y x = true → nbCount pb pt y x = 2) ∧
    (markAt pb y x = 1 → pt y x = true) ∧ (markAt pb y x = 2 → pt y x = false))

section sem
variable {pb : Problem} (σ : Asg) (g pt : Nat → Nat → Bool)

theorem eval_wv (hg : ∀ y, y < pb.height → ∀ x, x < pb.width → g y x = σ.b (y * pb.width + x))
    {y x : Nat} (hy : y < pb.height) (hx : x < pb.width) :
    eval σ (wv pb.width y x) = some (.b (g y x)) := by
  rw [wv, eval_bvar, hg y hy x hx]

theorem eval_pv (hp : ∀ y, y < pb.height → ∀ x, x < pb.width → pt y x = σ.b (pbase pb + (y * pb.width + x)))
    {y x : Nat} (hy : y < pb.height) (hx : x < pb.width) :
    eval σ (pv pb y x) = some (.b (pt y x)) := by
  rw [pv, pf, eval_bvar, hp y hy x hx]

theorem blocks_sem (hg : ∀ y, y < pb.height → ∀ x, x < pb.width → g y x = σ.b (y * pb.width + x))
    {y x : Nat} (hy : y + 1 < pb.height) (hx : x + 1 < pb.width) :
    (eval σ (orBlock pb.width y x) = some (.b true) ∧ eval σ (nandBlock pb.width y x) = some (.b true)) ↔
      (¬ (g y x = true ∧ g y (x + 1) = true ∧ g (y + 1) x = true ∧ g (y + 1) (x + 1) = true) ∧
       ¬ (g y x = false ∧ g y (x + 1) = false ∧ g (y + 1) x = false ∧ g (y + 1) (x + 1) = false)) := by
  have c00 := eval_wv σ g hg (y := y) (x := x) (by omega) (by omega)
  have c10 := eval_wv σ g hg (y := y + 1) (x := x) hy (by omega)
  have c01 := eval_wv σ g hg (y := y) (x := x + 1) (by omega) hx
  have c11 := eval_wv σ g hg (y := y + 1) (x := x + 1) hy hx
  have e1 := C11NurimisakiB.eval_or2 (C11NurimisakiB.eval_or2 (C11NurimisakiB.eval_or2 c00 c01) c10) c11
  have e2 := eval_not (eval_and2 (eval_and2 (eval_and2 c00 c01) c10) c11)
  rw [orBlock, nandBlock, e1, e2]
  cases g y x <;> cases g (y + 1) x <;> cases g y (x + 1) <;> cases g (y + 1) (x + 1) <;> simp

theorem eval_iff2 {a b : Expr} {u v : Bool} (ha : eval σ a = some (.b u)) (hb : eval σ b = some (.b v)) :
    eval σ (.node .iff [a, b]) = some (.b (u == v)) := by
  simp [ha, hb, evalOp, allBools]

theorem roomE_sem (inside : Prop) [Decidable inside] (v : Int) {a b : Expr} {u : Bool} {t : Bool}
    (ha : eval σ a = some (.b u)) (hb : inside → eval σ b = some (.b t)) :
    (∀ c ∈ roomE inside v a b, eval σ c = some (.b true)) ↔ (inside → v = 0 → u = t) := by
  unfold roomE
  by_cases hi : inside ∧ v = 0
  · rw [if_pos hi]
    simp only [List.mem_singleton, forall_eq, eval_iff2 σ ha (hb hi.1), Option.some.injEq, Val.b.injEq, beq_iff_eq]
    exact ⟨fun h _ _ => h, fun h => h hi.1 hi.2⟩
  · rw [if_neg hi]
    simp only [List.not_mem_nil, false_imp_iff, implies_true, true_iff]
    intro h1 h2; exact absurd ⟨h1, h2⟩ hi

theorem whiteCell_sem (hg : ∀ y, y < pb.height → ∀ x, x < pb.width → g y x = σ.b (y * pb.width + x))
    {y x : Nat} (hy : y < pb.height) (hx : x < pb.width) :
    (∀ c ∈ whiteCellE pb y x, eval σ c = some (.b true)) ↔
      ((x + 1 < pb.width → wallV pb y x = 0 → g y x = g y (x + 1)) ∧
       (y + 1 < pb.height → wallH pb y x = 0 → g y x = g (y + 1) x) ∧
       (markAt pb y x ≠ 0 → g y x = true)) := by
  have c0 := eval_wv σ g hg hy hx
  simp only [whiteCellE, List.mem_append, or_imp, forall_and]
  rw [roomE_sem σ _ _ c0 (fun hi => eval_wv σ g hg hy hi),
    roomE_sem σ _ _ c0 (fun hi => eval_wv σ g hg hi hx), and_assoc]
  refine and_congr_right fun _ => and_congr_right fun _ => ?_
  by_cases hm : markAt pb y x ≠ 0
  · rw [if_pos hm]
    simp only [List.mem_singleton, forall_eq, c0, Option.some.injEq, Val.b.injEq]
    exact ⟨fun h _ => h, fun h => h hm⟩
  · rw [if_neg hm]
    simp only [List.not_mem_nil, false_imp_iff, implies_true, true_iff]
    intro h; exact absurd h hm

theorem eval_count (hp : ∀ y, y < pb.height → ∀ x, x < pb.width → pt y x = σ.b (pbase pb + (y * pb.width + x)))
    (y x : Nat) :
    eval σ (countTrueE (nbP pb y x)) = some (.i (nbCount pb pt y x : Nat)) := by
  unfold nbP nbCount
  rw [C11Norinori.eval_count_bvars σ (neighbours pb.height pb.width (y : Int) (x : Int))
    (fun p : Int × Int => pbase pb + (p.1.toNat * pb.width + p.2.toNat))]
  congr 4
  apply List.filter_congr
  intro p hpm
  obtain ⟨h1, h2, h3, h4⟩ := C12Conv.mem_neighbours hpm
  rw [hp _ (by omega) _ (by omega)]

theorem eval_degE (hp : ∀ y, y < pb.height → ∀ x, x < pb.width → pt y x = σ.b (pbase pb + (y * pb.width + x)))
    (y x : Nat) (k : Nat) :
    eval σ (degE pb y x (k : Int)) = some (.b (decide (nbCount pb pt y x = k))) := by
  unfold degE
  rw [eval_cmp (op := .eq) rfl (eval_count σ pt hp y x) (eval_litI σ _)]
  simp only [cmpOp_eq, Option.some.injEq, Val.b.injEq]
  rw [Bool.eq_iff_iff]
  simp only [beq_iff_eq, decide_eq_true_eq]
  omega

theorem pathCell_sem (hp : ∀ y, y < pb.height → ∀ x, x < pb.width → pt y x = σ.b (pbase pb + (y * pb.width + x)))
    {y x : Nat} (hy : y < pb.height) (hx : x < pb.width) :
    (∀ c ∈ pathCellE pb y x, eval σ c = some (.b true)) ↔
      ((IsEnd pb y x → pt y x = true ∧ nbCount pb pt y x = 1) ∧
       (¬ IsEnd pb y x → pt y x = true → nbCount pb pt y x = 2) ∧
       (markAt pb y x = 1 → pt y x = true) ∧ (markAt pb y x = 2 → pt y x = false)) := by
  have c0 := eval_pv σ pt hp hy hx
  have d1 := eval_degE σ pt hp y x 1
  have d2 := eval_degE σ pt hp y x 2
  have hL : (∀ c ∈ pathCellE pb y x, eval σ c = some (.b true)) ↔
      (∀ c ∈ degCsE pb y x, eval σ c = some (.b true)) ∧
        (∀ c ∈ (if markAt pb y x = 1 then [pv pb y x] else if markAt pb y x = 2 then [.node .not [pv pb y x]] else []),
          eval σ c = some (.b true)) := by
    simp only [pathCellE, List.mem_append, or_imp, forall_and]
  rw [hL, ← and_assoc]
  apply and_congr
  · unfold degCsE
    by_cases he : IsEnd pb y x
    · rw [if_pos he]
      simp only [List.mem_cons, List.not_mem_nil, or_false, forall_eq_or_imp, forall_eq, c0, Option.some.injEq,
        Val.b.injEq]
      rw [show ((1 : Nat) : Int) = 1 from rfl] at d1
      rw [d1]
      simp only [Option.some.injEq, Val.b.injEq, decide_eq_true_eq]
      exact ⟨fun h => ⟨fun _ => h, fun hn => absurd he hn⟩, fun h => h.1 he⟩
    · rw [if_neg he]
      simp only [List.mem_singleton, forall_eq]
      have := eval_thenRaw c0 d2
      unfold thenRaw at this
      rw [show ((2 : Nat) : Int) = 2 from rfl] at this
      rw [this]
      simp only [Option.some.injEq, Val.b.injEq, Bool.or_eq_true, Bool.not_eq_true', decide_eq_true_eq]
      constructor
      · intro h
        refine ⟨fun h' => absurd h' he, fun _ hpt => ?_⟩
        rcases h with h | h
        · rw [h] at hpt; cases hpt
        · exact h
      · intro h
        cases hpt : pt y x
        · exact Or.inl rfl
        · exact Or.inr (h.2 he hpt)
  · by_cases h1 : markAt pb y x = 1
    · rw [if_pos h1]
      simp only [List.mem_singleton, forall_eq, c0, Option.some.injEq, Val.b.injEq]
      exact ⟨fun h => ⟨fun _ => h, fun h2 => by omega⟩, fun h => h.1 h1⟩
    · rw [if_neg h1]
      by_cases h2 : markAt pb y x = 2
      · rw [if_pos h2]
        simp only [List.mem_singleton, forall_eq, eval_not c0, Option.some.injEq, Val.b.injEq, Bool.not_eq_true']
        exact ⟨fun h => ⟨fun h' => absurd h' h1, fun _ => h⟩, fun h => h.2 h2⟩
      · rw [if_neg h2]
        simp only [List.not_mem_nil, false_imp_iff, implies_true, true_iff]
        exact ⟨fun h' => absurd h' h1, fun h' => absurd h' h2⟩

theorem then_sem (hg : ∀ y, y < pb.height → ∀ x, x < pb.width → g y x = σ.b (y * pb.width + x))
    (hp : ∀ y, y < pb.height → ∀ x, x < pb.width → pt y x = σ.b (pbase pb + (y * pb.width + x))) :
    (∀ c ∈ thenCs pb, eval σ c = some (.b true)) ↔
      ∀ y, y < pb.height → ∀ x, x < pb.width → pt y x = true → g y x = true := by
  have key : ∀ i, eval σ (.node .imp [pf pb i, .bvar i]) = some (.b (!σ.b (pbase pb + i) || σ.b i)) := by
    intro i
    have := eval_thenRaw (eval_bvar σ (pbase pb + i)) (eval_bvar σ i)
    exact this
  simp only [thenCs, List.mem_map, List.mem_range]
  constructor
  · intro h y hy x hx hpt
    have := h _ ⟨y * pb.width + x, C11Grid.cell_lt hy hx, rfl⟩
    rw [key, ← hp y hy x hx, ← hg y hy x hx, hpt] at this
    simpa using this
  · rintro h c ⟨i, hi, rfl⟩
    obtain ⟨h1, h2⟩ := C11Grid.div_lt_of_lt_mul hi
    have := h _ h1 _ h2
    rw [hp _ h1 _ h2, hg _ h1 _ h2, Nat.div_add_mod' i pb.width] at this
    rw [key]
    cases hb : σ.b (pbase pb + i)
    · rfl
    · rw [this hb]; rfl

theorem locW_sem (hg : ∀ y, y < pb.height → ∀ x, x < pb.width → g y x = σ.b (y * pb.width + x)) :
    (∀ c ∈ locW pb, eval σ c = some (.b true)) ↔ LocSem pb g := by
  have hL : (∀ c ∈ locW pb, eval σ c = some (.b true)) ↔
      (∀ c ∈ blocks pb.height pb.width, eval σ c = some (.b true)) ∧
        (∀ c ∈ (cellsOf pb.height pb.width).flatMap fun p => whiteCellE pb p.1 p.2, eval σ c = some (.b true)) := by
    simp only [locW, List.mem_append, or_imp, forall_and]
  rw [hL]
  apply and_congr
  · constructor
    · intro h y x hy hx
      exact (blocks_sem σ g hg hy hx).1 ⟨h _ (mem_blocks.2 ⟨y, x, hy, hx, Or.inl rfl⟩),
        h _ (mem_blocks.2 ⟨y, x, hy, hx, Or.inr rfl⟩)⟩
    · intro h c hc
      obtain ⟨y, x, hy, hx, rfl | rfl⟩ := mem_blocks.1 hc
      · exact ((blocks_sem σ g hg hy hx).2 (h y x hy hx)).1
      · exact ((blocks_sem σ g hg hy hx).2 (h y x hy hx)).2
  · constructor
    · intro h y hy x hx
      exact (whiteCell_sem σ g hg hy hx).1 fun c hc => h c ((mem_flat whiteCellE).2 ⟨y, x, hy, hx, hc⟩)
    · intro h c hc
      obtain ⟨y, x, hy, hx, hc⟩ := (mem_flat whiteCellE).1 hc
      exact (whiteCell_sem σ g hg hy hx).2 (h y hy x hx) c hc

theorem pathCs_sem (hg : ∀ y, y < pb.height → ∀ x, x < pb.width → g y x = σ.b (y * pb.width + x))
    (hp : ∀ y, y < pb.height → ∀ x, x < pb.width → pt y x = σ.b (pbase pb + (y * pb.width + x))) :
    (∀ c ∈ pathCs pb, eval σ c = some (.b true)) ↔ PathCond pb g pt := by
  have hL : (∀ c ∈ pathCs pb, eval σ c = some (.b true)) ↔
      (∀ c ∈ thenCs pb, eval σ c = some (.b true)) ∧
        (∀ c ∈ (cellsOf pb.height pb.width).flatMap fun p => pathCellE pb p.1 p.2, eval σ c = some (.b true)) := by
    simp only [pathCs, List.mem_append, or_imp, forall_and]
  rw [hL, then_sem σ g pt hg hp]
  apply and_congr Iff.rfl
  constructor
  · intro h y hy x hx
    exact (pathCell_sem σ pt hp hy hx).1 fun c hc => h c ((mem_flat pathCellE).2 ⟨y, x, hy, hx, hc⟩)
  · intro h c hc
    obtain ⟨y, x, hy, hx, hc⟩ := (mem_flat pathCellE).1 hc
    exact (pathCell_sem σ pt hp hy hx).2 (h y hy x hx) c hc

end sem

end Cspuz.Proofs.C11NurimazeB
