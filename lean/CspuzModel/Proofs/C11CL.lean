/-
  C11 — lemmas shared by the proofs of the "counting / locality" puzzle solvers (sudoku, star_battle,
  putteria, norinori): closed forms of the Python-level array operations of Model/ArrayOps.lean and
  Model/Puzzles/CLUtil.lean on the arrays of fresh variables these solvers use.
-/
import CspuzModel.Model.Puzzles.CLUtil
import CspuzModel.Proofs.EvalLemmas
import CspuzModel.Proofs.C13
import CspuzModel.Proofs.C12Elem
import CspuzModel.Proofs.C12Agg
namespace Cspuz.Proofs.C11CL
open Cspuz Cspuz.Spec Cspuz.Puzzles Cspuz.Proofs Cspuz.Proofs.C12Elem

/-! ### Index selection -/

theorem axisSel_idx (n i : Nat) (hi : i < n) : axisSel n (.idx (i : Int)) = .ok (true, [i]) := by
  simp only [axisSel]
  rw [if_neg (show ¬ ((i : Int) < 0) by omega)]
  rw [if_pos (by omega), Int.toNat_natCast]

/-- Ascending unit-step selection. -/
theorem sliceSel_unit (n : Nat) (a b : Option Int) (lo hi : Nat) (hlh : lo ≤ hi) (hhi : hi ≤ n)
    (ha : clampPos n 0 a = lo) (hb : clampPos n n b = hi) :
    sliceSel n a b none = .ok ((List.range (hi - lo)).map fun j => lo + j) := by
  simp only [sliceSel, Option.getD_none]
  rw [if_neg (by decide), if_pos (by decide), ha, hb]
  congr 1
  have := Cspuz.Proofs.C13.asc_sel n (lo : Int) (hi : Int) 1 (by decide) (by omega) (by omega)
  rw [this]
  have e : (if (lo : Int) ≥ (hi : Int) then (0 : Int) else ((hi : Int) - lo + 1 - 1) / 1).toNat = hi - lo := by
    split <;> omega
  rw [e]
  apply List.map_congr_left
  intro j _
  omega

theorem axisSel_full (n : Nat) : axisSel n fullSlice = .ok (false, List.range n) := by
  simp only [axisSel, fullSlice]
  rw [sliceSel_unit n none none 0 n (by omega) (by omega) rfl rfl]
  simp [bind, Except.bind]

/-- `:-1` -/
theorem axisSel_upto (n : Nat) : axisSel n (.slice none (some (-1)) none) = .ok (false, List.range (n - 1)) := by
  simp only [axisSel]
  rw [sliceSel_unit n none (some (-1)) 0 (n - 1) (by omega) (by omega) rfl (by simp only [clampPos]; split <;> omega)]
  simp [bind, Except.bind]

/-- `1:` -/
theorem axisSel_from1 (n : Nat) :
    axisSel n (.slice (some 1) none none) = .ok (false, (List.range (n - 1)).map fun j => j + 1) := by
  simp only [axisSel]
  by_cases hn : n = 0
  · subst hn
    rw [sliceSel_unit 0 (some 1) none 0 0 (by omega) (by omega) (by simp [clampPos]) rfl]
    simp [bind, Except.bind]
  · rw [sliceSel_unit n (some 1) none 1 n (by omega) (by omega) (by simp only [clampPos]; split <;> omega) rfl]
    simp only [bind, Except.bind]
    congr 2
    apply List.map_congr_left
    intro j _; omega

/-- `a:b` with `0 ≤ a ≤ b ≤ n`. -/
theorem axisSel_range (n a b : Nat) (hab : a ≤ b) (hb : b ≤ n) :
    axisSel n (.slice (some (a : Int)) (some (b : Int)) none) = .ok (false, (List.range (b - a)).map fun j => a + j) := by
  simp only [axisSel]
  rw [sliceSel_unit n (some a) (some b) a b hab hb (by simp only [clampPos]; split <;> omega)
    (by simp only [clampPos]; split <;> omega)]
  simp [bind, Except.bind]

theorem axisSel_range' (n : Nat) (a b : Int) (a' b' : Nat) (ha : a = (a' : Int)) (hb' : b = (b' : Int))
    (hab : a' ≤ b') (hb : b' ≤ n) :
    axisSel n (.slice (some a) (some b) none) = .ok (false, (List.range (b' - a')).map fun j => a' + j) := by
  subst ha hb'
  exact axisSel_range n a' b' hab hb

/-! ### `A[ky, kx]` on an array of fresh variables `f 0, f 1, …` -/

theorem pick_fresh (f : Nat → Expr) (h w y x : Nat) (hy : y < h) (hx : x < w) :
    pick (toRows ((List.range (h * w)).map f) h w) y x = .ok (f (y * w + x)) := by
  rw [Cspuz.Proofs.C13.pick_toRows _ h w y x (by simp) hy hx]
  have hlt := Cspuz.Proofs.C13.mul_add_lt hy hx
  have hc : (y : Int) * (w : Int) + (x : Int) = ((y * w + x : Nat) : Int) := by
    simp only [Int.natCast_add, Int.natCast_mul]
  rw [hc, Cspuz.Proofs.C13.pyIndex_natCast _ _ (by simpa using hlt)]
  simp [hlt]

theorem sel_fresh (f : Nat → Expr) (h w : Nat) (ys xs : List Nat)
    (hys : ∀ y ∈ ys, y < h) (hxs : ∀ x ∈ xs, x < w) :
    (ys.flatMap fun y => xs.map fun x => (y, x)).mapM
        (fun (p : Nat × Nat) => pick (toRows ((List.range (h * w)).map f) h w) p.1 p.2)
      = .ok (ys.flatMap fun y => xs.map fun x => f (y * w + x)) := by
  rw [mapM_eq_ok_map (g := fun (p : Nat × Nat) => f (p.1 * w + p.2))]
  · simp [List.map_flatMap, Function.comp_def]
  · intro p hp
    simp only [List.mem_flatMap, List.mem_map] at hp
    obtain ⟨y, hy, x, hx, rfl⟩ := hp
    exact pick_fresh f h w y x (hys y hy) (hxs x hx)

/-- Two slices: a 2-D array. -/
theorem getitemV_slices (k : Bool) (f : Nat → Expr) (h w : Nat) (ky kx : AxisKey) (ys xs : List Nat)
    (hy : axisSel h ky = .ok (false, ys)) (hx : axisSel w kx = .ok (false, xs))
    (hys : ∀ y ∈ ys, y < h) (hxs : ∀ x ∈ xs, x < w) :
    getitemV (.arr2 k h w ((List.range (h * w)).map f)) (.pair ky kx)
      = .ok (.arr2 k ys.length xs.length (ys.flatMap fun y => xs.map fun x => f (y * w + x))) := by
  simp only [getitemV]
  rw [Cspuz.Proofs.C13.getitem2D_eq_spec _ _ h w _ (by simp)]
  simp only [specGetitem, specPair, hy, hx, bind, Except.bind]
  rw [sel_fresh f h w ys xs hys hxs]
  simp [Except.map, idxToPyV]

/-- An index and a slice: a row segment. -/
theorem getitemV_row (k : Bool) (f : Nat → Expr) (h w : Nat) (y : Nat) (kx : AxisKey) (xs : List Nat)
    (hy : y < h) (hx : axisSel w kx = .ok (false, xs)) (hxs : ∀ x ∈ xs, x < w) :
    getitemV (.arr2 k h w ((List.range (h * w)).map f)) (.pair (.idx (y : Int)) kx)
      = .ok (.arr1 k (xs.map fun x => f (y * w + x))) := by
  simp only [getitemV]
  rw [Cspuz.Proofs.C13.getitem2D_eq_spec _ _ h w _ (by simp)]
  simp only [specGetitem, specPair, axisSel_idx h y hy, hx, bind, Except.bind]
  rw [sel_fresh f h w [y] xs (by simpa using hy) hxs]
  simp [Except.map, idxToPyV]

/-- A slice and an index: a column segment. -/
theorem getitemV_col (k : Bool) (f : Nat → Expr) (h w : Nat) (ky : AxisKey) (x : Nat) (ys : List Nat)
    (hx : x < w) (hy : axisSel h ky = .ok (false, ys)) (hys : ∀ y ∈ ys, y < h) :
    getitemV (.arr2 k h w ((List.range (h * w)).map f)) (.pair ky (.idx (x : Int)))
      = .ok (.arr1 k (ys.map fun y => f (y * w + x))) := by
  simp only [getitemV]
  rw [Cspuz.Proofs.C13.getitem2D_eq_spec _ _ h w _ (by simp)]
  simp only [specGetitem, specPair, axisSel_idx w x hx, hy, bind, Except.bind]
  rw [sel_fresh f h w ys [x] hys (by simpa using hx)]
  have e : ∀ l : List Nat, (l.flatMap fun y => [f (y * w + x)]) = l.map fun y => f (y * w + x) := by
    intro l
    induction l with
    | nil => rfl
    | cons a l ih => simp [List.flatMap_cons, ih]
  simp [Except.map, idxToPyV, e]

/-- Two indices: an element. -/
theorem getitemV_cell (k : Bool) (f : Nat → Expr) (h w : Nat) (y x : Nat) (hy : y < h) (hx : x < w) :
    getitemV (.arr2 k h w ((List.range (h * w)).map f)) (.pair (.idx (y : Int)) (.idx (x : Int)))
      = .ok (.scalar (f (y * w + x))) := by
  simp only [getitemV]
  rw [Cspuz.Proofs.C13.getitem2D_eq_spec _ _ h w _ (by simp)]
  simp only [specGetitem, specPair, axisSel_idx h y hy, axisSel_idx w x hx, bind, Except.bind]
  rw [sel_fresh f h w [y] [x] (by simpa using hy) (by simpa using hx)]
  simp [Except.map, idxToPyV]

/-- A list of coordinates (all on the board): a 1-D array. -/
theorem getitemV_coords (k : Bool) (f : Nat → Expr) (h w : Nat) (block : List (Int × Int))
    (hb : ∀ p ∈ block, 0 ≤ p.1 ∧ p.1 < (h : Int) ∧ 0 ≤ p.2 ∧ p.2 < (w : Int)) :
    getitemV (.arr2 k h w ((List.range (h * w)).map f)) (.coords block)
      = .ok (.arr1 k (block.map fun p => f (p.1.toNat * w + p.2.toNat))) := by
  simp only [getitemV]
  rw [Cspuz.Proofs.C13.getitem2D_eq_spec _ _ h w _ (by simp)]
  simp only [specGetitem]
  rw [mapM_eq_ok_map (g := fun (p : Int × Int) => f (p.1.toNat * w + p.2.toNat))]
  · simp [Except.map, idxToPyV, bind, Except.bind]
  · rintro ⟨y, x⟩ hp
    obtain ⟨h1, h2, h3, h4⟩ := hb _ hp
    simp only at h1 h2 h3 h4
    have ey : axisSel h (.idx y) = .ok (true, [y.toNat]) := by
      have := axisSel_idx h y.toNat (by omega)
      rwa [Int.toNat_of_nonneg h1] at this
    have ex : axisSel w (.idx x) = .ok (true, [x.toNat]) := by
      have := axisSel_idx w x.toNat (by omega)
      rwa [Int.toNat_of_nonneg h3] at this
    simp only [ey, ex, bind, Except.bind]
    exact pick_fresh f h w _ _ (by omega) (by omega)

/-! ### Solver glue -/

theorem ensureV_scalar (e : Expr) (h : e.isBoolLike = true) : ensureV (.scalar e) = .ok [e] := by
  simp [ensureV, PyV.flat, ensure1, h, pure, Except.pure, bind, Except.bind]

theorem ensure1_mapM (l : List Expr) (hl : ∀ x ∈ l, x.isBoolLike = true) : l.mapM ensure1 = .ok l := by
  rw [mapM_eq_ok_map (g := id)]
  · simp
  · intro x hx; simp [ensure1, hl x hx]

theorem ensureV_arr2 (k : Bool) (h w : Nat) (l : List Expr) (hl : ∀ x ∈ l, x.isBoolLike = true) :
    ensureV (.arr2 k h w l) = .ok l := ensure1_mapM l hl

theorem ensureV_arr1 (k : Bool) (l : List Expr) (hl : ∀ x ∈ l, x.isBoolLike = true) :
    ensureV (.arr1 k l) = .ok l := ensure1_mapM l hl

theorem addKeys_fold (f : Nat → Expr) (hf : ∀ i, isVarExpr (f i) = some i) : ∀ (n m : Nat),
    ((List.range' m n).map f).foldlM (fun (acc : List Nat) (x : Expr) =>
      match isVarExpr x with
      | none => (.error .typeError : Py (List Nat))
      | some id => if acc.contains id then .error .valueError else .ok (acc ++ [id])) (List.range m)
      = .ok (List.range (m + n))
  | 0, m => rfl
  | n + 1, m => by
    simp only [List.range'_succ, List.map_cons, List.foldlM_cons, hf, bind, Except.bind]
    have : (List.range m).contains m = false := by simp
    rw [this]
    simp only [Bool.false_eq_true, if_false]
    rw [← List.range_succ, addKeys_fold f hf n (m + 1)]
    congr 2; omega

/-- `add_answer_key` on an array of fresh variables `f 0, …, f (N-1)`: the keys are `0 … N-1`. -/
theorem addKeysV_fresh (k : Bool) (h w N : Nat) (f : Nat → Expr) (hf : ∀ i, isVarExpr (f i) = some i) :
    addKeysV (.arr2 k h w ((List.range N).map f)) [] = .ok (List.range N) := by
  have := addKeys_fold f hf N 0
  simp only [List.range_zero, Nat.zero_add] at this
  simp only [addKeysV, PyV.flat]
  rw [show List.range N = List.range' 0 N from List.range_eq_range'] at *
  exact this

/-! ### Operator dispatch on the scalars these solvers build (all by computation) -/

theorem binop_eq_ivar_lit (i : Nat) (v : Int) :
    binop .eq (.scalar (.ivar i)) (.scalar (.litI v)) = .ok (.scalar (.node .eq [.ivar i, .litI v])) := rfl

theorem binop_eq_node_lit (op : Op) (l : List Expr) (v : Int) (hop : op.isIntOp = true) :
    binop .eq (.scalar (.node op l)) (.scalar (.litI v)) = .ok (.scalar (.node .eq [.node op l, .litI v])) := by
  cases op <;> first | rfl | simp [Op.isIntOp] at hop

theorem binop_add_lit0 (op : Op) (l : List Expr) (hop : op.isIntOp = true) :
    binop .add (.scalar (.litI 0)) (.scalar (.node op l)) = .ok (.scalar (.node .add [.litI 0, .node op l])) := by
  cases op <;> first | rfl | simp [Op.isIntOp] at hop

theorem binop_add_node (op1 op2 : Op) (l1 l2 : List Expr) (h1 : op1.isIntOp = true) (h2 : op2.isIntOp = true) :
    binop .add (.scalar (.node op1 l1)) (.scalar (.node op2 l2))
      = .ok (.scalar (.node .add [.node op1 l1, .node op2 l2])) := by
  cases op1 <;> first | (simp [Op.isIntOp] at h1; done) | (cases op2 <;> first | rfl | simp [Op.isIntOp] at h2)

theorem binop_and_bvar (a b : Nat) :
    binop .and_ (.scalar (.bvar a)) (.scalar (.bvar b)) = .ok (.scalar (.node .and [.bvar a, .bvar b])) := rfl

theorem unop_invert_node (op : Op) (l : List Expr) (hop : op.isBoolOp = true) :
    unop .invert (.scalar (.node op l)) = .ok (.scalar (.node .not [.node op l])) := by
  cases op <;> first | rfl | simp [Op.isBoolOp] at hop

theorem callM_then_bvar (i : Nat) (op : Op) (l : List Expr) (hop : op.isBoolOp = true) :
    callM .then_ (.scalar (.bvar i)) [.scalar (.node op l)] = .ok (.scalar (.node .imp [.bvar i, .node op l])) := by
  cases op <;> first | rfl | simp [Op.isBoolOp] at hop

/-! ### Element-wise operators on whole arrays -/

theorem conf_arr2 (k : Bool) (h w : Nat) (A : List Expr) (hA : A.length = h * w) :
    Conf (.d2 h w) (.arr2 k h w A) := by
  refine ⟨by simp [PyV.wf, hA], by simp, ?_⟩
  intro s hs
  simp [PyV.shape?] at hs
  exact hs.symm

theorem conf_arr1 (k : Bool) (A : List Expr) : Conf (.d1 A.length) (.arr1 k A) := by
  refine ⟨rfl, by simp, ?_⟩
  intro s hs
  simp [PyV.shape?] at hs
  exact hs.symm

theorem conf_scalar (sh : Shape) (e : Expr) : Conf sh (.scalar e) :=
  ⟨rfl, by simp, by intro s hs; simp [PyV.shape?] at hs⟩

theorem ewData2_arr2 (op : Op) (k1 k2 : Bool) (h w : Nat) (A B : List Expr)
    (hA : A.length = h * w) (hB : B.length = h * w) :
    ewData op (.d2 h w) [.arr2 k1 h w A, .arr2 k2 h w B] = List.zipWith (fun a b => .node op [a, b]) A B := by
  apply List.ext_getElem
  · simp [ewData, Shape.size, hA, hB]
  · intro i h1 h2
    simp only [ewData, Shape.size, List.length_map, List.length_range] at h1
    have hiA : i < A.length := by omega
    have hiB : i < B.length := by omega
    simp [ewData, C12Elem.get, elem?, hiA, hiB]

theorem ewData1_arr2 (op : Op) (k : Bool) (h w : Nat) (A : List Expr) (hA : A.length = h * w) :
    ewData op (.d2 h w) [.arr2 k h w A] = A.map fun a => .node op [a] := by
  apply List.ext_getElem
  · simp [ewData, Shape.size, hA]
  · intro i h1 h2
    simp only [ewData, Shape.size, List.length_map, List.length_range] at h1
    have hiA : i < A.length := by omega
    simp [ewData, C12Elem.get, elem?, hiA]

/-- `A & B`, `A | B` on two Boolean 2-D arrays of the same shape. -/
theorem binop_bool_arr2 (o : BinOp) (op : Op) (ho : (o = .and_ ∧ op = .and) ∨ (o = .or_ ∧ op = .or))
    (h w : Nat) (A B : List Expr) (hA : A.length = h * w) (hB : B.length = h * w) :
    binop o (.arr2 true h w A) (.arr2 true h w B) =
      .ok (.arr2 true h w (List.zipWith (fun a b => .node op [a, b]) A B)) := by
  have he : elementwise op (.d2 h w) [.arr2 true h w A, .arr2 true h w B] = _ :=
    elementwise_ok (by rcases ho with ⟨_, rfl⟩ | ⟨_, rfl⟩ <;> simp [ewTypeCheck, Op.isCmp, PyV.isBoolLike]) (by
      intro x hx
      simp only [List.mem_cons, List.mem_nil_iff, or_false] at hx
      rcases hx with rfl | rfl
      · exact conf_arr2 _ _ _ _ hA
      · exact conf_arr2 _ _ _ _ hB)
  rw [ewData2_arr2 _ _ _ _ _ _ _ hA hB] at he
  rcases ho with ⟨rfl, rfl⟩ | ⟨rfl, rfl⟩ <;>
  simp [binop, tryMeth, callMethod, PyV.cls, Cls.defines, arrayMethod, Cls.arrKind?, binarySpec, unarySpec,
    PyV.shape?, PyV.data?, swapIf, BinOp.isCmp, BinOp.meth, he, mkArr, Op.isBoolOp]

/-- `~A` on a Boolean 2-D array. -/
theorem unop_invert_arr2 (h w : Nat) (A : List Expr) (hA : A.length = h * w) :
    unop .invert (.arr2 true h w A) = .ok (.arr2 true h w (A.map fun a => .node .not [a])) := by
  have he : elementwise .not (.d2 h w) [.arr2 true h w A] = _ :=
    elementwise_ok (by simp [ewTypeCheck, Op.isCmp, PyV.isBoolLike]) (by
      intro x hx
      simp only [List.mem_cons, List.mem_nil_iff, or_false] at hx
      subst hx
      exact conf_arr2 _ _ _ _ hA)
  rw [ewData1_arr2 _ _ _ _ _ hA] at he
  simp [unop, UnOp.meth, callMethod, PyV.cls, Cls.defines, arrayMethod, Cls.arrKind?, binarySpec, unarySpec,
    PyV.shape?, PyV.data?, he, mkArr, Op.isBoolOp]

/-- `line.cond(1, 0)` on a Boolean 1-D array. -/
theorem callM_cond_arr1 (l : List Expr) :
    callM .cond (.arr1 true l) [.scalar (.litI 1), .scalar (.litI 0)]
      = .ok (.arr1 false (l.map fun c => .node .ite [c, .litI 1, .litI 0])) := by
  have he : elementwise .ite (.d1 l.length) [.arr1 true l, .scalar (.litI 1), .scalar (.litI 0)] = _ :=
    elementwise_ok (by simp [ewTypeCheck, Op.isCmp, PyV.isBoolLike, PyV.isIntLike, Expr.isIntLike]) (by
      intro x hx
      simp only [List.mem_cons, List.mem_nil_iff, or_false] at hx
      rcases hx with rfl | rfl | rfl
      · exact conf_arr1 _ _
      · exact conf_scalar _ _
      · exact conf_scalar _ _)
  have hd : ewData .ite (.d1 l.length) [.arr1 true l, .scalar (.litI 1), .scalar (.litI 0)]
      = l.map fun c => .node .ite [c, .litI 1, .litI 0] := by
    apply List.ext_getElem
    · simp [ewData, Shape.size]
    · intro i h1 h2
      simp only [ewData, Shape.size, List.length_map, List.length_range] at h1
      simp [ewData, C12Elem.get, elem?, h1]
  rw [hd] at he
  simp [callM, callMethod, PyV.cls, Cls.defines, arrayMethod, Cls.arrKind?, binarySpec, unarySpec,
    PyV.shape?, PyV.data?, he, mkArr, Op.isBoolOp, raiseNI]

/-- The expression `sum(xs)` builds: `((0 + x₀) + x₁) + …`. -/
def sumE (xs : List Expr) : Expr := xs.foldl (fun acc x => .node .add [acc, x]) (.litI 0)

theorem pySum_fold (xs : List Expr) (hx : ∀ x ∈ xs, ∃ op l, x = .node op l ∧ op.isIntOp = true) :
    ∀ (op : Op) (l : List Expr), op.isIntOp = true →
      xs.foldlM (fun (acc : PyV) (x : Expr) => binop .add acc (.scalar x)) (.scalar (.node op l))
        = .ok (.scalar (xs.foldl (fun acc x => .node .add [acc, x]) (.node op l))) := by
  induction xs with
  | nil => intro op l _; rfl
  | cons x r ih =>
    intro op l hop
    obtain ⟨op2, l2, rfl, h2⟩ := hx _ List.mem_cons_self
    simp only [List.foldlM_cons, List.foldl_cons, binop_add_node op op2 l l2 hop h2, bind, Except.bind]
    exact ih (fun x hx' => hx x (List.mem_cons_of_mem _ hx')) .add _ rfl

/-- builtin `sum` over an integer array whose items are `IntExpr` nodes. -/
theorem pySum_arr1 (xs : List Expr) (hx : ∀ x ∈ xs, ∃ op l, x = .node op l ∧ op.isIntOp = true) :
    pySum (.arr1 false xs) = .ok (.scalar (sumE xs)) := by
  simp only [pySum, PyV.flat, sumE]
  cases xs with
  | nil => rfl
  | cons x r =>
    obtain ⟨op2, l2, rfl, h2⟩ := hx _ List.mem_cons_self
    simp only [List.foldlM_cons, List.foldl_cons, binop_add_lit0 op2 l2 h2, bind, Except.bind]
    exact pySum_fold r (fun x hx' => hx x (List.mem_cons_of_mem _ hx')) .add _ rfl

/-! ### Aggregates -/

theorem countTrueA_arr1 (l : List Expr) (hl : ∀ x ∈ l, x.isBoolLike = true) :
    countTrueA [.leaf (.arr1 true l)] = .ok (countTrueE l) := by
  simp only [countTrueA, ANest.flattenList, ANest.flatten, PyV.flat, List.append_nil]
  exact countTrue_ok_of_boolLike hl

theorem countTrueE_isNode (l : List Expr) : ∃ op args, countTrueE l = .node op args ∧ op.isIntOp = true := by
  simp only [countTrueE]
  split <;> split <;> first | exact ⟨.intConst, _, rfl, rfl⟩ | exact ⟨.add, _, rfl, rfl⟩

theorem alldifferentA_arr (v : PyV) (l : List Expr) (hv : v.flat = l) (hl : ∀ x ∈ l, x.isIntExpr = true) :
    alldifferentA [.leaf v] = .ok (.node .alldiff l) := by
  simp only [alldifferentA, ANest.flattenList, ANest.flatten, hv, List.append_nil, alldifferentE]
  rw [if_pos]
  rw [List.all_eq_true]
  intro x hx
  simp [hl x hx]

theorem alldifferentA_arr1 (k : Bool) (l : List Expr) (hl : ∀ x ∈ l, x.isIntExpr = true) :
    alldifferentA [.leaf (.arr1 k l)] = .ok (.node .alldiff l) := alldifferentA_arr _ l rfl hl

theorem alldifferentA_arr2 (k : Bool) (h w : Nat) (l : List Expr) (hl : ∀ x ∈ l, x.isIntExpr = true) :
    alldifferentA [.leaf (.arr2 k h w l)] = .ok (.node .alldiff l) := alldifferentA_arr _ l rfl hl


end Cspuz.Proofs.C11CL
