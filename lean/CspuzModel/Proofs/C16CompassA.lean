/-
  C16 / compass: the explicit description of the URL body that `compass.to_puzz_link_url` writes for a sorted clue list
  (shared by the encoder, parser and pzpr halves of the round trip), with the elementary facts about it.
-/
import CspuzModel.Proofs.C15Leaves
import CspuzModel.Spec.C16Formats
namespace Cspuz.Proofs.C16CompassA
open Cspuz Cspuz.Ser Cspuz.Codecs Cspuz.C16F

/-- the range of one number of a clue -/
def NumOk (v : Int) : Prop := -1 ≤ v ∧ v ≤ 4095

/-- the text of one number: `.` for -1, one hexadecimal digit for 0..15, `-` and two hexadecimal digits for 16..255,
`+` and three hexadecimal digits for 256..4095 -/
def tok (v : Int) : Str :=
  if v = -1 then [46]
  else if v ≤ 15 then [digitChar v.toNat]
  else if v ≤ 255 then [45, digitChar (v.toNat / 16), digitChar (v.toNat % 16)]
  else [43, digitChar (v.toNat / 16 / 16), digitChar (v.toNat / 16 % 16), digitChar (v.toNat % 16)]

/-- the text of a clue cell: up, down, left, right -/
def clueStr (c : CompassClue) : Str := tok c.up ++ (tok c.down ++ (tok c.left ++ tok c.right))

/-- the text of `n` consecutive cells without a clue: a `z` for every full 20, then `g`..`z` for the remaining 1..20 -/
def gapStr (n : Nat) : Str := if n = 0 then [] else List.replicate ((n - 1) / 20) 122 ++ [103 + (n - 1) % 20]

/-- row-major position of a clue as a natural number -/
def posN (w : Nat) (c : CompassClue) : Nat := (cluePos w c).toNat

/-- the body for the cells `cur .. total-1`, the clues (sorted, all at positions ≥ `cur`) being `cs` -/
def bodyFrom (w : Nat) : List CompassClue → Nat → Nat → Str
  | [], cur, total => gapStr (total - cur)
  | c :: cs, cur, total => gapStr (posN w c - cur) ++ (clueStr c ++ bodyFrom w cs (posN w c + 1) total)

/-- the body of the whole board -/
def bodyOf (h w : Nat) (pos : List CompassClue) : Str := bodyFrom w pos 0 (h * w)

/-! ### positions -/

theorem posN_eq (h w : Nat) (c : CompassClue) (hc : CompassClueOk h w c) :
    posN w c = c.y.toNat * w + c.x.toNat ∧ c.y = (c.y.toNat : Int) ∧ c.x = (c.x.toNat : Int) ∧
      c.y.toNat < h ∧ c.x.toNat < w := by
  obtain ⟨hy0, hy1, hx0, hx1, _⟩ := hc
  have e1 : c.y = (c.y.toNat : Int) := by omega
  have e2 : c.x = (c.x.toNat : Int) := by omega
  refine ⟨?_, e1, e2, by omega, by omega⟩
  unfold posN cluePos
  have : c.y * (w : Int) + c.x = ((c.y.toNat * w + c.x.toNat : Nat) : Int) := by
    rw [Int.natCast_add, Int.natCast_mul, ← e1, ← e2]
  rw [this, Int.toNat_natCast]

theorem cluePos_eq (h w : Nat) (c : CompassClue) (hc : CompassClueOk h w c) : cluePos w c = (posN w c : Int) := by
  obtain ⟨h1, h2, h3, _, _⟩ := posN_eq h w c hc
  rw [h1]; unfold cluePos
  rw [Int.natCast_add, Int.natCast_mul, ← h2, ← h3]

theorem posN_lt (h w : Nat) (c : CompassClue) (hc : CompassClueOk h w c) : posN w c < h * w := by
  obtain ⟨h1, _, _, hy, hx⟩ := posN_eq h w c hc
  rw [h1]
  have : (c.y.toNat + 1) * w ≤ h * w := Nat.mul_le_mul_right w hy
  rw [Nat.add_mul] at this
  omega

theorem clueOk_nums (h w : Nat) (c : CompassClue) (hc : CompassClueOk h w c) :
    NumOk c.up ∧ NumOk c.down ∧ NumOk c.left ∧ NumOk c.right := by
  obtain ⟨_, _, _, _, hu, hl, hd, hr⟩ := hc
  exact ⟨hu, hd, hl, hr⟩

/-- the tail of a sorted list starts after its head -/
theorem sorted_tail (h w : Nat) (c : CompassClue) (cs : List CompassClue)
    (hok : ∀ d ∈ c :: cs, CompassClueOk h w d) (hs : CompassSorted w (c :: cs)) :
    (∀ d ∈ cs, CompassClueOk h w d) ∧ CompassSorted w cs ∧ ∀ d ∈ cs, posN w c + 1 ≤ posN w d := by
  unfold CompassSorted at hs
  rw [List.pairwise_cons] at hs
  refine ⟨fun d hd => hok d (List.mem_cons_of_mem _ hd), hs.2, fun d hd => ?_⟩
  have h1 := hs.1 d hd
  rw [cluePos_eq h w c (hok c (by simp)), cluePos_eq h w d (hok d (List.mem_cons_of_mem _ hd))] at h1
  omega

/-! ### characters -/

theorem digitChar_hex_range (d : Nat) (hd : d < 16) : 48 ≤ digitChar d ∧ digitChar d ≤ 102 := by
  unfold digitChar; split <;> omega

theorem tok_cases (v : Int) (hv : NumOk v) :
    (v = -1 ∧ tok v = [46]) ∨
    (0 ≤ v ∧ v ≤ 15 ∧ v.toNat < 16 ∧ tok v = [digitChar v.toNat]) ∨
    (16 ≤ v ∧ v ≤ 255 ∧ v.toNat / 16 < 16 ∧ v.toNat % 16 < 16 ∧ 16 * (v.toNat / 16) + v.toNat % 16 = v.toNat ∧
      tok v = [45, digitChar (v.toNat / 16), digitChar (v.toNat % 16)]) ∨
    (256 ≤ v ∧ v ≤ 4095 ∧ v.toNat / 16 / 16 < 16 ∧ v.toNat / 16 % 16 < 16 ∧ v.toNat % 16 < 16 ∧
      256 * (v.toNat / 16 / 16) + 16 * (v.toNat / 16 % 16) + v.toNat % 16 = v.toNat ∧
      tok v = [43, digitChar (v.toNat / 16 / 16), digitChar (v.toNat / 16 % 16), digitChar (v.toNat % 16)]) := by
  obtain ⟨h1, h2⟩ := hv
  unfold tok
  by_cases ha : v = -1
  · left; exact ⟨ha, by rw [if_pos ha]⟩
  · by_cases hb : v ≤ 15
    · right; left; exact ⟨by omega, hb, by omega, by rw [if_neg ha, if_pos hb]⟩
    · by_cases hc : v ≤ 255
      · right; right; left
        exact ⟨by omega, hc, by omega, by omega, by omega, by rw [if_neg ha, if_neg hb, if_pos hc]⟩
      · right; right; right
        exact ⟨by omega, h2, by omega, by omega, by omega, by omega, by rw [if_neg ha, if_neg hb, if_neg hc]⟩

/-- every character of a number token is `.`, `-`, `+` or a hexadecimal digit: between 43 and 102, never `/` -/
theorem tok_chars (v : Int) (hv : NumOk v) : ∀ ch ∈ tok v, 43 ≤ ch ∧ ch ≤ 102 ∧ ch ≠ 47 := by
  intro ch hch
  rcases tok_cases v hv with ⟨_, e⟩ | ⟨_, _, hd, e⟩ | ⟨_, _, hd1, hd2, _, e⟩ | ⟨_, _, hd1, hd2, hd3, _, e⟩
  rotate_right
  · rw [e] at hch; simp at hch
    have := digitChar_hex_range _ hd1
    have := digitChar_hex_range _ hd2
    have := digitChar_hex_range _ hd3
    omega
  · rw [e] at hch; simp at hch; omega
  · rw [e] at hch; simp at hch
    have := digitChar_hex_range _ hd; omega
  · rw [e] at hch; simp at hch
    have := digitChar_hex_range _ hd1
    have := digitChar_hex_range _ hd2
    omega

theorem tok_ne_nil (v : Int) : tok v ≠ [] := by
  unfold tok; split
  · simp
  · split
    · simp
    · split <;> simp

theorem clueStr_chars (h w : Nat) (c : CompassClue) (hc : CompassClueOk h w c) :
    ∀ ch ∈ clueStr c, 43 ≤ ch ∧ ch ≤ 102 ∧ ch ≠ 47 := by
  obtain ⟨hu, hd, hl, hr⟩ := clueOk_nums h w c hc
  intro ch hch
  simp only [clueStr, List.mem_append] at hch
  rcases hch with hch | hch | hch | hch
  · exact tok_chars _ hu ch hch
  · exact tok_chars _ hd ch hch
  · exact tok_chars _ hl ch hch
  · exact tok_chars _ hr ch hch

theorem gapStr_chars (n : Nat) : ∀ ch ∈ gapStr n, 103 ≤ ch ∧ ch ≤ 122 := by
  intro ch hch
  unfold gapStr at hch
  split at hch
  · simp at hch
  · simp only [List.mem_append, List.mem_replicate, List.mem_singleton] at hch
    rcases hch with ⟨_, rfl⟩ | rfl
    · omega
    · omega

theorem bodyFrom_no_slash (h w : Nat) : ∀ (cs : List CompassClue) (cur total : Nat),
    (∀ c ∈ cs, CompassClueOk h w c) → ∀ ch ∈ bodyFrom w cs cur total, ch ≠ 47
  | [], cur, total, _, ch, hch => by
    have := gapStr_chars _ ch hch; omega
  | c :: cs, cur, total, hok, ch, hch => by
    simp only [bodyFrom, List.mem_append] at hch
    rcases hch with hch | hch | hch
    · have := gapStr_chars _ ch hch; omega
    · exact (clueStr_chars h w c (hok c (by simp)) ch hch).2.2
    · exact bodyFrom_no_slash h w cs _ _ (fun d hd => hok d (List.mem_cons_of_mem _ hd)) ch hch

end Cspuz.Proofs.C16CompassA
