/-
  C11 for `solve_slitherlink`: the posted program encodes the published rules.
-/
import CspuzModel.Proofs.C11Loop
import CspuzModel.Proofs.C11CL
import CspuzModel.Spec.PuzzleRules.Slitherlink
namespace Cspuz.Proofs.C11Slitherlink
open Cspuz Cspuz.Spec Cspuz.Spec.FrameGeom Cspuz.Spec.Loop Cspuz.Proofs Cspuz.Proofs.C11Loop
open Cspuz.Puzzles Cspuz.Puzzles.Loop Cspuz.Puzzles.Slitherlink Cspuz.Spec.Slitherlink
open Cspuz.Proofs.C14 (segExpr)

/-- The clue constraint of a numbered cell, closed form. -/
def clueC (pb : Problem) (p : Nat × Nat) : Expr :=
  .node .eq [countTrueE ((cellSegs p.1 p.2).map (segExpr 0 pb.height pb.width)), .litI (val pb p.1 p.2)]

/-- What the double loop posts for one cell. -/
def cellE (pb : Problem) (p : Nat × Nat) : List Expr := if val pb p.1 p.2 ≥ 0 then [clueC pb p] else []

def extra (pb : Problem) : List Expr := ((cellsOf pb.height pb.width).map (cellE pb)).flatten

theorem tableGet_eq {pb : Problem} (hw : WellFormed pb) {y x : Nat} (hy : y < pb.height) (hx : x < pb.width) :
    tableGet pb.problem (y : Int) (x : Int) = .ok (val pb y x) := by
  unfold tableGet val
  have hy' : y < pb.problem.length := by rw [hw.1]; exact hy
  have hrow : pb.problem[y]? = some pb.problem[y] := List.getElem?_eq_getElem hy'
  have hlen : pb.problem[y].length = pb.width := hw.2 _ (List.getElem_mem hy')
  have hx' : x < pb.problem[y].length := by rw [hlen]; exact hx
  rw [C14.pyIndex_nat _ _ _ hrow, ok_bind, C14.pyIndex_nat _ _ _ (List.getElem?_eq_getElem hx')]
  simp [List.getD, hrow, List.getElem?_eq_getElem hx']

theorem mem_cellsOf {h w : Nat} {p : Nat × Nat} : p ∈ cellsOf h w ↔ p.1 < h ∧ p.2 < w := by
  unfold cellsOf
  simp only [List.mem_flatMap, List.mem_map, List.mem_range]
  constructor
  · rintro ⟨y, hy, x, hx, rfl⟩; exact ⟨hy, hx⟩
  · rintro ⟨hy, hx⟩; exact ⟨p.1, hy, p.2, hx, rfl⟩

theorem cellCs_eq {pb : Problem} (hw : WellFormed pb) {p : Nat × Nat} (hp : p ∈ cellsOf pb.height pb.width) :
    cellCs pb (Frame.fresh 0 pb.height pb.width) p = .ok (cellE pb p) := by
  obtain ⟨hy, hx⟩ := mem_cellsOf.mp hp
  unfold cellCs cellE
  rw [tableGet_eq hw hy hx, ok_bind]
  by_cases hv : val pb p.1 p.2 ≥ 0
  · simp only [hv, if_true]
    rw [C14.cell_fresh, if_pos (by omega), ok_bind]
    simp only [Int.toNat_natCast]
    have hbl : ∀ e ∈ (cellSegs p.1 p.2).map (segExpr 0 pb.height pb.width), e.isBoolLike = true := by
      intro e he
      simp only [List.mem_map] at he
      obtain ⟨s, _, rfl⟩ := he
      rfl
    rw [countTrue_ok_of_boolLike hbl, ok_bind]
    obtain ⟨op, args, hct, hop⟩ := C11CL.countTrueE_isNode ((cellSegs p.1 p.2).map (segExpr 0 pb.height pb.width))
    have hcmp : cmpPy .eq (countTrueE ((cellSegs p.1 p.2).map (segExpr 0 pb.height pb.width))) (.litI (val pb p.1 p.2))
        = .ok (clueC pb p) := by
      unfold clueC
      rw [hct]
      simp [cmpPy, Expr.isIntExpr, Expr.isIntLike, hop]
    rw [hcmp, ok_bind]
    simp [ensure1, clueC, Expr.isBoolLike, Op.isBoolOp]
  · simp only [hv, if_false]

/-- Closed form of the posted program. -/
theorem program_eq {pb : Problem} (hw : WellFormed pb) :
    program pb = .ok
      { decls := List.replicate (Frame.numVars pb.height pb.width) .bool ++ (cyc pb.height pb.width).decls,
        cs := (cyc pb.height pb.width).cs ++ extra pb,
        keys := List.range (Frame.numVars pb.height pb.width) } := by
  unfold program
  simp only [frameKeys_eq, setup_eq, bind, Except.bind]
  rw [mapM_eq_ok_map (g := cellE pb) (fun p hp => cellCs_eq hw hp)]
  rfl

/-- The clue rule, as a predicate on the drawn segments. -/
def G (pb : Problem) (on : Seg → Bool) : Prop :=
  ∀ y, y < pb.height → ∀ x, x < pb.width → 0 ≤ val pb y x →
    (((cellSegs y x).countP fun s => on s : Nat) : Int) = val pb y x

theorem eval_clueC (pb : Problem) (σ : Asg) (p : Nat × Nat) :
    eval σ (clueC pb p) = some (.b (decide ((((cellSegs p.1 p.2).countP fun s => onOf pb.height pb.width σ s : Nat) : Int)
      = val pb p.1 p.2))) := by
  unfold clueC
  have h := eval_countTrueE (σ := σ) (xs := (cellSegs p.1 p.2).map (segExpr 0 pb.height pb.width))
    ((cellSegs p.1 p.2).map (onOf pb.height pb.width σ)) (by
      rw [List.map_map, List.map_map]
      apply List.map_congr_left
      intro s _
      simp [segExpr, onOf, eval_bvar])
  rw [eval_node]
  simp only [List.map_cons, List.map_nil, h, eval_litI]
  rw [evalOp_cmp rfl, cmpOp_eq]
  congr 2
  rw [List.count_eq_countP, List.countP_map]
  have e : ((fun x => x == true) ∘ onOf pb.height pb.width σ) = (fun s => onOf pb.height pb.width σ s) := by
    funext s; simp
  rw [e]; exact beq_eq_decide _ _

theorem extra_iff (pb : Problem) (σ : Asg) :
    (∀ c ∈ extra pb, eval σ c = some (.b true)) ↔ G pb (onOf pb.height pb.width σ) := by
  unfold extra G
  constructor
  · intro h y hy x hx hv
    have hm : clueC pb (y, x) ∈ ((cellsOf pb.height pb.width).map (cellE pb)).flatten := by
      rw [List.mem_flatten]
      refine ⟨cellE pb (y, x), List.mem_map.mpr ⟨(y, x), mem_cellsOf.mpr ⟨hy, hx⟩, rfl⟩, ?_⟩
      simp [cellE, hv]
    have := h _ hm
    rw [eval_clueC] at this
    simpa using this
  · intro h c hc
    rw [List.mem_flatten] at hc
    obtain ⟨l, hl, hcl⟩ := hc
    obtain ⟨p, hp, rfl⟩ := List.mem_map.mp hl
    obtain ⟨hy, hx⟩ := mem_cellsOf.mp hp
    unfold cellE at hcl
    split at hcl
    · next hv =>
      simp only [List.mem_singleton] at hcl
      subst hcl
      rw [eval_clueC]
      simp [h p.1 hy p.2 hx hv]
    · simp at hcl

theorem G_congr (pb : Problem) (on on' : Seg → Bool) (h : ∀ s, s.Valid pb.height pb.width → on s = on' s) :
    G pb on ↔ G pb on' := by
  have key : ∀ y, y < pb.height → ∀ x, x < pb.width →
      ((cellSegs y x).countP fun s => on s) = ((cellSegs y x).countP fun s => on' s) := by
    intro y hy x hx
    apply List.countP_congr
    intro s hs
    rw [h s ((C14.mem_cellSegs pb.height pb.width y x hy hx s).mp hs).1]
  unfold G
  constructor
  · intro hg y hy x hx hv; rw [← key y hy x hx]; exact hg y hy x hx hv
  · intro hg y hy x hx hv; rw [key y hy x hx]; exact hg y hy x hx hv

theorem extra_wt (pb : Problem) : ∀ c ∈ extra pb, wtB c = true := by
  intro c hc
  unfold extra at hc
  rw [List.mem_flatten] at hc
  obtain ⟨l, hl, hcl⟩ := hc
  obtain ⟨p, _, rfl⟩ := List.mem_map.mp hl
  unfold cellE at hcl
  split at hcl
  · simp only [List.mem_singleton] at hcl
    subst hcl
    have : ∀ x ∈ (cellSegs p.1 p.2).map (segExpr 0 pb.height pb.width), wtB x = true := by
      intro e he
      simp only [List.mem_map] at he
      obtain ⟨s, _, rfl⟩ := he
      rfl
    simp [clueC, wtB, wtIs, wtI, wtI_countTrueE _ this]
  · simp at hcl

theorem main (pb : Problem) (hw : WellFormed pb) (P : PuzzleProg) (hP : program pb = .ok P) :
    EncodesRules P (Rules pb) ∧ P.KeysOk ∧ (∀ c ∈ P.cs, wtB c = true) := by
  rw [program_eq hw] at hP
  cases hP
  refine ⟨?_, keysOk_frame _ _ _ _, ?_⟩
  · have h := encodes_loop pb.height pb.width (extra pb) (G pb) (G_congr pb) (fun σ _ => extra_iff pb σ)
    intro a
    rw [h a]
    unfold Rules RulesOn
    rfl
  · intro c hc
    rcases List.mem_append.mp hc with h | h
    · exact cyc_wt _ _ c h
    · exact extra_wt pb c h

theorem total (pb : Problem) (hw : WellFormed pb) : ∃ P, program pb = .ok P := ⟨_, program_eq hw⟩

end Cspuz.Proofs.C11Slitherlink
