/-
  C11 / Nurikabe, part D: `solve_nurikabe` posts a program that encodes the published rules
  (Spec/PuzzleRules/Nurikabe.lean).  Assembly of parts A (closed form), B (meaning of the local constraints),
  C (labels vs. rules) with C05 (`division_connected`).
-/
import CspuzModel.Proofs.C11NurikabeC
import CspuzModel.Proofs.C11DivWT
import CspuzModel.Proofs.C11CellGraph
import CspuzModel.Properties.C05
namespace Cspuz.Proofs.C11Nurikabe
open Cspuz Cspuz.Spec Cspuz.Puzzles Cspuz.Puzzles.Nurikabe Cspuz.Spec.Nurikabe Cspuz.Proofs
open Cspuz.Proofs.C11NurikabeA Cspuz.Proofs.C11NurikabeB Cspuz.Proofs.C11NurikabeC

/-! ### the `division_connected` fragment -/

theorem dvs_length (pb : Problem) : (dvs pb).length = (Graph.grid pb.height pb.width).n := by
  simp [dvs, N, Graph.grid]

theorem dvs_intArgs (pb : Problem) : IntArgs (N pb) (dvs pb) := by
  intro e he
  simp only [dvs, List.mem_map, List.mem_range] at he
  obtain ⟨i, hi, rfl⟩ := he
  exact ⟨rfl, by simp only [Expr.varsBelow, decide_eq_true_eq]; exact hi⟩

theorem labOf_dvs (pb : Problem) (σ : Asg) {v : Nat} (hv : v < N pb) : labOf σ (dvs pb) v = σ.i v := by
  simp [labOf, intAt, dvs, hv]

theorem inRange_dvs (pb : Problem) (σ : Asg) (h : ∀ v, v < N pb → 0 ≤ σ.i v ∧ σ.i v ≤ (K pb : Int)) :
    InRange σ (dvs pb) (Graph.grid pb.height pb.width).n (K pb + 1) := by
  intro v hv
  have hv' : v < N pb := hv
  refine ⟨σ.i v, by simp [intAt, dvs, hv'], (h v hv').1, ?_⟩
  have := (h v hv').2
  push_cast
  omega

theorem dc_eq' {pb : Problem} (hwf : WellFormed pb) :
    divisionConnected (Graph.grid pb.height pb.width) (dvs pb) (K pb + 1) (some (rootsOf pb)) false false (N pb)
      = .ok (dc pb) := by
  have := dc_eq hwf
  rwa [ivars_zero] at this

theorem roots_get {pb : Problem} {c r : Nat} :
    (rootsOf pb)[c]? = some (some r) ↔
      ∃ (j : Nat) (t : Nat × Nat × Int), c = j + 1 ∧ (clueList pb)[j]? = some t ∧ r = t.1 * pb.width + t.2.1 := by
  unfold rootsOf
  cases c with
  | zero => simp
  | succ j =>
    simp only [List.getElem?_cons_succ, List.getElem?_map]
    constructor
    · intro h
      cases ht : (clueList pb)[j]? with
      | none => simp [ht] at h
      | some t =>
        simp only [ht, Option.map_some, Option.some.injEq] at h
        exact ⟨j, t, rfl, ht, h.symm⟩
    · rintro ⟨j', t, hj, ht, rfl⟩
      have : j = j' := by omega
      subst this
      simp [ht]

/-- What `DivisionOK` on the grid graph says, in cell coordinates. -/
theorem divisionOK_iff {pb : Problem} (_hwf : WellFormed pb) (σ : Asg) :
    DivisionOK (Graph.grid pb.height pb.width) (labOf σ (dvs pb)) (K pb + 1) (rootsOf pb) false ↔
      (∀ c : Nat, c ≤ K pb → CellsConnected pb.height pb.width (fun y x => lab pb σ y x = (c : Int))) ∧
      (∀ c : Nat, c ≤ K pb → ∃ y x, y < pb.height ∧ x < pb.width ∧ lab pb σ y x = (c : Int)) ∧
      (∀ (j : Nat) (t : Nat × Nat × Int), (clueList pb)[j]? = some t → lab pb σ t.1 t.2.1 = (j : Int) + 1) := by
  have hlab : ∀ y x, y < pb.height → x < pb.width → labOf σ (dvs pb) (y * pb.width + x) = lab pb σ y x := by
    intro y x hy hx
    rw [labOf_dvs pb σ (C11Grid.cell_lt hy hx)]; rfl
  have hconn : ∀ c : Int,
      ((toSimple (Graph.grid pb.height pb.width)).induce
        (labelClass (Graph.grid pb.height pb.width) (labOf σ (dvs pb)) c)).Preconnected ↔
      CellsConnected pb.height pb.width (fun y x => lab pb σ y x = c) := by
    intro c
    have hset : labelClass (Graph.grid pb.height pb.width) (labOf σ (dvs pb)) c
        = activeSet (Graph.grid pb.height pb.width) (fun v => decide (labOf σ (dvs pb) v = c)) := by
      ext v
      simp [labelClass, activeSet]
    rw [hset]
    exact C11CellGraph.activeConnected_grid_iff pb.height pb.width _ (fun y x => lab pb σ y x = c) (by
      intro y x hy hx
      rw [hlab y x hy hx]
      simp)
  unfold DivisionOK
  constructor
  · rintro ⟨h1, h2, h3⟩
    refine ⟨fun c hc => (hconn c).1 (h1 c (by omega)), ?_, ?_⟩
    · intro c hc
      obtain ⟨v, hv, hl⟩ := h2 rfl c (by omega)
      have hv' : v < pb.height * pb.width := hv
      have hdm := C11Grid.div_lt_of_lt_mul hv'
      refine ⟨v / pb.width, v % pb.width, hdm.1, hdm.2, ?_⟩
      rw [← hlab _ _ hdm.1 hdm.2, Nat.div_add_mod' v pb.width]
      exact hl
    · intro j t ht
      obtain ⟨t1, t2, _⟩ := clue_of_index ht
      have := (h3 (j + 1) (t.1 * pb.width + t.2.1) (roots_get.2 ⟨j, t, rfl, ht, rfl⟩)).2
      rw [hlab _ _ t1 t2] at this
      rw [this]; push_cast; rfl
  · rintro ⟨h1, h2, h3⟩
    refine ⟨fun c hc => (hconn c).2 (h1 c (by omega)), ?_, ?_⟩
    · intro _ c hc
      obtain ⟨y, x, hy, hx, hl⟩ := h2 c (by omega)
      exact ⟨y * pb.width + x, C11Grid.cell_lt hy hx, by rw [hlab y x hy hx]; exact hl⟩
    · intro c r hcr
      obtain ⟨j, t, rfl, ht, rfl⟩ := roots_get.1 hcr
      obtain ⟨t1, t2, _⟩ := clue_of_index ht
      refine ⟨C11Grid.cell_lt t1 t2, ?_⟩
      rw [hlab _ _ t1 t2, h3 j t ht]; push_cast; rfl

/-- The fragment is realizable exactly for the labelings that `DivSem` describes (given the declared range). -/
theorem dc_realizable_iff {pb : Problem} (hwf : WellFormed pb) (σ : Asg)
    (hrange : ∀ v, v < N pb → 0 ≤ σ.i v ∧ σ.i v ≤ (K pb : Int)) :
    Realizable (N pb) (dc pb) σ ↔ DivSem pb (lab pb σ) := by
  rw [Cspuz.C05.C05_aux_exact (Graph.grid pb.height pb.width) (dvs pb) (K pb + 1) (some (rootsOf pb)) false (N pb)
    (dc pb) σ (C04Prim.grid_wf _ _) (dvs_length pb) (dvs_intArgs pb) (inRange_dvs pb σ hrange) (dc_eq' hwf)]
  simp only [Option.getD_some]
  rw [divisionOK_iff hwf σ]
  unfold DivSem
  constructor
  · intro h
    exact ⟨fun y x hy hx => hrange _ (C11Grid.cell_lt hy hx), h⟩
  · intro h
    exact h.2

/-! ### declarations of the posted program -/

theorem decls_low (pb : Problem) {v : Nat} (hv : v < N pb) : (prog pb).decls[v]? = some (.int 0 (K pb : Int)) := by
  simp only [prog]
  rw [List.append_assoc, List.getElem?_append_left (by simpa using hv)]
  simp [hv]

theorem decls_mid (pb : Problem) (k : Nat) (hk : k < (dc pb).decls.length) :
    (prog pb).decls[N pb + k]? = (dc pb).decls[k]? := by
  simp only [prog]
  rw [List.append_assoc, List.getElem?_append_right (by simp), List.getElem?_append_left (by simpa using hk)]
  simp

theorem decls_high (pb : Problem) (i : Nat) :
    (prog pb).decls[wb pb + i]? = if i < N pb then some .bool else none := by
  simp only [prog, wb]
  rw [List.getElem?_append_right (by simp), List.getElem?_replicate]
  simp

/-- Below the white flags, the only integer declarations are the labels and those of the fragment. -/
theorem decls_int (pb : Problem) {id : Nat} {lo hi : Int} (h : (prog pb).decls[id]? = some (.int lo hi)) :
    (id < N pb ∧ lo = 0 ∧ hi = (K pb : Int)) ∨
    (∃ k, id = N pb + k ∧ (dc pb).decls[k]? = some (.int lo hi)) := by
  rcases Nat.lt_or_ge id (N pb) with h1 | h1
  · rw [decls_low pb h1] at h
    simp only [Option.some.injEq, VarDecl.int.injEq] at h
    exact Or.inl ⟨h1, h.1.symm, h.2.symm⟩
  · rcases Nat.lt_or_ge id (wb pb) with h2 | h2
    · right
      refine ⟨id - N pb, by omega, ?_⟩
      have := decls_mid pb (id - N pb) (by unfold wb at h2; omega)
      rw [show N pb + (id - N pb) = id by omega] at this
      rw [← this]; exact h
    · have := decls_high pb (id - wb pb)
      rw [show wb pb + (id - wb pb) = id by omega] at this
      rw [this] at h
      split at h <;> simp at h

/-! ### the answer list -/

theorem keyVals_eq (pb : Problem) (σ : Asg) :
    (prog pb).keyVals σ = (boolGrid pb.height pb.width (wht pb σ)).map some := by
  unfold PuzzleProg.keyVals boolGrid
  rw [C11Grid.flatMap_range_eq (fun y x => Val.b (wht pb σ y x))]
  simp only [prog, keyList, List.map_map]
  apply List.map_congr_left
  intro i hi
  have hi' : i < N pb := List.mem_range.1 hi
  simp only [Function.comp, valOf]
  have := decls_high pb i
  simp only [prog] at this
  rw [this, if_pos hi']
  simp only [wht, Nat.div_add_mod' i pb.width]

/-! ### meaning of the local constraints depends on the board only -/

theorem cnt_congr {pb : Problem} {L L' : Nat → Nat → Int}
    (hL : ∀ y x, y < pb.height → x < pb.width → L y x = L' y x) (r : Int) : cnt pb L r = cnt pb L' r := by
  unfold cnt
  apply List.countP_congr
  intro p hp
  obtain ⟨h1, h2⟩ := mem_cellsOf.1 hp
  rw [hL _ _ h1 h2]

theorem locSem_congr {pb : Problem} {L L' : Nat → Nat → Int} {Wt Wt' : Nat → Nat → Bool}
    (hL : ∀ y x, y < pb.height → x < pb.width → L y x = L' y x)
    (hW : ∀ y x, y < pb.height → x < pb.width → Wt y x = Wt' y x) (h : LocSem pb L Wt) : LocSem pb L' Wt' := by
  obtain ⟨h1, h2, h3, h4, h5⟩ := h
  refine ⟨?_, ?_, ?_, ?_, ?_⟩
  · intro y x hy hx
    rw [← hL y x hy hx, ← hW y x hy hx]; exact h1 y x hy hx
  · intro y x hy hx
    rw [← hL y x (by omega) hx, ← hL (y + 1) x hy hx, ← hW y x (by omega) hx, ← hW (y + 1) x hy hx]
    exact h2 y x hy hx
  · intro y x hy hx
    rw [← hL y x hy (by omega), ← hL y (x + 1) hy hx, ← hW y x hy (by omega), ← hW y (x + 1) hy hx]
    exact h3 y x hy hx
  · intro y x hy hx
    rw [← hW y x (by omega) (by omega), ← hW y (x + 1) (by omega) hx, ← hW (y + 1) x hy (by omega),
      ← hW (y + 1) (x + 1) hy hx]
    exact h4 y x hy hx
  · intro j c hc
    rw [← cnt_congr hL]
    exact h5 j c hc

theorem divSem_congr {pb : Problem} {L L' : Nat → Nat → Int}
    (hL : ∀ y x, y < pb.height → x < pb.width → L y x = L' y x) (h : DivSem pb L) : DivSem pb L' := by
  obtain ⟨h1, h2, h3, h4⟩ := h
  refine ⟨?_, ?_, ?_, ?_⟩
  · intro y x hy hx; rw [← hL y x hy hx]; exact h1 y x hy hx
  · intro c hc
    refine (cellsConnected_congr ?_).1 (h2 c hc)
    intro y x hy hx; rw [hL y x hy hx]
  · intro c hc
    obtain ⟨y, x, hy, hx, hl⟩ := h3 c hc
    exact ⟨y, x, hy, hx, by rw [← hL y x hy hx]; exact hl⟩
  · intro j t ht
    obtain ⟨t1, t2, _⟩ := clue_of_index ht
    rw [← hL _ _ t1 t2]; exact h4 j t ht

/-! ### the theorem -/

theorem encodes {pb : Problem} (hwf : WellFormed pb) : EncodesRules (prog pb) (Rules pb) := by
  have hwpos : 0 < pb.width := hwf.2.1
  intro a
  constructor
  · rintro ⟨σ, ⟨hresp, hcs⟩, hkv⟩
    refine ⟨wht pb σ, ?_, ?_⟩
    · rw [keyVals_eq] at hkv
      exact ((List.map_inj_right (fun _ _ e => Option.some.inj e)).1 hkv).symm
    · have hrange : ∀ v, v < N pb → 0 ≤ σ.i v ∧ σ.i v ≤ (K pb : Int) :=
        fun v hv => hresp v 0 _ (decls_low pb hv)
      have hfrag : SatFrag (N pb) (dc pb) σ := by
        refine ⟨?_, fun c hc => hcs c (List.mem_append_left _ hc)⟩
        intro k lo hi hk
        have hklt : k < (dc pb).decls.length := by
          rcases Nat.lt_or_ge k (dc pb).decls.length with h | h
          · exact h
          · rw [List.getElem?_eq_none h] at hk; cases hk
        exact hresp (N pb + k) lo hi (by rw [decls_mid pb k hklt]; exact hk)
      have hD : DivSem pb (lab pb σ) :=
        (dc_realizable_iff hwf σ hrange).1 ⟨σ, AgreeBelow.refl _ _, hfrag⟩
      have hL : LocSem pb (lab pb σ) (wht pb σ) :=
        (loc_sat_iff pb σ).1 (fun c hc => hcs c (List.mem_append_right _ hc))
      exact labels_iff_rules.1 ⟨_, hD, hL⟩
  · rintro ⟨Wt, rfl, hR⟩
    obtain ⟨L, hD, hL⟩ := labels_iff_rules.2 hR
    -- the labels as an assignment of the division variables
    let σ0 : Asg := { b := fun _ => false, i := fun v => L (v / pb.width) (v % pb.width) }
    have hlab0 : ∀ y x, y < pb.height → x < pb.width → lab pb σ0 y x = L y x := by
      intro y x _ hx
      show L ((y * pb.width + x) / pb.width) ((y * pb.width + x) % pb.width) = L y x
      rw [(C11Grid.cell_div_mod hx).1, (C11Grid.cell_div_mod hx).2]
    have hrange0 : ∀ v, v < N pb → 0 ≤ σ0.i v ∧ σ0.i v ≤ (K pb : Int) := by
      intro v hv
      have hdm := C11Grid.div_lt_of_lt_mul (show v < pb.height * pb.width from hv)
      exact hD.1 _ _ hdm.1 hdm.2
    have hD0 : DivSem pb (lab pb σ0) := divSem_congr (fun y x hy hx => (hlab0 y x hy hx).symm) hD
    obtain ⟨σ1, hag1, hfrag1⟩ := (dc_realizable_iff hwf σ0 hrange0).2 hD0
    -- set the white flags
    let σ2 : Asg := { b := fun id => if wb pb ≤ id then Wt ((id - wb pb) / pb.width) ((id - wb pb) % pb.width)
                                      else σ1.b id,
                      i := σ1.i }
    have hag2 : AgreeBelow (wb pb) σ1 σ2 := by
      intro id hid
      refine ⟨?_, rfl⟩
      show σ1.b id = if wb pb ≤ id then _ else σ1.b id
      rw [if_neg (by omega)]
    have hlab2 : ∀ y x, y < pb.height → x < pb.width → lab pb σ2 y x = L y x := by
      intro y x hy hx
      rw [← hlab0 y x hy hx]
      show σ1.i (y * pb.width + x) = σ0.i (y * pb.width + x)
      exact ((hag1 _ (C11Grid.cell_lt hy hx)).2).symm
    have hwht2 : ∀ y x, y < pb.height → x < pb.width → wht pb σ2 y x = Wt y x := by
      intro y x _ hx
      show (if wb pb ≤ wb pb + (y * pb.width + x) then
        Wt ((wb pb + (y * pb.width + x) - wb pb) / pb.width) ((wb pb + (y * pb.width + x) - wb pb) % pb.width)
        else σ1.b _) = Wt y x
      rw [if_pos (by omega), show wb pb + (y * pb.width + x) - wb pb = y * pb.width + x by omega,
        (C11Grid.cell_div_mod hx).1, (C11Grid.cell_div_mod hx).2]
    refine ⟨σ2, ⟨?_, ?_⟩, ?_⟩
    · -- declared ranges
      intro id lo hi hd
      rcases decls_int pb hd with ⟨h1, rfl, rfl⟩ | ⟨k, rfl, hk⟩
      · show 0 ≤ σ1.i id ∧ σ1.i id ≤ (K pb : Int)
        rw [← (hag1 id h1).2]; exact hrange0 id h1
      · exact hfrag1.1 k lo hi hk
    · -- constraints
      intro c hc
      rcases List.mem_append.1 hc with hc | hc
      · have hv := (C11DivWT.divProg_wt (C04Prim.grid_wf _ _) (dvs_length pb) (dvs_intArgs pb) (K pb + 1)
          (some (rootsOf pb)) false (fun c r h => root_lt c r (by simpa using h)) c hc).2
        rw [← eval_congr_of_varsBelow hag2 c hv]
        exact hfrag1.2 c hc
      · exact (loc_sat_iff pb σ2).2 (locSem_congr (fun y x hy hx => (hlab2 y x hy hx).symm)
          (fun y x hy hx => (hwht2 y x hy hx).symm) hL) c hc
    · -- the answer
      rw [keyVals_eq]
      congr 1
      unfold boolGrid
      apply List.flatMap_congr
      intro y hy
      apply List.map_congr_left
      intro x hx
      rw [hwht2 y x (List.mem_range.1 hy) (List.mem_range.1 hx)]

theorem keysOk (pb : Problem) : (prog pb).KeysOk := by
  refine ⟨?_, ?_⟩
  · simp only [prog, keyList]
    exact (List.nodup_range).map (fun a b hab => by simpa using hab)
  · intro k hk
    simp only [prog, keyList, List.mem_map, List.mem_range] at hk
    obtain ⟨i, hi, rfl⟩ := hk
    simp only [prog, wb, List.length_append, List.length_replicate]
    omega

/-! ### typing -/

theorem winList_vars (pb : Problem) (a b y x : Nat) (hy : y + a ≤ pb.height) (hx : x + b ≤ pb.width) :
    ∀ e ∈ C12Conv.winList (whites pb) pb.width a b y x, ∃ i, e = Wv pb i := by
  intro e he
  have hs := C12Conv.winList_some (whites pb) pb.height pb.width a b y x (whites_length pb) hy hx
  have hm : some e ∈ (C12Conv.winList (whites pb) pb.width a b y x).map some := List.mem_map_of_mem he
  rw [hs] at hm
  obtain ⟨p, _, hp⟩ := List.mem_map.1 hm
  exact ⟨_, cellAt_whites hp⟩

theorem wtBs_of_forall : ∀ l : List Expr, (∀ e ∈ l, wtB e = true) → wtBs l = true
  | [], _ => rfl
  | e :: r, h => by
    simp only [wtBs, Bool.and_eq_true]
    exact ⟨h e List.mem_cons_self, wtBs_of_forall r (fun x hx => h x (List.mem_cons_of_mem _ hx))⟩

theorem win_wt (pb : Problem) (op : Op) (hop : op = .and ∨ op = .or) (a b y x : Nat) (hy : y + a ≤ pb.height)
    (hx : x + b ≤ pb.width) : wtB (.node op (C12Conv.winList (whites pb) pb.width a b y x)) = true := by
  have h : wtBs (C12Conv.winList (whites pb) pb.width a b y x) = true :=
    wtBs_of_forall _ (fun e he => by obtain ⟨i, rfl⟩ := winList_vars pb a b y x hy hx e he; rfl)
  rcases hop with rfl | rfl <;> simpa [wtB] using h

theorem regionCount_wt (pb : Problem) (op : Op) (hop : op.isCmp = true) (r n : Int) :
    wtB (.node op [regionCount pb r, .litI n]) = true :=
  C11FragWT.wtB_cmp_countTrueE op hop _ n (by
    intro e he
    simp only [List.mem_map] at he
    obtain ⟨i, _, rfl⟩ := he
    rfl)

theorem loc_wt (pb : Problem) : ∀ c ∈ loc pb, wtB c = true := by
  intro c hc
  simp only [loc, List.mem_append] at hc
  rcases hc with (((hc | hc) | hc) | hc) | hc
  · simp only [c1, List.mem_map] at hc
    obtain ⟨i, _, rfl⟩ := hc
    rfl
  · simp only [c2, List.mem_map] at hc
    obtain ⟨p, hp, rfl⟩ := hc
    obtain ⟨h1, h2⟩ := mem_cellsOf.1 hp
    exact C11DivWT.wtB_imp (win_wt pb .and (Or.inl rfl) 2 1 p.1 p.2 (by omega) (by omega)) rfl
  · simp only [c3, List.mem_map] at hc
    obtain ⟨p, hp, rfl⟩ := hc
    obtain ⟨h1, h2⟩ := mem_cellsOf.1 hp
    exact C11DivWT.wtB_imp (win_wt pb .and (Or.inl rfl) 1 2 p.1 p.2 (by omega) (by omega)) rfl
  · simp only [c4, List.mem_map] at hc
    obtain ⟨p, hp, rfl⟩ := hc
    obtain ⟨h1, h2⟩ := mem_cellsOf.1 hp
    exact win_wt pb .or (Or.inr rfl) 2 2 p.1 p.2 (by omega) (by omega)
  · simp only [c5, List.mem_flatMap] at hc
    obtain ⟨ic, _, hc⟩ := hc
    unfold c5At at hc
    split at hc
    · simp only [List.mem_singleton] at hc; subst hc
      exact regionCount_wt pb .eq rfl _ _
    · split at hc
      · split at hc
        · simp only [List.mem_singleton] at hc; subst hc
          exact regionCount_wt pb .ge rfl _ _
        · simp at hc
      · simp at hc

theorem main (pb : Problem) (hwf : WellFormed pb) (P : PuzzleProg) (hP : program pb = .ok P) :
    EncodesRules P (Rules pb) ∧ P.KeysOk ∧ (∀ c ∈ P.cs, wtB c = true) := by
  rw [program_eq hwf] at hP
  cases hP
  refine ⟨encodes hwf, keysOk pb, ?_⟩
  intro c hc
  rcases List.mem_append.1 hc with hc | hc
  · exact (C11DivWT.divProg_wt (C04Prim.grid_wf _ _) (dvs_length pb) (dvs_intArgs pb) (K pb + 1)
      (some (rootsOf pb)) false (fun c r h => root_lt c r (by simpa using h)) c hc).1
  · exact loc_wt pb c hc

theorem total (pb : Problem) (hwf : WellFormed pb) : ∃ P, program pb = .ok P := ⟨_, program_eq hwf⟩

end Cspuz.Proofs.C11Nurikabe


