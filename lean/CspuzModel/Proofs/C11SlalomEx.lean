/-
  A concrete instance for the non-vacuity examples of C11 / slalom: the ring around the black centre of a 3 × 3 board,
  with a gate of length 1 on either side of the centre.
-/
import CspuzModel.Spec.PuzzleRules.Slalom
namespace Cspuz.Proofs.C11SlalomEx
open Cspuz Cspuz.Spec Cspuz.Spec.FrameGeom Cspuz.Spec.Loop Cspuz.Puzzles.Slalom Cspuz.Spec.Slalom

/-- the ring through the eight outer cells of a 3 × 3 board. -/
def ringOn : Seg → Bool
  | .h y _ => y != 1
  | .v _ x => x != 1

theorem ringLoop : IsLoop 2 2 ringOn := by
  right
  refine ⟨[0, 1, 2, 5, 8, 7, 6, 3], [0, 1, 8, 11, 5, 4, 9, 6], by decide, by decide, rfl, by decide, ?_, ?_⟩
  · intro k hk
    have : k = 0 ∨ k = 1 ∨ k = 2 ∨ k = 3 ∨ k = 4 ∨ k = 5 ∨ k = 6 ∨ k = 7 := by simp at hk; omega
    rcases this with rfl | rfl | rfl | rfl | rfl | rfl | rfl | rfl
    · exact ⟨0, 0, 1, rfl, rfl, rfl, Or.inl rfl⟩
    · exact ⟨1, 1, 2, rfl, rfl, rfl, Or.inl rfl⟩
    · exact ⟨8, 2, 5, rfl, rfl, rfl, Or.inl rfl⟩
    · exact ⟨11, 5, 8, rfl, rfl, rfl, Or.inl rfl⟩
    · exact ⟨5, 8, 7, rfl, rfl, rfl, Or.inr rfl⟩
    · exact ⟨4, 7, 6, rfl, rfl, rfl, Or.inr rfl⟩
    · exact ⟨9, 6, 3, rfl, rfl, rfl, Or.inr rfl⟩
    · exact ⟨6, 3, 0, rfl, rfl, rfl, Or.inr rfl⟩
  · intro e he
    have : e < 12 := by simpa [latticeGraph, allSegs, hSegs, vSegs] using he
    have : e = 0 ∨ e = 1 ∨ e = 2 ∨ e = 3 ∨ e = 4 ∨ e = 5 ∨ e = 6 ∨ e = 7 ∨ e = 8 ∨ e = 9 ∨ e = 10 ∨ e = 11 := by omega
    rcases this with rfl | rfl | rfl | rfl | rfl | rfl | rfl | rfl | rfl | rfl | rfl | rfl <;> decide

def exPb : Problem :=
  { height := 3, width := 3, origin := (0, 0),
    isBlack := [[false, false, false], [false, true, false], [false, false, false]],
    gates := [{ y := 1, x := 0, d := .hor, l := 1, n := 2 }, { y := 1, x := 2, d := .hor, l := 1, n := -1 }] }

/-- the round trip: clockwise from the top-left corner. -/
def tour : List Pt := [(0, 0), (0, 1), (0, 2), (1, 2), (2, 2), (2, 1), (2, 0), (1, 0)]

theorem tour_isTour : IsTour 2 2 ringOn (0, 0) tour := by
  refine ⟨rfl, by decide, ?_, ?_⟩
  · intro k hk
    have : k = 0 ∨ k = 1 ∨ k = 2 ∨ k = 3 ∨ k = 4 ∨ k = 5 ∨ k = 6 ∨ k = 7 := by simp [tour] at hk; omega
    rcases this with rfl | rfl | rfl | rfl | rfl | rfl | rfl | rfl
    · exact ⟨.h 0 0, by decide, rfl, Or.inl rfl⟩
    · exact ⟨.h 0 1, by decide, rfl, Or.inl rfl⟩
    · exact ⟨.v 0 2, by decide, rfl, Or.inl rfl⟩
    · exact ⟨.v 1 2, by decide, rfl, Or.inl rfl⟩
    · exact ⟨.h 2 1, by decide, rfl, Or.inr rfl⟩
    · exact ⟨.h 2 0, by decide, rfl, Or.inr rfl⟩
    · exact ⟨.v 1 0, by decide, rfl, Or.inr rfl⟩
    · exact ⟨.v 0 0, by decide, rfl, Or.inr rfl⟩
  · intro s hs ho
    cases s with
    | h y x =>
      obtain ⟨hy, hx⟩ := hs
      have hy' : y = 0 ∨ y = 2 := by
        have : y ≠ 1 := by rintro rfl; simp [ringOn] at ho
        omega
      have hx' : x = 0 ∨ x = 1 := by omega
      rcases hy' with rfl | rfl <;> rcases hx' with rfl | rfl
      · exact ⟨0, by decide, Or.inl rfl⟩
      · exact ⟨1, by decide, Or.inl rfl⟩
      · exact ⟨5, by decide, Or.inr rfl⟩
      · exact ⟨4, by decide, Or.inr rfl⟩
    | v y x =>
      obtain ⟨hy, hx⟩ := hs
      have hx' : x = 0 ∨ x = 2 := by
        have : x ≠ 1 := by rintro rfl; simp [ringOn] at ho
        omega
      have hy' : y = 0 ∨ y = 1 := by omega
      rcases hy' with rfl | rfl <;> rcases hx' with rfl | rfl
      · exact ⟨7, by decide, Or.inr rfl⟩
      · exact ⟨2, by decide, Or.inl rfl⟩
      · exact ⟨6, by decide, Or.inr rfl⟩
      · exact ⟨3, by decide, Or.inl rfl⟩

/-- The ring obeys the rules of the example instance. -/
theorem exPb_rules : Rules exPb (segAnswer 2 2 ringOn) := by
  refine ⟨ringOn, rfl, ringLoop, ?_, tour, tour_isTour, ?_⟩
  · intro y hy x hx hb
    have hy' : y = 0 ∨ y = 1 ∨ y = 2 := by simp only [exPb] at hy; omega
    have hx' : x = 0 ∨ x = 1 ∨ x = 2 := by simp only [exPb] at hx; omega
    rcases hy' with rfl | rfl | rfl <;> rcases hx' with rfl | rfl | rfl <;> first | rfl | (exfalso; revert hb; decide)
  · intro g hg
    simp only [exPb, List.mem_cons, List.not_mem_nil, or_false] at hg
    rcases hg with rfl | rfl
    · refine ⟨7, by decide, by decide, ?_, ⟨rfl, rfl⟩, fun _ => by decide⟩
      intro j hj hm
      have : j = 0 ∨ j = 1 ∨ j = 2 ∨ j = 3 ∨ j = 4 ∨ j = 5 ∨ j = 6 ∨ j = 7 := by simp [tour] at hj; omega
      rcases this with rfl | rfl | rfl | rfl | rfl | rfl | rfl | rfl <;> first | rfl | (exfalso; revert hm; decide)
    · refine ⟨3, by decide, by decide, ?_, ⟨rfl, rfl⟩, fun h => absurd h (by decide)⟩
      intro j hj hm
      have : j = 0 ∨ j = 1 ∨ j = 2 ∨ j = 3 ∨ j = 4 ∨ j = 5 ∨ j = 6 ∨ j = 7 := by simp [tour] at hj; omega
      rcases this with rfl | rfl | rfl | rfl | rfl | rfl | rfl | rfl <;> first | rfl | (exfalso; revert hm; decide)

end Cspuz.Proofs.C11SlalomEx
