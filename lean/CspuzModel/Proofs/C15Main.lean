/-
  C15: locality of OneOf and Tupl at the level of terms, the induction over terms (`comb_local`), and the
  round-trip theorem for problem values.
-/
import CspuzModel.Proofs.C15Heads
set_option linter.unusedVariables false
namespace Cspuz.Ser
open Cspuz

theorem LocalF.mono {T T' : List PyVal → Nat → Prop} {s : SerF} {d : DeF} {P P' : Str → Prop} {ex : Bool}
    (h : LocalF T s d P ex) (hT : ∀ data i, T' data i → T data i) (hP : ∀ rest, P' rest → P rest) :
    LocalF T' s d P' ex :=
  fun data i k t hs ht pre rest hp => h data i k t hs (hT data i ht) pre rest (hP rest hp)

theorem noBoolL_of_list {d : List PyVal} {i : Nat} {l : List PyVal} (hd : noBoolL d = true)
    (h : d[i]? = some (.list l)) : noBoolL l = true := by
  have := noBoolL_getElem? d i _ hd h
  simpa [PyVal.noBool] using this

theorem noBoolL_of_tuple {d : List PyVal} {i : Nat} {l : List PyVal} (hd : noBoolL d = true)
    (h : d[i]? = some (.tuple l)) : noBoolL l = true := by
  have := noBoolL_getElem? d i _ hd h
  simpa [PyVal.noBool] using this

theorem noRoomsL_mem : ∀ (cs : List Comb), noRoomsL cs = true → ∀ c ∈ cs, noRooms c = true := by
  intro cs
  induction cs with
  | nil => intro _ c hc; cases hc
  | cons c cs ih =>
    intro h c' hc'
    simp only [noRoomsL, Bool.and_eq_true] at h
    cases hc' with
    | head => exact h.1
    | tail _ h' => exact ih h.2 c' h'

theorem getElem?_at_pre (pre rest : Str) (x : Nat) (r : Str) : (pre ++ (x :: r) ++ rest)[pre.length]? = some x := by
  simpa using getElem?_ctx pre (x :: r) rest 0 (by simp)

theorem length_ctx_le (pre t rest : Str) : pre.length ≤ (pre ++ t ++ rest).length := by simp

/-! ### OneOf -/

theorem oneOf_local_aux (env : Env) : ∀ (cs : List Comb), wfAll cs = true → distinguishable cs = true →
    noRoomsL cs = true → (∀ c ∈ cs, CombLocal c env) →
    ∀ d i k t, oneOfF (serL cs env) d i = .ok (k, t) → noBoolL d = true → TightAll cs env d i →
    ∀ pre rest, (needsNDAny cs = true → NoDigitHead rest) →
      ∃ items, oneOfF (deL cs env) (pre ++ t ++ rest) pre.length = .ok (t.length, items) ∧
        window d i k <+: items ∧ ((exactAll cs = true ∨ i + k < d.length) → items = window d i k) := by
  intro cs
  induction cs with
  | nil => intro _ _ _ _ d i k t h; simp [serL, oneOfF] at h
  | cons c cs ih =>
    intro hw hdist hnr hloc d i k t h hnb hT pre rest hP
    simp only [wfAll, Bool.and_eq_true] at hw
    simp only [noRoomsL, Bool.and_eq_true] at hnr
    simp only [TightAll] at hT
    simp only [serL, oneOfF] at h
    cases hc : ser c env d i with
    | ok r =>
      simp only [hc] at h
      cases h
      obtain ⟨items, hde, hpre, hex⟩ := hloc c (by simp) d i k t hc ⟨hnb, hT.1⟩ pre rest
        (fun hn => hP (by simp [needsNDAny, hn]))
      refine ⟨items, ?_, hpre, ?_⟩
      · simp only [deL, oneOfF, hde]
      · intro hh
        apply hex
        rcases hh with hh | hh
        · simp only [exactAll, Bool.and_eq_true] at hh; exact Or.inl hh.1
        · exact Or.inr hh
    | none =>
      simp only [hc] at h
      -- which later alternative emitted t?
      have h' := h
      rw [serL_eq_map] at h'
      obtain ⟨pre', f, post, hfs, hf, _⟩ := oneOfF_eq_ok' _ d i (k, t) h'
      have hmem : f ∈ cs.map (ser · env) := by rw [hfs]; simp
      obtain ⟨c', hc', rfl⟩ := List.mem_map.mp hmem
      have hE := emit_heads env c' (noRoomsL_mem cs hnr.2 c' hc') d i k t hf
      simp only [distinguishable, Bool.and_eq_true, List.all_eq_true] at hdist
      have hd' := hdist.1 c' hc'
      simp only [Bool.and_eq_true, Bool.not_eq_true'] at hd'
      cases ha : acceptHeads c with
      | none => simp [ha] at hd'
      | some a =>
        simp only [ha] at hd'
        cases t with
        | nil =>
          have := hE.1 rfl
          simp [this] at hd'
        | cons x r =>
          have hx := hE.2 x r rfl
          have hxa := Ranges.mem_of_disjoint hd'.2 hx
          have hrej : Rejects a (pre ++ (x :: r) ++ rest) pre.length := by
            intro y hy
            rw [getElem?_at_pre] at hy
            cases hy; exact hxa
          have hnone := accept_heads env c hw.1 a ha _ _ (length_ctx_le pre (x :: r) rest) hrej
          obtain ⟨items, hde, hpre, hex⟩ := ih hw.2 hdist.2 hnr.2 (fun c hc => hloc c (List.mem_cons_of_mem _ hc))
            d i k (x :: r) h hnb hT.2 pre rest (fun hn => hP (by simp [needsNDAny, hn]))
          refine ⟨items, ?_, hpre, ?_⟩
          · simp only [deL, oneOfF, hnone]; exact hde
          · intro hh
            apply hex
            rcases hh with hh | hh
            · simp only [exactAll, Bool.and_eq_true] at hh; exact Or.inl hh.2
            · exact Or.inr hh
    | raised e => simp [hc] at h
    | diverge => simp [hc] at h

theorem oneOf_local (env : Env) (cs : List Comb) (hw : wf (.oneOf cs) = true) (hn : noRooms (.oneOf cs) = true)
    (ih : ∀ c ∈ cs, CombLocal c env) : CombLocal (.oneOf cs) env := by
  simp only [wf, Bool.and_eq_true] at hw
  simp only [noRooms] at hn
  intro d i k t hs hg pre rest hP
  exact oneOf_local_aux env cs hw.1 hw.2 hn ih d i k t (by simpa [ser] using hs) hg.1 (by simpa [Tight] using hg.2)
    pre rest (by simpa [needsND] using hP) |> fun ⟨items, h1, h2, h3⟩ =>
      ⟨items, by simpa [de] using h1, h2, by simpa [exact] using h3⟩

/-! ### Tupl -/

theorem startsND_emit (env : Env) (c : Comb) (hn : noRooms c = true) (hs : startsND c = true)
    (d i k t) (h : ser c env d i = .ok (k, t)) : ∃ x r, t = x :: r ∧ isDigit x = false := by
  have hE := emit_heads env c hn d i k t h
  simp only [startsND, Bool.and_eq_true, Bool.not_eq_true'] at hs
  cases t with
  | nil => have := hE.1 rfl; simp [this] at hs
  | cons x r =>
    refine ⟨x, r, rfl, ?_⟩
    have := Ranges.mem_of_disjoint hs.2 (hE.2 x r rfl)
    simpa [isDigit, Ranges.mem] using this

theorem tupl_local_aux (env : Env) : ∀ (es : List Comb) (comps : List PyVal) (t : Str),
    tuplSerParts (serL es env) comps = .ok t → noBoolL comps = true → TightComps es env comps →
    wfAll es = true → exactAll es = true → followOk es = true → noRoomsL es = true →
    (∀ e ∈ es, CombLocal e env) → comps.length = es.length →
    ∀ pre rest idx ofs parts, (needsNDLast es = true → NoDigitHead rest) → pre.length = idx + ofs →
      tuplDeLoop (deL es env) (pre ++ t ++ rest) idx ofs parts = .ok (ofs + t.length, [.tuple (parts ++ comps)]) := by
  intro es
  induction es with
  | nil =>
    intro comps t h _ _ _ _ _ _ _ hlen pre rest idx ofs parts _ _
    simp [serL, tuplSerParts] at h
    subst h
    have : comps = [] := by simpa using hlen
    subst this
    simp [deL, tuplDeLoop]
  | cons e es ih =>
    intro comps t h hnb hT hw hex hfo hnr hloc hlen pre rest idx ofs parts hP hpre
    cases comps with
    | nil => simp at hlen
    | cons comp comps =>
      simp only [wfAll, exactAll, noRoomsL, Bool.and_eq_true] at hw hex hnr
      simp only [TightComps] at hT
      obtain ⟨⟨l, rfl, hk, hTl⟩, hTrest⟩ := hT
      simp only [noBoolL, PyVal.noBool, Bool.and_eq_true] at hnb
      simp only [serL, tuplSerParts, asSeq?] at h
      obtain ⟨r1, hr1, h⟩ := Outcome.bind_eq_ok.mp h
      obtain ⟨t2, ht2, h⟩ := Outcome.bind_eq_ok.mp h
      cases h
      obtain ⟨k1, t1⟩ := r1
      have hk1 : k1 = l.length := hk k1 t1 hr1
      subst hk1
      -- the continuation after this element
      have hPe : needsND e = true → NoDigitHead (t2 ++ rest) := by
        intro hne
        cases es with
        | nil =>
          simp [serL, tuplSerParts] at ht2
          subst ht2
          simpa using hP (by simp [needsNDLast, hne])
        | cons e2 es' =>
          simp only [followOk, Bool.and_eq_true, Bool.or_eq_true, Bool.not_eq_true'] at hfo
          have hs2 : startsND e2 = true := by
            rcases hfo.1 with h0 | h0
            · rw [hne] at h0; cases h0
            · exact h0
          cases comps with
          | nil => simp at hlen
          | cons comp2 comps' =>
            simp only [serL, tuplSerParts] at ht2
            split at ht2
            · simp at ht2
            · rename_i l2 _
              obtain ⟨r2, hr2, ht2⟩ := Outcome.bind_eq_ok.mp ht2
              obtain ⟨t3, _, ht2⟩ := Outcome.bind_eq_ok.mp ht2
              cases ht2
              simp only [noRoomsL, Bool.and_eq_true] at hnr
              obtain ⟨x, r, hx, hxd⟩ := startsND_emit env e2 hnr.2.1 hs2 l2 0 r2.1 r2.2 hr2
              rw [hx]
              intro c hc
              simp at hc
              subst hc
              exact hxd
      obtain ⟨items, hde, hpre', hexact⟩ := hloc e (by simp) l 0 l.length t1 hr1 ⟨hnb.1, hTl⟩ pre (t2 ++ rest) hPe
      have hitems : items = l := by
        have := hexact (Or.inl hex.1)
        simpa [window] using this
      subst hitems
      simp only [deL, tuplDeLoop]
      have hctx : pre ++ (t1 ++ t2) ++ rest = pre ++ t1 ++ (t2 ++ rest) := by simp [List.append_assoc]
      rw [hctx, ← hpre, hde]
      simp only [Outcome.bind_ok]
      have hfo' : followOk es = true := by
        cases es with
        | nil => rfl
        | cons e2 es' => simp only [followOk, Bool.and_eq_true] at hfo; exact hfo.2
      have hP' : needsNDLast es = true → NoDigitHead rest := by
        intro hn
        apply hP
        cases es with
        | nil => simp [needsNDLast] at hn
        | cons e2 es' => simpa [needsNDLast] using hn
      have := ih comps t2 ht2 hnb.2 hTrest hw.2 hex.2 hfo' hnr.2 (fun e' he' => hloc e' (List.mem_cons_of_mem _ he'))
        (by simpa using hlen) (pre ++ t1) rest idx (ofs + t1.length) (parts ++ [.list items]) hP' (by simp; omega)
      rw [show pre ++ t1 ++ (t2 ++ rest) = pre ++ t1 ++ t2 ++ rest by simp [List.append_assoc], this]
      simp [List.append_assoc]; omega

theorem tupl_local (env : Env) (es : List Comb) (hw : wf (.tupl es) = true) (hn : noRooms (.tupl es) = true)
    (ih : ∀ e ∈ es, CombLocal e env) : CombLocal (.tupl es) env := by
  simp only [wf, Bool.and_eq_true] at hw
  simp only [noRooms] at hn
  intro d i k t hs hg pre rest hP
  simp only [ser, tuplSer] at hs
  obtain ⟨v, hv, hk⟩ := withItem_eq_ok.mp hs
  cases v with
  | tuple comps =>
    simp only at hk
    split at hk
    · simp at hk
    · rename_i hlen
      obtain ⟨t', ht', heq⟩ := Outcome.bind_eq_ok.mp hk
      cases heq
      have hlen' : comps.length = es.length := by
        have : (serL es env).length = es.length := by rw [serL_eq_map]; simp
        simp at hlen; omega
      have hT : TightComps es env comps := by
        have := hg.2
        simp only [Tight] at this
        exact this comps hv
      have := tupl_local_aux env es comps t ht' (noBoolL_of_tuple hg.1 hv) hT hw.1.1 hw.1.2 hw.2 hn ih hlen'
        pre rest pre.length 0 [] (by simpa [needsND] using hP) (by simp)
      refine ⟨[.tuple comps], ?_, ?_, ?_⟩
      · simpa [de, tuplDe] using this
      · rw [window_one d i _ hv]; exact List.prefix_refl _
      · intro _; rw [window_one d i _ hv]
  | _ => simp at hk

/-! ### the induction over terms -/

theorem seq_local_comb (env : Env) (b : Comb) (n : Nat) (hw : wf (.seq b n) = true) (ih : CombLocal b env) :
    CombLocal (.seq b n) env := by
  simp only [wf, Bool.and_eq_true, Bool.or_eq_true, Bool.not_eq_true', decide_eq_true_eq] at hw
  have := seq_local (ser b env) (de b env) (Good b env) (fun rest => needsND b = true → NoDigitHead rest)
    (fun rest => needsND (.seq b n) = true → NoDigitHead rest) (exact b) ih (ser_bounded env b) n
    (fun rest h => by simpa [needsND] using h)
    (fun t'' rest _ _ => by
      rcases hw.2 with h | h
      · left; intro hn; rw [h] at hn; cases hn
      · right; exact h)
  refine (LocalF.mono this ?_ (fun _ h => h))
  intro d i hg l hl
  have := hg.2
  simp only [Tight] at this
  obtain ⟨h1, h2⟩ := this l hl
  exact ⟨h1, fun p => ⟨noBoolL_of_list hg.1 hl, h2 p⟩⟩

theorem noBoolL_append : ∀ (a b : List PyVal), noBoolL (a ++ b) = (noBoolL a && noBoolL b) := by
  intro a
  induction a with
  | nil => intro b; simp [noBoolL]
  | cons x a ih => intro b; simp [noBoolL, ih, Bool.and_assoc]

theorem noBoolL_rowsFlat : ∀ rows : List PyVal, noBoolL rows = true → noBoolL (rowsFlat rows) = true := by
  intro rows
  induction rows with
  | nil => intro _; rfl
  | cons r rows ih =>
    intro h
    simp only [noBoolL, Bool.and_eq_true] at h
    cases r <;> simp only [rowsFlat] <;> try exact ih h.2
    rename_i l
    rw [noBoolL_append]
    simp only [PyVal.noBool] at h
    simp [h.1, ih h.2]

theorem grid_local_comb (env : Env) (b : Comb) (dims : Option (Nat × Nat)) (hw : wf (.grid b dims) = true)
    (ih : CombLocal b env) : CombLocal (.grid b dims) env := by
  simp only [wf, Bool.and_eq_true, Bool.or_eq_true, Bool.not_eq_true'] at hw
  have := grid_local (ser b env) (de b env) (Good b env) (fun rest => needsND b = true → NoDigitHead rest)
    (fun rest => needsND (.grid b dims) = true → NoDigitHead rest) (exact b) ih (ser_bounded env b)
    (gridDims env dims).1 (gridDims env dims).2
    (fun rest h => by simpa [needsND] using h)
    (fun t'' rest _ _ => by
      rcases hw.2 with h | h
      · left; intro hn; rw [h] at hn; cases hn
      · right
        cases dims with
        | none => simp at h
        | some hw' => obtain ⟨hh, ww⟩ := hw'; simpa [gridDims] using h)
  refine (LocalF.mono this ?_ (fun _ h => h))
  intro d i hg rows hrows
  have := hg.2
  simp only [Tight] at this
  obtain ⟨h1, h2⟩ := this rows hrows
  exact ⟨h1, fun p => ⟨noBoolL_rowsFlat rows (noBoolL_of_list hg.1 hrows), h2 p⟩⟩

/-- **Locality of every well-formed term without `Rooms`**: by induction over the term. -/
theorem comb_local (env : Env) : ∀ c, wf c = true → noRooms c = true → CombLocal c env := by
  intro c
  induction c using Comb.ind with
  | fixStr s => intro _ _; exact fixStr_local s env
  | dict b a => intro hw _; exact dict_local b a env hw
  | spaces sp o => intro hw _; exact spaces_local sp o env hw
  | decInt => intro _ _; exact decInt_local env
  | hexInt => intro _ _; exact hexInt_local env
  | intSpaces sp mi ms => intro hw _; exact intSpaces_local sp mi ms env hw
  | multiDigit b k => intro hw _; exact multiDigit_local b k env hw
  | oneOf cs ih =>
    intro hw hn
    have hw' := hw
    simp only [wf, Bool.and_eq_true] at hw'
    exact oneOf_local env cs hw hn (fun c hc => ih c hc (wfAll_mem cs hw'.1 c hc) (noRoomsL_mem cs (by simpa [noRooms] using hn) c hc))
  | tupl es ih =>
    intro hw hn
    have hw' := hw
    simp only [wf, Bool.and_eq_true] at hw'
    exact tupl_local env es hw hn (fun c hc => ih c hc (wfAll_mem es hw'.1.1 c hc) (noRoomsL_mem es (by simpa [noRooms] using hn) c hc))
  | seq b n ih =>
    intro hw hn
    have hw' := hw
    simp only [wf, Bool.and_eq_true] at hw'
    exact seq_local_comb env b n hw (ih hw'.1.1 (by simpa [noRooms] using hn))
  | grid b dims ih =>
    intro hw hn
    have hw' := hw
    simp only [wf, Bool.and_eq_true] at hw'
    exact grid_local_comb env b dims hw (ih hw'.1.1 (by simpa [noRooms] using hn))
  | rooms s a => intro _ hn; simp [noRooms] at hn
  | valuedRooms v s a ih => intro _ hn; simp [noRooms] at hn
  | yajilinClue => intro _ _; exact yajilin_local env

end Cspuz.Ser
