/-
  C12 — unary operators, `then`, `cond` (functions and methods): pointwise meaning and rejection.
-/
import CspuzModel.Proofs.C12Bin
namespace Cspuz.Proofs.C12Then
set_option linter.unusedSimpArgs false
set_option linter.unusedVariables false
open Cspuz Cspuz.Spec Cspuz.Proofs Cspuz.Proofs.C12Elem Cspuz.Proofs.C12Disp Cspuz.Proofs.C12Bin

/-! ### unary -/

theorem eval_node1 (σ : Asg) (op : Op) (x : Expr) : eval σ (.node op [x]) = evalOp op [eval σ x] := by
  simp [eval, evalList]

theorem arr_cases {a : PyV} {k : Bool} {sh : Shape} (hk : a.arrKind? = some k) (hs : a.shape? = some sh) :
    a.cls.arrKind? = some k ∧ ∃ d, a.data? = some d := by
  rw [cls_arrKind]; exact ⟨hk, data_of_shape hs⟩

theorem unop_pointwise (o : UnOp) (a : PyV) (sh : Shape) (hk : a.arrKind? = some (unKind o))
    (hs : a.shape? = some sh) (hwf : a.wf = true) :
    ∃ r, unop o a = .ok r ∧ IsArr r (unKind o) sh ∧
      ∀ i, i < sh.size → ∃ ai ri, elem? a i = some ai ∧ elem? r i = some ri ∧
        ∀ σ va, eval σ ai = some va → eval σ ri = unSem o va := by
  obtain ⟨hc, d, hd⟩ := arr_cases hk hs
  have ca : Conf sh a := ⟨hwf, by rintro rfl; simp [PyV.arrKind?] at hk, fun s h => by rw [hs] at h; cases h; rfl⟩
  have hkind : hasKind (unKind o) a = true := by
    cases a <;> simp [PyV.arrKind?] at hk <;> subst hk <;> cases o <;> rfl
  cases o with
  | invert =>
    have hdef : a.cls.defines .invert = true := by simp [Cls.defines, hc, unKind, unarySpec]
    have hew : elementwise .not sh [a] = .ok (some (mkArr true sh (ewData .not sh [a]))) := by
      apply elementwise_ok (op := .not)
      · simpa [ewTypeCheck, Op.isCmp, hasKind, unKind] using hkind
      · intro z hz; simp at hz; subst hz; exact ca
    have : unop .invert a = .ok (mkArr true sh (ewData .not sh [a])) := by
      simp [unop, UnOp.meth, hdef, callMethod, hc, arrayMethod, hs, hd, unarySpec, unKind, hew]
    refine ⟨_, this, mkArr_isArr _ _ _ (ewData_length _ _ _), ?_⟩
    intro i hi
    refine ⟨get a i, _, (at_ok ca hi).2, elem_ewData hi, ?_⟩
    intro σ va h1
    simp only [List.map_cons, List.map_nil]
    rw [eval_node1, h1]
    cases va <;> simp [evalOp, unSem]
  | neg =>
    have hdef : a.cls.defines .neg = true := by simp [Cls.defines, hc, unKind, unarySpec]
    have hew : elementwise .neg sh [a] = .ok (some (mkArr false sh (ewData .neg sh [a]))) := by
      apply elementwise_ok (op := .neg)
      · simpa [ewTypeCheck, Op.isCmp, hasKind, unKind] using hkind
      · intro z hz; simp at hz; subst hz; exact ca
    have : unop .neg a = .ok (mkArr false sh (ewData .neg sh [a])) := by
      simp [unop, UnOp.meth, hdef, callMethod, hc, arrayMethod, hs, hd, unarySpec, unKind, hew]
    refine ⟨_, this, mkArr_isArr _ _ _ (ewData_length _ _ _), ?_⟩
    intro i hi
    refine ⟨get a i, _, (at_ok ca hi).2, elem_ewData hi, ?_⟩
    intro σ va h1
    simp only [List.map_cons, List.map_nil]
    rw [eval_node1, h1]
    cases va <;> simp [evalOp, unSem]

theorem unop_rejects (o : UnOp) (a : PyV) (hk : a.arrKind? = some (!unKind o)) :
    unop o a = .error .typeError := by
  have hc : a.cls.arrKind? = some (!unKind o) := by rw [cls_arrKind, hk]
  have hdef : a.cls.defines o.meth = false := by
    cases o <;> simp [Cls.defines, hc, unKind, unarySpec, binarySpec, UnOp.meth]
  simp [unop, hdef]

/-! ### `then` -/

def finish (r : Py (Option PyV)) : Py PyV :=
  match r with
  | .ok (some v) => .ok v
  | .ok none => .error .typeError
  | .error e => .error e

def thenShape (x y : PyV) : Option Shape :=
  if x.isBoolArr then x.shape? else if y.isBoolArr then y.shape? else none

def condShape (c t f : PyV) : Option Shape :=
  if c.isBoolArr then c.shape? else if t.isIntArr then t.shape? else if f.isIntArr then f.shape? else none

theorem thenF_eq (x y : PyV) :
    thenF x y = finish (match thenShape x y with
      | some sh => elementwise .imp sh [x, y]
      | none => makeExprV .imp [x, y]) := rfl

theorem condF_eq (c t f : PyV) :
    condF c t f = finish (match condShape c t f with
      | some sh => elementwise .ite sh [c, t, f]
      | none => makeExprV .ite [c, t, f]) := rfl

theorem kind_arr_of_shape {k : Bool} {x : PyV} {s : Shape} (hk : hasKind k x = true) (hs : x.shape? = some s) :
    x.arrKind? = some k := by
  obtain ⟨ka, sh, h1, -⟩ := arr_shape (isArr_of_shape hs)
  rw [h1, hasKind_arr h1 hk]

theorem no_arr_of_no_shape {x : PyV} (hs : x.shape? = none) : x.arrKind? = none := by
  cases x <;> simp [PyV.shape?] at hs <;> rfl

theorem shape_of_arrKind {x : PyV} {k : Bool} (h : x.arrKind? = some k) : ∃ s, x.shape? = some s := by
  cases x <;> simp [PyV.arrKind?] at h <;> exact ⟨_, rfl⟩

/-- the shape chosen by `then` is the common shape -/
theorem thenShape_eq {x y : PyV} {sh : Shape} (hx : hasKind true x = true) (hy : hasKind true y = true)
    (hsh : SameShape sh [x, y]) : thenShape x y = some sh := by
  unfold thenShape PyV.isBoolArr
  cases hsx : x.shape? with
  | some s =>
    have := (hsh.1 x (by simp)).2 s hsx
    subst this
    simp [kind_arr_of_shape hx hsx]
  | none =>
    rw [no_arr_of_no_shape hsx]
    obtain ⟨z, hz, hs⟩ := hsh.2
    simp only [List.mem_cons, List.not_mem_nil, or_false] at hz
    rcases hz with rfl | rfl
    · rw [hsx] at hs; cases hs
    · simp [kind_arr_of_shape hy hs, hs]

theorem condShape_eq {c t f : PyV} {sh : Shape} (hc : hasKind true c = true) (ht : hasKind false t = true)
    (hf : hasKind false f = true) (hsh : SameShape sh [c, t, f]) : condShape c t f = some sh := by
  unfold condShape PyV.isBoolArr PyV.isIntArr
  cases hsc : c.shape? with
  | some s =>
    have := (hsh.1 c (by simp)).2 s hsc
    subst this
    simp [kind_arr_of_shape hc hsc]
  | none =>
    rw [no_arr_of_no_shape hsc]
    cases hst : t.shape? with
    | some s =>
      have := (hsh.1 t (by simp)).2 s hst
      subst this
      simp [kind_arr_of_shape ht hst]
    | none =>
      rw [no_arr_of_no_shape hst]
      obtain ⟨z, hz, hs⟩ := hsh.2
      simp only [List.mem_cons, List.not_mem_nil, or_false] at hz
      rcases hz with rfl | rfl | rfl
      · rw [hsc] at hs; cases hs
      · rw [hst] at hs; cases hs
      · simp [kind_arr_of_shape hf hs, hs]

theorem thenF_pointwise (x y : PyV) (sh : Shape) (hx : hasKind true x = true) (hy : hasKind true y = true)
    (hsh : SameShape sh [x, y]) :
    ∃ r, thenF x y = .ok r ∧ IsArr r true sh ∧
      ∀ i, i < sh.size → ∃ xi yi ri, elem? x i = some xi ∧ elem? y i = some yi ∧ elem? r i = some ri ∧
        ∀ σ vx vy, eval σ xi = some vx → eval σ yi = some vy → eval σ ri = impSem vx vy := by
  have cx : Conf sh x := conf_of hsh (by simp) hx
  have cy : Conf sh y := conf_of hsh (by simp) hy
  rw [thenF_eq, thenShape_eq hx hy hsh]
  have := ew_result (op := .imp) (k := true) rfl hx hy cx cy
  simp only [this, finish]
  refine ⟨_, rfl, mkArr_isArr _ _ _ (ewData_length _ _ _), ?_⟩
  intro i hi
  refine ⟨get x i, get y i, _, (at_ok cx hi).2, (at_ok cy hi).2, elem_ewData hi, ?_⟩
  intro σ vx vy h1 h2
  simp only [List.map_cons, List.map_nil]
  rw [eval_node2, h1, h2]
  cases vx <;> cases vy <;> simp [evalOp, allBools, impSem]

theorem allScalars2 {x y : PyV} {es : List Expr} (h : allScalars [x, y] = some es) :
    ∃ a b, x = .scalar a ∧ y = .scalar b ∧ es = [a, b] := by
  cases x <;> cases y <;> simp [allScalars] at h
  exact ⟨_, _, rfl, rfl, h.symm⟩

theorem thenF_rejects_kind (x y : PyV) (hbad : ¬ (x.isBoolLike = true ∧ y.isBoolLike = true)) :
    thenF x y = .error .typeError := by
  rw [thenF_eq]
  cases thenShape x y with
  | some sh =>
    have : elementwise .imp sh [x, y] = .ok none := by
      apply elementwise_ni
      rw [tc2 (k := true) rfl]
      cases h1 : x.isBoolLike <;> cases h2 : y.isBoolLike <;> simp_all [hasKind]
    simp [this, finish]
  | none =>
    simp only [makeExprV]
    cases has : allScalars [x, y] with
    | none => simp [finish, Op.isBoolOp]
    | some es =>
      obtain ⟨a, b, rfl, rfl, rfl⟩ := allScalars2 has
      simp only [PyV.isBoolLike] at hbad
      have : ([a, b].all Expr.isBoolLike) = false := by
        cases h1 : a.isBoolLike <;> cases h2 : b.isBoolLike <;> simp_all
      simp [Op.isBoolOp, makeBoolExpr, Op.isCmp, this, finish, Except.map]

theorem thenF_rejects_shape (x y : PyV) (sx sy : Shape) (hx : x.isBoolLike = true) (hy : y.isBoolLike = true)
    (hsx : x.shape? = some sx) (hsy : y.shape? = some sy) (hne : sx ≠ sy) :
    thenF x y = .error .valueError := by
  have hx' : hasKind true x = true := hx
  have hy' : hasKind true y = true := hy
  have : thenShape x y = some sx := by
    simp [thenShape, PyV.isBoolArr, kind_arr_of_shape hx' hsx, hsx]
  rw [thenF_eq, this]
  have : elementwise .imp sx [x, y] = .error .valueError := by
    apply elementwise_shape_err
    · rw [tc2 (k := true) rfl, hx', hy']; rfl
    · exact ⟨y, by simp, by simp only [PyV.shapeOk, hsy]; simpa using fun h => hne h.symm⟩
  simp [this, finish]

/-! ### `cond` -/

theorem tc3 (c t f : PyV) :
    ewTypeCheck .ite [c, t, f] = .ok (c.isBoolLike && t.isIntLike && f.isIntLike) := by
  simp [ewTypeCheck, Op.isCmp]

theorem eval_node3 (σ : Asg) (op : Op) (x y z : Expr) :
    eval σ (.node op [x, y, z]) = evalOp op [eval σ x, eval σ y, eval σ z] := by
  simp [eval, evalList]

theorem condF_pointwise (c t f : PyV) (sh : Shape) (hc : hasKind true c = true) (ht : hasKind false t = true)
    (hf : hasKind false f = true) (hsh : SameShape sh [c, t, f]) :
    ∃ r, condF c t f = .ok r ∧ IsArr r false sh ∧
      ∀ i, i < sh.size → ∃ ci ti fi ri, elem? c i = some ci ∧ elem? t i = some ti ∧ elem? f i = some fi ∧
        elem? r i = some ri ∧
        ∀ σ vc vt vf, eval σ ci = some vc → eval σ ti = some vt → eval σ fi = some vf →
          eval σ ri = iteSem vc vt vf := by
  have cc : Conf sh c := conf_of hsh (by simp) hc
  have ct : Conf sh t := conf_of hsh (by simp) ht
  have cf : Conf sh f := conf_of hsh (by simp) hf
  rw [condF_eq, condShape_eq hc ht hf hsh]
  have : elementwise .ite sh [c, t, f] = .ok (some (mkArr false sh (ewData .ite sh [c, t, f]))) := by
    apply elementwise_ok (op := .ite)
    · rw [tc3]
      simp only [hasKind, if_true, Bool.false_eq_true, if_false] at hc ht hf
      rw [hc, ht, hf]; rfl
    · intro z hz
      simp only [List.mem_cons, List.not_mem_nil, or_false] at hz
      rcases hz with rfl | rfl | rfl <;> assumption
  simp only [this, finish]
  refine ⟨_, rfl, mkArr_isArr _ _ _ (ewData_length _ _ _), ?_⟩
  intro i hi
  refine ⟨get c i, get t i, get f i, _, (at_ok cc hi).2, (at_ok ct hi).2, (at_ok cf hi).2, elem_ewData hi, ?_⟩
  intro σ vc vt vf h1 h2 h3
  simp only [List.map_cons, List.map_nil]
  rw [eval_node3, h1, h2, h3]
  cases vc <;> cases vt <;> cases vf <;> simp [evalOp, iteSem]

theorem allScalars3 {x y z : PyV} {es : List Expr} (h : allScalars [x, y, z] = some es) :
    ∃ a b c, x = .scalar a ∧ y = .scalar b ∧ z = .scalar c ∧ es = [a, b, c] := by
  cases x <;> cases y <;> cases z <;> simp [allScalars] at h
  exact ⟨_, _, _, rfl, rfl, rfl, h.symm⟩

theorem condF_rejects_kind (c t f : PyV)
    (hbad : ¬ (c.isBoolLike = true ∧ t.isIntLike = true ∧ f.isIntLike = true)) :
    condF c t f = .error .typeError := by
  rw [condF_eq]
  cases condShape c t f with
  | some sh =>
    have : elementwise .ite sh [c, t, f] = .ok none := by
      apply elementwise_ni
      rw [tc3]
      cases h1 : c.isBoolLike <;> cases h2 : t.isIntLike <;> cases h3 : f.isIntLike <;> simp_all
    simp [this, finish]
  | none =>
    simp only [makeExprV]
    cases has : allScalars [c, t, f] with
    | none => simp [finish, Op.isBoolOp, Op.isIntOp]
    | some es =>
      obtain ⟨a, b, d, rfl, rfl, rfl, rfl⟩ := allScalars3 has
      simp only [PyV.isBoolLike, PyV.isIntLike] at hbad
      have : (a.isBoolLike && b.isIntLike && d.isIntLike) = false := by
        cases h1 : a.isBoolLike <;> cases h2 : b.isIntLike <;> cases h3 : d.isIntLike <;> simp_all
      simp [Op.isBoolOp, makeIntExpr, this, finish, Except.map]

theorem condF_rejects_shape (c t f : PyV) (hc : c.isBoolLike = true) (ht : t.isIntLike = true)
    (hf : f.isIntLike = true) (hmm : ShapeMismatch [c, t, f]) :
    condF c t f = .error .valueError := by
  have hc' : hasKind true c = true := hc
  have ht' : hasKind false t = true := ht
  have hf' : hasKind false f = true := hf
  -- the chosen shape is the shape of one operand; another array operand differs from it
  have key : ∀ sh, condShape c t f = some sh → ∃ z ∈ [c, t, f], z.shapeOk sh = false := by
    intro sh hsh
    obtain ⟨x, hx, y, hy, s, u, hs, hu, hne⟩ := hmm
    by_cases h : s = sh
    · subst h
      exact ⟨y, hy, by simp only [PyV.shapeOk, hu]; simpa using fun h => hne h.symm⟩
    · exact ⟨x, hx, by simp only [PyV.shapeOk, hs]; simpa using h⟩
  have hsome : ∃ sh, condShape c t f = some sh := by
    obtain ⟨x, hx, y, hy, s, u, hs, hu, hne⟩ := hmm
    unfold condShape PyV.isBoolArr PyV.isIntArr
    cases hsc : c.shape? with
    | some s' => simp [kind_arr_of_shape hc' hsc]
    | none =>
      rw [no_arr_of_no_shape hsc]
      cases hst : t.shape? with
      | some s' => simp [kind_arr_of_shape ht' hst]
      | none =>
        rw [no_arr_of_no_shape hst]
        cases hsf : f.shape? with
        | some s' => simp [kind_arr_of_shape hf' hsf]
        | none =>
          simp only [List.mem_cons, List.not_mem_nil, or_false] at hx
          rcases hx with rfl | rfl | rfl <;> simp_all
  obtain ⟨sh, hsh⟩ := hsome
  rw [condF_eq, hsh]
  have : elementwise .ite sh [c, t, f] = .error .valueError := by
    apply elementwise_shape_err
    · rw [tc3, hc, ht, hf]; rfl
    · exact key sh hsh
  simp [this, finish]

/-! ### the method forms `x.then(y)`, `c.cond(t, f)` coincide with the functions when an array is involved -/

theorem finish_map (r : Py (Option PyV)) : (finish r).map some = raiseNI r := by
  cases r with
  | error e => rfl
  | ok o => cases o <;> rfl

theorem not_exprLike_of_arr {y : PyV} (h : y.isArr = true) : y.isBoolExprLike = false ∧ y.isIntExprLike = false := by
  cases y <;> simp [PyV.isArr, PyV.arrKind?] at h <;> exact ⟨rfl, rfl⟩

theorem thenM_eq (x y : PyV) (hdef : x.cls.defines .then_ = true) (harr : x.isArr = true ∨ y.isArr = true) :
    callMethod .then_ x [y] = (thenF x y).map some := by
  cases x with
  | other => simp [PyV.cls, Cls.defines, Cls.arrKind?, Cls.exprKind?, Cls.isBuiltinNum] at hdef
  | arr1 b d =>
    cases b
    · simp [PyV.cls, Cls.defines, Cls.arrKind?, unarySpec, binarySpec] at hdef
    · rw [thenF_eq, finish_map]
      simp [callMethod, PyV.cls, Cls.arrKind?, arrayMethod, Cls.defines, unarySpec, binarySpec, PyV.shape?, PyV.data?, thenShape,
        PyV.isBoolArr, PyV.arrKind?]
  | arr2 b h w d =>
    cases b
    · simp [PyV.cls, Cls.defines, Cls.arrKind?, unarySpec, binarySpec] at hdef
    · rw [thenF_eq, finish_map]
      simp [callMethod, PyV.cls, Cls.arrKind?, arrayMethod, Cls.defines, unarySpec, binarySpec, PyV.shape?, PyV.data?, thenShape,
        PyV.isBoolArr, PyV.arrKind?]
  | scalar e =>
    have hy : y.isArr = true := by
      rcases harr with h | h
      · simp [PyV.isArr, PyV.arrKind?] at h
      · exact h
    have hne := (not_exprLike_of_arr hy).1
    cases e with
    | bvar id => simp [callMethod, PyV.cls, Cls.arrKind?, Cls.exprKind?, exprMethod, hne, Cls.defines, unarySpec, binarySpec]
    | node op args =>
      rcases cls_node op args with h | h | h <;> rw [h] at hdef
      · simp [callMethod, h, Cls.arrKind?, Cls.exprKind?, exprMethod, hne, Cls.defines, unarySpec, binarySpec]
      · simp [Cls.defines, Cls.arrKind?, Cls.exprKind?, unarySpec, binarySpec] at hdef
      · simp [Cls.defines, Cls.arrKind?, Cls.exprKind?, Cls.isBuiltinNum] at hdef
    | ivar id => simp [PyV.cls, Cls.defines, Cls.arrKind?, Cls.exprKind?, unarySpec, binarySpec] at hdef
    | litB b => simp [PyV.cls, Cls.defines, Cls.arrKind?, Cls.exprKind?, Cls.isBuiltinNum] at hdef
    | litI n => simp [PyV.cls, Cls.defines, Cls.arrKind?, Cls.exprKind?, Cls.isBuiltinNum] at hdef
    | litNone => simp [PyV.cls, Cls.defines, Cls.arrKind?, Cls.exprKind?, Cls.isBuiltinNum] at hdef

theorem condM_eq (c t f : PyV) (hdef : c.cls.defines .cond = true)
    (harr : c.isArr = true ∨ t.isArr = true ∨ f.isArr = true) :
    callMethod .cond c [t, f] = (condF c t f).map some := by
  cases c with
  | other => simp [PyV.cls, Cls.defines, Cls.arrKind?, Cls.exprKind?, Cls.isBuiltinNum] at hdef
  | arr1 b d =>
    cases b
    · simp [PyV.cls, Cls.defines, Cls.arrKind?, unarySpec, binarySpec] at hdef
    · rw [condF_eq, finish_map]
      simp [callMethod, PyV.cls, Cls.arrKind?, arrayMethod, Cls.defines, unarySpec, binarySpec, PyV.shape?, PyV.data?, condShape,
        PyV.isBoolArr, PyV.arrKind?]
  | arr2 b h w d =>
    cases b
    · simp [PyV.cls, Cls.defines, Cls.arrKind?, unarySpec, binarySpec] at hdef
    · rw [condF_eq, finish_map]
      simp [callMethod, PyV.cls, Cls.arrKind?, arrayMethod, Cls.defines, unarySpec, binarySpec, PyV.shape?, PyV.data?, condShape,
        PyV.isBoolArr, PyV.arrKind?]
  | scalar e =>
    have hne : (t.isIntExprLike && f.isIntExprLike) = false := by
      rcases harr with h | h | h
      · simp [PyV.isArr, PyV.arrKind?] at h
      · simp [(not_exprLike_of_arr h).2]
      · simp [(not_exprLike_of_arr h).2]
    cases e with
    | bvar id => simp [callMethod, PyV.cls, Cls.arrKind?, Cls.exprKind?, exprMethod, hne, Cls.defines, unarySpec, binarySpec]
    | node op args =>
      rcases cls_node op args with h | h | h <;> rw [h] at hdef
      · simp [callMethod, h, Cls.arrKind?, Cls.exprKind?, exprMethod, hne, Cls.defines, unarySpec, binarySpec]
      · simp [Cls.defines, Cls.arrKind?, Cls.exprKind?, unarySpec, binarySpec] at hdef
      · simp [Cls.defines, Cls.arrKind?, Cls.exprKind?, Cls.isBuiltinNum] at hdef
    | ivar id => simp [PyV.cls, Cls.defines, Cls.arrKind?, Cls.exprKind?, unarySpec, binarySpec] at hdef
    | litB b => simp [PyV.cls, Cls.defines, Cls.arrKind?, Cls.exprKind?, Cls.isBuiltinNum] at hdef
    | litI n => simp [PyV.cls, Cls.defines, Cls.arrKind?, Cls.exprKind?, Cls.isBuiltinNum] at hdef
    | litNone => simp [PyV.cls, Cls.defines, Cls.arrKind?, Cls.exprKind?, Cls.isBuiltinNum] at hdef

/-! ### packaging -/

theorem isArr_of_sameShape {sh : Shape} {xs : List PyV} (h : SameShape sh xs) : ∃ x ∈ xs, x.isArr = true := by
  obtain ⟨x, hx, hs⟩ := h.2
  exact ⟨x, hx, isArr_of_shape hs⟩

theorem pointwise_all :
  (∀ (o : BinOp) (k : Bool) (a b : PyV) (sh : Shape),
    accepts o k = true → hasKind k a = true → hasKind k b = true → SameShape sh [a, b] →
    ∃ r, binop o a b = .ok r ∧ IsArr r (resultKind o) sh ∧
      ∀ i, i < sh.size → ∃ ai bi ri, elem? a i = some ai ∧ elem? b i = some bi ∧ elem? r i = some ri ∧
        ∀ σ va vb, eval σ ai = some va → eval σ bi = some vb → eval σ ri = binSem o k va vb) ∧
  (∀ (o : UnOp) (a : PyV) (sh : Shape),
    a.arrKind? = some (unKind o) → a.shape? = some sh → a.wf = true →
    ∃ r, unop o a = .ok r ∧ IsArr r (unKind o) sh ∧
      ∀ i, i < sh.size → ∃ ai ri, elem? a i = some ai ∧ elem? r i = some ri ∧
        ∀ σ va, eval σ ai = some va → eval σ ri = unSem o va) ∧
  (∀ (x y : PyV) (sh : Shape),
    hasKind true x = true → hasKind true y = true → SameShape sh [x, y] →
    ∃ r, thenF x y = .ok r ∧ (x.cls.defines .then_ = true → callMethod .then_ x [y] = .ok (some r)) ∧
      IsArr r true sh ∧
      ∀ i, i < sh.size → ∃ xi yi ri, elem? x i = some xi ∧ elem? y i = some yi ∧ elem? r i = some ri ∧
        ∀ σ vx vy, eval σ xi = some vx → eval σ yi = some vy → eval σ ri = impSem vx vy) ∧
  (∀ (c t f : PyV) (sh : Shape),
    hasKind true c = true → hasKind false t = true → hasKind false f = true → SameShape sh [c, t, f] →
    ∃ r, condF c t f = .ok r ∧ (c.cls.defines .cond = true → callMethod .cond c [t, f] = .ok (some r)) ∧
      IsArr r false sh ∧
      ∀ i, i < sh.size → ∃ ci ti fi ri, elem? c i = some ci ∧ elem? t i = some ti ∧ elem? f i = some fi ∧
        elem? r i = some ri ∧
        ∀ σ vc vt vf, eval σ ci = some vc → eval σ ti = some vt → eval σ fi = some vf →
          eval σ ri = iteSem vc vt vf) := by
  refine ⟨binop_pointwise, unop_pointwise, ?_, ?_⟩
  · intro x y sh hx hy hsh
    obtain ⟨r, hr, harr, hel⟩ := thenF_pointwise x y sh hx hy hsh
    refine ⟨r, hr, ?_, harr, hel⟩
    intro hdef
    obtain ⟨z, hz, hza⟩ := isArr_of_sameShape hsh
    simp only [List.mem_cons, List.not_mem_nil, or_false] at hz
    rw [thenM_eq x y hdef (by rcases hz with rfl | rfl <;> simp [hza]), hr]; rfl
  · intro c t f sh hc ht hf hsh
    obtain ⟨r, hr, harr, hel⟩ := condF_pointwise c t f sh hc ht hf hsh
    refine ⟨r, hr, ?_, harr, hel⟩
    intro hdef
    obtain ⟨z, hz, hza⟩ := isArr_of_sameShape hsh
    simp only [List.mem_cons, List.not_mem_nil, or_false] at hz
    rw [condM_eq c t f hdef (by rcases hz with rfl | rfl | rfl <;> simp [hza]), hr]; rfl

theorem rejects_all :
  (∀ (o : BinOp) (a b : PyV), (a.isArr = true ∨ b.isArr = true) → (o ≠ .eq ∧ o ≠ .ne) →
    (∀ k, accepts o k = true → ¬ (hasKind k a = true ∧ hasKind k b = true)) →
    binop o a b = .error .typeError) ∧
  (∀ (o : BinOp) (k : Bool) (a b : PyV) (sa sb : Shape), accepts o k = true →
    hasKind k a = true → hasKind k b = true → a.shape? = some sa → b.shape? = some sb → sa ≠ sb →
    binop o a b = .error .valueError) ∧
  (∀ (o : UnOp) (a : PyV), a.arrKind? = some (!unKind o) → unop o a = .error .typeError) ∧
  (∀ (x y : PyV), ¬ (x.isBoolLike = true ∧ y.isBoolLike = true) →
    thenF x y = .error .typeError ∧
    ((x.isArr = true ∨ y.isArr = true) → x.cls.defines .then_ = true →
      callMethod .then_ x [y] = .error .typeError)) ∧
  (∀ (x y : PyV) (sx sy : Shape), x.isBoolLike = true → y.isBoolLike = true →
    x.shape? = some sx → y.shape? = some sy → sx ≠ sy →
    thenF x y = .error .valueError ∧
    (x.cls.defines .then_ = true → callMethod .then_ x [y] = .error .valueError)) ∧
  (∀ (c t f : PyV), ¬ (c.isBoolLike = true ∧ t.isIntLike = true ∧ f.isIntLike = true) →
    condF c t f = .error .typeError ∧
    ((c.isArr = true ∨ t.isArr = true ∨ f.isArr = true) → c.cls.defines .cond = true →
      callMethod .cond c [t, f] = .error .typeError)) ∧
  (∀ (c t f : PyV), c.isBoolLike = true → t.isIntLike = true → f.isIntLike = true →
    ShapeMismatch [c, t, f] →
    condF c t f = .error .valueError ∧
    (c.cls.defines .cond = true → callMethod .cond c [t, f] = .error .valueError)) := by
  refine ⟨binop_rejects_kind, binop_rejects_shape, unop_rejects, ?_, ?_, ?_, ?_⟩
  · intro x y hbad
    have h := thenF_rejects_kind x y hbad
    exact ⟨h, fun harr hdef => by rw [thenM_eq x y hdef harr, h]; rfl⟩
  · intro x y sx sy hx hy hsx hsy hne
    have h := thenF_rejects_shape x y sx sy hx hy hsx hsy hne
    exact ⟨h, fun hdef => by rw [thenM_eq x y hdef (.inl (isArr_of_shape hsx)), h]; rfl⟩
  · intro c t f hbad
    have h := condF_rejects_kind c t f hbad
    exact ⟨h, fun harr hdef => by rw [condM_eq c t f hdef harr, h]; rfl⟩
  · intro c t f hc ht hf hmm
    have h := condF_rejects_shape c t f hc ht hf hmm
    refine ⟨h, fun hdef => ?_⟩
    have harr : c.isArr = true ∨ t.isArr = true ∨ f.isArr = true := by
      obtain ⟨x, hx, _, _, s, _, hs, _, _⟩ := hmm
      simp only [List.mem_cons, List.not_mem_nil, or_false] at hx
      have := isArr_of_shape hs
      rcases hx with rfl | rfl | rfl <;> simp [this]
    rw [condM_eq c t f hdef harr, h]; rfl

end Cspuz.Proofs.C12Then
