/-
  C08, diagonal encoding, layer L3 (completeness of the rank range): if no two active cells are
  adjacent and the diagonal graph (with the outside vertex) is a forest, then ranks in
  `[0, (h*w-1)//2]` exist.

  Construction: root every tree at the outside vertex if it touches the border, else at a chosen cell;
  `lev` = distance from the top cell of the tree; rank := `lev + (row + lev) % 2` on active cells and
  `row % 2` on inactive ones.  All ranks are ≡ row (mod 2), so diagonal pairs differ; along a tree edge
  `(row + lev) % 2` is constant, so ranks increase with the level.  Bound: a cell of level `k` has `k`
  ancestors of levels `1 … k`, all interior and active; interior active cells, their right neighbours
  (inactive) and four cells of the first and last row are pairwise different, so `2 k + 4 ≤ h w`.
-/
import Mathlib.Combinatorics.SimpleGraph.Acyclic
import Mathlib.Combinatorics.SimpleGraph.Metric
import Mathlib.Data.Finset.Prod
import CspuzModel.Spec.C08Spec
import CspuzModel.Proofs.C04L2
import CspuzModel.Proofs.C04Prim
import CspuzModel.Proofs.C09L2
namespace Cspuz.Proofs.C08DiagL3
open Cspuz Cspuz.Spec SimpleGraph

/-! ### forests rooted at a distinguished vertex where possible -/
section Rooted
variable {V : Type} (F : SimpleGraph V) (o : V)

open Classical in
/-- root of the component of `v`: `o` if it is in that component, else a chosen vertex -/
noncomputable def rt (v : V) : V := if F.Reachable o v then o else (F.connectedComponentMk v).out

theorem rt_reach (v : V) : F.Reachable (rt F o v) v := by
  unfold rt
  split
  · assumption
  · exact ConnectedComponent.exact (Quot.out_eq _)

theorem rt_of_reach {v : V} (h : F.Reachable o v) : rt F o v = o := by
  unfold rt; rw [if_pos h]

theorem rt_adj {v w : V} (h : F.Adj v w) : rt F o v = rt F o w := by
  unfold rt
  have hc : F.connectedComponentMk v = F.connectedComponentMk w :=
    ConnectedComponent.sound h.reachable
  by_cases hv : F.Reachable o v
  · rw [if_pos hv, if_pos (hv.trans h.reachable)]
  · rw [if_neg hv, if_neg (fun hw => hv (hw.trans h.reachable.symm)), hc]

noncomputable def dp (v : V) : Nat := F.dist (rt F o v) v

theorem dp_adj (hF : F.IsAcyclic) {v w : V} (h : F.Adj v w) :
    dp F o v = dp F o w + 1 ∨ dp F o w = dp F o v + 1 := by
  unfold dp
  rw [← rt_adj F o h]
  exact hF.dist_eq_dist_add_one_of_adj_of_reachable _ h (rt_reach F o v)

theorem dp_parent_unique (hF : F.IsAcyclic) {v w w' : V} (hw : F.Adj v w) (hw' : F.Adj v w')
    (h1 : dp F o w < dp F o v) (h2 : dp F o w' < dp F o v) : w = w' := by
  unfold dp at h1 h2
  rw [← rt_adj F o hw] at h1
  rw [← rt_adj F o hw'] at h2
  have r := rt_reach F o v
  exact C04L2.tree_parent_unique hF (r.trans hw.reachable) (r.trans hw'.reachable) hw hw' h1 h2

theorem dp_exists_parent {v : V} (hne : v ≠ rt F o v) :
    ∃ w, F.Adj v w ∧ dp F o w < dp F o v := by
  obtain ⟨w, hw, hlt⟩ := C04L2.exists_closer (rt_reach F o v) hne
  refine ⟨w, hw, ?_⟩
  unfold dp
  rw [← rt_adj F o hw]
  exact hlt

end Rooted

/-! ### the diagonal graph -/
section Diag
variable {h w : Nat} {act : Nat → Bool}

/-- level of an active cell in its tree (`0` for the cell next to the outside vertex / the root) -/
noncomputable def lev (h w : Nat) (act : Nat → Bool) (c : Fin h × Fin w) : Nat :=
  dp (diagGraph h w act) none (some c) -
    (if rt (diagGraph h w act) none (some c) = none then 1 else 0)

theorem dp_pos {c : Fin h × Fin w} (hr : rt (diagGraph h w act) none (some c) = none) :
    1 ≤ dp (diagGraph h w act) none (some c) := by
  have hre := rt_reach (diagGraph h w act) none (some c)
  unfold dp
  rw [hr] at hre ⊢
  exact hre.pos_dist_of_ne (by simp)

theorem lev_adj (hF : (diagGraph h w act).IsAcyclic) {c d : Fin h × Fin w}
    (hadj : (diagGraph h w act).Adj (some c) (some d)) :
    (lev h w act c = lev h w act d + 1 ∨ lev h w act d = lev h w act c + 1) ∧
    (lev h w act d < lev h w act c ↔
      dp (diagGraph h w act) none (some d) < dp (diagGraph h w act) none (some c)) := by
  have h1 := dp_adj (diagGraph h w act) none hF hadj
  have h2 := rt_adj (diagGraph h w act) none hadj
  unfold lev
  rw [← h2]
  by_cases hr : rt (diagGraph h w act) none (some c) = none
  · have p1 := dp_pos hr
    have p2 := dp_pos (h2 ▸ hr)
    simp only [hr, if_true]
    omega
  · simp only [hr, if_false]
    omega

theorem border_lev0 {c : Fin h × Fin w} (ha : act (c.1.1 * w + c.2.1) = true) (hb : onBorder c) :
    lev h w act c = 0 := by
  have hadj : (diagGraph h w act).Adj none (some c) := ⟨ha, hb⟩
  have hr : rt (diagGraph h w act) none (some c) = none := rt_of_reach _ _ hadj.reachable
  have hd : (diagGraph h w act).dist none (some c) = 1 := dist_eq_one_iff_adj.2 hadj
  unfold lev dp
  rw [hr, hd]
  simp

open Classical in
/-- the active cells that are not on the outer ring -/
noncomputable def interior (h w : Nat) (act : Nat → Bool) : Finset (Fin h × Fin w) :=
  Finset.univ.filter fun c => act (c.1.1 * w + c.2.1) = true ∧ ¬ onBorder c

/-- a cell of level `k` has `k` distinct interior active ancestors (of levels `1 … k`) -/
theorem lev_chain (hF : (diagGraph h w act).IsAcyclic) :
    ∀ (k : Nat) (c : Fin h × Fin w), act (c.1.1 * w + c.2.1) = true → lev h w act c = k →
      ∃ T : Finset (Fin h × Fin w), T ⊆ interior h w act ∧ T.card = k ∧
        ∀ a ∈ T, lev h w act a ≤ k := by
  classical
  intro k
  induction k with
  | zero => intro c _ _; exact ⟨∅, by simp, rfl, by simp⟩
  | succ k ih =>
    intro c ha hk
    have hnb : ¬ onBorder c := by
      intro hb
      rw [border_lev0 ha hb] at hk
      omega
    have hne : (some c : DCell h w) ≠ rt (diagGraph h w act) none (some c) := by
      intro he
      by_cases hr : rt (diagGraph h w act) none (some c) = none
      · rw [hr] at he; cases he
      · have : dp (diagGraph h w act) none (some c) = 0 := by
          unfold dp
          rw [← he]
          exact dist_self
        unfold lev at hk
        omega
    obtain ⟨v, hv, hdp⟩ := dp_exists_parent (diagGraph h w act) none hne
    match v, hv, hdp with
    | none, hv, _ => exact absurd hv.2 hnb
    | some d, hv, hdp =>
      obtain ⟨hl1, hl2⟩ := lev_adj hF hv
      have hld : lev h w act d = k := by
        have := hl2.2 hdp
        omega
      obtain ⟨T, hT1, hT2, hT3⟩ := ih d hv.2.1 hld
      have hcT : c ∉ T := by
        intro hc
        have := hT3 c hc
        omega
      refine ⟨insert c T, ?_, ?_, ?_⟩
      · intro a ha'
        rcases Finset.mem_insert.1 ha' with rfl | ha'
        · simp only [interior, Finset.mem_filter, Finset.mem_univ, true_and]
          exact ⟨ha, hnb⟩
        · exact hT1 ha'
      · rw [Finset.card_insert_of_notMem hcT, hT2]
      · intro a ha'
        rcases Finset.mem_insert.1 ha' with rfl | ha'
        · omega
        · have := hT3 a ha'
          omega

theorem lev_le_card (hF : (diagGraph h w act).IsAcyclic) (c : Fin h × Fin w)
    (ha : act (c.1.1 * w + c.2.1) = true) : lev h w act c ≤ (interior h w act).card := by
  obtain ⟨T, hT1, hT2, -⟩ := lev_chain hF _ c ha rfl
  rw [← hT2]
  exact Finset.card_le_card hT1

/-- interior active cells, their right neighbours and four corner-row cells are all different -/
theorem interior_card (hh : 2 ≤ h) (hw : 2 ≤ w) (hNA : NoAdjacentActive (Graph.grid h w) act) :
    2 * (interior h w act).card + 4 ≤ h * w := by
  classical
  have hA : ∀ c ∈ interior h w act, act (c.1.1 * w + c.2.1) = true ∧
      0 < c.1.1 ∧ c.1.1 + 1 < h ∧ 0 < c.2.1 ∧ c.2.1 + 1 < w := by
    intro c hc
    simp only [interior, Finset.mem_filter, Finset.mem_univ, true_and] at hc
    obtain ⟨hc1, hc2⟩ := hc
    unfold onBorder at hc2
    have hc : act (c.1.1 * w + c.2.1) = true ∧
        ¬ (c.1.1 = 0 ∨ c.1.1 + 1 = h ∨ c.2.1 = 0 ∨ c.2.1 + 1 = w) := ⟨hc1, hc2⟩
    have := c.1.2
    have := c.2.2
    exact ⟨hc.1, by omega, by omega, by omega, by omega⟩
  let f1 : Fin h × Fin w → ℕ × ℕ := fun c => (c.1.1, c.2.1)
  let f2 : Fin h × Fin w → ℕ × ℕ := fun c => (c.1.1, c.2.1 + 1)
  have c1 : ((interior h w act).image f1).card = (interior h w act).card :=
    Finset.card_image_of_injective _ (by
      intro a b hab
      simp only [f1, Prod.mk.injEq] at hab
      exact Prod.ext (Fin.ext hab.1) (Fin.ext hab.2))
  have c2 : ((interior h w act).image f2).card = (interior h w act).card :=
    Finset.card_image_of_injective _ (by
      intro a b hab
      simp only [f2, Prod.mk.injEq] at hab
      exact Prod.ext (Fin.ext hab.1) (Fin.ext (by omega)))
  let B1 : Finset (ℕ × ℕ) := {(0, 0), (0, 1)}
  let B2 : Finset (ℕ × ℕ) := {(h - 1, 0), (h - 1, 1)}
  have cb1 : B1.card = 2 := Finset.card_pair (by simp)
  have cb2 : B2.card = 2 := Finset.card_pair (by simp)
  have m1 : ∀ p ∈ (interior h w act).image f1, 0 < p.1 ∧ p.1 + 1 < h ∧ p.2 < w := by
    intro p hp
    obtain ⟨c, hc, rfl⟩ := Finset.mem_image.1 hp
    have := hA c hc
    simp only [f1]; omega
  have m2 : ∀ p ∈ (interior h w act).image f2, 0 < p.1 ∧ p.1 + 1 < h ∧ p.2 < w := by
    intro p hp
    obtain ⟨c, hc, rfl⟩ := Finset.mem_image.1 hp
    have := hA c hc
    simp only [f2]; omega
  have d12 : Disjoint ((interior h w act).image f1) ((interior h w act).image f2) := by
    rw [Finset.disjoint_left]
    intro p hp1 hp2
    obtain ⟨c, hc, rfl⟩ := Finset.mem_image.1 hp1
    obtain ⟨d, hd, hdc⟩ := Finset.mem_image.1 hp2
    simp only [f1, f2, Prod.mk.injEq] at hdc
    have hc' := hA c hc
    have hd' := hA d hd
    refine hNA (d.1.1 * w + d.2.1, d.1.1 * w + (d.2.1 + 1))
      ((C04Prim.mem_grid_edges h w _ _).2
        ⟨d.1.1, d.1.2, d.2.1, d.2.2, Or.inl ⟨by omega, rfl, rfl⟩⟩) ⟨hd'.1, ?_⟩
    rw [hdc.1, hdc.2]
    exact hc'.1
  have d3 : Disjoint ((interior h w act).image f1 ∪ (interior h w act).image f2) B1 := by
    rw [Finset.disjoint_left]
    intro p hp hb
    have hp' : 0 < p.1 := by
      rcases Finset.mem_union.1 hp with hp | hp
      · exact (m1 p hp).1
      · exact (m2 p hp).1
    simp only [B1, Finset.mem_insert, Finset.mem_singleton] at hb
    rcases hb with rfl | rfl <;> simp at hp'
  have d4 : Disjoint ((interior h w act).image f1 ∪ (interior h w act).image f2 ∪ B1) B2 := by
    rw [Finset.disjoint_left]
    intro p hp hb
    have hp' : p.1 + 1 < h := by
      rcases Finset.mem_union.1 hp with hp | hp
      · rcases Finset.mem_union.1 hp with hp | hp
        · exact (m1 p hp).2.1
        · exact (m2 p hp).2.1
      · simp only [B1, Finset.mem_insert, Finset.mem_singleton] at hp
        rcases hp with rfl | rfl <;> (simp only; omega)
    simp only [B2, Finset.mem_insert, Finset.mem_singleton] at hb
    rcases hb with rfl | rfl <;> (simp only at hp'; omega)
  have hsub : (interior h w act).image f1 ∪ (interior h w act).image f2 ∪ B1 ∪ B2 ⊆
      Finset.range h ×ˢ Finset.range w := by
    intro p hp
    rw [Finset.mem_product, Finset.mem_range, Finset.mem_range]
    rcases Finset.mem_union.1 hp with hp | hp
    · rcases Finset.mem_union.1 hp with hp | hp
      · rcases Finset.mem_union.1 hp with hp | hp
        · have := m1 p hp; omega
        · have := m2 p hp; omega
      · simp only [B1, Finset.mem_insert, Finset.mem_singleton] at hp
        rcases hp with rfl | rfl <;> (simp only; omega)
    · simp only [B2, Finset.mem_insert, Finset.mem_singleton] at hp
      rcases hp with rfl | rfl <;> (simp only; omega)
  have := Finset.card_le_card hsub
  rw [Finset.card_union_of_disjoint d4, Finset.card_union_of_disjoint d3,
    Finset.card_union_of_disjoint d12, c1, c2, cb1, cb2, Finset.card_product, Finset.card_range,
    Finset.card_range] at this
  omega

/-! ### the certificate -/

/-- the rank of the construction -/
noncomputable def rankN (h w : Nat) (act : Nat → Bool) (y x : Nat) : Nat :=
  if hy : y < h then
    if hx : x < w then
      (if act (y * w + x) = true then
        lev h w act (⟨y, hy⟩, ⟨x, hx⟩) + (y + lev h w act (⟨y, hy⟩, ⟨x, hx⟩)) % 2
      else y % 2)
    else 0
  else 0

theorem rankN_parity {y x : Nat} (hy : y < h) (hx : x < w) : rankN h w act y x % 2 = y % 2 := by
  unfold rankN
  rw [dif_pos hy, dif_pos hx]
  split <;> omega

theorem rankN_active (c : Fin h × Fin w) (ha : act (c.1.1 * w + c.2.1) = true) :
    rankN h w act c.1.1 c.2.1 = lev h w act c + (c.1.1 + lev h w act c) % 2 := by
  unfold rankN
  rw [dif_pos c.1.2, dif_pos c.2.2, if_pos ha]

/-- among adjacent active cells, a lower rank means a lower level -/
theorem rank_lt_iff (hF : (diagGraph h w act).IsAcyclic) {c d : Fin h × Fin w}
    (hadj : (diagGraph h w act).Adj (some c) (some d))
    (hlt : rankN h w act d.1.1 d.2.1 < rankN h w act c.1.1 c.2.1) :
    dp (diagGraph h w act) none (some d) < dp (diagGraph h w act) none (some c) := by
  obtain ⟨hl1, hl2⟩ := lev_adj hF hadj
  rw [rankN_active c hadj.1, rankN_active d hadj.2.1] at hlt
  have hrow := hadj.2.2.1
  rw [← hl2]
  omega

theorem diag_complete (hh : 2 ≤ h) (hw : 2 ≤ w) (hNA : NoAdjacentActive (Graph.grid h w) act)
    (hF : DiagForest h w act) : Nonempty (DiagCert h w act) := by
  have hcard := interior_card hh hw hNA
  refine ⟨{ rank := fun y x => (rankN h w act y x : Int), rank_lo := ?_, rank_hi := ?_,
            distinct := ?_, loc := ?_ }⟩
  · intro y x _ _
    exact Int.natCast_nonneg _
  · intro y x hy hx
    have hl : rankN h w act y x ≤ (interior h w act).card + 1 := by
      unfold rankN
      rw [dif_pos hy, dif_pos hx]
      split
      · rename_i ha
        have := lev_le_card hF (⟨y, hy⟩, ⟨x, hx⟩) ha
        omega
      · omega
    rw [Int.fdiv_eq_ediv_of_nonneg _ (by omega)]
    omega
  · intro y x y' x' hy hx hy' hx' hdy _ he
    have p1 := rankN_parity (act := act) hy hx
    have p2 := rankN_parity (act := act) hy' hx'
    have : rankN h w act y x = rankN h w act y' x' := by exact_mod_cast he
    omega
  · intro y x hy hx hact nb hmem hnd
    -- a counted entry is an active diagonal neighbour one level up
    have key : ∀ p ∈ nb,
        (decide ((rankN h w act p.1 p.2 : Int) < (rankN h w act y x : Int)) &&
          act (p.1 * w + p.2)) = true →
        ∃ d : Fin h × Fin w, (d.1.1, d.2.1) = p ∧
          (diagGraph h w act).Adj (some (⟨y, hy⟩, ⟨x, hx⟩)) (some d) ∧
          dp (diagGraph h w act) none (some d) <
            dp (diagGraph h w act) none (some (⟨y, hy⟩, ⟨x, hx⟩)) := by
      intro p hp hpred
      obtain ⟨h1, h2, h3, h4⟩ := (hmem p).1 hp
      simp only [Bool.and_eq_true, decide_eq_true_eq] at hpred
      have hadj : (diagGraph h w act).Adj (some (⟨y, hy⟩, ⟨x, hx⟩)) (some (⟨p.1, h1⟩, ⟨p.2, h2⟩)) :=
        ⟨hact, hpred.2, h3, h4⟩
      exact ⟨(⟨p.1, h1⟩, ⟨p.2, h2⟩), rfl, hadj,
        rank_lt_iff hF hadj (by exact_mod_cast hpred.1)⟩
    have hle1 : (nb.filter fun p =>
        decide ((rankN h w act p.1 p.2 : Int) < (rankN h w act y x : Int)) &&
          act (p.1 * w + p.2)).length ≤ 1 := by
      apply C09L2.filter_length_le_one _ _ hnd
      intro a ha b hb hpa hpb
      obtain ⟨d, rfl, hd1, hd2⟩ := key a ha hpa
      obtain ⟨e, rfl, he1, he2⟩ := key b hb hpb
      have := dp_parent_unique (diagGraph h w act) none hF hd1 he1 hd2 he2
      cases this
      rfl
    split
    · rename_i hb
      have hb' : onBorder ((⟨y, hy⟩, ⟨x, hx⟩) : Fin h × Fin w) := hb
      have hl0 := border_lev0 (act := act) (c := (⟨y, hy⟩, ⟨x, hx⟩)) hact hb'
      rw [Nat.le_zero, List.length_eq_zero_iff, List.filter_eq_nil_iff]
      intro p hp hpred
      obtain ⟨d, -, hd1, hd2⟩ := key p hp hpred
      have := (lev_adj hF hd1).2.2 hd2
      omega
    · exact hle1

end Diag
end Cspuz.Proofs.C08DiagL3
