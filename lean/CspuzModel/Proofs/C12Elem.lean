/-
  C12 — `_elementwise`, the operator dispatch, `then` / `cond`: pointwise meaning and rejection.
-/
import CspuzModel.Spec.ArrayOps
import CspuzModel.Proofs.EvalLemmas
namespace Cspuz.Proofs.C12Elem
set_option linter.unusedSimpArgs false
set_option linter.unusedVariables false
open Cspuz Cspuz.Spec Cspuz.Proofs

/-- total version of `elem?` (only used where the element exists) -/
def get (x : PyV) (i : Nat) : Expr := (elem? x i).getD .litNone

/-- an operand conforming to the common shape -/
def Conf (sh : Shape) (x : PyV) : Prop :=
  x.wf = true ∧ x ≠ .other ∧ ∀ s, x.shape? = some s → s = sh

theorem at_ok {sh : Shape} {x : PyV} (hx : Conf sh x) {i : Nat} (hi : i < sh.size) :
    x.at i = .ok (get x i) ∧ elem? x i = some (get x i) := by
  obtain ⟨hwf, hno, hs⟩ := hx
  cases x with
  | scalar e => simp [PyV.at, get, elem?]
  | other => exact absurd rfl hno
  | arr1 b d =>
    have := hs _ rfl
    subst this
    simp only [Shape.size] at hi
    simp [PyV.at, get, elem?, getE_eq_ok hi, List.getElem?_eq_getElem hi]
  | arr2 b h w d =>
    have := hs _ rfl
    subst this
    simp only [Shape.size] at hi
    simp only [PyV.wf, beq_iff_eq] at hwf
    have hi' : i < d.length := by omega
    simp [PyV.at, get, elem?, getE_eq_ok hi', List.getElem?_eq_getElem hi']

theorem shapeOk_of_conf {sh : Shape} {x : PyV} (hx : Conf sh x) : x.shapeOk sh = true := by
  unfold PyV.shapeOk
  cases h : x.shape? with
  | none => rfl
  | some s => simp [hx.2.2 s h]

/-- The data of the array produced by `_elementwise`. -/
def ewData (op : Op) (sh : Shape) (xs : List PyV) : List Expr :=
  (List.range sh.size).map fun i => .node op (xs.map (get · i))

theorem elementwise_ok {op : Op} {sh : Shape} {xs : List PyV} (htc : ewTypeCheck op xs = .ok true)
    (hc : ∀ x ∈ xs, Conf sh x) :
    elementwise op sh xs = .ok (some (mkArr op.isBoolOp sh (ewData op sh xs))) := by
  have hall : xs.all (PyV.shapeOk sh) = true := by
    rw [List.all_eq_true]; exact fun x hx => shapeOk_of_conf (hc x hx)
  have hm : (List.range sh.size).mapM (ewElem op xs) = .ok (ewData op sh xs) := by
    apply mapM_eq_ok_map
    intro i hi
    have hi' : i < sh.size := List.mem_range.1 hi
    have : xs.mapM (fun x => x.at i) = .ok (xs.map (get · i)) :=
      mapM_eq_ok_map fun x hx => (at_ok (hc x hx) hi').1
    simp [ewElem, this]
  simp [elementwise, htc, hall, hm]

theorem elementwise_ni {op : Op} {sh : Shape} {xs : List PyV} (htc : ewTypeCheck op xs = .ok false) :
    elementwise op sh xs = .ok none := by
  simp [elementwise, htc]

theorem elementwise_shape_err {op : Op} {sh : Shape} {xs : List PyV} (htc : ewTypeCheck op xs = .ok true)
    (hbad : ∃ x ∈ xs, x.shapeOk sh = false) : elementwise op sh xs = .error .valueError := by
  have hall : xs.all (PyV.shapeOk sh) = false := by
    rw [List.all_eq_false]
    obtain ⟨x, hx, h⟩ := hbad
    exact ⟨x, hx, by simp [h]⟩
  simp [elementwise, htc, hall]

/-! ### facts about the produced array -/

theorem mkArr_isArr (k : Bool) (sh : Shape) (l : List Expr) (hl : l.length = sh.size) :
    IsArr (mkArr k sh l) k sh := by
  cases sh with
  | d1 n =>
    simp only [Shape.size] at hl
    refine ⟨rfl, by simp [mkArr, PyV.shape?, hl], rfl, ?_⟩
    intro i hi
    simp only [Shape.size] at hi
    simp [mkArr, elem?, hl, hi]
  | d2 h w =>
    simp only [Shape.size] at hl
    refine ⟨rfl, rfl, by simp [mkArr, PyV.wf, hl], ?_⟩
    intro i hi
    simp only [Shape.size] at hi
    simp [mkArr, elem?, hl, hi]

theorem ewData_length (op : Op) (sh : Shape) (xs : List PyV) : (ewData op sh xs).length = sh.size := by
  simp [ewData]

theorem elem_mkArr (k : Bool) (sh : Shape) (l : List Expr) (i : Nat) : elem? (mkArr k sh l) i = l[i]? := by
  cases sh <;> rfl

theorem elem_ewData {op : Op} {sh : Shape} {xs : List PyV} {k : Bool} {i : Nat} (hi : i < sh.size) :
    elem? (mkArr k sh (ewData op sh xs)) i = some (.node op (xs.map (get · i))) := by
  rw [elem_mkArr]
  simp [ewData, hi]

end Cspuz.Proofs.C12Elem
