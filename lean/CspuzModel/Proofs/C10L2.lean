/-
  C10, glue layer: the activity list handed to `activeVerticesConnected`, splitting `SatFrag` of the
  emitted program, and the assignment carrying the forced values of the auxiliary arrays.
-/
import CspuzModel.Proofs.C10L1
import CspuzModel.Proofs.C10Strand
namespace Cspuz.Proofs.C10L2
open Cspuz Cspuz.Spec Cspuz.Proofs Cspuz.Proofs.C10L1 Cspuz.Proofs.C10Cross Cspuz.Proofs.C10Strand

/-! ### `truthAt` and `++` -/

theorem truthAt_append_left (σ : Asg) {l m : List Expr} {i : Nat} (h : i < l.length) :
    truthAt σ (l ++ m) i = truthAt σ l i := by
  unfold truthAt
  rw [List.getElem?_append_left h]

theorem truthAt_append_right (σ : Asg) {l m : List Expr} {i : Nat} (h : l.length ≤ i) :
    truthAt σ (l ++ m) i = truthAt σ m (i - l.length) := by
  unfold truthAt
  rw [List.getElem?_append_right h]

/-! ### the activity list -/

section
variable (H W base : Nat)

/-- The point-node part of `gv`. -/
def gvPts : List Expr :=
  (List.range ((H + 1) * (W + 1))).flatMap fun i =>
    [Expr.bvar (base + 2 * ((H + 1) * (W + 1)) + i), Expr.bvar (base + 3 * ((H + 1) * (W + 1)) + i),
      Expr.bvar (base + 4 * ((H + 1) * (W + 1)) + i)]

theorem gv_eq : gv H W base =
    gvPts H W base ++ bvars (0 + (H + 1) * W) (H * (W + 1)) ++ bvars 0 ((H + 1) * W) := rfl

theorem gvPts_length : (gvPts H W base).length = npts H W := by
  unfold gvPts npts
  rw [length_flatMap3, List.length_range]

theorem bvars_length (b n : Nat) : (bvars b n).length = n := by simp [bvars]

theorem gv_length : (gv H W base).length = (crossGraph (H + 1) (W + 1)).n := by
  rw [gv_eq, cross_n, List.length_append, List.length_append, gvPts_length, bvars_length, bvars_length]

theorem mem_bvars {b n : Nat} {e : Expr} (h : e ∈ bvars b n) : ∃ i, i < n ∧ e = .bvar (b + i) := by
  simp only [bvars, List.mem_map, List.mem_range] at h
  obtain ⟨i, hi, rfl⟩ := h
  exact ⟨i, hi, rfl⟩

theorem boolArgs_bvar {n id : Nat} (h : id < n) :
    wtB (Expr.bvar id) = true ∧ (Expr.bvar id).varsBelow n = true := by
  refine ⟨rfl, ?_⟩
  simp only [Expr.varsBelow, decide_eq_true_eq]
  exact h

theorem gv_boolArgs (hb : base = Frame.numVars H W) :
    BoolArgs (base + 5 * ((H + 1) * (W + 1))) (gv H W base) := by
  intro e he
  rw [gv_eq, List.mem_append, List.mem_append] at he
  rcases he with (he | he) | he
  · simp only [gvPts, List.mem_flatMap, List.mem_range, List.mem_cons, List.not_mem_nil, or_false] at he
    obtain ⟨i, hi, rfl | rfl | rfl⟩ := he <;> exact boolArgs_bvar (by omega)
  · obtain ⟨i, hi, rfl⟩ := mem_bvars he
    exact boolArgs_bvar (by unfold Frame.numVars at hb; omega)
  · obtain ⟨i, hi, rfl⟩ := mem_bvars he
    exact boolArgs_bvar (by unfold Frame.numVars at hb; omega)

theorem truthAt_bvar_some (σ : Asg) (l : List Expr) (i id : Nat) (h : l[i]? = some (.bvar id)) :
    truthAt σ l i = σ.b id := by
  unfold truthAt
  rw [h]
  simp only [eval_bvar]
  cases σ.b id <;> rfl

theorem truthAt_gv_pt (σ : Asg) {i k : Nat} (hi : i < (H + 1) * (W + 1)) (hk : k < 3) :
    truthAt σ (gv H W base) (i * 3 + k) =
      σ.b (if k = 0 then base + 2 * ((H + 1) * (W + 1)) + i
        else if k = 1 then base + 3 * ((H + 1) * (W + 1)) + i else base + 4 * ((H + 1) * (W + 1)) + i) := by
  have hlt : i * 3 + k < (gvPts H W base).length := by rw [gvPts_length]; unfold npts; omega
  rw [gv_eq, List.append_assoc, truthAt_append_left σ hlt]
  apply truthAt_bvar_some
  unfold gvPts
  rw [getElem?_flatMap3 _ _ _ _ i k (by simpa using hi) hk]
  simp only [List.getElem_range]
  split
  · rfl
  · split <;> rfl

theorem truthAt_gv_seg (σ : Asg) {s : LSeg} (hs : s.valid H W) :
    truthAt σ (gv H W base) (segNode H W s) = segActive (Frame.fresh 0 H W) σ s := by
  cases s with
  | v y x =>
    have hb := C14.mul_add_lt (h := H) (w := W + 1) (y := y) (x := x) hs.1 (by have := hs.2; omega)
    have h1 : segNode H W (.v y x) < (gvPts H W base ++ bvars (0 + (H + 1) * W) (H * (W + 1))).length := by
      rw [List.length_append, gvPts_length, bvars_length]; simp only [segNode]; omega
    have h2 : (gvPts H W base).length ≤ segNode H W (.v y x) := by
      rw [gvPts_length]; simp only [segNode]; omega
    rw [gv_eq, truthAt_append_left σ h1, truthAt_append_right σ h2, gvPts_length]
    have e : segNode H W (.v y x) - npts H W = y * (W + 1) + x := by simp only [segNode]; omega
    rw [e]
    rfl
  | h y x =>
    have h2 : (gvPts H W base ++ bvars (0 + (H + 1) * W) (H * (W + 1))).length ≤ segNode H W (.h y x) := by
      rw [List.length_append, gvPts_length, bvars_length]; simp only [segNode]; omega
    rw [gv_eq, truthAt_append_right σ h2, List.length_append, gvPts_length, bvars_length]
    have e : segNode H W (.h y x) - (npts H W + H * (W + 1)) = y * W + x := by simp only [segNode]; omega
    rw [e]
    rfl

/-- Under the forced values, the node activity is what the strand lemma expects. -/
theorem gv_spec (σ' : Asg) (hF : Forced H W base (segActive (Frame.fresh 0 H W) σ') σ') :
    NodeActSpec H W (segActive (Frame.fresh 0 H W) σ') (truthAt σ' (gv H W base)) := by
  refine ⟨?_, ?_, ?_, ?_⟩
  · intro y x hy hx
    have hi := C14.mul_add_lt (h := H + 1) (w := W + 1) (y := y) (x := x) (by omega) (by omega)
    unfold ptNode
    rw [truthAt_gv_pt H W base σ' hi (by omega), if_pos rfl, ← (hF y x hy hx).2.2.1]
    simp only [vS, Nat.add_assoc]
  · intro y x hy hx
    have hi := C14.mul_add_lt (h := H + 1) (w := W + 1) (y := y) (x := x) (by omega) (by omega)
    unfold ptNode
    rw [truthAt_gv_pt H W base σ' hi (by omega), if_neg (by omega), if_pos rfl, ← (hF y x hy hx).2.2.2.1]
    simp only [vDH, Nat.add_assoc]
  · intro y x hy hx
    have hi := C14.mul_add_lt (h := H + 1) (w := W + 1) (y := y) (x := x) (by omega) (by omega)
    unfold ptNode
    rw [truthAt_gv_pt H W base σ' hi (by omega), if_neg (by omega), if_neg (by omega),
      ← (hF y x hy hx).2.2.2.2]
    simp only [vDV, Nat.add_assoc]
  · intro s hs
    exact truthAt_gv_seg H W base σ' hs

end

/-! ### splitting `SatFrag` -/

theorem satFrag_split (base m : Nat) (d : List VarDecl) (L cs : List Expr) (σ' : Asg) :
    SatFrag base { decls := List.replicate m .bool ++ d, cs := L ++ cs } σ' ↔
      (∀ c ∈ L, eval σ' c = some (.b true)) ∧ SatFrag (base + m) { decls := d, cs := cs } σ' := by
  unfold SatFrag
  simp only
  constructor
  · rintro ⟨h1, h2⟩
    refine ⟨fun c hc => h2 c (List.mem_append_left _ hc), ?_, fun c hc => h2 c (List.mem_append_right _ hc)⟩
    intro k lo hi hk
    have := h1 (m + k) lo hi (by
      rw [List.getElem?_append_right (by simp), List.length_replicate, Nat.add_sub_cancel_left]; exact hk)
    rw [Nat.add_assoc]; exact this
  · rintro ⟨hL, h1, h2⟩
    refine ⟨?_, ?_⟩
    · intro k lo hi hk
      by_cases hkm : k < m
      · rw [List.getElem?_append_left (by simpa using hkm)] at hk
        simp [hkm] at hk
      · rw [List.getElem?_append_right (by simp; omega), List.length_replicate] at hk
        have := h1 (k - m) lo hi hk
        have e : base + m + (k - m) = base + k := by omega
        rw [e] at this; exact this
    · intro c hc
      rcases List.mem_append.1 hc with h | h
      · exact hL c h
      · exact h2 c h

/-! ### the assignment with the forced values -/

/-- Read a row-major `(·) × (W+1)` table at a flat index. -/
def blockVal (W : Nat) (f : Nat → Nat → Bool) (i : Nat) : Bool := f (i / (W + 1)) (i % (W + 1))

theorem blockVal_eq (W : Nat) (f : Nat → Nat → Bool) {y x : Nat} (hx : x ≤ W) :
    blockVal W f (y * (W + 1) + x) = f y x := by
  unfold blockVal
  have h1 : (y * (W + 1) + x) / (W + 1) = y := by
    rw [Nat.add_comm, Nat.add_mul_div_right _ _ (by omega), Nat.div_eq_of_lt (by omega), Nat.zero_add]
  have h2 : (y * (W + 1) + x) % (W + 1) = x := by
    rw [Nat.add_comm, Nat.add_mul_mod_self_right, Nat.mod_eq_of_lt (by omega)]
  rw [h1, h2]

/-- `σ` with the five auxiliary arrays set to their forced values. -/
def forcedAsg (H W base : Nat) (act : LSeg → Bool) (σ : Asg) : Asg where
  i := σ.i
  b := fun id =>
    if id < base then σ.b id
    else if id < base + (H + 1) * (W + 1) then
      blockVal W (fun y x => decide (0 < pointDegree H W act y x)) (id - base)
    else if id < base + 2 * ((H + 1) * (W + 1)) then
      blockVal W (fun y x => decide (pointDegree H W act y x = 4)) (id - base - (H + 1) * (W + 1))
    else if id < base + 3 * ((H + 1) * (W + 1)) then
      blockVal W (fun y x => decide (0 < pointDegree H W act y x ∧ pointDegree H W act y x ≠ 4))
        (id - base - 2 * ((H + 1) * (W + 1)))
    else if id < base + 4 * ((H + 1) * (W + 1)) then
      blockVal W (fun y x => decide (pointDegree H W act y x = 4)) (id - base - 3 * ((H + 1) * (W + 1)))
    else if id < base + 5 * ((H + 1) * (W + 1)) then
      blockVal W (fun y x => decide (pointDegree H W act y x = 4)) (id - base - 4 * ((H + 1) * (W + 1)))
    else σ.b id

theorem forcedAsg_agree (H W base : Nat) (act : LSeg → Bool) (σ : Asg) :
    AgreeBelow base σ (forcedAsg H W base act σ) := by
  intro id hid
  refine ⟨?_, rfl⟩
  simp only [forcedAsg, if_pos hid]

theorem forcedAsg_forced (H W base : Nat) (act : LSeg → Bool) (σ : Asg) :
    Forced H W base act (forcedAsg H W base act σ) := by
  intro y x hy hx
  have hi := C14.mul_add_lt (h := H + 1) (w := W + 1) (y := y) (x := x) (by omega) (by omega)
  refine ⟨?_, ?_, ?_, ?_, ?_⟩
  · simp only [forcedAsg, vP]
    rw [if_neg (by omega), if_pos (by omega)]
    have e : base + y * (W + 1) + x - base = y * (W + 1) + x := by omega
    rw [e, blockVal_eq W _ hx]
  · simp only [forcedAsg, vC]
    rw [if_neg (by omega), if_neg (by omega), if_pos (by omega)]
    have e : base + (H + 1) * (W + 1) + y * (W + 1) + x - base - (H + 1) * (W + 1) = y * (W + 1) + x := by
      omega
    rw [e, blockVal_eq W _ hx]
  · simp only [forcedAsg, vS]
    rw [if_neg (by omega), if_neg (by omega), if_neg (by omega), if_pos (by omega)]
    have e : base + 2 * ((H + 1) * (W + 1)) + y * (W + 1) + x - base - 2 * ((H + 1) * (W + 1)) =
        y * (W + 1) + x := by omega
    rw [e, blockVal_eq W _ hx]
  · simp only [forcedAsg, vDH]
    rw [if_neg (by omega), if_neg (by omega), if_neg (by omega), if_neg (by omega), if_pos (by omega)]
    have e : base + 3 * ((H + 1) * (W + 1)) + y * (W + 1) + x - base - 3 * ((H + 1) * (W + 1)) =
        y * (W + 1) + x := by omega
    rw [e, blockVal_eq W _ hx]
  · simp only [forcedAsg, vDV]
    rw [if_neg (by omega), if_neg (by omega), if_neg (by omega), if_neg (by omega), if_neg (by omega),
      if_pos (by omega)]
    have e : base + 4 * ((H + 1) * (W + 1)) + y * (W + 1) + x - base - 4 * ((H + 1) * (W + 1)) =
        y * (W + 1) + x := by omega
    rw [e, blockVal_eq W _ hx]

/-- The forced values only concern variables below `base + 5·hw`. -/
theorem forced_congr (H W base : Nat) (act : LSeg → Bool) {σ1 σ2 : Asg}
    (h : AgreeBelow (base + 5 * ((H + 1) * (W + 1))) σ1 σ2) (hF : Forced H W base act σ1) :
    Forced H W base act σ2 := by
  intro y x hy hx
  have hi := C14.mul_add_lt (h := H + 1) (w := W + 1) (y := y) (x := x) (by omega) (by omega)
  obtain ⟨f1, f2, f3, f4, f5⟩ := hF y x hy hx
  refine ⟨?_, ?_, ?_, ?_, ?_⟩
  · rw [← f1, (h _ (by unfold vP; omega)).1]
  · rw [← f2, (h _ (by unfold vC; omega)).1]
  · rw [← f3, (h _ (by unfold vS; omega)).1]
  · rw [← f4, (h _ (by unfold vDH; omega)).1]
  · rw [← f5, (h _ (by unfold vDV; omega)).1]

theorem agreeBelow_mono {b1 b2 : Nat} (hb : b1 ≤ b2) {σ1 σ2 : Asg} (h : AgreeBelow b2 σ1 σ2) :
    AgreeBelow b1 σ1 σ2 := fun id hid => h id (by omega)

theorem agreeBelow_trans {b : Nat} {σ1 σ2 σ3 : Asg} (h1 : AgreeBelow b σ1 σ2) (h2 : AgreeBelow b σ2 σ3) :
    AgreeBelow b σ1 σ3 := fun id hid =>
  ⟨(h1 id hid).1.trans (h2 id hid).1, (h1 id hid).2.trans (h2 id hid).2⟩

end Cspuz.Proofs.C10L2
