/-
  C11 — typing (`wtB`) and variable locality (`varsBelow`) of `count_true` expressions and of the
  program emitted by the rank/root encoding of `active_vertices_connected` (needed by every puzzle
  theorem: `∀ c ∈ P.cs, wtB c = true`, and by the fragment-composition lemmas of Proofs/C11Frag.lean).
-/
import CspuzModel.Proofs.C04L1
import CspuzModel.Proofs.C11Frag
namespace Cspuz.Proofs.C11FragWT
open Cspuz Cspuz.Spec Cspuz.Proofs

/-! ### `count_true` -/

theorem wtIs_ctOps : ∀ xs : List Expr, (∀ x ∈ xs, wtB x = true) → wtIs (ctOps xs) = true
  | [], _ => rfl
  | x :: r, h => by
    have ih := wtIs_ctOps r (fun y hy => h y (List.mem_cons_of_mem _ hy))
    have hx := h x List.mem_cons_self
    cases x <;> simp_all [ctOps, wtIs, wtI, wtB]

theorem wtIs_append : ∀ a b : List Expr, wtIs (a ++ b) = (wtIs a && wtIs b)
  | [], b => by simp [wtIs]
  | x :: a, b => by simp [wtIs, wtIs_append a b, Bool.and_assoc]

theorem wtBs_iff : ∀ l : List Expr, wtBs l = true ↔ ∀ x ∈ l, wtB x = true
  | [] => by simp [wtBs]
  | x :: r => by simp [wtBs, wtBs_iff r]

theorem wtIs_iff : ∀ l : List Expr, wtIs l = true ↔ ∀ x ∈ l, wtI x = true
  | [] => by simp [wtIs]
  | x :: r => by simp [wtIs, wtIs_iff r]

theorem wtI_countTrueE (xs : List Expr) (h : ∀ x ∈ xs, wtB x = true) : wtI (countTrueE xs) = true := by
  unfold countTrueE
  have h1 := wtIs_ctOps xs h
  by_cases hc : ctConst xs > 0
  · simp only [hc, if_true]
    have : (ctOps xs ++ [Expr.litI (ctConst xs : Nat)]).isEmpty = false := by simp
    simp only [this, Bool.false_eq_true, if_false, wtI, wtIs_append, h1, wtIs, Bool.and_self, Bool.and_true]
    simp
  · simp only [hc, if_false]
    cases hops : ctOps xs with
    | nil => simp [wtI]
    | cons y ys =>
      rw [hops] at h1
      simp only [List.isEmpty_cons, Bool.false_eq_true, if_false, wtI, h1, Bool.and_true]
      simp

/-- `count_true(xs) <cmp> n` is a well-typed constraint. -/
theorem wtB_cmp_countTrueE (op : Op) (hop : op.isCmp = true) (xs : List Expr) (n : Int)
    (h : ∀ x ∈ xs, wtB x = true) : wtB (.node op [countTrueE xs, .litI n]) = true := by
  have := wtI_countTrueE xs h
  cases op <;> simp [Op.isCmp] at hop <;> simp [wtB, wtIs, wtI, this]

theorem varsBelowList_iff (b : Nat) : ∀ l : List Expr,
    Expr.varsBelow.varsBelowList b l = true ↔ ∀ x ∈ l, x.varsBelow b = true
  | [] => by simp [Expr.varsBelow.varsBelowList]
  | x :: r => by simp [Expr.varsBelow.varsBelowList, varsBelowList_iff b r]

theorem varsBelow_node (b : Nat) (op : Op) (args : List Expr) :
    (Expr.node op args).varsBelow b = true ↔ ∀ x ∈ args, x.varsBelow b = true := by
  rw [Expr.varsBelow, varsBelowList_iff]

theorem varsBelow_ctOps (b : Nat) : ∀ xs : List Expr, (∀ x ∈ xs, x.varsBelow b = true) →
    ∀ y ∈ ctOps xs, y.varsBelow b = true
  | [], _ => by simp [ctOps]
  | x :: r, h => by
    have ih := varsBelow_ctOps b r (fun y hy => h y (List.mem_cons_of_mem _ hy))
    have hx := h x List.mem_cons_self
    intro y hy
    cases x with
    | litB v => exact ih y (by simpa [ctOps] using hy)
    | bvar id =>
      simp only [ctOps, List.mem_cons] at hy
      rcases hy with rfl | hy
      · rw [varsBelow_node]; intro z hz; simp at hz; rcases hz with rfl | rfl | rfl <;> simp_all [Expr.varsBelow]
      · exact ih y hy
    | ivar id =>
      simp only [ctOps, List.mem_cons] at hy
      rcases hy with rfl | hy
      · rw [varsBelow_node]; intro z hz; simp at hz; rcases hz with rfl | rfl | rfl <;> simp_all [Expr.varsBelow]
      · exact ih y hy
    | litI n =>
      simp only [ctOps, List.mem_cons] at hy
      rcases hy with rfl | hy
      · rw [varsBelow_node]; intro z hz; simp at hz; rcases hz with rfl | rfl | rfl <;> simp_all [Expr.varsBelow]
      · exact ih y hy
    | litNone =>
      simp only [ctOps, List.mem_cons] at hy
      rcases hy with rfl | hy
      · rw [varsBelow_node]; intro z hz; simp at hz; rcases hz with rfl | rfl | rfl <;> simp_all [Expr.varsBelow]
      · exact ih y hy
    | node op args =>
      simp only [ctOps, List.mem_cons] at hy
      rcases hy with rfl | hy
      · rw [varsBelow_node]; intro z hz; simp at hz; rcases hz with rfl | rfl | rfl
        · exact hx
        · simp [Expr.varsBelow]
        · simp [Expr.varsBelow]
      · exact ih y hy

theorem varsBelow_countTrueE (b : Nat) (xs : List Expr) (h : ∀ x ∈ xs, x.varsBelow b = true) :
    (countTrueE xs).varsBelow b = true := by
  unfold countTrueE
  have h1 := varsBelow_ctOps b xs h
  have h2 : ∀ y ∈ (if ctConst xs > 0 then ctOps xs ++ [Expr.litI (ctConst xs : Nat)] else ctOps xs),
      y.varsBelow b = true := by
    intro y hy
    split at hy
    · rcases List.mem_append.1 hy with hy | hy
      · exact h1 y hy
      · simp at hy; subst hy; simp [Expr.varsBelow]
    · exact h1 y hy
  simp only
  generalize (if ctConst xs > 0 then ctOps xs ++ [Expr.litI (ctConst xs : Nat)] else ctOps xs) = ops at h2 ⊢
  by_cases he : ops.isEmpty = true
  · rw [if_pos he]; simp [Expr.varsBelow, Expr.varsBelow.varsBelowList]
  · rw [if_neg he, varsBelow_node]; exact h2

theorem varsBelow_cmp_countTrueE (b : Nat) (op : Op) (xs : List Expr) (n : Int)
    (h : ∀ x ∈ xs, x.varsBelow b = true) : (Expr.node op [countTrueE xs, .litI n]).varsBelow b = true := by
  rw [varsBelow_node]
  intro y hy
  simp at hy
  rcases hy with rfl | rfl
  · exact varsBelow_countTrueE b xs h
  · simp [Expr.varsBelow]

/-! ### the rank/root program of `active_vertices_connected` -/

theorem getD_of_lt {l : List Expr} {i : Nat} (h : i < l.length) : l.getD i .litNone = l[i] := by
  simp [List.getD, List.getElem?_eq_getElem h]

section AVC
variable {g : Graph} {ia : List Expr} {base : Nat}

theorem lessE_wt (hwf : g.wf = true) (hlen : ia.length = g.n) (hia : BoolArgs base ia) (i : Nat) :
    ∀ x ∈ C04L1.lessE g ia base i, wtB x = true ∧ x.varsBelow (base + 2 * g.n) = true := by
  intro x hx
  simp only [C04L1.lessE, List.mem_map] at hx
  obtain ⟨je, hje, rfl⟩ := hx
  have hb := incident_bounds hwf hje
  have hj : je.1 < ia.length := by omega
  rw [getD_of_lt hj]
  obtain ⟨h1, h2⟩ := hia _ (List.getElem_mem hj)
  have hi : i < g.n := by
    rcases Nat.lt_or_ge i g.n with h | h
    · exact h
    · exfalso
      obtain ⟨a, b, he, hor⟩ := mem_incident.1 hje
      have hw : ∀ ab ∈ g.edges, ab.1 < g.n ∧ ab.2 < g.n := by
        intro ab hab
        have := List.all_eq_true.1 hwf ab hab
        simpa using this
      have hm := List.mem_of_getElem? he
      have := hw _ hm
      rcases hor with ⟨h1, _⟩ | ⟨h1, _⟩ <;> simp only at this <;> omega
  refine ⟨by simp [wtB, wtBs, wtIs, wtI, h1], ?_⟩
  rw [varsBelow_node]
  intro z hz
  simp at hz
  rcases hz with rfl | rfl
  · rw [varsBelow_node]; intro z hz; simp at hz
    rcases hz with rfl | rfl <;> simp only [Expr.varsBelow, decide_eq_true_eq] <;> omega
  · exact C11Frag.varsBelow_mono (by omega) _ h2

/-- Every constraint of the rank/root program is well typed and only mentions the caller's variables and
the `2 n` auxiliary ones. -/
theorem avcProg_wt (hwf : g.wf = true) (hlen : ia.length = g.n) (hia : BoolArgs base ia) :
    ∀ c ∈ (C04L1.avcProg g ia base false).cs,
      wtB c = true ∧ c.varsBelow (base + (C04L1.avcProg g ia base false).decls.length) = true := by
  have hdl : (C04L1.avcProg g ia base false).decls.length = 2 * g.n := by
    simp [C04L1.avcProg]; omega
  rw [hdl]
  intro c hc
  simp only [C04L1.avcProg, List.mem_append, List.mem_flatten, List.mem_map, List.mem_range,
    List.mem_singleton] at hc
  rcases hc with ⟨l, ⟨i, hi, rfl⟩, hc⟩ | rfl
  · simp only [C04L1.avcCs, Bool.false_eq_true, if_false, List.mem_singleton] at hc
    subst hc
    have hii : i < ia.length := by omega
    rw [getD_of_lt hii]
    obtain ⟨h1, h2⟩ := hia _ (List.getElem_mem hii)
    have hxs : ∀ x ∈ C04L1.lessE g ia base i ++ [Expr.bvar (base + g.n + i)],
        wtB x = true ∧ x.varsBelow (base + 2 * g.n) = true := by
      intro x hx
      rcases List.mem_append.1 hx with hx | hx
      · exact lessE_wt hwf hlen hia i x hx
      · simp at hx; subst hx
        refine ⟨rfl, ?_⟩
        simp only [Expr.varsBelow, decide_eq_true_eq]; omega
    have hw := wtB_cmp_countTrueE .ge rfl _ 1 (fun x hx => (hxs x hx).1)
    have hv := varsBelow_cmp_countTrueE (base + 2 * g.n) .ge _ 1 (fun x hx => (hxs x hx).2)
    refine ⟨by
      have hw' := hw
      simp only [wtB] at hw'
      simp [thenRaw, wtB, wtBs, h1]
      simpa using hw', ?_⟩
    unfold thenRaw
    rw [varsBelow_node]
    intro z hz
    simp at hz
    rcases hz with rfl | rfl
    · exact C11Frag.varsBelow_mono (by omega) _ h2
    · exact hv
  · have hxs : ∀ x ∈ (List.range g.n).map (fun i => Expr.bvar (base + g.n + i)),
        wtB x = true ∧ x.varsBelow (base + 2 * g.n) = true := by
      intro x hx
      simp only [List.mem_map, List.mem_range] at hx
      obtain ⟨i, hi, rfl⟩ := hx
      refine ⟨rfl, ?_⟩
      simp only [Expr.varsBelow, decide_eq_true_eq]; omega
    exact ⟨wtB_cmp_countTrueE .le rfl _ 1 (fun x hx => (hxs x hx).1),
      varsBelow_cmp_countTrueE _ .le _ 1 (fun x hx => (hxs x hx).2)⟩

end AVC

/-- `active_vertices_connected` (rank/root route) on a well-formed call: the emitted program, its size,
typing and locality. -/
theorem avc_facts {g : Graph} {ia : List Expr} {base : Nat} {p : Prog}
    (hn : 0 < g.n) (hwf : g.wf = true) (hlen : ia.length = g.n) (hia : BoolArgs base ia)
    (hp : activeVerticesConnected g ia base false false = .ok p) :
    p.decls.length = 2 * g.n ∧ (∀ c ∈ p.cs, wtB c = true) ∧
      (∀ c ∈ p.cs, c.varsBelow (base + p.decls.length) = true) := by
  rw [C04L1.avc_eq_prog hn hwf hlen hia] at hp
  cases hp
  refine ⟨by simp [C04L1.avcProg]; omega, fun c hc => (avcProg_wt hwf hlen hia c hc).1,
    fun c hc => (avcProg_wt hwf hlen hia c hc).2⟩

/-- The cell variables `bvars 0 n` as caller arguments. -/
theorem bvars_boolArgs (n : Nat) : BoolArgs n (bvars 0 n) := by
  intro e he
  simp only [bvars, List.mem_map, List.mem_range] at he
  obtain ⟨i, hi, rfl⟩ := he
  refine ⟨rfl, ?_⟩
  simp only [Expr.varsBelow, decide_eq_true_eq]; omega

theorem truthAt_bvars (σ : Asg) (n i : Nat) (hi : i < n) : truthAt σ (bvars 0 n) i = σ.b i := by
  simp only [truthAt, bvars, List.getElem?_map, List.getElem?_range hi, Option.map_some, Nat.zero_add, eval_bvar]
  cases σ.b i <;> rfl

end Cspuz.Proofs.C11FragWT
