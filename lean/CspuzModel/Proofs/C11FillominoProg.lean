/-
  C11 / Fillomino — closed form of the program posted by `solve_fillomino`
  (Model/Puzzles/Fillomino.lean) on a well-formed instance.
-/
import CspuzModel.Spec.PuzzleRules.Fillomino
import CspuzModel.Proofs.C14
import CspuzModel.Proofs.C11CL
import CspuzModel.Proofs.C11Grid
import CspuzModel.Proofs.C11Loop
import CspuzModel.Proofs.C11FillominoVG
namespace Cspuz.Proofs.C11FillominoProg
open Cspuz Cspuz.Spec Cspuz.Spec.FrameGeom Cspuz.Puzzles Cspuz.Puzzles.Fillomino Cspuz.Spec.Fillomino Cspuz.Proofs
open Cspuz.Proofs.C12Elem
open Cspuz.Proofs.C14 (frame2 frame2_getitem graphSegs graphSegsAt segEdge graphSegs_perm graphSegs_valid mem_allSegs)

/-! ### element-wise comparison of two arrays of the same shape -/

theorem conf2 {sh : Shape} {a b : PyV} (ha : Conf sh a) (hb : Conf sh b) : ∀ x ∈ [a, b], Conf sh x := by
  intro x hx
  simp only [List.mem_cons, List.mem_nil_iff, or_false] at hx
  rcases hx with rfl | rfl
  · exact ha
  · exact hb

/-- `A != B` on two integer 2-D arrays. -/
theorem binop_ne_int (h w : Nat) (A B : List Expr) (hA : A.length = h * w) (hB : B.length = h * w) :
    binop .ne (.arr2 false h w A) (.arr2 false h w B) =
      .ok (.arr2 true h w (List.zipWith (fun a b => .node .ne [a, b]) A B)) := by
  have he : elementwise .ne (.d2 h w) [.arr2 false h w A, .arr2 false h w B] = _ :=
    elementwise_ok (by simp [ewTypeCheck, Op.isCmp, PyV.isIntLike])
      (conf2 (C11CL.conf_arr2 _ _ _ _ hA) (C11CL.conf_arr2 _ _ _ _ hB))
  rw [C11CL.ewData2_arr2 _ _ _ _ _ _ _ hA hB] at he
  simp [binop, tryMeth, callMethod, PyV.cls, Cls.defines, arrayMethod, Cls.arrKind?, binarySpec, unarySpec,
    PyV.shape?, PyV.data?, swapIf, BinOp.isCmp, BinOp.meth, he, mkArr, Op.isBoolOp, Cls.properSubclass]

/-- `A != B` on two Boolean 2-D arrays. -/
theorem binop_ne_bool (h w : Nat) (A B : List Expr) (hA : A.length = h * w) (hB : B.length = h * w) :
    binop .ne (.arr2 true h w A) (.arr2 true h w B) =
      .ok (.arr2 true h w (List.zipWith (fun a b => .node .xor [a, b]) A B)) := by
  have he : elementwise .xor (.d2 h w) [.arr2 true h w A, .arr2 true h w B] = _ :=
    elementwise_ok (by simp [ewTypeCheck, Op.isCmp, PyV.isBoolLike])
      (conf2 (C11CL.conf_arr2 _ _ _ _ hA) (C11CL.conf_arr2 _ _ _ _ hB))
  rw [C11CL.ewData2_arr2 _ _ _ _ _ _ _ hA hB] at he
  simp [binop, tryMeth, callMethod, PyV.cls, Cls.defines, arrayMethod, Cls.arrKind?, binarySpec, unarySpec,
    PyV.shape?, PyV.data?, swapIf, BinOp.isCmp, BinOp.meth, he, mkArr, Op.isBoolOp, Cls.properSubclass]

/-- `A == B` on two Boolean 2-D arrays. -/
theorem binop_eq_bool (h w : Nat) (A B : List Expr) (hA : A.length = h * w) (hB : B.length = h * w) :
    binop .eq (.arr2 true h w A) (.arr2 true h w B) =
      .ok (.arr2 true h w (List.zipWith (fun a b => .node .iff [a, b]) A B)) := by
  have he : elementwise .iff (.d2 h w) [.arr2 true h w A, .arr2 true h w B] = _ :=
    elementwise_ok (by simp [ewTypeCheck, Op.isCmp, PyV.isBoolLike])
      (conf2 (C11CL.conf_arr2 _ _ _ _ hA) (C11CL.conf_arr2 _ _ _ _ hB))
  rw [C11CL.ewData2_arr2 _ _ _ _ _ _ _ hA hB] at he
  simp [binop, tryMeth, callMethod, PyV.cls, Cls.defines, arrayMethod, Cls.arrKind?, binarySpec, unarySpec,
    PyV.shape?, PyV.data?, swapIf, BinOp.isCmp, BinOp.meth, he, mkArr, Op.isBoolOp, Cls.properSubclass]

/-- Row-major grids. -/
def gridL {α : Type} (ys xs : List Nat) (f : Nat → Nat → α) : List α := ys.flatMap fun y => xs.map fun x => f y x

theorem gridL_length {α : Type} (h w : Nat) (f : Nat → Nat → α) :
    (gridL (List.range h) (List.range w) f).length = h * w := by
  unfold gridL
  rw [C11Grid.flatMap_range_eq]; simp

theorem zipWith_map_same {α β γ δ : Type} (f : β → γ → δ) (a : α → β) (b : α → γ) (l : List α) :
    List.zipWith f (l.map a) (l.map b) = l.map fun x => f (a x) (b x) := by
  induction l with
  | nil => rfl
  | cons x l ih => simp [ih]

theorem zipWith_gridL {α β γ : Type} (f : α → β → γ) (ys xs : List Nat) (a : Nat → Nat → α) (b : Nat → Nat → β) :
    List.zipWith f (gridL ys xs a) (gridL ys xs b) = gridL ys xs fun y x => f (a y x) (b y x) := by
  unfold gridL
  induction ys with
  | nil => rfl
  | cons y ys ih =>
    simp only [List.flatMap_cons]
    rw [List.zipWith_append (by simp), ih, zipWith_map_same]

theorem bvars_gridL (b h w : Nat) :
    bvars b (h * w) = gridL (List.range h) (List.range w) fun y x => Expr.bvar (b + (y * w + x)) := by
  unfold gridL bvars
  rw [C11Grid.flatMap_range_eq]
  apply List.map_congr_left
  intro i _
  rw [Nat.div_add_mod' i w]

theorem gridL_boolLike (ys xs : List Nat) (f : Nat → Nat → Expr) (hf : ∀ y x, (f y x).isBoolLike = true) :
    ∀ e ∈ gridL ys xs f, e.isBoolLike = true := by
  intro e he
  simp only [gridL, List.mem_flatMap, List.mem_map] at he
  obtain ⟨y, _, x, _, rfl⟩ := he
  exact hf y x

/-! ### the four shifted views of a `(H+1) × (W+1)` array of fresh variables -/

section Views
variable (k : Bool) (mk : Nat → Expr) (H W : Nat)

/-- The whole array. -/
def arrV : PyV := .arr2 k (H + 1) (W + 1) ((List.range ((H + 1) * (W + 1))).map mk)

theorem get_left : getitemV (arrV k mk H W) (.pair fullSlice (sl none (some (-1)))) =
    .ok (.arr2 k (H + 1) W (gridL (List.range (H + 1)) (List.range W) fun y x => mk (y * (W + 1) + x))) := by
  unfold arrV sl
  rw [C11CL.getitemV_slices k mk (H + 1) (W + 1) _ _ _ _ (C11CL.axisSel_full _) (C11CL.axisSel_upto _)
    (fun y hy => List.mem_range.1 hy) (fun x hx => by have := List.mem_range.1 hx; omega)]
  simp only [List.length_range, Nat.add_sub_cancel, gridL]

theorem get_right : getitemV (arrV k mk H W) (.pair fullSlice (sl (some 1) none)) =
    .ok (.arr2 k (H + 1) W (gridL (List.range (H + 1)) (List.range W) fun y x => mk (y * (W + 1) + (x + 1)))) := by
  unfold arrV sl
  rw [C11CL.getitemV_slices k mk (H + 1) (W + 1) _ _ _ _ (C11CL.axisSel_full _) (C11CL.axisSel_from1 _)
    (fun y hy => List.mem_range.1 hy) (fun x hx => by
      simp only [List.mem_map, List.mem_range] at hx
      obtain ⟨j, hj, rfl⟩ := hx
      omega)]
  simp only [List.length_range, List.length_map, Nat.add_sub_cancel, gridL, List.map_map, Function.comp_def]

theorem get_up : getitemV (arrV k mk H W) (.pair (sl none (some (-1))) fullSlice) =
    .ok (.arr2 k H (W + 1) (gridL (List.range H) (List.range (W + 1)) fun y x => mk (y * (W + 1) + x))) := by
  unfold arrV sl
  rw [C11CL.getitemV_slices k mk (H + 1) (W + 1) _ _ _ _ (C11CL.axisSel_upto _) (C11CL.axisSel_full _)
    (fun y hy => by have := List.mem_range.1 hy; omega) (fun x hx => List.mem_range.1 hx)]
  simp only [List.length_range, Nat.add_sub_cancel, gridL]

theorem get_down : getitemV (arrV k mk H W) (.pair (sl (some 1) none) fullSlice) =
    .ok (.arr2 k H (W + 1) (gridL (List.range H) (List.range (W + 1)) fun y x => mk ((y + 1) * (W + 1) + x))) := by
  unfold arrV sl
  rw [C11CL.getitemV_slices k mk (H + 1) (W + 1) _ _ _ _ (C11CL.axisSel_from1 _) (C11CL.axisSel_full _)
    (fun y hy => by
      simp only [List.mem_map, List.mem_range] at hy
      obtain ⟨j, hj, rfl⟩ := hy
      omega) (fun x hx => List.mem_range.1 hx)]
  simp only [List.length_range, List.length_map, Nat.add_sub_cancel, gridL, List.flatMap_map]

end Views

/-! ### `border == (arr differs across the border)` -/

/-- Variable on the border that corresponds (duality) to the segment `s` between two cell centres, when the
vertical borders (horizontal segments) are the block `hb, hb+1, …` and the horizontal borders the block
`vb, vb+1, …`. -/
def segV (hb vb W : Nat) : Seg → Nat
  | .h y x => hb + (y * W + x)
  | .v y x => vb + (y * (W + 1) + x)

/-- `border == (mk cell₁ <op> mk cell₂)` for the border on segment `s`. -/
def defC (hb vb W : Nat) (op : Op) (mk : Nat → Expr) (s : Seg) : Expr :=
  .node .iff [.bvar (segV hb vb W s), .node op [mk (ptIndex W s.ends.1), mk (ptIndex W s.ends.2)]]

theorem vertical_eq (n H W : Nat) :
    arrOf true (InnerFrame.fresh n (H + 1) (W + 1)).vertical =
      .arr2 true (H + 1) W (gridL (List.range (H + 1)) (List.range W) fun y x => .bvar (n + H * (W + 1) + (y * W + x))) := by
  show PyV.arr2 true (H + 1) W (bvars (n + H * (W + 1)) ((H + 1) * W)) = _
  rw [bvars_gridL]

theorem horizontal_eq (n H W : Nat) :
    arrOf true (InnerFrame.fresh n (H + 1) (W + 1)).horizontal =
      .arr2 true H (W + 1) (gridL (List.range H) (List.range (W + 1)) fun y x => .bvar (n + (y * (W + 1) + x))) := by
  show PyV.arr2 true H (W + 1) (bvars n (H * (W + 1))) = _
  rw [bvars_gridL]

theorem bordersOf_eq (k : Bool) (op : Op) (mk : Nat → Expr) (n H W : Nat)
    (hbin : ∀ h w A B, A.length = h * w → B.length = h * w →
      binop .ne (.arr2 k h w A) (.arr2 k h w B) = .ok (.arr2 true h w (List.zipWith (fun a b => .node op [a, b]) A B))) :
    bordersOf (InnerFrame.fresh n (H + 1) (W + 1)) (arrV k mk H W)
      = .ok ((allSegs H W).map (defC (n + H * (W + 1)) n W op mk)) := by
  unfold bordersOf borderDef
  rw [get_left, ok_bind, get_right, ok_bind, hbin _ _ _ _ (gridL_length _ _ _) (gridL_length _ _ _), ok_bind,
    zipWith_gridL, vertical_eq, binop_eq_bool _ _ _ _ (gridL_length _ _ _) (gridL_length _ _ _), ok_bind,
    zipWith_gridL, C11CL.ensureV_arr2 _ _ _ _ (gridL_boolLike _ _ _ (fun _ _ => rfl)), ok_bind]
  rw [get_up, ok_bind, get_down, ok_bind, hbin _ _ _ _ (gridL_length _ _ _) (gridL_length _ _ _), ok_bind,
    zipWith_gridL, horizontal_eq, binop_eq_bool _ _ _ _ (gridL_length _ _ _) (gridL_length _ _ _), ok_bind,
    zipWith_gridL, C11CL.ensureV_arr2 _ _ _ _ (gridL_boolLike _ _ _ (fun _ _ => rfl)), ok_bind]
  simp only [allSegs, hSegs, vSegs, List.map_append, List.map_flatMap, List.map_map, gridL]
  rfl

/-! ### `_from_grid_frame(border.dual())` -/

theorem getitem2_v (H W hb vb y x : Nat) (hy : y < H) (hx : x ≤ W) :
    (frame2 H W hb vb).getitem ((y : Int) * 2 + 1) ((x : Int) * 2) = .ok (.bvar (segV hb vb W (Seg.v y x))) := by
  rw [frame2_getitem, if_pos (by omega), if_neg (by omega), if_pos (by omega)]
  have e1 : (((y : Int) * 2 + 1) / 2).toNat = y := by omega
  have e2 : (((x : Int) * 2) / 2).toNat = x := by omega
  rw [e1, e2]; rfl

theorem getitem2_h (H W hb vb y x : Nat) (hy : y ≤ H) (hx : x < W) :
    (frame2 H W hb vb).getitem ((y : Int) * 2) ((x : Int) * 2 + 1) = .ok (.bvar (segV hb vb W (Seg.h y x))) := by
  rw [frame2_getitem, if_pos (by omega), if_pos (by omega)]
  have e1 : (((y : Int) * 2) / 2).toNat = y := by omega
  have e2 : (((x : Int) * 2 + 1) / 2).toNat = x := by omega
  rw [e1, e2]; rfl

theorem fromGridFrame_frame2 (H W hb vb : Nat) :
    fromGridFrame (frame2 H W hb vb) =
      .ok (((graphSegs H W).map (segV hb vb W)).map Expr.bvar, C11Loop.lg H W) := by
  unfold fromGridFrame
  have eH : (frame2 H W hb vb).height = H := rfl
  have eW : (frame2 H W hb vb).width = W := rfl
  simp only [eH, eW]
  rw [C14.mapM_ok _ _ (fun (yx : Nat × Nat) =>
    (graphSegsAt H W yx.1 yx.2).map fun s => (Expr.bvar (segV hb vb W s), segEdge W s))]
  · simp only [bind, Except.bind, graphSegs, C11Loop.lg, ← List.flatMap_def]
    simp only [List.flatMap_assoc, List.flatMap_map, List.map_flatMap, List.map_map, Function.comp_def]
  · rintro ⟨y, x⟩ hm
    simp only [List.mem_flatMap, List.mem_map, List.mem_range, Prod.mk.injEq] at hm
    obtain ⟨a, ha, b, hb', rfl, rfl⟩ := hm
    simp only [graphSegsAt]
    by_cases h1 : a ≠ H <;> by_cases h2 : b ≠ W
    · simp only [if_pos h1, if_pos h2, getitem2_v H W hb vb a b (by omega) (by omega),
        getitem2_h H W hb vb a b (by omega) (by omega), bind, Except.bind, pure, Except.pure]
      rfl
    · simp only [if_pos h1, if_neg h2, getitem2_v H W hb vb a b (by omega) (by omega), bind, Except.bind, pure, Except.pure]
      rfl
    · simp only [if_neg h1, if_pos h2, getitem2_h H W hb vb a b (by omega) (by omega), bind, Except.bind, pure, Except.pure]
      rfl
    · simp only [if_neg h1, if_neg h2, bind, Except.bind, pure, Except.pure]
      rfl

/-- The border variables in the order of the graph's edges. -/
def bsOf (n H W : Nat) : List Nat := (graphSegs H W).map (segV (n + H * (W + 1)) n W)

theorem fromGridFrame_dual (n H W : Nat) :
    fromGridFrame (InnerFrame.fresh n (H + 1) (W + 1)).dual = .ok ((bsOf n H W).map Expr.bvar, C11Loop.lg H W) := by
  rw [C14.inner_fresh_dual, fromGridFrame_frame2]; rfl

theorem segV_lt (n H W : Nat) {s : Seg} (hs : s.Valid H W) :
    n ≤ segV (n + H * (W + 1)) n W s ∧ segV (n + H * (W + 1)) n W s < n + (H * (W + 1) + (H + 1) * W) := by
  cases s with
  | h y x =>
    have := C11Grid.cell_lt (h := H + 1) (w := W) (y := y) (x := x) (by have := hs.1; omega) hs.2
    simp only [segV]; omega
  | v y x =>
    have := C11Grid.cell_lt (h := H) (w := W + 1) (y := y) (x := x) hs.1 (by have := hs.2; omega)
    simp only [segV]; omega

theorem bsOf_lt (n H W : Nat) : ∀ b ∈ bsOf n H W, b < n + (H * (W + 1) + (H + 1) * W) := by
  intro b hb
  simp only [bsOf, List.mem_map] at hb
  obtain ⟨s, hs, rfl⟩ := hb
  exact (segV_lt n H W (graphSegs_valid H W s hs)).2

theorem bsOf_length (n H W : Nat) : (bsOf n H W).length = (C11Loop.lg H W).edges.length := by
  simp [bsOf, C11Loop.lg]

/-! ### the givens -/

theorem tableGet_eq {pb : Problem} (hw : WellFormed pb) {y x : Nat} (hy : y < pb.height) (hx : x < pb.width) :
    tableGet pb.problem (y : Int) (x : Int) = .ok (val pb y x) := by
  unfold tableGet val
  have hy' : y < pb.problem.length := by rw [hw.2.2.1]; exact hy
  have hrow : pb.problem[y]? = some pb.problem[y] := List.getElem?_eq_getElem hy'
  have hlen : pb.problem[y].length = pb.width := hw.2.2.2 _ (List.getElem_mem hy')
  have hx' : x < pb.problem[y].length := by rw [hlen]; exact hx
  rw [C14.pyIndex_nat _ _ _ hrow, ok_bind, C14.pyIndex_nat _ _ _ (List.getElem?_eq_getElem hx')]
  simp [List.getD, hrow, List.getElem?_eq_getElem hx']

theorem mem_cellsOf {h w : Nat} {p : Nat × Nat} : p ∈ cellsOf h w ↔ p.1 < h ∧ p.2 < w := by
  unfold cellsOf
  simp only [List.mem_flatMap, List.mem_map, List.mem_range]
  constructor
  · rintro ⟨y, hy, x, hx, rfl⟩; exact ⟨hy, hx⟩
  · rintro ⟨hy, hx⟩; exact ⟨p.1, hy, p.2, hx, rfl⟩

/-- What the clue loop posts for one cell. -/
def givenE (pb : Problem) (p : Nat × Nat) : List Expr :=
  if val pb p.1 p.2 ≥ 1 then [.node .eq [.ivar (p.1 * pb.width + p.2), .litI (val pb p.1 p.2)]] else []

def givens (pb : Problem) : List Expr := ((cellsOf pb.height pb.width).map (givenE pb)).flatten

theorem cellCs_eq {pb : Problem} (hw : WellFormed pb) {p : Nat × Nat} (hp : p ∈ cellsOf pb.height pb.width) :
    cellCs pb (.arr2 false pb.height pb.width ((List.range (pb.height * pb.width)).map Expr.ivar)) p
      = .ok (givenE pb p) := by
  obtain ⟨hy, hx⟩ := mem_cellsOf.mp hp
  unfold cellCs givenE
  rw [tableGet_eq hw hy hx, ok_bind]
  by_cases hv : val pb p.1 p.2 ≥ 1
  · simp only [hv, if_true]
    rw [C11CL.getitemV_cell false Expr.ivar _ _ _ _ hy hx, ok_bind, C11CL.binop_eq_ivar_lit, ok_bind,
      C11CL.ensureV_scalar _ rfl]
  · simp only [hv, if_false]

theorem mem_givens {pb : Problem} {c : Expr} :
    c ∈ givens pb ↔ ∃ p, OnBoard pb.height pb.width p ∧ 1 ≤ val pb p.1 p.2 ∧
      c = .node .eq [.ivar (p.1 * pb.width + p.2), .litI (val pb p.1 p.2)] := by
  simp only [givens, List.mem_flatten, List.mem_map]
  constructor
  · rintro ⟨l, ⟨p, hp, rfl⟩, hc⟩
    unfold givenE at hc
    split at hc
    · next hv => simp at hc; exact ⟨p, mem_cellsOf.1 hp, hv, hc⟩
    · simp at hc
  · rintro ⟨p, hp, hv, rfl⟩
    exact ⟨_, ⟨p, mem_cellsOf.2 hp, rfl⟩, by simp [givenE, hv]⟩

/-! ### the posted program -/

section Program
variable (H W : Nat)

/-- number of cells, number of inner borders -/
def nC : Nat := (H + 1) * (W + 1)
def nB : Nat := H * (W + 1) + (H + 1) * W

/-- the `group_size` argument: the size variables -/
def gsOf : List (Option Expr) := (ivars 0 (nC H W)).map some

/-- the division fragment (hidden variables start after the sizes and the borders) -/
def vgP : Prog :=
  C07L1.vgProg (C11Loop.lg H W) (.perVertex (gsOf H W)) (nC H W + nB H W) ++
    ({ cs := C11FillominoVG.borderCs (C11Loop.lg H W) (bsOf (nC H W) H W) (nC H W + nB H W) } : Prog)

/-- `border == (size differs)` -/
def c1 : List Expr := (allSegs H W).map (defC (nC H W + H * (W + 1)) (nC H W) W .ne Expr.ivar)

/-- first colour variable -/
def base2 : Nat := nC H W + nB H W + (vgP H W).decls.length

/-- `border == (colour differs)` -/
def c3 : List Expr :=
  (allSegs H W).map (defC (nC H W + H * (W + 1)) (nC H W) W .xor fun i => .bvar (base2 H W + i))

theorem ivars0 (n : Nat) : ivars 0 n = (List.range n).map Expr.ivar := by
  simp [ivars]

theorem gs_sizeArgs : SizeArgs (nC H W + nB H W) (C11Loop.lg H W).n (.perVertex (gsOf H W)) := by
  refine ⟨by simp [gsOf, ivars, C11Loop.lg, nC], ?_⟩
  intro e he
  simp only [gsOf, ivars, List.mem_map, List.mem_range, Option.some.injEq] at he
  obtain ⟨_, ⟨i, hi, rfl⟩, rfl⟩ := he
  refine ⟨rfl, ?_⟩
  simp only [Expr.varsBelow, decide_eq_true_eq]
  omega

theorem vg_eq :
    variableGroupsWithBorders (C11Loop.lg H W) (gsOf H W) ((bsOf (nC H W) H W).map Expr.bvar) false
      (nC H W + nB H W) = .ok (vgP H W) :=
  C11FillominoVG.vgwb_eq (C11Loop.lg_wf H W) (C11Loop.lg_pos H W) (gs_sizeArgs H W) (bsOf_length _ H W)

/-- The program, in closed form. -/
def progOf (problem : List (List Int)) (chk : Bool) : PuzzleProg :=
  { decls := List.replicate (nC H W) (.int 1 (nC H W)) ++ List.replicate (nB H W) .bool ++ (vgP H W).decls ++
      (if chk then List.replicate (nC H W) VarDecl.bool else []),
    cs := (vgP H W).cs ++ c1 H W ++ givens ⟨H + 1, W + 1, problem, chk⟩ ++ (if chk then c3 H W else []),
    keys := List.range (nC H W) }

theorem program_eq (problem : List (List Int)) (chk : Bool)
    (hw : WellFormed ⟨H + 1, W + 1, problem, chk⟩) :
    programWith false ⟨H + 1, W + 1, problem, chk⟩ = .ok (progOf H W problem chk) := by
  unfold programWith
  simp only
  have hn : 0 < (H + 1) * (W + 1) := Nat.mul_pos (Nat.succ_pos _) (Nat.succ_pos _)
  rw [C07L1.decl2 hn, ok_bind, C11Grid.addKeys_ivars, ok_bind, fromGridFrame_dual, ok_bind]
  have hvg := vg_eq H W
  simp only [nC, nB, gsOf] at hvg
  simp only [Nat.add_sub_cancel]
  rw [hvg, ok_bind]
  have hsize : PyV.arr2 false (H + 1) (W + 1) (ivars 0 ((H + 1) * (W + 1))) = arrV false Expr.ivar H W := by
    rw [ivars0]; rfl
  rw [hsize, bordersOf_eq false .ne Expr.ivar _ H W binop_ne_int, ok_bind]
  have hc2 : List.mapM (cellCs ⟨H + 1, W + 1, problem, chk⟩ (arrV false Expr.ivar H W)) (cellsOf (H + 1) (W + 1))
      = .ok ((cellsOf (H + 1) (W + 1)).map (givenE ⟨H + 1, W + 1, problem, chk⟩)) :=
    mapM_eq_ok_map (fun p hp => cellCs_eq hw hp)
  rw [hc2, ok_bind]
  cases chk with
  | false => rfl
  | true =>
    simp only [if_true]
    have hcol : PyV.arr2 true (H + 1) (W + 1)
        (bvars ((H + 1) * (W + 1) + (H * (W + 1) + (H + 1) * W) + (vgP H W).decls.length) ((H + 1) * (W + 1)))
        = arrV true (fun i => .bvar (base2 H W + i)) H W := rfl
    rw [hcol, bordersOf_eq true .xor _ _ H W binop_ne_bool]
    rfl

end Program

end Cspuz.Proofs.C11FillominoProg
