import CspuzModel.Proofs.C09L1
import CspuzModel.Proofs.C09L2
namespace Cspuz.Proofs.C09
open Cspuz Cspuz.Spec
open Cspuz.Proofs.C09L1 Cspuz.Proofs.C09L2

theorem exact (g : Graph) (ie : List Expr) (base : Nat) (p : Prog) (σ : Asg)
    (hwf : g.wf = true) (hlf : LoopFree g) (hlen : ie.length = g.edges.length) (hie : BoolArgs base ie)
    (hp : activeEdgesAcyclic g ie base = .ok p) :
    (Realizable base p σ ↔ EdgesForest g (truthAt σ ie)) := by
  rw [forest_realizable_iff_cert g ie base p σ hwf hlen hie hp]
  exact forest_cert_iff g (truthAt σ ie) hwf hlf

end Cspuz.Proofs.C09

