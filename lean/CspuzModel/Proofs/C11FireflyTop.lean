/-
  C11 / firefly — closed forms of the array-level part of the program of `solve_firefly`: the orientation
  constraints (`has_line == line_ul | line_dr`, `~(line_ul & line_dr)`), `count_true(ignored_edge) == 1` and the four
  families of rank constraints, on a board of `(H+1) × (W+1)` cells.
-/
import CspuzModel.Proofs.C11ArrOps
import CspuzModel.Proofs.C14
import CspuzModel.Model.Puzzles.Firefly
namespace Cspuz.Proofs.C11FireflyTop
open Cspuz Cspuz.Spec Cspuz.Puzzles Cspuz.Puzzles.Firefly Cspuz.Proofs Cspuz.Proofs.C12Elem Cspuz.Proofs.C11CL
open Cspuz.Proofs.C11ArrOps

/-! ### element-wise operators on 1-D arrays -/

theorem ewData2_arr1 (op : Op) (k1 k2 : Bool) (A B : List Expr) (hAB : A.length = B.length) :
    ewData op (.d1 A.length) [.arr1 k1 A, .arr1 k2 B] = List.zipWith (fun a b => .node op [a, b]) A B := by
  apply List.ext_getElem
  · simp [ewData, Shape.size, hAB]
  · intro i h1 h2
    simp only [ewData, Shape.size, List.length_map, List.length_range] at h1
    have hiB : i < B.length := by omega
    simp [ewData, C12Elem.get, elem?, h1, hiB]

theorem ewData1_arr1 (op : Op) (k : Bool) (A : List Expr) :
    ewData op (.d1 A.length) [.arr1 k A] = A.map fun a => .node op [a] := by
  apply List.ext_getElem
  · simp [ewData, Shape.size]
  · intro i h1 h2
    simp only [ewData, Shape.size, List.length_map, List.length_range] at h1
    simp [ewData, C12Elem.get, elem?, h1]

theorem conf_arr1' (k : Bool) (A B : List Expr) (hAB : A.length = B.length) : Conf (.d1 A.length) (.arr1 k B) := by
  rw [hAB]; exact conf_arr1 k B

/-- `A & B`, `A | B`, `A == B` on two Boolean 1-D arrays of the same length. -/
theorem binop_bool_arr1 (o : BinOp) (op : Op)
    (ho : (o = .and_ ∧ op = .and) ∨ (o = .or_ ∧ op = .or) ∨ (o = .eq ∧ op = .iff))
    (A B : List Expr) (hAB : A.length = B.length) :
    binop o (.arr1 true A) (.arr1 true B) = .ok (.arr1 true (List.zipWith (fun a b => .node op [a, b]) A B)) := by
  have he : elementwise op (.d1 A.length) [.arr1 true A, .arr1 true B] = _ :=
    elementwise_ok (by rcases ho with ⟨_, rfl⟩ | ⟨_, rfl⟩ | ⟨_, rfl⟩ <;> simp [ewTypeCheck, Op.isCmp, PyV.isBoolLike]) (by
      intro x hx
      simp only [List.mem_cons, List.mem_nil_iff, or_false] at hx
      rcases hx with rfl | rfl
      · exact conf_arr1 _ _
      · exact conf_arr1' _ _ _ hAB)
  rw [ewData2_arr1 _ _ _ _ _ hAB] at he
  rcases ho with ⟨rfl, rfl⟩ | ⟨rfl, rfl⟩ | ⟨rfl, rfl⟩ <;>
  simp [binop, tryMeth, callMethod, PyV.cls, Cls.defines, arrayMethod, Cls.arrKind?, binarySpec, unarySpec,
    PyV.shape?, PyV.data?, swapIf, BinOp.isCmp, BinOp.meth, he, mkArr, Op.isBoolOp, Cls.properSubclass]

/-- `~A` on a Boolean 1-D array. -/
theorem unop_invert_arr1 (A : List Expr) :
    unop .invert (.arr1 true A) = .ok (.arr1 true (A.map fun a => .node .not [a])) := by
  have he : elementwise .not (.d1 A.length) [.arr1 true A] = _ :=
    elementwise_ok (by simp [ewTypeCheck, Op.isCmp, PyV.isBoolLike]) (by
      intro x hx
      simp only [List.mem_cons, List.mem_nil_iff, or_false] at hx
      subst hx
      exact conf_arr1 _ _)
  rw [ewData1_arr1] at he
  simp [unop, UnOp.meth, callMethod, PyV.cls, Cls.defines, arrayMethod, Cls.arrKind?, binarySpec, unarySpec,
    PyV.shape?, PyV.data?, he, mkArr, Op.isBoolOp]

/-- `A < B`, `A > B` on two integer 2-D arrays of the same shape. -/
theorem binop_ltgt_int_arr2 (o : BinOp) (op : Op) (ho : (o = .lt ∧ op = .lt) ∨ (o = .gt ∧ op = .gt))
    (h w : Nat) (A B : List Expr) (hA : A.length = h * w) (hB : B.length = h * w) :
    binop o (.arr2 false h w A) (.arr2 false h w B) =
      .ok (.arr2 true h w (List.zipWith (fun a b => .node op [a, b]) A B)) := by
  have he : elementwise op (.d2 h w) [.arr2 false h w A, .arr2 false h w B] = _ :=
    elementwise_ok (by rcases ho with ⟨_, rfl⟩ | ⟨_, rfl⟩ <;> simp [ewTypeCheck, Op.isCmp, PyV.isIntLike]) (by
      intro x hx
      simp only [List.mem_cons, List.mem_nil_iff, or_false] at hx
      rcases hx with rfl | rfl
      · exact conf_arr2 _ _ _ _ hA
      · exact conf_arr2 _ _ _ _ hB)
  rw [ewData2_arr2 _ _ _ _ _ _ _ hA hB] at he
  rcases ho with ⟨rfl, rfl⟩ | ⟨rfl, rfl⟩ <;>
  simp [binop, tryMeth, callMethod, PyV.cls, Cls.defines, arrayMethod, Cls.arrKind?, binarySpec, unarySpec,
    PyV.shape?, PyV.data?, swapIf, BinOp.isCmp, BinOp.meth, he, mkArr, Op.isBoolOp, Cls.properSubclass]

/-! ### the frames -/

theorem bvars_eq (base n : Nat) : bvars base n = (List.range n).map fun i => Expr.bvar (base + i) := rfl
theorem ivars_eq (base n : Nat) : ivars base n = (List.range n).map fun i => Expr.ivar (base + i) := rfl

theorem bvars_add (base n m : Nat) : bvars base (n + m) = bvars base n ++ bvars (base + n) m := by
  simp only [bvars_eq, List.range_add, List.map_append, List.map_map]
  congr 1
  apply List.map_congr_left
  intro i _
  simp [Nat.add_assoc]

theorem allEdges_bvars (base H W : Nat) :
    (Frame.fresh base H W).allEdges = bvars base (Frame.numVars H W) := by
  simp only [Frame.allEdges, Frame.fresh, Frame.numVars, bvars_add]

theorem frame1D_eq (base H W : Nat) :
    frame1D (Frame.fresh base H W) = .arr1 true ((List.range (Frame.numVars H W)).map fun i => Expr.bvar (base + i)) := by
  simp only [frame1D, allEdges_bvars, bvars_eq]

/-! ### the orientation constraints -/

/-- `has_line == (line_ul | line_dr)`, element by element. -/
def orientIff (N : Nat) : List Expr :=
  (List.range N).map fun i => Expr.node .iff [.bvar (0 + i), .node .or [.bvar (N + i), .bvar (2 * N + i)]]

/-- `~(line_ul & line_dr)`, element by element. -/
def orientNot (N : Nat) : List Expr :=
  (List.range N).map fun i => Expr.node .not [.node .and [.bvar (N + i), .bvar (2 * N + i)]]

theorem orientCs_eq (H W : Nat) :
    orientCs (Frame.fresh 0 H W) (Frame.fresh (Frame.numVars H W) H W) (Frame.fresh (2 * Frame.numVars H W) H W)
      = .ok (orientIff (Frame.numVars H W) ++ orientNot (Frame.numVars H W)) := by
  unfold orientCs
  simp only [frame1D_eq]
  rw [binop_bool_arr1 .or_ .or (Or.inr (Or.inl ⟨rfl, rfl⟩)) _ _ (by simp)]
  simp only [bind, Except.bind]
  rw [binop_bool_arr1 .eq .iff (Or.inr (Or.inr ⟨rfl, rfl⟩)) _ _ (by simp)]
  simp only [zipWith_range_map]
  rw [ensureV_arr1 _ _ (by
    intro x hx
    simp only [List.mem_map] at hx
    obtain ⟨i, _, rfl⟩ := hx
    rfl)]
  simp only
  rw [binop_bool_arr1 .and_ .and (Or.inl ⟨rfl, rfl⟩) _ _ (by simp)]
  simp only
  rw [unop_invert_arr1]
  simp only [zipWith_range_map, List.map_map]
  rw [ensureV_arr1 _ _ (by
    intro x hx
    simp only [List.mem_map] at hx
    obtain ⟨i, _, rfl⟩ := hx
    rfl)]
  rfl

/-- `count_true(ignored_edge) == 1`. -/
def ignoredOne (N : Nat) : Expr := .node .eq [countTrueE (bvars (3 * N) N), .litI 1]

theorem ignoredCs_eq (H W : Nat) :
    ignoredCs (Frame.fresh (3 * Frame.numVars H W) H W) = .ok [ignoredOne (Frame.numVars H W)] := by
  unfold ignoredCs
  simp only [frame1D, allEdges_bvars]
  rw [countTrueA_arr1 _ (by intro x hx; simp only [bvars, List.mem_map] at hx; obtain ⟨i, _, rfl⟩ := hx; rfl)]
  simp only [bind, Except.bind]
  rw [binop_cmp_countTrueE .eq .eq (Or.inl ⟨rfl, rfl⟩)]
  show ensureV _ = _
  rw [ensureV_scalar _ (by simp [Expr.isBoolLike, Op.isBoolOp])]
  rfl

/-! ### the rank constraints -/

/-- `line & ~ignored`. -/
def guardE (bl bi i : Nat) : Expr := .node .and [.bvar (bl + i), .node .not [.bvar (bi + i)]]

theorem guard_eq (h w bl bi : Nat) :
    (do let n ← unop .invert (arrB ⟨h, w, bvars bi (h * w)⟩)
        binop .and_ (arrB ⟨h, w, bvars bl (h * w)⟩) n)
      = .ok (.arr2 true h w ((List.range (h * w)).map (guardE bl bi))) := by
  simp only [arrB]
  rw [unop_invert_arr2 _ _ _ (by simp [bvars])]
  simp only [bind, Except.bind]
  rw [binop_bool_arr2 .and_ .and (Or.inl ⟨rfl, rfl⟩) _ _ _ _ (by simp [bvars]) (by simp [bvars])]
  simp only [bvars_eq, List.map_map, zipWith_range_map]
  rfl

/-- The constraints of one horizontal family: edge `i` (row-major in the `(H+1) × W` array) joins the cells
`(i / W, i % W)` and `(i / W, i % W + 1)`. -/
def rankHE (op : Op) (W bl bi br : Nat) (i : Nat) : Expr :=
  .node .imp [guardE bl bi i,
    .node op [.ivar (br + (i / W * (W + 1) + i % W)), .ivar (br + (i / W * (W + 1) + (i % W + 1)))]]

/-- … one vertical family: edge `i` (row-major in the `H × (W+1)` array) joins the cells number `i` and `i + (W+1)`. -/
def rankVE (op : Op) (W bl bi br : Nat) (i : Nat) : Expr :=
  .node .imp [guardE bl bi i, .node op [.ivar (br + i), .ivar (br + (i + (W + 1)))]]

theorem rankH_eq (o : BinOp) (op : Op) (ho : (o = .lt ∧ op = .lt) ∨ (o = .gt ∧ op = .gt)) (H W bl bi br : Nat) :
    rankCs o ⟨H + 1, W, bvars bl ((H + 1) * W)⟩ ⟨H + 1, W, bvars bi ((H + 1) * W)⟩
        ⟨H + 1, W + 1, ivars br ((H + 1) * (W + 1))⟩
        (.pair fullSlice (sl none (some (-1)))) (.pair fullSlice (sl (some 1) none))
      = .ok ((List.range ((H + 1) * W)).map (rankHE op W bl bi br)) := by
  unfold rankCs
  have hg := guard_eq (H + 1) W bl bi
  simp only [bind, Except.bind] at hg ⊢
  split at hg
  · cases hg
  next n hn =>
  rw [hg]
  simp only [arrI, ivars_eq, sl]
  rw [getitemV_slices false _ (H + 1) (W + 1) _ _ _ _ (axisSel_full _) (axisSel_upto _)
    (by intro y hy; exact List.mem_range.mp hy) (by intro x hx; have := List.mem_range.mp hx; omega)]
  simp only
  rw [getitemV_slices false _ (H + 1) (W + 1) _ _ _ _ (axisSel_full _) (axisSel_from1 _)
    (by intro y hy; exact List.mem_range.mp hy)
    (by intro x hx; simp only [List.mem_map, List.mem_range] at hx; obtain ⟨j, hj, rfl⟩ := hx; omega)]
  simp only [List.length_range, List.length_map, Nat.add_sub_cancel, List.map_map]
  rw [C11Grid.flatMap_range_eq (fun y x => Expr.ivar (br + (y * (W + 1) + x))) (H + 1) W]
  have h2 : ((List.range (H + 1)).flatMap fun y => List.map ((fun x => Expr.ivar (br + (y * (W + 1) + x))) ∘ fun j => j + 1) (List.range W))
      = (List.range ((H + 1) * W)).map fun i => Expr.ivar (br + (i / W * (W + 1) + (i % W + 1))) :=
    C11Grid.flatMap_range_eq (fun y x => Expr.ivar (br + (y * (W + 1) + (x + 1)))) (H + 1) W
  rw [h2]
  rw [binop_ltgt_int_arr2 o op ho _ _ _ _ (by simp) (by simp)]
  simp only
  rw [callM_then_arr2 _ _ _ _ (by simp) (by simp)]
  simp only [zipWith_range_map]
  rw [ensureV_arr2]
  · rfl
  · intro x hx
    simp only [List.mem_map] at hx
    obtain ⟨i, _, rfl⟩ := hx
    rfl

theorem rankV_eq (o : BinOp) (op : Op) (ho : (o = .lt ∧ op = .lt) ∨ (o = .gt ∧ op = .gt)) (H W bl bi br : Nat) :
    rankCs o ⟨H, W + 1, bvars bl (H * (W + 1))⟩ ⟨H, W + 1, bvars bi (H * (W + 1))⟩
        ⟨H + 1, W + 1, ivars br ((H + 1) * (W + 1))⟩
        (.pair (sl none (some (-1))) fullSlice) (.pair (sl (some 1) none) fullSlice)
      = .ok ((List.range (H * (W + 1))).map (rankVE op W bl bi br)) := by
  unfold rankCs
  have hg := guard_eq H (W + 1) bl bi
  simp only [bind, Except.bind] at hg ⊢
  split at hg
  · cases hg
  next n hn =>
  rw [hg]
  simp only [arrI, ivars_eq, sl]
  rw [getitemV_slices false _ (H + 1) (W + 1) _ _ _ _ (axisSel_upto _) (axisSel_full _)
    (by intro y hy; have := List.mem_range.mp hy; omega) (by intro x hx; exact List.mem_range.mp hx)]
  simp only
  rw [getitemV_slices false _ (H + 1) (W + 1) _ _ _ _ (axisSel_from1 _) (axisSel_full _)
    (by intro y hy; simp only [List.mem_map, List.mem_range] at hy; obtain ⟨j, hj, rfl⟩ := hy; omega)
    (by intro x hx; exact List.mem_range.mp hx)]
  simp only [List.length_range, List.length_map, Nat.add_sub_cancel, List.flatMap_map]
  rw [C11Grid.flatMap_range_eq (fun y x => Expr.ivar (br + (y * (W + 1) + x))) H (W + 1)]
  have h2 : ((List.range H).flatMap fun y => List.map (fun x => Expr.ivar (br + ((y + 1) * (W + 1) + x))) (List.range (W + 1)))
      = (List.range (H * (W + 1))).map fun i => Expr.ivar (br + ((i / (W + 1) + 1) * (W + 1) + i % (W + 1))) :=
    C11Grid.flatMap_range_eq (fun y x => Expr.ivar (br + ((y + 1) * (W + 1) + x))) H (W + 1)
  rw [h2]
  rw [binop_ltgt_int_arr2 o op ho _ _ _ _ (by simp) (by simp)]
  simp only
  rw [callM_then_arr2 _ _ _ _ (by simp) (by simp)]
  simp only [zipWith_range_map]
  rw [ensureV_arr2]
  · congr 1
    apply List.map_congr_left
    intro i _
    have e1 : i / (W + 1) * (W + 1) + i % (W + 1) = i := Nat.div_add_mod' i (W + 1)
    have e2 : (i / (W + 1) + 1) * (W + 1) + i % (W + 1) = i + (W + 1) := by
      rw [Nat.add_mul, Nat.one_mul]; omega
    simp only [rankVE, e1, e2]
  · intro x hx
    simp only [List.mem_map] at hx
    obtain ⟨i, _, rfl⟩ := hx
    rfl

end Cspuz.Proofs.C11FireflyTop
