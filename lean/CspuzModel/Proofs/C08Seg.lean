/-
  C08, part 2: the generic route of `active_vertices_not_adjacent_and_not_segmenting`
  (non-adjacency ++ connectivity of the negated entries), on an explicit graph and on 1×N / N×1 boards.
-/
import CspuzModel.Proofs.C08Adj
import CspuzModel.Proofs.C04
namespace Cspuz.Proofs.C08Seg
open Cspuz Cspuz.Spec Cspuz.Proofs Cspuz.Proofs.C08Adj

theorem boolArgs_not {base : Nat} {ia : List Expr} (h : BoolArgs base ia) :
    BoolArgs base (ia.map fun x => .node .not [x]) := by
  intro e he
  obtain ⟨x, hx, rfl⟩ := List.mem_map.1 he
  obtain ⟨h1, h2⟩ := h x hx
  exact ⟨by simp [wtB, wtBs, h1], by simp [Expr.varsBelow, Expr.varsBelow.varsBelowList, h2]⟩

theorem truthAt_not {base : Nat} (σ : Asg) {ia : List Expr} (h : BoolArgs base ia) {v : Nat}
    (hv : v < ia.length) :
    truthAt σ (ia.map fun x => .node .not [x]) v = !truthAt σ ia v := by
  obtain ⟨b, hb⟩ := wtB_eval σ ia[v] (h _ (List.getElem_mem hv)).1
  simp only [truthAt, List.getElem?_map, List.getElem?_eq_getElem hv, Option.map_some,
    eval_not hb, hb]
  cases b <;> rfl

theorem activeConnected_congr {g : Graph} {act act' : Nat → Bool}
    (h : ∀ v, v < g.n → act v = act' v) : ActiveConnected g act ↔ ActiveConnected g act' := by
  have : activeSet g act = activeSet g act' := by
    ext v
    simp only [activeSet, Set.mem_ofPred_eq, h v.1 v.2]
  unfold ActiveConnected
  rw [this]

/-- `_active_vertices_connected` applied to `~is_active`: the inactive vertices are connected. -/
theorem avc_not_exact (g : Graph) (ia : List Expr) (base : Nat) (prim : Bool) (p : Prog) (σ : Asg)
    (hwf : g.wf = true) (hlen : ia.length = g.n) (hia : BoolArgs base ia)
    (hp : activeVerticesConnected g (ia.map fun x => .node .not [x]) base false prim = .ok p) :
    Realizable base p σ ↔ ActiveConnected g (fun v => !truthAt σ ia v) := by
  have hlen' : (ia.map fun x => Expr.node .not [x]).length = g.n := by simpa using hlen
  have hcong := activeConnected_congr (g := g)
    (act := truthAt σ (ia.map fun x => .node .not [x])) (act' := fun v => !truthAt σ ia v)
    (fun v hv => truthAt_not σ hia (by omega))
  rw [← hcong]
  cases prim with
  | false =>
    simpa using C04.aux_exact g _ base false p σ hwf (by simp) hlen' (boolArgs_not hia) hp
  | true => exact C04Prim.prim_exact g _ base p σ hwf hlen' (boolArgs_not hia) hp

/-- Composition: a plain non-adjacency fragment followed by the connectivity fragment. -/
theorem seg_of_parts {g : Graph} {ia : List Expr} {base : Nat} {prim : Bool} {p1 p2 : Prog} {σ : Asg}
    (hwf : g.wf = true) (hlen : ia.length = g.n) (hia : BoolArgs base ia)
    (h1 : Plain base p1 σ (NoAdjacentActive g (truthAt σ ia)))
    (h2 : activeVerticesConnected g (ia.map fun x => .node .not [x]) base false prim = .ok p2) :
    Realizable base (p1 ++ p2) σ ↔ NotSegmenting g (truthAt σ ia) := by
  rw [h1.append, avc_not_exact g ia base prim p2 σ hwf hlen hia h2]
  rfl

theorem segmenting_graph (g : Graph) (ia : List Expr) (base : Nat) (prim : Bool) (p : Prog) (σ : Asg)
    (hwf : g.wf = true) (hlen : ia.length = g.n) (hia : BoolArgs base ia)
    (hp : notSegmentingGraph g ia base prim = .ok p) :
    Realizable base p σ ↔ NotSegmenting g (truthAt σ ia) := by
  unfold notSegmentingGraph at hp
  obtain ⟨p1, hp1, hp⟩ := bind_eq_ok.1 hp
  obtain ⟨p2, hp2, hp⟩ := bind_eq_ok.1 hp
  cases hp
  exact seg_of_parts hwf hlen hia (notAdjacentGraph_plain σ hwf hlen hia hp1) hp2

theorem grid_line (h w : Nat) (a : List Expr) (base : Nat) (prim : Bool) (p : Prog) (σ : Asg)
    (hhw : h = 1 ∨ w = 1) (hlen : a.length = h * w) (ha : BoolArgs base a)
    (hp : notSegmentingGrid h w a base prim = .ok p) :
    Realizable base p σ ↔ NotSegmenting (Graph.grid h w) (truthAt σ a) := by
  unfold notSegmentingGrid at hp
  have hc : (h == 1 || w == 1) = true := by
    rcases hhw with rfl | rfl <;> simp
  rw [if_pos hc] at hp
  obtain ⟨p1, hp1, hp⟩ := bind_eq_ok.1 hp
  obtain ⟨p2, hp2, hp⟩ := bind_eq_ok.1 hp
  cases hp
  exact seg_of_parts (g := Graph.grid h w) (C04Prim.grid_wf h w) hlen ha
    (notAdjacentGrid_plain σ hlen ha hp1) hp2

end Cspuz.Proofs.C08Seg
