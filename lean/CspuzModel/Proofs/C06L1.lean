/-
  C06, layer L1 (auxiliary-variable route of `_active_edges_single_cycle`): the emitted program is
  realizable iff an arithmetic certificate `CycleCert` exists, and the returned `is_passed` variables
  are forced to the visited vertices.  Also the pieces shared with the native-primitive routes:
  the closed form and the value of the degree expression `degreeOf`.
-/
import CspuzModel.Proofs.EvalLemmas
import CspuzModel.Spec.Certs2
import CspuzModel.Spec.GraphSpec2
namespace Cspuz.Proofs.C06L1
open Cspuz Cspuz.Spec Cspuz.Proofs

/-! ### the degree expression -/

/-- operands of `count_true` in `degreeOf`: the flags of the incident edges. -/
def degArgs (g : Graph) (ie : List Expr) (i : Nat) : List Expr :=
  (g.incident i).map fun je => ie.getD je.2 .litNone

/-- closed form of `degreeOf g ie i`. -/
def degE (g : Graph) (ie : List Expr) (i : Nat) : Expr := countTrueE (degArgs g ie i)

section Deg
variable {g : Graph} {ie : List Expr} {base : Nat}

theorem getD_eq {j : Nat} (hj : j < ie.length) : ie.getD j .litNone = ie[j] := by
  simp [List.getD, List.getElem?_eq_getElem hj]

theorem degArgs_boolLike (hwf : g.wf = true) (hlen : ie.length = g.edges.length)
    (hie : BoolArgs base ie) (i : Nat) : ∀ x ∈ degArgs g ie i, x.isBoolLike = true := by
  intro x hx
  simp only [degArgs, List.mem_map] at hx
  obtain ⟨je, hje, rfl⟩ := hx
  have hb := incident_bounds hwf hje
  have hj : je.2 < ie.length := by omega
  rw [getD_eq hj]
  exact boolArg_isBoolLike hie hj

theorem degreeOf_eq (hwf : g.wf = true) (hlen : ie.length = g.edges.length)
    (hie : BoolArgs base ie) (i : Nat) : degreeOf g ie i = .ok (degE g ie i) := by
  unfold degreeOf
  rw [mapM_eq_ok_map (g := fun je => ie.getD je.2 .litNone), ok_bind]
  · exact countTrue_ok_of_boolLike (degArgs_boolLike hwf hlen hie i)
  · intro je hje
    have hb := incident_bounds hwf hje
    have hj : je.2 < ie.length := by omega
    rw [getE_eq_ok hj, getD_eq hj]

/-- the degree expression evaluates to the number of active incident entries. -/
theorem eval_degE {σ σ' : Asg} (hwf : g.wf = true) (hlen : ie.length = g.edges.length)
    (hie : BoolArgs base ie) (hag : AgreeBelow base σ σ') (i : Nat) :
    eval σ' (degE g ie i) = some (.i ((activeDegree g (truthAt σ ie) i : Nat))) := by
  unfold degE
  rw [eval_countTrueE ((g.incident i).map fun je => truthAt σ ie je.2)]
  · congr 3
    rw [List.count_eq_countP, List.countP_map, List.countP_eq_length_filter]
    unfold activeDegree
    congr 1; apply List.filter_congr; intro x _; simp
  · unfold degArgs
    rw [List.map_map, List.map_map]
    apply List.map_congr_left
    intro je hje
    have hb := incident_bounds hwf hje
    have hj : je.2 < ie.length := by omega
    simp only [Function.comp, getD_eq hj]
    exact eval_boolArg hie hag hj

theorem activeDegree_eq_countInc (g : Graph) (act : Nat → Bool) (i : Nat) :
    activeDegree g act i = countInc g i (fun je => act je.2) := rfl

end Deg

theorem andPy_right_node {a : Expr} {op : Op} {args : List Expr} (ha : a.isBoolLike = true)
    (hb : (Expr.node op args).isBoolLike = true) :
    andPy a (.node op args) = .ok (.node .and [a, .node op args]) := by
  unfold andPy
  cases a <;> simp_all

/-! ### closed form of the auxiliary-variable program -/

/-- `is_active_edge[e] & (rank[j] >= rank[i])` per incident entry. -/
def itemsE (g : Graph) (ie : List Expr) (base i : Nat) : List Expr :=
  (g.incident i).map fun je =>
    .node .and [ie.getD je.2 .litNone,
      .node .ge [.ivar (base + g.n + je.1), .ivar (base + g.n + i)]]

/-- the two constraints of vertex `i`. -/
def cycCs (g : Graph) (ie : List Expr) (base i : Nat) : List Expr :=
  [.node .eq [degE g ie i, .node .ite [.bvar (base + i), .litI 2, .litI 0]],
   .node .imp [.bvar (base + i),
     .node .le [countTrueE (itemsE g ie base i),
       .node .ite [.bvar (base + 2 * g.n + i), .litI 2, .litI 1]]]]

def cycProg (g : Graph) (ie : List Expr) (base : Nat) : Prog :=
  { decls := List.replicate g.n .bool ++ List.replicate g.n (.int 0 ((g.n : Int) - 1)) ++
      List.replicate g.n .bool,
    cs := ((List.range g.n).map (cycCs g ie base)).flatten ++
      [.node .eq [countTrueE ((List.range g.n).map fun i => .bvar (base + 2 * g.n + i)), .litI 1]] }

section Prog
variable {g : Graph} {ie : List Expr} {base : Nat}

theorem itemsE_boolLike (i : Nat) : ∀ x ∈ itemsE g ie base i, x.isBoolLike = true := by
  intro x hx
  simp only [itemsE, List.mem_map] at hx
  obtain ⟨je, _, rfl⟩ := hx
  rfl

theorem cyc_eq_prog (hn : 0 < g.n) (hwf : g.wf = true) (hlen : ie.length = g.edges.length)
    (hie : BoolArgs base ie) :
    singleCycle g ie false base = .ok (cycProg g ie base, bvars base g.n) := by
  unfold singleCycle
  simp only [Bool.false_eq_true, if_false]
  have hdecl : intArrayDecls g.n 0 ((g.n : Int) - 1) =
      .ok (List.replicate g.n (.int 0 ((g.n : Int) - 1))) := by
    unfold intArrayDecls; rw [if_neg (by omega)]
  rw [hdecl, ok_bind]
  rw [mapM_eq_ok_map (g := cycCs g ie base), ok_bind]
  · rw [countTrue_ok_of_boolLike (by
      intro x hx; simp only [List.mem_map] at hx; obtain ⟨_, _, rfl⟩ := hx; rfl)]
    rfl
  · intro i _
    rw [degreeOf_eq hwf hlen hie i, ok_bind]
    rw [mapM_eq_ok_map (g := fun je => Expr.node .and [ie.getD je.2 .litNone,
      .node .ge [.ivar (base + g.n + je.1), .ivar (base + g.n + i)]])]
    · rw [ok_bind]
      have hct := countTrue_ok_of_boolLike (itemsE_boolLike (g := g) (ie := ie) (base := base) i)
      unfold itemsE at hct
      rw [hct, ok_bind]
      rfl
    · intro je hje
      have hb := incident_bounds hwf hje
      have hj : je.2 < ie.length := by omega
      rw [getE_eq_ok hj, ok_bind, getD_eq hj]
      exact andPy_right_node (boolArg_isBoolLike hie hj) rfl

theorem cyc_ok_pos {r : Prog × List Expr}
    (hp : singleCycle g ie false base = .ok r) : 0 < g.n := by
  unfold singleCycle at hp
  simp only [Bool.false_eq_true, if_false, bind_eq_ok] at hp
  obtain ⟨a, ha, _⟩ := hp
  unfold intArrayDecls at ha
  split at ha
  · cases ha
  · omega

end Prog

/-! ### meaning of the emitted constraints under an extension `σ'` of `σ` -/

/-- `is_passed`, `rank`, `is_root` read off an assignment -/
def pa (σ' : Asg) (base : Nat) (i : Nat) : Bool := σ'.b (base + i)
def rk (σ' : Asg) (base n : Nat) (i : Nat) : Int := σ'.i (base + n + i)
def rt (σ' : Asg) (base n : Nat) (i : Nat) : Bool := σ'.b (base + 2 * n + i)

section Sem
variable {g : Graph} {ie : List Expr} {base : Nat} {σ σ' : Asg}

theorem eval_items (hwf : g.wf = true) (hlen : ie.length = g.edges.length) (hie : BoolArgs base ie)
    (hag : AgreeBelow base σ σ') (i : Nat) :
    (itemsE g ie base i).map (eval σ') =
      ((g.incident i).map (fun je => truthAt σ ie je.2 &&
        decide (rk σ' base g.n je.1 ≥ rk σ' base g.n i))).map (fun b => some (.b b)) := by
  unfold itemsE
  rw [List.map_map, List.map_map]
  apply List.map_congr_left
  intro je hje
  have hb := incident_bounds hwf hje
  have hj : je.2 < ie.length := by omega
  simp only [Function.comp, getD_eq hj]
  rw [eval_and2 (eval_boolArg hie hag hj) (eval_cmp rfl (eval_ivar ..) (eval_ivar ..))]
  rfl

theorem eval_ct (hwf : g.wf = true) (hlen : ie.length = g.edges.length) (hie : BoolArgs base ie)
    (hag : AgreeBelow base σ σ') (i : Nat) :
    eval σ' (countTrueE (itemsE g ie base i)) =
      some (.i ((countInc g i (fun je => truthAt σ ie je.2 &&
        decide (rk σ' base g.n je.1 ≥ rk σ' base g.n i)) : Nat))) := by
  rw [eval_countTrueE _ (eval_items hwf hlen hie hag i)]
  congr 3
  rw [List.count_eq_countP, List.countP_map, List.countP_eq_length_filter]
  unfold countInc
  congr 1; apply List.filter_congr; intro x _; simp

theorem sat_cycCs (hwf : g.wf = true) (hlen : ie.length = g.edges.length) (hie : BoolArgs base ie)
    (hag : AgreeBelow base σ σ') (i : Nat) :
    (∀ c ∈ cycCs g ie base i, eval σ' c = some (.b true)) ↔
      (countInc g i (fun je => truthAt σ ie je.2) = if pa σ' base i then 2 else 0) ∧
      (pa σ' base i = true →
        countInc g i (fun je => truthAt σ ie je.2 &&
          decide (rk σ' base g.n je.1 ≥ rk σ' base g.n i)) ≤ if rt σ' base g.n i then 2 else 1) := by
  have h1 := eval_cmp (op := .eq) rfl (eval_degE hwf hlen hie hag i)
    (eval_ite (eval_bvar σ' (base + i)) (eval_litI σ' 2) (eval_litI σ' 0))
  have h2 := eval_thenRaw (eval_bvar σ' (base + i))
    (eval_cmp (op := .le) rfl (eval_ct hwf hlen hie hag i)
      (eval_ite (eval_bvar σ' (base + 2 * g.n + i)) (eval_litI σ' 2) (eval_litI σ' 1)))
  unfold thenRaw at h2
  unfold cycCs
  simp only [List.mem_cons, List.not_mem_nil, or_false, forall_eq_or_imp, forall_eq]
  rw [h1, h2, activeDegree_eq_countInc]
  unfold pa rt
  cases σ'.b (base + i) <;> cases σ'.b (base + 2 * g.n + i) <;> simp <;> omega

theorem sat_one_root {n : Nat} (σ' : Asg) :
    eval σ' (.node .eq [countTrueE ((List.range n).map fun i => .bvar (base + 2 * n + i)), .litI 1]) =
      some (.b true) ↔ ((List.range n).filter (rt σ' base n)).length = 1 := by
  have hct := eval_countTrueE (σ := σ') (xs := (List.range n).map fun i => .bvar (base + 2 * n + i))
    ((List.range n).map (rt σ' base n)) (by simp [rt])
  rw [eval_cmp rfl hct (eval_litI ..)]
  rw [List.count_eq_countP, List.countP_map, List.countP_eq_length_filter]
  have : (List.filter ((fun x => x == true) ∘ rt σ' base n) (List.range n)) =
      (List.range n).filter (rt σ' base n) := by
    apply List.filter_congr; intro x _; simp
  rw [this]
  simp

theorem sat_decls (n : Nat) (lo hi : Int) (r : Nat → Int) :
    (∀ k lo' hi', (List.replicate n VarDecl.bool ++ List.replicate n (VarDecl.int lo hi) ++
        List.replicate n VarDecl.bool)[k]? = some (.int lo' hi') → lo' ≤ r k ∧ r k ≤ hi') ↔
      ∀ i, i < n → lo ≤ r (n + i) ∧ r (n + i) ≤ hi := by
  constructor
  · intro h i hi'
    apply h (n + i) lo hi
    rw [List.getElem?_append_left (by simp; omega), List.getElem?_append_right (by simp)]
    simp [hi']
  · intro h k lo' hi' hk
    by_cases h1 : k < n
    · rw [List.getElem?_append_left (by simp; omega), List.getElem?_append_left (by simpa using h1)] at hk
      simp [h1] at hk
    · by_cases h2 : k < n + n
      · rw [List.getElem?_append_left (by simp; omega), List.getElem?_append_right (by simp; omega)] at hk
        rw [List.length_replicate, List.getElem?_replicate] at hk
        split at hk
        · cases hk
          have := h (k - n) (by omega)
          rwa [show n + (k - n) = k by omega] at this
        · cases hk
      · rw [List.getElem?_append_right (by simp; omega)] at hk
        have := List.mem_of_getElem? hk
        simp at this

theorem satFrag_cycProg_iff (hwf : g.wf = true) (hlen : ie.length = g.edges.length)
    (hie : BoolArgs base ie) (hag : AgreeBelow base σ σ') :
    SatFrag base (cycProg g ie base) σ' ↔
      (∀ i, i < g.n → 0 ≤ rk σ' base g.n i ∧ rk σ' base g.n i ≤ (g.n : Int) - 1) ∧
      (∀ i, i < g.n →
        (countInc g i (fun je => truthAt σ ie je.2) = if pa σ' base i then 2 else 0) ∧
        (pa σ' base i = true →
          countInc g i (fun je => truthAt σ ie je.2 &&
            decide (rk σ' base g.n je.1 ≥ rk σ' base g.n i)) ≤ if rt σ' base g.n i then 2 else 1)) ∧
      ((List.range g.n).filter (rt σ' base g.n)).length = 1 := by
  unfold SatFrag cycProg
  simp only
  refine and_congr ?_ ?_
  · have := sat_decls g.n 0 ((g.n : Int) - 1) (fun k => σ'.i (base + k))
    simp only [← Nat.add_assoc] at this
    exact this
  · simp only [List.mem_append, List.mem_flatten, List.mem_map, List.mem_range, List.mem_singleton]
    constructor
    · intro h
      constructor
      · intro i hi
        rw [← sat_cycCs hwf hlen hie hag i]
        intro c hc
        exact h c (.inl ⟨_, ⟨i, hi, rfl⟩, hc⟩)
      · rw [← sat_one_root]
        exact h _ (.inr rfl)
    · rintro ⟨h1, h2⟩ c hc
      rcases hc with ⟨l, ⟨i, hi, rfl⟩, hc⟩ | rfl
      · exact (sat_cycCs hwf hlen hie hag i).2 (h1 i hi) c hc
      · exact (sat_one_root σ').2 h2

end Sem

/-! ### main theorems of the layer -/

/-- Extension of `σ` by the certificate's values. -/
def extend (σ : Asg) (base n : Nat) (passed : Nat → Bool) (rank : Nat → Int) (root : Nat → Bool) :
    Asg where
  i := fun id => if base + n ≤ id then rank (id - (base + n)) else σ.i id
  b := fun id => if base + 2 * n ≤ id then root (id - (base + 2 * n))
    else if base ≤ id then passed (id - base) else σ.b id

theorem extend_agree (σ : Asg) (base n : Nat) (passed : Nat → Bool) (rank : Nat → Int)
    (root : Nat → Bool) : AgreeBelow base σ (extend σ base n passed rank root) := by
  intro id hid
  simp only [extend]
  rw [if_neg (by omega), if_neg (by omega), if_neg (by omega)]
  exact ⟨rfl, rfl⟩

theorem rk_extend (σ : Asg) (base n : Nat) (passed : Nat → Bool) (rank : Nat → Int)
    (root : Nat → Bool) : rk (extend σ base n passed rank root) base n = rank := by
  funext i; simp [rk, extend]

theorem rt_extend (σ : Asg) (base n : Nat) (passed : Nat → Bool) (rank : Nat → Int)
    (root : Nat → Bool) : rt (extend σ base n passed rank root) base n = root := by
  funext i; simp [rt, extend]

theorem pa_extend (σ : Asg) (base n : Nat) (passed : Nat → Bool) (rank : Nat → Int)
    (root : Nat → Bool) {i : Nat} (hi : i < n) :
    pa (extend σ base n passed rank root) base i = passed i := by
  simp only [pa, extend]
  rw [if_neg (by omega), if_pos (by omega)]
  congr 1; omega

theorem cyc_realizable_iff_cert {g : Graph} {ie : List Expr} {base : Nat} (σ : Asg)
    (hwf : g.wf = true) (hlen : ie.length = g.edges.length) (hie : BoolArgs base ie) :
    Realizable base (cycProg g ie base) σ ↔ Nonempty (CycleCert g (truthAt σ ie)) := by
  constructor
  · rintro ⟨σ', hag, hs⟩
    obtain ⟨hb, hloc, hroot⟩ := (satFrag_cycProg_iff hwf hlen hie hag).1 hs
    exact ⟨{ passed := pa σ' base, rank := rk σ' base g.n, root := rt σ' base g.n,
             rank_lo := fun i hi => (hb i hi).1, rank_hi := fun i hi => (hb i hi).2,
             deg := fun i hi => (hloc i hi).1, loc := fun i hi => (hloc i hi).2,
             one_root := hroot }⟩
  · rintro ⟨c⟩
    refine ⟨extend σ base g.n c.passed c.rank c.root, extend_agree _ _ _ _ _ _, ?_⟩
    rw [satFrag_cycProg_iff hwf hlen hie (extend_agree _ _ _ _ _ _), rk_extend, rt_extend]
    refine ⟨fun i hi => ⟨c.rank_lo i hi, c.rank_hi i hi⟩, fun i hi => ?_, c.one_root⟩
    rw [pa_extend _ _ _ _ _ _ hi]
    exact ⟨c.deg i hi, c.loc i hi⟩

/-- In every satisfying assignment the `is_passed` variables mark exactly the visited vertices. -/
theorem cyc_passed_exact {g : Graph} {ie : List Expr} {base : Nat} {σ σ' : Asg}
    (hwf : g.wf = true) (hlen : ie.length = g.edges.length) (hie : BoolArgs base ie)
    (hag : AgreeBelow base σ σ') (hs : SatFrag base (cycProg g ie base) σ') :
    ∀ i, i < g.n → σ'.b (base + i) = visited g (truthAt σ ie) i := by
  intro i hi
  obtain ⟨_, hloc, _⟩ := (satFrag_cycProg_iff hwf hlen hie hag).1 hs
  have h := (hloc i hi).1
  unfold visited
  rw [activeDegree_eq_countInc, h]
  unfold pa
  cases σ'.b (base + i) <;> simp

end Cspuz.Proofs.C06L1
