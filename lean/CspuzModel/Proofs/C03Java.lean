/-
  C03: the deduction loop of CspuzSugarInterface.java (Model/SugarJava.lean), run on a correct `solveCSP` oracle,
  honours the protocol: it is a `SolverCorrect` external solver (in particular it prints exactly the exact facts).
-/
import CspuzModel.Model.SugarJava
import CspuzModel.Proofs.C02Loop
import CspuzModel.Proofs.C03Exists
namespace Cspuz.Proofs.C03Java
open Cspuz Cspuz.Sugar Cspuz.SugarSyntax Cspuz.SugarJava Cspuz.Proofs.C03Exists
open Cspuz.Proofs.C02Loop (eval_or_node)

/-- `solveCSP()` is a correct decision procedure for the current problem. -/
def OracleCorrect (O : Oracle) : Prop :=
  ∀ vars cs, (∀ σ, O vars cs = some σ → SatV vars cs σ) ∧ (O vars cs = none → ¬ ∃ σ, SatV vars cs σ)

/-! ### the refutingJ clause -/

/-- the recorded answer has the type of the variable -/
def Typed (e : Entry) : Prop := ∃ σ, valV σ e.v = e.ans

theorem eval_clauseExpr (σ : Asg) {e : Entry} (ht : Typed e) :
    eval σ (clauseExpr e) = some (.b (decide (valV σ e.v ≠ e.ans))) := by
  obtain ⟨σ', hσ'⟩ := ht
  obtain ⟨⟨id, d⟩, live, ans⟩ := e
  cases d with
  | bool =>
    simp only [valV] at hσ' ⊢
    subst hσ'
    simp [clauseExpr, evalOp, allBools, bne]
    try (rw [Bool.eq_iff_iff]; simp)
  | int lo hi =>
    simp only [valV] at hσ' ⊢
    subst hσ'
    simp [clauseExpr, evalOp, allInts, cmpOp, bne]
    try (rw [Bool.eq_iff_iff]; simp)

theorem eval_refuting (σ : Asg) {es : List Entry} (ht : ∀ e ∈ es, Typed e) :
    eval σ (refutingJ es) = some (.b true) ↔ ∃ e ∈ es, e.live = true ∧ valV σ e.v ≠ e.ans := by
  have hb : ∀ x ∈ es.filterMap clause, ∃ b, eval σ x = some (.b b) := by
    intro x hx
    obtain ⟨e, he, hc⟩ := List.mem_filterMap.1 hx
    unfold clause at hc
    split at hc
    · cases hc; exact ⟨_, eval_clauseExpr σ (ht e he)⟩
    · cases hc
  rw [refutingJ, (eval_or_node σ _ hb).2]
  constructor
  · rintro ⟨x, hx, hv⟩
    obtain ⟨e, he, hc⟩ := List.mem_filterMap.1 hx
    unfold clause at hc
    split at hc
    · rename_i hl
      cases hc
      rw [eval_clauseExpr σ (ht e he)] at hv
      simp only [Option.some.injEq, Val.b.injEq, decide_eq_true_eq] at hv
      exact ⟨e, he, hl, hv⟩
    · cases hc
  · rintro ⟨e, he, hl, hne⟩
    refine ⟨clauseExpr e, List.mem_filterMap.2 ⟨e, he, by simp [clause, hl]⟩, ?_⟩
    rw [eval_clauseExpr σ (ht e he)]
    simp [hne]

theorem satV_snoc {vars : List SVar} {cs : List Expr} {x : Expr} {σ : Asg} :
    SatV vars (cs ++ [x]) σ ↔ SatV vars cs σ ∧ eval σ x = some (.b true) := by
  unfold SatV
  constructor
  · rintro ⟨h1, h2⟩
    exact ⟨⟨h1, fun c hc => h2 c (List.mem_append_left _ hc)⟩, h2 x (by simp)⟩
  · rintro ⟨⟨h1, h2⟩, h3⟩
    refine ⟨h1, fun c hc => ?_⟩
    rcases List.mem_append.1 hc with hc | hc
    · exact h2 c hc
    · simp only [List.mem_singleton] at hc; subst hc; exact h3

/-! ### the measure -/

def liveCount (es : List Entry) : Nat := (es.filter (·.live)).length

theorem liveCount_le_length (es : List Entry) : liveCount es ≤ es.length := List.length_filter_le _ _

theorem liveCount_demote_le (σ : Asg) : ∀ es : List Entry, liveCount (demoteJ σ es) ≤ liveCount es
  | [] => Nat.le_refl _
  | e :: r => by
    have ih := liveCount_demote_le σ r
    simp only [liveCount, demoteJ, List.map_cons, List.filter_cons] at ih ⊢
    by_cases hv : valV σ e.v = e.ans
    · simp only [hv, if_true]
      split <;> simp <;> omega
    · simp only [hv, if_false, Bool.false_eq_true]
      split <;> simp <;> omega

theorem liveCount_demote_lt (σ : Asg) : ∀ es : List Entry,
    (∃ e ∈ es, e.live = true ∧ valV σ e.v ≠ e.ans) → liveCount (demoteJ σ es) < liveCount es
  | [], ⟨_, he, _⟩ => by simp at he
  | e :: r, ⟨e', he', hl, hne⟩ => by
    have hle := liveCount_demote_le σ r
    simp only [liveCount, demoteJ, List.map_cons, List.filter_cons] at hle ⊢
    rcases List.mem_cons.1 he' with h | h
    · subst h
      simp only [hne, if_false, Bool.false_eq_true, hl, if_true, List.length_cons]
      omega
    · have ih := liveCount_demote_lt σ r ⟨e', h, hl, hne⟩
      simp only [liveCount, demoteJ] at ih
      by_cases hv : valV σ e.v = e.ans
      · simp only [hv, if_true]
        split <;> simp <;> omega
      · simp only [hv, if_false, Bool.false_eq_true]
        split <;> simp <;> omega

/-! ### the loop -/

theorem demote_v (σ : Asg) (es : List Entry) : (demoteJ σ es).map (·.v) = es.map (·.v) := by
  simp only [demoteJ, List.map_map]
  apply List.map_congr_left
  intro e _
  simp only [Function.comp]
  split <;> rfl

theorem mem_demote {σ : Asg} {es : List Entry} {e' : Entry} (h : e' ∈ demoteJ σ es) :
    ∃ e ∈ es, e'.v = e.v ∧ e'.ans = e.ans ∧
      ((valV σ e.v = e.ans ∧ e' = e) ∨ (valV σ e.v ≠ e.ans ∧ e'.live = false)) := by
  obtain ⟨e, he, rfl⟩ := List.mem_map.1 h
  refine ⟨e, he, ?_⟩
  split
  · rename_i hv; exact ⟨rfl, rfl, Or.inl ⟨hv, rfl⟩⟩
  · rename_i hv; exact ⟨rfl, rfl, Or.inr ⟨hv, rfl⟩⟩

/-- Invariant of the loop and its consequence at exit. -/
theorem loop_spec {O : Oracle} (hO : OracleCorrect O) (vars : List SVar) (cs : List Expr) (isKey : Entry → Prop) :
    ∀ (fuel : Nat) (problem : List Expr) (es : List Entry),
      liveCount es < fuel →
      (∀ e ∈ es, ∃ σ, SatV vars cs σ ∧ valV σ e.v = e.ans) →
      (∀ e ∈ es, isKey e → e.live = false → ∃ σ, SatV vars cs σ ∧ valV σ e.v ≠ e.ans) →
      (∀ σ, SatV vars cs σ → (∃ e ∈ es, e.live = true ∧ valV σ e.v ≠ e.ans) → SatV vars problem σ) →
      (∀ σ, SatV vars problem σ → SatV vars cs σ) →
      (∀ e e', isKey e → e'.v = e.v → isKey e') →
      (loop O vars fuel problem es).map (·.v) = es.map (·.v) ∧
      (∀ e ∈ loop O vars fuel problem es, ∃ σ, SatV vars cs σ ∧ valV σ e.v = e.ans) ∧
      (∀ e ∈ loop O vars fuel problem es, isKey e → e.live = false → ∃ σ, SatV vars cs σ ∧ valV σ e.v ≠ e.ans) ∧
      (∀ e ∈ loop O vars fuel problem es, e.live = true → ∀ σ, SatV vars cs σ → valV σ e.v = e.ans)
  | 0, _, _, h, _, _, _, _, _ => absurd h (Nat.not_lt_zero _)
  | fuel + 1, problem, es, hfuel, hA, hD, hJ, hP, hK => by
    have hT : ∀ e ∈ es, Typed e := fun e he => by obtain ⟨σ, _, h⟩ := hA e he; exact ⟨σ, h⟩
    rw [loop]
    cases hr : O vars (problem ++ [refutingJ es]) with
    | none =>
      refine ⟨rfl, hA, hD, ?_⟩
      intro e he hl σ hσ
      apply Classical.byContradiction
      intro hne
      have hex : ∃ e ∈ es, e.live = true ∧ valV σ e.v ≠ e.ans := ⟨e, he, hl, hne⟩
      exact (hO vars _).2 hr ⟨σ, satV_snoc.2 ⟨hJ σ hσ hex, (eval_refuting σ hT).2 hex⟩⟩
    | some σ₁ =>
      have hs := satV_snoc.1 ((hO vars _).1 σ₁ hr)
      have hσ₁ : SatV vars cs σ₁ := hP σ₁ hs.1
      have hex := (eval_refuting σ₁ hT).1 hs.2
      have ih := loop_spec hO vars cs isKey fuel (problem ++ [refutingJ es]) (demoteJ σ₁ es)
        (by have := liveCount_demote_lt σ₁ es hex; omega)
        (by
          intro e' he'
          obtain ⟨e, he, hv, ha, _⟩ := mem_demote he'
          obtain ⟨σ, hσ, h⟩ := hA e he
          exact ⟨σ, hσ, by rw [hv, ha]; exact h⟩)
        (by
          intro e' he' hk hl
          obtain ⟨e, he, hv, ha, hcase⟩ := mem_demote he'
          rcases hcase with ⟨_, rfl⟩ | ⟨hne, _⟩
          · exact hD e' he hk hl
          · exact ⟨σ₁, hσ₁, by rw [hv, ha]; exact hne⟩)
        (by
          intro σ hσ ⟨e', he', hl, hne⟩
          obtain ⟨e, he, hv, ha, hcase⟩ := mem_demote he'
          have hex' : ∃ e ∈ es, e.live = true ∧ valV σ e.v ≠ e.ans := by
            rcases hcase with ⟨_, rfl⟩ | ⟨_, hdead⟩
            · exact ⟨e', he, hl, hne⟩
            · rw [hdead] at hl; cases hl
          exact satV_snoc.2 ⟨hJ σ hσ hex', (eval_refuting σ hT).2 hex'⟩)
        (fun σ hσ => hP σ (satV_snoc.1 hσ).1)
        hK
      rw [demote_v] at ih
      exact ih

theorem filterMap_congr' {α β} {f g : α → Option β} : ∀ {l : List α}, (∀ x ∈ l, f x = g x) →
    l.filterMap f = l.filterMap g
  | [], _ => rfl
  | x :: r, h => by
    simp only [List.filterMap_cons, h x (by simp), filterMap_congr' fun y hy => h y (List.mem_cons_of_mem _ hy)]

/-! ### `run()` honours the protocol -/

theorem valV_typed_line (keys : List Str) (e : Entry) {σ : Asg} (ht : valV σ e.v = e.ans) (F : SVar → Option Val)
    (hF : F e.v = if e.live then some e.ans else none) (hk : keys.contains e.v.name = true) :
    factLineOf keys e = factLine keys F e.v := by
  obtain ⟨⟨id, d⟩, live, ans⟩ := e
  simp only at ht hF hk
  subst ht
  cases live
  · simp only [Bool.false_eq_true, if_false] at hF
    simp only [factLineOf, factLine, hk, hF, Bool.and_false, Bool.false_eq_true, if_false, if_true]
    try (cases d <;> rfl)
  · simp only [if_true] at hF
    simp only [factLineOf, factLine, hk, hF, Bool.and_true, if_true]
    cases d <;> rfl

theorem run_correct {O : Oracle} (hO : OracleCorrect O) : SolverCorrect (run O) := by
  intro text vars cs keys hparse
  cases keys with
  | none =>
    cases hr : O vars cs with
    | none =>
      right
      exact ⟨(hO vars cs).2 hr, by simp [run, hparse, hr]⟩
    | some σ =>
      left
      exact ⟨σ, (hO vars cs).1 σ hr, by simp [run, hparse, hr]⟩
  | some ks =>
    cases hr : O vars cs with
    | none =>
      left
      exact ⟨(hO vars cs).2 hr, by simp [run, hparse, hr]⟩
    | some σ₀ =>
      right
      have hσ₀ := (hO vars cs).1 σ₀ hr
      have hsat : ∃ σ, SatV vars cs σ := ⟨σ₀, hσ₀⟩
      refine ⟨hsat, exactF vars cs, fun v _ => exactF_spec hsat v, ?_⟩
      let vs := intVarsOf vars ++ boolVarsOf vars
      let es := vs.map fun v => ({ v := v, live := ks.contains v.name, ans := valV σ₀ v } : Entry)
      have hspec := loop_spec hO vars cs (fun e => ks.contains e.v.name = true) (es.length + 1) cs es
        (by have := liveCount_le_length es; omega)
        (by
          intro e he
          obtain ⟨v, _, rfl⟩ := List.mem_map.1 he
          exact ⟨σ₀, hσ₀, rfl⟩)
        (by
          intro e he hk hl
          obtain ⟨v, _, rfl⟩ := List.mem_map.1 he
          simp only at hk hl
          rw [hk] at hl; cases hl)
        (fun σ hσ _ => hσ) (fun σ hσ => hσ)
        (by intro e e' hk hv; simp only [hv]; exact hk)
      obtain ⟨hvs, hA, hD, hL⟩ := hspec
      have hrun : run O text = unlines (['s', 'a', 't'] :: (loop O vars (es.length + 1) cs es).filterMap (factLineOf ks)) := by
        simp only [run, hparse, hr]
        rfl
      rw [hrun]
      have hlines : (loop O vars (es.length + 1) cs es).filterMap (factLineOf ks)
          = vs.filterMap (factLine ks (exactF vars cs)) := by
        have hmapv : es.map (·.v) = vs := by
          simp only [es, List.map_map]
          exact List.map_id'' (fun v => rfl) vs
        rw [← hmapv, ← hvs, List.filterMap_map]
        apply filterMap_congr'
        intro e he
        simp only [Function.comp]
        obtain ⟨σa, hσa, hans⟩ := hA e he
        by_cases hk : ks.contains e.v.name = true
        · apply valV_typed_line ks e hans _ _ hk
          have hfact := exactF_spec hsat e.v
          cases hl : e.live with
          | true =>
            simp only [if_true]
            have hcommon := hL e he hl
            cases hF : exactF vars cs e.v with
            | none =>
              rw [hF] at hfact
              obtain ⟨σ₁, σ₂, h1, h2, hne⟩ := hfact
              exact absurd ((hcommon σ₁ h1).trans (hcommon σ₂ h2).symm) hne
            | some x =>
              rw [hF] at hfact
              rw [← hfact σa hσa, hans]
          | false =>
            simp only [Bool.false_eq_true, if_false]
            obtain ⟨σd, hσd, hne⟩ := hD e he hk hl
            cases hF : exactF vars cs e.v with
            | none => rfl
            | some x =>
              rw [hF] at hfact
              exact absurd ((hfact σd hσd).trans ((hfact σa hσa).symm.trans hans)) hne
        · have hk' : ks.contains e.v.name = false := by simpa using hk
          simp only [factLineOf, factLine, hk', Bool.false_and, Bool.false_eq_true, if_false]
      rw [hlines]
      simp [formatFacts, vs, List.filterMap_append]

end Cspuz.Proofs.C03Java
