/-
  C07 assembly: the four theorems used by Properties/C07.lean.
    L1  (C07L1):   emitted program realisable ⇔ a `GroupCert` exists (same group ids)
    L2  (C07L2):   certificate ⇒ the realised partition is valid (connected blocks, sizes)
        (C07L2c):  valid partition ⇒ certificate
    cut (C07Cut):  certificate with ids differing exactly across borders ⇔ `BordersOK`
    native route (C07Prim): `graph-division` node ⇔ `BordersOK`
-/
import CspuzModel.Proofs.C07L1
import CspuzModel.Proofs.C07Cut
import CspuzModel.Proofs.C07Prim
namespace Cspuz.Proofs.C07
open Cspuz Cspuz.Spec
open Cspuz.Proofs.C07L1 (withSizes perEdge)

theorem realises_congr {n : Nat} {P : VPartition n} {f f' : Nat → Int}
    (h : ∀ v, v < n → f v = f' v) : Realises n P f ↔ Realises n P f' := by
  unfold Realises
  constructor
  · intro hr u v hu hv
    rw [← h u hu, ← h v hv]; exact hr u v hu hv
  · intro hr u v hu hv
    rw [h u hu, h v hv]; exact hr u v hu hv

theorem groups_exact :
    ∀ (g : Graph) (gs : GroupSize) (base : Nat) (p : Prog) (ids : List Expr) (σ : Asg) (P : VPartition g.n),
      g.wf = true → SizeArgs base g.n gs →
      variableGroups g gs base = .ok (p, ids) →
      ids = ivars base g.n ∧
      ((∃ σ', AgreeBelow base σ σ' ∧ SatFrag base p σ' ∧ Realises g.n P (fun v => σ'.i (base + v))) ↔
        PartitionOK g P (sizeSpec σ gs)) := by
  intro g gs base p ids σ P hwf hsz hp
  refine ⟨(C07L1.groups_ok hp).1, ?_⟩
  constructor
  · rintro ⟨σ', hag, hs, hR⟩
    obtain ⟨C, hC⟩ := C07L1.groups_sat_cert hwf hsz hp hag hs
    have hR' : Realises g.n P C.gid := (realises_congr hC).2 hR
    apply C07L2.cert_ok hwf C P hR'
    · cases gs with
      | none => exact Or.inr (fun _ => rfl)
      | scalar s => exact Or.inl rfl
      | perVertex l => exact Or.inl rfl
    · cases gs with
      | none => exact Or.inl rfl
      | scalar s => exact Or.inr (fun _ _ => rfl)
      | perVertex l => exact Or.inl rfl
  · intro hok
    obtain ⟨C, hR⟩ := C07L2c.ok_cert hwf (sizeSpec σ gs) (withSizes gs) (perEdge gs) hok
    obtain ⟨σ', hag, hs, hC⟩ := C07L1.groups_cert_sat σ hwf hsz hp C
    exact ⟨σ', hag, hs, (realises_congr hC).2 hR⟩

theorem groups_nosize :
    ∀ (g : Graph) (base : Nat) (p : Prog) (ids : List Expr) (σ : Asg) (P : VPartition g.n),
      g.wf = true → variableGroups g .none base = .ok (p, ids) →
      ((∃ σ', AgreeBelow base σ σ' ∧ SatFrag base p σ' ∧ Realises g.n P (fun v => σ'.i (base + v))) ↔
        ∀ v, v < g.n → ((toSimple g).induce (blockOf g P v)).Preconnected) := by
  intro g base p ids σ P hwf hp
  rw [(groups_exact g .none base p ids σ P hwf trivial hp).2]
  unfold PartitionOK
  constructor
  · exact fun h => h.1
  · intro h
    refine ⟨h, ?_⟩
    intro v s _ hs
    cases hs

theorem borders_aux :
    ∀ (g : Graph) (gs : List (Option Expr)) (border : List Expr) (base : Nat) (p : Prog) (σ : Asg),
      g.wf = true → SizeArgs base g.n (.perVertex gs) → BoolArgs base border →
      variableGroupsWithBorders g gs border false base = .ok p →
      (Realizable base p σ ↔ BordersOK g (truthAt σ border) (sizeSpec σ (.perVertex gs))) := by
  intro g gs border base p σ hwf hsz hb hp
  exact (C07L1.borders_aux_iff hwf hsz hb hp).trans (C07Cut.cert_iff_bordersOK hwf)

theorem borders_prim :
    ∀ (g : Graph) (gs : List (Option Expr)) (border : List Expr) (base : Nat) (p : Prog) (σ : Asg),
      g.wf = true → SizeArgs base g.n (.perVertex gs) → BoolArgs base border →
      variableGroupsWithBorders g gs border true base = .ok p →
      (Realizable base p σ ↔ BordersOK g (truthAt σ border) (sizeSpec σ (.perVertex gs))) :=
  C07Prim.borders_prim

/-! ### non-vacuity: the path 0–1–2 with `group_size = 3` -/
namespace NonVacuity

def g3 : Graph := ⟨3, [(0, 1), (1, 2)]⟩

/-- the partition with a single block -/
def oneBlock : VPartition g3.n where
  same _ _ := True
  refl _ _ := trivial
  symm _ _ _ := trivial
  trans _ _ _ _ _ := trivial

/-- the generator succeeds -/
example : ∃ r, variableGroups g3 (.scalar (.litI 3)) 0 = .ok r := ⟨_, rfl⟩

theorem block_univ (v : Nat) : blockOf g3 oneBlock v = Set.univ := by
  ext w; exact ⟨fun _ => trivial, fun _ => trivial⟩

/-- the one-block partition is valid for size 3 -/
theorem oneBlock_ok (σ : Asg) : PartitionOK g3 oneBlock (sizeSpec σ (.scalar (.litI 3))) := by
  constructor
  · intro v _
    have h01 : (toSimple g3).Adj ⟨0, by decide⟩ ⟨1, by decide⟩ := ⟨by decide, 0, Or.inl rfl⟩
    have h12 : (toSimple g3).Adj ⟨1, by decide⟩ ⟨2, by decide⟩ := ⟨by decide, 1, Or.inl rfl⟩
    have key : ∀ a : ↥(blockOf g3 oneBlock v),
        ((toSimple g3).induce (blockOf g3 oneBlock v)).Reachable ⟨⟨1, by decide⟩, trivial⟩ a := by
      rintro ⟨⟨i, hi⟩, ha⟩
      match i, hi with
      | 0, _ => exact SimpleGraph.Adj.reachable (show (toSimple g3).Adj _ _ from h01.symm)
      | 1, _ => exact SimpleGraph.Reachable.refl _
      | 2, _ => exact SimpleGraph.Adj.reachable (show (toSimple g3).Adj _ _ from h12)
      | n + 3, h => exact absurd h (by simp [g3])
    intro a b
    exact (key a).symm.trans (key b)
  · intro v s _ hs
    have : sizeSpec σ (.scalar (.litI 3)) v = some 3 := by
      simp [sizeSpec, Cspuz.Proofs.eval_litI]
    rw [this] at hs
    cases hs
    unfold blockSize
    rw [block_univ, Set.ncard_univ, Nat.card_fin]
    rfl

/-- hence (left-hand side of `groups_exact`) the emitted program has a satisfying completion whose
group ids are all equal -/
example (σ : Asg) (p : Prog) (ids : List Expr)
    (hp : variableGroups g3 (.scalar (.litI 3)) 0 = .ok (p, ids)) :
    ∃ σ', AgreeBelow 0 σ σ' ∧ SatFrag 0 p σ' ∧ Realises g3.n oneBlock (fun v => σ'.i (0 + v)) :=
  ((groups_exact g3 (.scalar (.litI 3)) 0 p ids σ oneBlock rfl ⟨rfl, rfl⟩ hp).2).2 (oneBlock_ok σ)

/-- and the two-block partition {0}, {1,2} is rejected (sizes 1 and 2 ≠ 3): the right-hand side is
not trivially true -/
def split : VPartition g3.n where
  same u v := (u = 0 ↔ v = 0)
  refl _ _ := Iff.rfl
  symm _ _ h := h.symm
  trans _ _ _ h1 h2 := h1.trans h2

theorem split_not_ok (σ : Asg) : ¬ PartitionOK g3 split (sizeSpec σ (.scalar (.litI 3))) := by
  rintro ⟨_, h⟩
  have hs : sizeSpec σ (.scalar (.litI 3)) 0 = some 3 := by
    simp [sizeSpec, Cspuz.Proofs.eval_litI]
  have h3 := h 0 3 (by decide) hs
  have hset : blockOf g3 split 0 = {(⟨0, by decide⟩ : Fin g3.n)} := by
    ext w
    show ((0 : Nat) = 0 ↔ w.1 = 0) ↔ w = ⟨0, by decide⟩
    rw [Fin.ext_iff]
    simp
  unfold blockSize at h3
  rw [hset, Set.ncard_singleton] at h3
  omega

end NonVacuity

end Cspuz.Proofs.C07
