/-
  C17, second half, for NESTED `Seq` / `Grid` terms (`SeqGridTerm`): a `Seq`/`Grid` whose base is a closed flat base or
  again such a term.  Since `Grid.serialize` asks its inner `Seq` for item 0 of the fresh one-element list (and no
  longer for the caller's index), a `Grid` serializes at every position of an enclosing `Seq`/`Grid`, so the interface
  `Reenc.BaseOK` of Proofs/C17Reenc.lean (decoded items are `bool`-free, served by the serializer at every
  position, and tight) lifts from a base `b` to `Seq(b, n)` and to `Grid(b, h, w)`:

  * `baseOK_seq`, `baseOK_grid`: the lifting, with the decoded items described by `SeqP` / `GridP`;
  * `baseOK_nested`: every well-formed `SeqGridTerm` satisfies the interface (induction on the nesting);
  * `nested_dom`, `nested_reencodable`: a problem decoded by a well-formed `SeqGridTerm` lies in `Dom`, hence
    (by `roundtrip` of C15) serializes, and its canonical text decodes to the same problem.
  Helper lemmas live in the namespace `Cspuz.Ser.Nested`.
-/
import CspuzModel.Proofs.C17Reenc
set_option linter.unusedVariables false
namespace Cspuz.Ser.Nested
open Cspuz Cspuz.Ser Cspuz.Ser.Reenc

/-- what `Seq(b, n)` decodes when `b` decodes items satisfying `P`: a list of exactly `n` such items -/
def SeqP (P : PyVal → Prop) (n : Nat) (v : PyVal) : Prop :=
  ∃ l, v = .list l ∧ l.length = n ∧ ∀ x ∈ l, P x

/-- what `Grid(b, h, w)` decodes: the `h` rows of width `w` cut from a list of `h * w` items satisfying `P` -/
def GridP (P : PyVal → Prop) (h w : Nat) (v : PyVal) : Prop :=
  ∃ d2, v = .list (gridRows w d2 h 0) ∧ d2.length = h * w ∧ ∀ x ∈ d2, P x

theorem wf_seq_parts {b : Comb} {n : Nat} (hw : wf (.seq b n) = true) : wf b = true ∧ productive b = true := by
  simp only [wf, Bool.and_eq_true] at hw
  exact hw.1

theorem wf_grid_parts {b : Comb} {dims : Option (Nat × Nat)} (hw : wf (.grid b dims) = true) :
    wf b = true ∧ productive b = true := by
  simp only [wf, Bool.and_eq_true] at hw
  exact hw.1

/-- **`Seq` over a base satisfying the interface satisfies it** -/
theorem baseOK_seq (env : Env) (b : Comb) (n : Nat) (P : PyVal → Prop) (hw : wf (.seq b n) = true)
    (hB : BaseOK (ser b env) (de b env) (Tight b env) P) :
    BaseOK (ser (.seq b n) env) (de (.seq b n) env) (Tight (.seq b n) env) (SeqP P n) where
  closed := by
    intro s i k items h v hv
    simp only [de] at h
    obtain ⟨l, rfl, hl, hP⟩ := seqDe_all _ P hB.closed n s i k items h
    simp only [List.mem_singleton] at hv
    subst hv
    exact ⟨l, rfl, hl, hP⟩
  nobool := by
    rintro v ⟨l, rfl, _, hP⟩
    simp only [PyVal.noBool]
    exact (noBoolL_iff l).mpr fun x hx => hB.nobool x (hP x hx)
  serve := by
    intro L hL p hp
    have hv : L[p]? = some L[p] := List.getElem?_eq_getElem hp
    obtain ⟨l, hl, hlen, hP⟩ := hL _ (getElem?_mem' hv)
    obtain ⟨t, ht⟩ := seqSerLoop_served env b (wf_seq_parts hw).2 l (hB.serve l hP)
    refine ⟨(1, t), ?_⟩
    simp only [ser, seqSer]
    rw [withItem_some L p _ hv, hl]
    simp [← hlen, ht]
  tight := by
    intro L hL p
    simp only [Tight]
    intro l hl
    obtain ⟨l', hl', hlen, hP⟩ := hL _ (getElem?_mem' hl)
    cases hl'
    exact ⟨by omega, fun q => hB.tight l hP q⟩

/-- **`Grid` over a base satisfying the interface satisfies it** (at every position of the enclosing list: the inner
`Seq` is asked for item 0 of the fresh one-element list) -/
theorem baseOK_grid (env : Env) (b : Comb) (dims : Option (Nat × Nat)) (P : PyVal → Prop)
    (hw : wf (.grid b dims) = true) (hB : BaseOK (ser b env) (de b env) (Tight b env) P) :
    BaseOK (ser (.grid b dims) env) (de (.grid b dims) env) (Tight (.grid b dims) env)
      (GridP P (gridDims env dims).1 (gridDims env dims).2) where
  closed := by
    intro s i k items h v hv
    simp only [de] at h
    obtain ⟨d2, rfl, hl, hP⟩ := gridDe_all _ P hB.closed _ _ s i k items h
    simp only [List.mem_singleton] at hv
    subst hv
    exact ⟨d2, rfl, hl, hP⟩
  nobool := by
    rintro v ⟨d2, rfl, hlen, hP⟩
    simp only [PyVal.noBool]
    exact noBoolL_gridRows _ _ d2 hlen ((noBoolL_iff d2).mpr fun x hx => hB.nobool x (hP x hx))
  serve := by
    intro L hL p hp
    have hv : L[p]? = some L[p] := List.getElem?_eq_getElem hp
    obtain ⟨d2, hl, hlen, hP⟩ := hL _ (getElem?_mem' hv)
    obtain ⟨hshape, hflat⟩ := gridRows_shape _ _ d2 hlen
    obtain ⟨hfl, _⟩ := gridFlatten_shape _ _ _ hshape
    rw [hflat] at hfl
    obtain ⟨t, ht⟩ := seqSerLoop_served env b (wf_grid_parts hw).2 d2 (hB.serve d2 hP)
    refine ⟨(1, t), ?_⟩
    simp only [ser, gridSer]
    rw [withItem_some L p _ hv, hl]
    simp [hfl, seqSer, withItem, ← hlen, ht]
  tight := by
    intro L hL p
    simp only [Tight]
    intro rows hrows
    obtain ⟨d2, hl, hlen, hP⟩ := hL _ (getElem?_mem' hrows)
    cases hl
    obtain ⟨hshape, hflat⟩ := gridRows_shape _ _ d2 hlen
    refine ⟨hshape, fun q => ?_⟩
    rw [hflat]
    exact hB.tight d2 hP q

/-- **every well-formed nested `Seq`/`Grid` term satisfies the interface** (for some description `P` of its items) -/
theorem baseOK_nested (env : Env) (c : Comb) (hc : SeqGridTerm c) (hw : wf c = true) :
    ∃ P, BaseOK (ser c env) (de c env) (Tight c env) P := by
  induction hc with
  | seqFlat b n hf hcl =>
    exact ⟨_, baseOK_seq env b n _ hw (baseOK_flat env b (wf_seq_parts hw).1 hf hcl)⟩
  | gridFlat b dims hf hcl =>
    exact ⟨_, baseOK_grid env b dims _ hw (baseOK_flat env b (wf_grid_parts hw).1 hf hcl)⟩
  | seqNest b n _ ih =>
    obtain ⟨P, hP⟩ := ih (wf_seq_parts hw).1
    exact ⟨_, baseOK_seq env b n P hw hP⟩
  | gridNest b dims _ ih =>
    obtain ⟨P, hP⟩ := ih (wf_grid_parts hw).1
    exact ⟨_, baseOK_grid env b dims P hw hP⟩

theorem noRooms_nested (c : Comb) (hc : SeqGridTerm c) : noRooms c = true := by
  induction hc with
  | seqFlat b n hf _ => simp only [noRooms]; exact noRooms_flat b hf
  | gridFlat b dims hf _ => simp only [noRooms]; exact noRooms_flat b hf
  | seqNest b n _ ih => simp only [noRooms]; exact ih
  | gridNest b dims _ ih => simp only [noRooms]; exact ih

theorem single_nested (c : Comb) (hc : SeqGridTerm c) : single c = true := by
  cases hc <;> rfl

/-- **a problem returned by the decoder of a well-formed nested `Seq`/`Grid` term is accepted by the serializer,
without surplus** -/
theorem nested_dom (c : Comb) (hc : SeqGridTerm c) (hw : wf c = true) (s : Str) (h w : Nat) (p : PyVal)
    (hde : deProblem c s h w = .ok p) : Dom c h w p := by
  cases hc with
  | seqFlat b n hf hcl =>
    exact (seq_dom_of_baseOK b n h w _ hw (baseOK_flat ⟨h, w⟩ b (wf_seq_parts hw).1 hf hcl) s p hde).1
  | gridFlat b dims hf hcl =>
    exact (grid_dom_of_baseOK b dims h w _ hw (baseOK_flat ⟨h, w⟩ b (wf_grid_parts hw).1 hf hcl) s p hde).1
  | seqNest b n hb =>
    obtain ⟨P, hP⟩ := baseOK_nested ⟨h, w⟩ b hb (wf_seq_parts hw).1
    exact (seq_dom_of_baseOK b n h w P hw hP s p hde).1
  | gridNest b dims hb =>
    obtain ⟨P, hP⟩ := baseOK_nested ⟨h, w⟩ b hb (wf_grid_parts hw).1
    exact (grid_dom_of_baseOK b dims h w P hw hP s p hde).1

/-- **… so serializing it succeeds and decoding that canonical text returns the same problem** -/
theorem nested_reencodable (c : Comb) (hc : SeqGridTerm c) (hw : wf c = true) (s : Str) (h w : Nat) (p : PyVal)
    (hde : deProblem c s h w = .ok p) :
    ∃ s', serProblem c p h w = .ok s' ∧ deProblem c s' h w = .ok p := by
  obtain ⟨t, h1, _, h2⟩ := roundtrip c h w p hw (noRooms_nested c hc) (single_nested c hc)
    (nested_dom c hc hw s h w p hde)
  exact ⟨t, h1, h2⟩

end Cspuz.Ser.Nested
