/-
  A concrete loop for the non-vacuity examples of the loop puzzles: the unit square on the lattice with 2 × 2 points
  (the border of the single cell of a 1 × 1 Slitherlink board = the tour of the four cells of a 2 × 2 board).
-/
import CspuzModel.Spec.PuzzleRules.LoopAnswer
namespace Cspuz.Proofs.C11LoopEx
open Cspuz Cspuz.Spec Cspuz.Spec.FrameGeom Cspuz.Spec.Loop

theorem unitLoop : IsLoop 1 1 (fun _ => true) := by
  right
  refine ⟨[0, 1, 3, 2], [0, 3, 1, 2], by decide, by decide, rfl, by decide, ?_, ?_⟩
  · intro k hk
    have : k = 0 ∨ k = 1 ∨ k = 2 ∨ k = 3 := by simp at hk; omega
    rcases this with rfl | rfl | rfl | rfl
    · exact ⟨0, 0, 1, rfl, rfl, rfl, Or.inl rfl⟩
    · exact ⟨3, 1, 3, rfl, rfl, rfl, Or.inl rfl⟩
    · exact ⟨1, 3, 2, rfl, rfl, rfl, Or.inr rfl⟩
    · exact ⟨2, 2, 0, rfl, rfl, rfl, Or.inr rfl⟩
  · intro e he
    have : e = 0 ∨ e = 1 ∨ e = 2 ∨ e = 3 := by
      simp [latticeGraph, allSegs, hSegs, vSegs] at he; omega
    rcases this with rfl | rfl | rfl | rfl <;> decide

end Cspuz.Proofs.C11LoopEx
