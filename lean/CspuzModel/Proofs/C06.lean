import CspuzModel.Proofs.C06L1
import CspuzModel.Proofs.C06L2
import CspuzModel.Proofs.C06Line
import CspuzModel.Proofs.C06Prim
import CspuzModel.Proofs.C06Seq
/-! Assembly of the C06 theorems from the layers (statements: Properties/C06.lean). -/
namespace Cspuz.Proofs.C06
open Cspuz Cspuz.Spec

/-- auxiliary-variable route, degree form of the specification. -/
theorem cycle_regular_aux :
    ∀ (g : Graph) (ie : List Expr) (base : Nat) (p : Prog) (ids : List Expr) (σ : Asg),
      g.wf = true → LoopFree g → ie.length = g.edges.length → BoolArgs base ie →
      singleCycle g ie false base = .ok (p, ids) →
      ids = bvars base g.n ∧
      (Realizable base p σ ↔ RegularConnected g (truthAt σ ie)) ∧
      (∀ σ', AgreeBelow base σ σ' → SatFrag base p σ' →
        ∀ i, i < g.n → σ'.b (base + i) = visited g (truthAt σ ie) i) := by
  intro g ie base p ids σ hwf _ hlen hie hp
  have hn := C06L1.cyc_ok_pos hp
  rw [C06L1.cyc_eq_prog hn hwf hlen hie] at hp
  cases hp
  refine ⟨rfl, ?_, ?_⟩
  · rw [C06L1.cyc_realizable_iff_cert σ hwf hlen hie]
    exact C06L2.cert_iff_regular g _ hwf hn
  · intro σ' hag hs
    exact C06L1.cyc_passed_exact hwf hlen hie hag hs

/-- native-primitive route, degree form of the specification. -/
theorem cycle_regular_prim :
    ∀ (g : Graph) (ie : List Expr) (base : Nat) (p : Prog) (ids : List Expr) (σ : Asg),
      g.wf = true → LoopFree g → ie.length = g.edges.length → BoolArgs base ie →
      singleCycle g ie true base = .ok (p, ids) →
      ids = bvars base g.n ∧
      (Realizable base p σ ↔ RegularConnected g (truthAt σ ie)) ∧
      (∀ σ', AgreeBelow base σ σ' → SatFrag base p σ' →
        ∀ i, i < g.n → σ'.b (base + i) = visited g (truthAt σ ie) i) := by
  intro g ie base p ids σ hwf _ hlen hie hp
  rw [C06Prim.prim_eq_prog hwf hlen hie] at hp
  cases hp
  refine ⟨rfl, C06Prim.prim_realizable_iff σ hwf hlen hie, ?_⟩
  intro σ' hag hs
  exact C06Prim.prim_passed_exact hwf hlen hie hag hs

/-- `active_edges_single_path`, degree form of the specification. -/
theorem path_regular :
    ∀ (g : Graph) (ie : List Expr) (base : Nat) (p : Prog) (ids : List Expr) (σ : Asg),
      g.wf = true → LoopFree g → ie.length = g.edges.length → BoolArgs base ie →
      singlePath g ie true base = .ok (p, ids) →
      ids = bvars base g.n ∧
      (Realizable base p σ ↔ PathRegular g (truthAt σ ie)) ∧
      (∀ σ', AgreeBelow base σ σ' → SatFrag base p σ' →
        ∀ i, i < g.n → σ'.b (base + i) = visited g (truthAt σ ie) i) := by
  intro g ie base p ids σ hwf _ hlen hie hp
  obtain ⟨anyE, heq, hany⟩ := C06Prim.path_eq_prog hwf hlen hie
  rw [heq] at hp
  cases hp
  refine ⟨rfl, C06Prim.path_realizable_iff σ hwf hlen hie hany, ?_⟩
  intro σ' hag hs
  exact C06Prim.path_passed_exact hwf hlen hie hag (hany σ σ' hag) hs

/-- degree form ↔ cyclic-sequence form. -/
theorem regular_is_cycle :
    ∀ (g : Graph) (act : Nat → Bool), g.wf = true → LoopFree g →
      (RegularConnected g act ↔ SingleCycle g act) :=
  fun g act hwf hlf => C06Seq.regular_iff_cycle g act hwf hlf

/-- degree form ↔ path-sequence form. -/
theorem regular_is_path :
    ∀ (g : Graph) (act : Nat → Bool), g.wf = true → LoopFree g →
      (PathRegular g act ↔ SinglePath g act) :=
  fun g act hwf hlf => C06Seq.regular_iff_path g act hwf hlf

theorem cycle_aux :
    ∀ (g : Graph) (ie : List Expr) (base : Nat) (p : Prog) (ids : List Expr) (σ : Asg),
      g.wf = true → LoopFree g → ie.length = g.edges.length → BoolArgs base ie →
      singleCycle g ie false base = .ok (p, ids) →
      ids = bvars base g.n ∧
      (Realizable base p σ ↔ SingleCycle g (truthAt σ ie)) ∧
      (∀ σ', AgreeBelow base σ σ' → SatFrag base p σ' →
        ∀ i, i < g.n → σ'.b (base + i) = visited g (truthAt σ ie) i) := by
  intro g ie base p ids σ hwf hlf hlen hie hp
  obtain ⟨h1, h2, h3⟩ := cycle_regular_aux g ie base p ids σ hwf hlf hlen hie hp
  exact ⟨h1, h2.trans (regular_is_cycle g _ hwf hlf), h3⟩

theorem cycle_prim :
    ∀ (g : Graph) (ie : List Expr) (base : Nat) (p : Prog) (ids : List Expr) (σ : Asg),
      g.wf = true → LoopFree g → ie.length = g.edges.length → BoolArgs base ie →
      singleCycle g ie true base = .ok (p, ids) →
      ids = bvars base g.n ∧
      (Realizable base p σ ↔ SingleCycle g (truthAt σ ie)) ∧
      (∀ σ', AgreeBelow base σ σ' → SatFrag base p σ' →
        ∀ i, i < g.n → σ'.b (base + i) = visited g (truthAt σ ie) i) := by
  intro g ie base p ids σ hwf hlf hlen hie hp
  obtain ⟨h1, h2, h3⟩ := cycle_regular_prim g ie base p ids σ hwf hlf hlen hie hp
  exact ⟨h1, h2.trans (regular_is_cycle g _ hwf hlf), h3⟩

theorem path_exact :
    ∀ (g : Graph) (ie : List Expr) (base : Nat) (p : Prog) (ids : List Expr) (σ : Asg),
      g.wf = true → LoopFree g → ie.length = g.edges.length → BoolArgs base ie →
      singlePath g ie true base = .ok (p, ids) →
      ids = bvars base g.n ∧
      (Realizable base p σ ↔ SinglePath g (truthAt σ ie)) ∧
      (∀ σ', AgreeBelow base σ σ' → SatFrag base p σ' →
        ∀ i, i < g.n → σ'.b (base + i) = visited g (truthAt σ ie) i) := by
  intro g ie base p ids σ hwf hlf hlen hie hp
  obtain ⟨h1, h2, h3⟩ := path_regular g ie base p ids σ hwf hlf hlen hie hp
  exact ⟨h1, h2.trans (regular_is_path g _ hwf hlf), h3⟩

theorem path_aux_unimplemented (g : Graph) (ie : List Expr) (base : Nat) :
    singlePath g ie false base = .error .runtimeError := by
  simp [singlePath]

end Cspuz.Proofs.C06
