/-
  C08, planar lemma, direction "white cells connected ⇒ diagonal graph acyclic":
  a cycle gives an even edge set `Z`; the ray-casting parity `f Z` is constant along white–white
  grid edges (`f_horiz`, `f_vert`) but takes two values on white cells (`two_cells`).
-/
import CspuzModel.Proofs.C08PlanarDefs
import CspuzModel.Proofs.C08PlanarVert
import CspuzModel.Proofs.C08PlanarTwo
import CspuzModel.Proofs.C08PlanarGrid
namespace Cspuz.Proofs.C08PlanarHard
open Cspuz Cspuz.Spec SimpleGraph Cspuz.Proofs.C08PlanarDefs Cspuz.Proofs.C08PlanarGrid

variable {h w : Nat} {act : Nat → Bool}

theorem not_connected_of_evenSet (hh : 2 ≤ h) (hw : 2 ≤ w)
    (hNA : NoAdjacentActive (Graph.grid h w) act)
    {Z : Finset (Sym2 (DCell h w))} (hZ : EvenSet h w act Z) :
    ¬ ActiveConnected (Graph.grid h w) (fun v => !act v) := by
  intro hc
  obtain ⟨y, x, y', x', hy, hx, hwh, hy', hx', hwh', hne⟩ := C08PlanarTwo.two_cells hh hw hNA hZ
  apply hne
  refine const_of_reachable (h := h) (w := w) (act := act) (f Z) ?_
    (hy := hy) (hx := hx) (hwh := hwh) (hy' := hy') (hx' := hx') (hwh' := hwh')
    (hc (mkV y x hy hx hwh) (mkV y' x' hy' hx' hwh'))
  intro a b a' b' ha hb hab ha' hb' hab' hstep
  rcases hstep with ⟨rfl, rfl⟩ | ⟨rfl, rfl⟩
  · exact (f_horiz hZ hab).symm
  · exact (C08PlanarVert.f_vert hZ ha' hb hab hab').symm

/-- if the white cells are connected, the diagonal graph has no cycle -/
theorem forest_of_connected (hh : 2 ≤ h) (hw : 2 ≤ w)
    (hNA : NoAdjacentActive (Graph.grid h w) act)
    (hc : ActiveConnected (Graph.grid h w) (fun v => !act v)) : DiagForest h w act := by
  intro v p hp
  exact not_connected_of_evenSet hh hw hNA (evenSet_of_cycle p hp) hc

end Cspuz.Proofs.C08PlanarHard
