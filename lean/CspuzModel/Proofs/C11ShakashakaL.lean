/-
  C11 / shakashaka — step L: the constraints posted around the grid points (`PointOK`, for the points of the board)
  are equivalent to the local rules of the spec (`LocalRules`, all integer points), given `CluesOK`.
  L1: states of the cells and table look-ups; L2: the finite table (1296 cases); here: assembly.
-/
import CspuzModel.Proofs.C11ShakashakaL2
namespace Cspuz.Proofs.C11ShakashakaL
open Cspuz Cspuz.Spec Cspuz.Puzzles.Shakashaka Cspuz.Spec.Shakashaka Cspuz.Proofs.C11ShakashakaDefs
open Cspuz.Proofs.C11ShakashakaL1 Cspuz.Proofs.C11ShakashakaL2

theorem cs_eq_mk (pb : Problem) (g : Nat → Nat → Int) (y x : Int) :
    cs pb g y x = mk (cs pb g y x 0) (cs pb g y x 1) (cs pb g y x 2) (cs pb g y x 3) := by
  funext j
  match j with
  | 0 => rfl
  | 1 => rfl
  | 2 => rfl
  | n + 3 => rfl

theorem pointOK_iff_pointP (pb : Problem) (g : Nat → Nat → Int) (hcl : CluesOK pb g) (y x : Int) :
    PointOK pb g y x ↔ PointP (cs pb g y x) := by
  unfold PointOK PointP
  simp only [diagB_eq pb g hcl, emptyB_eq, angleB_eq]

/-- The `StraightOK` clause at the point `(py, px)`. -/
def SClause (pb : Problem) (g : Nat → Nat → Int) (py px : Int) : Prop :=
  ∀ i : Fin 8, i.val % 2 = 1 →
    White pb g (octant py px i) → ¬ White pb g (octant py px (i - 1)) →
    White pb g (octant py px (i + 1)) → White pb g (octant py px (i + 2)) → White pb g (octant py px (i + 3)) →
    ¬ White pb g (octant py px (i + 4)) →
    ∀ q, White pb g ⟨(octant py px (i + 1)).y, (octant py px (i + 1)).x, q⟩

theorem sclause_iff (pb : Problem) (g : Nat → Nat → Int) (y x : Int) :
    SClause pb g y x ↔ StraightP (cs pb g y x) := by
  unfold SClause StraightP
  simp only [white_octant, white_octant_cell]

theorem angles_iff (pb : Problem) (g : Nat → Nat → Int) (y x : Int) :
    AnglesOK (fun i => White pb g (octant y x i)) ↔ AnglesOK (fun i => ow (cs pb g y x) i = true) := by
  have : (fun i => White pb g (octant y x i)) = fun i => ow (cs pb g y x) i = true :=
    funext fun i => propext (white_octant pb g y x i)
  rw [this]

/-- At one grid point (any integers): the posted constraints say exactly what the local rules say there. -/
theorem point_iff (pb : Problem) (g : Nat → Nat → Int) (hcl : CluesOK pb g) (y x : Int) :
    PointOK pb g y x ↔ (AnglesOK (fun i => White pb g (octant y x i)) ∧ SClause pb g y x) := by
  have ht := table (cs pb g y x 0) (cs pb g y x 1) (cs pb g y x 2) (cs pb g y x 3)
  rw [← cs_eq_mk] at ht
  rw [pointOK_iff_pointP pb g hcl, angles_iff, sclause_iff]
  exact ht

theorem qc_range (y x : Int) (j : Nat) :
    ((qc y x j).1 = y - 1 ∨ (qc y x j).1 = y) ∧ ((qc y x j).2 = x - 1 ∨ (qc y x j).2 = x) := by
  unfold qc; split <;> simp

/-- Around a point outside the board (and not on its rim) all four cells are off the board. -/
theorem cs_off (pb : Problem) (g : Nat → Nat → Int) (y x : Int)
    (hr : ¬ (0 ≤ y ∧ y ≤ pb.height ∧ 0 ≤ x ∧ x ≤ pb.width)) (j : Nat) : cs pb g y x j = .off := by
  have hq := qc_range y x j
  have hw : ¬ whiteCell pb (qc y x j).1 (qc y x j).2 = true := by
    rw [whiteCell_iff]
    rintro ⟨h1, h2, h3, h4, _⟩
    omega
  unfold cs st
  rw [if_neg hw]

theorem pointP_off : PointP (mk .off .off .off .off) := by decide +kernel

theorem pointOK_out (pb : Problem) (g : Nat → Nat → Int) (hcl : CluesOK pb g) (y x : Int)
    (hr : ¬ (0 ≤ y ∧ y ≤ pb.height ∧ 0 ≤ x ∧ x ≤ pb.width)) : PointOK pb g y x := by
  rw [pointOK_iff_pointP pb g hcl, cs_eq_mk]
  simp only [cs_off pb g y x hr]
  exact pointP_off

theorem pointOK_iff_localRules (pb : Problem) (g : Nat → Nat → Int) (hcl : CluesOK pb g) :
    (∀ y : Nat, y ≤ pb.height → ∀ x : Nat, x ≤ pb.width → PointOK pb g y x) ↔ LocalRules pb g := by
  constructor
  · intro h
    have hall : ∀ py px : Int, PointOK pb g py px := by
      intro py px
      by_cases hr : 0 ≤ py ∧ py ≤ pb.height ∧ 0 ≤ px ∧ px ≤ pb.width
      · have := h py.toNat (by omega) px.toNat (by omega)
        rwa [Int.toNat_of_nonneg hr.1, Int.toNat_of_nonneg hr.2.2.1] at this
      · exact pointOK_out pb g hcl py px hr
    exact ⟨fun py px => ((point_iff pb g hcl py px).1 (hall py px)).1,
      fun py px => ((point_iff pb g hcl py px).1 (hall py px)).2⟩
  · rintro ⟨ha, hs⟩ y _ x _
    exact (point_iff pb g hcl y x).2 ⟨ha y x, hs y x⟩

end Cspuz.Proofs.C11ShakashakaL
