/-
  C15 for `ValuedRooms`: the (room, value) pairs survive `ValuedRooms.serialize` / `.deserialize` up to the
  canonical ordering — the decoded rooms are `canonRooms`, and the decoded values are `canonValues`, i.e. every value
  is still attached to its room.  The value layer `Seq(value, n)` is a hypothesis (it is an instance of the general
  composition theorem of C15).
-/
import CspuzModel.Proofs.C15ValuedEnc
namespace Cspuz.Ser
open Cspuz

theorem cells_sorted (h w : Nat) : (cells h w).Pairwise lexLt := by
  unfold cells
  rw [List.pairwise_flatMap]
  constructor
  · intro y _
    rw [List.pairwise_map]
    exact List.Pairwise.imp (fun hab => Or.inr ⟨rfl, hab⟩) List.pairwise_lt_range
  · exact List.Pairwise.imp (fun {a b} hab p hp q hq => by
      simp only [List.mem_map] at hp hq
      obtain ⟨_, _, rfl⟩ := hp
      obtain ⟨_, _, rfl⟩ := hq
      exact Or.inl hab) List.pairwise_lt_range

/-- in a room all of whose cells are on the board, the first cell in row-major order is the least one -/
theorem head_canonRoom {h w : Nat} {r : List (Nat × Nat)} (hr : r ≠ []) (hb : ∀ c ∈ r, c ∈ cells h w) :
    (canonRoom h w r).head? = some (roomMin r) := by
  unfold canonRoom
  rw [List.head?_filter, List.find?_eq_some_iff_append]
  have hm := roomMin_mem hr
  refine ⟨by simpa using hm, ?_⟩
  obtain ⟨as, bs, e⟩ := List.append_of_mem (hb _ hm)
  refine ⟨as, bs, e, ?_⟩
  intro a ha
  have hs := cells_sorted h w
  rw [e, List.pairwise_append] at hs
  have hlt : lexLt a (roomMin r) := hs.2.2 a ha _ List.mem_cons_self
  simp only [Bool.not_eq_eq_eq_not, Bool.not_true, List.contains_eq_mem, decide_eq_false_iff_not]
  intro har
  exact roomMin_le har hlt

/-- a sorted list of members of a sorted list is what filtering by membership gives -/
theorem filter_mem_sorted {l ms : List (Nat × Nat)} (hl : l.Pairwise lexLt) (hms : ms.Pairwise lexLt)
    (hsub : ∀ m ∈ ms, m ∈ l) : l.filter (fun c => decide (c ∈ ms)) = ms := by
  apply List.Perm.eq_of_pairwise (le := lexLt)
  · intro a b _ _ hab hba; exact absurd (lexLt_trans hab hba) (lexLt_irrefl a)
  · exact hl.filter _
  · exact hms
  · have nd : ∀ {k : List (Nat × Nat)}, k.Pairwise lexLt → k.Nodup :=
      fun hk => List.Pairwise.imp (S := fun a b => a ≠ b)
        (fun {a b} hab e => lexLt_irrefl a (by rw [← e] at hab; exact hab)) hk
    rw [List.perm_ext_iff_of_nodup (nd (hl.filter _)) (nd hms)]
    intro a
    simp only [List.mem_filter, decide_eq_true_eq]
    exact ⟨fun h => h.2, fun h => ⟨hsub a h, h⟩⟩

theorem find?_perm_unique {α} {p : α → Bool} {l l' : List α} (hp : l.Perm l')
    (hu : ∀ a ∈ l, ∀ b ∈ l, p a = true → p b = true → a = b) : l.find? p = l'.find? p := by
  cases h : l.find? p with
  | none =>
    rw [List.find?_eq_none] at h
    symm; rw [List.find?_eq_none]
    intro x hx; exact h x (hp.symm.subset hx)
  | some a =>
    have ha := List.mem_of_find?_eq_some h
    have hpa := List.find?_some h
    cases h' : l'.find? p with
    | none =>
      rw [List.find?_eq_none] at h'
      exact absurd hpa (h' a (hp.subset ha))
    | some b =>
      have hb := hp.symm.subset (List.mem_of_find?_eq_some h')
      rw [hu a ha b hb hpa (List.find?_some h')]

theorem find?_unique {α} {p : α → Bool} {l : List α} {a : α} (ha : a ∈ l) (hpa : p a = true)
    (hu : ∀ b ∈ l, p b = true → b = a) : l.find? p = some a := by
  cases h : l.find? p with
  | none => rw [List.find?_eq_none] at h; exact absurd hpa (h a ha)
  | some b => rw [hu b (List.mem_of_find?_eq_some h) (List.find?_some h)]


theorem pairwise_forall_ne {α} {R : α → α → Prop} (hs : ∀ {x y}, R x y → R y x) {l : List α} (hl : l.Pairwise R)
    {a b : α} (ha : a ∈ l) (hb : b ∈ l) (hne : a ≠ b) : R a b := by
  induction hl with
  | nil => simp at ha
  | @cons x l hx _ ih =>
    rcases List.mem_cons.1 ha with rfl | ha' <;> rcases List.mem_cons.1 hb with rfl | hb'
    · exact absurd rfl hne
    · exact hx b hb'
    · exact hs (hx a ha')
    · exact ih ha' hb'

/-- (room, value) pairs whose rooms are non-empty, on the board, pairwise disjoint and ordered by their least cell -/
structure SortedZ (h w : Nat) (Zs : List (List (Nat × Nat) × PyVal)) : Prop where
  nonempty : ∀ rv ∈ Zs, rv.1 ≠ []
  board : ∀ rv ∈ Zs, ∀ c ∈ rv.1, c ∈ cells h w
  disj : Zs.Pairwise fun a b => ∀ c, c ∈ a.1 → c ∈ b.1 → False
  sorted : Zs.Pairwise fun a b => ¬ lexLt (roomMin b.1) (roomMin a.1)

theorem SortedZ.uniq {h w : Nat} {Zs : List (List (Nat × Nat) × PyVal)} (sz : SortedZ h w Zs)
    {a b : List (Nat × Nat) × PyVal} (ha : a ∈ Zs) (hb : b ∈ Zs) {c : Nat × Nat} (hca : c ∈ a.1) (hcb : c ∈ b.1) :
    a = b := by
  by_cases e : a = b
  · exact e
  · exact absurd hcb (fun hcb => pairwise_forall_ne (fun {x y} hxy c h1 h2 => hxy c h2 h1) sz.disj ha hb e c hca hcb)

theorem SortedZ.mins_sorted {h w : Nat} {Zs : List (List (Nat × Nat) × PyVal)} (sz : SortedZ h w Zs) :
    (Zs.map fun rv => roomMin rv.1).Pairwise lexLt := by
  rw [List.pairwise_map]
  refine List.Pairwise.imp_of_mem ?_ (sz.disj.and sz.sorted)
  intro a b ha hb hab
  rcases lexLt_total (roomMin a.1) (roomMin b.1) with h1 | h1 | h1
  · exact h1
  · exact absurd (roomMin_mem (sz.nonempty b hb)) (fun h2 => hab.1 _ (roomMin_mem (sz.nonempty a ha)) (by rw [h1]; exact h2))
  · exact absurd h1 hab.2

theorem SortedZ.filterMap_eq {h w : Nat} {Zs : List (List (Nat × Nat) × PyVal)} (sz : SortedZ h w Zs) {β}
    (val : List (Nat × Nat) × PyVal → β) :
    (cells h w).filterMap (fun c => (Zs.find? (fun rv => rv.1.contains c)).bind fun rv =>
      if (canonRoom h w rv.1).head? = some c then some (val rv) else none) = Zs.map val := by
  have hA : ∀ c ∈ cells h w,
      ((Zs.find? (fun rv => rv.1.contains c)).bind fun rv =>
        if (canonRoom h w rv.1).head? = some c then some (val rv) else none) =
      if decide (c ∈ Zs.map fun rv => roomMin rv.1) = true then (Zs.find? (fun rv => rv.1.contains c)).map val
      else none := by
    intro c _
    cases hf : Zs.find? (fun rv => rv.1.contains c) with
    | none => simp
    | some rv =>
      have hrv := List.mem_of_find?_eq_some hf
      have hc : c ∈ rv.1 := by simpa using List.find?_some hf
      rw [Option.bind_some, Option.map_some, head_canonRoom (sz.nonempty rv hrv) (sz.board rv hrv)]
      have : (roomMin rv.1 = c) ↔ c ∈ Zs.map fun rv => roomMin rv.1 := by
        constructor
        · intro e; exact List.mem_map.2 ⟨rv, hrv, e⟩
        · intro hm
          obtain ⟨rv', hrv', e⟩ := List.mem_map.1 hm
          have hc' : c ∈ rv'.1 := by rw [← e]; exact roomMin_mem (sz.nonempty rv' hrv')
          rw [sz.uniq hrv hrv' hc hc']; exact e
      by_cases hm : c ∈ Zs.map fun rv => roomMin rv.1
      · simp [hm, this.2 hm]
      · have : ¬ roomMin rv.1 = c := fun e => hm (this.1 e)
        simp [hm, this]
  rw [List.filterMap_congr hA, ← List.filterMap_filter,
    filter_mem_sorted (cells_sorted h w) sz.mins_sorted, List.filterMap_map]
  · rw [← List.filterMap_eq_map']
    apply List.filterMap_congr
    intro rv hrv
    simp only [Function.comp]
    rw [find?_unique hrv (by simpa using roomMin_mem (sz.nonempty rv hrv))]
    · rfl
    · intro b hb hcb
      exact sz.uniq hb hrv (by simpa using hcb) (roomMin_mem (sz.nonempty rv hrv))
  · intro m hm
    obtain ⟨rv, hrv, rfl⟩ := List.mem_map.1 hm
    exact sz.board rv hrv _ (roomMin_mem (sz.nonempty rv hrv))

theorem ValidPartition.of_perm {h w : Nat} {rooms rooms' : List (List (Nat × Nat))} (hp : rooms'.Perm rooms)
    (hv : ValidPartition h w rooms) : ValidPartition h w rooms' where
  nonempty := fun r hr => hv.nonempty r (hp.subset hr)
  cover := hp.flatten.trans hv.cover
  connected := fun r hr => hv.connected r (hp.subset hr)

theorem ValidPartition.uniq_room {h w : Nat} {rooms : List (List (Nat × Nat))} (hv : ValidPartition h w rooms)
    {r r' : List (Nat × Nat)} (hr : r ∈ rooms) (hr' : r' ∈ rooms) {c : Nat × Nat} (hc : c ∈ r) (hc' : c ∈ r') :
    r = r' := by
  obtain ⟨k, hk, rfl⟩ := List.getElem_of_mem hr
  obtain ⟨k', hk', rfl⟩ := List.getElem_of_mem hr'
  have e1 := hv.roomOf_eq hk hc
  have e2 := hv.roomOf_eq hk' hc'
  have : k = k' := e1.symm.trans e2
  subst this; rfl

theorem canonRooms_perm {h w : Nat} {rooms rooms' : List (List (Nat × Nat))} (hp : rooms'.Perm rooms)
    (hv : ValidPartition h w rooms) : canonRooms h w rooms' = canonRooms h w rooms := by
  unfold canonRooms
  apply List.filterMap_congr
  intro c _
  rw [find?_perm_unique hp.symm (fun a ha b hb h1 h2 =>
    hv.uniq_room ha hb (by simpa using h1) (by simpa using h2))]

theorem rooms_ne_nil {h w : Nat} (hh : 1 ≤ h) (hw : 1 ≤ w) {rooms : List (List (Nat × Nat))}
    (hv : ValidPartition h w rooms) : rooms ≠ [] := by
  rintro rfl
  have := hv.cover.length_eq
  rw [length_cells] at this
  simp only [List.flatten_nil, List.length_nil] at this
  have : 1 ≤ h * w := Nat.mul_le_mul hh hw
  omega

/-- the sorted (room, value) pairs of a valid partition -/
theorem sortedZ_of_valid {h w : Nat} {rooms : List (List (Nat × Nat))} (hv : ValidPartition h w rooms)
    {values : List PyVal} (hl : values.length = rooms.length) :
    SortedZ h w (sortZ (rooms.zip values)) ∧ ((sortZ (rooms.zip values)).map (·.1)).Perm rooms := by
  have hperm : ((sortZ (rooms.zip values)).map (·.1)).Perm rooms := by
    have := (sortZ_perm (rooms.zip values)).map Prod.fst
    rwa [List.map_fst_zip (by omega)] at this
  have hv' := hv.of_perm hperm
  refine ⟨⟨?_, ?_, ?_, sortZ_sorted _⟩, hperm⟩
  · intro rv hrv; exact hv'.nonempty _ (List.mem_map_of_mem hrv)
  · intro rv hrv c hc
    have := hv'.mem_board (List.mem_map_of_mem (f := (·.1)) hrv) hc
    exact mem_cells.2 this
  · have := (List.nodup_flatten.1 hv'.nodup_flatten).2
    rw [List.pairwise_map] at this
    exact this.imp (fun hab c h1 h2 => hab h1 h2)

theorem canonRooms_sorted {h w : Nat} {Zs : List (List (Nat × Nat) × PyVal)} (sz : SortedZ h w Zs) :
    canonRooms h w (Zs.map (·.1)) = Zs.map fun rv => canonRoom h w rv.1 := by
  rw [← sz.filterMap_eq fun rv => canonRoom h w rv.1]
  unfold canonRooms
  apply List.filterMap_congr
  intro c _
  rw [List.find?_map]
  have : ((fun r : List (Nat × Nat) => r.contains c) ∘ fun rv : List (Nat × Nat) × PyVal => rv.1) =
      fun rv => rv.1.contains c := rfl
  rw [this]
  cases Zs.find? (fun rv => rv.1.contains c) <;> rfl

theorem canonValues_sorted {h w : Nat} {rooms : List (List (Nat × Nat))} (hv : ValidPartition h w rooms)
    {values : List PyVal} (hl : values.length = rooms.length) :
    canonValues h w rooms values = (sortZ (rooms.zip values)).map (·.2) := by
  obtain ⟨sz, _⟩ := sortedZ_of_valid hv hl
  rw [← sz.filterMap_eq fun rv => rv.2]
  unfold canonValues
  apply List.filterMap_congr
  intro c _
  rw [find?_perm_unique (sortZ_perm (rooms.zip values)) (fun a ha b hb h1 h2 =>
    sz.uniq ha hb (by simpa using h1) (by simpa using h2))]


/-- **C15, valued rooms**: whatever `ValuedRooms.serialize` emits for a valid partition with one value per room is
decoded, in any context, to the canonical rooms together with the values re-ordered along with their rooms
(`canonValues`): every value is still attached to the room it belonged to.  `hS` is the round trip of the value
layer `Seq(value, n)` (an instance of the composition theorem), `P` its condition on the continuation. -/
theorem valuedRooms_roundtrip (fv : SerF) (fd : DeF) (P : Str → Prop) (h w : Nat) (hh : 1 ≤ h) (hw : 1 ≤ w)
    (hB : BordersRT h w) (rooms : List (List (Nat × Nat))) (hv : ValidPartition h w rooms) (values : List PyVal)
    (hl : values.length = rooms.length)
    (hS : ∀ k t2, seqSer fv rooms.length [.list (canonValues h w rooms values)] 0 = .ok (k, t2) →
      ∀ pre rest, P rest → seqDe fd rooms.length (pre ++ t2 ++ rest) pre.length
        = .ok (t2.length, [.list (canonValues h w rooms values)]))
    (skip allow : Bool) (k : Nat) (t : Str)
    (hser : valuedRoomsSer fv ⟨h, w⟩ skip [.tuple [roomsVal rooms, .list values]] 0 = .ok (k, t)) :
    k = 1 ∧ ∀ pre rest, P rest →
      valuedRoomsDe fd ⟨h, w⟩ skip allow (pre ++ t ++ rest) pre.length =
        .ok (t.length, [.tuple [roomsVal (canonRooms h w rooms), .list (canonValues h w rooms values)]]) := by
  obtain ⟨sz, hperm⟩ := sortedZ_of_valid hv hl
  have hv' := hv.of_perm hperm
  rw [valuedRoomsSer_sorted fv ⟨h, w⟩ skip rooms values hv.nonempty hl (rooms_ne_nil hh hw hv)] at hser
  obtain ⟨r1, e1, hser⟩ := Outcome.bind_eq_ok.1 hser
  obtain ⟨r2, e2, hser⟩ := Outcome.bind_eq_ok.1 hser
  simp only [Outcome.ok.injEq, Prod.mk.injEq] at hser
  obtain ⟨rfl, rfl⟩ := hser
  obtain ⟨t1, e1', hde⟩ := rooms_roundtrip h w hh hw hB _ hv' skip allow
  rw [e1] at e1'
  simp only [Outcome.ok.injEq] at e1'
  subst e1'
  obtain ⟨k2, t2⟩ := r2
  refine ⟨rfl, ?_⟩
  intro pre rest hP
  have hvals : ((sortZ (rooms.zip values)).map (·.2)).length = rooms.length := by
    rw [List.length_map, sortZ_length, List.length_zip]; omega
  have hd2 := hS k2 t2 (by rw [canonValues_sorted hv hl]; exact e2) (pre ++ t1) rest hP
  have hd1 := hde pre (t2 ++ rest)
  have hctx : pre ++ (t1 ++ t2) ++ rest = pre ++ t1 ++ (t2 ++ rest) := by simp
  have hctx2 : pre ++ t1 ++ (t2 ++ rest) = pre ++ t1 ++ t2 ++ rest := by simp
  have hlen : ((canonRooms h w ((sortZ (rooms.zip values)).map (·.1))).map fun r => PyVal.list (r.map cellVal)).length
      = rooms.length := by
    rw [canonRooms_sorted sz, List.length_map, List.length_map, sortZ_length, List.length_zip]; omega
  unfold valuedRoomsDe
  simp only [hctx]
  rw [hd1]
  simp only [Outcome.bind_ok, roomsVal, hlen]
  rw [hctx2, ← List.length_append, hd2]
  simp only [Outcome.bind_ok, List.length_append]
  rw [canonRooms_perm hperm hv, canonValues_sorted hv hl]

/-- the encoder accepts every valid partition with one value per room, provided the value layer accepts the values
(in canonical order) -/
theorem valuedRoomsSer_ok (fv : SerF) (h w : Nat) (hh : 1 ≤ h) (hw : 1 ≤ w) (hB : BordersRT h w)
    (rooms : List (List (Nat × Nat))) (hv : ValidPartition h w rooms) (values : List PyVal)
    (hl : values.length = rooms.length) (skip : Bool) (k2 : Nat) (t2 : Str)
    (hseq : seqSer fv rooms.length [.list (canonValues h w rooms values)] 0 = .ok (k2, t2)) :
    ∃ t1, valuedRoomsSer fv ⟨h, w⟩ skip [.tuple [roomsVal rooms, .list values]] 0 = .ok (1, t1 ++ t2) := by
  obtain ⟨_, hperm⟩ := sortedZ_of_valid hv hl
  obtain ⟨t1, e1, _⟩ := rooms_roundtrip h w hh hw hB _ (hv.of_perm hperm) skip false
  refine ⟨t1, ?_⟩
  rw [valuedRoomsSer_sorted fv ⟨h, w⟩ skip rooms values hv.nonempty hl (rooms_ne_nil hh hw hv), e1,
    ← canonValues_sorted hv hl, hseq]
  rfl

end Cspuz.Ser
