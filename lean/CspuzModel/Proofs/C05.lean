import CspuzModel.Proofs.C05L1
import CspuzModel.Proofs.C05L2
import CspuzModel.Proofs.C05Prim
/-! Assembly of the C05 theorems from the layers (statements: Properties/C05.lean). -/
namespace Cspuz.Proofs.C05
open Cspuz Cspuz.Spec

theorem labOf_range {σ : Asg} {dv : List Expr} {n k : Nat} (h : InRange σ dv n k) :
    ∀ v, v < n → 0 ≤ labOf σ dv v ∧ labOf σ dv v < (k : Int) := by
  intro v hv
  obtain ⟨x, hx, h0, h1⟩ := h v hv
  simp only [labOf, hx, Option.getD_some]
  exact ⟨h0, h1⟩

theorem aux_exact :
    ∀ (g : Graph) (dv : List Expr) (k : Nat) (roots : Option (List (Option Nat))) (allowEmpty : Bool)
      (base : Nat) (p : Prog) (σ : Asg),
      g.wf = true → dv.length = g.n → IntArgs base dv → InRange σ dv g.n k →
      divisionConnected g dv k roots allowEmpty false base = .ok p →
      (Realizable base p σ ↔ DivisionOK g (labOf σ dv) k (roots.getD []) allowEmpty) := by
  intro g dv k roots allowEmpty base p σ hwf hlen hdv hr hp
  rw [C05L1.div_realizable_iff_cert g dv k roots allowEmpty base p σ hwf hlen hdv hp]
  exact C05L2.div_cert_iff g (labOf σ dv) k (roots.getD []) allowEmpty hwf (labOf_range hr)
    (fun c r h => by have := C05L1.div_ok_roots hp c r h; omega)

theorem prim_exact :
    ∀ (g : Graph) (dv : List Expr) (k : Nat) (roots : Option (List (Option Nat))) (allowEmpty : Bool)
      (base : Nat) (p : Prog) (σ : Asg),
      g.wf = true → dv.length = g.n → IntArgs base dv → InRange σ dv g.n k →
      divisionConnected g dv k roots allowEmpty true base = .ok p →
      (Realizable base p σ ↔ DivisionOK g (labOf σ dv) k (roots.getD []) allowEmpty) := by
  intro g dv k roots allowEmpty base p σ hwf hlen hdv _ hp
  exact C05Prim.prim_exact g dv k roots allowEmpty base p σ hwf hlen hdv hp

theorem total :
    ∀ (g : Graph) (dv : List Expr) (k : Nat) (roots : Option (List (Option Nat))) (allowEmpty prim : Bool)
      (base : Nat),
      0 < g.n → g.wf = true → dv.length = g.n → IntArgs base dv →
      (∀ (c r : Nat), (roots.getD [])[c]? = some (some r) → r < g.n) →
      ∃ p, divisionConnected g dv k roots allowEmpty prim base = .ok p := by
  intro g dv k roots allowEmpty prim base hn hwf hlen hdv hroots
  have hI : ∀ i (h : i < dv.length), dv[i].isIntLike = true :=
    fun i h => C05L1.intArgs_isIntLike hdv h
  have hroots' : ∀ (c r : Nat), (roots.getD [])[c]? = some (some r) → r < dv.length :=
    fun c r h => by have := hroots c r h; omega
  cases prim
  · exact ⟨_, C05L1.div_eq_prog hn hwf hlen hI hroots'⟩
  · exact ⟨_, C05Prim.prim_eq_prog hlen hI hroots'⟩

end Cspuz.Proofs.C05
